(* C13 — proofs about Model/C13_poly.v: the mathematical content of the affinity test *)
From Coq Require Import QArith Qcanon List Bool ZArith Lia.
From PV Require Import Model.C13_metadata Model.C13_poly Proofs.C13_metadata.
Import ListNotations.
Local Open Scope Qc_scope.

(* ---------- structural derivative and degree ---------- *)
Lemma drop1_length i m m' : In m' (drop1 i m) -> S (length m') = length m.
Proof.
  revert m'. induction m as [|x m IH]; intros m' H; simpl in *; [contradiction|].
  apply in_app_or in H. destruct H as [H|H].
  - destruct (Nat.eqb x i); simpl in H; [|contradiction]. destruct H as [<-|[]]. reflexivity.
  - apply in_map_iff in H. destruct H as [m0 [<- H]]. simpl. now rewrite (IH _ H).
Qed.

Lemma drop1_head x m : In m (drop1 x (x :: m)).
Proof. simpl. rewrite Nat.eqb_refl. now left. Qed.

Lemma pd_in i c m m' (P : poly) : In (c, m) P -> In m' (drop1 i m) -> In (c, m') (pd i P).
Proof.
  intros H1 H2. unfold pd. apply in_flat_map. exists (c, m). split; [exact H1|].
  simpl. apply in_map_iff. now exists m'.
Qed.

Lemma pd_inv i c m' (P : poly) : In (c, m') (pd i P) -> exists m, In (c, m) P /\ In m' (drop1 i m).
Proof.
  unfold pd. intros H. apply in_flat_map in H. destruct H as [[c0 m] [H1 H2]]. simpl in H2.
  apply in_map_iff in H2. destruct H2 as [m0 [E H2]]. inversion E; subst. now exists m.
Qed.

(* all second structural partial derivatives vanish  <->  total degree <= 1 *)
Lemma hess_zero_iff_degree P : hess_zero P <-> deg_le1 P = true.
Proof.
  unfold hess_zero, deg_le1. split.
  - intros H. apply forallb_forall. intros [c m] Hin. simpl.
    destruct m as [|x [|y m]]; try reflexivity. exfalso.
    assert (I1 : In (c, y :: m) (pd x P)) by (eapply pd_in; [exact Hin|apply drop1_head]).
    assert (I2 : In (c, m) (pd y (pd x P))) by (eapply pd_in; [exact I1|apply drop1_head]).
    rewrite (H y x) in I2. exact I2.
  - intros H i j. destruct (pd i (pd j P)) as [|[c m2] l] eqn:E; [reflexivity|exfalso].
    assert (I2 : In (c, m2) (pd i (pd j P))) by (rewrite E; now left).
    apply pd_inv in I2. destruct I2 as [m1 [I1 D2]].
    apply pd_inv in I1. destruct I1 as [m [I0 D1]].
    rewrite forallb_forall in H. specialize (H _ I0). simpl in H. apply Nat.leb_le in H.
    apply drop1_length in D1, D2. lia.
Qed.

(* ---------- degree <= 1  <->  member of the syntactic affine class ---------- *)
Lemma mono_pfree m : pfree (mono_aexp m) = Nat.eqb (length m) 0.
Proof. destruct m; reflexivity. Qed.

Lemma mono_affine m : affine (mono_aexp m) = Nat.leb (length m) 1.
Proof.
  destruct m as [|x m]; [reflexivity|]. simpl. rewrite mono_pfree. destruct m; reflexivity.
Qed.

Lemma term_affine t : affine (term_aexp t) = Nat.leb (length (snd t)) 1.
Proof.
  unfold term_aexp. simpl. rewrite mono_affine, mono_pfree.
  destruct (snd t) as [|x [|y m]]; reflexivity.
Qed.

Lemma degree_iff_affine P : deg_le1 P = affine (to_aexp P).
Proof.
  unfold deg_le1. induction P as [|t P IH]; [reflexivity|].
  change (to_aexp (t :: P)) with (Add (term_aexp t) (to_aexp P)).
  change (affine (Add (term_aexp t) (to_aexp P))) with (affine (term_aexp t) && affine (to_aexp P)).
  simpl forallb. now rewrite IH, term_affine.
Qed.

(* ---------- semantics ---------- *)
Lemma to_aexp_eval p P : eval p (to_aexp P) = peval p P.
Proof.
  induction P as [|[c m] P IH]; [reflexivity|].
  change (to_aexp ((c, m) :: P)) with (Add (term_aexp (c, m)) (to_aexp P)).
  simpl. rewrite IH. f_equal. f_equal. clear. induction m as [|x m IH]; simpl; [reflexivity|].
  now rewrite IH.
Qed.

Lemma to_aexp_safe p P : safe p (to_aexp P) = true.
Proof.
  induction P as [|[c m] P IH]; [reflexivity|].
  change (to_aexp ((c, m) :: P)) with (Add (term_aexp (c, m)) (to_aexp P)).
  simpl. rewrite IH, andb_true_r. clear. induction m as [|x m IH]; simpl; [reflexivity|exact IH].
Qed.

Lemma peval_app p P Q : peval p (P ++ Q) = peval p P + peval p Q.
Proof. induction P as [|t P IH]; simpl; [ring|]. rewrite IH. ring. Qed.

Lemma peval_scale p c P : peval p (pscale c P) = c * peval p P.
Proof. induction P as [|t P IH]; simpl; [ring|]. rewrite IH. ring. Qed.

Lemma meval_app p m n : meval p (m ++ n) = meval p m * meval p n.
Proof. induction m as [|x m IH]; simpl; [ring|]. rewrite IH. ring. Qed.

Lemma peval_cons p t P : peval p (t :: P) = fst t * meval p (snd t) + peval p P.
Proof. reflexivity. Qed.

Lemma peval_mul p P Q : peval p (pmul P Q) = peval p P * peval p Q.
Proof.
  unfold pmul. induction P as [|t P IH]; [simpl; ring|].
  cbn [flat_map]. rewrite peval_app, IH, peval_cons.
  assert (E : peval p (map (fun u => (fst t * fst u, snd t ++ snd u)) Q)
              = fst t * meval p (snd t) * peval p Q).
  { clear. induction Q as [|u Q IHQ]; [simpl; ring|].
    cbn [map]. rewrite !peval_cons. cbn [fst snd]. rewrite IHQ, meval_app. ring. }
  rewrite E. ring.
Qed.

Lemma peval_pow p P n : peval p (ppow P n) = Qcpower (peval p P) n.
Proof. induction n; simpl; [ring|]. now rewrite peval_mul, IHn. Qed.

(* the expansion denotes the same function *)
Lemma pnorm_eval p e : forall P, pnorm e = Some P -> safe p e = true -> eval p e = peval p P.
Proof.
  induction e; simpl; intros P H S.
  - injection H as <-. simpl. ring.
  - injection H as <-. simpl. ring.
  - destruct (pnorm e1) as [P1|], (pnorm e2) as [P2|]; try discriminate. injection H as <-.
    apply andb_prop in S. destruct S as [S1 S2].
    now rewrite peval_app, <- (IHe1 _ eq_refl S1), <- (IHe2 _ eq_refl S2).
  - destruct (pnorm e1) as [P1|], (pnorm e2) as [P2|]; try discriminate. injection H as <-.
    apply andb_prop in S. destruct S as [S1 S2].
    rewrite peval_app, peval_scale, <- (IHe1 _ eq_refl S1), <- (IHe2 _ eq_refl S2). ring.
  - destruct (pnorm e1) as [P1|], (pnorm e2) as [P2|]; try discriminate. injection H as <-.
    apply andb_prop in S. destruct S as [S1 S2].
    now rewrite peval_mul, <- (IHe1 _ eq_refl S1), <- (IHe2 _ eq_refl S2).
  - destruct (pfree e2) eqn:PF; [|discriminate].
    destruct (pnorm e1) as [P1|]; [|discriminate]. injection H as <-.
    apply andb_prop in S. destruct S as [S S3]. apply andb_prop in S. destruct S as [S1 S2].
    rewrite peval_scale, <- (IHe1 _ eq_refl S1), (pfree_eval e2 p PF). unfold Qcdiv. ring.
  - destruct (pnorm e) as [P1|]; [|discriminate]. injection H as <-.
    rewrite peval_scale, <- (IHe _ eq_refl S). ring.
  - destruct (pnorm e) as [P1|]; [|discriminate]. injection H as <-.
    now rewrite peval_pow, <- (IHe _ eq_refl S).
  - discriminate.
  - discriminate.
  - discriminate.
Qed.

(* ---------- C13_test_sound_partial ---------- *)
(* If the structural Hessian of the expansion is zero, the expansion is in the affine class and
   the affine rebuild of it reproduces the declared expression at every parameter valuation. *)
Lemma test_sound_poly e P p :
  pnorm e = Some P -> safe p e = true -> hess_zero P ->
  affine (to_aexp P) = true /\ rebuild (to_aexp P) p = eval p e.
Proof.
  intros N S H. apply hess_zero_iff_degree in H. rewrite degree_iff_affine in H. split; [exact H|].
  rewrite (affine_rebuild _ p H (to_aexp_safe p P)), to_aexp_eval. symmetry. now apply pnorm_eval.
Qed.

(* the syntactic affine class passes the test: its expansion has degree <= 1 *)
Lemma pscale_deg c P : deg_le1 (pscale c P) = deg_le1 P.
Proof. unfold deg_le1, pscale. induction P as [|t P IH]; simpl; congruence. Qed.

Definition deg0 (P : poly) : bool := forallb (fun t => Nat.eqb (length (snd t)) 0) P.

Lemma deg0_le1 P : deg0 P = true -> deg_le1 P = true.
Proof.
  unfold deg0, deg_le1. intros H. apply forallb_forall. intros t Ht.
  rewrite forallb_forall in H. specialize (H t Ht). apply Nat.eqb_eq in H. rewrite H. reflexivity.
Qed.

Lemma forallb_app' {A} (f : A -> bool) l m : forallb f (l ++ m) = forallb f l && forallb f m.
Proof. induction l; simpl; [reflexivity|]. now rewrite IHl, andb_assoc. Qed.

Lemma deg0_app P Q : deg0 (P ++ Q) = deg0 P && deg0 Q.
Proof. apply forallb_app'. Qed.
Lemma deg_le1_app P Q : deg_le1 (P ++ Q) = deg_le1 P && deg_le1 Q.
Proof. apply forallb_app'. Qed.

Lemma pmul_deg (f g h : nat -> bool) P Q :
  (forall a b, f a = true -> g b = true -> h (a + b)%nat = true) ->
  forallb (fun t => f (length (snd t))) P = true -> forallb (fun t => g (length (snd t))) Q = true ->
  forallb (fun t => h (length (snd t))) (pmul P Q) = true.
Proof.
  intros K HP HQ. unfold pmul. apply forallb_forall. intros t Ht.
  apply in_flat_map in Ht. destruct Ht as [t1 [I1 Ht]]. apply in_map_iff in Ht.
  destruct Ht as [t2 [<- I2]]. simpl. rewrite app_length.
  rewrite forallb_forall in HP, HQ. apply K; [exact (HP _ I1)|exact (HQ _ I2)].
Qed.

Lemma pscale_deg0 c P : deg0 (pscale c P) = deg0 P.
Proof. unfold deg0, pscale. induction P as [|t P IH]; simpl; congruence. Qed.

Lemma pfree_deg0 e : forall P, pnorm e = Some P -> pfree e = true -> deg0 P = true.
Proof.
  induction e; simpl; intros P H F; try discriminate.
  - injection H as <-. reflexivity.
  - destruct (pnorm e1) as [P1|], (pnorm e2) as [P2|]; try discriminate. injection H as <-.
    apply andb_prop in F. destruct F as [F1 F2]. rewrite deg0_app.
    now rewrite (IHe1 _ eq_refl F1), (IHe2 _ eq_refl F2).
  - destruct (pnorm e1) as [P1|], (pnorm e2) as [P2|]; try discriminate. injection H as <-.
    apply andb_prop in F. destruct F as [F1 F2]. rewrite deg0_app.
    now rewrite pscale_deg0, (IHe1 _ eq_refl F1), (IHe2 _ eq_refl F2).
  - destruct (pnorm e1) as [P1|], (pnorm e2) as [P2|]; try discriminate. injection H as <-.
    apply andb_prop in F. destruct F as [F1 F2].
    apply (pmul_deg (fun n => Nat.eqb n 0) (fun n => Nat.eqb n 0) (fun n => Nat.eqb n 0)).
    + intros a b Ha Hb. apply Nat.eqb_eq in Ha, Hb. subst. reflexivity.
    + exact (IHe1 _ eq_refl F1).
    + exact (IHe2 _ eq_refl F2).
  - apply andb_prop in F. destruct F as [F1 F2]. rewrite F2 in H.
    destruct (pnorm e1) as [P1|]; [|discriminate]. injection H as <-.
    now rewrite pscale_deg0, (IHe1 _ eq_refl F1).
  - destruct (pnorm e) as [P1|]; [|discriminate]. injection H as <-.
    now rewrite pscale_deg0, (IHe _ eq_refl F).
  - destruct (pnorm e) as [P1|]; [|discriminate]. injection H as <-.
    specialize (IHe _ eq_refl F). clear F. induction n; [reflexivity|]. simpl.
    apply (pmul_deg (fun n => Nat.eqb n 0) (fun n => Nat.eqb n 0) (fun n => Nat.eqb n 0)).
    + intros a b Ha Hb. apply Nat.eqb_eq in Ha, Hb. subst. reflexivity.
    + exact IHe.
    + exact IHn.
Qed.

Lemma affine_deg_le1 e : forall P, pnorm e = Some P -> affine e = true -> deg_le1 P = true.
Proof.
  induction e; simpl; intros P H A.
  - injection H as <-. reflexivity.
  - injection H as <-. reflexivity.
  - destruct (pnorm e1) as [P1|], (pnorm e2) as [P2|]; try discriminate. injection H as <-.
    apply andb_prop in A. destruct A as [A1 A2]. rewrite deg_le1_app.
    now rewrite (IHe1 _ eq_refl A1), (IHe2 _ eq_refl A2).
  - destruct (pnorm e1) as [P1|], (pnorm e2) as [P2|]; try discriminate. injection H as <-.
    apply andb_prop in A. destruct A as [A1 A2]. rewrite deg_le1_app.
    now rewrite pscale_deg, (IHe1 _ eq_refl A1), (IHe2 _ eq_refl A2).
  - destruct (pnorm e1) as [P1|] eqn:N1, (pnorm e2) as [P2|] eqn:N2; try discriminate. injection H as <-.
    apply orb_prop in A. destruct A as [A|A]; apply andb_prop in A; destruct A as [A1 A2].
    + apply (pmul_deg (fun n => Nat.eqb n 0) (fun n => Nat.leb n 1) (fun n => Nat.leb n 1)).
      * intros a b Ha Hb. apply Nat.eqb_eq in Ha. subst. exact Hb.
      * exact (pfree_deg0 e1 _ N1 A1).
      * exact (IHe2 _ eq_refl A2).
    + apply (pmul_deg (fun n => Nat.leb n 1) (fun n => Nat.eqb n 0) (fun n => Nat.leb n 1)).
      * intros a b Ha Hb. apply Nat.eqb_eq in Hb. subst. now rewrite Nat.add_0_r.
      * exact (IHe1 _ eq_refl A1).
      * exact (pfree_deg0 e2 _ N2 A2).
  - apply andb_prop in A. destruct A as [A1 A2]. rewrite A2 in H.
    destruct (pnorm e1) as [P1|]; [|discriminate]. injection H as <-.
    now rewrite pscale_deg, (IHe1 _ eq_refl A1).
  - destruct (pnorm e) as [P1|]; [|discriminate]. injection H as <-.
    now rewrite pscale_deg, (IHe _ eq_refl A).
  - destruct (pnorm e) as [P1|] eqn:N; [|discriminate]. injection H as <-.
    apply deg0_le1. exact (pfree_deg0 (Pow e n) _ ltac:(simpl; now rewrite N) A).
  - discriminate.
  - discriminate.
  - discriminate.
Qed.

(* ---------- the seeded replacement tests are refuted ---------- *)
Lemma Qc_neq_of_bool a b : Qc_eq_bool a b = false -> a <> b.
Proof.
  intros H E. subst b. unfold Qc_eq_bool in H. destruct (Qc_eq_dec a a); [discriminate|congruence].
Qed.

Definition pqr : aexp := Mul (Mul (Par 0) (Par 1)) (Par 2).
Definition pq : aexp := Mul (Par 0) (Par 1).
Definition ones3 : list Qc := [1; 1; 1].

(* numeric Hessian at p = 0 (seeded C13/m1): p*q*r passes, but its rebuild is the constant 0 *)
Lemma numeric_test_refuted :
  exists e P p, pnorm e = Some P /\ hess_num0 P /\ ~ hess_zero P /\ rebuild e p <> eval p e.
Proof.
  exists pqr, [(1 * 1 * 1, [0; 1; 2]%nat)], ones3. split; [reflexivity|]. split; [|split].
  - intros i j. destruct j as [|[|[|j]]]; destruct i as [|[|[|i]]]; vm_compute; reflexivity.
  - intros H. specialize (H 1%nat 0%nat). vm_compute in H. discriminate H.
  - apply Qc_neq_of_bool. vm_compute. reflexivity.
Qed.

(* per-parameter second derivatives only (seeded C19/m1): p*q passes, rebuild is the constant 0 *)
Lemma blockdiag_test_refuted :
  exists e P p, pnorm e = Some P /\ hess_diag P /\ ~ hess_zero P /\ rebuild e p <> eval p e.
Proof.
  exists pq, [(1 * 1, [0; 1]%nat)], ones3. split; [reflexivity|]. split; [|split].
  - intros i. destruct i as [|[|i]]; vm_compute; reflexivity.
  - intros H. specialize (H 1%nat 0%nat). vm_compute in H. discriminate H.
  - apply Qc_neq_of_bool. vm_compute. reflexivity.
Qed.

(* ---------- value and first derivative of the expansion at p = 0 ---------- *)
Definition m0 (m : list nat) : Qc := match m with [] => 1 | _ => 0 end.
Definition dm0 (i : nat) (m : list nat) : Qc :=
  match m with [x] => if Nat.eqb i x then 1 else 0 | _ => 0 end.
Definition pc0 (P : list (Qc * list nat)) : Qc := fold_right (fun t acc => fst t * m0 (snd t) + acc) 0 P.
Definition pd0 (i : nat) (P : list (Qc * list nat)) : Qc :=
  fold_right (fun t acc => fst t * dm0 i (snd t) + acc) 0 P.

Lemma pc0_cons t P : pc0 (t :: P) = fst t * m0 (snd t) + pc0 P. Proof. reflexivity. Qed.
Lemma pd0_cons i t P : pd0 i (t :: P) = fst t * dm0 i (snd t) + pd0 i P. Proof. reflexivity. Qed.

Lemma pc0_app P Q : pc0 (P ++ Q) = pc0 P + pc0 Q.
Proof. induction P as [|t P IH]; [simpl; ring|]. cbn [app]. rewrite !pc0_cons, IH. ring. Qed.
Lemma pd0_app i P Q : pd0 i (P ++ Q) = pd0 i P + pd0 i Q.
Proof. induction P as [|t P IH]; [simpl; ring|]. cbn [app]. rewrite !pd0_cons, IH. ring. Qed.
Lemma pc0_scale c P : pc0 (pscale c P) = c * pc0 P.
Proof. induction P as [|t P IH]; [simpl; ring|]. cbn [pscale map]. fold (pscale c P). rewrite !pc0_cons, IH. cbn [fst snd]. ring. Qed.
Lemma pd0_scale i c P : pd0 i (pscale c P) = c * pd0 i P.
Proof. induction P as [|t P IH]; [simpl; ring|]. cbn [pscale map]. fold (pscale c P). rewrite !pd0_cons, IH. cbn [fst snd]. ring. Qed.

Lemma m0_app m n : m0 (m ++ n) = m0 m * m0 n.
Proof. destruct m; simpl; [ring|ring]. Qed.
Lemma dm0_app i m n : dm0 i (m ++ n) = dm0 i m * m0 n + m0 m * dm0 i n.
Proof.
  destruct m as [|x [|y m]]; simpl.
  - ring.
  - destruct n; simpl; ring.
  - ring.
Qed.

Lemma pc0_mul P Q : pc0 (pmul P Q) = pc0 P * pc0 Q.
Proof.
  unfold pmul. induction P as [|t P IH]; [simpl; ring|].
  cbn [flat_map]. rewrite pc0_app, IH, pc0_cons.
  assert (E : pc0 (map (fun u => (fst t * fst u, snd t ++ snd u)) Q) = fst t * m0 (snd t) * pc0 Q).
  { clear. induction Q as [|u Q IHQ]; [simpl; ring|].
    cbn [map]. rewrite !pc0_cons. cbn [fst snd]. rewrite IHQ, m0_app. ring. }
  rewrite E. ring.
Qed.

Lemma pd0_mul i P Q : pd0 i (pmul P Q) = pd0 i P * pc0 Q + pc0 P * pd0 i Q.
Proof.
  unfold pmul. induction P as [|t P IH]; [simpl; ring|].
  cbn [flat_map]. rewrite pd0_app, IH, pd0_cons, pc0_cons.
  assert (E : pd0 i (map (fun u => (fst t * fst u, snd t ++ snd u)) Q)
              = fst t * dm0 i (snd t) * pc0 Q + fst t * m0 (snd t) * pd0 i Q).
  { clear. induction Q as [|u Q IHQ]; [simpl; ring|].
    cbn [map]. rewrite !pd0_cons, !pc0_cons. cbn [fst snd]. rewrite IHQ, dm0_app. ring. }
  rewrite E. ring.
Qed.

Lemma pc0_pow P n : pc0 (ppow P n) = Qcpower (pc0 P) n.
Proof. induction n; [simpl; ring|]. cbn [ppow]. rewrite pc0_mul, IHn. reflexivity. Qed.

Lemma qnat_S n : qnat (S n) = qnat n + 1.
Proof.
  unfold qnat. apply Qc_is_canon.
  change (Qred (inject_Z (Z.of_nat (S n))) == Qred (Qred (inject_Z (Z.of_nat n)) + 1%Q)).
  rewrite !Qred_correct. unfold inject_Z, Qeq, Qplus. cbn [Qnum Qden]. rewrite Nat2Z.inj_succ. lia.
Qed.

Lemma qnat_1 : qnat 1 = 1.
Proof. apply Qc_is_canon. reflexivity. Qed.

Lemma pd0_pow i P n :
  pd0 i (ppow P n) = match n with O => 0 | S m => qnat n * Qcpower (pc0 P) m * pd0 i P end.
Proof.
  induction n as [|m IH]; [simpl; ring|].
  cbn [ppow]. rewrite pd0_mul, pc0_pow, IH. destruct m as [|k].
  - rewrite qnat_1. simpl. ring.
  - rewrite (qnat_S (S k)). simpl. ring.
Qed.

(* the derivative the code evaluates (d0, v0 on the expression) is the derivative of the expansion *)
Lemma ad_expansion p e : forall P, pnorm e = Some P -> safe p e = true ->
  v0 e = pc0 P /\ forall i, d0 e i = pd0 i P.
Proof.
  induction e; simpl; intros P H S.
  - injection H as <-. split; [unfold v0; simpl; ring|intros; simpl; ring].
  - injection H as <-. split; [unfold v0; simpl; destruct i; ring|].
    intros j. simpl. destruct (Nat.eqb j i); ring.
  - destruct (pnorm e1) as [P1|], (pnorm e2) as [P2|]; try discriminate. injection H as <-.
    apply andb_prop in S. destruct S as [S1 S2].
    destruct (IHe1 _ eq_refl S1) as [V1 D1], (IHe2 _ eq_refl S2) as [V2 D2].
    split; [rewrite pc0_app, <- V1, <- V2; reflexivity|intros i; now rewrite pd0_app, D1, D2].
  - destruct (pnorm e1) as [P1|], (pnorm e2) as [P2|]; try discriminate. injection H as <-.
    apply andb_prop in S. destruct S as [S1 S2].
    destruct (IHe1 _ eq_refl S1) as [V1 D1], (IHe2 _ eq_refl S2) as [V2 D2].
    split; [rewrite pc0_app, pc0_scale, <- V1, <- V2; unfold v0; simpl; ring|].
    intros i. rewrite pd0_app, pd0_scale, D1, D2. ring.
  - destruct (pnorm e1) as [P1|], (pnorm e2) as [P2|]; try discriminate. injection H as <-.
    apply andb_prop in S. destruct S as [S1 S2].
    destruct (IHe1 _ eq_refl S1) as [V1 D1], (IHe2 _ eq_refl S2) as [V2 D2].
    split; [rewrite pc0_mul, <- V1, <- V2; reflexivity|].
    intros i. now rewrite pd0_mul, D1, D2, V1, V2.
  - destruct (pfree e2) eqn:PF; [|discriminate].
    destruct (pnorm e1) as [P1|]; [|discriminate]. injection H as <-.
    apply andb_prop in S. destruct S as [S S3]. apply andb_prop in S. destruct S as [S1 S2].
    destruct (IHe1 _ eq_refl S1) as [V1 D1].
    apply qnz_neq in S3. rewrite (pfree_eval e2 p PF) in S3.
    split; [rewrite pc0_scale, <- V1; unfold v0; simpl; fold (v0 e1) (v0 e2); unfold Qcdiv; ring|].
    intros i. rewrite pd0_scale, <- D1, (pfree_d0 e2 i PF). field. exact S3.
  - destruct (pnorm e) as [P1|]; [|discriminate]. injection H as <-.
    destruct (IHe _ eq_refl S) as [V1 D1].
    split; [rewrite pc0_scale, <- V1; unfold v0; simpl; ring|].
    intros i. rewrite pd0_scale, D1. ring.
  - destruct (pnorm e) as [P1|]; [|discriminate]. injection H as <-.
    destruct (IHe _ eq_refl S) as [V1 D1].
    split; [rewrite pc0_pow, <- V1; reflexivity|].
    intros i. rewrite pd0_pow, <- V1, D1. destruct n; reflexivity.
  - discriminate.
  - discriminate.
  - discriminate.
Qed.

(* a degree <= 1 expansion is its own first-order Taylor polynomial at 0 *)
Lemma deg_le1_taylor p P :
  deg_le1 P = true -> peval p P = dot (fun i => pd0 i P) p 0 + pc0 P.
Proof.
  unfold deg_le1. induction P as [|[c m] P IH]; intros H.
  - simpl. rewrite dot_zero. ring.
  - cbn [forallb] in H. apply andb_prop in H. destruct H as [H1 H2]. simpl in H1.
    rewrite peval_cons, (IH H2), pc0_cons. cbn [fst snd].
    rewrite (dot_ext (fun i => pd0 i ((c, m) :: P)) (fun i => c * dm0 i m + pd0 i P)) by (intros i; apply pd0_cons).
    rewrite dot_add, dot_scale. destruct m as [|x [|y m]]; [| |discriminate].
    + simpl. rewrite dot_zero. ring.
    + rewrite (dot_ext (fun i => dm0 i [x]) (fun i => if Nat.eqb i x then 1 else 0)) by (intros; reflexivity).
      rewrite (dot_delta x p 0). simpl. rewrite Nat.sub_0_r. ring.
Qed.

(* C13_test_sound on the polynomial fragment *)
Lemma test_sound_rebuild e P p :
  pnorm e = Some P -> safe p e = true -> hess_zero P -> rebuild e p = eval p e.
Proof.
  intros N S H. apply hess_zero_iff_degree in H.
  destruct (ad_expansion p e P N S) as [V D].
  unfold rebuild. rewrite (dot_ext _ (fun i => pd0 i P)) by exact D.
  rewrite V, <- (deg_le1_taylor p P H). symmetry. now apply pnorm_eval.
Qed.

(* ---------- C13_values with the modelled test instead of the syntactic class ---------- *)
Lemma cell_val_rb_test p c :
  cell_test c && cell_safe p c = true -> cell_val true p c = cell_val false p c.
Proof.
  destruct c as [x|e]; simpl; [reflexivity|]. intros H. apply andb_prop in H. destruct H as [T S].
  destruct (pnorm e) as [P|] eqn:N; [|discriminate].
  f_equal. apply (test_sound_rebuild e P p N S). now apply hess_zero_iff_degree.
Qed.

Lemma metadata_spec_test rb M p :
  model_wf M = true -> safe_ok p M = true -> (rb = true -> test_ok M = true) ->
  metadata rb M p = Some (spec_metadata p M).
Proof.
  intros W S A. rewrite <- (direct_spec p M W). destruct rb; [|reflexivity].
  specialize (A eq_refl). unfold metadata, test_ok, safe_ok in *.
  destruct (cells M) as [cs|]; [|discriminate]. f_equal.
  apply (map3_ext_forall (fun c => cell_test c && cell_safe p c)).
  - now apply forall3_and.
  - intros c. apply cell_val_rb_test.
Qed.
