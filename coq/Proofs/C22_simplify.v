(* C22 — proofs about Model/C22_simplify.v *)
From Coq Require Import ZArith List Bool Arith Lia.
From PV Require Import Model.C22_delay Model.C22_simplify Proofs.C22_delay.
Import ListNotations.

(* ---- sequential application and composition of substitutions ---- *)
Definition app_seq (ss : list subst) (e : expr) : expr := fold_left (fun x s => app_subst s x) ss e.
Definition rec_seq (ss : list subst) (r : drec) : drec := fold_left (fun x s => sub_rec s x) ss r.

(* first s1, then s2, as ONE substitution *)
Definition compose (s1 s2 : subst) : subst := sub_vals s2 s1 ++ s2.
Definition compose_all (ss : list subst) : subst := fold_left compose ss [].

Lemma lookup_app {A} v (l1 l2 : list (nat * A)) :
  lookup v (l1 ++ l2) = match lookup v l1 with Some x => Some x | None => lookup v l2 end.
Proof.
  induction l1 as [|[k x] l IH]; simpl; [reflexivity|]. destruct (Nat.eqb v k); [reflexivity | exact IH].
Qed.

Lemma lookup_sub_vals v s l :
  lookup v (sub_vals s l) = match lookup v l with Some x => Some (app_subst s x) | None => None end.
Proof.
  induction l as [|[k x] l IH]; simpl; [reflexivity|]. destruct (Nat.eqb v k); [reflexivity | exact IH].
Qed.

Lemma app_compose s1 s2 e : app_subst s2 (app_subst s1 e) = app_subst (compose s1 s2) e.
Proof.
  induction e; simpl; try reflexivity;
    try (rewrite IHe1, IHe2; reflexivity); try (rewrite IHe; reflexivity).
  - destruct s; simpl; try reflexivity.
    unfold compose. rewrite lookup_app, lookup_sub_vals.
    destruct (lookup v s1) as [x|]; [reflexivity|]. simpl. reflexivity.
  - rewrite IHe1, IHe2, IHe3, IHe4. reflexivity.
Qed.

Lemma app_nil e : app_subst [] e = e.
Proof.
  induction e; simpl; try reflexivity; try (rewrite IHe1, IHe2; reflexivity); try (rewrite IHe; reflexivity).
  - destruct s; reflexivity.
  - rewrite IHe1, IHe2, IHe3, IHe4. reflexivity.
Qed.

Lemma app_seq_compose_from ss : forall s0 e,
  fold_left (fun x s => app_subst s x) ss (app_subst s0 e) = app_subst (fold_left compose ss s0) e.
Proof.
  induction ss as [|s ss IH]; intros s0 e; simpl; [reflexivity|].
  rewrite app_compose. apply IH.
Qed.

Lemma app_seq_compose ss e : app_seq ss e = app_subst (compose_all ss) e.
Proof.
  unfold app_seq, compose_all. rewrite <- (app_nil e) at 1. apply app_seq_compose_from.
Qed.

Lemma rec_seq_fields ss : forall r,
  rec_seq ss r = mkD (app_seq ss (dr_expr r)) (app_seq ss (dr_dur r)) (dr_loop r).
Proof.
  unfold rec_seq, app_seq. induction ss as [|s ss IH]; intro r; simpl; [destruct r; reflexivity|].
  rewrite IH. reflexivity.
Qed.

(* ---- the delay arguments follow every step ---- *)
Lemma do_step_args f st :
  st_args (snd (do_step f st)) = map (sub_rec (fst (do_step f st))) (st_args st).
Proof. unfold do_step. destruct (f st) as [s st']. reflexivity. Qed.

Theorem run_args fs : forall st,
  st_args (snd (run fs st)) = map (rec_seq (fst (run fs st))) (st_args st).
Proof.
  induction fs as [|f fs IH]; intro st; simpl.
  - unfold rec_seq. simpl. rewrite map_id. reflexivity.
  - pose proof (do_step_args f st) as H. destruct (do_step f st) as [s st1]. simpl in H.
    specialize (IH st1). destruct (run fs st1) as [ss st2]. simpl in *.
    rewrite IH, H, map_map. reflexivity.
Qed.

Corollary follow_main o sm :
  let tr := run (steps_of o (sm_elim sm)) (init sm) in
  st_args (final o sm) =
    map (fun r => mkD (app_subst (compose_all (fst tr)) (dr_expr r))
                      (app_subst (compose_all (fst tr)) (dr_dur r)) (dr_loop r)) (st_args (init sm)) /\
  (forall r, rec_seq (fst tr) r =
     mkD (app_seq (fst tr) (dr_expr r)) (app_seq (fst tr) (dr_dur r)) (dr_loop r)).
Proof.
  cbv zeta. split.
  - unfold final. rewrite run_args. apply map_ext. intro r.
    rewrite rec_seq_fields, !app_seq_compose. reflexivity.
  - apply rec_seq_fields.
Qed.

(* ---- the decision on the simplified model ---- *)
Definition bad_s (st : sst) (s : sym) : Prop :=
  s = STime \/
  (exists v, s = SVar v /\ (In v (st_states st) \/ In v (st_alg st) \/ In (v, false) (st_inputs st))) \/
  (exists v, s = SDer v /\ In v (st_states st)).

Lemma disallowed_s_bad st s : In s (disallowed_s st) <-> bad_s st s.
Proof.
  unfold disallowed_s, bad_s. repeat rewrite in_app_iff. repeat rewrite in_map_iff. simpl. split.
  - intros [[H | []] | [[v [<- Hv]] | [[v [<- Hv]] | [[v [<- Hv]] | [[v f] [<- Hx]]]]]].
    + left; auto.
    + right; left. exists v. auto.
    + right; right. exists v. auto.
    + right; left. exists v. auto.
    + apply filter_In in Hx. destruct Hx as [Hx Hf]. simpl in Hf. apply negb_true_iff in Hf. subst f.
      right; left. exists v. auto.
  - intros [-> | [[v [-> [H | [H | H]]]] | [v [-> H]]]].
    + left; left; reflexivity.
    + right; left. exists v. auto.
    + right; right; right; left. exists v. auto.
    + right; right; right; right. exists (v, false). split; [reflexivity|].
      apply filter_In. split; [exact H | reflexivity].
    + right; right; left. exists v. auto.
Qed.

Lemma accept_s_false_iff st :
  accept_s st = false <->
  exists r s, In r (st_args st) /\ In s (deps (dr_dur r)) /\ bad_s st s.
Proof.
  unfold accept_s. destruct (st_args st) as [|r0 l] eqn:E.
  - split; [discriminate | intros [r [s [[] _]]]].
  - rewrite forallb_false_iff. split.
    + intros [r [Hr Hd]]. apply negb_false_iff in Hd.
      apply existsb_exists in Hd. destruct Hd as [s [Hs Hm]]. apply mem_sym_In in Hm.
      exists r, s. split; [exact Hr | split; [exact Hs | apply disallowed_s_bad; exact Hm]].
    + intros [r [s [Hr [Hs Hd]]]]. exists r. split; [exact Hr|].
      apply negb_false_iff. apply existsb_exists. exists s.
      split; [exact Hs | apply mem_sym_In; apply disallowed_s_bad; exact Hd].
Qed.

(* reject <-> some ORIGINAL duration, after the composed substitution of the enabled steps, depends on time /
   a state / a derivative / an algebraic variable / a non-fixed input OF THE SIMPLIFIED MODEL *)
Theorem simplify_decision o sm :
  let ss := fst (run (steps_of o (sm_elim sm)) (init sm)) in
  accept_s (final o sm) = false <->
  exists r0 s, In r0 (st_args (init sm)) /\
               In s (deps (app_subst (compose_all ss) (dr_dur r0))) /\ bad_s (final o sm) s.
Proof.
  cbv zeta. rewrite accept_s_false_iff.
  destruct (follow_main o sm) as [Hf _]. cbv zeta in Hf. split.
  - intros [r [s [Hr [Hs Hb]]]]. rewrite Hf in Hr. apply in_map_iff in Hr.
    destruct Hr as [r0 [<- Hr0]]. exists r0, s. auto.
  - intros [r0 [s [Hr0 [Hs Hb]]]].
    exists (mkD (app_subst (compose_all (fst (run (steps_of o (sm_elim sm)) (init sm)))) (dr_expr r0))
                (app_subst (compose_all (fst (run (steps_of o (sm_elim sm)) (init sm)))) (dr_dur r0)) (dr_loop r0)), s.
    split; [rewrite Hf; apply in_map_iff; exists r0; auto | auto].
Qed.

(* accepted and the function can be built: every duration depends only on constants, parameters and fixed
   inputs of the simplified model (what is left of them after the enabled replace_* steps) *)
Definition good_s (st : sst) (s : sym) : Prop :=
  exists v, s = SVar v /\
    ((exists e, In (v, e) (st_consts st)) \/ (exists e, In (v, e) (st_params st)) \/ In (v, true) (st_inputs st)).

Lemma known_s_split st s :
  In s (known_s st) -> bad_s st s \/ good_s st s.
Proof.
  unfold known_s. repeat rewrite in_app_iff. repeat rewrite in_map_iff. simpl.
  intros [[H | []] | [[v [<- Hv]] | [[v [<- Hv]] | [[v [<- Hv]] | [[[v f] [<- Hx]] | [[[v e] [<- Hx]] | [[v e] [<- Hx]]]]]]]].
  - left; left; auto.
  - left; right; left. exists v. auto.
  - left; right; right. exists v. auto.
  - left; right; left. exists v. auto.
  - simpl. destruct f.
    + right. exists v. auto.
    + left; right; left. exists v. auto.
  - right. exists v. simpl. split; [reflexivity|]. left. exists e. exact Hx.
  - right. exists v. simpl. split; [reflexivity|]. right; left. exists e. exact Hx.
Qed.

Theorem simplify_accept_closed st :
  accept_s st = true -> closed_s st = true ->
  forall r s, In r (st_args st) -> In s (deps (dr_dur r)) -> good_s st s.
Proof.
  intros Ha Hc r s Hr Hs.
  unfold closed_s in Hc. rewrite forallb_forall in Hc. specialize (Hc r Hr).
  rewrite forallb_forall in Hc. assert (Hk : In s (known_s st)).
  { apply mem_sym_In. apply Hc. apply in_or_app. right. exact Hs. }
  destruct (known_s_split st s Hk) as [Hb | Hg]; [|exact Hg].
  assert (accept_s st = false) by (apply accept_s_false_iff; exists r, s; auto). congruence.
Qed.

Lemma outcome_s_cases st pts :
  (accept_s st = false -> outcome_s st pts = ORej) /\
  (accept_s st = true -> closed_s st = false -> outcome_s st pts = OFuncFail) /\
  (accept_s st = true -> closed_s st = true -> outcome_s st pts = OAcc (map (outputs_s st) pts)).
Proof.
  unfold outcome_s. repeat split; intros; repeat match goal with H : _ = _ |- _ => rewrite H end; reflexivity.
Qed.

(* ---- values: a substitution whose bindings hold in a valuation does not change any value ---- *)
Lemma app_subst_eval en i s e :
  (forall v x, lookup v s = Some x -> eval en i x = var_at en v 1) ->
  eval en i (app_subst s e) = eval en i e.
Proof.
  intro H. induction e; simpl; try reflexivity;
    try (rewrite IHe1, IHe2; reflexivity); try (rewrite IHe; reflexivity).
  - destruct s0; simpl; try reflexivity.
    destruct (lookup v s) as [x|] eqn:E; [|reflexivity]. exact (H v x E).
  - rewrite IHe1, IHe2, IHe3, IHe4. reflexivity.
Qed.

Lemma app_seq_eval en i ss : forall e,
  (forall s, In s ss -> forall v x, lookup v s = Some x -> eval en i x = var_at en v 1) ->
  eval en i (app_seq ss e) = eval en i e.
Proof.
  unfold app_seq. induction ss as [|s ss IH]; intros e H; simpl; [reflexivity|].
  rewrite IH by (intros s' Hs'; apply H; right; exact Hs').
  apply app_subst_eval. apply H. left; reflexivity.
Qed.

Theorem args_value fs st en :
  (forall s, In s (fst (run fs st)) -> forall v x, lookup v s = Some x -> eval en 0 x = var_at en v 1) ->
  forall k r, nth_error (st_args st) k = Some r ->
  exists r', nth_error (st_args (snd (run fs st))) k = Some r' /\
             eval en 0 (dr_expr r') = eval en 0 (dr_expr r) /\
             eval en 0 (dr_dur r') = eval en 0 (dr_dur r) /\ dr_loop r' = dr_loop r.
Proof.
  intros H k r Hk. rewrite run_args. exists (rec_seq (fst (run fs st)) r).
  split; [rewrite nth_error_map, Hk; reflexivity|].
  rewrite rec_seq_fields. simpl. repeat split; apply app_seq_eval; exact H.
Qed.
