(* C14 — get_derivative's chain rule (`dexpr`) computes the time derivative of the expression *)
From Coq Require Import ZArith QArith Qcanon List Bool PArith.
Import ListNotations.
From PV Require Import Model.C14_simplify Proofs.C14_simplify.
Open Scope Qc_scope.

(* derivative of e along a trajectory with values r and time derivatives dr (dual numbers) *)
Fixpoint eval_d (r dr : env) (e : expr) : Qc :=
  match e with
  | Sym x => dr x
  | Const _ => 0
  | Un Neg a => - eval_d r dr a
  | Un Twice a => eval_d r dr a + eval_d r dr a
  | Un Sq a => (eval r a + eval r a) * eval_d r dr a
  | Bin Add a b => eval_d r dr a + eval_d r dr b
  | Bin Sub a b => eval_d r dr a - eval_d r dr b
  | Bin Mul a b => eval_d r dr a * eval r b + eval r a * eval_d r dr b
  end.

(* the derivative environment read off the valuation: a differentiated name x (dm maps it to its
   symbol der(x)) has derivative r(der(x)); every other symbol is constant in time *)
Definition dr_of (r : env) (dm : list (name * name)) : env :=
  fun x => match lookup x dm with Some dx => r dx | None => 0 end.

Lemma dexpr_is_derivative f dm r e :
  eval r (dexpr (S f) dm [] e) = eval_d r (dr_of r dm) e.
Proof.
  induction e as [x | q | o a IH | o a IHa b IHb]; simpl in *.
  - unfold dr_of. destruct (lookup x dm); reflexivity.
  - reflexivity.
  - destruct o; rewrite ?mk_bin_sound, ?mk_un_sound; simpl; rewrite ?mk_un_sound; simpl; rewrite IH; ring.
  - destruct o; rewrite ?mk_bin_sound; simpl; rewrite ?mk_bin_sound; simpl; rewrite IHa, IHb; ring.
Qed.
