(* C15 — detect_aliases pairs each dropped equation with exactly one removed algebraic unknown and
   never eliminates a non-eliminable variable; composition of the square bookkeeping. *)
From Coq Require Import ZArith QArith Qcanon List Bool PArith Lia Permutation.
Import ListNotations.
From PV Require Import Model.C14_simplify Proofs.C14_simplify Proofs.C14_compose.

Definition mnames (R : list acls) : list name := flat_map (fun cl => map fst (snd cl)) R.
Definition cnames (R : list acls) : list name := map fst R.

(* invariant of the alias relation during detect_aliases: member names are pairwise distinct,
   no canonical variable is a member, no member is in do_not_eliminate *)
Definition relinv (dne : list name) (R : list acls) : Prop :=
  NoDup (mnames R) /\ (forall c, In c (cnames R) -> ~ In c (mnames R))
  /\ (forall x, In x (mnames R) -> mem x dne = false).

Lemma lookup_none_notin' {B} x (l : list (name * B)) : lookup x l = None -> ~ In x (map fst l).
Proof.
  induction l as [| [y v] l IH]; simpl; auto.
  destruct (Pos.eqb x y) eqn:E; try discriminate. intros H [K | K].
  - subst. rewrite Pos.eqb_refl in E. discriminate.
  - now apply IH.
Qed.
Lemma lookup_some_in {B} x (l : list (name * B)) n : lookup x l = Some n -> In x (map fst l).
Proof. intro H. apply lookup_In in H. apply in_map_iff. exists (x, n). auto. Qed.

Lemma canon_cases R x :
  (In (fst (canon R x)) (cnames R) \/ (fst (canon R x) = x /\ ~ In x (mnames R)))
  /\ (fst (canon R x) = x \/ In x (mnames R)).
Proof.
  induction R as [| [c ms] R IH]; simpl.
  - split; [right; split; auto | left; reflexivity].
  - destruct (Pos.eqb c x) eqn:E.
    + apply Pos.eqb_eq in E. subst. simpl. split; [left; left; reflexivity | left; reflexivity].
    + destruct (lookup x ms) as [n |] eqn:L; simpl.
      * split; [left; left; reflexivity | right; apply in_or_app; left; eapply lookup_some_in; eauto].
      * destruct IH as [[IH1 | [IH1 IH2]] IH3]; split.
        -- left. right. exact IH1.
        -- destruct IH3; [left; assumption | right; apply in_or_app; right; assumption].
        -- right. split; auto. intro K. apply in_app_or in K. destruct K as [K | K]; auto.
           eapply lookup_none_notin'; eauto.
        -- destruct IH3; [left; assumption | right; apply in_or_app; right; assumption].
Qed.

Lemma canon_not_member dne R x : relinv dne R -> ~ In (fst (canon R x)) (mnames R).
Proof.
  intros [_ [I2 _]]. destruct (canon_cases R x) as [[H | [H1 H2]] _]; [now apply I2 | now rewrite H1].
Qed.
Lemma canon_dne dne R x : relinv dne R -> mem x dne = true -> fst (canon R x) = x.
Proof.
  intros [_ [_ M1]] Hx. destruct (canon_cases R x) as [_ [H | H]]; auto.
  rewrite (M1 _ H) in Hx. discriminate.
Qed.

(* filter splits the member names up to permutation *)
Lemma mnames_filter_perm (p : acls -> bool) R :
  Permutation (mnames (filter (fun cl => negb (p cl)) R) ++ mnames (filter p R)) (mnames R).
Proof.
  induction R as [| cl R IH]; simpl; auto.
  destruct (p cl); simpl.
  - unfold mnames at 2. simpl. fold (mnames (filter p R)).
    eapply Permutation_trans; [apply Permutation_app_swap_app |]. now apply Permutation_app_head.
  - unfold mnames at 1. simpl. fold (mnames (filter (fun cl0 => negb (p cl0)) R)).
    rewrite <- app_assoc. now apply Permutation_app_head.
Qed.

Lemma mnames_app R1 R2 : mnames (R1 ++ R2) = mnames R1 ++ mnames R2.
Proof. unfold mnames. apply flat_map_app. Qed.

Lemma map_fst_resign (flip : bool) (l : list (name * bool)) :
  map fst (map (fun '(v, n) => (v, xorb n flip)) l) = map fst l.
Proof. rewrite map_map. apply map_ext. intros [v n]. reflexivity. Qed.

Lemma map_fst_members_of c R : map fst (members_of c R) = mnames (filter (fun cl => Pos.eqb (fst cl) c) R).
Proof.
  unfold members_of, mnames. induction (filter (fun cl => Pos.eqb (fst cl) c) R) as [| cl l IH]; simpl; auto.
  rewrite map_app, IH. reflexivity.
Qed.

(* (ii) an add that joins two different classes adds exactly one member: the old canonical *)
Lemma arel_add_struct dne R a b nb R' :
  relinv dne R -> arel_add R a b nb = Some R' ->
  mem (fst (canon R b)) dne = false ->
  (R' = R /\ fst (canon R a) = fst (canon R b))
  \/ (Permutation (mnames R') (fst (canon R b) :: mnames R) /\ relinv dne R').
Proof.
  intros Inv. unfold arel_add.
  pose proof (canon_not_member dne R a Inv) as Na. pose proof (canon_not_member dne R b Inv) as Nb.
  destruct (canon R a) as [ca na]. destruct (canon R b) as [cb nb0]. simpl in *.
  destruct (Pos.eqb ca cb) eqn:E.
  - destruct (Bool.eqb na (xorb nb nb0)); try discriminate. intros H _. inversion H.
    left. split; auto. now apply Pos.eqb_eq.
  - intros H Hd. inversion H. subst R'. clear H. right.
    apply Pos.eqb_neq in E.
    set (flip := xorb na (xorb nb nb0)).
    assert (P : Permutation (mnames (arel_remove cb R ++
                 [(ca, (cb, flip) :: map (fun '(v, n) => (v, xorb n flip)) (members_of cb R))]))
                            (cb :: mnames R)).
    { rewrite mnames_app. unfold mnames at 2. simpl. rewrite app_nil_r, map_fst_resign, map_fst_members_of.
      eapply Permutation_trans; [apply Permutation_sym; apply Permutation_middle |].
      apply perm_skip. unfold arel_remove.
      apply (mnames_filter_perm (fun cl => Pos.eqb (fst cl) cb) R). }
    split; [exact P |].
    destruct Inv as [I1 [I2 M1]].
    split; [| split].
    + eapply Permutation_NoDup; [apply Permutation_sym; exact P |]. constructor; auto.
    + intros c Hc Hm. apply (Permutation_in _ P) in Hm.
      unfold cnames in Hc. rewrite map_app in Hc. apply in_app_or in Hc. simpl in Hc.
      destruct Hc as [Hc | [Hc | []]].
      * apply in_map_iff in Hc. destruct Hc as [cl [Ec Hc]]. unfold arel_remove in Hc.
        apply filter_In in Hc. destruct Hc as [Hc Hne]. apply negb_true_iff in Hne. apply Pos.eqb_neq in Hne.
        subst c. destruct Hm as [Hm | Hm]; [exfalso; apply Hne; symmetry; exact Hm |].
        apply (I2 (fst cl)); auto. unfold cnames. now apply in_map.
      * subst c. destruct Hm as [Hm | Hm]; [exfalso; apply E; symmetry; exact Hm | contradiction].
    + intros x Hx. apply (Permutation_in _ P) in Hx. destruct Hx as [<- | Hx]; auto.
Qed.

Definition declared (al dne : list name) (x : name) : Prop := mem x al = true \/ mem x dne = true.

(* (i) the member that make_alias eliminates is never in do_not_eliminate *)
Lemma make_alias_cb ad al dl dne R d0 d1 neg R' :
  relinv dne R -> declared al dne d0 -> declared al dne d1 ->
  make_alias ad al dl dne R d0 d1 neg = Some R' ->
  exists a o, arel_add R o a neg = Some R' /\ mem (fst (canon R a)) dne = false.
Proof.
  intros Inv D0 D1. unfold make_alias.
  destruct (mem d0 al) eqn:A0.
  - destruct (mem d1 al) eqn:A1; simpl.
    + destruct (mem (fst (canon R d0)) dne) eqn:C0; simpl.
      * destruct (negb ad && (mem d1 dl || mem d0 dl)); try discriminate.
        destruct (mem (fst (canon R d1)) dne) eqn:C1; rewrite ?C0; simpl; try discriminate.
        intro H. exists d1, d0. auto.
      * destruct (negb ad && (mem d0 dl || mem d1 dl)); try discriminate.
        rewrite C0. simpl. intro H. exists d0, d1. auto.
    + destruct (negb ad && (mem d0 dl || mem d1 dl)); try discriminate.
      destruct (mem (fst (canon R d0)) dne) eqn:C0; simpl.
      * destruct D1 as [D1 | D1]; [congruence |].
        rewrite (canon_dne dne R d1 Inv D1), D1. discriminate.
      * intro H. exists d0, d1. auto.
  - destruct (mem d1 al) eqn:A1; simpl; try discriminate.
    destruct (negb ad && (mem d1 dl || mem d0 dl)); try discriminate.
    destruct (mem (fst (canon R d1)) dne) eqn:C1; simpl.
    + destruct D0 as [D0 | D0]; [congruence |].
      rewrite (canon_dne dne R d0 Inv D0), D0. discriminate.
    + intro H. exists d1, d0. auto.
Qed.

(* no alias equation is redundant: every alias that is made adds a member *)
Fixpoint da_nored (ad : bool) (al dl dne pc : list name) (R : list acls) (es : list expr) : bool :=
  match es with
  | [] => true
  | e :: es' =>
      match detect_alias pc e with
      | Some (d0, d1, neg) =>
          match make_alias ad al dl dne R d0 d1 neg with
          | Some R1 => Nat.eqb (length (mnames R1)) (S (length (mnames R)))
                       && da_nored ad al dl dne pc R1 es'
          | None => da_nored ad al dl dne pc R es'
          end
      | None => da_nored ad al dl dne pc R es'
      end
  end.

Definition da_decl (pc al dne : list name) (es : list expr) : Prop :=
  forall e d0 d1 n, In e es -> detect_alias pc e = Some (d0, d1, n) ->
                    declared al dne d0 /\ declared al dne d1.

Lemma da_loop_struct ad al dl dne pc : forall es R R' kept,
  relinv dne R -> da_decl pc al dne es ->
  da_loop ad al dl dne pc R es = (R', kept) -> da_nored ad al dl dne pc R es = true ->
  exists news, Permutation (mnames R') (news ++ mnames R)
               /\ (length news + length kept = length es)%nat /\ relinv dne R'.
Proof.
  induction es as [| e es IH]; intros R R' kept Inv Hd; simpl.
  - intro H. inversion H. subst. intros _. exists []. simpl. auto.
  - assert (Hd' : da_decl pc al dne es).
    { intros e' d0 d1 n Hin. apply Hd. now right. }
    destruct (detect_alias pc e) as [[[d0 d1] neg] |] eqn:D.
    + destruct (make_alias ad al dl dne R d0 d1 neg) as [R1 |] eqn:M.
      * intros H Hn. apply andb_true_iff in Hn. destruct Hn as [Hl Hn]. apply Nat.eqb_eq in Hl.
        destruct (Hd e d0 d1 neg (or_introl eq_refl) D) as [D0 D1].
        destruct (make_alias_cb _ _ _ _ _ _ _ _ _ Inv D0 D1 M) as [a [o [Add Hcb]]].
        destruct (arel_add_struct dne R o a neg R1 Inv Add Hcb) as [[-> _] | [P Inv1]]; [lia |].
        destruct (IH _ _ _ Inv1 Hd' H Hn) as [news [P' [L I']]].
        exists (news ++ [fst (canon R a)]). split; [| split; [| exact I']].
        -- eapply Permutation_trans; [exact P' |]. rewrite <- app_assoc.
           apply Permutation_app_head. exact P.
        -- rewrite app_length. simpl. lia.
      * destruct (da_loop ad al dl dne pc R es) as [R2 k2] eqn:E. intro H. inversion H. subst.
        intro Hn. destruct (IH _ _ _ Inv Hd' E Hn) as [news [P' [L I']]].
        exists news. split; [exact P' | split; [simpl; lia | exact I']].
    + destruct (da_loop ad al dl dne pc R es) as [R2 k2] eqn:E. intro H. inversion H. subst.
      intro Hn. destruct (IH _ _ _ Inv Hd' E Hn) as [news [P' [L I']]].
      exists news. split; [exact P' | split; [simpl; lia | exact I']].
Qed.

(* ---- list bookkeeping ---- *)
Lemma Permutation_filter' {A} (p : A -> bool) l l' :
  Permutation l l' -> Permutation (filter p l) (filter p l').
Proof.
  induction 1; simpl; auto.
  - destruct (p x); auto.
  - destruct (p x), (p y); auto. apply perm_swap.
  - eapply Permutation_trans; eauto.
Qed.

Lemma gone_eq {C} (p : name -> bool) (g : acls -> bool -> C) (R : list acls) :
  map fst (flat_map (fun cl => map (fun '(a, n) => (a, g cl n))
                                   (filter (fun '(a, _) => p a) (snd cl))) R)
  = filter p (mnames R).
Proof.
  induction R as [| cl R IH]; simpl; auto.
  rewrite map_app, IH. unfold mnames at 2. simpl. fold (mnames R). rewrite filter_app. f_equal.
  induction (snd cl) as [| [a n] ms IHm]; simpl; auto.
  destruct (p a); simpl; now rewrite IHm.
Qed.

Lemma old_member_iff R0 a : old_member R0 a = true <-> In a (mnames R0).
Proof.
  unfold old_member, mnames. rewrite existsb_exists, in_flat_map. split.
  - intros [cl [H1 H2]]. exists cl. split; auto.
    destruct (lookup a (snd cl)) eqn:L; try discriminate. eapply lookup_some_in; eauto.
  - intros [cl [H1 H2]]. exists cl. split; auto.
    destruct (lookup a (snd cl)) eqn:L; auto. exfalso. eapply lookup_none_notin'; eauto.
Qed.

Lemma filter_notin_cons y g l :
  filter (fun x => negb (mem x (y :: g))) l = filter (fun x => negb (mem x g)) (remove1 y l).
Proof.
  unfold remove1. induction l as [| x l IH]; [reflexivity |]. cbn [filter]. rewrite IH.
  replace (mem x (y :: g)) with (Pos.eqb x y || mem x g) by reflexivity.
  rewrite (Pos.eqb_sym y x). destruct (Pos.eqb x y); simpl; [reflexivity |].
  destruct (mem x g); reflexivity.
Qed.

Lemma filter_notin_len g : forall l, NoDup l -> NoDup g -> incl g l ->
  (length (filter (fun x => negb (mem x g)) l) + length g = length l)%nat.
Proof.
  induction g as [| y g IH]; intros l Nl Ng Hi.
  - simpl. rewrite (filter_all (fun _ => true)); [lia |]. clear. induction l; simpl; auto.
  - inversion Ng as [| ? ? Hy Ng']. subst.
    rewrite filter_notin_cons. simpl length.
    assert (Hm : mem y l = true) by (apply mem_In; apply Hi; now left).
    pose proof (remove1_length y l Nl Hm) as Hl.
    assert (Hi' : incl g (remove1 y l)).
    { intros x Hx. unfold remove1. apply filter_In. split; [apply Hi; now right |].
      apply negb_true_iff. apply Pos.eqb_neq. intro E. subst. contradiction. }
    specialize (IH _ (remove1_NoDup y l Nl) Ng' Hi'). lia.
Qed.

Lemma filter_keep_all (g l : list name) :
  (forall x, In x l -> mem x g = false) -> filter (fun x => negb (mem x g)) l = l.
Proof.
  intro H. apply filter_all. apply forallb_forall. intros x Hx. now rewrite (H x Hx).
Qed.

Lemma existsb_false_in {A} (f : A -> bool) l x : existsb f l = false -> In x l -> f x = false.
Proof.
  intros H Hin. destruct (f x) eqn:E; auto.
  assert (existsb f l = true) by (apply existsb_exists; eauto). congruence.
Qed.
Lemma mem_app x l1 l2 : mem x (l1 ++ l2) = mem x l1 || mem x l2.
Proof. unfold mem. apply existsb_app. Qed.

Lemma NoDup_app_disj {A} (l1 l2 : list A) x : NoDup (l1 ++ l2) -> In x l1 -> In x l2 -> False.
Proof.
  induction l1 as [| a l1 IH]; simpl; [tauto |]. intros H [-> | H1] H2; inversion H as [| ? ? Hn Hd]; subst.
  - apply Hn. apply in_or_app. now right.
  - now apply IH.
Qed.

Lemma NoDup_app_l {A} (l1 l2 : list A) : NoDup (l1 ++ l2) -> NoDup l1.
Proof.
  induction l1 as [| a l1 IH]; simpl; intro H; [constructor |].
  inversion H as [| ? ? Hn Hd]; subst. constructor; auto. intro K. apply Hn. apply in_or_app. now left.
Qed.

Definition dne_of (m : model) : list name :=
  ders m ++ states m ++ inputs m ++ map fst (params m) ++ map fst (consts m).
Definition pc_of (m : model) : list name := map fst (params m) ++ map fst (consts m).

Theorem square_detect_aliases ad m :
  NoDup (algs m) -> relinv (dne_of m) (arel m) ->
  da_decl (pc_of m) (algs m) (dne_of m) (eqs m) ->
  da_nored ad (algs m) (ders m) (dne_of m) (pc_of m) (arel m) (eqs m) = true ->
  failed (detect_aliases ad m) = false ->
  let m' := detect_aliases ad m in
  (length (algs m') + length (eqs m) = length (algs m) + length (eqs m'))%nat
  /\ ders m' = ders m /\ states m' = states m /\ inputs m' = inputs m
  /\ params m' = params m /\ consts m' = consts m /\ NoDup (algs m').
Proof.
  unfold dne_of, pc_of, detect_aliases. intros ND Inv Hd Hn.
  destruct (da_loop ad (algs m) (ders m)
              (ders m ++ states m ++ inputs m ++ map fst (params m) ++ map fst (consts m))
              (map fst (params m) ++ map fst (consts m)) (arel m) (eqs m)) as [R kept] eqn:E.
  destruct (da_loop_struct _ _ _ _ _ _ _ _ _ Inv Hd E Hn) as [news [P [L Inv']]].
  match goal with |- context [if ?c then _ else _] => destruct c eqn:B end.
  { simpl. congruence. }
  intros _. cbv zeta. simpl.
  set (p := fun a => negb (old_member (arel m) a)).
  match goal with |- context [filter (fun x => negb (mem x ?g0)) (algs m)] => set (gone := g0) end.
  assert (G : gone = filter p (mnames R)).
  { unfold gone. apply (gone_eq p (fun cl n => sgn n (Sym (fst cl)))). }
  destruct Inv' as [I1 [I2 M1]].
  assert (NDa : NoDup (news ++ mnames (arel m))) by (eapply Permutation_NoDup; eauto).
  assert (PG : Permutation gone news).
  { rewrite G. eapply Permutation_trans; [apply Permutation_filter'; exact P |].
    rewrite filter_app.
    assert (F1 : filter p news = news).
    { apply filter_all. apply forallb_forall. intros x Hx. unfold p. apply negb_true_iff.
      destruct (old_member (arel m) x) eqn:O; auto. apply old_member_iff in O.
      exfalso. eapply (NoDup_app_disj news (mnames (arel m)) x); eauto. }
    rewrite F1. rewrite (filter_none p); [now rewrite app_nil_r |].
    apply forallb_forall. intros x Hx. unfold p. rewrite negb_involutive. now apply old_member_iff. }
  assert (Hgone : forall x, In x gone -> mem x (algs m) = true /\ mem x
              (ders m ++ states m ++ inputs m ++ map fst (params m) ++ map fst (consts m)) = false).
  { intros x Hx. rewrite G in Hx. apply filter_In in Hx. destruct Hx as [Hx Hp].
    pose proof (M1 x Hx) as Hdne. split; auto.
    unfold mnames in Hx. apply in_flat_map in Hx. destruct Hx as [cl [Hcl Hx]].
    apply in_map_iff in Hx. destruct Hx as [[a n] [Ea Hx]]. simpl in Ea. subst a.
    pose proof (existsb_false_in _ _ cl B Hcl) as Bc. simpl in Bc.
    apply orb_false_iff in Bc. destruct Bc as [_ Bc].
    assert (Hf : In (x, n) (filter (fun '(a, _) => negb (old_member (arel m) a)) (snd cl))).
    { apply filter_In. split; auto. }
    pose proof (existsb_false_in _ _ (x, n) Bc Hf) as Bx. simpl in Bx. apply negb_false_iff in Bx.
    rewrite !mem_app in *.
    repeat match goal with H : _ || _ = false |- _ => apply orb_false_iff in H; destruct H end.
    repeat match goal with H : mem x ?l = false, H' : context [mem x ?l] |- _ => rewrite H in H' end.
    simpl in Bx. now rewrite ?orb_false_r in Bx. }
  assert (Hnot : forall l, (forall x, In x l -> mem x
              (ders m ++ states m ++ inputs m ++ map fst (params m) ++ map fst (consts m)) = true) ->
              forall x, In x l -> mem x gone = false).
  { intros l Hl x Hx. destruct (mem x gone) eqn:Mg; auto. apply mem_In in Mg.
    destruct (Hgone x Mg) as [_ Hd']. rewrite (Hl x Hx) in Hd'. discriminate. }
  assert (NDg : NoDup gone).
  { eapply Permutation_NoDup; [apply Permutation_sym; exact PG |]. now apply NoDup_app_l in NDa. }
  assert (Hincl : incl gone (algs m)).
  { intros x Hx. apply mem_In. now destruct (Hgone x Hx). }
  pose proof (filter_notin_len gone (algs m) ND NDg Hincl) as FL.
  pose proof (Permutation_length PG) as LG.
  rewrite !map_length.
  assert (Hin : forall l pre post, (forall x, In x l -> mem x (pre ++ l ++ post) = true)).
  { intros l pre post x Hx. rewrite !mem_app. apply mem_In in Hx. rewrite Hx. now rewrite orb_true_r. }
  repeat split.
  - lia.
  - apply filter_keep_all. apply (Hnot (ders m)). intros x Hx. apply (Hin (ders m) [] _ x Hx).
  - apply filter_keep_all. apply (Hnot (states m)). intros x Hx. apply (Hin (states m) (ders m) _ x Hx).
  - apply filter_keep_all. apply (Hnot (inputs m)). intros x Hx.
    rewrite app_assoc. apply (Hin (inputs m) (ders m ++ states m) _ x Hx).
  - apply filter_all. apply forallb_forall. intros [x v] Hx. apply negb_true_iff.
    apply (Hnot (map fst (params m))); [| apply in_map_iff; exists (x, v); auto].
    intros y Hy. rewrite !app_assoc. rewrite <- (app_assoc _ (map fst (params m))).
    apply (Hin (map fst (params m)) _ _ y Hy).
  - now apply NoDup_filter.
Qed.

(* ---------- composition of the square bookkeeping ---------- *)
Local Opaque SUBSTITUTE_LOOP_LIMIT subst_fix.
Definition sq (m m' : model) : Prop :=
  (length (ders m') + length (algs m') + length (eqs m)
   = length (ders m) + length (algs m) + length (eqs m'))%nat
  /\ ders m' = ders m /\ states m' = states m /\ inputs m' = inputs m.

Lemma sq_refl m : sq m m.
Proof. unfold sq. repeat split; auto. Qed.
Lemma sq_trans m1 m2 m3 : sq m1 m2 -> sq m2 m3 -> sq m1 m3.
Proof.
  unfold sq. intros [A [B [C D]]] [A' [B' [C' D']]].
  repeat split; try congruence. rewrite B' in *. rewrite B in *. lia.
Qed.

Definition pass_sq (p : pass) : Prop :=
  let '(_, f, H) := p in
  forall m, H m -> NoDup (algs m) -> failed m = false -> failed (f m) = false ->
            sq m (f m) /\ NoDup (algs (f m)).

Lemma run_sq ps : Forall pass_sq ps ->
  forall m, run_ok ps m -> NoDup (algs m) -> failed (run ps m) = false ->
            sq m (run ps m) /\ NoDup (algs (run ps m)).
Proof.
  induction 1 as [| [[b f] H] ps Hp Hps IH]; simpl; intros m Hok ND Hf.
  - split; [apply sq_refl | exact ND].
  - destruct Hok as [H1 H2].
    assert (Hf1 : failed (step b f m) = false).
    { destruct (failed (step b f m)) eqn:E; auto. rewrite (run_failed ps _ E) in Hf. discriminate. }
    assert (S1 : sq m (step b f m) /\ NoDup (algs (step b f m))).
    { unfold step in *. destruct b; simpl in *; [| split; [apply sq_refl | exact ND]].
      destruct (failed m) eqn:Fm; simpl in *; [split; [apply sq_refl | exact ND] |].
      apply (Hp m); auto. }
    destruct S1 as [S1 N1]. destruct (IH _ H2 N1 Hf) as [S2 N2].
    split; [eapply sq_trans; eauto | exact N2].
Qed.

Lemma eca_loop_NoDup : forall es al, NoDup al -> NoDup (fst (fst (eca_loop al es))).
Proof.
  induction es as [| e es IH]; intros al ND; simpl; auto.
  destruct (eca_match al e) as [[x v] |].
  - specialize (IH _ (remove1_NoDup x al ND)). destruct (eca_loop (remove1 x al) es) as [[a c] k]. exact IH.
  - specialize (IH _ ND). destruct (eca_loop al es) as [[a c] k]. exact IH.
Qed.
Lemma elim_loop_NoDup sts al0 mt : forall es al, NoDup al ->
  NoDup (fst (fst (fst (elim_loop sts al0 al mt es)))).
Proof.
  induction es as [| e es IH]; intros al ND; simpl; auto.
  destruct (extract_assignment sts al0 al mt e) as [| x v |].
  - specialize (IH _ ND). destruct (elim_loop sts al0 al mt es) as [[[a d] k] u]. exact IH.
  - specialize (IH _ (remove1_NoDup x al ND)).
    destruct (elim_loop sts al0 (remove1 x al) mt es) as [[[a d] k] u]. exact IH.
  - exact ND.
Qed.

Lemma sq_replace_exprs b m : sq m (replace_exprs b m) /\ algs (replace_exprs b m) = algs m.
Proof.
  unfold replace_exprs, sq. destruct (split_simple _) as [simple defs].
  destruct defs; [destruct b; simpl; repeat split; auto |].
  destruct (subst_fix _ _ _). simpl. rewrite map_length. repeat split; auto.
Qed.
Lemma sq_rpv m : sq m (replace_param_values m) /\ algs (replace_param_values m) = algs m.
Proof.
  unfold replace_param_values, sq. destruct (split_valued _). simpl. rewrite map_length. repeat split; auto.
Qed.
Lemma sq_rcv m : failed (replace_const_values m) = false ->
  sq m (replace_const_values m) /\ algs (replace_const_values m) = algs m.
Proof.
  unfold replace_const_values, sq. destruct (resolve_defs _) as [s conv].
  match goal with |- context [if ?c then _ else _] => destruct c end; simpl; [congruence |].
  intros _. rewrite map_length. repeat split; auto.
Qed.
Lemma inputs_eca m : inputs (elim_const_assignments m) = inputs m.
Proof. unfold elim_const_assignments. destruct (eca_loop _ _) as [[? ?] ?]. reflexivity. Qed.
Lemma algs_eca m : algs (elim_const_assignments m) = fst (fst (eca_loop (algs m) (eqs m))).
Proof. unfold elim_const_assignments. destruct (eca_loop _ _) as [[? ?] ?]. reflexivity. Qed.
Lemma algs_elim mt m : failed (eliminate_vars mt m) = false -> failed m = false ->
  algs (eliminate_vars mt m) = fst (fst (fst (elim_loop (states m) (algs m) (algs m) mt (eqs m)))).
Proof.
  unfold eliminate_vars. destruct (elim_loop _ _ _ _ _) as [[[al defs] kept] u]. simpl.
  destruct (u || has_dup (map fst defs)); simpl; [congruence |].
  destruct defs; [reflexivity |]. destruct (subst_fix _ _ _). reflexivity.
Qed.

Definition H_da15 (o : options) (m : model) : Prop :=
  relinv (dne_of m) (arel m) /\ da_decl (pc_of m) (algs m) (dne_of m) (eqs m)
  /\ da_nored (o_allow_der o) (algs m) (ders m) (dne_of m) (pc_of m) (arel m) (eqs m) = true.

Definition H_elim15 (o : options) (m : model) : Prop :=
  match o_elim o with Some ns => no_elim_state ns m = true | None => True end.

(* the same seven passes as `passes o`, with the hypotheses of the square bookkeeping *)
Definition passes15 (o : options) : list pass :=
  [ (o_rpe o, replace_exprs true, fun _ => True);
    (o_rce o, replace_exprs false, fun _ => True);
    (o_eca o, elim_const_assignments, fun _ => True);
    (o_rpv o, replace_param_values, fun _ => True);
    (o_rcv o, replace_const_values, fun _ => True);
    (elim_on o, elim_f o, H_elim15 o);
    (o_da o, detect_aliases (o_allow_der o), H_da15 o) ].

Lemma simplify_once_run15 o m : simplify_once o m = run (passes15 o) m.
Proof.
  unfold simplify_once, passes15, run, elim_on, elim_f.
  destruct (o_elim o); reflexivity.
Qed.

Lemma passes15_sq o : Forall pass_sq (passes15 o).
Proof.
  unfold passes15.
  apply Forall_cons.
  { intros m _ ND _ _. destruct (sq_replace_exprs true m) as [S A]. split; auto. now rewrite A. }
  apply Forall_cons.
  { intros m _ ND _ _. destruct (sq_replace_exprs false m) as [S A]. split; auto. now rewrite A. }
  apply Forall_cons.
  { intros m _ ND _ _. destruct (square_elim_const_assignments m ND) as [S1 [S2 S3]].
    split; [unfold sq; rewrite S2, inputs_eca; repeat split; auto; lia |].
    rewrite algs_eca. now apply eca_loop_NoDup. }
  apply Forall_cons.
  { intros m _ ND _ _. destruct (sq_rpv m) as [S A]. split; auto. now rewrite A. }
  apply Forall_cons.
  { intros m _ ND _ Hf. destruct (sq_rcv m Hf) as [S A]. split; auto. now rewrite A. }
  apply Forall_cons.
  { intros m Hn ND Hf Hf'. unfold elim_f, H_elim15 in *. destruct (o_elim o) as [ns |]; [| split; [apply sq_refl | auto]].
    rewrite Hn in *.
    destruct (o_expand_mx o); [| simpl in Hf'; discriminate].
    destruct (square_eliminate_vars ns m ND Hf Hf') as [S1 [S2 [S3 [S4 _]]]].
    split; [unfold sq; rewrite S2; repeat split; auto; lia |].
    rewrite (algs_elim ns m Hf' Hf). now apply elim_loop_NoDup. }
  apply Forall_cons; [| apply Forall_nil].
  intros m [H1 [H2 H3]] ND _ Hf.
  destruct (square_detect_aliases _ m ND H1 H2 H3 Hf) as [S1 [S2 [S3 [S4 [_ [_ N]]]]]].
  split; [unfold sq; rewrite S2; repeat split; auto; lia | exact N].
Qed.

Theorem simplify_once_square o m :
  run_ok (passes15 o) m -> NoDup (algs m) -> failed (simplify_once o m) = false ->
  sq m (simplify_once o m) /\ NoDup (algs (simplify_once o m)).
Proof. rewrite simplify_once_run15. apply run_sq. apply passes15_sq. Qed.

Fixpoint loop_ok15 (fuel : nat) (o : options) (left : nat) (m : model) : Prop :=
  match fuel with
  | O => True
  | S f =>
      run_ok (passes15 o) m /\
      let m' := simplify_once o m in
      if failed m' then True
      else if o_iter o && negb (Nat.eqb left (length (algs m')))
           then loop_ok15 f o (length (algs m')) m' else True
  end.

Theorem simplify_loop_square o : forall fuel left m,
  loop_ok15 fuel o left m -> NoDup (algs m) -> failed (simplify_loop fuel o left m) = false ->
  sq m (simplify_loop fuel o left m).
Proof.
  induction fuel as [| f IH]; simpl; intros left m Hok ND Hf; [apply sq_refl |].
  destruct Hok as [H1 H2].
  destruct (failed (simplify_once o m)) eqn:Fm; [congruence |].
  destruct (simplify_once_square o m H1 ND Fm) as [S1 N1].
  destruct (o_iter o && negb (Nat.eqb left (length (algs (simplify_once o m))))); auto.
  eapply sq_trans; [exact S1 | apply IH; auto].
Qed.
