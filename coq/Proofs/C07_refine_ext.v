(* Proofs/C07_refine_ext.v — refinement stage 2: extends chains of any depth (single and multiple
   inheritance, no clause modifiers) in libraries whose classes are all defined at the top level. *)
From Coq Require Import List ZArith Bool PArith Lia.
From PV Require Import Lib.ClassTree Lib.Inst Model.C07_flatten Proofs.C07_flatten Proofs.C07_refine.
Import ListNotations.

(* a class without nested classes, whose extends clauses carry no modifiers and name no built-in type *)
Inductive eplain : cdef -> Prop :=
| EPlain n k exts ss es :
    k <> kBuiltin -> k <> kType ->
    Forall (fun e : path * list marg => snd e = [] /\ mem_id (head_id (fst e)) BUILTIN = false) exts ->
    Forall plain_sym ss ->
    eplain (CDef n k [] exts ss es).

Definition eclass (c : cdef) : Prop := eplain c \/ alias c.
Definition rsc (root : list cdef) : scope := lex_scope root [].

Lemma eclass_no_classes c : eclass c -> c_classes c = [].
Proof. intros [H|H]; inversion H; reflexivity. Qed.

Lemma lookup_empty fr S ref : f_entries fr = [] -> lookup (fr :: S) ref = lookup S ref.
Proof.
  intros E. destruct ref as [|n rest]; [destruct S; reflexivity|]. cbn [lookup]. rewrite E. reflexivity.
Qed.

Lemma lookup_rsc root ref c lex S' b :
  Forall eclass root -> lookup (rsc root) ref = Some (c, lex, S', b) ->
  eclass c /\ lex = [] /\ S' = rsc root /\ In c root.
Proof.
  intros Hroot H. unfold rsc, lex_scope in *. cbn [lex_frames_from] in *.
  destruct ref as [|n rest]; [discriminate H|]. cbn [lookup f_entries] in H.
  destruct (od_get e_key Pos.eqb n (entries_of [] root)) as [e|] eqn:E; [|discriminate H].
  apply od_get_In in E. unfold entries_of in E. apply in_map_iff in E. destruct E as [c0 [<- Hin]].
  cbn [e_def e_lex] in H.
  assert (eclass c0) as Hc0 by (apply (proj1 (Forall_forall _ _) Hroot c0 Hin)).
  destruct rest as [|m rest].
  - cbn [descend descend_frames app] in H. inversion H; subst. auto.
  - cbn [descend] in H. rewrite (eclass_no_classes c0 Hc0) in H. cbn [od_get] in H. discriminate H.
Qed.

Section Ext.
  Variable root : list cdef.
  Hypothesis Hroot : Forall eclass root.
  (* every extends clause of a class of the library names a class (not a type alias) of the library *)
  Hypothesis Hbases : forall c e bc l S b,
      In c root -> eplain c -> In e (c_exts c) -> lookup (rsc root) (fst e) = Some (bc, l, S, b) -> eplain bc.

  Definition el_fine (el : elem) : Prop :=
    el_mods el = [] /\ exists fr, f_entries fr = [] /\ el_scope el = fr :: rsc root.

  Definition fe_rel (k0 : ident) (x : ext_class) (r : list elem * list eqn) : Prop :=
    x_kind x = k0 /\ x_classes x = [] /\ x_menv x = [] /\ map el_sym (fst r) = x_syms x /\ snd r = x_eqs x /\
    Forall el_fine (fst r) /\ Forall plain_sym (x_syms x).

  Lemma fold_err {X} (fM : res ext_class -> X -> res ext_class) l err :
    (forall e err, fM (Err err) e = Err err) -> fold_left fM l (Err err) = Err err.
  Proof. intros H. induction l as [|e l IH]; [reflexivity|]. cbn [fold_left]. rewrite H. exact IH. Qed.

  Lemma fold_sim {X B} (RM : ext_class -> B -> Prop) (fM : res ext_class -> X -> res ext_class)
        (fS : option B -> X -> option B) :
    (forall e err, fM (Err err) e = Err err) ->
    forall l,
    (forall e a b a', In e l -> RM a b -> fM (Ok a) e = Ok a' -> exists b', fS (Some b) e = Some b' /\ RM a' b') ->
    forall a b a', RM a b -> fold_left fM l (Ok a) = Ok a' ->
    exists b', fold_left fS l (Some b) = Some b' /\ RM a' b'.
  Proof.
    intros HE. induction l as [|e l IH]; intros Hstep a b a' R H.
    - cbn [fold_left] in *. inversion H; subst. exists b. split; [reflexivity | assumption].
    - cbn [fold_left] in *. destruct (fM (Ok a) e) as [a1|err] eqn:E1.
      + destruct (Hstep e a b a1 (or_introl eq_refl) R E1) as [b1 [E2 R1]]. rewrite E2.
        apply (IH (fun e0 a0 b0 a0' Hin => Hstep e0 a0 b0 a0' (or_intror Hin)) a1 b1 a' R1 H).
      + rewrite (fold_err fM l err HE) in H. discriminate H.
  Qed.

  Lemma fold_nil {X} (g : list entry -> X -> list entry) l :
    (forall e, In e l -> g [] e = []) -> fold_left g l [] = [].
  Proof.
    induction l as [|e l IHl]; intros H; [reflexivity|]. cbn [fold_left]. rewrite (H e (or_introl eq_refl)).
    apply IHl. intros e0 H0. apply H. right. exact H0.
  Qed.

  Lemma all_classes_root : forall f c, In c root -> eplain c -> all_classes f c [] (rsc root) = [].
  Proof.
    induction f as [|f IH]; intros c Hin Hc; inversion Hc as [n k exts ss es Hk Ht Hex Hss]; subst c;
      cbn [all_classes c_classes c_exts entries_of map].
    - reflexivity.
    - rewrite fold_nil; [reflexivity|]. intros e Hine.
      destruct (mem_id (head_id (fst e)) BUILTIN); [reflexivity|].
      rewrite lookup_empty by reflexivity.
      destruct (lookup (rsc root) (fst e)) as [[[[bc blex] bS] b]|] eqn:L; [|reflexivity].
      destruct (lookup_rsc root _ _ _ _ _ Hroot L) as [_ [-> [-> Hb]]].
      rewrite (IH bc Hb (Hbases _ e bc _ _ _ Hin Hc Hine L)). reflexivity.
  Qed.

  Lemma fe_elems : forall n c x prefix,
    In c root -> eplain c -> flatten_extends root n c [] [] = Ok x ->
    exists r, elems n c [] (rsc root) prefix [] = Some r /\ fe_rel (c_kind c) x r.
  Proof.
    induction n as [|f IH]; intros c x prefix Hin Hc H; [discriminate H|].
    inversion Hc as [n k exts ss es Hk Ht Hex Hss]; subst c.
    cbn [flatten_extends c_exts c_kind c_classes c_syms c_eqs c_name] in H.
    cbn [elems c_exts c_kind c_classes c_syms c_eqs c_name].
    match type of H with (x0 <- fold_left ?fM _ _ ;; _) = _ => set (FM := fM) in H end.
    match goal with |- context [fold_left ?fS exts (Some ([], []))] => set (FS := fS) end.
    destruct (fold_left FM exts (Ok (mkExt k [] [] [] []))) as [x0|err] eqn:EF; cbn [bind] in H; [|discriminate H].
    assert (exists r0, fold_left FS exts (Some ([], [])) = Some r0 /\ fe_rel k x0 r0) as [r0 [ES R0]].
    { apply (fold_sim (fe_rel k) FM FS) with (a := mkExt k [] [] [] []).
      - intros e err. reflexivity.
      - intros e a [els raw] a' Hine (Ka & Kc & Km & Ks & Ke & Kf & Kp) HM.
        unfold FM in HM. cbn [bind] in HM. unfold find_base in HM.
        destruct (proj1 (Forall_forall _ _) Hex e Hine) as [Hsnd Hnb]. rewrite Hnb in HM.
        unfold FS. rewrite Hnb.
        change (lex_scope root []) with (rsc root) in HM.
        rewrite lookup_empty in HM by reflexivity. rewrite lookup_empty by reflexivity.
        destruct (lookup (rsc root) (fst e)) as [[[[bc blex] bS] b]|] eqn:L; cbn [bind] in HM; [|discriminate HM].
        destruct (lookup_rsc root _ _ _ _ _ Hroot L) as [_ [-> [-> Hb]]].
        pose proof (Hbases _ e bc _ _ _ Hin Hc Hine L) as Hbc.
        destruct (path_eqb ([] ++ [c_name bc]) ([] ++ [n])); [discriminate HM|].
        assert (Pos.eqb (c_kind bc) kBuiltin = false) as Kb
          by (inversion Hbc; cbn [c_kind]; destruct (Pos.eqb_spec k0 kBuiltin); [contradiction | reflexivity]).
        rewrite Kb in HM. cbn [andb] in HM. rewrite Hsnd in HM.
        destruct (flatten_extends root f bc [] []) as [rb|err] eqn:EB; cbn [bind] in HM; [|discriminate HM].
        destruct (IH bc rb prefix Hb Hbc EB) as [r1 [E1 (Ja & Jc & Jm & Js & Je & Jf & Jp)]].
        rewrite Hsnd. change ([] ++ flat_args (Some prefix) []) with (@nil mentry). rewrite E1.
        destruct r1 as [bels braw]. eexists. split; [reflexivity|].
        inversion HM; subst a'; clear HM. cbn [fst snd] in *.
        unfold fe_rel. cbn [x_kind x_classes x_syms x_eqs x_menv fst snd].
        rewrite Kc, Jc, Km, Jm. repeat split; try reflexivity; try assumption.
        + unfold e_update. rewrite (od_update_map el_name s_name Pos.eqb el_sym (fun a0 => eq_refl)).
          rewrite Ks, Js. reflexivity.
        + rewrite Ke, Je. reflexivity.
        + apply od_update_Forall; assumption.
        + apply od_update_Forall; assumption.
      - unfold fe_rel. cbn. repeat split; try reflexivity; constructor.
      - exact EF. }
    rewrite ES. destruct r0 as [els raw]. destruct R0 as (Ka & Kc & Km & Ks & Ke & Kf & Kp). cbn [fst snd] in *.
    eexists. split; [reflexivity|].
    assert (Pos.eqb k kBuiltin = false) as Kk by (destruct (Pos.eqb_spec k kBuiltin); [contradiction | reflexivity]).
    cbn [x_kind] in H. rewrite Ka, Kk in H.
    inversion H; subst x; clear H.
    unfold fe_rel. cbn [x_kind x_classes x_syms x_eqs x_menv fst snd entries_of map].
    rewrite Kc, Km. repeat split; try reflexivity.
    + unfold e_update. rewrite (od_update_map el_name s_name Pos.eqb el_sym (fun a0 => eq_refl)).
      rewrite Ks, map_map. cbn [el_sym fst]. rewrite map_id. reflexivity.
    + rewrite Ke. reflexivity.
    + apply od_update_Forall; [assumption|]. apply Forall_map. apply Forall_forall. intros s _.
      split; [reflexivity|]. eexists. split; [|unfold class_scope; reflexivity].
      cbn [f_entries]. apply all_classes_root; assumption.
    + apply od_update_Forall; assumption.
  Qed.

  (* ---------------------------------------------------------------- build on such a class *)
  Definition me2 (c : cdef) : scope := mkFrame (Some (c_name c)) true [] None :: rsc root.

  Lemma build_eplain f c i :
    In c root -> eplain c -> build root false (S f) c [] (rsc root) [] [] = Ok i ->
    exists x l rest,
      flatten_extends root f c [] [] = Ok x /\
      build_syms root false (build root false f) (extends_builtin root f) (me2 c) (scope_ref (me2 c))
                 (x_syms x) [] [] [] = Ok (l, rest) /\
      i = Inst (scope_ref (me2 c)) (c_kind c) l (x_eqs x) rest.
  Proof.
    intros Hin Hc B. cbn [build] in B.
    destruct (flatten_extends root f c [] []) as [x|err] eqn:EF; cbn [bind] in B; [|discriminate B].
    destruct (fe_elems f c x [] Hin Hc EF) as [r [_ (Ka & Kc & Km & _)]].
    assert (Pos.eqb (c_kind c) kBuiltin = false) as Kk
      by (inversion Hc; cbn [c_kind]; destruct (Pos.eqb_spec k kBuiltin); [contradiction | reflexivity]).
    rewrite Ka, Kk in B. rewrite Km, Kc in B. cbn [app forallb negb] in B.
    fold (me2 c) in B.
    destruct (build_syms root false (build root false f) (extends_builtin root f) (me2 c) (scope_ref (me2 c))
                (x_syms x) [] [] []) as [[l rest]|err] eqn:BS; cbn [bind] in B; [|discriminate B].
    inversion B. rewrite Ka. exists x, l, rest. split; [reflexivity|]. split; [exact BS | reflexivity].
  Qed.

  Definition Q2 (tc : cdef) (tlex : path) (tparent : scope) : Prop :=
    eclass tc /\ In tc root /\ tlex = [] /\ tparent = rsc root.
  Definition CP2 (c : cdef) (lex : path) (parent : scope) : Prop :=
    eplain c /\ In c root /\ lex = [] /\ parent = rsc root.

  Lemma HQ2 tc tlex tparent : Q2 tc tlex tparent -> alias tc \/ CP2 tc tlex tparent.
  Proof. intros [[H|H] [Hin [E1 E2]]]; [right; repeat split; assumption | left; assumption]. Qed.

  Lemma HK2 c lex parent n i :
    CP2 c lex parent -> build root false n c lex parent [] [] = Ok i ->
    exists a b d e, i = Inst a (c_kind c) b d e /\ c_kind c <> kBuiltin /\ c_kind c <> kType.
  Proof.
    intros [Hc [Hin [-> ->]]] B. destruct n as [|f]; [discriminate B|].
    destruct (build_eplain f c i Hin Hc B) as [x [l [rest [_ [_ ->]]]]].
    eexists _, _, _, _. split; [reflexivity|]. inversion Hc; cbn [c_kind]; split; assumption.
  Qed.

  Lemma me2_lookup c t tc tlex tparent b :
    lookup (me2 c) t = Some (tc, tlex, tparent, b) -> Q2 tc tlex tparent.
  Proof.
    unfold me2. rewrite lookup_empty by reflexivity. intros L.
    destruct (lookup_rsc root _ _ _ _ _ Hroot L) as [H1 [H2 [H3 H4]]]. repeat split; assumption.
  Qed.

  Lemma agree2 c fr t : f_entries fr = [] -> agree eq (me2 c) (fr :: rsc root) t.
  Proof.
    intros E. unfold agree, me2. rewrite !lookup_empty by (reflexivity || exact E).
    destruct (lookup (rsc root) t) as [[[[tc tlex] tS] b]|]; [|reflexivity].
    eexists _, _. split; reflexivity.
  Qed.

  Lemma instance_refines_ext : forall n, IHyp root CP2 eq n.
  Proof.
    induction n as [|n IHn]; intros c lex parent Sp prefix i r [Hc [Hin [-> ->]]] <- B Fs.
    - discriminate B.
    - destruct (build_eplain n c i Hin Hc B) as [x [l [rest [EF [BS ->]]]]].
      destruct n as [|f]; [discriminate EF|].
      destruct (fe_elems (S f) c x prefix Hin Hc EF) as [[els raw] [EE (Ka & Kc & Km & Ks & Ke & Kf & Kp)]].
      cbn [fst snd] in *.
      destruct (build_syms_plain root Q2 (S f) (me2 c) _ _ (fun s0 tc tlex tparent b _ L => me2_lookup c _ _ _ _ _ L) _ _ _ Kp BS) as [l' [-> F]].
      cbn [rev app] in *. cbn [flatten_symbols] in Fs.
      destruct (fs_go flatten_symbols prefix l' [] []) as [[flat feqs]|err] eqn:G; cbn [bind] in Fs; [|discriminate Fs].
      assert (Forall2 (el_ok root Q2 eq (S f) (me2 c)) els l') as F2.
      { clear -F Ks Kf. rewrite <- Ks in F. clear Ks. revert l' F.
        induction Kf as [|el els0 [Hm [fr [Efr Esc]]] Kf IH]; intros l' F; inversion F; subst; constructor.
        - split; [assumption|]. split; [rewrite Esc; apply agree2; exact Efr | exact Hm].
        - apply IH. assumption. }
      rewrite <- Ks in Kp.
      destruct (fs_inst root Q2 CP2 eq HQ2 HK2 (S f) (me2 c) prefix IHn els l' F2 Kp [] [] (flat, feqs) (Forall_nil _) G)
        as [IS Cl].
      cbn [fst snd map] in IS.
      rewrite (fs_finish_clean _ prefix (x_eqs x) flat feqs Cl) in Fs. inversion Fs; subst r; clear Fs.
      cbn [fst snd]. split; [|assumption].
      rewrite inst_go_unfold, EE, IS. rewrite !map_map. cbn [v_name var_of]. rewrite Ke. reflexivity.
  Qed.
End Ext.

(* ------------------------------------------------------------------ the flat model *)
Definition root_lib (root : list cdef) : Prop :=
  Forall eclass root /\
  (forall c e bc l S b, In c root -> eplain c -> In e (c_exts c) ->
                        lookup (rsc root) (fst e) = Some (bc, l, S, b) -> eplain bc).

Theorem refines_extends root top r :
  root_lib root ->
  ~ (exists c lex Sp b, lookup (lex_scope root []) top = Some (c, lex, Sp, b) /\ alias c) ->
  flatten root false top = Ok r ->
  Forall clean (fst r) /\ PV.Lib.Inst.inst root top = Some (map var_of (fst r), snd r).
Proof.
  intros [Hroot Hbases] Htop H. unfold flatten in H. unfold PV.Lib.Inst.inst.
  destruct (lookup (lex_scope root []) top) as [[[[c lex] parent] b]|] eqn:L; [|discriminate H].
  destruct (lookup_rsc root _ _ _ _ _ Hroot L) as [[Hc|Hal] [-> [-> Hin]]];
    [|exfalso; apply Htop; eexists _, _, _, _; split; [reflexivity | exact Hal]].
  destruct (build root false FUEL c [] (rsc root) [] []) as [i|err] eqn:B; cbn [bind] in H; [|discriminate H].
  destruct (flatten_symbols i []) as [[flat eqs]|err] eqn:Fs; cbn [bind] in H; [|discriminate H].
  inversion H; subst r; clear H.
  destruct (instance_refines_ext root Hroot Hbases FUEL c [] (rsc root) (rsc root) [] i (flat, eqs)
              (conj Hc (conj Hin (conj eq_refl eq_refl))) eq_refl B Fs) as [I Cl].
  cbn [fst snd] in *.
  change INST_FUEL with FUEL. rewrite I.
  rewrite (map_fix drop_value flat) by (eapply Forall_impl; [|exact Cl]; intros s Hs; apply drop_value_clean; exact Hs).
  split; [assumption|].
  rewrite (value_eqs_clean flat Cl), app_nil_r, conv_eqs_clean.
  rewrite map_map. f_equal. f_equal. apply map_ext. intros s. apply conv_var_clean.
Qed.
