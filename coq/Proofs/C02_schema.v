(* C02 — soundness of the layout-knowledge side condition sch_ok: no schema error, a good table is
   never dropped.  Part 1: the pure (thread-free) meaning of the abstract states. *)
From Coq Require Import List Bool Arith Lia.
From PV Require Import Lib.Lock Model.C02_conc Proofs.C02_conc Proofs.C02_live.
Import ListNotations.

(* what a call sees: its private view inside a write transaction, else the committed content *)
Definition xvis (t : thr) (d : db) : db := match t_view t with Some v => v | None => d end.

Definition vk_sem (m : mode) (T : tbl) (v : vk) (x : db) : Prop :=
  match v with
  | VU => True
  | VG => tget T x = TGood
  | VB => m = MW /\ tget T x <> TGood
  | VM => m = MW /\ tget T x = TMissing
  end.

Definition rk_sem (m : mode) (k : rk) (b : bool) (x : db) : Prop :=
  match k with
  | RTop => True
  | RConst b' => b = b'
  | RInfoOf T mw => (b = true -> tget T x = TGood) /\ (mw = true -> m = MW /\ (b = false -> tget T x <> TGood))
  | RMasterOf T mw => mw = true -> m = MW /\ (b = false -> tget T x = TMissing)
  end.

Definition G (m : mode) (x : db) (regs : list (nat * bool)) (vm vx : vk) (R : list (nat * rk)) : Prop :=
  vk_sem m TModels vm x /\ vk_sem m TMeta vx x /\ forall r, rk_sem m (lookup_rk R r) (reg regs r) x.

Definition Gs (m : mode) (x : db) (regs : list (nat * bool)) (s : ast) : Prop :=
  a_mode s = m /\ G m x regs (a_vm s) (a_vx s) (a_regs s).

Definition newregs (s : stmt) (regs : list (nat * bool)) (x : db) (par : params) : list (nat * bool) :=
  match s with
  | SSet r b => (r, b) :: regs
  | SRead rd dst =>
      match read_val (p_text par) rd x with
      | inl b => (match rd with RLookup => [(r_stale, row_stale (p_text par) x)] | _ => [] end) ++ (dst, b) :: regs
      | inr _ => regs
      end
  | _ => regs
  end.

Definition data (s : stmt) (par : params) (x x' : db) : Prop :=
  match s with SWrite w => apply_wr par w x = inl x' | _ => x' = x end.

(* ---- transfer lemmas ---- *)
Lemma vk_mode m m' T v x : (m = m' \/ m <> MW) -> vk_sem m T v x -> vk_sem m' T v x.
Proof. intros [->|H] S; auto. destruct v; cbn in *; auto; destruct S; congruence. Qed.

Lemma rk_mode m m' k b x : (m = m' \/ m <> MW) -> rk_sem m k b x -> rk_sem m' k b x.
Proof.
  intros [->|H] S; auto. destruct k as [|b'|T mw|T mw]; cbn in *; auto.
  - destruct S as (A & B). split; auto. intros E. destruct (B E). congruence.
  - intros E. destruct (S E). congruence.
Qed.

Lemma G_mode m m' x regs vm vx R : (m = m' \/ m <> MW) -> G m x regs vm vx R -> G m' x regs vm vx R.
Proof.
  intros H (A & B & C). repeat split; [eapply vk_mode; eauto..|]. intros r. eapply rk_mode; eauto.
Qed.

Lemma vk_tget m T v x x' : tget T x' = tget T x -> vk_sem m T v x -> vk_sem m T v x'.
Proof. intros E. destruct v; cbn; rewrite ?E; auto. Qed.

Lemma rk_tget m k b x x' : (forall T, tget T x' = tget T x) -> rk_sem m k b x -> rk_sem m k b x'.
Proof. intros E. destruct k as [|b'|T mw|T mw]; cbn; rewrite ?E; auto. Qed.

Lemma G_tget m x x' regs vm vx R : (forall T, tget T x' = tget T x) -> G m x regs vm vx R -> G m x' regs vm vx R.
Proof.
  intros E (A & B & C). repeat split; [eapply vk_tget; eauto..|]. intros r. eapply rk_tget; eauto.
Qed.

Lemma G_setreg m x regs vm vx R r b k :
  G m x regs vm vx R -> rk_sem m k b x -> G m x ((r, b) :: regs) vm vx ((r, k) :: R).
Proof.
  intros (A & B & C) K. repeat split; auto. intros r0. cbn [lookup_rk reg].
  destruct (Nat.eqb r0 r); auto.
Qed.

Lemma lookup_map (f : rk -> rk) R r :
  f RTop = RTop -> lookup_rk (map (fun e => (fst e, f (snd e))) R) r = f (lookup_rk R r).
Proof.
  intros H. induction R as [|[r' k] R IH]; cbn; auto. destruct (Nat.eqb r r'); auto.
Qed.

Definition inval_f (T : tbl) (k : rk) : rk :=
  match k with
  | RInfoOf T' _ | RMasterOf T' _ => if tbl_eqb T T' then RTop else k
  | k => k
  end.
Definition end_f (k : rk) : rk :=
  match k with RInfoOf T _ => RInfoOf T false | RMasterOf _ _ => RTop | k => k end.

Lemma a_regs_inval T s : a_regs (inval T s) = map (fun e => (fst e, inval_f T (snd e))) (a_regs s).
Proof. unfold inval; cbn [a_regs]. apply map_ext. intros [r k]; cbn. destruct k; reflexivity. Qed.
Lemma a_regs_txn_end s : a_regs (txn_end s) = map (fun e => (fst e, end_f (snd e))) (a_regs s).
Proof. unfold txn_end; cbn [a_regs]. apply map_ext. intros [r k]; cbn. destruct k; reflexivity. Qed.

Lemma tbl_eqb_eq a b : tbl_eqb a b = true <-> a = b.
Proof. destruct a, b; cbn; split; congruence. Qed.

(* after a write to table T that leaves the other table alone: facts about the other table survive,
   register facts about T are forgotten *)
Lemma rk_inval m T k b x x' :
  (forall T', T' <> T -> tget T' x' = tget T' x) -> rk_sem m k b x -> rk_sem m (inval_f T k) b x'.
Proof.
  intros E S. destruct k as [|b'|T' mw|T' mw]; cbn; auto.
  - destruct (tbl_eqb T T') eqn:Q; cbn; auto.
    assert (T' <> T) by (intros ->; destruct T; discriminate). rewrite E; auto.
  - destruct (tbl_eqb T T') eqn:Q; cbn; auto.
    assert (T' <> T) by (intros ->; destruct T; discriminate). rewrite E; auto.
Qed.

Lemma rk_end k b x : rk_sem MW k b x -> rk_sem MN (end_f k) b x.
Proof.
  destruct k as [|b'|T mw|T mw]; cbn; auto. intros (A & _). split; auto. intros; discriminate.
Qed.

Lemma vk_end T v x : vk_sem MW T v x -> vk_sem MN T (end_vk v) x.
Proof. destruct v; cbn; auto. Qed.

Lemma mode_eqb_true a b : mode_eqb a b = true -> a = b.
Proof. destruct a, b; cbn; congruence. Qed.

Lemma trm_keeps s a : check s a = true -> s <> SCommit -> (outside_tx a = true \/ (s <> SConnect /\ s <> SClose)) ->
  a = trm s a \/ a <> MW.
Proof.
  intros C N O. destruct s as [|h| |[]|rd dst|w| | |r b]; cbn in *; try congruence; auto.
  all: try (destruct a; cbn in *; try discriminate; auto; try (right; discriminate);
            destruct O as [O|(O1 & O2)]; try discriminate; congruence).
Qed.

(* ---- no schema error where the typing succeeds ---- *)
Lemma trs_noerr a x regs s st s' par :
  Gs a x regs st -> trs s st = Some s' ->
  (forall rd dst, s = SRead rd dst -> exists b, read_val (p_text par) rd x = inl b) /\
  (forall w, s = SWrite w -> exists x', apply_wr par w x = inl x').
Proof.
  intros (Ha & Gm & Gx & _) H. unfold trs in H. rewrite Ha in H.
  destruct (check s a) eqn:C; cbn [negb] in H; [|discriminate].
  split.
  - intros rd dst ->. destruct rd as [T|T| |]; cbn; eauto.
    + destruct (is_vg (a_vm st)) eqn:V; [|discriminate]. destruct (a_vm st); try discriminate.
      cbn in Gm. unfold tget in Gm. rewrite Gm. cbn. eauto.
    + discriminate.
  - intros w ->. destruct w as [[]|[]| | | | |rep]; cbn [apply_wr].
    + eauto.
    + eauto.
    + destruct (is_mw a && is_vm (getv TModels st)) eqn:V; [|discriminate].
      apply andb_true_iff in V. destruct V as (_ & V). cbn in V. destruct (a_vm st); try discriminate.
      destruct Gm as (_ & Gm). cbn in Gm. rewrite Gm. cbn. eauto.
    + destruct (is_mw a && is_vm (getv TMeta st)) eqn:V; [|discriminate].
      apply andb_true_iff in V. destruct V as (_ & V). cbn in V. destruct (a_vx st); try discriminate.
      destruct Gx as (_ & Gx). cbn in Gx. rewrite Gx. cbn. eauto.
    + destruct (is_vg (a_vx st)) eqn:V; [|discriminate]. destruct (a_vx st); try discriminate.
      cbn in Gx. rewrite Gx. cbn. eauto.
    + destruct (is_vg (a_vm st)) eqn:V; [|discriminate]. destruct (a_vm st); try discriminate.
      cbn in Gm. rewrite Gm. cbn. eauto.
    + destruct (is_vg (a_vx st)) eqn:V; [|discriminate]. destruct (a_vx st); try discriminate.
      cbn in Gx. rewrite Gx. cbn. eauto.
    + destruct (is_vg (a_vm st)) eqn:V; [|discriminate]. destruct (a_vm st); try discriminate.
      cbn in Gm. rewrite Gm. cbn. eauto.
    + destruct (is_vg (a_vm st)) eqn:V; [|discriminate]. destruct (a_vm st); try discriminate.
      cbn in Gm. rewrite Gm. cbn.
      cbn in C. apply andb_true_iff in C. destruct C as (_ & C). subst rep.
      destruct (has_row (p_text par) x); eauto.
Qed.

(* ---- a well-typed write never turns a good table into something else ---- *)
Lemma trs_mono a x regs w st s' par x' :
  Gs a x regs st -> trs (SWrite w) st = Some s' -> apply_wr par w x = inl x' ->
  forall T, tget T x = TGood -> tget T x' = TGood.
Proof.
  intros (Ha & Gm & Gx & _) H E T HT. unfold trs in H. rewrite Ha in H.
  destruct (check (SWrite w) a) eqn:C; cbn [negb] in H; [|discriminate].
  destruct w as [[]|[]| | | | |rep]; cbn [apply_wr] in E.
  - destruct (is_mw a && is_bad (getv TModels st)) eqn:V; [|discriminate].
    apply andb_true_iff in V. destruct V as (_ & V). cbn in V.
    inversion E; subst x'. destruct T; cbn in *; auto.
    destruct (a_vm st); try discriminate; cbn in Gm; destruct Gm as (_ & Gm); congruence.
  - destruct (is_mw a && is_bad (getv TMeta st)) eqn:V; [|discriminate].
    apply andb_true_iff in V. destruct V as (_ & V). cbn in V.
    inversion E; subst x'. destruct T; cbn in *; auto.
    destruct (a_vx st); try discriminate; cbn in Gx; destruct Gx as (_ & Gx); congruence.
  - destruct (is_missing (d_models x)); inversion E; subst x'. destruct T; cbn in *; auto.
  - destruct (is_missing (d_meta x)); inversion E; subst x'. destruct T; cbn in *; auto.
  - destruct (is_good (d_meta x)); inversion E; subst x'. destruct T; cbn in *; auto.
  - destruct (is_good (d_models x)); inversion E; subst x'. destruct T; cbn in *; auto.
  - destruct (is_good (d_meta x)); inversion E; subst x'. destruct T; cbn in *; auto.
  - destruct (is_good (d_models x)); inversion E; subst x'. destruct T; cbn in *; auto.
  - destruct (is_good (d_models x)); [|discriminate].
    destruct (has_row (p_text par) x); [destruct rep; [|discriminate]|]; inversion E; subst x'; destruct T; cbn in *; auto.
Qed.

(* ---- the abstract transfer function is sound for the data a statement produces ---- *)
Lemma apply_wr_tget par w x x' :
  (forall T, w <> WDrop T /\ w <> WCreate T) -> apply_wr par w x = inl x' -> forall T, tget T x' = tget T x.
Proof.
  intros N E T. destruct w as [T0|T0| | | | |rep]; try (destruct (N T0); congruence); cbn [apply_wr] in E.
  - destruct (is_good (d_meta x)); inversion E; subst; destruct T; reflexivity.
  - destruct (is_good (d_models x)); inversion E; subst; destruct T; reflexivity.
  - destruct (is_good (d_meta x)); inversion E; subst; destruct T; reflexivity.
  - destruct (is_good (d_models x)); inversion E; subst; destruct T; reflexivity.
  - destruct (is_good (d_models x)); [|discriminate].
    destruct (has_row (p_text par) x); [destruct rep; [|discriminate]|]; inversion E; subst; destruct T; reflexivity.
Qed.

Ltac modes a := destruct a; cbn in *; try discriminate; first [left; reflexivity | right; discriminate].

Lemma is_mw_true a : is_mw a = true -> a = MW.
Proof. destruct a; cbn; congruence. Qed.

Lemma trs_sound a x regs s st s' par x' :
  Gs a x regs st -> trs s st = Some s' -> data s par x x' ->
  Gs (trm s a) x' (newregs s regs x par) s'.
Proof.
  destruct st as [am vm vx R]. intros (Ha & HG) H D. cbn in Ha. subst am. cbn [a_vm a_vx a_regs] in HG.
  pose proof HG as (Gm & Gx & GR). unfold trs in H. cbn [a_mode a_vm a_vx] in H.
  destruct (check s a) eqn:C; cbn [negb] in H; [|discriminate].
  destruct s as [|h| |imm|rd dst|w| | |r b]; cbn [data newregs] in *; try subst x'.
  - (* connect *) destruct (outside_tx a) eqn:O; inversion H; subst s'. split; [reflexivity|]. cbn.
    apply (G_mode a); auto. right. destruct a; cbn in O; discriminate.
  - (* integrity *) inversion H; subst s'. split; [reflexivity|]. cbn [a_vm a_vx a_regs setmode].
    apply (G_mode a); auto. modes a.
  - discriminate.
  - (* begin *) inversion H; subst s'. split; [reflexivity|]. cbn [a_vm a_vx a_regs setmode].
    apply (G_mode a); auto. destruct imm; modes a.
  - (* read *)
    destruct rd as [T|T| |].
    + inversion H; subst s'. split; [reflexivity|]. cbn.
      apply G_setreg; [apply (G_mode a); auto; modes a|].
      cbn. intros E. apply is_mw_true in E. subst a. split; [reflexivity|].
      intros B. destruct (tget T x); cbn in B; try discriminate; reflexivity.
    + inversion H; subst s'. split; [reflexivity|]. cbn.
      apply G_setreg; [apply (G_mode a); auto; modes a|].
      cbn. split; [intros B; destruct (tget T x); cbn in B; try discriminate; reflexivity|].
      intros E. apply is_mw_true in E. subst a. split; [reflexivity|].
      intros B Q. rewrite Q in B. cbn in B. discriminate.
    + destruct vm; cbn [is_vg] in H; try discriminate. inversion H; subst s'. cbn in Gm.
      assert (Q : is_good (d_models x) = true) by (rewrite Gm; reflexivity).
      cbn [read_val]. rewrite Q. cbn [app]. split; [reflexivity|]. cbn [a_vm a_vx a_regs setreg setmode].
      apply G_setreg; [apply G_setreg|]; cbn; auto.
      apply (G_mode a); auto. modes a.
    + discriminate.
  - (* write *)
    assert (M : a = trm (SWrite w) a \/ a <> MW) by (cbn; modes a).
    destruct w as [T|T| | | | |rep].
    + destruct (is_mw a && is_bad (getv T (AS a vm vx R))) eqn:V; [|discriminate]. inversion H; subst s'.
      apply andb_true_iff in V. destruct V as (V1 & V2). apply is_mw_true in V1. subst a. cbn [trm].
      assert (E : forall T', T' <> T -> tget T' x' = tget T' x).
      { intros T' N. destruct T, T'; try congruence; cbn in D; inversion D; subst; reflexivity. }
      split; [destruct T; reflexivity|].
      destruct T; cbn [a_vm a_vx setv setmode inval]; rewrite a_regs_inval; cbn [a_regs setv setmode].
      * split; [cbn; split; auto; cbn in D; inversion D; reflexivity|].
        split; [apply (vk_tget MW TMeta _ x); auto; apply E; discriminate|].
        intros r. rewrite lookup_map by reflexivity. apply (rk_inval MW TModels _ _ x); auto.
      * split; [apply (vk_tget MW TModels _ x); auto; apply E; discriminate|].
        split; [cbn; split; auto; cbn in D; inversion D; reflexivity|].
        intros r. rewrite lookup_map by reflexivity. apply (rk_inval MW TMeta _ _ x); auto.
    + destruct (is_mw a && is_vm (getv T (AS a vm vx R))) eqn:V; [|discriminate]. inversion H; subst s'.
      apply andb_true_iff in V. destruct V as (V1 & V2). apply is_mw_true in V1. subst a. cbn [trm].
      assert (E : forall T', T' <> T -> tget T' x' = tget T' x).
      { intros T' N. destruct T, T'; try congruence; cbn in D;
          match type of D with (if ?c then _ else _) = _ => destruct c end; inversion D; subst; reflexivity. }
      assert (Q : tget T x' = TGood).
      { destruct T; cbn in D; match type of D with (if ?c then _ else _) = _ => destruct c end; inversion D; subst; reflexivity. }
      split; [destruct T; reflexivity|].
      destruct T; cbn [a_vm a_vx setv setmode inval]; rewrite a_regs_inval; cbn [a_regs setv setmode].
      * split; [exact Q|]. split; [apply (vk_tget MW TMeta _ x); auto; apply E; discriminate|].
        intros r. rewrite lookup_map by reflexivity. apply (rk_inval MW TModels _ _ x); auto.
      * split; [apply (vk_tget MW TModels _ x); auto; apply E; discriminate|]. split; [exact Q|].
        intros r. rewrite lookup_map by reflexivity. apply (rk_inval MW TMeta _ _ x); auto.
    + destruct (is_vg vx); inversion H; subst s'. split; [reflexivity|]. cbn [a_vm a_vx a_regs setmode].
      apply (G_mode a); auto. apply (G_tget _ x); auto. apply (apply_wr_tget par WMetaKeys); auto. split; discriminate.
    + destruct (is_vg vm); inversion H; subst s'. split; [reflexivity|]. cbn [a_vm a_vx a_regs setmode].
      apply (G_mode a); auto. apply (G_tget _ x); auto. apply (apply_wr_tget par WPrune); auto. split; discriminate.
    + destruct (is_vg vx); inversion H; subst s'. split; [reflexivity|]. cbn [a_vm a_vx a_regs setmode].
      apply (G_mode a); auto. apply (G_tget _ x); auto. apply (apply_wr_tget par WTouchMeta); auto. split; discriminate.
    + destruct (is_vg vm); inversion H; subst s'. split; [reflexivity|]. cbn [a_vm a_vx a_regs setmode].
      apply (G_mode a); auto. apply (G_tget _ x); auto. apply (apply_wr_tget par WTouchRow); auto. split; discriminate.
    + destruct (is_vg vm); inversion H; subst s'. split; [reflexivity|]. cbn [a_vm a_vx a_regs setmode].
      apply (G_mode a); auto. apply (G_tget _ x); auto. apply (apply_wr_tget par (WInsert rep)); auto. split; discriminate.
  - (* commit *) inversion H; subst s'. cbn [trm]. destruct (is_mw a) eqn:W.
    + apply is_mw_true in W. subst a. split; [reflexivity|].
      cbn [a_vm a_vx txn_end setmode]. rewrite a_regs_txn_end. cbn [a_regs setmode].
      split; [apply vk_end; auto|]. split; [apply vk_end; auto|].
      intros r. rewrite lookup_map by reflexivity. apply rk_end. apply GR.
    + split; [reflexivity|]. cbn [a_vm a_vx a_regs setmode]. apply (G_mode a); auto.
      right. intros ->. discriminate.
  - (* close *) destruct (outside_tx a) eqn:O; inversion H; subst s'. split; [reflexivity|]. cbn.
    apply (G_mode a); auto. right. destruct a; cbn in O; discriminate.
  - (* set *) inversion H; subst s'. split; [reflexivity|]. cbn.
    apply G_setreg; auto. reflexivity.
Qed.

(* ================= Part 2: threads ================= *)
Definition good2 (d : db) : Prop := tget TModels d = TGood /\ tget TMeta d = TGood.

Definition gam (d : db) (t : thr) (s : ast) : Prop :=
  has_mode t (a_mode s) /\ (t_view t = None <-> a_mode s <> MW) /\
  G (a_mode s) (xvis t d) (t_regs t) (a_vm s) (a_vx s) (a_regs s) /\
  (forall T, tget T d = TGood -> tget T (xvis t d) = TGood) /\
  (p_init (t_par t) = false -> good2 d).

Definition tinv2 (d : db) (t : thr) : Prop :=
  t_st t = Run -> t_ifail t = false /\ exists s n, gam d t s /\ tys_f n (t_k t) s = true.

Lemma gam_refine d t s s' :
  gam d t s -> a_mode s' = a_mode s ->
  G (a_mode s) (xvis t d) (t_regs t) (a_vm s') (a_vx s') (a_regs s') -> gam d t s'.
Proof. intros (A & B & C & D & E) M H. unfold gam. rewrite M. auto. Qed.

Lemma G_refine m x regs vm vx R r k :
  G m x regs vm vx R -> rk_sem m k (reg regs r) x -> G m x regs vm vx ((r, k) :: R).
Proof.
  intros (A & B & C) K. repeat split; auto. intros r0. cbn [lookup_rk].
  destruct (Nat.eqb r0 r) eqn:E; auto. apply Nat.eqb_eq in E. subst. exact K.
Qed.

Lemma G_setv m x regs vm vx R T v :
  G m x regs vm vx R -> vk_sem m T v x ->
  G m x regs (match T with TModels => v | TMeta => vm end) (match T with TModels => vx | TMeta => v end) R.
Proof. intros (A & B & C) K. destruct T; repeat split; auto. Qed.

Lemma hm_eq t t' a : t_conn t' = t_conn t -> t_intx t' = t_intx t -> t_lvl t' = t_lvl t -> has_mode t a -> has_mode t' a.
Proof. intros A B C. destruct a; cbn; rewrite A, B, C; auto. Qed.

Ltac prj := cbn [a_vm a_vx a_regs a_mode setv setreg setmode].

Lemma advance_f_gam d m : forall k t s n,
  t_st t = Run -> t_ifail t = false -> gam d t s -> tys_f n k s = true -> tinv2 d (advance_f m k t).
Proof.
  induction m as [|m IH]; intros k t s n Hst Hif Hg Hty.
  - destruct k as [|[st|c th el] k']; cbn [advance_f].
    + intros X. cbn in X. discriminate.
    + assert (Q : tinv2 d (set_k t (IS st :: k'))) by (intros _; split; auto; exists s, n; split; auto).
      destruct st; exact Q.
    + intros _. split; auto. exists s, n. split; auto.
  - destruct k as [|[st|c th el] k']; cbn [advance_f].
    + intros X. cbn in X. discriminate.
    + assert (Q : tinv2 d (set_k t (IS st :: k'))) by (intros _; split; auto; exists s, n; split; auto).
      destruct st; try exact Q.
      (* SSet *)
      destruct n as [|n]; [discriminate|]. cbn [tys_f] in Hty.
      destruct (trs (SSet r b) s) as [s'|] eqn:Et; [|discriminate].
      destruct Hg as (A & B & C & D & E).
      pose proof (trs_sound (a_mode s) (xvis t d) (t_regs t) (SSet r b) s s' (t_par t) (xvis t d)
                            (conj eq_refl C) Et eq_refl) as (M & G').
      cbn [trm newregs] in M, G'.
      apply (IH k' (set_reg t r b) s' n); auto.
      unfold gam. rewrite M. split; [apply (hm_eq t); auto|]. split; [exact B|]. split; [exact G'|]. split; [exact D|exact E].
    + destruct n as [|n]; [discriminate|]. cbn [tys_f] in Hty.
      pose proof Hg as (A & B & C & D & E).
      destruct c as [r| | | |]; cbn [cond_val].
      * (* a python variable *)
        destruct (lookup_rk (a_regs s) r) as [|b'|T mw|T mw] eqn:L.
        -- apply andb_true_iff in Hty. destruct Hty as (H1 & H2).
           destruct (reg (t_regs t) r); eapply IH; eauto.
        -- destruct C as (_ & _ & CR). specialize (CR r). rewrite L in CR. cbn in CR. rewrite CR.
           destruct b'; eapply IH; eauto.
        -- apply andb_true_iff in Hty. destruct Hty as (H1 & H2).
           pose proof C as (_ & _ & CR). specialize (CR r). rewrite L in CR. cbn in CR. destruct CR as (P & N).
           destruct (reg (t_regs t) r) eqn:Er.
           ++ eapply IH; [exact Hst|exact Hif| |exact H1].
              apply (gam_refine d t s); auto; [destruct T; reflexivity|].
              destruct T; prj; (apply G_refine; [|cbn; auto]); [apply (G_setv _ _ _ _ _ _ TModels VG C)|apply (G_setv _ _ _ _ _ _ TMeta VG C)]; cbn; auto.
           ++ eapply IH; [exact Hst|exact Hif| |exact H2].
              apply (gam_refine d t s); auto; [destruct mw, T; reflexivity|].
              destruct mw.
              ** destruct (N eq_refl) as (N1 & N2).
                 destruct T; prj; (apply G_refine; [|cbn; auto]);
                   [apply (G_setv _ _ _ _ _ _ TModels VB C)|apply (G_setv _ _ _ _ _ _ TMeta VB C)]; cbn; auto.
              ** prj. apply G_refine; [|cbn; auto]. exact C.
        -- apply andb_true_iff in Hty. destruct Hty as (H1 & H2).
           pose proof C as (_ & _ & CR). specialize (CR r). rewrite L in CR. cbn in CR.
           destruct (reg (t_regs t) r) eqn:Er.
           ++ eapply IH; [exact Hst|exact Hif| |exact H1].
              apply (gam_refine d t s); auto. prj. apply G_refine; [|cbn; auto]. exact C.
           ++ eapply IH; [exact Hst|exact Hif| |exact H2].
              apply (gam_refine d t s); auto; [destruct mw, T; reflexivity|].
              destruct mw.
              ** destruct (CR eq_refl) as (N1 & N2).
                 destruct T; prj; (apply G_refine; [|cbn; auto]);
                   [apply (G_setv _ _ _ _ _ _ TModels VM C)|apply (G_setv _ _ _ _ _ _ TMeta VM C)]; cbn; auto.
              ** prj. apply G_refine; [|cbn; auto]. exact C.
      * (* CInit *)
        apply andb_true_iff in Hty. destruct Hty as (H1 & H2).
        destruct (p_init (t_par t)) eqn:Ei; [eapply IH; eauto|].
        eapply IH; [exact Hst|exact Hif| |exact H2].
        unfold assume_init. destruct (is_mw (a_mode s)) eqn:W; [exact Hg|].
        apply (gam_refine d t s); auto. cbn [a_vm a_vx a_regs].
        assert (V : t_view t = None) by (apply B; intros Q; rewrite Q in W; discriminate).
        destruct (E eq_refl) as (E1 & E2). destruct C as (_ & _ & CR).
        unfold xvis. rewrite V. repeat split; auto. intros r. specialize (CR r). unfold xvis in CR. rewrite V in CR. exact CR.
      * apply andb_true_iff in Hty. destruct Hty as (H1 & H2). destruct (p_upd (t_par t) || reg (t_regs t) r_stale); eapply IH; eauto.
      * apply andb_true_iff in Hty. destruct Hty as (H1 & H2). destruct (p_tree (t_par t)); eapply IH; eauto.
      * rewrite Hif. eapply IH; eauto.
Qed.

(* ---- the shape of one attempt (syntactic; brute force over statement x mode) ---- *)
Definition writer (c : cfg) (tid : nat) (t : thr) : Prop :=
  geb (t_lvl t) Res = true \/ any_geb Res (others c tid 0) = false.

Definition shape (c : cfg) (tid : nat) (d : db) (t : thr) (s : stmt) (a : mode) (r : res) : Prop :=
  match t_st (r_thr r) with
  | Run =>
      if out_eqb (r_out r) OBlocked then
        r_store r = c_store c /\ t_view (r_thr r) = t_view t /\ t_regs (r_thr r) = t_regs t /\
        t_par (r_thr r) = t_par t
      else
        exists x' d', r_store r = [Some d'] /\ xvis (r_thr r) d' = x' /\
          data s (t_par t) (xvis t d) x' /\
          t_regs (r_thr r) = newregs s (t_regs t) (xvis t d) (t_par t) /\
          t_par (r_thr r) = t_par t /\
          (t_view (r_thr r) = None <-> trm s a <> MW) /\
          (d' = d \/ (d' = x' /\ writer c tid t))
  | Fin => True
  | Err e => e = ESchema ->
      (exists rd dst, s = SRead rd dst /\ read_val (p_text (t_par t)) rd (xvis t d) = inr ESchema) \/
      (exists w, s = SWrite w /\ apply_wr (t_par t) w (xvis t d) = inr ESchema)
  end.

Ltac vm_goal :=
  split; (let X := fresh "X" in intro X; first [discriminate X | discriminate | reflexivity | (exfalso; apply X; reflexivity) | congruence]).

Ltac leaf :=
  cbn;
  first
  [ (* blocked *) (repeat split; reflexivity)
  | (* error *) (let X := fresh "X" in intros X; first [discriminate X
        | (subst; left; eexists; eexists; split; [reflexivity|assumption])
        | (subst; right; eexists; split; [reflexivity|assumption]) ])
  | (* done *) (eexists; eexists; split; [reflexivity|]; split; [reflexivity|];
       split; [first [reflexivity|assumption]|];
       split; [cbn [newregs]; repeat match goal with H : read_val _ _ _ = _ |- _ => rewrite H end; reflexivity|];
       split; [reflexivity|]; split; [vm_goal|];
       first [left; reflexivity | right; split; [reflexivity|]; first [left; reflexivity | right; assumption | right; reflexivity]])
  | exact I ].

Lemma exec_shape c tid d t s a :
  c_path c = Some 0 -> c_store c = [Some d] -> t_st t = Run ->
  has_mode t a -> check s a = true -> (t_view t = None <-> a <> MW) ->
  (forall g, t_conn t = Some g -> g = 0) ->
  (outside_tx a = true \/ (s <> SConnect /\ s <> SClose)) ->
  shape c tid d t s a (exec c tid t s).
Proof.
  intros Hp Hs Hst Hm Hck Hv Hg Hout.
  assert (Hd : content c 0 = Some d) by (unfold content; rewrite Hs; reflexivity).
  destruct t as [k conn l ix v regs ifl par st]. cbn in Hst, Hv, Hg. subst st.
  unfold shape, writer.
  destruct conn as [g|].
  2:{ destruct a; cbn in Hm; destruct Hm as (Hc & Hi & Hl); try congruence. subst ix l.
      assert (v = None) by (apply Hv; discriminate). subst v.
      destruct s; cbn in Hck; try discriminate; unfold exec, mk; cbn; rewrite ?Hp, ?Hs; leaf. }
  assert (g = 0) by (apply Hg; reflexivity). subst g.
  destruct a; cbn in Hm; destruct Hm as (Hc & Hi & Hl); try congruence; subst ix.
  - (* MN *) subst l. assert (v = None) by (apply Hv; discriminate). subst v.
    destruct s as [|h| |[]|rd dst|w| | |r b]; cbn in Hck; try discriminate; unfold exec, mk, acquire; cbn;
      rewrite ?Hp, ?Hd, ?Hs; cbn.
    all: brk; cbn; rewrite ?Hs; cbn.
    all: try (cbn in Hck; discriminate).
    all: leaf.
  - (* MD0 *) subst l. assert (v = None) by (apply Hv; discriminate). subst v.
    destruct s as [|h| |[]|rd dst|w| | |r b]; cbn in Hck; try discriminate; unfold exec, mk, acquire; cbn;
      rewrite ?Hp, ?Hd, ?Hs; cbn.
    all: try (destruct Hout as [X|(X1 & X2)]; [discriminate X|congruence]).
    all: brk; cbn; rewrite ?Hs; cbn.
    all: try (cbn in Hck; discriminate).
    all: leaf.
  - (* MD1 *) subst l. assert (v = None) by (apply Hv; discriminate). subst v.
    destruct s as [|h| |[]|rd dst|w| | |r b]; cbn in Hck; try discriminate; unfold exec, mk, acquire; cbn;
      rewrite ?Hp, ?Hd, ?Hs; cbn.
    all: try (destruct Hout as [X|(X1 & X2)]; [discriminate X|congruence]).
    all: brk; cbn; rewrite ?Hs; cbn.
    all: try (cbn in Hck; discriminate).
    all: leaf.
  - (* MW *)
    destruct v as [v|]; [|exfalso; assert (MW <> MW) by (apply Hv; reflexivity); congruence].
    destruct l; cbn in Hl; try discriminate.
    all: destruct s as [|h| |[]|rd dst|w| | |r b]; cbn in Hck; try discriminate; unfold exec, mk, acquire; cbn;
      rewrite ?Hp, ?Hd, ?Hs; cbn.
    all: try (destruct Hout as [X|(X1 & X2)]; [discriminate X|congruence]).
    all: brk; cbn; rewrite ?Hs; cbn.
    all: try (cbn in Hck; discriminate).
    all: leaf.
Qed.

(* ================= Part 3: the invariant ================= *)
Lemma trs_check s st s' :
  trs s st = Some s' ->
  check s (a_mode st) = true /\ (outside_tx (a_mode st) = true \/ (s <> SConnect /\ s <> SClose)).
Proof.
  unfold trs. destruct (check s (a_mode st)); cbn [negb]; [|discriminate]. intros H. split; auto.
  destruct s; try (right; split; discriminate); destruct (outside_tx (a_mode st)); try discriminate; auto.
Qed.

Lemma adv_st m : forall k t e, t_st t = Run -> t_st (advance_f m k t) <> Err e.
Proof.
  induction m as [|m IH]; intros k t e H; destruct k as [|[s|c th el] k']; cbn [advance_f];
    try (cbn; congruence).
  - destruct s; cbn; congruence.
  - destruct s; try (cbn; congruence). apply IH. exact H.
  - apply IH. exact H.
Qed.

Lemma G_mono m d d' regs vm vx R :
  m <> MW -> (forall T, tget T d = TGood -> tget T d' = TGood) ->
  G m d regs vm vx R -> G m d' regs vm vx R.
Proof.
  intros Hm Mo (A & B & C).
  assert (V : forall T v, vk_sem m T v d -> vk_sem m T v d').
  { intros T v S. destruct v; cbn in *; auto; destruct S; congruence. }
  repeat split; auto. intros r. specialize (C r).
  destruct (lookup_rk R r) as [|b'|T mw|T mw]; cbn in *; auto.
  - destruct C as (P & N). split; auto. intros E. destruct (N E). congruence.
  - intros E. destruct (C E). congruence.
Qed.

Definition inv2 (c : cfg) : Prop :=
  inv c /\ mutex c /\ c_path c = Some 0 /\
  exists d, c_store c = [Some d] /\
    (forall j u, nth_error (c_thrs c) j = Some u -> tinv2 d u) /\
    (forall j u e, nth_error (c_thrs c) j = Some u -> t_st u <> Err e).

Lemma conn_zero c j u g :
  inv c -> length (c_store c) = 1 -> nth_error (c_thrs c) j = Some u -> t_conn u = Some g -> g = 0.
Proof.
  intros (_ & _ & _ & Hts) L N C. pose proof (tinv_of_nth _ _ _ _ Hts N) as T. unfold tinv in T.
  destruct (t_st u); [|congruence|destruct T; congruence].
  destruct T as (_ & B & _). specialize (B g C). lia.
Qed.

(* the other calls keep their knowledge when the committed content moves monotonically and the mover
   was the one writer *)
Lemma others_keep c tid t d d' j u :
  inv c -> mutex c -> c_store c = [Some d] ->
  nth_error (c_thrs c) tid = Some t -> (geb (t_lvl t) Res = true -> t_conn t = Some 0) ->
  writer c tid t -> (forall T, tget T d = TGood -> tget T d' = TGood) ->
  j <> tid -> nth_error (c_thrs c) j = Some u -> tinv2 d u -> tinv2 d' u.
Proof.
  intros Hi Mx Hs Nt Ct W Mo Hj Nu Tu Hrun. destruct (Tu Hrun) as (Hif & s & n & (A & B & C & D & E) & Ty).
  split; auto. exists s, n. split; auto.
  assert (Nm : a_mode s <> MW).
  { intros Q. rewrite Q in A. cbn [has_mode] in A. destruct A as (A1 & A2 & A3).
    destruct (t_conn u) as [g|] eqn:Cu; [|congruence].
    assert (g = 0) by (eapply conn_zero; eauto; rewrite Hs; reflexivity). subst g.
    destruct W as [W|W].
    - apply (Mx tid j t u 0); auto.
    - pose proof (others_in (c_thrs c) 0 tid 0 j u Nu ltac:(cbn; auto) Cu) as Hin.
      pose proof (any_geb_in _ _ _ W Hin). congruence. }
  assert (V : t_view u = None) by (apply B; auto).
  unfold gam. split; [exact A|]. split; [exact B|]. unfold xvis in *. rewrite V in *.
  split; [eapply G_mono; eauto|]. split; [auto|].
  intros Ei. destruct (E Ei) as (E1 & E2). split; apply Mo; auto.
Qed.

Lemma out_eqb_blocked o : out_eqb o OBlocked = true -> o = OBlocked.
Proof. destruct o; cbn; congruence. Qed.

Lemma hm_conn t a : has_mode t a -> geb (t_lvl t) Res = true -> t_conn t <> None.
Proof. destruct a; cbn; intros (A & B & C); auto; rewrite C; cbn; discriminate. Qed.

Lemma step_inv2 tid c : inv2 c -> inv2 (fst (step tid c)).
Proof.
  intros (Hi & Mx & Hp & d & Hs & Ht & He).
  pose proof (step_inv tid c Hi) as (Hi' & Hp' & Hl').
  pose proof (step_mutex tid c Mx) as Mx'.
  assert (Same : inv2 c) by (split; [exact Hi|]; split; [exact Mx|]; split; [exact Hp|]; exists d; auto).
  revert Hi' Hp' Hl' Mx'. unfold step.
  destruct (nth_error (c_thrs c) tid) as [t|] eqn:En; [|intros; exact Same].
  destruct (t_st t) eqn:Est; [|intros; exact Same..].
  destruct (Ht tid t En Est) as (Hif & sg & n & Hg & Hty).
  destruct (t_k t) as [|[s|cc th el] k'] eqn:Ek; [intros; exact Same| |].
  - (* a statement *)
    destruct n as [|n]; [discriminate|]. cbn [tys_f] in Hty.
    destruct (trs s sg) as [sg'|] eqn:Et; [|discriminate].
    destruct (trs_check _ _ _ Et) as (Hck & Hout).
    pose proof Hg as (A & B & C & D & E).
    pose proof Hi as (Hnn & Hpe & Hv & Hts).
    pose proof (tinv_of_nth _ _ _ _ Hts En) as Tt. unfold tinv in Tt. rewrite Est in Tt.
    destruct Tt as (_ & Hcb & _).
    pose proof (exec_inv c tid t s k' (a_mode sg) Hnn Hpe Est Hif Hcb A Ek Hck) as P.
    assert (Hg0 : forall g, t_conn t = Some g -> g = 0).
    { intros g Q. specialize (Hcb g Q). rewrite Hs in Hcb. cbn in Hcb. lia. }
    pose proof (exec_shape c tid d t s (a_mode sg) Hp Hs Est A Hck B Hg0 Hout) as S.
    destruct (exec c tid t s) as [t1 pa sto vi out]. unfold exec_post in P. unfold shape in S.
    cbn [r_thr r_path r_store r_viol r_out] in *.
    destruct P as (P1 & P2 & P3 & P4 & P5).
    destruct (t_st t1) eqn:E1.
    + destruct P5 as (Q1 & Q2 & [(Q3 & Q4 & Q5)|(Q3 & Q4 & Q5)]).
      * (* blocked *)
        subst out. cbn [out_eqb] in S. destruct S as (S1 & S2 & S3 & S4).
        intros Hi' Hp' Hl' Mx'. cbn [fst c_path c_store c_thrs] in *.
        unfold inv2. cbn [c_path c_store c_thrs].
        split; [exact Hi'|]. split; [exact Mx'|]. split; [congruence|]. exists d. split; [congruence|].
        split.
        -- intros j u Nj. apply nth_upd_inv in Nj. destruct Nj as [(-> & ->)|(Nj1 & Nj2)]; [|eapply Ht; eauto].
           intros _. split; [exact Q1|]. exists sg, (S n). split.
           ++ unfold gam, xvis. rewrite S2, S3, S4. split; [exact Q4|]. split; [exact B|].
              split; [exact C|]. split; [exact D|exact E].
           ++ rewrite Q5. cbn [tys_f]. rewrite Et. exact Hty.
        -- intros j u e Nj. apply nth_upd_inv in Nj. destruct Nj as [(-> & ->)|(Nj1 & Nj2)]; [congruence|eapply He; eauto].
      * (* done *)
        destruct (out_eqb out OBlocked) eqn:Eo; [apply out_eqb_blocked in Eo; congruence|].
        destruct S as (x' & d' & S1 & S2 & S3 & S4 & S5 & S6 & S7).
        pose proof (trs_sound (a_mode sg) (xvis t d) (t_regs t) s sg sg' (t_par t) x' (conj eq_refl C) Et S3) as (M & G').
        assert (MoX : forall T, tget T (xvis t d) = TGood -> tget T x' = TGood).
        { intros T HT. destruct s; cbn [data] in S3; try (rewrite S3; exact HT).
          apply (trs_mono (a_mode sg) (xvis t d) (t_regs t) w sg sg' (t_par t) x'); auto.
          split; [reflexivity|exact C]. }
        assert (Mo : forall T, tget T d = TGood -> tget T d' = TGood).
        { destruct S7 as [->|(-> & _)]; auto. }
        assert (Tn : tinv2 d' (advance (t_k t1) t1)).
        { unfold advance. rewrite Q5. apply (advance_f_gam d' _ k' t1 sg' n); auto.
          unfold gam. rewrite M. split; [exact Q4|]. split; [exact S6|].
          split; [rewrite S2, S4; exact G'|].
          split; [intros T HT; rewrite S2; destruct S7 as [->|(-> & _)]; auto|].
          rewrite S5. intros Ei. destruct (E Ei). split; apply Mo; auto. }
        assert (Tne : forall e, t_st (advance (t_k t1) t1) <> Err e) by (intros e; apply adv_st; exact E1).
        intros Hi' Hp' Hl' Mx'.
        assert (New : forall tn, (tn = advance (t_k t1) t1) ->
                  inv (Cfg pa sto (upd_nth tid tn (c_thrs c)) vi) -> mutex (Cfg pa sto (upd_nth tid tn (c_thrs c)) vi) ->
                  inv2 (Cfg pa sto (upd_nth tid tn (c_thrs c)) vi)).
        { intros tn -> I2 M2. split; [exact I2|]. split; [exact M2|]. cbn [c_path c_store c_thrs].
          split; [congruence|]. exists d'. split; [exact S1|]. split.
          - intros j u Nj. apply nth_upd_inv in Nj. destruct Nj as [(-> & ->)|(Nj1 & Nj2)]; [exact Tn|].
            destruct S7 as [Sd|(Sd & W)]; [subst d'; eapply Ht; eauto|].
            apply (others_keep c tid t d d' j u); auto.
            + intros Gq. pose proof (hm_conn t _ A Gq) as Cn. destruct (t_conn t) as [g|] eqn:Ct; [|congruence].
              rewrite (Hg0 g eq_refl). reflexivity.
            + eapply Ht; eauto.
          - intros j u e Nj. apply nth_upd_inv in Nj. destruct Nj as [(-> & ->)|(Nj1 & Nj2)]; [apply Tne|eapply He; eauto]. }
        cbn [fst] in *.
        destruct out; try congruence; apply New; auto.
    + destruct P5.
    + (* an error would have to be a schema error: excluded by the typing *)
      exfalso. destruct P5 as (P5 & _). destruct (S P5) as [(rd & dst & -> & Er)|(w & -> & Ew)].
      * destruct (trs_noerr (a_mode sg) (xvis t d) (t_regs t) _ sg sg' (t_par t) (conj eq_refl C) Et) as (N1 & _).
        destruct (N1 rd dst eq_refl) as (b & Eb). congruence.
      * destruct (trs_noerr (a_mode sg) (xvis t d) (t_regs t) _ sg sg' (t_par t) (conj eq_refl C) Et) as (_ & N2).
        destruct (N2 w eq_refl) as (b & Eb). congruence.
  - (* an unresolved `if` *)
    intros Hi' Hp' Hl' Mx'. cbn [fst c_path c_store c_thrs] in *.
    unfold inv2. cbn [c_path c_store c_thrs].
    split; [exact Hi'|]. split; [exact Mx'|]. split; [exact Hp|]. exists d. split; [exact Hs|]. split.
    + intros j u Nj. apply nth_upd_inv in Nj. destruct Nj as [(-> & ->)|(Nj1 & Nj2)]; [|eapply Ht; eauto].
      unfold advance. apply (advance_f_gam d _ _ t sg n); auto.
    + intros j u e Nj. apply nth_upd_inv in Nj. destruct Nj as [(-> & ->)|(Nj1 & Nj2)]; [apply adv_st; auto|eapply He; eauto].
Qed.

Lemma run_inv2 sched : forall c, inv2 c -> inv2 (fst (run sched c)).
Proof.
  induction sched as [|tid sched IH]; intros c H; [exact H|].
  cbn [run]. pose proof (step_inv2 tid c H) as H1.
  destruct (step tid c) as [c1 o]. cbn [fst] in H1. specialize (IH c1 H1).
  destruct (run sched c1). exact IH.
Qed.

Lemma init_inv2 p d0 pars :
  side_ok_full p = true ->
  (forall par, In par pars -> p_init par = false -> good2 d0) ->
  inv2 (init_cfg p (Some d0) pars).
Proof.
  intros Hs H0. unfold side_ok_full in Hs. apply andb_true_iff in Hs. destruct Hs as (Hs1 & Hs2).
  split; [apply init_inv; auto|]. split; [apply init_mutex|]. split; [reflexivity|].
  exists d0. split; [reflexivity|]. cbn [init_cfg c_thrs]. split.
  - intros j u Nj. apply nth_error_In in Nj. apply in_map_iff in Nj. destruct Nj as (par & <- & Hin).
    unfold new_thr, advance.
    apply (advance_f_gam d0 _ p _ ast0 (S (S (size p)))); auto.
    unfold gam, xvis. cbn [t_view t_regs t_par a_mode a_vm a_vx a_regs ast0].
    split; [cbn; auto|]. split; [split; intros; [discriminate|reflexivity]|].
    split; [repeat split; cbn; auto|]. split; [auto|]. intros Ei. apply (H0 par); auto.
  - intros j u e Nj. apply nth_error_In in Nj. apply in_map_iff in Nj. destruct Nj as (par & <- & Hin).
    unfold new_thr, advance. apply adv_st. reflexivity.
Qed.

(* C02_safe: no call is ever in an error state *)
Theorem safe_full p d0 pars sched :
  side_ok_full p = true ->
  (forall par, In par pars -> p_init par = false -> good2 d0) ->
  let c := fst (run sched (init_cfg p (Some d0) pars)) in
  c_viol c = false /\ c_path c = Some 0 /\ (exists d, c_store c = [Some d]) /\
  (forall t, In t (c_thrs c) -> forall e, t_st t <> Err e).
Proof.
  intros Hs H0 c.
  pose proof (run_inv2 sched _ (init_inv2 p d0 pars Hs H0)) as ((_ & _ & Hv & _) & _ & Hp & d & Hst & _ & He).
  fold c in Hv, Hp, Hst, He.
  split; [exact Hv|]. split; [exact Hp|]. split; [eauto|].
  intros t Hin e. apply In_nth_error in Hin. destruct Hin as (j & Nj). eapply He; eauto.
Qed.
