(* C14 / C15 — second layer: backward halves of the fixpoint passes (rank argument), the alias
   relation, detect_aliases as a whole, and the composition over _simplify_once / simplify. *)
From Coq Require Import ZArith QArith Qcanon List Bool PArith Lia.
Import ListNotations.
From PV Require Import Model.C14_simplify Proofs.C14_simplify.
Open Scope Qc_scope.
Local Opaque SUBSTITUTE_LOOP_LIMIT.

(* ---------- acyclic definitions: a rank that strictly decreases along references ---------- *)
Definition tri (rk : name -> nat) (s : sub) : Prop :=
  forall x v y w, In (x, v) s -> lookup y s = Some w -> occurs y v = true -> (rk y < rk x)%nat.
Definition acyclic (s : sub) : Prop := exists rk, tri rk s.

Definition sub_step (s : sub) : sub := map (fun p => (fst p, subst s (snd p))) s.

Lemma lookup_map_snd {B C} (f : B -> C) x (l : list (name * B)) :
  lookup x (map (fun p => (fst p, f (snd p))) l) = option_map f (lookup x l).
Proof.
  induction l as [| [y v] l IH]; simpl; try reflexivity.
  destruct (Pos.eqb x y); simpl; auto.
Qed.

Lemma tri_step rk s : tri rk s -> tri rk (sub_step s).
Proof.
  intros T x v' y w' Hin Hl Ho. unfold sub_step in *.
  apply in_map_iff in Hin. destruct Hin as [[x0 v] [E Hin]]. simpl in E. inversion E. subst x0 v'. clear E.
  rewrite lookup_map_snd in Hl. destruct (lookup y s) as [w |] eqn:Ly; simpl in Hl; try discriminate.
  apply subst_occ in Ho. destruct Ho as [[_ L] | [z [w0 [Hz [Lz Hy]]]]].
  - congruence.
  - assert (rk z < rk x)%nat by (eapply T; eauto).
    assert (rk y < rk z)%nat by (eapply T; eauto using lookup_In). lia.
Qed.

(* one step back: if r satisfies the substituted definitions it satisfies the definitions *)
Lemma step_back r rk s : tri rk s -> facts r (sub_step s) -> facts r s.
Proof.
  intros T F.
  assert (K : forall k x v, In (x, v) s -> (rk x <= k)%nat -> r x = eval r v).
  { induction k as [| k IH]; intros x v Hin Hk.
    - assert (Fx : r x = eval r (subst s v)).
      { unfold facts, sub_step in F. rewrite Forall_map in F. rewrite Forall_forall in F.
        apply (F _ Hin). }
      rewrite Fx, subst_sound. apply eval_ext_occ. intros y Hy. unfold upd.
      destruct (lookup y s) as [w |] eqn:L; try reflexivity.
      assert (rk y < rk x)%nat by (eapply T; eauto). lia.
    - assert (Fx : r x = eval r (subst s v)).
      { unfold facts, sub_step in F. rewrite Forall_map in F. rewrite Forall_forall in F.
        apply (F _ Hin). }
      rewrite Fx, subst_sound. apply eval_ext_occ. intros y Hy. unfold upd.
      destruct (lookup y s) as [w |] eqn:L; try reflexivity.
      assert (rk y < rk x)%nat by (eapply T; eauto).
      symmetry. apply IH; [eapply lookup_In; eauto | lia]. }
  unfold facts. apply Forall_forall. intros [x v] Hin. simpl. eapply K; eauto.
Qed.

Lemma combine_sub_step vars vals :
  combine vars (map (subst (combine vars vals)) vals) = sub_step (combine vars vals).
Proof. unfold sub_step. apply combine_map_r. Qed.

Local Transparent subst_fix.
Lemma subst_fix_backward r rk n vars : forall vals,
  tri rk (combine vars vals) ->
  facts r (combine vars (fst (subst_fix n vars vals))) -> facts r (combine vars vals).
Proof.
  induction n as [| n IH]; intros vals T F; simpl in F; try assumption.
  apply (step_back r rk); try assumption.
  rewrite <- combine_sub_step.
  destruct (list_eqb expr_eqb vals (map (subst (combine vars vals)) vals)); simpl in F; try assumption.
  apply IH; try assumption. rewrite combine_sub_step. now apply tri_step.
Qed.
Local Opaque subst_fix.

(* the value loop, whatever its outcome, is an equivalence on acyclic definitions *)
Lemma subst_fix_iff r (d : sub) : acyclic d ->
  (facts r d <-> facts r (combine (map fst d) (fst (subst_fix SUBSTITUTE_LOOP_LIMIT (map fst d) (map snd d))))).
Proof.
  intros [rk T]. split; intro F.
  - apply subst_fix_forward. rewrite combine_fst_snd. exact F.
  - pose proof (subst_fix_backward r rk SUBSTITUTE_LOOP_LIMIT (map fst d) (map snd d)) as B.
    rewrite combine_fst_snd in B. apply B; assumption.
Qed.

(* ---------- eliminable_variable_expression: full equivalence ---------- *)
Definition elim_defs (mt : list name) (m : model) : sub :=
  let '(_, defs, _, _) := elim_loop (states m) (algs m) (algs m) mt (eqs m) in defs.

Theorem sound_eliminate_vars r mt m :
  acyclic (elim_defs mt m) -> failed m = false -> failed (eliminate_vars mt m) = false ->
  (sat r m <-> sat r (eliminate_vars mt m)).
Proof.
  intros Hac Hf Hf'. split; [now apply eliminate_vars_forward |].
  revert Hac Hf'. unfold elim_defs, eliminate_vars.
  destruct (elim_loop (states m) (algs m) (algs m) mt (eqs m)) as [[[al defs] kept] u] eqn:E.
  intro Hac. destruct u. { simpl. congruence. }
  simpl. destruct (has_dup (map fst defs)). { simpl. congruence. }
  pose proof (elim_loop_sound r _ _ _ _ _ _ _ _ E) as L. intros _.
  destruct defs as [| d0 defs'].
  - intros [H1 H2 H3 H4 H5]; simpl in *. constructor; simpl; auto. apply L. split; auto. constructor.
  - remember (d0 :: defs') as defs.
    pose proof (subst_fix_iff r defs Hac) as FI.
    destruct (subst_fix SUBSTITUTE_LOOP_LIMIT (map fst defs) (map snd defs)) as [vals conv].
    simpl in FI. intros [H1 H2 H3 H4 H5]; simpl in *.
    apply facts_app in H5. destruct H5 as [Hg Hs].
    constructor; simpl; auto.
    + apply L. split; [now apply (holds_subst r _ kept Hs) | now apply FI].
    + now apply (holds_subst r _ (ieqs m) Hs).
Qed.

(* ---------- replace_parameter_expressions / replace_constant_expressions ---------- *)
Lemma split_simple_facts r l :
  pfacts r l <-> pfacts r (fst (split_simple l)) /\ facts r (snd (split_simple l)).
Proof.
  induction l as [| [x v] l IH]; simpl.
  - split; [intros _; split; constructor | intros _; constructor].
  - destruct (split_simple l) as [u d] eqn:E. simpl in IH.
    unfold pfacts, facts in *.
    destruct v as [e |]; [destruct (is_const e) |]; simpl;
      rewrite ?Forall_cons_iff; simpl; rewrite IH; tauto.
Qed.

Definition expr_defs (on_params : bool) (m : model) : sub :=
  snd (split_simple (if on_params then params m else consts m)).

Theorem sound_replace_exprs b r m :
  acyclic (expr_defs b m) -> (sat r m <-> sat r (replace_exprs b m)).
Proof.
  unfold expr_defs, replace_exprs. intro Hac.
  pose proof (split_simple_facts r (if b then params m else consts m)) as SP.
  destruct (split_simple (if b then params m else consts m)) as [simple defs]. simpl in SP, Hac.
  destruct defs as [| d0 defs'].
  - assert (SP' : pfacts r (if b then params m else consts m) <-> pfacts r simple).
    { rewrite SP. split; [tauto | intro; split; [assumption | constructor]]. }
    destruct b; split; intros [H1 H2 H3 H4 H5]; constructor; simpl in *; auto; now apply SP'.
  - remember (d0 :: defs') as defs.
    pose proof (subst_fix_iff r defs Hac) as FI.
    destruct (subst_fix SUBSTITUTE_LOOP_LIMIT (map fst defs) (map snd defs)) as [vals conv].
    simpl in FI. set (s := combine (map fst defs) vals) in *.
    destruct b; split; intros [H1 H2 H3 H4 H5]; simpl in *.
    + apply SP in H4. destruct H4 as [Hs Hd]. apply FI in Hd.
      constructor; simpl; [now apply holds_subst | now apply holds_subst | now apply pfacts_subst
                          | now apply pfacts_subst | apply facts_app; auto].
    + apply facts_app in H5. destruct H5 as [Hg Hd].
      constructor; simpl; [now apply (holds_subst r s) | now apply (holds_subst r s)
                          | now apply (pfacts_subst r s) | | assumption].
      apply SP. split; [now apply (pfacts_subst r s) | now apply FI].
    + apply SP in H3. destruct H3 as [Hs Hd]. apply FI in Hd.
      constructor; simpl; [now apply holds_subst | now apply holds_subst | now apply pfacts_subst
                          | now apply pfacts_subst | apply facts_app; auto].
    + apply facts_app in H5. destruct H5 as [Hg Hd].
      constructor; simpl; [now apply (holds_subst r s) | now apply (holds_subst r s)
                          | | now apply (pfacts_subst r s) | assumption].
      apply SP. split; [now apply (pfacts_subst r s) | now apply FI].
Qed.

(* ---------- the alias relation ---------- *)
Definition rel_sat (r : env) (R : list acls) : Prop :=
  forall c ms a n, In (c, ms) R -> In (a, n) ms -> r a = sgnq n (r c).

Lemma sgnq_sgnq n m q : sgnq n (sgnq m q) = sgnq (xorb n m) q.
Proof. destruct n, m; simpl; ring. Qed.
Lemma sgnq_inv n a b : a = sgnq n b -> b = sgnq n a.
Proof. intro H. rewrite H, sgnq_sgnq. destruct n; reflexivity. Qed.
Lemma eval_sgn r n e : eval r (sgn n e) = sgnq n (eval r e).
Proof. destruct n; simpl; [apply mk_un_sound | reflexivity]. Qed.

Lemma canon_sound r R x : rel_sat r R -> r x = sgnq (snd (canon R x)) (r (fst (canon R x))).
Proof.
  induction R as [| [c ms] R IH]; simpl; intro S; try reflexivity.
  destruct (Pos.eqb c x) eqn:E.
  - apply Pos.eqb_eq in E. subst. reflexivity.
  - destruct (lookup x ms) as [n |] eqn:L.
    + simpl. apply lookup_In in L. eapply S; [left; reflexivity | exact L].
    + apply IH. intros c' ms' a n H1 H2. eapply S; [right; exact H1 | exact H2].
Qed.

Lemma arel_add_sound r R a b nb R' : arel_add R a b nb = Some R' ->
  (rel_sat r R' <-> rel_sat r R /\ r a = sgnq nb (r b)).
Proof.
  unfold arel_add.
  pose proof (canon_sound r R a) as Ca. pose proof (canon_sound r R b) as Cb.
  destruct (canon R a) as [ca na]. destruct (canon R b) as [cb nb0]. simpl in Ca, Cb.
  destruct (Pos.eqb ca cb) eqn:E.
  - apply Pos.eqb_eq in E. subst cb.
    destruct (Bool.eqb na (xorb nb nb0)) eqn:B; try discriminate.
    intro H. inversion H. subst R'. apply eqb_prop in B. subst na.
    split; [| tauto]. intro S. split; auto.
    rewrite (Ca S), (Cb S), sgnq_sgnq. destruct nb, nb0; reflexivity.
  - intro H. inversion H. subst R'. clear H.
    set (flip := xorb na (xorb nb nb0)).
    set (moved := (cb, flip) :: map (fun '(v, n) => (v, xorb n flip)) (members_of cb R)).
    split.
    + intro S'.
      assert (Hcb : r cb = sgnq flip (r ca)).
      { eapply S'; [apply in_or_app; right; left; reflexivity | left; reflexivity]. }
      assert (S : rel_sat r R).
      { intros c ms v n H1 H2. destruct (Pos.eqb c cb) eqn:Ec.
        - apply Pos.eqb_eq in Ec. subst c.
          assert (Hv : r v = sgnq (xorb n flip) (r ca)).
          { eapply S'; [apply in_or_app; right; left; reflexivity |].
            right. apply in_map_iff. exists (v, n). split; [reflexivity |].
            unfold members_of. apply in_flat_map. exists (cb, ms). split; [| exact H2].
            apply filter_In. split; [exact H1 | simpl; apply Pos.eqb_refl]. }
          rewrite Hv, Hcb, sgnq_sgnq. reflexivity.
        - eapply S'; [apply in_or_app; left | exact H2].
          unfold arel_remove. apply filter_In. split; [exact H1 | simpl; now rewrite Ec]. }
      split; [exact S |].
      rewrite (Ca S), (Cb S), Hcb, !sgnq_sgnq. unfold flip. destruct na, nb, nb0; reflexivity.
    + intros [S Eq].
      assert (Hcb : r cb = sgnq flip (r ca)).
      { pose proof (sgnq_inv _ _ _ (Cb S)) as B1. rewrite B1.
        pose proof (sgnq_inv _ _ _ Eq) as B2. rewrite B2, (Ca S), !sgnq_sgnq.
        unfold flip. destruct na, nb, nb0; reflexivity. }
      intros c ms v n H1 H2. apply in_app_or in H1. destruct H1 as [H1 | H1].
      * unfold arel_remove in H1. apply filter_In in H1. eapply S; [apply H1 | exact H2].
      * destruct H1 as [H1 | []]. inversion H1. subst c ms. clear H1.
        destruct H2 as [H2 | H2].
        -- inversion H2. subst v n. exact Hcb.
        -- apply in_map_iff in H2. destruct H2 as [[v0 n0] [E2 H2]]. inversion E2. subst v n. clear E2.
           unfold members_of in H2. apply in_flat_map in H2. destruct H2 as [[c0 ms0] [H3 H4]].
           apply filter_In in H3. destruct H3 as [H3 H5]. simpl in H5. apply Pos.eqb_eq in H5. subst c0.
           simpl in H4. rewrite (S _ _ _ _ H3 H4), Hcb, sgnq_sgnq. reflexivity.
Qed.

Lemma make_alias_inv ad al dl dne R d0 d1 neg R' :
  make_alias ad al dl dne R d0 d1 neg = Some R' ->
  exists a o, ((a = d0 /\ o = d1) \/ (a = d1 /\ o = d0)) /\ arel_add R o a neg = Some R'.
Proof.
  unfold make_alias.
  destruct (mem d0 al); [| destruct (mem d1 al); [| discriminate]];
    repeat match goal with
           | |- context [if ?c then _ else _] => destruct c
           end; try discriminate; intro H; eauto 10.
Qed.

Definition shapes_ok (r : env) (pc : list name) (es : list expr) : Prop :=
  forall e d0 d1 n, In e es -> detect_alias pc e = Some (d0, d1, n) ->
                    (eval r e = 0 <-> r d0 = sgnq n (r d1)).

Lemma da_loop_sound r ad al dl dne pc : forall es R R' kept,
  shapes_ok r pc es ->
  da_loop ad al dl dne pc R es = (R', kept) ->
  (holds r es /\ rel_sat r R <-> holds r kept /\ rel_sat r R').
Proof.
  induction es as [| e es IH]; intros R R' kept Hsh; simpl.
  - intro H. inversion H. subst. tauto.
  - assert (Hsh' : shapes_ok r pc es).
    { intros e' d0 d1 n Hin. apply Hsh. now right. }
    destruct (detect_alias pc e) as [[[d0 d1] neg] |] eqn:D.
    + destruct (make_alias ad al dl dne R d0 d1 neg) as [R1 |] eqn:M.
      * intro H. specialize (IH _ _ _ Hsh' H).
        apply make_alias_inv in M. destruct M as [a [o [Hao Add]]].
        pose proof (arel_add_sound r _ _ _ _ _ Add) as AS.
        pose proof (Hsh e d0 d1 neg (or_introl eq_refl) D) as He.
        assert (Heq : eval r e = 0 <-> r o = sgnq neg (r a)).
        { rewrite He. destruct Hao as [[-> ->] | [-> ->]]; [| tauto].
          split; intro K; now apply sgnq_inv. }
        unfold holds in *. rewrite Forall_cons_iff. rewrite <- IH, AS, Heq. tauto.
      * destruct (da_loop ad al dl dne pc R es) as [R2 k2] eqn:E. intro H. inversion H. subst.
        specialize (IH _ _ _ Hsh' E). unfold holds in *. rewrite !Forall_cons_iff. tauto.
    + destruct (da_loop ad al dl dne pc R es) as [R2 k2] eqn:E. intro H. inversion H. subst.
      specialize (IH _ _ _ Hsh' E). unfold holds in *. rewrite !Forall_cons_iff. tauto.
Qed.

(* ---------- satisfaction including the recorded aliases ---------- *)
Definition sat2 (r : env) (m : model) : Prop := sat r m /\ rel_sat r (arel m).

Lemma alias_subst_facts r R (f : acls -> list (name * bool)) :
  (forall cl x, In x (f cl) -> In x (snd cl)) -> rel_sat r R ->
  facts r (flat_map (fun cl => map (fun '(a, n) => (a, sgn n (Sym (fst cl)))) (f cl)) R).
Proof.
  intros Hf S. unfold facts. apply Forall_forall. intros [x e] Hin.
  apply in_flat_map in Hin. destruct Hin as [[c ms] [Hc Hin]].
  apply in_map_iff in Hin. destruct Hin as [[a n] [E Hin]]. inversion E. subst x e. clear E.
  simpl. rewrite eval_sgn. simpl. eapply S; [exact Hc | apply (Hf (c, ms)); exact Hin].
Qed.

Lemma filter_len {A} (f : A -> bool) l : (length (filter f l) <= length l)%nat.
Proof. induction l as [| a l IH]; simpl; [lia | destruct (f a); simpl; lia]. Qed.
Lemma filter_same_fst {B} (f : name * B -> bool) l :
  map fst (filter f l) = map fst l -> filter f l = l.
Proof.
  induction l as [| a l IH]; simpl; auto. destruct (f a) eqn:E; simpl; intro H.
  - inversion H. f_equal. auto.
  - exfalso. pose proof (filter_len f l) as L. apply (f_equal (@length _)) in H.
    simpl in H. rewrite !map_length in H. lia.
Qed.

Theorem sound_detect_aliases r ad m :
  shapes_ok r (map fst (params m) ++ map fst (consts m)) (eqs m) ->
  failed (detect_aliases ad m) = false ->
  map fst (params (detect_aliases ad m)) = map fst (params m) ->
  (sat2 r m <-> sat2 r (detect_aliases ad m)).
Proof.
  unfold detect_aliases. intro Hsh.
  destruct (da_loop ad (algs m) (ders m)
              (ders m ++ states m ++ inputs m ++ map fst (params m) ++ map fst (consts m))
              (map fst (params m) ++ map fst (consts m)) (arel m) (eqs m)) as [R kept] eqn:E.
  pose proof (da_loop_sound r _ _ _ _ _ _ _ _ _ Hsh E) as L.
  match goal with |- context [if ?c then _ else _] => destruct c end.
  { simpl. congruence. }
  simpl. intros _ Hp. apply filter_same_fst in Hp. rewrite Hp.
  match goal with |- context [map (subst ?s0) kept] => set (s := s0) end.
  assert (Fs : rel_sat r R -> facts r s).
  { intro S. unfold s. apply alias_subst_facts; auto.
    intros cl x Hx. apply filter_In in Hx. tauto. }
  unfold sat2. split.
  - intros [[H1 H2 H3 H4 H5] S]. simpl in *.
    destruct L as [L _]. destruct (L (conj H1 S)) as [Hk SR]. specialize (Fs SR).
    split; [constructor; simpl; auto; now apply holds_subst | exact SR].
  - intros [[H1 H2 H3 H4 H5] SR]. simpl in *. specialize (Fs SR).
    apply -> (holds_subst r s kept Fs) in H1. apply -> (holds_subst r s (ieqs m) Fs) in H2.
    destruct L as [_ L]. destruct (L (conj H1 SR)) as [He S].
    split; [constructor; simpl; auto | exact S].
Qed.

(* ---------- replace_constant_values (with chained constant values, 244e2ee) ---------- *)
Definition const_defs (m : model) : sub :=
  flat_map (fun '(x, v) => match v with Some e => [(x, e)] | None => [] end) (consts m).
(* no alias entry has a constant as canonical variable (always true in the first pass of simplify;
   otherwise the entry is removed and its facts move to the ghost list — not covered here) *)
Definition no_const_canonical (m : model) : Prop :=
  forallb (fun cl => negb (mem (fst cl) (map fst (consts m)))) (arel m) = true.

Lemma consts_facts r (l : list (name * pval)) :
  existsb (fun '(_, v) => match v with None => true | _ => false end) l = false ->
  (pfacts r l <-> facts r (flat_map (fun '(x, v) => match v with Some e => [(x, e)] | None => [] end) l)).
Proof.
  induction l as [| [x v] l IH]; simpl.
  - intros _. split; constructor.
  - destruct v as [e |]; simpl; try discriminate. intro H. specialize (IH H).
    unfold pfacts, facts in *. rewrite !Forall_cons_iff. simpl. tauto.
Qed.

Lemma resolve_defs_iff r d : acyclic d -> (facts r d <-> facts r (fst (resolve_defs d))).
Proof.
  intro Hac. unfold resolve_defs. destruct (existsb _ d); [| simpl; tauto].
  pose proof (subst_fix_iff r d Hac) as FI.
  destruct (subst_fix SUBSTITUTE_LOOP_LIMIT (map fst d) (map snd d)) as [vals conv]. exact FI.
Qed.

Lemma filter_all {A} (f : A -> bool) l : forallb f l = true -> filter f l = l.
Proof.
  induction l as [| a l IH]; simpl; auto. intro H. apply andb_true_iff in H. destruct H as [H1 H2].
  rewrite H1. f_equal. auto.
Qed.
Lemma filter_none {A} (f : A -> bool) l : forallb (fun x => negb (f x)) l = true -> filter f l = [].
Proof.
  induction l as [| a l IH]; simpl; auto. intro H. apply andb_true_iff in H. destruct H as [H1 H2].
  apply negb_true_iff in H1. rewrite H1. auto.
Qed.

Theorem sound_replace_const_values r m :
  acyclic (const_defs m) -> no_const_canonical m -> failed (replace_const_values m) = false ->
  (sat2 r m <-> sat2 r (replace_const_values m)).
Proof.
  unfold replace_const_values, no_const_canonical. intros Hac Hnc.
  fold (const_defs m).
  pose proof (resolve_defs_iff r (const_defs m) Hac) as RI.
  destruct (resolve_defs (const_defs m)) as [s conv]. simpl in RI.
  destruct (existsb (fun '(_, v) => match v with None => true | _ => false end) (consts m)) eqn:Ex.
  { simpl. congruence. }
  pose proof (consts_facts r (consts m) Ex) as CF. fold (const_defs m) in CF.
  intros _. rewrite (filter_all _ _ Hnc). rewrite (filter_none _ _ Hnc). simpl. rewrite app_nil_r.
  unfold sat2. simpl. split.
  - intros [[H1 H2 H3 H4 H5] S]. simpl in *. apply CF in H3. apply RI in H3.
    split; [constructor; simpl; [now apply holds_subst | now apply holds_subst | constructor
                                 | now apply pfacts_subst | apply facts_app; auto] | exact S].
  - intros [[H1 H2 H3 H4 H5] S]. simpl in *. apply facts_app in H5. destruct H5 as [Hg Hs].
    split; [constructor; simpl; [now apply (holds_subst r s) | now apply (holds_subst r s)
                                 | apply CF; now apply RI | now apply (pfacts_subst r s) | exact Hg]
           | exact S].
Qed.

(* ---------- composition: _simplify_once in the code's pass order, then the outer loop ---------- *)
Definition pass : Type := (bool * (model -> model) * (model -> Prop))%type.
Definition pass_sound (p : pass) : Prop :=
  let '(_, f, H) := p in
  forall r m, H m -> failed m = false -> failed (f m) = false -> (sat2 r m <-> sat2 r (f m)).

Fixpoint run (ps : list pass) (m : model) : model :=
  match ps with [] => m | (b, f, _) :: ps' => run ps' (step b f m) end.
(* the carve-out hypotheses, each stated on the model that reaches its pass *)
Fixpoint run_ok (ps : list pass) (m : model) : Prop :=
  match ps with
  | [] => True
  | (b, f, H) :: ps' => (b = true -> failed m = false -> H m) /\ run_ok ps' (step b f m)
  end.

Lemma step_failed b f m : failed m = true -> step b f m = m.
Proof. unfold step. intro H. rewrite H, andb_false_r. reflexivity. Qed.
Lemma run_failed ps : forall m, failed m = true -> failed (run ps m) = true.
Proof.
  induction ps as [| [[b f] H] ps IH]; simpl; auto.
  intros m Hf. rewrite (step_failed b f m Hf). auto.
Qed.

Lemma run_sound r ps : Forall pass_sound ps ->
  forall m, run_ok ps m -> failed (run ps m) = false -> (sat2 r m <-> sat2 r (run ps m)).
Proof.
  induction 1 as [| [[b f] H] ps Hp Hps IH]; simpl; intros m Hok Hf; [tauto |].
  destruct Hok as [H1 H2].
  assert (Hf1 : failed (step b f m) = false).
  { destruct (failed (step b f m)) eqn:E; auto. rewrite (run_failed ps _ E) in Hf. discriminate. }
  rewrite <- (IH _ H2 Hf). unfold step in *.
  destruct b; simpl in *; [| tauto]. destruct (failed m) eqn:Fm; simpl in *; [tauto |].
  apply (Hp r m); auto.
Qed.

Definition elim_on (o : options) : bool := match o_elim o with Some _ => true | None => false end.
Definition elim_f (o : options) (m : model) : model :=
  match o_elim o with
  | Some ns => if o_expand_mx o
               then (if no_elim_state ns m then eliminate_vars ns m
                     else eliminate_vars2 (o_dermap o) ns m)
               else set_failed m
  | None => m
  end.
(* no eliminable differentiated state (the get_derivative path is in the executable model and in the
   correspondence, its solution theorem is C14_pass_eliminable_states_partial) *)
Definition H_elim (o : options) (m : model) : Prop :=
  match o_elim o with
  | Some ns => no_elim_state ns m = true /\ acyclic (elim_defs ns m)
  | None => True
  end.
Definition H_rcv (m : model) : Prop := acyclic (const_defs m) /\ no_const_canonical m.
Definition H_da (o : options) (m : model) : Prop :=
  (forall r, shapes_ok r (map fst (params m) ++ map fst (consts m)) (eqs m)) /\
  map fst (params (detect_aliases (o_allow_der o) m)) = map fst (params m).

(* THE MODELLED OPTION SET, in the order of _simplify_once (model.py:474-1278) *)
Definition passes (o : options) : list pass :=
  [ (o_rpe o, replace_exprs true, fun m => acyclic (expr_defs true m));   (* replace_parameter_expressions *)
    (o_rce o, replace_exprs false, fun m => acyclic (expr_defs false m)); (* replace_constant_expressions *)
    (o_eca o, elim_const_assignments, fun _ => True);                     (* eliminate_constant_assignments *)
    (o_rpv o, replace_param_values, fun _ => True);                       (* replace_parameter_values *)
    (o_rcv o, replace_const_values, H_rcv);                               (* replace_constant_values *)
    (elim_on o, elim_f o, H_elim o);            (* eliminable_variable_expression (+ expand_mx) *)
    (o_da o, detect_aliases (o_allow_der o), H_da o) ].  (* detect_aliases (+ allow_derivative_aliases) *)

Lemma simplify_once_run o m : simplify_once o m = run (passes o) m.
Proof.
  unfold simplify_once, passes, run, elim_on, elim_f.
  destruct (o_elim o); reflexivity.
Qed.

Lemma sat2_same_arel r m m' : arel m' = arel m -> (sat r m <-> sat r m') -> (sat2 r m <-> sat2 r m').
Proof. unfold sat2. intros -> H. tauto. Qed.

Lemma arel_replace_exprs b m : arel (replace_exprs b m) = arel m.
Proof.
  unfold replace_exprs. destruct (split_simple _) as [simple defs].
  destruct defs; [destruct b; reflexivity |].
  destruct (subst_fix _ _ _). reflexivity.
Qed.
Lemma arel_eca m : arel (elim_const_assignments m) = arel m.
Proof. unfold elim_const_assignments. destruct (eca_loop _ _) as [[? ?] ?]. reflexivity. Qed.
Lemma arel_rpv m : arel (replace_param_values m) = arel m.
Proof. unfold replace_param_values. destruct (split_valued _). reflexivity. Qed.
Lemma arel_elim mt m : arel (eliminate_vars mt m) = arel m.
Proof.
  unfold eliminate_vars. destruct (elim_loop _ _ _ _ _) as [[[? defs] ?] u].
  destruct (u || has_dup (map fst defs)); [reflexivity |].
  destruct defs; [reflexivity |]. destruct (subst_fix _ _ _). reflexivity.
Qed.

Lemma passes_sound o : Forall pass_sound (passes o).
Proof.
  unfold passes.
  apply Forall_cons.
  { intros r m H _ _. apply sat2_same_arel; [apply arel_replace_exprs | now apply sound_replace_exprs]. }
  apply Forall_cons.
  { intros r m H _ _. apply sat2_same_arel; [apply arel_replace_exprs | now apply sound_replace_exprs]. }
  apply Forall_cons.
  { intros r m _ _ _. apply sat2_same_arel; [apply arel_eca | apply sound_elim_const_assignments]. }
  apply Forall_cons.
  { intros r m _ _ _. apply sat2_same_arel; [apply arel_rpv | apply sound_replace_param_values]. }
  apply Forall_cons.
  { intros r m [H1 H2] _ Hf. now apply sound_replace_const_values. }
  apply Forall_cons.
  { intros r m H Hf Hf'. unfold elim_f, H_elim in *. destruct (o_elim o) as [ns |]; [| tauto].
    destruct H as [Hn H]. rewrite Hn in *.
    destruct (o_expand_mx o); [| simpl in Hf'; discriminate].
    apply sat2_same_arel; [apply arel_elim | now apply sound_eliminate_vars]. }
  apply Forall_cons; [| apply Forall_nil].
  intros r m [H1 H2] _ Hf. apply sound_detect_aliases; auto.
Qed.

Theorem simplify_once_sound r o m :
  run_ok (passes o) m -> failed (simplify_once o m) = false ->
  (sat2 r m <-> sat2 r (simplify_once o m)).
Proof.
  rewrite simplify_once_run. apply run_sound. apply passes_sound.
Qed.

(* hypotheses along the iterations of simplify() *)
Fixpoint loop_ok (fuel : nat) (o : options) (left : nat) (m : model) : Prop :=
  match fuel with
  | O => True
  | S f =>
      run_ok (passes o) m /\
      let m' := simplify_once o m in
      if failed m' then True
      else if o_iter o && negb (Nat.eqb left (length (algs m')))
           then loop_ok f o (length (algs m')) m' else True
  end.

Theorem simplify_loop_sound r o : forall fuel left m,
  loop_ok fuel o left m -> failed (simplify_loop fuel o left m) = false ->
  (sat2 r m <-> sat2 r (simplify_loop fuel o left m)).
Proof.
  induction fuel as [| f IH]; simpl; intros left m Hok Hf; [tauto |].
  destruct Hok as [H1 H2].
  destruct (failed (simplify_once o m)) eqn:Fm; [congruence |].
  destruct (o_iter o && negb (Nat.eqb left (length (algs (simplify_once o m))))).
  - rewrite <- (IH _ _ H2 Hf). now apply simplify_once_sound.
  - now apply simplify_once_sound.
Qed.

Theorem simplify_sound r o m :
  loop_ok SIMPLIFICATION_LOOP_LIMIT o 0%nat m -> failed (simplify o m) = false ->
  (sat2 r m <-> sat2 r (simplify o m)).
Proof. apply simplify_loop_sound. Qed.

(* ---------- C15: the eliminable pass pairs each dropped equation with one removed unknown ---------- *)
Lemma mem_In x l : mem x l = true <-> In x l.
Proof.
  unfold mem. rewrite existsb_exists. split.
  - intros [y [H1 H2]]. apply Pos.eqb_eq in H2. now subst.
  - intro H. exists x. split; auto. apply Pos.eqb_refl.
Qed.
Lemma mem_remove1 y x al : mem y (remove1 x al) = false -> y <> x -> mem y al = false.
Proof.
  intros H Hn. destruct (mem y al) eqn:E; auto. apply mem_In in E.
  assert (K : In y (remove1 x al)).
  { unfold remove1. apply filter_In. split; auto. apply negb_true_iff. apply Pos.eqb_neq. congruence. }
  apply mem_In in K. congruence.
Qed.
Lemma has_dup_app_in x prev l : In x prev -> has_dup (prev ++ x :: l) = true.
Proof.
  induction prev as [| p prev IH]; simpl; [tauto |]. intros [-> | H].
  - apply orb_true_iff. left. apply mem_In. apply in_or_app. right. now left.
  - rewrite (IH H). apply orb_true_r.
Qed.
Lemma extract_mem sts al0 al mt e x v :
  extract_assignment sts al0 al mt e = ExtAlg x v -> mem x al = true \/ mem x al0 = true.
Proof.
  unfold extract_assignment. destruct e as [y | q | o a | o d0 d1]; try discriminate.
  - destruct (mem y sts) eqn:S; simpl.
    + destruct (mem y mt); discriminate.
    + destruct (mem y al0) eqn:A; simpl; try discriminate.
      destruct (mem y mt); try discriminate. intro H. inversion H. subst. auto.
  - destruct o; try discriminate; cbv beta zeta;
      repeat match goal with
        | |- context [match ?d with Sym _ => _ | _ => _ end] => is_var d; destruct d
        | |- context [if (mem ?y al && ?c) then _ else _] => destruct (mem y al) eqn:?; simpl
        | |- context [if ?c then _ else _] => destruct c
        end; try discriminate; intro H; inversion H; subst; auto.
Qed.

Lemma elim_loop_square sts al0 mt : forall es al prev al' defs kept,
  NoDup al -> (forall x, mem x al0 = true -> mem x al = false -> In x prev) ->
  elim_loop sts al0 al mt es = (al', defs, kept, false) ->
  has_dup (prev ++ map fst defs) = false ->
  (length al' + length defs = length al)%nat /\ (length defs + length kept = length es)%nat.
Proof.
  induction es as [| e es IH]; intros al prev al' defs kept ND Inv; simpl.
  - intro H. inversion H. subst. simpl. lia.
  - destruct (extract_assignment sts al0 al mt e) as [| x v |] eqn:X.
    + destruct (elim_loop sts al0 al mt es) as [[[a1 d1] k1] u1] eqn:E. intro H. inversion H. subst.
      intro Hd. specialize (IH _ _ _ _ _ ND Inv E Hd). simpl. lia.
    + destruct (elim_loop sts al0 (remove1 x al) mt es) as [[[a1 d1] k1] u1] eqn:E.
      intro H. inversion H. subst. simpl. intro Hd.
      assert (Hx : mem x al = true).
      { destruct (mem x al) eqn:M; auto. exfalso.
        destruct (extract_mem _ _ _ _ _ _ _ X) as [K | K]; [congruence |].
        rewrite (has_dup_app_in x prev (map fst d1) (Inv x K M)) in Hd. discriminate. }
      pose proof (remove1_length x al ND Hx) as Hl.
      assert (Inv' : forall y, mem y al0 = true -> mem y (remove1 x al) = false -> In y (prev ++ [x])).
      { intros y Hy Hm. apply in_or_app. destruct (Pos.eq_dec y x) as [-> | Hn]; [right; now left |].
        left. apply Inv; auto. eapply mem_remove1; eauto. }
      assert (Hd' : has_dup ((prev ++ [x]) ++ map fst d1) = false) by (rewrite <- app_assoc; exact Hd).
      specialize (IH _ _ _ _ _ (remove1_NoDup x al ND) Inv' E Hd'). lia.
    + discriminate.
Qed.

Theorem square_eliminate_vars mt m :
  NoDup (algs m) -> failed m = false -> failed (eliminate_vars mt m) = false ->
  let m' := eliminate_vars mt m in
  (length (algs m') + length (eqs m) = length (algs m) + length (eqs m'))%nat
  /\ ders m' = ders m /\ states m' = states m /\ inputs m' = inputs m
  /\ params m' = params m /\ consts m' = consts m.
Proof.
  intros ND Hf. unfold eliminate_vars.
  destruct (elim_loop (states m) (algs m) (algs m) mt (eqs m)) as [[[al defs] kept] u] eqn:E.
  destruct u; simpl; [congruence |].
  destruct (has_dup (map fst defs)) eqn:Hd; simpl; [congruence |]. intros _.
  assert (Inv : forall x, mem x (algs m) = true -> mem x (algs m) = false -> In x (@nil name)) by congruence.
  destruct (elim_loop_square _ _ _ _ _ [] _ _ _ ND Inv E Hd) as [L1 L2].
  destruct defs as [| d0 defs']; simpl in *.
  - repeat split; auto. lia.
  - destruct (subst_fix _ _ _) as [vals conv]. simpl. rewrite map_length. repeat split; auto. lia.
Qed.

(* ---------- eliminable differentiated states (get_derivative path) ---------- *)
Lemma extract2_sound r sts all0 al mt e x v :
  extract2 sts all0 al mt e = E2Alg x v \/ extract2 sts all0 al mt e = E2State x v ->
  (eval r e = 0 <-> r x = eval r v).
Proof.
  unfold extract2. destruct e as [y | q | o a | o d0 d1]; try (intros [H | H]; discriminate).
  - destruct (mem y all0 && mem y mt); [| intros [H | H]; discriminate].
    destruct (mem y sts); intros [H | H]; inversion H; subst; simpl; tauto.
  - pose proof (mk_un_sound r Neg d0) as M0. pose proof (mk_un_sound r Neg d1) as M1.
    revert M0 M1. generalize (mk_un Neg d0) as n0, (mk_un Neg d1) as n1. intros n0 n1 M0 M1.
    destruct o; try (intros [H | H]; discriminate); cbv beta zeta;
      repeat match goal with
        | |- context [match ?d with Sym _ => _ | _ => _ end] => is_var d; destruct d
        | |- context [if ?c then _ else _] => destruct c
        end; intros [H | H]; try discriminate; inversion H; subst; simpl in *; rewrite ?M0, ?M1;
      rewrite ?Qc_add_0, ?Qc_sub_0; split; intro K;
      first [now symmetry | exact K | rewrite K; ring | rewrite <- K; ring].
Qed.

Local Opaque GD_FUEL promote dexpr.
(* the loop with states: the consumed equations TOGETHER WITH the derivative definitions
   der(x) = d/dt(value) (which get_derivative adds: they are not consequences of the pointwise
   equations) are equivalent to the kept equations and all recorded definitions *)
Lemma elim_loop2_sound r dermap all0 mt : forall es st defs st' d dd kept,
  elim_loop2 dermap all0 mt st defs es = Some (st', d, dd, kept) ->
  exists new, d = defs ++ new /\ (holds r es /\ facts r dd <-> holds r kept /\ facts r new).
Proof.
  induction es as [| e es IH]; intros st defs st' d dd kept; simpl.
  - intro H. inversion H. subst. exists []. rewrite app_nil_r. split; auto.
    split; intros _; split; constructor.
  - destruct st as [[sts dmap] al].
    destruct (extract2 sts all0 al mt e) as [| x v | x v] eqn:X.
    + destruct (elim_loop2 dermap all0 mt (sts, dmap, al) defs es) as [[[[st1 d1] dd1] k1] |] eqn:E;
        [| intro HH; inversion HH]. intro H. inversion H. subst.
      destruct (IH _ _ _ _ _ _ E) as [new [Hd Hi]]. exists new. split; auto.
      unfold holds in *. rewrite !Forall_cons_iff. tauto.
    + intro H. destruct (IH _ _ _ _ _ _ H) as [new [Hd Hi]]. exists ((x, v) :: new).
      split; [rewrite Hd, <- app_assoc; reflexivity |].
      pose proof (extract2_sound r _ _ _ _ _ _ _ (or_introl X)) as Hx.
      unfold holds, facts in *. rewrite !Forall_cons_iff. simpl. rewrite Hx. tauto.
    + destruct (promote _ _ _ _ _) as [[[sts1 dmap1] al1] |];
        [| intro HH; inversion HH].
      destruct (lookup x dmap1) as [dx |]; [| intro HH; inversion HH].
      destruct (elim_loop2 _ _ _ _ _ es) as [[[[st1 d1] dd1] k1] |] eqn:E; [| intro HH; inversion HH].
      intro H. inversion H. subst.
      destruct (IH _ _ _ _ _ _ E) as [new [Hd Hi]].
      exists ((dx, dexpr GD_FUEL dmap1 defs v) :: (x, v) :: new).
      split; [rewrite Hd, <- app_assoc; reflexivity |].
      pose proof (extract2_sound r _ _ _ _ _ _ _ (or_intror X)) as Hx.
      unfold holds, facts in *. rewrite !Forall_cons_iff. simpl. rewrite Hx. tauto.
Qed.

Definition elim2_defs (dermap : list (name * name)) (mt : list name) (m : model) : sub * sub :=
  match elim_loop2 dermap (states m ++ algs m) mt (states m, combine (states m) (ders m), algs m) [] (eqs m) with
  | Some (_, defs, ddefs, _) => (defs, ddefs)
  | None => ([], [])
  end.

Theorem sound_eliminate_vars2 r dermap mt m :
  acyclic (fst (elim2_defs dermap mt m)) -> failed m = false ->
  failed (eliminate_vars2 dermap mt m) = false ->
  (sat r m /\ facts r (snd (elim2_defs dermap mt m)) <-> sat r (eliminate_vars2 dermap mt m)).
Proof.
  unfold elim2_defs, eliminate_vars2. intros Hac Hf.
  destruct (elim_loop2 dermap (states m ++ algs m) mt (states m, combine (states m) (ders m), algs m) [] (eqs m))
    as [[[[[[sts dmap] al] defs] ddefs] kept] |] eqn:E; [| simpl; congruence].
  simpl in Hac |- *.
  destruct (has_dup (map fst defs)); [simpl; congruence |].
  destruct (elim_loop2_sound r _ _ _ _ _ _ _ _ _ _ E) as [new [Hd L]]. simpl in Hd. subst new.
  pose proof (subst_fix_iff r defs Hac) as FI.
  destruct (subst_fix SUBSTITUTE_LOOP_LIMIT (map fst defs) (map snd defs)) as [vals conv].
  simpl in FI. intros _. split.
  - intros [[H1 H2 H3 H4 H5] Hdd]. destruct L as [L _]. destruct (L (conj H1 Hdd)) as [Hk Hdefs].
    apply FI in Hdefs.
    constructor; simpl; auto; [now apply holds_subst | now apply holds_subst | apply facts_app; auto].
  - intros [H1 H2 H3 H4 H5]; simpl in *. apply facts_app in H5. destruct H5 as [Hg Hs].
    apply -> (holds_subst r _ kept Hs) in H1. apply -> (holds_subst r _ (ieqs m) Hs) in H2.
    destruct L as [_ L]. destruct (L (conj H1 (proj2 FI Hs))) as [He Hdd].
    split; [constructor; simpl; auto | exact Hdd].
Qed.
