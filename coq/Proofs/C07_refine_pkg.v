(* Proofs/C07_refine_pkg.v — refinement stage 2b: extends chains in libraries structured by packages (classes
   at any package depth, extends and component types across packages by simple or dotted name), models
   without nested classes, under no_shadowing. *)
From Coq Require Import List ZArith Bool PArith Lia.
From PV Require Import Lib.ClassTree Lib.Inst Model.C07_flatten Proofs.C07_flatten Proofs.C07_refine
     Proofs.C07_refine_ext Proofs.C07_lex.
Import ListNotations.

Section Pkg.
  Variable root : list cdef.
  Notation LS := (lex_scope root).
  Notation loc := (located root).

  (* a base reachable from x through extends clauses, each resolved in the scope of the extending class *)
  Inductive reach (x : cdef * path) : cdef * path -> Prop :=
  | r_refl : reach x x
  | r_step c lex e bc blex S b :
      reach x (c, lex) -> In e (c_exts c) -> lookup (LS lex) (fst e) = Some (bc, blex, S, b) ->
      reach x (bc, blex).

  (* side conditions *)
  Hypothesis Hbases : forall d dlex e bc blex S b,
      loc d dlex -> eplain d -> In e (c_exts d) -> lookup (LS dlex) (fst e) = Some (bc, blex, S, b) -> eplain bc.
  Hypothesis Htypes : forall d dlex s tc tlex S b,
      loc d dlex -> eplain d -> In s (c_syms d) -> lookup (LS dlex) (s_type s) = Some (tc, tlex, S, b) -> eclass tc.
  (* no_shadowing: the type of an inherited component means the same in the scope of the deriving class *)
  Hypothesis Hns : forall d dlex bc blex s,
      loc d dlex -> eplain d -> reach (d, dlex) (bc, blex) -> In s (c_syms bc) ->
      lookup (LS dlex) (s_type s) = lookup (LS blex) (s_type s).

  Definition el_fine3 (dlex0 : path) (el : elem) : Prop :=
    el_mods el = [] /\ exists fr blex, f_entries fr = [] /\ el_scope el = fr :: LS blex /\
      lookup (LS dlex0) (s_type (el_sym el)) = lookup (LS blex) (s_type (el_sym el)) /\
      (forall tc tlex S b, lookup (LS blex) (s_type (el_sym el)) = Some (tc, tlex, S, b) -> eclass tc).

  Definition fe_rel3 (dlex0 : path) (k0 : ident) (x : ext_class) (r : list elem * list eqn) : Prop :=
    x_kind x = k0 /\ x_classes x = [] /\ x_menv x = [] /\ map el_sym (fst r) = x_syms x /\ snd r = x_eqs x /\
    Forall (el_fine3 dlex0) (fst r) /\ Forall plain_sym (x_syms x).

  Lemma own_empty c lex : eplain c -> f_entries (own_frame c lex) = [].
  Proof. intros H. unfold own_frame. cbn [f_entries]. inversion H. reflexivity. Qed.

  Lemma all_classes_pkg : forall f c lex, loc c lex -> eplain c -> all_classes f c lex (LS lex) = [].
  Proof.
    induction f as [|f IH]; intros c lex Hl Hc; inversion Hc as [n k exts ss es Hk Ht Hex Hss]; subst c;
      cbn [all_classes c_classes c_exts entries_of map].
    - reflexivity.
    - rewrite fold_nil; [reflexivity|]. intros e Hine.
      destruct (mem_id (head_id (fst e)) BUILTIN); [reflexivity|].
      rewrite lookup_empty by reflexivity.
      destruct (lookup (LS lex) (fst e)) as [[[[bc blex] bS] b]|] eqn:L; [|reflexivity].
      destruct (lookup_located root _ _ _ _ _ _ _ Hl L) as [Hb [-> _]].
      rewrite (IH bc blex Hb (Hbases _ _ e bc _ _ _ Hl Hc Hine L)). reflexivity.
  Qed.

  Lemma fe_elems3 d0 dlex0 : loc d0 dlex0 -> eplain d0 -> forall n c lex x prefix,
    loc c lex -> eplain c -> reach (d0, dlex0) (c, lex) -> flatten_extends root n c lex [] = Ok x ->
    exists r, elems n c lex (LS lex) prefix [] = Some r /\ fe_rel3 dlex0 (c_kind c) x r.
  Proof.
    intros Hl0 Hc0. induction n as [|f IH]; intros c lex x prefix Hl Hc Hr H; [discriminate H|].
    inversion Hc as [n k exts ss es Hk Ht Hex Hss]; subst c.
    cbn [flatten_extends c_exts c_kind c_classes c_syms c_eqs c_name] in H.
    cbn [elems c_exts c_kind c_classes c_syms c_eqs c_name].
    match type of H with (x0 <- fold_left ?fM _ _ ;; _) = _ => set (FM := fM) in H end.
    match goal with |- context [fold_left ?fS exts (Some ([], []))] => set (FS := fS) end.
    destruct (fold_left FM exts (Ok (mkExt k [] [] [] []))) as [x0|err] eqn:EF; cbn [bind] in H; [|discriminate H].
    assert (exists r0, fold_left FS exts (Some ([], [])) = Some r0 /\ fe_rel3 dlex0 k x0 r0) as [r0 [ES R0]].
    { apply (fold_sim (fe_rel3 dlex0 k) FM FS) with (a := mkExt k [] [] [] []).
      - intros e err. reflexivity.
      - intros e a [els raw] a' Hine (Ka & Kc & Km & Ks & Ke & Kf & Kp) HM.
        unfold FM in HM. cbn [bind] in HM. unfold find_base in HM.
        destruct (proj1 (Forall_forall _ _) Hex e Hine) as [Hsnd Hnb]. rewrite Hnb in HM.
        unfold FS. rewrite Hnb.
        rewrite lookup_empty in HM by reflexivity. rewrite lookup_empty by reflexivity.
        destruct (lookup (LS lex) (fst e)) as [[[[bc blex] bS] b]|] eqn:L; cbn [bind] in HM; [|discriminate HM].
        destruct (lookup_located root _ _ _ _ _ _ _ Hl L) as [Hb [-> _]].
        pose proof (Hbases _ _ e bc _ _ _ Hl Hc Hine L) as Hbc.
        destruct (path_eqb (blex ++ [c_name bc]) (lex ++ [n])); [discriminate HM|].
        assert (Pos.eqb (c_kind bc) kBuiltin = false) as Kb
          by (inversion Hbc; cbn [c_kind]; destruct (Pos.eqb_spec k0 kBuiltin); [contradiction | reflexivity]).
        rewrite Kb in HM. cbn [andb] in HM. rewrite Hsnd in HM.
        destruct (flatten_extends root f bc blex []) as [rb|err] eqn:EB; cbn [bind] in HM; [|discriminate HM].
        destruct (IH bc blex rb prefix Hb Hbc (r_step _ _ _ e bc blex _ _ Hr Hine L) EB)
          as [r1 [E1 (Ja & Jc & Jm & Js & Je & Jf & Jp)]].
        rewrite Hsnd. change ([] ++ flat_args (Some prefix) []) with (@nil mentry). rewrite E1.
        destruct r1 as [bels braw]. eexists. split; [reflexivity|].
        inversion HM; subst a'; clear HM. cbn [fst snd] in *.
        unfold fe_rel3. cbn [x_kind x_classes x_syms x_eqs x_menv fst snd].
        rewrite Kc, Jc, Km, Jm. repeat split; try reflexivity; try assumption.
        + unfold e_update. rewrite (od_update_map el_name s_name Pos.eqb el_sym (fun a0 => eq_refl)).
          rewrite Ks, Js. reflexivity.
        + rewrite Ke, Je. reflexivity.
        + apply od_update_Forall; assumption.
        + apply od_update_Forall; assumption.
      - unfold fe_rel3. cbn. repeat split; try reflexivity; constructor.
      - exact EF. }
    rewrite ES. destruct r0 as [els raw]. destruct R0 as (Ka & Kc & Km & Ks & Ke & Kf & Kp). cbn [fst snd] in *.
    eexists. split; [reflexivity|].
    assert (Pos.eqb k kBuiltin = false) as Kk by (destruct (Pos.eqb_spec k kBuiltin); [contradiction | reflexivity]).
    cbn [x_kind] in H. rewrite Ka, Kk in H.
    inversion H; subst x; clear H.
    unfold fe_rel3. cbn [x_kind x_classes x_syms x_eqs x_menv fst snd entries_of map].
    rewrite Kc, Km. repeat split; try reflexivity.
    + unfold e_update. rewrite (od_update_map el_name s_name Pos.eqb el_sym (fun a0 => eq_refl)).
      rewrite Ks, map_map. cbn [el_sym fst]. rewrite map_id. reflexivity.
    + rewrite Ke. reflexivity.
    + apply od_update_Forall; [assumption|]. apply Forall_map. apply Forall_forall. intros s Hs.
      split; [reflexivity|]. eexists _, lex. split; [|split; [unfold class_scope; reflexivity|]].
      * cbn [f_entries]. apply all_classes_pkg; assumption.
      * cbn [el_sym fst]. split.
        -- apply (Hns d0 dlex0 (CDef n k [] exts ss es) lex s Hl0 Hc0 Hr Hs).
        -- intros tc tlex S b L. exact (Htypes _ _ s tc tlex S b Hl Hc Hs L).
    + apply od_update_Forall; assumption.
  Qed.

  (* ---------------------------------------------------------------- build on such a class *)
  Definition me3 (c : cdef) (lex : path) : scope := mkFrame (Some (c_name c)) true [] None :: LS lex.

  Lemma build_eplain3 f c lex i :
    loc c lex -> eplain c -> build root false (S f) c lex (LS lex) [] [] = Ok i ->
    exists x l rest,
      flatten_extends root f c lex [] = Ok x /\
      build_syms root false (build root false f) (extends_builtin root f) (me3 c lex) (scope_ref (me3 c lex))
                 (x_syms x) [] [] [] = Ok (l, rest) /\
      i = Inst (scope_ref (me3 c lex)) (c_kind c) l (x_eqs x) rest.
  Proof.
    intros Hl Hc B. cbn [build] in B.
    destruct (flatten_extends root f c lex []) as [x|err] eqn:EF; cbn [bind] in B; [|discriminate B].
    destruct (fe_elems3 c lex Hl Hc f c lex x [] Hl Hc (r_refl _) EF) as [r [_ (Ka & Kc & Km & _)]].
    assert (Pos.eqb (c_kind c) kBuiltin = false) as Kk
      by (inversion Hc; cbn [c_kind]; destruct (Pos.eqb_spec k kBuiltin); [contradiction | reflexivity]).
    rewrite Ka, Kk in B. rewrite Km, Kc in B. cbn [app forallb negb] in B.
    fold (me3 c lex) in B.
    destruct (build_syms root false (build root false f) (extends_builtin root f) (me3 c lex) (scope_ref (me3 c lex))
                (x_syms x) [] [] []) as [[l rest]|err] eqn:BS; cbn [bind] in B; [|discriminate B].
    inversion B. rewrite Ka. exists x, l, rest. split; [reflexivity|]. split; [exact BS | reflexivity].
  Qed.

  Definition Q3 (tc : cdef) (tlex : path) (tparent : scope) : Prop :=
    eclass tc /\ loc tc tlex /\ tparent = LS tlex.
  Definition CP3 (c : cdef) (lex : path) (parent : scope) : Prop :=
    eplain c /\ loc c lex /\ parent = LS lex.

  Lemma HQ3 tc tlex tparent : Q3 tc tlex tparent -> alias tc \/ CP3 tc tlex tparent.
  Proof. intros [[H|H] [Hl E]]; [right; repeat split; assumption | left; assumption]. Qed.

  Lemma HK3 c lex parent n i :
    CP3 c lex parent -> build root false n c lex parent [] [] = Ok i ->
    exists a b d e, i = Inst a (c_kind c) b d e /\ c_kind c <> kBuiltin /\ c_kind c <> kType.
  Proof.
    intros [Hc [Hl ->]] B. destruct n as [|f]; [discriminate B|].
    destruct (build_eplain3 f c lex i Hl Hc B) as [x [l [rest [_ [_ ->]]]]].
    eexists _, _, _, _. split; [reflexivity|]. inversion Hc; cbn [c_kind]; split; assumption.
  Qed.

  Lemma instance_refines_pkg : forall n, IHyp root CP3 eq n.
  Proof.
    induction n as [|n IHn]; intros c lex parent Sp prefix i r [Hc [Hl ->]] <- B Fs.
    - discriminate B.
    - destruct (build_eplain3 n c lex i Hl Hc B) as [x [l [rest [EF [BS ->]]]]].
      destruct n as [|f]; [discriminate EF|].
      destruct (fe_elems3 c lex Hl Hc (S f) c lex x prefix Hl Hc (r_refl _) EF)
        as [[els raw] [EE (Ka & Kc & Km & Ks & Ke & Kf & Kp)]].
      cbn [fst snd] in *.
      assert (forall s tc tlex tparent b, In s (x_syms x) ->
                lookup (me3 c lex) (s_type s) = Some (tc, tlex, tparent, b) -> Q3 tc tlex tparent) as HL.
      { intros s tc tlex tparent b Hin L. rewrite <- Ks in Hin. apply in_map_iff in Hin.
        destruct Hin as [el [<- Hel]].
        destruct (proj1 (Forall_forall _ _) Kf el Hel) as [_ [fr [blex [_ [_ [Eq Hty]]]]]].
        unfold me3 in L. rewrite lookup_empty in L by reflexivity.
        destruct (lookup_located root _ _ _ _ _ _ _ Hl L) as [Ht [-> _]].
        rewrite Eq in L. repeat split; [exact (Hty _ _ _ _ L) | exact Ht]. }
      destruct (build_syms_plain root Q3 (S f) (me3 c lex) _ _ HL _ _ _ Kp BS) as [l' [-> F]].
      cbn [rev app] in *. cbn [flatten_symbols] in Fs.
      destruct (fs_go flatten_symbols prefix l' [] []) as [[flat feqs]|err] eqn:G; cbn [bind] in Fs; [|discriminate Fs].
      assert (Forall2 (el_ok root Q3 eq (S f) (me3 c lex)) els l') as F2.
      { clear -F Ks Kf. rewrite <- Ks in F. clear Ks. revert l' F.
        induction Kf as [|el els0 [Hm [fr [blex [Efr [Esc [Eq _]]]]]] Kf IH]; intros l' F; inversion F; subst; constructor.
        - split; [assumption|]. split; [|exact Hm].
          rewrite Esc. unfold agree, me3. rewrite !lookup_empty by (reflexivity || exact Efr). rewrite Eq.
          destruct (lookup (LS blex) (s_type (el_sym el))) as [[[[tc tlex] tS] b]|]; [|reflexivity].
          eexists _, _. split; reflexivity.
        - apply IH. assumption. }
      rewrite <- Ks in Kp.
      destruct (fs_inst root Q3 CP3 eq HQ3 HK3 (S f) (me3 c lex) prefix IHn els l' F2 Kp [] [] (flat, feqs) (Forall_nil _) G)
        as [IS Cl].
      cbn [fst snd map] in IS.
      rewrite (fs_finish_clean _ prefix (x_eqs x) flat feqs Cl) in Fs. inversion Fs; subst r; clear Fs.
      cbn [fst snd]. split; [|assumption].
      rewrite inst_go_unfold, EE, IS. rewrite !map_map. cbn [v_name var_of]. rewrite Ke. reflexivity.
  Qed.
End Pkg.

(* ------------------------------------------------------------------ the flat model *)
(* the side conditions: every extends clause of a model names a model, every component type a model or an
   alias (never a package), models have no nested classes (eplain), and NO SHADOWING: the type name of a
   component means the same class in the scope of every class that inherits the component *)
Definition pkg_lib (root : list cdef) : Prop :=
  (forall d dlex e bc blex S b,
      located root d dlex -> eplain d -> In e (c_exts d) ->
      lookup (lex_scope root dlex) (fst e) = Some (bc, blex, S, b) -> eplain bc) /\
  (forall d dlex s tc tlex S b,
      located root d dlex -> eplain d -> In s (c_syms d) ->
      lookup (lex_scope root dlex) (s_type s) = Some (tc, tlex, S, b) -> eclass tc) /\
  (forall d dlex bc blex s,
      located root d dlex -> eplain d -> reach root (d, dlex) (bc, blex) -> In s (c_syms bc) ->
      lookup (lex_scope root dlex) (s_type s) = lookup (lex_scope root blex) (s_type s)).

Theorem refines_extends_pkg root top r :
  pkg_lib root ->
  (forall c lex Sp b, lookup (lex_scope root []) top = Some (c, lex, Sp, b) -> eplain c) ->
  flatten root false top = Ok r ->
  Forall clean (fst r) /\ PV.Lib.Inst.inst root top = Some (map var_of (fst r), snd r).
Proof.
  intros [Hb [Ht Hn]] Htop H. unfold flatten in H. unfold PV.Lib.Inst.inst.
  destruct (lookup (lex_scope root []) top) as [[[[c lex] parent] b]|] eqn:L; [|discriminate H].
  pose proof (Htop _ _ _ _ eq_refl) as Hc.
  destruct (lookup_root root _ _ _ _ _ L) as [Hl [-> _]].
  destruct (build root false FUEL c lex (lex_scope root lex) [] []) as [i|err] eqn:B; cbn [bind] in H; [|discriminate H].
  destruct (flatten_symbols i []) as [[flat eqs]|err] eqn:Fs; cbn [bind] in H; [|discriminate H].
  inversion H; subst r; clear H.
  destruct (instance_refines_pkg root Hb Ht Hn FUEL c lex (lex_scope root lex) (lex_scope root lex) [] i (flat, eqs)
              (conj Hc (conj Hl eq_refl)) eq_refl B Fs) as [I Cl].
  cbn [fst snd] in *.
  change INST_FUEL with FUEL. rewrite I.
  rewrite (map_fix drop_value flat) by (eapply Forall_impl; [|exact Cl]; intros s Hs; apply drop_value_clean; exact Hs).
  split; [assumption|].
  rewrite (value_eqs_clean flat Cl), app_nil_r, conv_eqs_clean.
  rewrite map_map. f_equal. f_equal. apply map_ext. intros s. apply conv_var_clean.
Qed.

(* ------------------------------------------------------------------ top-level libraries are package libraries *)
Lemma located_toplevel root d dlex : Forall eclass root -> located root d dlex -> dlex = [] /\ In d root.
Proof.
  intros Hroot [cs [N G]]. destruct dlex as [|n p].
  - cbn [nav] in N. inversion N; subst. split; [reflexivity|]. exact (od_get_In _ _ _ _ _ G).
  - exfalso. cbn [nav] in N. destruct (od_get c_name Pos.eqb n root) as [c0|] eqn:G0; [|discriminate N].
    assert (c_classes c0 = []) as E
      by (apply eclass_no_classes; apply (proj1 (Forall_forall _ _) Hroot c0 (od_get_In _ _ _ _ _ G0))).
    rewrite E in N. destruct p as [|m p]; cbn [nav od_get] in N; [|discriminate N].
    inversion N; subst. discriminate G.
Qed.

Lemma reach_toplevel root d bc blex : Forall eclass root -> located root d [] ->
  reach root (d, []) (bc, blex) -> blex = [].
Proof.
  intros Hroot Hd R. remember (d, @nil ident) as x eqn:Ex. remember (bc, blex) as y eqn:Ey.
  revert bc blex Ey. induction R as [|c lex e bc0 blex0 S b R IH Hin L]; intros bc blex Ey.
  - subst. inversion Ey; reflexivity.
  - inversion Ey; subst. specialize (IH c lex eq_refl). subst lex.
    destruct (lookup_rsc root _ _ _ _ _ Hroot L) as [_ [E _]]. exact E.
Qed.

Theorem root_lib_is_pkg_lib root : root_lib root -> pkg_lib root.
Proof.
  intros [Hroot Hbases]. split; [|split].
  - intros d dlex e bc blex S b Hl Hd He L. destruct (located_toplevel root d dlex Hroot Hl) as [-> Hin].
    exact (Hbases d e bc blex S b Hin Hd He L).
  - intros d dlex s tc tlex S b Hl Hd Hs L. destruct (located_toplevel root d dlex Hroot Hl) as [-> Hin].
    destruct (lookup_rsc root _ _ _ _ _ Hroot L) as [H _]. exact H.
  - intros d dlex bc blex s Hl Hd R Hs. destruct (located_toplevel root d dlex Hroot Hl) as [-> Hin].
    rewrite (reach_toplevel root d bc blex Hroot Hl R). reflexivity.
Qed.
