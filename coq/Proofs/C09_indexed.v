(* C09 — indexed names: a segment is an identifier with a list of integer subscripts, so an array
   element a[1].p.i is just another structured name [(a,[1]); (p,[]); (i,[])] of the generic model.
   pymoca removes zero defaults by the array NAME (tree.py:1118-1119 pops the index-free name):
   expand_byname mirrors that; it agrees with the generic model when every array is connected
   all-or-none, and differs on  Pin t[2]; connect(t[1], u). *)
From stdpp Require Import gmap.
From Coq Require Import QArith Qcanon.
From PV Require Import Lib.Closure Model.C09_connect Proofs.C09_connect.
Close Scope Qc_scope.
Close Scope Q_scope.

Notation iseg := (positive * list Z)%type.
Notation ivar := (list iseg).
Notation ikey := (ivar * bool)%type.
Notation fclauseI := ((ivar * bool) * (ivar * bool) * list (iseg * kind))%type.

Definition strip (n : ivar) : list positive := map fst n.

Definition untouched_byname (P : list (ikey * ikey)) (n : ivar) : Prop :=
  Forall (fun p : ikey * ikey => strip n ≠ strip p.1.1 ∧ strip n ≠ strip p.2.1) P.
Global Instance untouched_byname_dec P n : Decision (untouched_byname P n).
Proof. unfold untouched_byname. apply _. Defined.

Definition expand_byname (flows : list ivar) (cs : list fclauseI) : list (list (ivar * Z)) :=
  let s := run_clauses flows cs in
  eqs s ++ map sum_row (sets_of (fc s)) ++
  map zero_row (filter (untouched_byname (flow_pairs cs)) flows).

Definition model_rows_byname (i : inst iseg) : list (list (ivar * Z)) :=
  expand_byname (flat_flows [] i) (flat_clauses [] i).

Definition check_case_byname (c : inst iseg * list (list (ivar * Z))) : bool :=
  same_multiset (map canon_row (model_rows_byname c.1)) (map canon_row c.2).

(* every array is connected all-or-none: a declared flow whose array name is touched is itself touched *)
Definition all_or_none (flows : list ivar) (P : list (ikey * ikey)) : Prop :=
  ∀ n, n ∈ flows → untouched P n → untouched_byname P n.

Lemma byname_untouched P n : untouched_byname P n → untouched P n.
Proof.
  unfold untouched_byname, untouched. intros H. eapply Forall_impl; [exact H|]. intros p [H1 H2].
  split; intros ->; [by apply H1|by apply H2].
Qed.

Theorem byname_agrees (flows : list ivar) (cs : list fclauseI) (ρ : ivar → Qc) :
  all_or_none flows (flow_pairs cs) →
  sat ρ (expand_byname flows cs) ↔ sat ρ (expand flows cs).
Proof.
  intros Han. unfold expand_byname, expand, sat.
  destruct (run_clauses_spec flows cs) as (_ & _ & Hdisc).
  rewrite !Forall_app, !Forall_fmap, !Forall_forall.
  split; intros (H1 & H2 & H3); (split; [done|]); (split; [done|]); intros n Hn.
  - apply Hdisc in Hn as [Hn Hu]. apply H3. apply elem_of_list_filter. split; [by apply Han|done].
  - apply elem_of_list_filter in Hn as [Hu Hn]. apply H3. apply Hdisc. split; [done|by apply byname_untouched].
Qed.
