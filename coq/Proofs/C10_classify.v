(* C10 — proofs about Model/C10_classify.v (stdlib lists only). *)
From Coq Require Import List Arith Bool PeanoNat Lia Permutation Sorted.
From PV Require Import Model.C10_classify.
Import ListNotations.

(* ---------- keyword / category equality ------------------------------------------- *)
Lemma kw_eqb_eq a b : kw_eqb a b = true <-> a = b.
Proof. unfold kw_eqb; destruct a, b; simpl; split; intro H; try reflexivity; discriminate H. Qed.

Lemma cat_eqb_eq a b : cat_eqb a b = true <-> a = b.
Proof. unfold cat_eqb; destruct a, b; simpl; split; intro H; try reflexivity; discriminate H. Qed.

Lemma cat_eqb_refl a : cat_eqb a a = true.
Proof. apply cat_eqb_eq; reflexivity. Qed.

Lemma has_In k p : has k p = true <-> In k p.
Proof.
  unfold has; rewrite existsb_exists; split.
  - intros (x & Hx & E). apply kw_eqb_eq in E. subst; assumption.
  - intros H. exists k; split; [assumption | apply kw_eqb_eq; reflexivity].
Qed.

Lemma has_false k p : has k p = false <-> ~ In k p.
Proof. rewrite <- has_In. destruct (has k p); intuition congruence. Qed.

Lemma mem_In n l : mem n l = true <-> In n l.
Proof.
  unfold mem; rewrite existsb_exists; split.
  - intros (x & Hx & E). apply Nat.eqb_eq in E. subst; assumption.
  - intros H. exists n; split; [assumption | apply Nat.eqb_refl].
Qed.

(* ---------- the chain: precedence constant > parameter > input > state > algebraic --- *)
Lemma cat_of_precedence p t :
  (In Kconstant p -> cat_of p t = if is_str t then CStrConst else CConst) /\
  (~ In Kconstant p -> In Kparameter p -> cat_of p t = if is_str t then CStrParam else CParam) /\
  (~ In Kconstant p -> ~ In Kparameter p -> In Kinput p -> cat_of p t = CInput) /\
  (~ In Kconstant p -> ~ In Kparameter p -> ~ In Kinput p -> In Kstate p -> cat_of p t = CState) /\
  (~ In Kconstant p -> ~ In Kparameter p -> ~ In Kinput p -> ~ In Kstate p -> cat_of p t = CAlg).
Proof.
  unfold cat_of. repeat split; intros;
  repeat match goal with
  | H : In ?k p |- _ => apply has_In in H; rewrite H
  | H : ~ In ?k p |- _ => apply has_false in H; rewrite H
  end; reflexivity.
Qed.

(* converse reading: the category determines the prefix facts *)
Lemma cat_of_inv p t :
  match cat_of p t with
  | CConst => In Kconstant p /\ t <> TString
  | CStrConst => In Kconstant p /\ t = TString
  | CParam => ~ In Kconstant p /\ In Kparameter p /\ t <> TString
  | CStrParam => ~ In Kconstant p /\ In Kparameter p /\ t = TString
  | CInput => ~ In Kconstant p /\ ~ In Kparameter p /\ In Kinput p
  | CState => ~ In Kconstant p /\ ~ In Kparameter p /\ ~ In Kinput p /\ In Kstate p
  | CAlg => ~ In Kconstant p /\ ~ In Kparameter p /\ ~ In Kinput p /\ ~ In Kstate p
  end.
Proof.
  unfold cat_of.
  destruct (has Kconstant p) eqn:Hc; [apply has_In in Hc | apply has_false in Hc].
  { destruct t; simpl; split; try assumption; try reflexivity; intro E; discriminate E. }
  destruct (has Kparameter p) eqn:Hp; [apply has_In in Hp | apply has_false in Hp].
  { destruct t; simpl; repeat split; try assumption; try reflexivity; intro E; discriminate E. }
  destruct (has Kinput p) eqn:Hi; [apply has_In in Hi | apply has_false in Hi].
  { repeat split; assumption. }
  destruct (has Kstate p) eqn:Hs; [apply has_In in Hs | apply has_false in Hs];
  repeat split; assumption.
Qed.

(* ---------- generic filter facts ---------------------------------------------------- *)
Lemma filter_comm {A} (p q : A -> bool) l : filter p (filter q l) = filter q (filter p l).
Proof.
  induction l as [|a l IH]; simpl; [reflexivity|].
  destruct (q a) eqn:Q, (p a) eqn:P; simpl; rewrite ?Q, ?P, IH; reflexivity.
Qed.

Lemma filter_true {A} (l : list A) : filter (fun _ => true) l = l.
Proof. induction l; simpl; congruence. Qed.

Lemma filter_disj_perm {A} (p q : A -> bool) l :
  (forall x, p x = true -> q x = false) ->
  Permutation (filter p l ++ filter q l) (filter (fun x => p x || q x) l).
Proof.
  intros D. induction l as [|a l IH]; simpl; [constructor|].
  destruct (p a) eqn:P.
  - rewrite (D a P). simpl. constructor. exact IH.
  - simpl. destruct (q a) eqn:Q.
    + eapply Permutation_trans; [apply Permutation_sym, Permutation_middle|].
      constructor. exact IH.
    + exact IH.
Qed.

(* partition of a list by a function into finitely many classes *)
Section Partition.
  Context {A : Type} (f : A -> cat).

  Lemma partition_perm (cs : list cat) (l : list A) :
    NoDup cs ->
    Permutation (flat_map (fun c => filter (fun x => cat_eqb (f x) c) l) cs)
                (filter (fun x => existsb (cat_eqb (f x)) cs) l).
  Proof.
    induction cs as [|c cs IH]; intros ND; simpl.
    - induction l; simpl; [constructor | assumption].
    - inversion ND as [|? ? Hnin ND']; subst.
      eapply Permutation_trans; [apply Permutation_app_head, IH, ND'|].
      apply filter_disj_perm.
      intros x E. apply cat_eqb_eq in E. subst c.
      destruct (existsb (cat_eqb (f x)) cs) eqn:Ex; [|reflexivity].
      apply existsb_exists in Ex. destruct Ex as (c' & Hin & E). apply cat_eqb_eq in E. subst c'.
      contradiction.
  Qed.
End Partition.

Lemma all_cats_NoDup : NoDup all_cats.
Proof.
  unfold all_cats. repeat constructor; simpl; intuition discriminate.
Qed.

Lemma all_cats_complete c : existsb (cat_eqb c) all_cats = true.
Proof. destruct c; reflexivity. Qed.

(* ---------- the stable sort --------------------------------------------------------- *)
Definition ord_le (a b : sym) : Prop := s_order a <= s_order b.

Lemma insert_perm s l : Permutation (insert s l) (s :: l).
Proof.
  induction l as [|t l IH]; simpl; [apply Permutation_refl|].
  destruct (s_order s <=? s_order t); [apply Permutation_refl|].
  eapply Permutation_trans; [apply perm_skip, IH | apply perm_swap].
Qed.

Lemma sort_perm l : Permutation (sort l) l.
Proof.
  induction l as [|a l IH]; simpl; [constructor|].
  eapply Permutation_trans; [apply insert_perm | constructor; exact IH].
Qed.

Lemma insert_sorted s l : StronglySorted ord_le l -> StronglySorted ord_le (insert s l).
Proof.
  induction l as [|t l IH]; intros H; simpl.
  - constructor; constructor.
  - destruct (s_order s <=? s_order t) eqn:E.
    + apply Nat.leb_le in E. constructor; [exact H|].
      inversion H as [|? ? Hs Hf]; subst. constructor; [exact E|].
      eapply Forall_impl; [|exact Hf]. unfold ord_le; intros; lia.
    + apply Nat.leb_gt in E. inversion H as [|? ? Hs Hf]; subst.
      constructor; [apply IH, Hs|].
      eapply Permutation_Forall; [apply Permutation_sym, insert_perm|].
      constructor; [unfold ord_le; lia | exact Hf].
Qed.

Lemma sort_sorted l : StronglySorted ord_le (sort l).
Proof. induction l; simpl; [constructor | apply insert_sorted; assumption]. Qed.

(* stability: symbols with equal order keep their relative (dict) order *)
Definition at_order (k : nat) (s : sym) : bool := Nat.eqb (s_order s) k.

Lemma insert_stable k s l :
  StronglySorted ord_le l ->
  filter (at_order k) (insert s l) = filter (at_order k) (s :: l).
Proof.
  induction l as [|t l IH]; intros H; [reflexivity|].
  cbn [insert]. destruct (s_order s <=? s_order t) eqn:E; [reflexivity|].
  apply Nat.leb_gt in E. inversion H as [|? ? Hs Hf]; subst.
  cbn [filter]. rewrite (IH Hs). cbn [filter].
  unfold at_order.
  destruct (Nat.eqb (s_order t) k) eqn:Et, (Nat.eqb (s_order s) k) eqn:Es; try reflexivity.
  apply Nat.eqb_eq in Et. apply Nat.eqb_eq in Es. lia.
Qed.

Lemma sort_stable k l : filter (at_order k) (sort l) = filter (at_order k) l.
Proof.
  induction l as [|a l IH]; [reflexivity|].
  cbn [sort fold_right]. fold (sort l).
  rewrite insert_stable by apply sort_sorted.
  cbn [filter]. rewrite IH. reflexivity.
Qed.

Lemma filter_sorted {A} (R : A -> A -> Prop) (p : A -> bool) l :
  StronglySorted R l -> StronglySorted R (filter p l).
Proof.
  induction 1 as [|a l Hs IH Hf]; simpl; [constructor|].
  destruct (p a); [|exact IH].
  constructor; [exact IH|].
  rewrite Forall_forall in *. intros x Hx. apply filter_In in Hx. apply Hf, Hx.
Qed.

(* ---------- annotate ---------------------------------------------------------------- *)
Lemma annotate1_name ds s : s_name (annotate1 ds s) = s_name s.
Proof. unfold annotate1. destruct (_ && _); reflexivity. Qed.
Lemma annotate1_order ds s : s_order (annotate1 ds s) = s_order s.
Proof. unfold annotate1. destruct (_ && _); reflexivity. Qed.
Lemma annotate1_ty ds s : s_ty (annotate1 ds s) = s_ty s.
Proof. unfold annotate1. destruct (_ && _); reflexivity. Qed.
Lemma annotate1_empty ds s : s_empty (annotate1 ds s) = s_empty s.
Proof. unfold annotate1. destruct (_ && _); reflexivity. Qed.

(* prefixes other than state are untouched; state is present afterwards iff it was there
   or the name is differentiated *)
Lemma annotate1_pref ds s k :
  In k (s_pref (annotate1 ds s)) <->
  In k (s_pref s) \/ (k = Kstate /\ In (s_name s) ds).
Proof.
  unfold annotate1.
  destruct (mem (s_name s) ds) eqn:M; simpl.
  - apply mem_In in M.
    destruct (has Kstate (s_pref s)) eqn:Hs; simpl.
    + apply has_In in Hs. split; [tauto|]. intros [H|[-> _]]; assumption.
    + rewrite in_app_iff; simpl. split.
      * intros [H|[<-|[]]]; [left; assumption | right; split; [reflexivity | assumption]].
      * intros [H|[-> _]]; [left; assumption | right; left; reflexivity].
  - split; [tauto|]. intros [H|[_ H]]; [assumption|].
    apply mem_In in H. rewrite H in M. discriminate M.
Qed.

Lemma annotate_names fc : map s_name (annotate fc) = map s_name (f_syms fc).
Proof.
  unfold annotate. rewrite map_map. apply map_ext. intros; apply annotate1_name.
Qed.

(* ---------- der_refs = "occurs under some der(...)" -------------------------------- *)
(* independent inductive reading: [under n d e] — n occurs in e at a position that is
   below a der node, or d holds already at the root *)
Inductive under (n : nat) : bool -> expr -> Prop :=
| U_ref : under n true (ERef n)
| U_op d b args a : In a args -> under n (d || b) a -> under n d (EOp b args).

Fixpoint expr_ind' (P : expr -> Prop)
    (Href : forall n, P (ERef n)) (Hlit : P ELit)
    (Hop : forall b args, Forall P args -> P (EOp b args)) (e : expr) : P e :=
  match e with
  | ERef n => Href n
  | ELit => Hlit
  | EOp b args =>
      Hop b args ((fix go (l : list expr) : Forall P l :=
                     match l with
                     | [] => Forall_nil P
                     | a :: l' => Forall_cons a (expr_ind' P Href Hlit Hop a) (go l')
                     end) args)
  end.

Lemma der_refs_under n e : forall c, In n (der_refs c e) <-> under n (0 <? c) e.
Proof.
  induction e as [m| |b args IH] using expr_ind'; intros c; simpl.
  - destruct (0 <? c) eqn:E; simpl.
    + split; [intros [<-|[]]; constructor | intros H; inversion H; subst; left; reflexivity].
    + split; [intros [] | intros H; inversion H].
  - split; [intros [] | intros H; inversion H].
  - rewrite in_flat_map. rewrite Forall_forall in IH. split.
    + intros (a & Ha & Hn). apply (IH a Ha) in Hn.
      econstructor; [exact Ha|].
      destruct b; simpl in *; [rewrite orb_true_r; exact Hn | rewrite orb_false_r; exact Hn].
    + intros H. inversion H as [|d b' args' a Ha Hn]; subst.
      exists a; split; [exact Ha|]. apply (IH a Ha).
      destruct b; simpl; [rewrite orb_true_r in Hn; exact Hn | rewrite orb_false_r in Hn; exact Hn].
Qed.

Lemma all_der_refs_under fc n :
  In n (all_der_refs fc) <-> exists e, In e (f_exprs fc) /\ under n false e.
Proof.
  unfold all_der_refs. rewrite in_flat_map.
  split; intros (e & He & H); exists e; (split; [exact He|]); apply (der_refs_under n e 0); exact H.
Qed.

(* ---------- category lists ---------------------------------------------------------- *)
Definition vars (fc : flat) : list sym := to_vars (sorted_syms fc).

Lemma sel_filter c fc : sel c fc = filter (fun s => cat_eqb (scat s) c) (vars fc).
Proof. unfold sel, vars, to_vars. apply filter_comm. Qed.

Lemma sel_In c fc s : In s (sel c fc) <-> In s (vars fc) /\ scat s = c.
Proof. rewrite sel_filter, filter_In, cat_eqb_eq. reflexivity. Qed.

Lemma vars_In fc s : In s (vars fc) <-> In s (annotate fc) /\ s_empty s = false.
Proof.
  unfold vars, to_vars, sorted_syms. rewrite filter_In. unfold nonempty.
  rewrite negb_true_iff. split; intros [H E]; (split; [|exact E]).
  - eapply Permutation_in; [apply sort_perm | exact H].
  - eapply Permutation_in; [apply Permutation_sym, sort_perm | exact H].
Qed.

Lemma partition_vars fc :
  Permutation (flat_map (fun c => sel c fc) all_cats) (vars fc).
Proof.
  erewrite flat_map_ext; [|intros c; apply sel_filter].
  eapply Permutation_trans; [apply (partition_perm scat), all_cats_NoDup|].
  erewrite filter_ext; [rewrite filter_true; apply Permutation_refl|].
  intros s; apply all_cats_complete.
Qed.

Lemma vars_perm fc : Permutation (vars fc) (filter nonempty (annotate fc)).
Proof.
  unfold vars, to_vars, sorted_syms.
  (* filter respects Permutation *)
  assert (P : forall (l1 l2 : list sym), Permutation l1 l2 ->
              Permutation (filter nonempty l1) (filter nonempty l2)).
  { induction 1; simpl.
    - constructor.
    - destruct (nonempty x); [constructor|]; assumption.
    - destruct (nonempty x), (nonempty y); try (constructor; apply Permutation_refl);
      apply Permutation_refl.
    - eapply Permutation_trans; eassumption. }
  apply P, sort_perm.
Qed.

Lemma vars_names_NoDup fc :
  NoDup (map s_name (f_syms fc)) -> NoDup (map s_name (vars fc)).
Proof.
  intros ND. rewrite <- annotate_names in ND.
  eapply Permutation_NoDup; [apply Permutation_sym, Permutation_map, vars_perm|].
  (* names of a filtered list are a NoDup sublist *)
  revert ND. generalize (annotate fc). induction l as [|a l IH]; simpl; intros ND; [constructor|].
  inversion ND as [|? ? Hn ND']; subst.
  destruct (nonempty a); [|apply IH, ND'].
  simpl. constructor; [|apply IH, ND'].
  intros Hin. apply Hn. apply in_map_iff in Hin. destruct Hin as (x & E & Hx).
  apply filter_In in Hx. apply in_map_iff. exists x; split; [exact E | apply Hx].
Qed.

Lemma sel_sorted c fc : StronglySorted ord_le (sel c fc).
Proof.
  unfold sel, to_vars. apply filter_sorted, filter_sorted. apply sort_sorted.
Qed.

(* ---------- property-level lemmas --------------------------------------------------- *)
(* every non-empty flat variable is in exactly one list, the one given by the chain *)
Lemma partition_main fc :
  Permutation (flat_map (fun c => sel c fc) all_cats) (filter nonempty (annotate fc)) /\
  (forall s c, In s (sel c fc) <-> In s (annotate fc) /\ s_empty s = false /\ scat s = c) /\
  (NoDup (map s_name (f_syms fc)) ->
   NoDup (map s_name (flat_map (fun c => sel c fc) all_cats))).
Proof.
  split; [|split].
  - eapply Permutation_trans; [apply partition_vars | apply vars_perm].
  - intros s c. rewrite sel_In, vars_In. tauto.
  - intros ND. eapply Permutation_NoDup;
      [apply Permutation_sym, Permutation_map, partition_vars | apply vars_names_NoDup, ND].
Qed.

(* order: each list is the sorted symbol list with some elements removed; the sorted list is a
   permutation of the symbol table, ascending in `order`, ties in dict order *)
Lemma order_main fc :
  (forall c, sel c fc = filter (fun s => cat_eqb (scat s) c && nonempty s) (sorted_syms fc)) /\
  (forall c, StronglySorted ord_le (sel c fc)) /\
  Permutation (sorted_syms fc) (annotate fc) /\
  StronglySorted ord_le (sorted_syms fc) /\
  (forall k, filter (at_order k) (sorted_syms fc) = filter (at_order k) (annotate fc)).
Proof.
  repeat split.
  - intros c. unfold sel, to_vars.
    generalize (sorted_syms fc). induction l as [|a l IH]; simpl; [reflexivity|].
    destruct (cat_eqb (scat a) c); simpl; [destruct (nonempty a)|]; rewrite IH; reflexivity.
  - intros c; apply sel_sorted.
  - apply sort_perm.
  - apply sort_sorted.
  - intros k; apply sort_stable.
Qed.

(* states: which symbols are states, and the derivative list *)
Lemma states_main fc :
  (forall s0, In s0 (f_syms fc) ->
     let s := annotate1 (all_der_refs fc) s0 in
     In s (m_states fc) <->
       s_empty s0 = false /\ ~ In Kconstant (s_pref s0) /\ ~ In Kparameter (s_pref s0) /\
       ~ In Kinput (s_pref s0) /\
       (In Kstate (s_pref s0) \/ exists e, In e (f_exprs fc) /\ under (s_name s0) false e)) /\
  m_der_states fc = map (fun s => Der (s_name s)) (m_states fc) /\
  length (m_der_states fc) = length (m_states fc) /\
  (forall i s, nth_error (m_states fc) i = Some s ->
               nth_error (m_der_states fc) i = Some (Der (s_name s))).
Proof.
  split; [|split; [reflexivity | split]].
  - intros s0 Hin s. unfold m_states. rewrite sel_In, vars_In.
    assert (Hann : In s (annotate fc)) by (unfold annotate; apply in_map; exact Hin).
    unfold s at 2. rewrite annotate1_empty.
    pose proof (cat_of_inv (s_pref s) (s_ty s)) as Inv. fold (scat s) in Inv.
    assert (P : forall k, k <> Kstate -> (In k (s_pref s) <-> In k (s_pref s0))).
    { intros k Hk. unfold s. rewrite annotate1_pref. split; [intros [H|[E _]]; [exact H | contradiction] | tauto]. }
    assert (PS : In Kstate (s_pref s) <->
                 In Kstate (s_pref s0) \/ exists e, In e (f_exprs fc) /\ under (s_name s0) false e).
    { unfold s. rewrite annotate1_pref, all_der_refs_under. tauto. }
    rewrite <- PS, <- (P Kconstant), <- (P Kparameter), <- (P Kinput) by discriminate.
    split.
    + intros [[_ E] C]. rewrite C in Inv. tauto.
    + intros (E & Hc & Hp & Hi & Hs). split; [split; assumption|].
      destruct (cat_of_precedence (s_pref s) (s_ty s)) as (_ & _ & _ & H4 & _).
      apply H4; assumption.
  - unfold m_der_states. apply map_length.
  - intros i s H. unfold m_der_states. rewrite nth_error_map, H. reflexivity.
Qed.

(* outputs *)
Lemma outputs_main fc :
  m_outputs fc = map s_name (filter (fun s => has Koutput (s_pref s)) (m_states fc)) ++
                 map s_name (filter (fun s => has Koutput (s_pref s)) (m_alg fc)) /\
  (forall n, In n (m_outputs fc) <->
     exists s, (In s (m_states fc) \/ In s (m_alg fc)) /\ In Koutput (s_pref s) /\ s_name s = n).
Proof.
  split.
  - unfold m_outputs. rewrite filter_app, map_app. reflexivity.
  - intros n. unfold m_outputs. rewrite in_map_iff. split.
    + intros (s & E & H). apply filter_In in H. destruct H as [H O].
      exists s. rewrite in_app_iff in H. apply has_In in O. tauto.
    + intros (s & H & O & E). exists s. split; [exact E|].
      apply filter_In. rewrite in_app_iff. apply has_In in O. tauto.
Qed.

(* ---------- the error outcome (known finding output-string-variable) ---------------- *)
(* the recorded input class: a non-empty String variable with the output prefix that is not a
   constant, parameter or input *)
Definition bad_sym (s : sym) : Prop :=
  In Koutput (s_pref s) /\ s_ty s = TString /\ s_empty s = false /\
  ~ In Kconstant (s_pref s) /\ ~ In Kparameter (s_pref s) /\ ~ In Kinput (s_pref s).

Lemma scat_state_or_alg s :
  scat s = CState \/ scat s = CAlg <->
  ~ In Kconstant (s_pref s) /\ ~ In Kparameter (s_pref s) /\ ~ In Kinput (s_pref s).
Proof.
  unfold scat. pose proof (cat_of_inv (s_pref s) (s_ty s)) as Inv.
  pose proof (cat_of_precedence (s_pref s) (s_ty s)) as (_ & _ & _ & P4 & P5).
  split.
  - intros [E|E]; rewrite E in Inv; tauto.
  - intros (Hc & Hp & Hi).
    destruct (has Kstate (s_pref s)) eqn:Hs; [apply has_In in Hs | apply has_false in Hs].
    + left. apply P4; assumption.
    + right. apply P5; assumption.
Qed.

Lemma is_str_eq t : is_str t = true <-> t = TString.
Proof. destruct t; simpl; split; intro H; try reflexivity; discriminate H. Qed.

Lemma gen_error_iff fc :
  gen_error fc = true <-> exists s0, In s0 (f_syms fc) /\ bad_sym s0.
Proof.
  unfold gen_error. rewrite existsb_exists. split.
  - intros (s & Hin & Ho).
    assert (Hs : In s (vars fc) /\ (scat s = CState \/ scat s = CAlg)).
    { rewrite in_app_iff in Hin. unfold m_states, m_alg in Hin. rewrite !sel_In in Hin. tauto. }
    destruct Hs as [Hv Hc]. apply vars_In in Hv. destruct Hv as [Ha He].
    unfold annotate in Ha. apply in_map_iff in Ha. destruct Ha as (s0 & E & H0).
    exists s0. split; [exact H0|].
    unfold out_str in Ho. apply andb_true_iff in Ho. destruct Ho as [O S].
    apply has_In in O. apply is_str_eq in S. apply scat_state_or_alg in Hc.
    subst s. rewrite annotate1_ty in S. rewrite annotate1_empty in He.
    assert (P : forall k, k <> Kstate ->
                (In k (s_pref (annotate1 (all_der_refs fc) s0)) <-> In k (s_pref s0))).
    { intros k Hk. rewrite annotate1_pref. split; [intros [H|[E _]]; [exact H | contradiction] | tauto]. }
    rewrite (P Kconstant), (P Kparameter), (P Kinput) in Hc by discriminate.
    rewrite (P Koutput) in O by discriminate.
    unfold bad_sym. tauto.
  - intros (s0 & H0 & (O & S & He & Hc & Hp & Hi)).
    set (s := annotate1 (all_der_refs fc) s0).
    assert (P : forall k, k <> Kstate -> (In k (s_pref s) <-> In k (s_pref s0))).
    { intros k Hk. unfold s. rewrite annotate1_pref. split; [intros [H|[E _]]; [exact H | contradiction] | tauto]. }
    exists s. split.
    + assert (Hv : In s (vars fc)).
      { apply vars_In. split; [unfold annotate; apply in_map; exact H0|].
        unfold s. rewrite annotate1_empty. exact He. }
      assert (Hcat : scat s = CState \/ scat s = CAlg).
      { apply scat_state_or_alg. rewrite (P Kconstant), (P Kparameter), (P Kinput) by discriminate. tauto. }
      rewrite in_app_iff. unfold m_states, m_alg. rewrite !sel_In. tauto.
    + unfold out_str. apply andb_true_iff. split.
      * apply has_In. apply (P Koutput); [discriminate | exact O].
      * apply is_str_eq. unfold s. rewrite annotate1_ty. exact S.
Qed.

Lemma generate_some fc :
  (forall s, In s (f_syms fc) -> ~ bad_sym s) -> generate fc = Some (lists fc).
Proof.
  intros H. unfold generate. destruct (gen_error fc) eqn:E; [|reflexivity].
  apply gen_error_iff in E. destruct E as (s & Hin & Hb). exfalso. exact (H s Hin Hb).
Qed.

Lemma generate_none fc :
  (exists s, In s (f_syms fc) /\ bad_sym s) -> generate fc = None.
Proof.
  intros H. apply gen_error_iff in H. unfold generate. rewrite H. reflexivity.
Qed.

Lemma generate_none_iff fc :
  generate fc = None <-> exists s, In s (f_syms fc) /\ bad_sym s.
Proof.
  rewrite <- gen_error_iff. unfold generate. destruct (gen_error fc); split; intro H;
    try reflexivity; discriminate H.
Qed.
