(* C21 — codegen mode: the cache file only names four shared libraries that save_model overwrites in
   place.  With the step order since ee3ded2 (remove the cache file first) a complete cache file always
   sits next to the four libraries it was written with; with the old order it does not. *)
From Coq Require Import List Arith Bool Lia.
From PV Require Import Lib.Prefix Model.C21_crash Proofs.C21_crash.
Import ListNotations.

Definition all4 (m : modelid) : list (option modelid) := [Some m; Some m; Some m; Some m].

(* a complete dump that is a prefix of another dump is that dump *)
Lemma complete_prefix_eq vr o s vr' o' s' n :
  firstn n (dump (db_of vr o s)) = dump (db_of vr' o' s') -> vr' = vr /\ o' = o /\ s' = s.
Proof.
  intros E. set (D := dump (db_of vr o s)) in *.
  assert (Hd : decode (firstn n D) = Value (db_of vr' o' s') []) by (rewrite E; apply dump_accepted).
  destruct (skipn n D) as [|b suf] eqn:Es.
  - assert (firstn n D = D) by (rewrite <- (firstn_skipn n D) at 2; rewrite Es, app_nil_r; reflexivity).
    rewrite H in Hd. unfold D, decode in Hd. rewrite (dump_accepted (db_of vr o s)) in Hd.
    injection Hd as Hv. unfold db_of in Hv. inversion Hv. auto.
  - rewrite (dump_prefix_eof (db_of vr o s) (firstn n D) (b :: suf)) in Hd; [discriminate| |discriminate].
    rewrite <- Es. symmetry. apply firstn_skipn.
Qed.

(* load_model only returns a model from a complete, current cache file *)
Lemma load_inr t w o e m : Inv w -> load_model t w o e = inr m ->
  exists bs mt vr, cfile w = Some (bs, mt) /\ bs = dump (db_of vr o (src w)) /\ m = (src w, o).
Proof.
  intros [Hc Hf]. unfold load_model, load_gen. destruct (cfile w) as [[bs mt]|]; [|discriminate].
  destruct Hf as (Hmt & vr & o' & s & suf & Hd & Hs).
  destruct (mt <? smt w) eqn:Elt; [discriminate|]. apply Nat.ltb_ge in Elt.
  destruct suf as [|b suf].
  - rewrite app_nil_r in Hd. subst bs. unfold decode. rewrite (dump_accepted (db_of vr o' s)), decode_db_of.
    destruct (vr =? ver w); cbn [negb]; [|discriminate].
    destruct (o' =? o) eqn:Eo; cbn [negb]; [|discriminate]. apply Nat.eqb_eq in Eo. subst o'.
    intros E. injection E as <-. rewrite (Hs eq_refl Elt). exists (dump (db_of vr o (src w))), mt, vr.
    rewrite <- (Hs eq_refl Elt). auto.
  - rewrite (dump_prefix_eof (db_of vr o' s) bs (b :: suf) Hd); [|discriminate].
    destruct (load_route t (eof_exc e)); discriminate.
Qed.

Definition CInv (c : cworld) : Prop :=
  Inv (base c) /\ length (libs c) = 4 /\
  forall bs mt vr o s, cfile (base c) = Some (bs, mt) -> bs = dump (db_of vr o s) -> libs c = all4 (s, o).

Definition cgood (c : cworld) (o : nat) (r : coutcome) : Prop :=
  match r with
  | CLoaded ls => ls = all4 (src (base c), o)
  | CRecompiled m => m = (src (base c), o)
  | CRaised _ => False
  | CDied => True
  end.

Lemma set_nth_length {A} (l : list A) i x : length (set_nth l i x) = length l.
Proof. revert i. induction l; intros [|i]; cbn; auto. Qed.

Lemma fold_set_length (m : modelid) ns : forall l : list (option modelid),
  length (fold_left (fun l i => set_nth l i (Some m)) ns l) = length l.
Proof. induction ns as [|n ns IH]; intros l; cbn; [reflexivity|]. rewrite IH. apply set_nth_length. Qed.

Lemma set_cfile_none_Inv w : Inv w -> Inv (set_cfile w None).
Proof. intros [Hc _]. split; [exact Hc|exact I]. Qed.

(* every prefix of the NEW step order keeps the invariant *)
Lemma CInv_partial c o j : CInv c -> CInv (cg_partial true c o j).
Proof.
  intros (Hi & Hl & Hc). unfold cg_partial. destruct j as [|k]; [exact (conj Hi (conj Hl Hc))|].
  cbv zeta iota. destruct (k <=? 4) eqn:Ek.
  - split; [apply set_cfile_none_Inv, Hi|]. split; [cbn [libs]; rewrite fold_set_length; exact Hl|].
    cbn. intros; discriminate.
  - apply Nat.leb_gt in Ek. split; [cbn [base]; apply Inv_partial, set_cfile_none_Inv, Hi|].
    split; [cbn [libs]; rewrite fold_set_length; exact Hl|].
    cbn [base libs]. intros bs mt vr o' s Hf Hb.
    replace (Nat.min k 4) with 4 by lia.
    destruct (libs c) as [|l0 [|l1 [|l2 [|l3 [|? ?]]]]]; try discriminate. cbn [seq fold_left set_nth].
    destruct (k - 4) as [|q] eqn:Eq; [lia|]. cbn [partial_write set_cfile cfile src ver clock smt] in Hf.
    injection Hf as Hbs _. subst bs.
    destruct (complete_prefix_eq _ _ _ _ _ _ _ Hb) as (_ & -> & ->). reflexivity.
Qed.

Lemma src_cg_partial rf c o j : src (base (cg_partial rf c o j)) = src (base c).
Proof.
  unfold cg_partial. destruct (if rf then j else S j) as [|k]; [reflexivity|].
  destruct (k <=? 4); cbn [base]; [destruct rf; reflexivity|]. rewrite src_partial. destruct rf; reflexivity.
Qed.

Lemma cg_transfer_good t c o e j : routes_ok t = true -> CInv c ->
  cgood c o (snd (cg_transfer_cut true t c o e j)) /\ CInv (fst (cg_transfer_cut true t c o e j)).
Proof.
  intros Hr (Hi & Hl & Hc). unfold cg_transfer_cut.
  pose proof (load_ok t (base c) o e Hr Hi) as H.
  destruct (load_model t (base c) o e) as [x|m] eqn:El.
  - rewrite H. destruct (j <? cg_nsteps true (base c) o); cbn [fst snd cgood];
      (split; [auto|apply CInv_partial; exact (conj Hi (conj Hl Hc))]).
  - destruct (load_inr t (base c) o e m Hi El) as (bs & mt & vr & Hf & Hb & _).
    cbn [fst snd cgood]. split; [exact (Hc bs mt vr o (src (base c)) Hf Hb)|exact (conj Hi (conj Hl Hc))].
Qed.

Lemma cg_step_good t c p : routes_ok t = true -> CInv c ->
  Forall (cgood c (match p with CTransfer o _ | CCrashT o _ _ => o | _ => 0 end)) (snd (cg_step true t c p)) /\
  CInv (fst (cg_step true t c p)).
Proof.
  intros Hr Hc. destruct p as [| |o e|o e j]; cbn [cg_step].
  - split; [constructor|]. destruct Hc as (Hi & Hl & Hf).
    split; [exact (proj2 (step_op_good t (base c) Edit Hr Hi))|]. split; [exact Hl|exact Hf].
  - split; [constructor|]. destruct Hc as (Hi & Hl & Hf).
    split; [exact (proj2 (step_op_good t (base c) Bump Hr Hi))|]. split; [exact Hl|exact Hf].
  - destruct (cg_transfer_good t c o e (cg_nsteps true (base c) o) Hr Hc) as [G I'].
    destruct (cg_transfer_cut true t c o e (cg_nsteps true (base c) o)) as [c' r]. cbn [fst snd] in *.
    split; [repeat constructor; exact G|exact I'].
  - destruct (cg_transfer_good t c o e j Hr Hc) as [G I'].
    destruct (cg_transfer_cut true t c o e j) as [c' r]. cbn [fst snd] in *.
    split; [repeat constructor; exact G|exact I'].
Qed.

Fixpoint cg_all_good (t : tables) (c : cworld) (h : list cop) : Prop :=
  match h with
  | [] => True
  | p :: h' =>
      Forall (cgood c (match p with CTransfer o _ | CCrashT o _ _ => o | _ => 0 end)) (snd (cg_step true t c p)) /\
      cg_all_good t (fst (cg_step true t c p)) h'
  end.

Lemma CInv_cw0 : CInv cw0.
Proof. split; [exact Inv_w0|]. split; [reflexivity|]. cbn. intros; discriminate. Qed.

Lemma cg_all_good_from t h : routes_ok t = true -> forall c, CInv c -> cg_all_good t c h.
Proof.
  intros Hr. induction h as [|p h IH]; intros c Hc; [exact I|].
  destruct (cg_step_good t c p Hr Hc) as [G I']. split; [exact G|apply IH, I'].
Qed.
