(* Proofs/C07_late.v — in a top-level library pymoca's definition-order rule cannot fire: the model with
   the rule (late = true, the real code) and without it compute the same flat class. *)
From Coq Require Import List ZArith Bool PArith Lia.
From PV Require Import Lib.ClassTree Lib.Inst Model.C07_flatten Proofs.C07_flatten Proofs.C07_refine Proofs.C07_refine_ext.
Import ListNotations.

Lemma od_index_some n : forall es k e, od_get e_key Pos.eqb n es = Some e -> exists j, od_index n es k = Some j.
Proof.
  induction es as [|x es IH]; intros k e H; [discriminate H|]. cbn [od_get od_index] in *.
  destruct (Pos.eqb (e_key x) n); [eexists; reflexivity | eapply IH; exact H].
Qed.

Lemma ilookup_rsc root ref : ilookup root (rsc root) ref = lookup (rsc root) ref.
Proof.
  unfold rsc, lex_scope. cbn [lex_frames_from]. destruct ref as [|n rest]; [reflexivity|].
  cbn [ilookup lookup f_entries f_inst f_limit andb].
  destruct (od_get e_key Pos.eqb n (entries_of [] root)) as [e|] eqn:E; [|reflexivity].
  destruct (od_index_some n _ 0 e E) as [j ->].
  destruct (descend (e_def e) (e_lex e) rest) as [[c lex]|]; reflexivity.
Qed.

Lemma ilookup_empty root fr S ref : f_entries fr = [] -> ilookup root (fr :: S) ref = ilookup root S ref.
Proof.
  intros E. destruct ref as [|n rest]; [destruct S; reflexivity|]. cbn [ilookup]. rewrite E. reflexivity.
Qed.

Lemma mlookup_empty root late fr t :
  f_entries fr = [] -> mlookup root late (fr :: rsc root) t = lookup (fr :: rsc root) t.
Proof.
  intros E. destruct late; [|reflexivity]. unfold mlookup.
  rewrite (ilookup_empty root fr _ t E), (lookup_empty fr _ t E). apply ilookup_rsc.
Qed.

(* build_syms does not depend on the rule when the lookups through `me` do not and the recursive calls agree *)
Lemma build_syms_late root recT recF ebi me myref :
  (forall t, mlookup root true me t = lookup me t) ->
  (forall t tc tlex tparent b, lookup me t = Some (tc, tlex, tparent, b) ->
     forall m0 m1, recT tc tlex tparent m0 m1 = recF tc tlex tparent m0 m1) ->
  forall ss menv extra acc,
    build_syms root true recT ebi me myref ss menv extra acc =
    build_syms root false recF ebi me myref ss menv extra acc.
Proof.
  intros HL HR. induction ss as [|s ss IH]; intros menv extra acc; [reflexivity|].
  cbn [build_syms]. destruct (mem_id (head_id (s_type s)) BUILTIN); [apply IH|].
  rewrite HL. cbn [mlookup].
  destruct (lookup me (s_type s)) as [[[[tc tlex] tparent] b]|] eqn:L; [|reflexivity].
  destruct (if b then Ok false else ebi tc tlex) as [ib|err]; cbn [bind]; [|reflexivity].
  destruct (if ib then Ok (flat_map to_symbol_mods (filter (targets (s_name s)) menv))
            else shift_args (filter (targets (s_name s)) menv)) as [sm0|err]; cbn [bind]; [|reflexivity].
  destruct (shift_args (filter (targets (s_name s)) extra)) as [sm1|err]; cbn [bind]; [|reflexivity].
  destruct b; rewrite (HR _ _ _ _ _ L);
    match goal with |- context [recF ?a ?b ?c ?d ?e] => destruct (recF a b c d e) as [i|err] end;
    cbn [bind]; try reflexivity; apply IH.
Qed.

Section Late.
  Variable root : list cdef.
  Hypothesis Hroot : Forall eclass root.

  Definition good (c : cdef) : Prop := (In c root /\ eclass c) \/ exists t, c = builtin_class t.

  Lemma good_no_classes c : good c -> c_classes c = [].
  Proof. intros [[_ H]|[t ->]]; [apply eclass_no_classes; exact H | reflexivity]. Qed.

  Lemma find_base_good c (e : path * list marg) bc blex :
    good c -> find_base root c [] (fst e) = Ok (bc, blex) -> good bc /\ blex = [].
  Proof.
    intros Hc H. unfold find_base in H.
    destruct (mem_id (head_id (fst e)) BUILTIN).
    - inversion H; subst. split; [right; eexists; reflexivity | reflexivity].
    - change (lex_scope root []) with (rsc root) in H.
      rewrite lookup_empty in H by (unfold own_frame; cbn [f_entries]; rewrite (good_no_classes c Hc); reflexivity).
      destruct (lookup (rsc root) (fst e)) as [[[[c' lex'] S'] b]|] eqn:L; [|discriminate H].
      inversion H; subst. destruct (lookup_rsc root _ _ _ _ _ Hroot L) as [H1 [H2 [_ H4]]].
      split; [left; split; assumption | assumption].
  Qed.

  Lemma fe_classes : forall n c menv x,
    good c -> flatten_extends root n c [] menv = Ok x -> x_classes x = [].
  Proof.
    induction n as [|f IH]; intros c menv x Hc H; [discriminate H|].
    cbn [flatten_extends] in H.
    match type of H with (x0 <- fold_left ?fM _ _ ;; _) = _ => set (FM := fM) in H end.
    destruct (fold_left FM (c_exts c) (Ok (mkExt (c_kind c) [] [] [] []))) as [x0|err] eqn:EF;
      cbn [bind] in H; [|discriminate H].
    assert (x_classes x0 = []) as K0.
    { destruct (fold_sim (fun a (_ : unit) => x_classes a = []) FM (fun acc _ => acc)
                  (fun e err => eq_refl) (c_exts c)) with (a := mkExt (c_kind c) [] [] [] []) (b := tt) (a' := x0)
        as [_ [_ K]]; [|reflexivity|exact EF|exact K].
      intros e a [] a' _ Ka HM. exists tt. split; [reflexivity|].
      unfold FM in HM. cbn [bind] in HM.
      destruct (find_base root c [] (fst e)) as [[bc blex]|err] eqn:FB; cbn [bind] in HM; [|discriminate HM].
      destruct (find_base_good c e bc blex Hc FB) as [Hb ->].
      destruct (path_eqb ([] ++ [c_name bc]) ([] ++ [c_name c])); [discriminate HM|].
      destruct (Pos.eqb (c_kind bc) kBuiltin && (1 <? length (c_exts c))%nat); [discriminate HM|].
      destruct (flatten_extends root f bc [] (snd e)) as [rb|err] eqn:EB; cbn [bind] in HM; [|discriminate HM].
      inversion HM; subst a'. cbn [x_classes]. rewrite Ka, (IH bc (snd e) rb Hb EB). reflexivity. }
    rewrite (good_no_classes c Hc) in H. cbn [entries_of map x_kind x_classes x_syms x_eqs x_menv] in H.
    rewrite K0 in H.
    destruct (Pos.eqb (x_kind x0) kBuiltin); inversion H; reflexivity.
  Qed.

  Lemma build_late : forall n c m0 m1,
    In c root -> eclass c ->
    build root true n c [] (rsc root) m0 m1 = build root false n c [] (rsc root) m0 m1.
  Proof.
    induction n as [|f IH]; intros c m0 m1 Hin Hc; [reflexivity|].
    cbn [build].
    destruct (flatten_extends root f c [] m0) as [x0|err] eqn:EF; cbn [bind]; [|reflexivity].
    pose proof (fe_classes f c m0 x0 (or_introl (conj Hin Hc)) EF) as K0.
    match goal with |- (if ?g then _ else _) = _ => destruct g; [reflexivity|] end.
    assert (x_classes (if Pos.eqb (x_kind x0) kBuiltin
                       then mkExt (x_kind x0) (x_classes x0) (map (add_value_mods m1) (x_syms x0)) (x_eqs x0) (x_menv x0)
                       else x0) = []) as K1 by (destruct (Pos.eqb (x_kind x0) kBuiltin); exact K0).
    rewrite K1.
    rewrite (build_syms_late root (build root true f) (build root false f) (extends_builtin root f)); [reflexivity| |].
    - intros t. apply mlookup_empty. reflexivity.
    - intros t tc tlex tparent b L m0' m1'.
      rewrite lookup_empty in L by reflexivity.
      destruct (lookup_rsc root _ _ _ _ _ Hroot L) as [H1 [-> [-> H4]]]. apply IH; assumption.
  Qed.

  Theorem flatten_late top : flatten root true top = flatten root false top.
  Proof.
    unfold flatten. destruct (lookup (lex_scope root []) top) as [[[[c lex] parent] b]|] eqn:L; [|reflexivity].
    destruct (lookup_rsc root _ _ _ _ _ Hroot L) as [H1 [-> [-> H4]]].
    rewrite (build_late FUEL c [] [] H4 H1). reflexivity.
  Qed.
End Late.
