(* C21 — proofs over Model/C21_crash.v.
   A. the encoder's output is accepted by the online decoder with nothing left over (any value);
   B. state-machine invariant of the world and the output lemma; the property by induction over
      arbitrary histories of Edit / Bump / Transfer / crashed transfer / Cut / Reader. *)
From Coq Require Import List Arith Bool Lia.
From PV Require Import Lib.Prefix Model.C21_crash.
Import ListNotations.

(* ------------------------------------------------------------------ *)
(* A. format                                                           *)
(* ------------------------------------------------------------------ *)
Notation R := (run step).

Lemma run_cons s b r :
  R s (b :: r) = match step s b with Done v => Value v r | More s' => R s' r | Fail => Bad end.
Proof. reflexivity. Qed.

(* nested induction principle for pv *)
Fixpoint pv_ind' (P : pv -> Prop)
  (hN : P PNone) (hI : forall n, P (PInt n)) (hB : forall l, P (PBytes l))
  (hL : forall l, Forall P l -> P (PList l)) (hT : forall a b, P a -> P b -> P (PTuple2 a b))
  (v : pv) : P v :=
  match v with
  | PNone => hN
  | PInt n => hI n
  | PBytes l => hB l
  | PList l => hL l ((fix go (l : list pv) : Forall P l :=
                        match l with
                        | [] => Forall_nil P
                        | x :: r => Forall_cons x (pv_ind' P hN hI hB hL hT x) (go r)
                        end) l)
  | PTuple2 a b => hT a b (pv_ind' P hN hI hB hL hT a) (pv_ind' P hN hI hB hL hT b)
  end.

Definition encs (l : list pv) : list byte :=
  (fix encs (l : list pv) : list byte := match l with [] => [] | x :: r => enc x ++ encs r end) l.
Lemma enc_list l : enc (PList l) = 93 :: 148 :: 40 :: encs l ++ [101].
Proof. reflexivity. Qed.
Lemma encs_cons x r : encs (x :: r) = enc x ++ encs r.
Proof. reflexivity. Qed.

(* one-opcode facts, all by computation *)
Lemma st_none k m : step (St MOp k m) 78 = More (St MOp (IV PNone :: k) m). Proof. reflexivity. Qed.
Lemma st_int k m : step (St MOp k m) 75 = More (St MInt k m). Proof. reflexivity. Qed.
Lemma st_intarg k m n : step (St MInt k m) n = More (St MOp (IV (PInt n) :: k) m). Proof. reflexivity. Qed.
Lemma st_bytes k m : step (St MOp k m) 67 = More (St MBytesLen k m). Proof. reflexivity. Qed.
Lemma st_memo k m v : step (St MOp (IV v :: k) m) 148 = More (St MOp (IV v :: k) (m ++ [v])). Proof. reflexivity. Qed.
Lemma st_elist k m : step (St MOp k m) 93 = More (St MOp (IV (PList []) :: k) m). Proof. reflexivity. Qed.
Lemma st_mark k m : step (St MOp k m) 40 = More (St MOp (IMark :: k) m). Proof. reflexivity. Qed.
Lemma st_tuple2 k m x y : step (St MOp (IV y :: IV x :: k) m) 134 = More (St MOp (IV (PTuple2 x y) :: k) m).
Proof. reflexivity. Qed.
Lemma st_appends k m :
  step (St MOp k m) 101 = match pop_mark k [] with
                          | Some (vs, IV (PList l) :: r) => More (St MOp (IV (PList (l ++ vs)) :: r) m)
                          | _ => Fail end.
Proof. reflexivity. Qed.
Lemma st_stop m v : step (St MOp [IV v] m) 46 = Done v. Proof. reflexivity. Qed.
Lemma st_proto k m : step (St MOp k m) 128 = More (St MProto k m). Proof. reflexivity. Qed.
Lemma st_protoarg k m b : step (St MProto k m) b = More (St MOp k m). Proof. reflexivity. Qed.
Lemma st_frame k m : step (St MOp k m) 149 = More (St (MFrame 7) k m). Proof. reflexivity. Qed.

Lemma skip_frame rest : forall l n k m, length l = S n ->
  R (St (MFrame n) k m) (l ++ rest) = R (St MOp k m) rest.
Proof.
  induction l as [|b l IH]; intros n k m H; [discriminate|].
  cbn [app]. rewrite run_cons. destruct n as [|n].
  - destruct l; [|discriminate]. reflexivity.
  - change (step (St (MFrame (S n)) k m) b) with (More (st:=st) (val:=pv) (St (MFrame n) k m)).
    apply IH. cbn in H. lia.
Qed.

Lemma read_bytes rest k m : forall l x acc,
  R (St (MBytes (length l) acc) k m) (x :: l ++ rest) = R (St MOp (IV (PBytes (acc ++ x :: l)) :: k) m) rest.
Proof.
  induction l as [|y l IH]; intros x acc.
  - reflexivity.
  - cbn [app length]. rewrite run_cons.
    change (step (St (MBytes (S (length l)) acc) k m) x)
      with (More (st:=st) (val:=pv) (St (MBytes (length l) (acc ++ [x])) k m)).
    cbv iota. rewrite (IH y (acc ++ [x])). rewrite <- app_assoc. reflexivity.
Qed.

Lemma pop_mark_rev l : forall tail acc,
  pop_mark (rev (map IV l) ++ tail) acc = pop_mark tail (l ++ acc).
Proof.
  induction l as [|x l IH]; intros tail acc; [reflexivity|].
  cbn [map rev]. rewrite <- app_assoc. rewrite IH. reflexivity.
Qed.

Definition enc_okP (v : pv) : Prop := forall k m rest,
  exists m', R (St MOp k m) (enc v ++ rest) = R (St MOp (IV v :: k) m') rest.

Lemma encs_ok l : Forall enc_okP l -> forall k m rest,
  exists m', R (St MOp k m) (encs l ++ rest) = R (St MOp (rev (map IV l) ++ k) m') rest.
Proof.
  induction 1 as [|x l Hx _ IH]; intros k m rest.
  - exists m. reflexivity.
  - rewrite encs_cons, <- app_assoc.
    destruct (Hx k m (encs l ++ rest)) as [m1 E1].
    destruct (IH (IV x :: k) m1 rest) as [m2 E2].
    exists m2. etransitivity; [exact E1|]. etransitivity; [exact E2|].
    cbn [map rev]. rewrite <- app_assoc. reflexivity.
Qed.

Lemma enc_ok : forall v, enc_okP v.
Proof.
  induction v using pv_ind'; intros k m rest.
  - exists m. reflexivity.
  - exists m. reflexivity.
  - (* PBytes *)
    exists (m ++ [PBytes l]).
    change (enc (PBytes l) ++ rest) with (67 :: length l :: (l ++ [148]) ++ rest).
    rewrite run_cons, st_bytes. rewrite <- app_assoc. destruct l as [|x l].
    + reflexivity.
    + rewrite run_cons.
      change (step (St MBytesLen k m) (length (x :: l)))
        with (More (st:=st) (val:=pv) (St (MBytes (length l) []) k m)).
      cbv iota. cbn [app].
      etransitivity; [exact (read_bytes (148 :: rest) k m l x [])|reflexivity].
  - (* PList *)
    rewrite enc_list.
    change ((93 :: 148 :: 40 :: encs l ++ [101]) ++ rest)
      with (93 :: 148 :: 40 :: (encs l ++ [101]) ++ rest).
    rewrite run_cons, st_elist, run_cons, st_memo, run_cons, st_mark, <- app_assoc.
    destruct (encs_ok l H (IMark :: IV (PList []) :: k) (m ++ [PList []]) ([101] ++ rest)) as [m' E].
    exists m'. etransitivity; [exact E|].
    cbn [app]. rewrite run_cons, st_appends, pop_mark_rev.
    cbn [pop_mark app]. rewrite app_nil_r. reflexivity.
  - (* PTuple2 *)
    change (enc (PTuple2 v1 v2)) with (enc v1 ++ enc v2 ++ [134; 148]).
    rewrite <- !app_assoc.
    destruct (IHv1 k m (enc v2 ++ [134; 148] ++ rest)) as [m1 E1].
    destruct (IHv2 (IV v1 :: k) m1 ([134; 148] ++ rest)) as [m2 E2].
    exists (m2 ++ [PTuple2 v1 v2]).
    etransitivity; [exact E1|]. etransitivity; [exact E2|]. reflexivity.
Qed.

Lemma length_le_bytes k : forall n, length (le_bytes k n) = k.
Proof. induction k; intros n; cbn [le_bytes length]; [reflexivity|]. now rewrite IHk. Qed.

(* the encoder's output is accepted: the whole value comes back and nothing is left over *)
Theorem dump_accepted v : accepted step init (dump v) v.
Proof.
  unfold accepted, dump, init.
  rewrite run_cons, st_proto, run_cons, st_protoarg, run_cons, st_frame.
  rewrite (skip_frame _ _ 7 [] [] (length_le_bytes 8 _)).
  destruct (enc_ok v [] [] [46]) as [m' E]. etransitivity; [exact E|].
  rewrite run_cons, st_stop. reflexivity.
Qed.

(* every proper prefix of a written cache file ends the decoder in EOF *)
Corollary dump_prefix_eof v pre suf : dump v = pre ++ suf -> suf <> [] -> decode pre = EOF.
Proof. intros E N. exact (prefix_eof step (dump v) init v pre suf (dump_accepted v) E N). Qed.

(* ------------------------------------------------------------------ *)
(* B. world                                                            *)
(* ------------------------------------------------------------------ *)
Definition Inv (w : world) : Prop :=
  smt w <= clock w /\
  match cfile w with
  | None => True
  | Some (bs, mt) =>
      mt <= clock w /\
      exists vr o s suf, dump (db_of vr o s) = bs ++ suf /\ (suf = [] -> smt w <= mt -> s = src w)
  end.

Definition good (w : world) (o : nat) (r : outcome) : Prop :=
  match r with
  | Loaded m | Recompiled m => m = (src w, o)
  | Raised _ => False
  | Died => True
  end.

Lemma routes_ok_inv t : routes_ok t = true ->
  (forall b, transfer_recompiles t (load_route t (eof_exc b)) = true) /\
  transfer_recompiles t InvalidCacheError = true /\ transfer_recompiles t FileNotFoundError = true.
Proof.
  unfold routes_ok. intros H. apply andb_true_iff in H as [H H4]. apply andb_true_iff in H as [H H3].
  apply andb_true_iff in H as [H1 H2]. repeat split; auto. intros []; assumption.
Qed.

Lemma decode_db_of vr o s : decode_db (db_of vr o s) = Some (vr, o, (s, o)).
Proof. reflexivity. Qed.

(* load_model on a valid world: a correct model, or an exception transfer_model answers by recompiling *)
Lemma load_gen_ok t w o e bx : routes_ok t = true -> Inv w ->
  match load_gen t w o e bx with
  | inr m => m = (src w, o)
  | inl x => transfer_recompiles t x = true
  end.
Proof.
  intros Hr [Hc Hf]. destruct (routes_ok_inv t Hr) as (He & Hi & Hn).
  unfold load_gen. destruct (cfile w) as [[bs mt]|]; [|exact Hn].
  destruct Hf as (Hmt & vr & o' & s & suf & Hd & Hs).
  destruct (mt <? smt w) eqn:Elt; [exact Hi|]. apply Nat.ltb_ge in Elt.
  destruct suf as [|b suf].
  - rewrite app_nil_r in Hd. subst bs. unfold decode. rewrite (dump_accepted (db_of vr o' s)).
    rewrite decode_db_of.
    destruct (vr =? ver w); cbn [negb]; [|exact Hi].
    destruct (o' =? o) eqn:Eo; cbn [negb]; [|exact Hi].
    apply Nat.eqb_eq in Eo. subst o'. rewrite (Hs eq_refl Elt). reflexivity.
  - rewrite (dump_prefix_eof (db_of vr o' s) bs (b :: suf) Hd); [apply He|discriminate].
Qed.

Lemma load_ok t w o e : routes_ok t = true -> Inv w ->
  match load_model t w o e with
  | inr m => m = (src w, o)
  | inl x => transfer_recompiles t x = true
  end.
Proof. exact (load_gen_ok t w o e UnpicklingError). Qed.

Lemma Inv_partial w o j : Inv w -> Inv (partial_write w o j).
Proof.
  intros [Hc Hf]. destruct j as [|k]; [split; assumption|].
  split; [exact Hc|]. cbn. split; [lia|].
  exists (ver w), o, (src w), (skipn k (dump (db_of (ver w) o (src w)))).
  split; [symmetry; apply firstn_skipn|]. intros _ _. reflexivity.
Qed.

Lemma src_partial w o j : src (partial_write w o j) = src w.
Proof. destruct j; reflexivity. Qed.

Lemma transfer_good t w o e : routes_ok t = true -> Inv w ->
  good w o (snd (transfer t w o e)) /\ Inv (fst (transfer t w o e)) /\ src (fst (transfer t w o e)) = src w.
Proof.
  intros Hr Hi. pose proof (load_ok t w o e Hr Hi) as H. unfold transfer.
  destruct (load_model t w o e) as [x|m].
  - rewrite H. unfold full_write. cbn [fst snd good].
    split; [reflexivity|]. split; [apply Inv_partial, Hi|apply src_partial].
  - cbn [fst snd good]. auto.
Qed.

Lemma transfer_cut_good t w o e j : routes_ok t = true -> Inv w ->
  good w o (snd (transfer_cut t w o e j)) /\ Inv (fst (transfer_cut t w o e j)) /\
  src (fst (transfer_cut t w o e j)) = src w.
Proof.
  intros Hr Hi. pose proof (load_ok t w o e Hr Hi) as H. unfold transfer_cut.
  destruct (load_model t w o e) as [x|m].
  - rewrite H. unfold full_write. destruct (j <? nsteps w o); cbn [fst snd good];
      (split; [auto|]); (split; [apply Inv_partial, Hi|apply src_partial]).
  - cbn [fst snd good]. auto.
Qed.

Definition op_opts (p : op) : nat :=
  match p with Transfer o _ | CrashT o _ _ | Reader o _ _ _ | Reader2 o _ _ _ _ | Gap o _ _ _ => o | _ => 0 end.

(* every output of an op is good for the options its caller asked for *)
Definition outs_good (w : world) (p : op) (outs : list outcome) : Prop :=
  match p with
  | Two oa ob _ _ _ => match outs with [ra; rb] => good w oa ra /\ good w ob rb | _ => False end
  | _ => Forall (good w (op_opts p)) outs
  end.

Lemma decide_good t w o e : routes_ok t = true -> Inv w -> good w o (fst (decide t w o e)).
Proof.
  intros Hr Hi. pose proof (load_ok t w o e Hr Hi) as H. unfold decide.
  destruct (load_model t w o e) as [x|m]; [rewrite H|]; cbn [fst good]; auto.
Qed.

Lemma two_good t w oa ob ea eb lb : routes_ok t = true -> Inv w ->
  (exists ra rb, snd (two t w oa ob ea eb lb) = [ra; rb] /\ good w oa ra /\ good w ob rb) /\
  Inv (fst (two t w oa ob ea eb lb)).
Proof.
  intros Hr Hi. pose proof (decide_good t w oa ea Hr Hi) as Ga. pose proof (decide_good t w ob eb Hr Hi) as Gb.
  unfold two. destruct (decide t w oa ea) as [ra wa]. destruct (decide t w ob eb) as [rb wb].
  cbn [fst snd] in *. split; [exists ra, rb; auto|].
  unfold full_write. destruct wa, wb, lb; try apply Inv_partial; exact Hi.
Qed.

Lemma step_op_good t w p : routes_ok t = true -> Inv w ->
  outs_good w p (snd (step_op t w p)) /\ Inv (fst (step_op t w p)).
Proof.
  intros Hr Hi. destruct p as [| |o e|o e j|j|o e e' j|oa ob ea eb lb|o e ea eb j|o e late sf]; cbn [step_op op_opts outs_good].
  - (* Edit *) split; [constructor|]. destruct Hi as [Hc Hf]. split; [cbn; lia|]. cbn.
    destruct (cfile w) as [[bs mt]|]; [|exact I].
    destruct Hf as (Hmt & vr & o & s & suf & Hd & Hs). split; [lia|].
    exists vr, o, s, suf. split; [exact Hd|]. intros _ Hle. lia.
  - (* Bump *) split; [constructor|]. exact Hi.
  - (* Transfer *)
    destruct (transfer_good t w o e Hr Hi) as (G & I' & _).
    destruct (transfer t w o e) as [w' r]. cbn [fst snd] in *. split; [repeat constructor; exact G|exact I'].
  - (* CrashT *)
    destruct (transfer_cut_good t w o e j Hr Hi) as (G & I' & _).
    destruct (transfer_cut t w o e j) as [w' r]. cbn [fst snd] in *. split; [repeat constructor; exact G|exact I'].
  - (* Cut *) split; [constructor|]. cbn [fst].
    destruct (cfile w) as [[bs mt]|] eqn:Ef; [|exact Hi].
    destruct Hi as [Hc Hf]. rewrite Ef in Hf.
    destruct Hf as (Hmt & vr & o & s & suf & Hd & Hs). split; [exact Hc|]. cbn. split; [exact Hmt|].
    exists vr, o, s, (skipn j bs ++ suf). split.
    + rewrite app_assoc, firstn_skipn. exact Hd.
    + intros Hnil Hle. apply app_eq_nil in Hnil as [_ Hsuf]. exact (Hs Hsuf Hle).
  - (* Reader *)
    pose proof (load_ok t w o e Hr Hi) as H. destruct (load_model t w o e) as [x|m].
    + rewrite H.
      destruct (transfer_good t (partial_write w o j) o e' Hr (Inv_partial w o j Hi)) as (G & _ & _).
      unfold good in G. rewrite src_partial in G. fold (good w o) in G.
      destruct (transfer t (partial_write w o j) o e') as [w' r]. cbn [fst snd] in *.
      unfold full_write. split; [|apply Inv_partial, Hi]. constructor; [exact G|]. constructor; [reflexivity|constructor].
    + destruct (transfer_good t w o e' Hr Hi) as (G & I' & _).
      destruct (transfer t w o e') as [w' r]. cbn [fst snd] in *.
      split; [|exact I']. constructor; [exact G|]. constructor; [exact H|constructor].
  - (* Two *)
    destruct (two_good t w oa ob ea eb lb Hr Hi) as ((ra & rb & E & Ga & Gb) & I'). rewrite E. auto.
  - (* Reader2 *)
    pose proof (load_ok t w o e Hr Hi) as H. destruct (load_model t w o e) as [x|m].
    + rewrite H.
      destruct (two_good t (partial_write w o j) o o ea eb true Hr (Inv_partial w o j Hi)) as ((ra & rb & E & Ga & Gb) & _).
      unfold good in Ga, Gb. rewrite src_partial in Ga, Gb. fold (good w o) in Ga, Gb.
      destruct (two t (partial_write w o j) o o ea eb true) as [w' rs]. cbn [fst snd] in *. subst rs.
      unfold full_write. split; [|apply Inv_partial, Hi].
      cbn [app]. repeat constructor; auto.
    + destruct (two_good t w o o ea eb true Hr Hi) as ((ra & rb & E & Ga & Gb) & I').
      destruct (two t w o o ea eb true) as [w' rs]. cbn [fst snd] in *. subst rs.
      split; [|exact I']. cbn [app]. repeat constructor; auto.
  - (* Gap *)
    assert (In0 : Inv (set_cfile w None)) by (destruct Hi as [Hc _]; split; [exact Hc|exact I]).
    unfold gap. destruct late.
    + pose proof (decide_good t w o e Hr Hi) as G. destruct (decide t w o e) as [r wr]. cbn [fst snd] in *.
      split; [repeat constructor; exact G|]. destruct wr, sf; cbn [andb negb]; try exact In0. unfold full_write; apply Inv_partial, Hi.
    + destruct (transfer_good t (set_cfile w None) o e Hr In0) as (G & I' & _).
      destruct (transfer t (set_cfile w None) o e) as [w' r]. cbn [fst snd] in *.
      split; [repeat constructor; exact G|exact I'].
Qed.

Fixpoint all_good (t : tables) (w : world) (h : list op) : Prop :=
  match h with
  | [] => True
  | p :: h' => outs_good w p (snd (step_op t w p)) /\ all_good t (fst (step_op t w p)) h'
  end.

Fixpoint world_after (t : tables) (w : world) (h : list op) : world :=
  match h with [] => w | p :: h' => world_after t (fst (step_op t w p)) h' end.

Lemma Inv_w0 : Inv w0.
Proof. split; [apply le_n|exact I]. Qed.

Lemma all_good_from t h : routes_ok t = true -> forall w, Inv w -> all_good t w h.
Proof.
  intros Hr. induction h as [|p h IH]; intros w Hi; [exact I|].
  destruct (step_op_good t w p Hr Hi) as [G I']. split; [exact G|apply IH, I'].
Qed.

Lemma Inv_after t h : routes_ok t = true -> forall w, Inv w -> Inv (world_after t w h).
Proof.
  intros Hr. induction h as [|p h IH]; intros w Hi; [exact Hi|].
  apply IH. apply (step_op_good t w p Hr Hi).
Qed.

(* explicit crash-point form: after ANY history, a transfer with options ow that is killed after
   ANY number j of write steps leaves a state in which every later transfer (any options o, either
   EOF class) returns the correct model, loaded or recompiled, and does not raise *)
Lemma crash_point t h ow e j o e' : routes_ok t = true ->
  let w := world_after t w0 h in
  let w' := fst (transfer_cut t w ow e j) in
  good w o (snd (transfer t w' o e')).
Proof.
  intros Hr w w'. pose proof (Inv_after t h Hr w0 Inv_w0) as Hi. fold w in Hi.
  destruct (transfer_cut_good t w ow e j Hr Hi) as (_ & I' & S').
  destruct (transfer_good t w' o e' Hr I') as (G & _ & _).
  unfold good in *. fold w' in S'. rewrite S' in G. exact G.
Qed.

(* a reader that runs while a writer has done j of its write steps *)
Lemma reader_point t h o e e' j : routes_ok t = true ->
  let w := world_after t w0 h in
  Forall (good w o) (snd (step_op t w (Reader o e e' j))).
Proof.
  intros Hr w. pose proof (Inv_after t h Hr w0 Inv_w0) as Hi.
  exact (proj1 (step_op_good t _ (Reader o e e' j) Hr Hi)).
Qed.

(* two callers that both finish load_model on the same reachable state (possibly a writer's prefix)
   before either goes on: both return the correct model, whatever the order of their later steps *)
Lemma two_point t h oa ob ea eb lb : routes_ok t = true ->
  let w := world_after t w0 h in
  exists ra rb, snd (step_op t w (Two oa ob ea eb lb)) = [ra; rb] /\ good w oa ra /\ good w ob rb.
Proof.
  intros Hr w. pose proof (Inv_after t h Hr w0 Inv_w0) as Hi.
  exact (proj1 (two_good t _ oa ob ea eb lb Hr Hi)).
Qed.

Lemma reader2_point t h o e ea eb j : routes_ok t = true ->
  let w := world_after t w0 h in
  Forall (good w o) (snd (step_op t w (Reader2 o e ea eb j))).
Proof.
  intros Hr w. pose proof (Inv_after t h Hr w0 Inv_w0) as Hi.
  exact (proj1 (step_op_good t _ (Reader2 o e ea eb j) Hr Hi)).
Qed.
