(* C26 — proofs about Model/C26_cli.v.  Stdlib only. *)
From Coq Require Import List Arith Bool Lia Permutation.
Import ListNotations.
From PV Require Import Model.C26_cli.

(* hypothesis carving the one recorded defect class: every exception escaping
   pymoca.parser.parse / open() for a listed file is of a class parse_file catches
   (vacuous for the casadi branch, which does not parse) *)
Definition file_caught (sk : skel) (p : pres) : Prop :=
  match p with PExc e => catches (h_parse sk) e = true | _ => True end.
Definition parse_caught (sk : skel) (f : facts) : Prop :=
  f_target f <> TCasadi -> Forall (file_caught sk) (f_files f).

(* ---- skel_ok unpacked ---------------------------------------------------------- *)
Lemma skel_ok_inv sk : skel_ok sk = true ->
  k_outdir sk = 1 /\ k_path sk = 1 /\ k_opt sk = 1 /\ k_nofiles_s sk = 1 /\ k_parse sk = ILenErr /\
  k_translate sk = 1 /\ k_flatten sk = 1 /\ k_nofiles_c sk = 1 /\ k_ambig sk = 0 /\ k_nodir sk = 1 /\
  k_transfer sk = 1 /\ broad (h_flatten sk) = true /\ broad (h_transfer sk) = true /\
  (forall e, existsb (fun hs => catches hs e) (h_translate sk) = true).
Proof.
  unfold skel_ok. intros H.
  repeat (apply andb_true_iff in H; destruct H as [H ?]).
  repeat match goal with X : (_ =? _) = true |- _ => apply Nat.eqb_eq in X end.
  destruct (k_parse sk) eqn:Ek; try discriminate.
  repeat split; auto.
  intros e. rewrite forallb_forall in H0. apply H0. destruct e; simpl; auto 10.
Qed.

Lemma skel_ok_combo sk : skel_ok sk = true -> k_combo_first sk = true.
Proof.
  unfold skel_ok. intros H. repeat (apply andb_true_iff in H; destruct H as [H ?]). exact H.
Qed.

Lemma broad_catches hs e : broad hs = true -> catches hs e = true.
Proof.
  unfold broad. rewrite forallb_forall. intros H. apply H. destruct e; simpl; auto 10.
Qed.

(* ---- small list facts ---------------------------------------------------------- *)
Lemma sum_app l1 l2 : sum (l1 ++ l2) = sum l1 + sum l2.
Proof. induction l1; simpl; lia. Qed.

Lemma sum_flags (l : list bool) :
  sum (map (fun b : bool => if b then 0 else 1) l) = length (filter negb l).
Proof. induction l as [|[] l IH]; simpl; lia. Qed.

Lemma usage_ok sk f : k_outdir sk = 1 -> k_path sk = 1 -> k_opt sk = 1 ->
  usage_errors sk f = usage_count f.
Proof.
  intros Ho Hp Hq. unfold usage_errors, usage_count. rewrite Ho, Hp, Hq, !sum_flags. reflexivity.
Qed.

Lemma parse_all_ok hp fs n : Forall (fun p => match p with PExc e => catches hp e = true | _ => True end) fs ->
  parse_all hp fs n = inl (n + length (filter bad_file fs)).
Proof.
  revert n. induction fs as [|p fs IH]; intros n H; simpl.
  - f_equal. lia.
  - inversion H; subst. destruct p as [| |e]; simpl.
    + apply IH; auto.
    + rewrite IH by auto. f_equal. lia.
    + rewrite H2. rewrite IH by auto. f_equal. lia.
Qed.

Lemma loop_m_sum step g ms n : (forall m, In m ms -> step m = inl (g m)) ->
  loop_m step ms n = Exit (n + sum (map g ms)).
Proof.
  revert n. induction ms as [|m ms IH]; intros n H; simpl.
  - f_equal. lia.
  - rewrite (H m) by (left; reflexivity). rewrite IH by (intros; apply H; right; assumption).
    f_equal. lia.
Qed.

(* the file-search loop only depends on how many files are named like the model *)
Lemma find_dir_count ka ms have :
  find_dir ka ms have =
    let c := count_true ms + (if have then 1 else 0) in
    (c =? 1, if 2 <=? c then ka else 0).
Proof.
  revert have. induction ms as [|b ms IH]; intros have; simpl.
  - destruct have; reflexivity.
  - destruct b; unfold count_true in *; cbn [filter length].
    + destruct have.
      * cbv zeta. set (c := length (filter (fun b : bool => b) ms)).
        replace (S c + 1) with (S (S c)) by lia. reflexivity.
      * rewrite IH. cbv zeta. set (c := length (filter (fun b : bool => b) ms)).
        replace (S c + 0) with (c + 1) by lia. reflexivity.
    + apply IH.
Qed.

Lemma step_casadi_ok sk m : skel_ok sk = true -> step_casadi sk m = inl (contrib TCasadi m).
Proof.
  intros Hs. destruct (skel_ok_inv sk Hs) as (_&_&_&_&_&_&_&_&Ha&Hn&Ht&_&Hb&_).
  unfold step_casadi, contrib, model_fails. rewrite find_dir_count, Ha, Hn, Ht. cbv zeta.
  rewrite Nat.add_0_r.
  assert (Z : (if 2 <=? count_true (m_match m) then 0 else 0) = 0)
    by (destruct (2 <=? count_true (m_match m)); reflexivity).
  rewrite Z. clear Z.
  destruct (count_true (m_match m) =? 1) eqn:E; cbn [negb orb].
  - destruct (m_res m) as [|e]; cbn [res_fails].
    + reflexivity.
    + rewrite (broad_catches _ e Hb). reflexivity.
  - reflexivity.
Qed.

Lemma step_flatten_ok sk m : skel_ok sk = true -> step_flatten sk m = inl (contrib TNone m).
Proof.
  intros Hs. destruct (skel_ok_inv sk Hs) as (_&_&_&_&_&_&Hf&_&_&_&_&Hb&_&_).
  unfold step_flatten, contrib, model_fails. destruct (m_res m) as [|e]; simpl; auto.
  rewrite (broad_catches _ e Hb), Hf. reflexivity.
Qed.

Lemma step_sympy_ok sk m : skel_ok sk = true -> step_sympy sk m = inl (contrib TSympy m).
Proof.
  intros Hs. destruct (skel_ok_inv sk Hs) as (_&_&_&_&_&Ht&_&_&_&_&_&_&_&Hb).
  unfold step_sympy, translate, contrib, model_fails. destruct (m_res m) as [|e]; simpl; auto.
  rewrite Hb, Ht. reflexivity.
Qed.

(* ---- the count theorem --------------------------------------------------------- *)
Theorem count_correct sk f : skel_ok sk = true -> parse_caught sk f ->
  main_with sk f = Exit (count f).
Proof.
  intros Hs Hp. pose proof (skel_ok_inv sk Hs) as (Ho&Hpa&Hq&Hns&Hk&_&_&Hnc&_).
  unfold main_with, count. cbv zeta. rewrite (skel_ok_combo sk Hs). cbn [andb].
  destruct (f_argparse f); try reflexivity.
  destruct (negb (is_tnone (f_target f)) && is_nil (f_models f)) eqn:Eg; try reflexivity.
  rewrite (usage_ok sk f Ho Hpa Hq).
  destruct (usage_count f =? 0) eqn:Eu; simpl; try reflexivity.
  unfold parse_count, parse_caught in *.
  destruct (f_target f) eqn:Et.
  - (* flatten only *)
    rewrite parse_all_ok by (apply Hp; discriminate). simpl.
    destruct (f_files f) as [|p fs] eqn:Ef.
    + simpl. rewrite Hns. reflexivity.
    + cbn [is_nil]. rewrite Hk. cbn [ev].
      destruct (length (filter bad_file (p :: fs)) =? 0) eqn:En.
      * simpl. destruct (f_models f) as [|m ms] eqn:Em; simpl; try reflexivity.
        rewrite (step_flatten_ok sk m Hs).
        rewrite (loop_m_sum _ (contrib TNone)) by (intros; apply step_flatten_ok; assumption).
        reflexivity.
      * apply Nat.eqb_neq in En. simpl negb.
        destruct (length (filter bad_file (p :: fs))) eqn:E'; [lia|]. reflexivity.
  - (* sympy *)
    rewrite parse_all_ok by (apply Hp; discriminate). simpl.
    destruct (f_files f) as [|p fs] eqn:Ef.
    + simpl. rewrite Hns. reflexivity.
    + cbn [is_nil]. rewrite Hk. cbn [ev].
      destruct (length (filter bad_file (p :: fs)) =? 0) eqn:En.
      * simpl. destruct (f_models f) as [|m ms] eqn:Em; simpl; try reflexivity.
        rewrite (step_sympy_ok sk m Hs).
        rewrite (loop_m_sum _ (contrib TSympy)) by (intros; apply step_sympy_ok; assumption).
        reflexivity.
      * apply Nat.eqb_neq in En. simpl negb.
        destruct (length (filter bad_file (p :: fs))) eqn:E'; [lia|]. reflexivity.
  - (* casadi *)
    destruct (f_files f) as [|p fs] eqn:Ef; simpl.
    + rewrite Hnc. reflexivity.
    + rewrite (loop_m_sum _ (contrib TCasadi)) by (intros; apply step_casadi_ok; assumption).
      reflexivity.
Qed.

Corollary count_total sk : skel_ok sk = true -> parse_broad sk = true ->
  forall f, main_with sk f = Exit (count f).
Proof.
  intros Hs Hb f. apply count_correct; auto.
  intros _. apply Forall_forall. intros [| |e] _; simpl; auto. apply broad_catches, Hb.
Qed.

Lemma head_skel_ok : skel_ok head_skel = true.
Proof. vm_compute. reflexivity. Qed.

Lemma head_parse_broad : parse_broad head_skel = true.
Proof. vm_compute. reflexivity. Qed.

(* the table of /repo HEAD: unconditional *)
Corollary count_head f : main f = Exit (count f).
Proof. apply count_total; [apply head_skel_ok|apply head_parse_broad]. Qed.

(* why parse_caught is needed for a narrower parse_file handler: with the table before 52ae5a2
   (KeyError, AttributeError, OSError) an undecodable file (UnicodeDecodeError, a ValueError)
   escapes main although the table satisfies skel_ok *)
Definition undecodable_invocation : facts :=
  Facts AOk TNone true [true] [] [PExc EValue] [].
Lemma narrow_escapes : skel_ok narrow_skel = true /\
  exists f, main_with narrow_skel f = Raises EValue /\ ~ parse_caught narrow_skel f.
Proof.
  split; [vm_compute; reflexivity|].
  exists undecodable_invocation. split; [vm_compute; reflexivity|].
  intros H. assert (X : TNone <> TCasadi) by discriminate. specialize (H X).
  inversion H; subst. simpl in H2. discriminate.
Qed.

(* ---- 0 iff full success -------------------------------------------------------- *)
Definition full_success (f : facts) : Prop :=
  match f_argparse f with
  | AError => False
  | AExit0 => True                                   (* --version / --help *)
  | AOk =>
    (f_target f <> TNone -> f_models f <> []) /\
    f_outdir_ok f = true /\ Forall (fun b => b = true) (f_paths f) /\ Forall (fun b => b = true) (f_opts f) /\
    f_files f <> [] /\
    (f_target f <> TCasadi -> Forall (fun p => p = POk) (f_files f)) /\
    Forall (fun m => model_fails (f_target f) m = false) (f_models f)
  end.

Lemma filter_len0 {A} (p : A -> bool) l : length (filter p l) = 0 <-> Forall (fun x => p x = false) l.
Proof.
  induction l as [|x l IH]; simpl.
  - split; auto.
  - destruct (p x) eqn:E; simpl.
    + split; [lia|]. intros H. inversion H; subst. congruence.
    + rewrite IH. split; intros H; [constructor; auto|inversion H; auto].
Qed.

Lemma sum_contrib0 t ms : sum (map (contrib t) ms) = 0 <-> Forall (fun m => model_fails t m = false) ms.
Proof.
  induction ms as [|m ms IH]; simpl.
  - split; auto.
  - unfold contrib at 1. destruct (model_fails t m) eqn:E.
    + split; [lia|]. intros H. inversion H; subst. congruence.
    + simpl. rewrite IH. split; intros H; [constructor; auto|inversion H; auto].
Qed.

Lemma Forall_negb l : Forall (fun x => negb x = false) l <-> Forall (fun b => b = true) l.
Proof. split; intros H; eapply Forall_impl; try apply H; intros []; simpl; congruence. Qed.

Lemma Forall_bad l : Forall (fun x => bad_file x = false) l <-> Forall (fun p => p = POk) l.
Proof. split; intros H; eapply Forall_impl; try apply H; intros []; simpl; congruence. Qed.

Theorem zero_iff f : count f = 0 <-> full_success f.
Proof.
  unfold count, full_success.
  destruct (f_argparse f); [|split; [lia|tauto]|tauto].
  destruct (negb (is_tnone (f_target f)) && is_nil (f_models f)) eqn:Eg.
  { split; [lia|]. intros (H&_). apply andb_true_iff in Eg as [E1 E2].
    destruct (f_models f); [|discriminate]. exfalso. apply H; auto.
    destruct (f_target f); simpl in E1; congruence. }
  assert (G : f_target f <> TNone -> f_models f <> []).
  { intros Ht Hm. rewrite Hm in Eg. destruct (f_target f); simpl in Eg; congruence. }
  destruct (usage_count f =? 0) eqn:Eu; simpl.
  2:{ apply Nat.eqb_neq in Eu. split; [lia|]. intros (_&Ho&Hp&Hq&_). exfalso. apply Eu.
      unfold usage_count. rewrite Ho.
      apply Forall_negb, filter_len0 in Hp. apply Forall_negb, filter_len0 in Hq. lia. }
  apply Nat.eqb_eq in Eu. unfold usage_count in Eu.
  assert (Ho : f_outdir_ok f = true) by (destruct (f_outdir_ok f); auto; lia).
  assert (Hp : Forall (fun b => b = true) (f_paths f)) by (apply Forall_negb, filter_len0; lia).
  assert (Hq : Forall (fun b => b = true) (f_opts f)) by (apply Forall_negb, filter_len0; lia).
  destruct (f_files f) as [|p fs] eqn:Ef; simpl.
  { split; [lia|]. intros (_&_&_&_&H&_). congruence. }
  destruct (parse_count f =? 0) eqn:Ep; simpl.
  2:{ apply Nat.eqb_neq in Ep. split; [lia|]. intros (_&_&_&_&_&Hf&_). exfalso. apply Ep.
      unfold parse_count. destruct (f_target f) eqn:Et; auto; rewrite Ef;
        apply filter_len0, Forall_bad, Hf; discriminate. }
  apply Nat.eqb_eq in Ep. rewrite sum_contrib0.
  split.
  - intros H. repeat split; auto; try discriminate.
    intros Ht. unfold parse_count in Ep. rewrite Ef in Ep.
    destruct (f_target f); try congruence; apply Forall_bad, filter_len0; exact Ep.
  - tauto.
Qed.

(* ---- argument errors ----------------------------------------------------------- *)
Theorem argparse_two sk f :
  f_argparse f = AError \/
  (k_combo_first sk = true /\ f_argparse f = AOk /\ f_target f <> TNone /\ f_models f = []) ->
  main_with sk f = Exit 2.
Proof.
  unfold main_with. intros [H|(Hc&H&Ht&Hm)]; rewrite H; auto.
  rewrite Hm, Hc. destruct (f_target f); simpl; congruence.
Qed.

(* ---- per-model independence ---------------------------------------------------- *)
(* the invocation reaches the per-model loop *)
Definition reaches_models (f : facts) : Prop :=
  f_argparse f = AOk /\ f_models f <> [] /\ usage_count f = 0 /\ f_files f <> [] /\ parse_count f = 0.

Lemma count_models f : reaches_models f -> count f = sum (map (contrib (f_target f)) (f_models f)).
Proof.
  intros (Ha&Hm&Hu&Hf&Hp). unfold count. rewrite Ha, Hu, Hp.
  destruct (f_models f); [congruence|]. destruct (f_files f); [congruence|].
  rewrite andb_false_r. reflexivity.
Qed.

Definition with_models (f : facts) (ms : list mfacts) : facts :=
  Facts (f_argparse f) (f_target f) (f_outdir_ok f) (f_paths f) (f_opts f) (f_files f) ms.

Lemma reaches_with f ms : reaches_models f -> ms <> [] -> reaches_models (with_models f ms).
Proof. intros (Ha&Hm&Hu&Hf&Hp) H. repeat split; auto. Qed.

Theorem independent sk f : skel_ok sk = true -> parse_caught sk f -> reaches_models f ->
  main_with sk f = Exit (sum (map (contrib (f_target f)) (f_models f))).
Proof. intros Hs Hp Hr. rewrite count_correct by assumption. f_equal. apply count_models, Hr. Qed.

Lemma parse_caught_with sk f ms : parse_caught sk f -> parse_caught sk (with_models f ms).
Proof. unfold parse_caught. simpl. auto. Qed.

Theorem independent_single sk f : skel_ok sk = true -> parse_caught sk f -> reaches_models f ->
  forall n, main_with sk f = Exit n ->
  n = sum (map (fun m => match main_with sk (with_models f [m]) with Exit k => k | Raises _ => 0 end) (f_models f)).
Proof.
  intros Hs Hp Hr n Hn. rewrite (independent sk f Hs Hp Hr) in Hn. injection Hn as <-.
  f_equal. apply map_ext. intros m.
  rewrite (independent sk (with_models f [m]) Hs (parse_caught_with sk f [m] Hp)).
  - simpl. lia.
  - apply reaches_with; [assumption|discriminate].
Qed.

Theorem independent_perm sk f ms' : skel_ok sk = true -> parse_caught sk f -> reaches_models f ->
  Permutation (f_models f) ms' -> main_with sk (with_models f ms') = main_with sk f.
Proof.
  intros Hs Hp Hr Hperm.
  assert (Hne : ms' <> []).
  { intros ->. apply Permutation_sym, Permutation_nil in Hperm. destruct Hr as (_&H&_). auto. }
  rewrite (independent sk f Hs Hp Hr).
  rewrite (independent sk _ Hs (parse_caught_with sk f ms' Hp) (reaches_with f ms' Hr Hne)).
  simpl. f_equal. clear -Hperm. induction Hperm; simpl; try lia.
Qed.

(* ---- parse_all's contract: the first list is ALL collected files ------------------ *)
Lemma filter_all {A} (p : A -> bool) l : Forall (fun x => p x = true) l -> filter p l = l.
Proof. induction 1; simpl; [reflexivity|]. rewrite H. f_equal. assumption. Qed.

(* whenever some .mo file was collected the exit status is the number of bad files, however many
   parsed; in particular, when EVERY collected file is bad it is the number of files (not the 1 of
   "No Modelica files") *)
Theorem every_file_bad sk f : skel_ok sk = true -> parse_caught sk f ->
  f_argparse f = AOk -> (f_target f <> TNone -> f_models f <> []) -> usage_count f = 0 ->
  f_target f <> TCasadi -> f_files f <> [] -> Forall (fun p => bad_file p = true) (f_files f) ->
  main_with sk f = Exit (length (f_files f)).
Proof.
  intros Hs Hp Ha Hm Hu Ht Hf Hb. rewrite (count_correct sk f Hs Hp). f_equal.
  unfold count. rewrite Ha, Hu.
  assert (G : negb (is_tnone (f_target f)) && is_nil (f_models f) = false).
  { destruct (f_target f) eqn:E; simpl; auto; destruct (f_models f); simpl; auto;
      exfalso; apply Hm; congruence. }
  rewrite G. simpl. unfold parse_count.
  destruct (f_files f) as [|p fs] eqn:Ef; [congruence|]. cbn [is_nil].
  rewrite (filter_all bad_file (p :: fs) Hb).
  destruct (f_target f); try congruence; reflexivity.
Qed.
