(* C24 — proofs about Model/C24_sympy.v.
   1. the character-level printer (format strings) spells exactly the token form;
   2. name mangling: injective outside the recorded collision shapes;
   3. the Python reader applied to the printed tokens returns the embedded expression
      (any fuel >= need), for whole expressions and for the equation form lhs - (rhs);
   4. the embedded expression evaluates like the flat expression;
   5. membership in the six lists = the flat classification. *)
From Coq Require Import List String Ascii Bool Arith Lia QArith Qcanon.
From PV Require Import Model.C24_sympy.
Import ListNotations.
Close Scope Q_scope.
Close Scope Qc_scope.
Open Scope nat_scope.
Open Scope list_scope.

Arguments sym_name : simpl never.
Arguments TIME : simpl never.

(* ------------------------------------------------------------------ induction with lists *)
Fixpoint expr_ind' (P : expr -> Prop)
  (HVar : forall n, P (EVar n)) (HSym : forall n, P (ESym n)) (HNum : forall l v, P (ENum l v))
  (HBin : forall o l r, P l -> P r -> P (EBin o l r))
  (HUn : forall b a, P a -> P (EUn b a)) (HDer : forall a, P a -> P (EDer a))
  (HCall : forall f args, Forall P args -> P (ECall f args)) (e : expr) {struct e} : P e :=
  let rec := expr_ind' P HVar HSym HNum HBin HUn HDer HCall in
  match e with
  | EVar n => HVar n | ESym n => HSym n | ENum l v => HNum l v
  | EBin o l r => HBin o l r (rec l) (rec r)
  | EUn b a => HUn b a (rec a)
  | EDer a => HDer a (rec a)
  | ECall f args =>
      HCall f args ((fix go (l : list expr) : Forall P l :=
                       match l with
                       | [] => Forall_nil P
                       | x :: r => Forall_cons x (rec x) (go r)
                       end) args)
  end.

(* ------------------------------------------------------------------ strings *)
Lemma str_eqb_eq a : forall b, str_eqb a b = true <-> a = b.
Proof.
  induction a as [|x a IH]; intros [|y b]; cbn; split; intros H; try discriminate; try reflexivity.
  - apply andb_true_iff in H. destruct H as [H1 H2]. apply Ascii.eqb_eq in H1. apply IH in H2. now subst.
  - injection H as -> ->. rewrite Ascii.eqb_refl. cbn. now apply IH.
Qed.
Lemma str_eqb_refl a : str_eqb a a = true.
Proof. now apply str_eqb_eq. Qed.
Lemma str_eqb_neq a b : str_eqb a b = false <-> a <> b.
Proof.
  split; intros H.
  - intros E. apply str_eqb_eq in E. congruence.
  - destruct (str_eqb a b) eqn:E; [apply str_eqb_eq in E; contradiction|reflexivity].
Qed.
Lemma mem_In x l : mem x l = true <-> In x l.
Proof.
  unfold mem. rewrite existsb_exists. split.
  - intros [y [Hy E]]. apply str_eqb_eq in E. now subst.
  - intros H. exists x. split; [exact H|apply str_eqb_refl].
Qed.

(* ------------------------------------------------------------------ 1. format strings = token spelling *)
Lemma fmt_bin O L R :
  fmt FMT_BIN [(s_ "op", O); (s_ "left", L); (s_ "right", R)]
  = s_ "(" ++ L ++ s_ ") " ++ O ++ s_ " (" ++ R ++ s_ ")".
Proof. reflexivity. Qed.
Lemma fmt_un O A : fmt FMT_UN [(s_ "op", O); (s_ "expr", A)] = O ++ s_ " (" ++ A ++ s_ ")".
Proof. reflexivity. Qed.
Lemma fmt_der A : fmt FMT_DER [(s_ "var", A)] = s_ "sympy.sympify(" ++ A ++ s_ ").diff(self.t)".
Proof. reflexivity. Qed.
Lemma fmt_call F A :
  fmt FMT_CALL [(s_ "tree.operator.name", F); (s_ "operand_src", A)] = F ++ s_ "(" ++ A ++ s_ ")".
Proof. reflexivity. Qed.
Lemma fmt_prim L : fmt FMT_PRIM [([], L)] = L ++ [].
Proof. reflexivity. Qed.
Lemma fmt_eq L R : fmt FMT_EQ [(s_ "left", L); (s_ "right", R)] = L ++ s_ " - (" ++ R ++ s_ ")".
Proof. reflexivity. Qed.

Lemma render_app a b : render (a ++ b) = render a ++ render b.
Proof. apply flat_map_app. Qed.

Lemma render_joint B args :
  Forall (fun e => render (print_tok B e) = print B e) args ->
  render (joint [TComma] (map (print_tok B) args)) = join (s_ SEP_ARGS) (map (print B) args).
Proof.
  induction 1 as [|x r Hx Hr IH]; [reflexivity|].
  destruct r as [|y r]; [exact Hx|].
  change (render (print_tok B x ++ [TComma] ++ joint [TComma] (map (print_tok B) (y :: r)))
          = print B x ++ s_ SEP_ARGS ++ join (s_ SEP_ARGS) (map (print B) (y :: r))).
  rewrite !render_app, Hx, IH. reflexivity.
Qed.

Lemma render_print B e : render (print_tok B e) = print B e.
Proof.
  induction e using expr_ind'.
  - cbn [print_tok print]. unfold ref_name.
    destruct (str_eqb (sym_name B n) TIME); [reflexivity|apply app_nil_r].
  - apply app_nil_r.
  - reflexivity.
  - cbn [print_tok print]. rewrite fmt_bin, !render_app, IHe1, IHe2. destruct o; reflexivity.
  - cbn [print_tok print]. rewrite fmt_un, !render_app, IHe. destruct b; reflexivity.
  - cbn [print_tok print]. rewrite fmt_der, !render_app, IHe. reflexivity.
  - cbn [print_tok print]. rewrite fmt_call, !render_app, render_joint by assumption.
    unfold render. cbn [flat_map spell]. rewrite <- !app_assoc. reflexivity.
Qed.

Lemma render_print_eq B l r : render (print_tok_eq B l r) = print_eq B l r.
Proof.
  unfold print_tok_eq, print_eq. rewrite fmt_eq, !render_app, !render_print. reflexivity.
Qed.

(* ------------------------------------------------------------------ 2. mangling *)
Definition us (k : nat) : str := repeat "_"%char k.

Lemma bump_shape f : forall B n, exists k, bump f B n = n ++ us k /\ (k = 0 \/ mem n B = true).
Proof.
  induction f as [|f IH]; intros B n.
  - exists 0. cbn. rewrite app_nil_r. auto.
  - cbn. destruct (mem n B) eqn:E.
    + destruct (IH B (n ++ ["_"%char])) as [k [H _]]. exists (S k). rewrite H, <- app_assoc. auto.
    + exists 0. cbn. rewrite app_nil_r. auto.
Qed.

Lemma us_app a b : us (a + b) = us a ++ us b.
Proof. apply repeat_app. Qed.
Lemma us_snoc k : us (S k) = us k ++ ["_"%char].
Proof. unfold us. rewrite <- repeat_cons. reflexivity. Qed.

Lemma app_us a b k j : a ++ us k = b ++ us j -> k <= j -> a = b ++ us (j - k).
Proof.
  intros H Hle. replace j with ((j - k) + k) in H at 1 by lia.
  rewrite us_app, app_assoc in H. now apply app_inv_tail in H.
Qed.

(* a name is "shadowed" when it is a reserved name followed by one or more underscores *)
Definition no_shadow (B : list str) (m : str) : Prop :=
  forall b k, In b B -> m <> b ++ us (S k).

Lemma bump_inj f B a b :
  no_shadow B a -> no_shadow B b -> bump f B a = bump f B b -> a = b.
Proof.
  intros Ha Hb H.
  destruct (bump_shape f B a) as [k [Ea Ka]]. destruct (bump_shape f B b) as [j [Eb Kb]].
  rewrite Ea, Eb in H.
  destruct (Nat.le_gt_cases k j) as [Hle|Hgt].
  - apply app_us in H; [|exact Hle]. destruct (j - k) as [|d] eqn:D.
    + cbn in H. now rewrite app_nil_r in H.
    + exfalso. destruct Kb as [->|Kb]; [lia|]. apply mem_In in Kb. exact (Ha b d Kb H).
  - symmetry in H. apply app_us in H; [|lia]. destruct (k - j) as [|d] eqn:D; [lia|].
    exfalso. destruct Ka as [->|Ka]; [lia|]. apply mem_In in Ka. exact (Hb a d Ka H).
Qed.

(* inverse of the dot replacement on clean names *)
Fixpoint unrepl (s : str) : str :=
  match s with
  | [] => []
  | c :: r =>
      match r with
      | [] => [c]
      | d :: r' => if Ascii.eqb c "_" && Ascii.eqb d "_" then "."%char :: unrepl r' else c :: unrepl r
      end
  end.
(* clean: no underscore immediately followed by an underscore or a dot *)
Fixpoint cleanb (n : str) : bool :=
  match n with
  | [] => true
  | c :: r =>
      match r with
      | [] => true
      | d :: _ => negb (Ascii.eqb c "_" && (Ascii.eqb d "_" || Ascii.eqb d ".")) && cleanb r
      end
  end.

Lemma unrepl_cons2 c d r :
  unrepl (c :: d :: r)
  = if Ascii.eqb c "_" && Ascii.eqb d "_" then "."%char :: unrepl r else c :: unrepl (d :: r).
Proof. reflexivity. Qed.
Lemma cleanb_tail c r : cleanb (c :: r) = true -> cleanb r = true.
Proof. destruct r as [|d r]; [reflexivity|]. cbn. intros H. apply andb_true_iff in H. tauto. Qed.

Lemma unrepl_repl n : cleanb n = true -> unrepl (repl n) = n.
Proof.
  induction n as [|c r IH]; [reflexivity|]. intros Hc.
  pose proof (IH (cleanb_tail _ _ Hc)) as IHr. clear IH.
  cbn [repl]. destruct (Ascii.eqb c ".") eqn:Ec.
  - apply Ascii.eqb_eq in Ec. subst c. cbn. now rewrite IHr.
  - destruct r as [|d r']; [reflexivity|].
    cbn [cleanb] in Hc. apply andb_true_iff in Hc. destruct Hc as [Hc _].
    apply negb_true_iff in Hc.
    cbn [repl] in *. destruct (Ascii.eqb d ".") eqn:Ed.
    + (* next is a dot: repl starts with "_" *)
      rewrite unrepl_cons2. rewrite orb_true_r, andb_true_r in Hc. rewrite Hc. cbn [andb].
      now rewrite IHr.
    + rewrite unrepl_cons2. rewrite orb_false_r in Hc. rewrite Hc. now rewrite IHr.
Qed.

Lemma sym_name_inj B a b :
  cleanb a = true -> cleanb b = true ->
  no_shadow B (repl a) -> no_shadow B (repl b) ->
  sym_name B a = sym_name B b -> a = b.
Proof.
  intros Ca Cb Sa Sb H. unfold sym_name in H. apply bump_inj in H; [|assumption..].
  rewrite <- (unrepl_repl a Ca), <- (unrepl_repl b Cb). now rewrite H.
Qed.

(* every unclean name really has a collision partner: the carve-out is not wider than needed *)
Lemma repl_app a b : repl (a ++ b) = repl a ++ repl b.
Proof.
  induction a as [|c a IH]; [reflexivity|]. cbn. destruct (Ascii.eqb c "."); cbn; now rewrite IH.
Qed.
Lemma unclean_collides n :
  cleanb n = false -> exists m, m <> n /\ repl m = repl n.
Proof.
  induction n as [|c r IH]; [discriminate|]. destruct r as [|d r']; [discriminate|].
  cbn [cleanb]. intros H. apply andb_false_iff in H. destruct H as [H|H].
  - apply negb_false_iff, andb_true_iff in H. destruct H as [Hc Hd].
    apply Ascii.eqb_eq in Hc. subst c. apply orb_true_iff in Hd. destruct Hd as [Hd|Hd];
      apply Ascii.eqb_eq in Hd; subst d.
    + exists ("."%char :: r'). split; [discriminate|reflexivity].
    + exists ("."%char :: "_"%char :: r'). split; [discriminate|reflexivity].
  - destruct (IH H) as [m [Hm E]]. exists (c :: m). split; [congruence|].
    cbn [repl]. now rewrite E.
Qed.

(* "time" *)
Lemma repl_nil n : repl n = [] -> n = [].
Proof. destruct n as [|c r]; [reflexivity|]. cbn. destruct (Ascii.eqb c "."); discriminate. Qed.
Lemma repl_time n : repl n = TIME -> n = TIME.
Proof.
  unfold TIME. cbn. intros H.
  repeat (destruct n as [|?c n]; [discriminate H|]; cbn [repl] in H;
          match type of H with context [Ascii.eqb ?c "."] => destruct (Ascii.eqb c ".") eqn:?E end;
          [discriminate H|]; injection H as -> H).
  apply repl_nil in H. now subst.
Qed.
Lemma snoc_us_time x k : x ++ us (S k) <> TIME.
Proof.
  rewrite us_snoc, app_assoc. change TIME with (s_ "tim" ++ ["e"%char]).
  intros H. apply app_inj_tail in H. destruct H as [_ H]. discriminate H.
Qed.
Lemma sym_name_time B n : mem TIME B = false -> (sym_name B n = TIME <-> n = TIME).
Proof.
  intros HB. split.
  - unfold sym_name. intros H. destruct (bump_shape (S (List.length B)) B (repl n)) as [k [E _]].
    rewrite E in H. destruct k as [|k].
    + cbn in H. rewrite app_nil_r in H. now apply repl_time.
    + exfalso. exact (snoc_us_time _ _ H).
  - intros ->. unfold sym_name. change (repl TIME) with TIME. cbn [bump]. now rewrite HB.
Qed.

(* ------------------------------------------------------------------ 3. reader *)
Fixpoint ptk (B : list str) (e : expr) : list tok :=
  match e with
  | EVar n => let m := sym_name B n in if str_eqb m TIME then [TSelfT] else [TName m]
  | ESym n => [TName (sym_name B n)]
  | ENum lit v => [TNum lit v]
  | EBin o l r => TLp :: ptk B l ++ TRp :: TOp o :: TLp :: ptk B r ++ [TRp]
  | EUn neg a => TOp (if neg then Sub else Add) :: TLp :: ptk B a ++ [TRp]
  | EDer a => TSympify :: TLp :: ptk B a ++ [TRp; TDiff]
  | ECall f args => TName f :: TLp :: joint [TComma] (map (ptk B) args) ++ [TRp]
  end.

Lemma strip_app a b : strip (a ++ b) = strip a ++ strip b.
Proof. apply filter_app. Qed.

Lemma strip_joint B args :
  Forall (fun e => strip (print_tok B e) = ptk B e) args ->
  strip (joint [TComma] (map (print_tok B) args)) = joint [TComma] (map (ptk B) args).
Proof.
  induction 1 as [|x r Hx Hr IH]; [reflexivity|].
  destruct r as [|y r]; [exact Hx|].
  change (strip (print_tok B x ++ [TComma] ++ joint [TComma] (map (print_tok B) (y :: r)))
          = ptk B x ++ [TComma] ++ joint [TComma] (map (ptk B) (y :: r))).
  rewrite !strip_app, Hx, IH. reflexivity.
Qed.

Lemma strip_print B e : strip (print_tok B e) = ptk B e.
Proof.
  induction e using expr_ind'.
  - cbn [print_tok ptk]. destruct (str_eqb (sym_name B n) TIME); reflexivity.
  - reflexivity.
  - reflexivity.
  - cbn [print_tok ptk]. rewrite !strip_app, IHe1, IHe2. reflexivity.
  - cbn [print_tok ptk]. rewrite !strip_app, IHe. destruct b; reflexivity.
  - cbn [print_tok ptk]. rewrite !strip_app, IHe. reflexivity.
  - cbn [print_tok ptk]. rewrite !strip_app, strip_joint by assumption. reflexivity.
Qed.

Fixpoint embed (B : list str) (e : expr) : pexpr :=
  match e with
  | EVar n => let m := sym_name B n in if str_eqb m TIME then PSelfT else PName m
  | ESym n => PName (sym_name B n)
  | ENum l v => PNum l v
  | EBin o l r => PBin o (embed B l) (embed B r)
  | EUn b a => PUn b (embed B a)
  | EDer a => PDiff (PWrap (embed B a))
  | ECall f args => PCall f (map (embed B) args)
  end.

(* fuel that suffices (linear in the size of the expression) *)
Fixpoint need (e : expr) : nat :=
  match e with
  | EBin _ l r => 10 + need l + need r
  | EUn _ a => 10 + need a
  | EDer a => 10 + need a
  | ECall _ args => 10 + list_sum (map (fun a => 3 + need a) args)
  | _ => 10
  end.

(* unfolding equations *)
Lemma pe_S n lvl ts :
  pe (S n) lvl ts = match pu n ts with Some (a, r) => pl n lvl a r | None => None end.
Proof. reflexivity. Qed.
Lemma pu_S n ts : pu (S n) ts =
  match ts with
  | TOp Sub :: r => match pu n r with Some (a, r') => Some (PUn true a, r') | None => None end
  | TOp Add :: r => match pu n r with Some (a, r') => Some (PUn false a, r') | None => None end
  | _ => ppow (pu n) (pa n ts)
  end.
Proof. reflexivity. Qed.
Lemma pa_S n ts : pa (S n) ts =
  match ts with
  | TNum l v :: r => Some (ptr (PNum l v) r)
  | TSelfT :: r => Some (ptr PSelfT r)
  | TName f :: TLp :: r =>
      match pargs n r with Some (args, r') => Some (ptr (PCall f args) r') | None => None end
  | TName x :: r => Some (ptr (PName x) r)
  | TLp :: r => match pe n 1 r with Some (a, TRp :: r') => Some (ptr a r') | _ => None end
  | TSympify :: TLp :: r =>
      match pe n 1 r with Some (a, TRp :: r') => Some (ptr (PWrap a) r') | _ => None end
  | _ => None
  end.
Proof. reflexivity. Qed.
Lemma pl_S n lvl acc ts : pl (S n) lvl acc ts =
  match ts with
  | TOp o :: r =>
      match binlvl o with
      | Some p => if lvl <=? p
                  then match pe n (S p) r with
                       | Some (b, r') => pl n lvl (PBin o acc b) r'
                       | None => None
                       end
                  else Some (acc, ts)
      | None => Some (acc, ts)
      end
  | _ => Some (acc, ts)
  end.
Proof. reflexivity. Qed.
Lemma pargs_S n ts : pargs (S n) ts =
  match ts with
  | TRp :: r => Some ([], r)
  | _ => match pe n 1 ts with
         | Some (a, TComma :: r) =>
             match pargs n r with Some (l, r') => Some (a :: l, r') | None => None end
         | Some (a, TRp :: r) => Some ([a], r)
         | _ => None
         end
  end.
Proof. reflexivity. Qed.

(* what may follow an operand of + or - without being absorbed by it *)
Definition hd_loose (ts : list tok) : bool :=
  match ts with
  | TDiff :: _ | TLp :: _ | TOp Pow :: _ | TOp Mul :: _ | TOp Div :: _ => false
  | _ => true
  end.

Ltac case_hd rest H :=
  destruct rest as [|[| | | |[]| | | | |] rest]; try discriminate H.
Ltac norm_app := repeat (progress (cbn [app]; rewrite <- ?app_assoc)).

Lemma ptr_loose a rest : hd_loose rest = true -> ptr a rest = (a, rest).
Proof. intros H. case_hd rest H; reflexivity. Qed.
Lemma ppow_loose f a rest : hd_loose rest = true -> ppow f (Some (a, rest)) = Some (a, rest).
Proof. intros H. case_hd rest H; reflexivity. Qed.
Lemma ppow_pow f a r :
  ppow f (Some (a, TOp Pow :: r))
  = match f r with Some (b, r') => Some (PBin Pow a b, r') | None => None end.
Proof. reflexivity. Qed.

Lemma pl_hi n lvl acc rest :
  hd_loose rest = true -> 2 <= lvl -> pl (S n) lvl acc rest = Some (acc, rest).
Proof.
  intros H Hl. destruct lvl as [|[|lvl]]; try lia.
  case_hd rest H; reflexivity.
Qed.

(* a parenthesised sub-expression is an atom *)
Definition Inner (ts : list tok) (a : pexpr) (k : nat) : Prop :=
  forall rest m, k <= m -> pe m 1 (ts ++ TRp :: rest) = Some (a, TRp :: rest).

Lemma pa_paren ts a k rest n :
  Inner ts a k -> S k <= n -> pa n (TLp :: ts ++ TRp :: rest) = Some (ptr a rest).
Proof.
  intros H Hn. destruct n as [|n]; [lia|]. rewrite pa_S. cbv beta iota.
  rewrite (H rest n) by lia. reflexivity.
Qed.

Lemma pa_wrap ts a k rest n :
  Inner ts a k -> S k <= n -> pa n (TSympify :: TLp :: ts ++ TRp :: rest) = Some (ptr (PWrap a) rest).
Proof.
  intros H Hn. destruct n as [|n]; [lia|]. rewrite pa_S. cbv beta iota.
  rewrite (H rest n) by lia. reflexivity.
Qed.

Lemma pu_paren ts a k rest n :
  Inner ts a k -> hd_loose rest = true -> S (S k) <= n ->
  pu n (TLp :: ts ++ TRp :: rest) = Some (a, rest).
Proof.
  intros H Hl Hn. destruct n as [|n]; [lia|]. rewrite pu_S. cbv beta iota.
  rewrite (pa_paren ts a k rest n H) by lia. rewrite (ptr_loose a rest Hl).
  now apply ppow_loose.
Qed.

Lemma pe_paren_hi ts a k rest lvl n :
  Inner ts a k -> hd_loose rest = true -> 2 <= lvl -> 4 + k <= n ->
  pe n lvl (TLp :: ts ++ TRp :: rest) = Some (a, rest).
Proof.
  intros H Hl Hlvl Hn. destruct n as [|n]; [lia|]. rewrite pe_S.
  rewrite (pu_paren ts a k rest n H Hl) by lia.
  destruct n as [|n]; [lia|]. now apply pl_hi.
Qed.

(* the statement proved by induction on the expression *)
Definition Reads (B : list str) (e : expr) : Prop :=
  forall rest res k n,
    hd_loose rest = true ->
    (forall m, k <= m -> pl m 1 (embed B e) rest = Some res) ->
    need e + k <= n ->
    pe n 1 (ptk B e ++ rest) = Some res.

Lemma Reads_Inner B e : Reads B e -> Inner (ptk B e) (embed B e) (need e + 1).
Proof.
  intros H rest m Hm. apply (H (TRp :: rest) _ 1); [reflexivity| |lia].
  intros m' Hm'. destruct m' as [|m']; [lia|]. reflexivity.
Qed.

(* single-token atoms *)
Definition atom_of (t : tok) (a : pexpr) : Prop :=
  match t with
  | TNum l v => a = PNum l v | TSelfT => a = PSelfT | TName x => a = PName x | _ => False
  end.
Lemma pu_atom t a rest n :
  atom_of t a -> hd_loose rest = true -> pu (S (S n)) (t :: rest) = Some (a, rest).
Proof.
  intros Ht Hl. destruct t; try contradiction; cbn in Ht; subst a;
    case_hd rest Hl; reflexivity.
Qed.

Lemma Reads_atom B e t a :
  ptk B e = [t] -> embed B e = a -> need e = 10 -> atom_of t a -> Reads B e.
Proof.
  intros Hp He Hn Ht rest res k n Hl Hk Hfuel. rewrite Hp. rewrite He in Hk. rewrite Hn in Hfuel.
  cbn [app]. destruct n as [|[|[|n]]]; try lia. rewrite pe_S, (pu_atom t a rest n Ht Hl).
  apply Hk. lia.
Qed.

Lemma hd_not_rp B e rest :
  match ptk B e ++ rest with TRp :: _ => False | [] => False | _ => True end.
Proof.
  destruct e; cbn [ptk app]; try exact I.
  all: try (destruct (str_eqb (sym_name B n) TIME); exact I).
  all: try (destruct neg; exact I).
Qed.

Lemma pargs_S' n ts :
  match ts with TRp :: _ => False | [] => False | _ => True end ->
  pargs (S n) ts =
    match pe n 1 ts with
    | Some (a, TComma :: r) =>
        match pargs n r with Some (l, r') => Some (a :: l, r') | None => None end
    | Some (a, TRp :: r) => Some ([a], r)
    | _ => None
    end.
Proof. intros H. rewrite pargs_S. destruct ts as [|[] ts]; try contradiction; reflexivity. Qed.

Lemma pargs_ok B args :
  Forall (Reads B) args ->
  forall rest n, 2 + list_sum (map (fun a => 3 + need a) args) <= n ->
  pargs n (joint [TComma] (map (ptk B) args) ++ TRp :: rest) = Some (map (embed B) args, rest).
Proof.
  induction 1 as [|x r Hx Hr IH]; intros rest n Hn.
  - destruct n as [|n]; [lia|]. reflexivity.
  - change (list_sum (map (fun a => 3 + need a) (x :: r)))
      with (3 + need x + list_sum (map (fun a => 3 + need a) r)) in Hn.
    destruct n as [|n]; [lia|].
    destruct r as [|y r].
    + cbn [map joint]. rewrite pargs_S' by apply hd_not_rp.
      rewrite (Reads_Inner B x Hx rest n) by (cbn in Hn; lia). reflexivity.
    + change (joint [TComma] (map (ptk B) (x :: y :: r)))
        with (ptk B x ++ [TComma] ++ joint [TComma] (map (ptk B) (y :: r))).
      norm_app.
      rewrite pargs_S' by apply hd_not_rp.
      rewrite (Hx (TComma :: joint [TComma] (map (ptk B) (y :: r)) ++ TRp :: rest)
                  (embed B x, TComma :: joint [TComma] (map (ptk B) (y :: r)) ++ TRp :: rest) 1 n);
        [| reflexivity | intros m Hm; destruct m as [|m]; [lia|reflexivity] | lia].
      cbv beta iota. rewrite (IH rest n) by lia. reflexivity.
Qed.

Lemma reads B e : Reads B e.
Proof.
  induction e using expr_ind'.
  - (* EVar *)
    destruct (str_eqb (sym_name B n) TIME) eqn:E.
    + apply (Reads_atom B _ TSelfT PSelfT); cbn [ptk embed need atom_of]; try rewrite E; reflexivity.
    + apply (Reads_atom B _ (TName (sym_name B n)) (PName (sym_name B n)));
        cbn [ptk embed need atom_of]; try rewrite E; reflexivity.
  - apply (Reads_atom B _ (TName (sym_name B n)) (PName (sym_name B n))); reflexivity.
  - apply (Reads_atom B _ (TNum l v) (PNum l v)); reflexivity.
  - (* EBin *)
    pose proof (Reads_Inner B e1 IHe1) as I1. pose proof (Reads_Inner B e2 IHe2) as I2.
    intros rest res k n Hl Hk Hn. cbn [need] in Hn. cbn [ptk embed] in *.
    norm_app.
    destruct n as [|n]; [lia|]. rewrite pe_S.
    destruct n as [|n]; [lia|]. rewrite pu_S. cbv beta iota.
    rewrite (pa_paren _ _ _ _ n I1) by lia.
    destruct o.
    1-4: cbn [ptr ppow]; rewrite pl_S; cbn [binlvl Nat.leb];
         rewrite (pe_paren_hi _ _ _ rest _ n I2 Hl) by lia; apply Hk; lia.
    (* Pow *)
    cbn [ptr]. rewrite ppow_pow. rewrite (pu_paren _ _ _ rest n I2 Hl) by lia. apply Hk. lia.
  - (* EUn *)
    pose proof (Reads_Inner B e IHe) as I1.
    intros rest res k n Hl Hk Hn. cbn [need] in Hn. cbn [ptk embed] in *.
    norm_app.
    destruct n as [|n]; [lia|]. rewrite pe_S.
    destruct n as [|n]; [lia|]. rewrite pu_S.
    destruct b; cbv beta iota; rewrite (pu_paren _ _ _ rest n I1 Hl) by lia; apply Hk; lia.
  - (* EDer *)
    pose proof (Reads_Inner B e IHe) as I1.
    intros rest res k n Hl Hk Hn. cbn [need] in Hn. cbn [ptk embed] in *.
    norm_app.
    destruct n as [|n]; [lia|]. rewrite pe_S.
    destruct n as [|n]; [lia|]. rewrite pu_S. cbv beta iota.
    rewrite (pa_wrap _ _ _ _ n I1) by lia.
    change (ptr (PWrap (embed B e)) (TDiff :: rest)) with (ptr (PDiff (PWrap (embed B e))) rest).
    rewrite (ptr_loose _ rest Hl), (ppow_loose _ _ rest Hl).
    apply Hk. lia.
  - (* ECall *)
    intros rest res k n Hl Hk Hn. cbn [need] in Hn. cbn [ptk embed] in *.
    norm_app.
    destruct n as [|n]; [lia|]. rewrite pe_S.
    destruct n as [|n]; [lia|]. rewrite pu_S. cbv beta iota.
    destruct n as [|n]; [lia|]. rewrite pa_S. cbv beta iota.
    rewrite (pargs_ok B args H rest n) by lia.
    rewrite (ptr_loose _ rest Hl), (ppow_loose _ _ rest Hl).
    apply Hk. lia.
Qed.

(* whole expression *)
Lemma read_expr B e n : need e + 1 <= n -> pe n 1 (ptk B e) = Some (embed B e, []).
Proof.
  intros Hn. rewrite <- (app_nil_r (ptk B e)).
  apply (reads B e [] _ 1); [reflexivity| |lia].
  intros m Hm. destruct m as [|m]; [lia|reflexivity].
Qed.

(* equation: lhs - (rhs) *)
Definition need_eq (l r : expr) : nat := need l + need r + 10.
Lemma read_eq B l r n :
  need_eq l r <= n ->
  pe n 1 (ptk B l ++ TOp Sub :: TLp :: ptk B r ++ [TRp])
  = Some (PBin Sub (embed B l) (embed B r), []).
Proof.
  unfold need_eq. intros Hn.
  apply (reads B l _ _ (need r + 8)); [reflexivity| |lia].
  intros m Hm. destruct m as [|m]; [lia|]. rewrite pl_S. cbn [binlvl Nat.leb].
  rewrite (pe_paren_hi _ _ _ [] 2 m (Reads_Inner B r (reads B r))) by (try reflexivity; lia).
  destruct m as [|m]; [lia|]. reflexivity.
Qed.

Lemma py_parse_eq B l r n :
  need_eq l r <= n ->
  py_parse n (print_tok_eq B l r) = Some (PBin Sub (embed B l) (embed B r)).
Proof.
  intros Hn. unfold py_parse, print_tok_eq.
  rewrite !strip_app, !strip_print. cbn [strip filter app].
  now rewrite (read_eq B l r n Hn).
Qed.
Lemma py_parse_expr B e n :
  need e + 1 <= n -> py_parse n (print_tok B e) = Some (embed B e).
Proof.
  intros Hn. unfold py_parse. rewrite strip_print. now rewrite (read_expr B e n Hn).
Qed.

(* ------------------------------------------------------------------ 4. meaning *)
Lemma free_embed B e : pdiff_free (embed B e) = der_free e.
Proof.
  induction e using expr_ind'; cbn [embed pdiff_free der_free]; try reflexivity.
  - destruct (str_eqb (sym_name B n) TIME); reflexivity.
  - now rewrite IHe1, IHe2.
  - exact IHe.
  - induction H as [|x r Hx Hr IH]; [reflexivity|]. cbn [map forallb]. now rewrite Hx, IH.
Qed.

Section Meaning.
  Variable powf : dual -> dual -> option dual.
  Variable callf : str -> list dual -> option dual.
  Notation pev := (peval powf callf).
  Notation mev := (m_eval powf callf).

  Lemma var_case B n :
    mem TIME B = false ->
    (str_eqb (sym_name B n) TIME = true /\ str_eqb n TIME = true) \/
    (str_eqb (sym_name B n) TIME = false /\ str_eqb n TIME = false).
  Proof.
    intros HB. destruct (str_eqb (sym_name B n) TIME) eqn:E.
    - left. split; [reflexivity|]. apply str_eqb_eq. apply str_eqb_eq in E.
      now apply (sym_name_time B n HB).
    - right. split; [reflexivity|]. apply str_eqb_neq. apply str_eqb_neq in E.
      intros ->. apply E. now apply (sym_name_time B TIME HB).
  Qed.

  Lemma sem_embed B E e :
    mem TIME B = false -> pev E (embed B e) = mev (pull B E false) e.
  Proof.
    intros HB. induction e using expr_ind'.
    - destruct (var_case B n HB) as [[E1 E2]|[E1 E2]];
        cbn [embed m_eval]; unfold is_time; rewrite E1, E2; reflexivity.
    - reflexivity.
    - reflexivity.
    - cbn [embed peval m_eval]. rewrite IHe1, IHe2. reflexivity.
    - cbn [embed peval m_eval]. rewrite IHe. reflexivity.
    - cbn [embed peval m_eval pdiff_free]. rewrite free_embed, IHe. reflexivity.
    - cbn [embed peval m_eval]. rewrite map_map. f_equal. f_equal.
      apply map_ext_in. intros a Ha. rewrite Forall_forall in H. now apply H.
  Qed.

  Lemma meaning_eq B E l r n :
    mem TIME B = false -> need_eq l r <= n ->
    option_map fst (obind (py_parse n (print_tok_eq B l r)) (pev E))
    = m_eval_eq powf callf (pull B E false) l r.
  Proof.
    intros HB Hn. rewrite (py_parse_eq B l r n Hn). cbn [obind peval].
    rewrite !(sem_embed B E) by exact HB. unfold m_eval_eq.
    destruct (mev (pull B E false) l) as [x|]; [|reflexivity].
    destruct (mev (pull B E false) r) as [y|]; reflexivity.
  Qed.
  Lemma meaning_expr B E e n :
    mem TIME B = false -> need e + 1 <= n ->
    obind (py_parse n (print_tok B e)) (pev E) = mev (pull B E false) e.
  Proof.
    intros HB Hn. rewrite (py_parse_expr B e n Hn). cbn [obind]. now apply sem_embed.
  Qed.
End Meaning.

(* ------------------------------------------------------------------ 5. classification *)
Lemma picks_In p s s0 : In s (picks p s0) <-> s = s0 /\ In p (snd s0).
Proof.
  unfold picks. rewrite in_flat_map. split.
  - intros [q [Hq H]]. destruct (str_eqb q p) eqn:E; [|contradiction].
    apply str_eqb_eq in E. subst q. destruct H as [H|[]]. split; [now symmetry|exact Hq].
  - intros [-> Hp]. exists p. split; [exact Hp|]. rewrite str_eqb_refl. now left.
Qed.
Lemma by_prefix_In p syms s : In s (by_prefix p syms) <-> In s syms /\ In p (snd s).
Proof.
  unfold by_prefix. rewrite in_flat_map. split.
  - intros [s0 [H0 H]]. apply picks_In in H. destruct H as [-> H]. tauto.
  - intros [H1 H2]. exists s. split; [exact H1|]. now apply picks_In.
Qed.

Lemma lists_spec syms s :
  let L := classify syms in
  (In s (l_x L) <-> In s syms /\ In (s_ "state") (snd s)) /\
  (In s (l_u L) <-> In s syms /\ In (s_ "input") (snd s)) /\
  (In s (l_y L) <-> In s syms /\ In (s_ "output") (snd s)) /\
  (In s (l_c L) <-> In s syms /\ In (s_ "constant") (snd s)) /\
  (In s (l_p L) <-> In s syms /\ In (s_ "parameter") (snd s)) /\
  (In s (l_v L) <-> In s syms /\
     (snd s = [] \/ (In (s_ "output") (snd s) /\ in_names s (l_x L) = false))).
Proof.
  cbv zeta. unfold classify. cbn [l_x l_u l_y l_c l_p l_v].
  repeat (split; [apply by_prefix_In|]).
  rewrite in_app_iff, !filter_In, by_prefix_In, negb_true_iff.
  split.
  - intros [[H1 H2]|[[H1 H2] H3]].
    + split; [exact H1|]. left. destruct (snd s); [reflexivity|discriminate].
    + split; [exact H1|]. right. split; assumption.
  - intros [H1 [H2|[H2 H3]]].
    + left. split; [exact H1|]. now rewrite H2.
    + right. repeat split; assumption.
Qed.
