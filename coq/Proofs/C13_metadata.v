(* C13 — proofs about Model/C13_metadata.v *)
From Coq Require Import QArith Qcanon Qabs List Bool ZArith Lia.
From PV Require Import Model.C13_metadata.
Import ListNotations.
Local Open Scope Qc_scope.

(* ---------- linear algebra on [dot] ---------- *)
Lemma dot_ext g h p k : (forall i, g i = h i) -> dot g p k = dot h p k.
Proof. intros E. revert k. induction p as [|x p IH]; intros k; simpl; [reflexivity|]. now rewrite E, IH. Qed.

Lemma dot_zero p k : dot (fun _ => 0) p k = 0.
Proof. revert k. induction p as [|x p IH]; intros k; simpl; [reflexivity|]. rewrite IH. ring. Qed.

Lemma dot_add g h p k : dot (fun i => g i + h i) p k = dot g p k + dot h p k.
Proof. revert k. induction p as [|x p IH]; intros k; simpl; [ring|]. rewrite IH. ring. Qed.

Lemma dot_sub g h p k : dot (fun i => g i - h i) p k = dot g p k - dot h p k.
Proof. revert k. induction p as [|x p IH]; intros k; simpl; [ring|]. rewrite IH. ring. Qed.

Lemma dot_neg g p k : dot (fun i => - g i) p k = - dot g p k.
Proof. revert k. induction p as [|x p IH]; intros k; simpl; [ring|]. rewrite IH. ring. Qed.

Lemma dot_scale c g p k : dot (fun i => c * g i) p k = c * dot g p k.
Proof. revert k. induction p as [|x p IH]; intros k; simpl; [ring|]. rewrite IH. ring. Qed.

(* the Jacobian row of a parameter is a unit vector: A*p picks that parameter *)
Lemma dot_delta j p k :
  dot (fun i => if Nat.eqb i j then 1 else 0) p k = if Nat.leb k j then nth (j - k) p 0 else 0.
Proof.
  revert k. induction p as [|x p IH]; intros k; simpl.
  - destruct (Nat.leb k j); [destruct (j - k)%nat|]; reflexivity.
  - rewrite IH. destruct (Nat.eqb k j) eqn:E.
    + apply Nat.eqb_eq in E. subst k. rewrite Nat.leb_refl, Nat.sub_diag.
      replace (Nat.leb (S j) j) with false by (symmetry; apply Nat.leb_gt; lia). ring.
    + apply Nat.eqb_neq in E. destruct (Nat.leb k j) eqn:L.
      * apply Nat.leb_le in L. replace (Nat.leb (S k) j) with true by (symmetry; apply Nat.leb_le; lia).
        replace (j - k)%nat with (S (j - S k)) by lia. ring.
      * apply Nat.leb_gt in L. replace (Nat.leb (S k) j) with false by (symmetry; apply Nat.leb_gt; lia). ring.
Qed.

(* ---------- parameter-free subexpressions ---------- *)
Lemma pfree_eval e p : pfree e = true -> eval p e = v0 e.
Proof.
  unfold v0. induction e; simpl; intros H; try reflexivity; try discriminate;
    try (apply andb_prop in H; destruct H as [H1 H2]; rewrite (IHe1 H1), (IHe2 H2); reflexivity);
    try (apply andb_prop in H; destruct H as [H H3]; apply andb_prop in H; destruct H as [H1 H2];
         rewrite (IHe1 H1), (IHe2 H2), (IHe3 H3); reflexivity);
    rewrite (IHe H); reflexivity.
Qed.

Lemma pfree_d0 e i : pfree e = true -> d0 e i = 0.
Proof.
  induction e; simpl; intros H; try reflexivity; try discriminate;
    try (apply andb_prop in H; destruct H as [H1 H2]; rewrite (IHe1 H1), (IHe2 H2));
    try (rewrite (IHe H)).
  - ring. - ring. - ring.
  - unfold Qcdiv. ring.
  - ring.
  - destruct n; [reflexivity|ring].
  - apply andb_prop in H; destruct H as [H H3]. apply andb_prop in H; destruct H as [H1 H2].
    rewrite (IHe2 H2), (IHe3 H3). destruct (Qc_eq_bool (v0 e1) 0); reflexivity.
Qed.

Lemma qnz_neq q : qnz q = true -> q <> 0.
Proof.
  unfold qnz. intros H E. subst q. discriminate H.
Qed.

(* ---------- C13_affine_rebuild ---------- *)
Lemma affine_rebuild e p : affine e = true -> safe p e = true -> rebuild e p = eval p e.
Proof.
  unfold rebuild. induction e; simpl; intros HA HS.
  - rewrite dot_zero. unfold v0. simpl. ring.
  - rewrite dot_delta. simpl. rewrite Nat.sub_0_r. unfold v0. simpl. destruct i; ring.
  - apply andb_prop in HA; destruct HA as [A1 A2]. apply andb_prop in HS; destruct HS as [S1 S2].
    rewrite dot_add, <- (IHe1 A1 S1), <- (IHe2 A2 S2). unfold v0. simpl. ring.
  - apply andb_prop in HA; destruct HA as [A1 A2]. apply andb_prop in HS; destruct HS as [S1 S2].
    rewrite dot_sub, <- (IHe1 A1 S1), <- (IHe2 A2 S2). unfold v0. simpl. ring.
  - apply andb_prop in HS; destruct HS as [S1 S2].
    apply orb_prop in HA. destruct HA as [HA|HA]; apply andb_prop in HA; destruct HA as [A1 A2].
    + rewrite (dot_ext _ (fun i => v0 e1 * d0 e2 i)) by (intros i; rewrite (pfree_d0 e1 i A1); ring).
      rewrite dot_scale, (pfree_eval e1 p A1), <- (IHe2 A2 S2). unfold v0. simpl. ring.
    + rewrite (dot_ext _ (fun i => v0 e2 * d0 e1 i)) by (intros i; rewrite (pfree_d0 e2 i A2); ring).
      rewrite dot_scale, (pfree_eval e2 p A2), <- (IHe1 A1 S1). unfold v0. simpl. ring.
  - apply andb_prop in HA; destruct HA as [A1 A2].
    apply andb_prop in HS; destruct HS as [HS S3]. apply andb_prop in HS; destruct HS as [S1 S2].
    apply qnz_neq in S3. rewrite (pfree_eval e2 p A2) in S3 |- *.
    rewrite (dot_ext _ (fun i => / v0 e2 * d0 e1 i)).
    2:{ intros i. rewrite (pfree_d0 e2 i A2). field. exact S3. }
    rewrite dot_scale, <- (IHe1 A1 S1).
    change (v0 (Div e1 e2)) with (v0 e1 / v0 e2). field. exact S3.
  - rewrite dot_neg, <- (IHe HA HS). unfold v0. simpl. ring.
  - assert (PF : pfree (Pow e n) = true) by exact HA.
    rewrite (dot_ext _ (fun _ => 0)) by (intros i; exact (pfree_d0 (Pow e n) i PF)).
    rewrite dot_zero. rewrite <- (pfree_eval (Pow e n) p PF). simpl. ring.
  - assert (PF : pfree (IfB e1 e2 e3) = true) by exact HA.
    rewrite (dot_ext _ (fun _ => 0)) by (intros i; exact (pfree_d0 (IfB e1 e2 e3) i PF)).
    rewrite dot_zero. rewrite <- (pfree_eval (IfB e1 e2 e3) p PF). simpl. ring.
  - assert (PF : pfree (NotB e) = true) by exact HA.
    rewrite dot_zero. rewrite <- (pfree_eval (NotB e) p PF). simpl. ring.
  - assert (PF : pfree (LtB e1 e2) = true) by exact HA.
    rewrite dot_zero. rewrite <- (pfree_eval (LtB e1 e2) p PF). simpl. ring.
Qed.

(* ---------- coercion ---------- *)
Lemma coerce_value t l : well_typed t l = true -> lit_val (coerce t l) = lit_val l.
Proof. destruct t, l; simpl; intros H; try discriminate; try reflexivity; destruct b; reflexivity. Qed.

Lemma coerce_tag_int z : lit_tag (coerce TInt (LInt z)) = GInt.
Proof. reflexivity. Qed.
Lemma coerce_tag_bool t b : t <> TReal -> lit_tag (coerce t (LBool b)) = GBool.
Proof. destruct t; intros H; try reflexivity. now elim H. Qed.
Lemma coerce_tag_real l : lit_tag (coerce TReal l) = GFloat.
Proof. destruct l; reflexivity. Qed.

(* ---------- structure lemmas ---------- *)
Lemma nth_repeat_ {A} (x d : A) n k : (k < n)%nat -> nth k (repeat_ x n) d = x.
Proof. revert k. induction n; intros k H; [lia|]. destruct k; simpl; [reflexivity|]. apply IHn. lia. Qed.

Lemma length_repeat_ {A} (x : A) n : length (repeat_ x n) = n.
Proof. induction n; simpl; congruence. Qed.

Lemma map_const_seq {A} (x : A) s n : map (fun _ => x) (seq s n) = repeat_ x n.
Proof. revert s. induction n; intros s; simpl; [reflexivity|]. now rewrite IHn. Qed.

Lemma all_some_map_spec {A B C} (f : A -> option B) (g : B -> C) (h : A -> C) l :
  (forall x, In x l -> exists y, f x = Some y /\ g y = h x) ->
  exists ys, all_some (map f l) = Some ys /\ map g ys = map h l.
Proof.
  induction l as [|x l IH]; intros H; simpl.
  - exists []. split; reflexivity.
  - destruct (H x (or_introl eq_refl)) as [y [Fy Gy]].
    destruct IH as [ys [E1 E2]]. { intros x' Hx'. apply H. now right. }
    rewrite Fy, E1. exists (y :: ys). split; [reflexivity|]. simpl. now rewrite Gy, E2.
Qed.

Lemma map3_ext_forall {A B} (f : A -> bool) (g h : A -> B) m :
  forall3 f m = true -> (forall x, f x = true -> g x = h x) ->
  map (map (map g)) m = map (map (map h)) m.
Proof.
  intros F E. unfold forall3 in F.
  apply map_ext_in. intros l2 H2. apply map_ext_in. intros l1 H1. apply map_ext_in. intros x Hx.
  apply E. rewrite forallb_forall in F. specialize (F l2 H2). rewrite forallb_forall in F.
  specialize (F l1 H1). rewrite forallb_forall in F. exact (F x Hx).
Qed.

Lemma forall3_and {A} (f g : A -> bool) m :
  forall3 f m = true -> forall3 g m = true -> forall3 (fun x => f x && g x) m = true.
Proof.
  unfold forall3. intros F G.
  apply forallb_forall. intros l2 H2. apply forallb_forall. intros l1 H1. apply forallb_forall. intros x Hx.
  rewrite forallb_forall in F, G. specialize (F l2 H2). specialize (G l2 H2).
  rewrite forallb_forall in F, G. specialize (F l1 H1). specialize (G l1 H1).
  rewrite forallb_forall in F, G. now rewrite (F x Hx), (G x Hx).
Qed.

(* ---------- vector-valued expressions ---------- *)
Lemma map_zipw {A B} (f : A -> B) (g : A -> A -> A) (h : B -> B -> B) l m :
  (forall x y, f (g x y) = h (f x) (f y)) -> map f (zipw g l m) = zipw h (map f l) (map f m).
Proof.
  intros H. revert m. induction l as [|x l IH]; intros [|y m]; simpl; try reflexivity.
  now rewrite H, IH.
Qed.

Lemma map_repeat_ {A B} (f : A -> B) x n : map f (repeat_ x n) = repeat_ (f x) n.
Proof. induction n; simpl; congruence. Qed.

(* the element expressions evaluate to the vector value, entry by entry *)
Lemma velems_eval p v : map (eval p) (velems v) = veval p v.
Proof.
  induction v; simpl.
  - reflexivity.
  - apply map_repeat_.
  - rewrite map_map, <- IHv, map_map. reflexivity.
  - rewrite map_map, <- IHv, map_map. reflexivity.
  - rewrite <- IHv1, <- IHv2. apply map_zipw. reflexivity.
Qed.

Lemma velems_length p v : length (veval p v) = length (velems v).
Proof. now rewrite <- velems_eval, map_length. Qed.

(* ---------- one column ---------- *)
Lemma spec_default_ok a : fst (default a) = spec_default a.
Proof. destruct a; reflexivity. Qed.

Lemma column_spec p v a :
  decl_wf v a = true ->
  exists col, column v a = Some col /\
    forall k, (k < vsize v)%nat -> cell_val false p (nth k col (CLit NaN)) = spec_entry p v a k.
Proof.
  unfold decl_wf, column, eff_decl, spec_entry. destruct (vdecl v a) as [|l|e|es|v0|v0 k] eqn:D; intros W.
  - destruct (ast_default a) as [l|] eqn:AD.
    + destruct a; try discriminate AD. injection AD as <-.
      eexists. split; [reflexivity|]. intros k Hk. rewrite nth_repeat_ by exact Hk.
      destruct (vt v); reflexivity.
    + eexists. split; [reflexivity|]. intros k Hk. rewrite nth_repeat_ by exact Hk.
      simpl. apply spec_default_ok.
  - eexists. split; [reflexivity|]. intros k Hk. rewrite nth_repeat_ by exact Hk.
    simpl. now rewrite coerce_value.
  - eexists. split; [reflexivity|]. intros k Hk. now rewrite nth_repeat_ by exact Hk.
  - rewrite W. eexists. split; [reflexivity|]. intros k Hk.
    apply Nat.eqb_eq in W. rewrite <- W in Hk.
    destruct (nth_error es k) as [el|] eqn:N.
    + rewrite (nth_indep _ _ (elem_cell el)) by (now rewrite map_length).
      rewrite map_nth. rewrite (nth_error_nth _ _ _ N). destruct el; reflexivity.
    + apply nth_error_None in N. lia.
  - rewrite W. eexists. split; [reflexivity|]. intros k Hk.
    apply Nat.eqb_eq in W. rewrite <- W in Hk.
    rewrite <- velems_eval, nth_error_map.
    destruct (nth_error (velems v0) k) as [e|] eqn:N.
    + rewrite (nth_indep _ _ (CExp e)) by (now rewrite map_length).
      rewrite map_nth, (nth_error_nth _ _ _ N). reflexivity.
    + apply nth_error_None in N. lia.
  - apply Nat.ltb_lt in W. rewrite <- velems_eval, nth_error_map.
    destruct (nth_error (velems v0) k) as [e|] eqn:N.
    + eexists. split; [reflexivity|]. intros j Hj. now rewrite nth_repeat_ by exact Hj.
    + apply nth_error_None in N. lia.
Qed.

Lemma var_rows_spec p v :
  var_wf v = true ->
  exists rows, var_rows v = Some rows /\ map (map (cell_val false p)) rows = spec_rows p v.
Proof.
  unfold var_wf, var_rows, spec_rows, attr_order. simpl. intros W.
  repeat (apply andb_prop in W; let W1 := fresh "W" in destruct W as [W1 W]).
  destruct (column_spec p v AValue W0) as [c1 [E1 K1]].
  destruct (column_spec p v AMin W1) as [c2 [E2 K2]].
  destruct (column_spec p v AMax W2) as [c3 [E3 K3]].
  destruct (column_spec p v AStart W3) as [c4 [E4 K4]].
  destruct (column_spec p v AFixed W4) as [c5 [E5 K5]].
  destruct (column_spec p v ANominal W5) as [c6 [E6 K6]].
  rewrite E1, E2, E3, E4, E5, E6. eexists. split; [reflexivity|].
  rewrite map_map. apply map_ext_in. intros k Hk. apply in_seq in Hk. simpl.
  rewrite K1, K2, K3, K4, K5, K6 by lia. reflexivity.
Qed.

Lemma cat_rows_spec p vs :
  forallb var_wf vs = true ->
  exists rows, cat_rows vs = Some rows /\
    map (map (cell_val false p)) rows = concat (map (spec_rows p) vs).
Proof.
  intros W. unfold cat_rows.
  destruct (all_some_map_spec var_rows (map (map (cell_val false p))) (spec_rows p) vs) as [ys [E1 E2]].
  { intros v Hv. apply var_rows_spec. rewrite forallb_forall in W. now apply W. }
  rewrite E1. eexists. split; [reflexivity|]. now rewrite concat_map, E2.
Qed.

Lemma direct_spec p M :
  model_wf M = true -> metadata false M p = Some (spec_metadata p M).
Proof.
  intros W. unfold metadata, cells, spec_metadata.
  destruct (all_some_map_spec cat_rows (map (map (cell_val false p)))
              (fun vs => concat (map (spec_rows p) vs)) M) as [ys [E1 E2]].
  { intros vs Hvs. apply cat_rows_spec. unfold model_wf in W. rewrite forallb_forall in W. now apply W. }
  rewrite E1. now rewrite E2.
Qed.

Lemma cell_val_rb p c :
  cell_affine c && cell_safe p c = true -> cell_val true p c = cell_val false p c.
Proof.
  destruct c as [x|e]; simpl; [reflexivity|]. intros H. apply andb_prop in H. destruct H as [A S].
  now rewrite affine_rebuild.
Qed.

(* ---------- C13_values ---------- *)
Lemma metadata_spec rb M p :
  model_wf M = true -> safe_ok p M = true -> (rb = true -> affine_ok M = true) ->
  metadata rb M p = Some (spec_metadata p M).
Proof.
  intros W S A. rewrite <- (direct_spec p M W). destruct rb; [|reflexivity].
  specialize (A eq_refl). unfold metadata, affine_ok, safe_ok in *.
  destruct (cells M) as [cs|]; [|discriminate]. f_equal.
  apply (map3_ext_forall (fun c => cell_affine c && cell_safe p c)).
  - now apply forall3_and.
  - intros c. apply cell_val_rb.
Qed.

Lemma var_attrs_spec M p : model_wf M = true -> var_attrs M p = Some (spec_metadata p M).
Proof. apply direct_spec. Qed.

(* ---------- C13_defaults ---------- *)
Definition default_row : list ext := [NaN; NegInf; PosInf; Fin 0; Fin 0; Fin 0].

Lemma defaults_rows t n p rb :
  metadata rb [[Var t n (fun _ => DNone)]] p = Some [repeat_ default_row n].
Proof.
  unfold metadata, cells. simpl. unfold cat_rows. simpl. unfold var_rows. simpl.
  unfold column, eff_decl. simpl. rewrite app_nil_r. f_equal. f_equal.
  rewrite map_map. rewrite <- (map_const_seq default_row 0 n).
  apply map_ext_in. intros k Hk. apply in_seq in Hk. simpl.
  rewrite !nth_repeat_ by lia. simpl. destruct t; reflexivity.
Qed.

(* ---------- type tags ---------- *)
Lemma attr_tag_literal v a l :
  vdecl v a = DLit l -> attr_tag v a = lit_tag (coerce (vt v) l).
Proof. unfold attr_tag, eff_decl. now intros ->. Qed.

(* ---------- substitution (_substitute_metadata) ---------- *)
Lemma subst_eval sg e p : eval p (subst sg e) = eval (map (eval p) sg) e.
Proof.
  induction e; simpl;
    repeat match goal with H : eval _ (subst _ _) = _ |- _ => rewrite H; clear H end; try reflexivity.
  rewrite <- (map_nth (eval p) sg (Cst 0) i). reflexivity.
Qed.

Lemma vsubst_veval sg v p : veval p (vsubst sg v) = veval (map (eval p) sg) v.
Proof.
  induction v; simpl; try congruence.
  - rewrite map_map. apply map_ext. intros e. apply subst_eval.
  - now rewrite subst_eval.
Qed.

Lemma is_int_trunc q :
  is_int q = true -> qZ (Z.quot (Qnum (this q)) (Zpos (Qden (this q)))) = q.
Proof.
  unfold is_int. intros H. apply Pos.eqb_eq in H. destruct q as [[n d] c]. simpl in *. subst d.
  rewrite Z.quot_1_r. apply Qc_is_canon. change (Qred (inject_Z n) == n # 1). apply Qred_correct.
Qed.

Lemma spec_entry_subst p sg v a k :
  int_ok sg v a = true ->
  spec_entry p (subst_var sg v) a k = spec_entry (map (eval p) sg) v a k.
Proof.
  unfold spec_entry, int_ok. simpl. destruct (vdecl v a) as [|l|e|es|w|w j] eqn:D; simpl; intros H;
    try reflexivity.
  - destruct (pfree e) eqn:PF; simpl.
    + now rewrite !(pfree_eval e _ PF).
    + destruct (pfree (subst sg e)) eqn:PF'; simpl in *.
      * destruct (vt v); simpl.
        -- now rewrite <- subst_eval, (pfree_eval _ p PF').
        -- rewrite (is_int_trunc _ H). now rewrite <- subst_eval, (pfree_eval _ p PF').
        -- now rewrite subst_eval.
      * now rewrite subst_eval.
  - rewrite nth_error_map. destruct (nth_error es k) as [[l|e]|]; simpl; try reflexivity.
    now rewrite subst_eval.
  - now rewrite vsubst_veval.
  - now rewrite vsubst_veval.
Qed.

Lemma spec_rows_subst p sg v :
  forallb (int_ok sg v) attr_order = true ->
  spec_rows p (subst_var sg v) = spec_rows (map (eval p) sg) v.
Proof.
  unfold spec_rows, attr_order. simpl. intros H.
  repeat (apply andb_prop in H; let H1 := fresh "I" in destruct H as [H1 H]).
  apply map_ext. intros k. now rewrite !spec_entry_subst.
Qed.

Lemma spec_subst p sg M :
  subst_ok sg M = true ->
  spec_metadata p (apply_subst sg M) = spec_metadata (map (eval p) sg) M.
Proof.
  unfold spec_metadata, apply_subst, subst_ok. intros H. rewrite map_map.
  apply map_ext_in. intros vs Hvs. rewrite map_map. f_equal. apply map_ext_in. intros v Hv.
  apply spec_rows_subst. rewrite forallb_forall in H. specialize (H vs Hvs).
  rewrite forallb_forall in H. exact (H v Hv).
Qed.

Lemma spec_run steps : forall M p,
  steps_ok steps M = true ->
  spec_metadata p (run steps M) = spec_metadata (env_back steps p) M.
Proof.
  induction steps as [|sg r IH]; intros M p H; simpl in *; [reflexivity|].
  apply andb_prop in H. destruct H as [H1 H2].
  rewrite (IH _ _ H2). now apply spec_subst.
Qed.

(* C13_values after any sequence of parameter-eliminating simplify steps *)
Lemma metadata_steps rb steps M p :
  steps_ok steps M = true ->
  model_wf (run steps M) = true -> safe_ok p (run steps M) = true ->
  (rb = true -> affine_ok (run steps M) = true) ->
  metadata rb (run steps M) p = Some (spec_metadata (env_back steps p) M).
Proof.
  intros S W F A. rewrite (metadata_spec rb _ p W F A). now rewrite spec_run.
Qed.
