(* C22 — proofs about Model/C22_delay.v *)
From Coq Require Import ZArith List Bool Arith Lia.
From PV Require Import Model.C22_delay.
Import ListNotations.

(* ---- categories, in the property's words ---- *)
Definition declared (m : model) (v : nat) (k : vkind) : Prop :=
  exists d, In d (m_decls m) /\ d_id d = v /\ d_kind d = k.
Definition is_state (m : model) (v : nat) : Prop := declared m v KPlain /\ In v (der_refs m).
Definition is_alg (m : model) (v : nat) : Prop := declared m v KPlain /\ ~ In v (der_refs m).
Definition is_input (m : model) (v : nat) (f : bool) : Prop := declared m v (KInput f).
Definition is_delay_input (m : model) (v : nat) : Prop := In v (delay_states m).

(* time, a state, a derivative, an algebraic variable, a non-fixed input (delayed-state inputs included) *)
Definition bad_sym (m : model) (s : sym) : Prop :=
  s = STime \/
  (exists v, s = SVar v /\ (is_state m v \/ is_alg m v \/ is_input m v false \/ is_delay_input m v)) \/
  (exists v, s = SDer v /\ is_state m v).

(* a constant, a parameter or a fixed input *)
Definition good_sym (m : model) (s : sym) : Prop :=
  exists v, s = SVar v /\ (declared m v KConst \/ declared m v KParam \/ is_input m v true).

(* ---- boolean reflection ---- *)
Lemma sym_eqb_eq a b : sym_eqb a b = true <-> a = b.
Proof.
  destruct a, b; simpl; split; intro H; try discriminate; try reflexivity;
    try (apply Nat.eqb_eq in H; subst; reflexivity);
    try (inversion H; subst; apply Nat.eqb_refl).
Qed.

Lemma mem_sym_In s l : mem_sym s l = true <-> In s l.
Proof.
  unfold mem_sym. rewrite existsb_exists. split.
  - intros [x [Hx He]]. apply sym_eqb_eq in He. subst. exact Hx.
  - intro H. exists s. split; [exact H | apply sym_eqb_eq; reflexivity].
Qed.

Lemma mem_nat_In n l : mem_nat n l = true <-> In n l.
Proof.
  unfold mem_nat. rewrite existsb_exists. split.
  - intros [x [Hx He]]. apply Nat.eqb_eq in He. subst. exact Hx.
  - intro H. exists n. split; [exact H | apply Nat.eqb_refl].
Qed.

Lemma forallb_false_iff {A} (f : A -> bool) l :
  forallb f l = false <-> exists x, In x l /\ f x = false.
Proof.
  induction l as [|a l IH]; simpl.
  - split; [discriminate | intros [x [[] _]]].
  - rewrite andb_false_iff, IH. split.
    + intros [H | [x [Hx Hf]]]; [exists a; auto | exists x; auto].
    + intros [x [[<- | Hx] Hf]]; [left; exact Hf | right; exists x; auto].
Qed.

(* ---- the model lists are the categories ---- *)
Lemma is_plain_iff d : is_plain d = true <-> d_kind d = KPlain.
Proof. unfold is_plain. destruct (d_kind d); split; intro H; try discriminate; reflexivity. Qed.

Lemma in_states m v : In v (states m) <-> is_state m v.
Proof.
  unfold states, is_state, declared. rewrite in_map_iff. split.
  - intros [d [Hid Hf]]. apply filter_In in Hf. destruct Hf as [Hd Hb].
    apply andb_true_iff in Hb. destruct Hb as [Hp Hm].
    apply is_plain_iff in Hp. apply mem_nat_In in Hm. rewrite Hid in Hm.
    split; [exists d; auto | exact Hm].
  - intros [[d [Hd [Hid Hk]]] Hr]. exists d. split; [exact Hid|].
    apply filter_In. split; [exact Hd|]. apply andb_true_iff. split.
    + apply is_plain_iff; exact Hk.
    + apply mem_nat_In. rewrite Hid. exact Hr.
Qed.

Lemma in_alg m v : In v (alg_states m) <-> is_alg m v.
Proof.
  unfold alg_states, is_alg, declared. rewrite in_map_iff. split.
  - intros [d [Hid Hf]]. apply filter_In in Hf. destruct Hf as [Hd Hb].
    apply andb_true_iff in Hb. destruct Hb as [Hp Hm].
    apply is_plain_iff in Hp. apply negb_true_iff in Hm. rewrite Hid in Hm.
    split; [exists d; auto|]. intro Hr. apply mem_nat_In in Hr. congruence.
  - intros [[d [Hd [Hid Hk]]] Hr]. exists d. split; [exact Hid|].
    apply filter_In. split; [exact Hd|]. apply andb_true_iff. split.
    + apply is_plain_iff; exact Hk.
    + apply negb_true_iff. destruct (mem_nat (d_id d) (der_refs m)) eqn:E; [|reflexivity].
      apply mem_nat_In in E. rewrite Hid in E. contradiction.
Qed.

Lemma in_inputs m v f :
  In (v, f) (inputs m) <-> (is_delay_input m v /\ f = false) \/ is_input m v f.
Proof.
  unfold inputs, is_delay_input, is_input, declared.
  rewrite in_app_iff, in_map_iff, in_flat_map. split.
  - intros [[x [Hx Hi]] | [d [Hd Hi]]].
    + inversion Hx; subst. left; auto.
    + right. exists d. destruct (d_kind d) eqn:E; simpl in Hi; try contradiction.
      destruct Hi as [Hi|[]]. inversion Hi; subst. auto.
  - intros [[Hi ->] | [d [Hd [Hid Hk]]]].
    + left. exists v. auto.
    + right. exists d. split; [exact Hd|]. rewrite Hk. simpl. left. rewrite Hid. reflexivity.
Qed.

Lemma disallowed_bad m s : In s (disallowed m) <-> bad_sym m s.
Proof.
  unfold disallowed, bad_sym.
  repeat rewrite in_app_iff. repeat rewrite in_map_iff. simpl. split.
  - intros [[H | []] | [[v [<- Hv]] | [[v [<- Hv]] | [[v [<- Hv]] | [[v f] [<- Hx]]]]]].
    + left; auto.
    + right; left. exists v. split; [reflexivity|]. left. apply in_states; exact Hv.
    + right; right. exists v. split; [reflexivity|]. apply in_states; exact Hv.
    + right; left. exists v. split; [reflexivity|]. right; left. apply in_alg; exact Hv.
    + apply filter_In in Hx. destruct Hx as [Hx Hf]. simpl in Hf. apply negb_true_iff in Hf. subst f.
      apply in_inputs in Hx. right; left. exists v. split; [reflexivity|].
      destruct Hx as [[Hx _] | Hx]; [right; right; right; exact Hx | right; right; left; exact Hx].
  - intros [-> | [[v [-> [H | [H | [H | H]]]]] | [v [-> H]]]].
    + left; left; reflexivity.
    + right; left. exists v. split; [reflexivity | apply in_states; exact H].
    + right; right; right; left. exists v. split; [reflexivity | apply in_alg; exact H].
    + right; right; right; right. exists (v, false). split; [reflexivity|].
      apply filter_In. split; [apply in_inputs; right; exact H | reflexivity].
    + right; right; right; right. exists (v, false). split; [reflexivity|].
      apply filter_In. split; [apply in_inputs; left; auto | reflexivity].
    + right; right; left. exists v. split; [reflexivity | apply in_states; exact H].
Qed.

(* ---- the decision ---- *)
Lemma accepts_false_iff m :
  accepts m = false <->
  exists r s, In r (delays m) /\ In s (deps (dr_dur r)) /\ In s (disallowed m).
Proof.
  unfold accepts, delay_states. destruct (delays m) as [|r0 l] eqn:E.
  - simpl. split; [discriminate | intros [r [s [[] _]]]].
  - simpl length. simpl seq. simpl map. cbv iota. rewrite forallb_false_iff. split.
    + intros [r [Hr Hd]]. unfold dur_ok in Hd. apply negb_false_iff in Hd.
      apply existsb_exists in Hd. destruct Hd as [s [Hs Hm]]. apply mem_sym_In in Hm.
      exists r, s. auto.
    + intros [r [s [Hr [Hs Hd]]]]. exists r. split; [exact Hr|].
      unfold dur_ok. apply negb_false_iff. apply existsb_exists. exists s.
      split; [exact Hs | apply mem_sym_In; exact Hd].
Qed.

Theorem decision_main m :
  accepts m = false <->
  exists r s, In r (delays m) /\ In s (deps (dr_dur r)) /\ bad_sym m s.
Proof.
  rewrite accepts_false_iff. split; intros [r [s [Hr [Hs Hb]]]]; exists r, s;
    (split; [exact Hr | split; [exact Hs | apply disallowed_bad; exact Hb]]).
Qed.

Lemma accepts_true_iff m :
  accepts m = true <->
  forall r s, In r (delays m) -> In s (deps (dr_dur r)) -> ~ bad_sym m s.
Proof.
  split.
  - intros Ha r s Hr Hs Hb.
    assert (accepts m = false) by (apply decision_main; exists r, s; auto). congruence.
  - intro H. destruct (accepts m) eqn:E; [reflexivity|].
    apply decision_main in E. destruct E as [r [s [Hr [Hs Hb]]]]. exfalso. exact (H r s Hr Hs Hb).
Qed.

(* well-formedness of the input: distinct declaration ids below the delayed-state id range; durations
   only mention declared variables / delayed-state inputs, der() only of states *)
Definition scoped (m : model) (s : sym) : Prop :=
  match s with
  | SVar v => (exists k, declared m v k) \/ is_delay_input m v
  | SDer v => is_state m v
  | SLoop v => exists k, declared m v k
  | _ => True
  end.

Definition wf (m : model) : Prop :=
  NoDup (map d_id (m_decls m)) /\
  (forall d, In d (m_decls m) -> d_id d < m_base m) /\
  (forall r s, In r (delays m) -> In s (deps (dr_dur r)) -> scoped m s).

Lemma decl_unique m d1 d2 :
  NoDup (map d_id (m_decls m)) -> In d1 (m_decls m) -> In d2 (m_decls m) -> d_id d1 = d_id d2 -> d1 = d2.
Proof.
  induction (m_decls m) as [|a l IH]; simpl; intros Hn H1 H2 He; [contradiction|].
  inversion Hn as [|? ? Hna Hnl]; subst.
  destruct H1 as [<- | H1], H2 as [<- | H2]; auto.
  - exfalso. apply Hna. rewrite He. apply in_map. exact H2.
  - exfalso. apply Hna. rewrite <- He. apply in_map. exact H1.
Qed.

Lemma declared_unique m v k1 k2 :
  NoDup (map d_id (m_decls m)) -> declared m v k1 -> declared m v k2 -> k1 = k2.
Proof.
  intros Hn [d1 [H1 [I1 K1]]] [d2 [H2 [I2 K2]]].
  assert (d1 = d2) by (apply (decl_unique m); auto; congruence). subst. congruence.
Qed.

Lemma find_declared m v d :
  find (fun d => Nat.eqb (d_id d) v) (m_decls m) = Some d -> declared m v (d_kind d).
Proof.
  intro H. apply find_some in H. destruct H as [Hi He]. apply Nat.eqb_eq in He. exists d. auto.
Qed.

Lemma delay_input_ge m v : is_delay_input m v -> m_base m <= v.
Proof.
  unfold is_delay_input, delay_states. rewrite in_map_iff. intros [k [<- _]]. apply Nat.le_add_r.
Qed.

Lemma declared_lt m v k : (forall d, In d (m_decls m) -> d_id d < m_base m) -> declared m v k -> v < m_base m.
Proof. intros H [d [Hd [<- _]]]. apply H; exact Hd. Qed.

(* exactly one side: a scoped symbol is bad, or good, or a loop placeholder *)
Lemma not_bad_iff m s :
  NoDup (map d_id (m_decls m)) -> (forall d, In d (m_decls m) -> d_id d < m_base m) -> scoped m s ->
  (~ bad_sym m s <-> good_sym m s \/ is_loop_sym s = true).
Proof.
  intros Hn Hlt Hsc. split.
  - intro Hnb. destruct s as [|v|v|v|]; simpl in *.
    + exfalso. apply Hnb. left; reflexivity.
    + destruct Hsc as [[k Hk] | Hd].
      * destruct k as [| |f|].
        -- left. exists v. auto.
        -- left. exists v. auto.
        -- destruct f.
           ++ left. exists v. split; [reflexivity|]. right; right. exact Hk.
           ++ exfalso. apply Hnb. right; left. exists v. split; [reflexivity|]. right; right; left. exact Hk.
        -- exfalso. apply Hnb. right; left. exists v. split; [reflexivity|].
           destruct (in_dec Nat.eq_dec v (der_refs m)).
           ++ left. split; assumption.
           ++ right; left. split; assumption.
      * exfalso. apply Hnb. right; left. exists v. split; [reflexivity|]. right; right; right. exact Hd.
    + exfalso. apply Hnb. right; right. exists v. auto.
    + right; reflexivity.
    + right; reflexivity.
  - intros [[v [-> Hg]] | Hl] Hb.
    + destruct Hb as [Hb | [[w [Hw Hb]] | [w [Hw _]]]]; try discriminate.
      inversion Hw; subst w.
      assert (Hk : exists k, declared m v k /\ k <> KPlain /\ k <> KInput false).
      { destruct Hg as [H | [H | H]]; eexists; (split; [exact H | split; discriminate]). }
      destruct Hk as [k [Hk [N1 N2]]].
      destruct Hb as [[H _] | [[H _] | [H | H]]].
      * apply N1. exact (declared_unique m v _ _ Hn Hk H).
      * apply N1. exact (declared_unique m v _ _ Hn Hk H).
      * apply N2. exact (declared_unique m v _ _ Hn Hk H).
      * apply delay_input_ge in H. apply (declared_lt m v k Hlt) in Hk.
        exact (Nat.lt_irrefl _ (Nat.lt_le_trans _ _ _ Hk H)).
    + destruct Hb as [-> | [[w [-> _]] | [w [-> _]]]]; discriminate.
Qed.

Theorem accept_main m :
  wf m ->
  (accepts m = true <->
   forall r s, In r (delays m) -> In s (deps (dr_dur r)) -> good_sym m s \/ is_loop_sym s = true).
Proof.
  intros [Hn [Hlt Hsc]]. rewrite accepts_true_iff. split; intros H r s Hr Hs.
  - apply (not_bad_iff m s Hn Hlt (Hsc r s Hr Hs)). exact (H r s Hr Hs).
  - apply (not_bad_iff m s Hn Hlt (Hsc r s Hr Hs)). exact (H r s Hr Hs).
Qed.

(* the carving hypothesis of the known findings: no duration mentions a loop placeholder *)
Definition no_loop_dep (m : model) : Prop :=
  forall r s, In r (delays m) -> In s (deps (dr_dur r)) -> is_loop_sym s = false.

Theorem accept_carved m :
  wf m -> no_loop_dep m ->
  (accepts m = true <-> forall r s, In r (delays m) -> In s (deps (dr_dur r)) -> good_sym m s).
Proof.
  intros Hw Hc. rewrite (accept_main m Hw). split; intros H r s Hr Hs.
  - destruct (H r s Hr Hs) as [Hg | Hl]; [exact Hg|]. rewrite (Hc r s Hr Hs) in Hl. discriminate.
  - left. exact (H r s Hr Hs).
Qed.

(* ---- semantics: folding preserves the value; the value only depends on the occurring symbols ---- *)
Lemma norm_eval en i e : eval en i (norm e) = eval en i e.
Proof.
  induction e; simpl; try reflexivity.
  - rewrite <- IHe1, <- IHe2. destruct (norm e1), (norm e2); simpl; reflexivity.
  - rewrite <- IHe1, <- IHe2. destruct (norm e1), (norm e2); simpl; reflexivity.
  - rewrite <- IHe1, <- IHe2.
    destruct (norm e1), (norm e2); simpl; try reflexivity;
      match goal with |- context [Z.eqb ?x 0] => destruct (Z.eqb_spec x 0); subst; simpl; ring end.
  - rewrite <- IHe. destruct (norm e); simpl; reflexivity.
  - rewrite IHe1, IHe2, IHe3, IHe4. reflexivity.
  - rewrite IHe. reflexivity.
  - rewrite IHe1, IHe2. reflexivity.
  - rewrite IHe1, IHe2. reflexivity.
Qed.

Definition agree_on (en1 en2 : envd) (s : sym) : Prop :=
  match s with
  | STime => e_time en1 = e_time en2
  | SVar v | SLoop v => forall k, var_at en1 v k = var_at en2 v k
  | SDer v => der_at en1 v = der_at en2 v
  | SIndex => True
  end.

Lemma eval_ext en1 en2 i e :
  (forall s, In s (fsyms e) -> agree_on en1 en2 s) -> eval en1 i e = eval en2 i e.
Proof.
  induction e; simpl; intro H; try reflexivity;
    try (rewrite IHe1, IHe2; [reflexivity | | ]; intros s Hs; apply H; apply in_or_app; auto).
  - specialize (H s (or_introl eq_refl)). destruct s; simpl in *; auto.
  - exact (H (SVar v) (or_introl eq_refl) k).
  - rewrite IHe; [reflexivity | exact H].
  - rewrite IHe1, IHe2, IHe3, IHe4; [reflexivity | | | |]; intros s Hs; apply H;
      repeat rewrite in_app_iff; auto.
  - rewrite IHe; [reflexivity | exact H].
Qed.

Theorem accept_semantic m r en1 en2 i :
  accepts m = true -> In r (delays m) ->
  (forall s, ~ bad_sym m s -> agree_on en1 en2 s) ->
  eval en1 i (dr_dur r) = eval en2 i (dr_dur r).
Proof.
  intros Ha Hr Hag. rewrite <- (norm_eval en1), <- (norm_eval en2).
  apply eval_ext. intros s Hs. apply Hag.
  exact (proj1 (accepts_true_iff m) Ha r s Hr Hs).
Qed.

(* ---- delay_arguments_function ---- *)
Lemma outputs_nth en l k r :
  nth_error l k = Some r ->
  let o := flat_map (fun r => [expr_entry en r; [eval en 0 (dr_dur r)]]) l in
  nth_error o (2 * k) = Some (expr_entry en r) /\ nth_error o (2 * k + 1) = Some [eval en 0 (dr_dur r)].
Proof.
  revert k. induction l as [|a l IH]; intros k Hk; [destruct k; discriminate|].
  destruct k as [|k]; simpl in Hk.
  - inversion Hk; subst. simpl. auto.
  - replace (2 * S k) with (S (S (2 * k))) by lia. replace (S (S (2 * k)) + 1) with (S (S (2 * k + 1))) by lia.
    simpl flat_map. cbn [app nth_error]. exact (IH k Hk).
Qed.

Lemma outputs_length en l :
  length (flat_map (fun r => [expr_entry en r; [eval en 0 (dr_dur r)]]) l) = 2 * length l.
Proof. induction l; simpl; [reflexivity | rewrite IHl; lia]. Qed.

Lemma expr_entry_shape en r :
  (indexed r = false -> expr_entry en r = [eval en 0 (dr_expr r)]) /\
  (forall lo hi, indexed r = true -> dr_loop r = Some (lo, hi) ->
     length (expr_entry en r) = S hi - lo /\
     forall j, j < S hi - lo -> nth_error (expr_entry en r) j = Some (eval en (lo + j) (dr_expr r))).
Proof.
  unfold expr_entry. split.
  - intro H. destruct (dr_loop r) as [[lo hi]|]; [rewrite H|]; reflexivity.
  - intros lo hi H E. rewrite E, H. rewrite map_length, seq_length. split; [reflexivity|].
    intros j Hj. rewrite nth_error_map.
    replace (nth_error (seq lo (S hi - lo)) j) with (Some (lo + j)); [reflexivity|].
    symmetry. rewrite nth_error_nth' with (d := 0) by (rewrite seq_length; exact Hj).
    rewrite seq_nth by exact Hj. reflexivity.
Qed.

Theorem arguments_main m pts :
  gen_ok m = true -> accepts m = true -> func_ok m = true ->
  outcome m pts = OAcc (map (outputs m) pts) /\
  (forall en, length (outputs m en) = 2 * length (delays m)) /\
  (forall en k r, nth_error (delays m) k = Some r ->
     nth_error (outputs m en) (2 * k) = Some (expr_entry en r) /\
     nth_error (outputs m en) (2 * k + 1) = Some [eval en 0 (dr_dur r)] /\
     (indexed r = false -> expr_entry en r = [eval en 0 (dr_expr r)]) /\
     (forall lo hi, indexed r = true -> dr_loop r = Some (lo, hi) ->
        length (expr_entry en r) = S hi - lo /\
        forall j, j < S hi - lo -> nth_error (expr_entry en r) j = Some (eval en (lo + j) (dr_expr r)))).
Proof.
  intros Hg Ha Hf. split; [|split].
  - unfold outcome. rewrite Hg, Ha, Hf. reflexivity.
  - intro en. apply outputs_length.
  - intros en k r Hk. destruct (outputs_nth en (delays m) k r Hk) as [H1 H2].
    destruct (expr_entry_shape en r) as [H3 H4]. unfold outputs. auto.
Qed.

(* the function cannot be built exactly when a placeholder is left in an output *)
Lemma func_fail_iff m :
  func_ok m = false <->
  exists r, In r (delays m) /\
    ((exists s, In s (deps (dr_dur r)) /\ is_loop_sym s = true) \/
     (indexed r = false /\ exists s, In s (deps (dr_expr r)) /\ is_loop_sym s = true)).
Proof.
  unfold func_ok. rewrite forallb_false_iff. split.
  - intros [r [Hr Hc]]. exists r. split; [exact Hr|]. unfold rec_closed in Hc.
    apply andb_false_iff in Hc. destruct Hc as [Hc | Hc].
    + left. apply negb_false_iff, existsb_exists in Hc. exact Hc.
    + right. apply orb_false_iff in Hc. destruct Hc as [Hi Hc]. split; [exact Hi|].
      apply negb_false_iff, existsb_exists in Hc. exact Hc.
  - intros [r [Hr [Hc | [Hi Hc]]]]; exists r; (split; [exact Hr|]); unfold rec_closed; apply andb_false_iff.
    + left. apply negb_false_iff, existsb_exists. exact Hc.
    + right. apply orb_false_iff. split; [exact Hi|]. apply negb_false_iff, existsb_exists. exact Hc.
Qed.

(* ---- creation order: post-order numbering of the delay calls ---- *)
Fixpoint nd (e : expr) : nat :=
  match e with
  | Delay a d => S (nd a + nd d)
  | Add a b | Sub a b | Mul a b | Min a b | Max a b => nd a + nd b
  | Neg a | Abs a => nd a
  | Ite _ c1 c2 a b => nd c1 + nd c2 + nd a + nd b
  | _ => 0
  end.

Lemma tr_app base loop e : forall st,
  exists new, snd (tr base loop e st) = st ++ new /\ length new = nd e.
Proof.
  induction e; intro st; simpl;
    try (exists []; rewrite app_nil_r; auto; fail);
    try (destruct (tr base loop e1 st) as [a' s1] eqn:E1;
         destruct (tr base loop e2 s1) as [b' s2] eqn:E2;
         destruct (IHe1 st) as [n1 [H1 L1]]; rewrite E1 in H1; simpl in H1; subst s1;
         destruct (IHe2 (st ++ n1)) as [n2 [H2 L2]]; rewrite E2 in H2; simpl in H2; subst s2).
  - exists (n1 ++ n2). simpl. rewrite app_assoc, app_length. auto.
  - exists (n1 ++ n2). simpl. rewrite app_assoc, app_length. auto.
  - exists (n1 ++ n2). simpl. rewrite app_assoc, app_length. auto.
  - destruct (tr base loop e st) as [a' s1] eqn:E1.
    destruct (IHe st) as [n1 [H1 L1]]. rewrite E1 in H1. simpl in *. exists n1. auto.
  - exists (n1 ++ n2 ++ [mkD a' b' loop]). simpl. split.
    + rewrite <- !app_assoc. reflexivity.
    + rewrite !app_length. simpl. lia.
  - destruct (tr base loop e3 ((st ++ n1) ++ n2)) as [a3 s3] eqn:E3.
    destruct (tr base loop e4 s3) as [a4 s4] eqn:E4.
    destruct (IHe3 ((st ++ n1) ++ n2)) as [n3 [H3 L3]]. rewrite E3 in H3. simpl in H3. subst s3.
    destruct (IHe4 (((st ++ n1) ++ n2) ++ n3)) as [n4 [H4 L4]]. rewrite E4 in H4. simpl in H4. subst s4.
    exists (n1 ++ n2 ++ n3 ++ n4). simpl. split.
    + rewrite <- !app_assoc. reflexivity.
    + rewrite !app_length. lia.
  - destruct (tr base loop e st) as [a' s1] eqn:E1.
    destruct (IHe st) as [n1 [H1 L1]]. rewrite E1 in H1. simpl in *. exists n1. auto.
  - exists (n1 ++ n2). simpl. rewrite app_assoc, app_length. auto.
  - exists (n1 ++ n2). simpl. rewrite app_assoc, app_length. auto.
Qed.

(* the input created for a delay call is numbered by the delay calls completed before it:
   everything already created, then those inside its own two operands *)
Lemma tr_delay_id base loop a d st :
  fst (tr base loop (Delay a d) st) = Ref (SVar (base + (length st + nd a + nd d))) /\
  exists new x y, snd (tr base loop (Delay a d) st) = st ++ new ++ [mkD x y loop] /\ length new = nd a + nd d.
Proof.
  simpl. destruct (tr base loop a st) as [a' s1] eqn:E1. destruct (tr base loop d s1) as [d' s2] eqn:E2.
  destruct (tr_app base loop a st) as [n1 [H1 L1]]. rewrite E1 in H1. simpl in H1. subst s1.
  destruct (tr_app base loop d (st ++ n1)) as [n2 [H2 L2]]. rewrite E2 in H2. simpl in H2. subst s2.
  simpl. split.
  - rewrite !app_length. f_equal. f_equal. lia.
  - exists (n1 ++ n2), a', d'. rewrite <- !app_assoc. split; [reflexivity | rewrite app_length; lia].
Qed.

Definition nd_body (b : list (expr * expr)) : nat :=
  fold_right (fun lr n => nd (fst lr) + nd (snd lr) + n) 0 b.
Definition nd_eqn (q : eqn) : nat :=
  match q with Eq l r => nd l + nd r | For _ _ b => nd_body b end.

Lemma tr_body_app base loop b : forall st,
  exists new, snd (tr_body base loop b st) = st ++ new /\ length new = nd_body b.
Proof.
  induction b as [|[l r] b IH]; intro st; simpl.
  - exists []. rewrite app_nil_r. auto.
  - destruct (tr base loop l st) as [l' s1] eqn:E1. destruct (tr base loop r s1) as [r' s2] eqn:E2.
    destruct (tr_body base loop b s2) as [b' s3] eqn:E3.
    destruct (tr_app base loop l st) as [n1 [H1 L1]]. rewrite E1 in H1. simpl in H1. subst s1.
    destruct (tr_app base loop r (st ++ n1)) as [n2 [H2 L2]]. rewrite E2 in H2. simpl in H2. subst s2.
    destruct (IH ((st ++ n1) ++ n2)) as [n3 [H3 L3]]. rewrite E3 in H3. simpl in H3. subst s3.
    exists (n1 ++ n2 ++ n3). simpl. split.
    + rewrite <- !app_assoc. reflexivity.
    + rewrite !app_length. lia.
Qed.

Lemma tr_eqs_app base eqs : forall st ok,
  exists new, fst (tr_eqs base eqs st ok) = st ++ new /\
              length new = fold_right (fun q n => nd_eqn q + n) 0 eqs.
Proof.
  induction eqs as [|q eqs IH]; intros st ok; simpl.
  - exists []. rewrite app_nil_r. auto.
  - destruct q as [l r | lo hi b].
    + destruct (tr base None l st) as [l' s1] eqn:E1. destruct (tr base None r s1) as [r' s2] eqn:E2.
      destruct (tr_app base None l st) as [n1 [H1 L1]]. rewrite E1 in H1. simpl in H1. subst s1.
      destruct (tr_app base None r (st ++ n1)) as [n2 [H2 L2]]. rewrite E2 in H2. simpl in H2. subst s2.
      destruct (IH ((st ++ n1) ++ n2) ok) as [n3 [H3 L3]]. rewrite H3.
      exists (n1 ++ n2 ++ n3). split.
      * rewrite <- !app_assoc. reflexivity.
      * rewrite !app_length. simpl. lia.
    + destruct (tr_body base (Some (lo, hi)) b st) as [b' s1] eqn:E1.
      destruct (tr_body_app base (Some (lo, hi)) b st) as [n1 [H1 L1]]. rewrite E1 in H1. simpl in H1. subst s1.
      match goal with |- context [tr_eqs base eqs (st ++ n1) ?o] => destruct (IH (st ++ n1) o) as [n3 [H3 L3]] end.
      rewrite H3. exists (n1 ++ n3). split.
      * rewrite <- !app_assoc. reflexivity.
      * rewrite !app_length. simpl. lia.
Qed.

Theorem creation_order m :
  length (delays m) = fold_right (fun q n => nd_eqn q + n) 0 (m_eqs m) /\
  (forall k, k < length (delays m) -> nth_error (delay_states m) k = Some (m_base m + k)) /\
  (forall loop a d st,
     fst (tr (m_base m) loop (Delay a d) st) = Ref (SVar (m_base m + (length st + nd a + nd d))) /\
     exists new x y, snd (tr (m_base m) loop (Delay a d) st) = st ++ new ++ [mkD x y loop] /\
                     length new = nd a + nd d).
Proof.
  split; [|split].
  - unfold delays. destruct (tr_eqs_app (m_base m) (m_eqs m) [] true) as [new [H L]].
    rewrite H. simpl. exact L.
  - intros k Hk. unfold delay_states. rewrite nth_error_map.
    rewrite nth_error_nth' with (d := 0) by (rewrite seq_length; exact Hk).
    rewrite seq_nth by exact Hk. reflexivity.
  - intros. apply tr_delay_id.
Qed.
