(* C27 — the flattening model consults the tree only through lookups. *)
From Coq Require Import List Bool PArith Arith Permutation.
From PV Require Import Model.C27_merge Model.C27_flat Proofs.C27_merge.
Import ListNotations.

Section Ext.
  Variable E : denv.
  Variables g g' : path -> option hdr.
  Hypothesis Hg : forall p, g p = g' p.

  Lemma toks_ext p i : toks g p i = toks g' p i.
  Proof. unfold toks. rewrite Hg. reflexivity. Qed.
  Lemma encaps_ext p : encaps g p = encaps g' p.
  Proof. unfold encaps. rewrite Hg. reflexivity. Qed.
  Lemma present_ext p : present g p = present g' p.
  Proof. unfold present. rewrite Hg. reflexivity. Qed.
  Lemma imports_ext p : imports_of E g p = imports_of E g' p.
  Proof. unfold imports_of. rewrite toks_ext. reflexivity. Qed.
  Lemma own_exts_ext p : own_exts E g p = own_exts E g' p.
  Proof. unfold own_exts. rewrite toks_ext. reflexivity. Qed.
  Lemma own_syms_ext p : own_syms E g p = own_syms E g' p.
  Proof. unfold own_syms. rewrite toks_ext. reflexivity. Qed.
  Lemma eq_refs_ext p : eq_refs E g p = eq_refs E g' p.
  Proof. unfold eq_refs. rewrite !toks_ext. reflexivity. Qed.

  Lemma fc_step_ext rec rec' :
    (forall a b c d, rec a b c d = rec' a b c d) ->
    forall scope ref sp si, fc_step E g rec scope ref sp si = fc_step E g' rec' scope ref sp si.
  Proof.
    intros Hr scope ref sp si. unfold fc_step. destruct ref as [|n rest]; [reflexivity|].
    cbv zeta. rewrite present_ext, imports_ext, encaps_ext.
    rewrite (Hr (scope ++ [n]) rest false true), (Hr (removelast scope) (n :: rest) true true).
    destruct (imp_lookup n (imports_of E g' scope)) as [T|]; [rewrite (Hr scope (T ++ rest) true true)|]; reflexivity.
  Qed.

  Lemma find_class_ext fuel : forall scope ref sp si,
    find_class E g fuel scope ref sp si = find_class E g' fuel scope ref sp si.
  Proof.
    induction fuel as [|f IH]; intros scope ref sp si; [reflexivity|].
    simpl. apply fc_step_ext. exact IH.
  Qed.

  Lemma ext_fold_ext rec rec' fc fc' C :
    (forall x, rec x = rec' x) -> (forall x, fc x = fc' x) ->
    forall es acc, ext_fold rec fc C es acc = ext_fold rec' fc' C es acc.
  Proof.
    intros Hr Hf. induction es as [|[b m] es IH]; intros acc; cbn [ext_fold]; [reflexivity|].
    rewrite Hf. destruct (fc' b) as [B|]; [|reflexivity].
    destruct (path_eqb B C); [reflexivity|].
    rewrite Hr. destruct (rec' B) as [[sb rb]|]; [apply IH | reflexivity].
  Qed.

  Lemma ext_content_ext fuel : forall C, ext_content E g fuel C = ext_content E g' fuel C.
  Proof.
    induction fuel as [|f IH]; intros C; [reflexivity|].
    cbn [ext_content]. rewrite own_exts_ext, own_syms_ext, eq_refs_ext.
    rewrite (ext_fold_ext (ext_content E g f) (ext_content E g' f)
               (fun b => find_class E g FC_FUEL C b true true)
               (fun b => find_class E g' FC_FUEL C b true true) C IH
               (fun b => find_class_ext FC_FUEL C b true true)).
    reflexivity.
  Qed.

  Lemma const_in_ext rest : forall N, const_in E g N rest = const_in E g' N rest.
  Proof.
    induction rest as [|x more IH]; intros N; [reflexivity|].
    cbn [const_in]. rewrite own_syms_ext, find_class_ext.
    destruct (is_nil more); [reflexivity|].
    destruct (find_class E g' FC_FUEL N [x] false true); [apply IH | reflexivity].
  Qed.

  Lemma find_const_ext C r : find_const E g C r = find_const E g' C r.
  Proof.
    unfold find_const. destruct r as [|t0 rest]; [reflexivity|].
    destruct (is_nil rest); [reflexivity|].
    rewrite find_class_ext. destruct (find_class E g' FC_FUEL C [t0] true true); [apply const_in_ext | reflexivity].
  Qed.

  Lemma pulled_ext C prefix refs : pulled E g C prefix refs = pulled E g' C prefix refs.
  Proof.
    unfold pulled. induction refs as [|r refs IH]; cbn [flat_map]; [reflexivity|].
    rewrite find_const_ext, IH. reflexivity.
  Qed.

  Lemma inst_syms_ext rec rec' fc fc' prefix :
    (forall a b c, rec a b c = rec' a b c) -> (forall x, fc x = fc' x) ->
    forall ss, inst_syms rec fc prefix ss = inst_syms rec' fc' prefix ss.
  Proof.
    intros Hr Hf. induction ss as [|s ss IH]; cbn [inst_syms]; [reflexivity|].
    rewrite IH, Hf. destruct (sy_builtin s); [reflexivity|].
    destruct (fc' (sy_type s)); [rewrite Hr; reflexivity | reflexivity].
  Qed.

  Lemma inst_ext fuel : forall C prefix inm, inst E g fuel C prefix inm = inst E g' fuel C prefix inm.
  Proof.
    induction fuel as [|f IH]; intros C prefix inm; [reflexivity|].
    cbn [inst]. rewrite ext_content_ext. destruct (ext_content E g' EXT_FUEL C) as [[syms refs]|]; [|reflexivity].
    rewrite (inst_syms_ext (inst E g f) (inst E g' f)
               (fun t => find_class E g FC_FUEL C t true true)
               (fun t => find_class E g' FC_FUEL C t true true) prefix IH
               (fun t => find_class_ext FC_FUEL C t true true)).
    rewrite imports_ext, pulled_ext. reflexivity.
  Qed.

  Lemma flatG_ext top : flatG E g top = flatG E g' top.
  Proof.
    unfold flatG. rewrite find_class_ext. destruct (find_class E g' FC_FUEL [] top true true); [apply inst_ext | reflexivity].
  Qed.
End Ext.

(* the flattening model respects lookup-equality *)
Theorem flat_respects_lookup E t t' :
  (forall p, get t p = get t' p) -> forall top, flat E t top = flat E t' top.
Proof. intros H top. unfold flat. apply flatG_ext. exact H. Qed.

Theorem flatten_perm E top ts ts' :
  Permutation ts ts' -> Forall wf ts -> compatible ts ->
  flat E (merge_api ts) top = flat E (merge_api ts') top /\
  flat E (merge_compiler ts) top = flat E (merge_compiler ts') top.
Proof.
  intros HP Hwf Hc.
  apply (observation_perm (fun t => flat E t top)); try assumption.
  intros t t' H. apply flat_respects_lookup; exact H.
Qed.

Theorem flatten_split_perm E top (fs fs' : list file) :
  Permutation fs fs' -> Forall wf (map file_to_tree fs) -> split_ok (map file_to_tree fs) ->
  flat E (merge_api (map file_to_tree fs)) top = flat E (merge_api (map file_to_tree fs')) top /\
  flat E (merge_compiler (map file_to_tree fs)) top = flat E (merge_compiler (map file_to_tree fs')) top.
Proof.
  intros HP Hwf Hs. apply flatten_perm; try assumption.
  - apply Permutation_map; exact HP.
  - apply split_ok_compatible; exact Hs.
Qed.

(* concrete: package P (constant k) in one file, `within P; model M  Real x = P.k;` in another *)
Definition fx_E : denv :=
  DEnv [(21, SymI 40 [50] true [] []); (24, SymI 41 [50] true [] [[10; 40]])]%positive [] [] [].
Definition fx_f0 : file := ([], [(10, Node (ex_h 1 [21] []) [])])%positive.
Definition fx_f1 : file := ([10], [(12, Node (ex_h 3 [24] []) [])])%positive.

Lemma fx_result :
  flat fx_E (merge_api (map file_to_tree [fx_f1; fx_f0])) [10; 12]%positive
    = Some [([41], 50, false); ([10; 40], 50, true)]%positive /\
  flat fx_E (merge_compiler (map file_to_tree [fx_f0; fx_f1])) [10; 12]%positive
    = Some [([41], 50, false); ([10; 40], 50, true)]%positive.
Proof. vm_compute. split; reflexivity. Qed.
