(* C17 — proofs about the value-level model (Model/C17_alias.v). *)
From stdpp Require Import gmap.
From PV Require Import Lib.Closure Model.C17_alias.

Lemma tog_tog v : tog (tog v) = v.
Proof. destruct v as [[] p]; reflexivity. Qed.
Lemma tog_ne v : tog v ≠ v.
Proof. destruct v as [[] p]; intros [=]. Qed.
Global Instance tog_inj : Inj (=) (=) tog.
Proof. intros x y Hxy. rewrite <- (tog_tog x), Hxy. apply tog_tog. Qed.

Lemma elem_togs v A : v ∈ togs A ↔ tog v ∈ A.
Proof.
  unfold togs. rewrite elem_of_map. split.
  - intros (w & -> & Hw). by rewrite tog_tog.
  - intros Hv. exists (tog v). by rewrite tog_tog.
Qed.


Definition sym (m : amap) : Prop := ∀ k, cls m (tog k) = togs (cls m k).
Definition consistent (m : amap) : Prop := ∀ k, tog k ∉ cls m k.

Lemma add_al_lookup_aux (A' IA' : gset svar) (m : amap) (k : svar) (Y : gset svar) :
  (∀ v, v ∈ Y → tog v ∉ Y) →
  let r : amap := set_fold (fun v (acc : amap) => <[v := A']> (<[tog v := IA']> acc)) m Y in
  (k ∈ Y → r !! k = Some A') ∧ (tog k ∈ Y → r !! k = Some IA') ∧
  (k ∉ Y → tog k ∉ Y → r !! k = m !! k).
Proof.
  intros Hdisj.
  apply (set_fold_ind_L (fun r X => X ⊆ Y →
     (k ∈ X → r !! k = Some A') ∧ (tog k ∈ X → r !! k = Some IA') ∧
     (k ∉ X → tog k ∉ X → r !! k = m !! k))); [|intros x X r Hx IH HX|set_solver].
  - intros _. repeat split; set_solver.
  - cbn beta. destruct IH as (IH1 & IH2 & IH3); [set_solver|].
    assert (Hxy : x ∈ Y) by set_solver.
    repeat split.
    + intros [->%elem_of_singleton|Hk]%elem_of_union; [by rewrite lookup_insert|].
      destruct (decide (k = x)) as [->|Hne]; [by rewrite lookup_insert|].
      rewrite lookup_insert_ne by done.
      destruct (decide (k = tog x)) as [->|Hne2].
      * exfalso. apply (Hdisj x Hxy). set_solver.
      * rewrite lookup_insert_ne by done. auto.
    + intros [Hk%elem_of_singleton|Hk]%elem_of_union.
      * assert (k = tog x) as -> by (by rewrite <- Hk, tog_tog).
        rewrite lookup_insert_ne by (apply not_eq_sym, tog_ne). by rewrite lookup_insert.
      * destruct (decide (k = x)) as [->|Hne].
        { exfalso. apply (Hdisj (tog x)); [set_solver|]. rewrite tog_tog. done. }
        rewrite lookup_insert_ne by done.
        destruct (decide (k = tog x)) as [->|Hne2]; [by rewrite lookup_insert|].
        rewrite lookup_insert_ne by done. auto.
    + intros Hk1 Hk2.
      rewrite lookup_insert_ne by set_solver.
      rewrite lookup_insert_ne.
      * apply IH3; set_solver.
      * intros <-. apply Hk2. rewrite tog_tog. set_solver.
Qed.

Lemma cls_add_al (m : amap) (a b k : svar) : inv m → sym m → consistent m → tog b ∉ cls m a →
  cls (add_al m a b) k =
    if decide (k ∈ cls m a ∪ cls m b) then cls m a ∪ cls m b
    else if decide (tog k ∈ cls m a ∪ cls m b) then cls m (tog a) ∪ cls m (tog b)
    else cls m k.
Proof.
  intros [Hr Hc] Hs Hcons Hleg. unfold add_al.
  assert (Hdisj : ∀ v, v ∈ cls m a ∪ cls m b → tog v ∉ cls m a ∪ cls m b).
  { intros v Hv Htv.
    assert (∀ x y, v ∈ cls m x → tog v ∈ cls m y → tog y ∈ cls m x) as Hxy.
    { intros x y Hvx Hvy. rewrite <- (Hc _ _ Hvx).
      assert (v ∈ cls m (tog y)) as H1.
      { rewrite Hs. apply elem_togs. done. }
      rewrite (Hc _ _ H1). apply Hr. }
    apply elem_of_union in Hv as [Hv|Hv]; apply elem_of_union in Htv as [Htv|Htv].
    - apply (Hcons a). by apply (Hxy a a).
    - apply Hleg. by apply (Hxy a b).
    - apply Hleg. pose proof (Hxy b a Hv Htv) as H1.
      (* tog a ∈ cls b  →  tog b ∈ cls a *)
      assert (a ∈ cls m (tog b)) as H2.
      { rewrite Hs. apply elem_togs. done. }
      rewrite (Hc _ _ H2). apply Hr.
    - apply (Hcons b). by apply (Hxy b b). }
  case_decide as Hb.
  - (* already aliases: nothing changes, and the right-hand side collapses *)
    assert (cls m b = cls m a) as Hba by (by apply Hc).
    rewrite Hba. replace (cls m a ∪ cls m a) with (cls m a) by set_solver.
    case_decide as Hk; [by apply Hc|].
    case_decide as Htk; [|done].
    assert (cls m (tog b) = cls m (tog a)) as ->.
    { rewrite !Hs. by rewrite Hba. }
    replace (cls m (tog a) ∪ cls m (tog a)) with (cls m (tog a)) by set_solver.
    apply Hc. rewrite Hs. by apply elem_togs.
  - destruct (add_al_lookup_aux (cls m a ∪ cls m b) (cls m (tog a) ∪ cls m (tog b)) m k
                (cls m a ∪ cls m b) Hdisj) as (H1 & H2 & H3).
    unfold cls at 1.
    case_decide as Hk; [by rewrite H1|].
    case_decide as Htk; [by rewrite H2|].
    by rewrite H3.
Qed.

(* add_al is two plain merges: (a,b) and (tog a, tog b) *)
Lemma add_al_double_merge (m : amap) (a b k : svar) : inv m → sym m → consistent m → tog b ∉ cls m a →
  cls (add_al m a b) k = cls (merge (merge m a b) (tog a) (tog b)) k.
Proof.
  intros Hinv Hs Hcons Hleg.
  rewrite cls_add_al by done.
  pose proof (merge_inv m a b Hinv) as Hinv1.
  rewrite (cls_merge (merge m a b)) by done.
  rewrite !(cls_merge m a b) by done.
  destruct Hinv as [Hr Hc].
  assert (Hta : tog a ∉ cls m a ∪ cls m b).
  { intros [H1|H1]%elem_of_union; [by apply (Hcons a)|].
    apply Hleg. assert (a ∈ cls m (tog b)) as H2.
    { rewrite Hs. apply elem_togs. done. }
    rewrite (Hc _ _ H2). apply Hr. }
  assert (Htb : tog b ∉ cls m a ∪ cls m b).
  { intros [H1|H1]%elem_of_union; [done|]. by apply (Hcons b). }
  rewrite (decide_False (P := tog a ∈ _)) by done.
  rewrite (decide_False (P := tog b ∈ _)) by done.
  assert (Hmem : ∀ x, x ∈ cls m (tog a) ∪ cls m (tog b) ↔ tog x ∈ cls m a ∪ cls m b).
  { intros x. rewrite !elem_of_union, !Hs, !elem_togs. done. }
  case_decide as Hk.
  - (* k in the merged class: not in the mirrored one *)
    rewrite decide_False; [done|].
    intros Hk2%Hmem. 
    (* k and tog k both in A' contradicts disjointness; reuse cls_add_al's argument via consistency *)
    assert (∀ x y, k ∈ cls m x → tog k ∈ cls m y → tog y ∈ cls m x) as Hxy.
    { intros x y Hvx Hvy. rewrite <- (Hc _ _ Hvx).
      assert (k ∈ cls m (tog y)) as H1 by (rewrite Hs; by apply elem_togs).
      rewrite (Hc _ _ H1). apply Hr. }
    apply elem_of_union in Hk as [Hk|Hk]; apply elem_of_union in Hk2 as [Hk2|Hk2].
    + apply (Hcons a). by apply (Hxy a a).
    + apply Hleg. by apply (Hxy a b).
    + apply Hta. apply elem_of_union_r. by apply (Hxy b a).
    + apply (Hcons b). by apply (Hxy b b).
  - case_decide as Htk.
    + rewrite decide_True by (by apply Hmem). done.
    + rewrite decide_False by (intros H1%Hmem; done). done.
Qed.

(* ---------- invariants are preserved, and the history theorem ---------- *)
Definition ext_eq (m1 m2 : amap) : Prop := ∀ k, cls m1 k = cls m2 k.

Lemma inv_ext m1 m2 : ext_eq m1 m2 → inv m2 → inv m1.
Proof.
  intros E [Hr Hc]. split.
  - intros k. rewrite E. apply Hr.
  - intros k v. rewrite !E. apply Hc.
Qed.

Lemma add_al_inv m a b : inv m → sym m → consistent m → tog b ∉ cls m a → inv (add_al m a b).
Proof.
  intros Hi Hs Hc Hl.
  eapply inv_ext; [intros k; by apply add_al_double_merge|].
  by apply merge_inv, merge_inv.
Qed.

Lemma togs_union A B : togs (A ∪ B) = togs A ∪ togs B.
Proof. apply set_eq. intros x. rewrite elem_of_union, !elem_togs, elem_of_union. done. Qed.

Lemma add_al_sym m a b : inv m → sym m → consistent m → tog b ∉ cls m a → sym (add_al m a b).
Proof.
  intros Hi Hs Hc Hl k.
  rewrite !cls_add_al by done. rewrite tog_tog.
  assert (Hdisj : ¬ (k ∈ cls m a ∪ cls m b ∧ tog k ∈ cls m a ∪ cls m b)).
  { (* same argument as in cls_add_al; derive it from the formula: if both held,
       cls of the result at k would have to be both sets *)
    intros [H1 H2].
    pose proof (add_al_inv m a b Hi Hs Hc Hl) as [Hr' Hc'].
    destruct Hi as [Hr Hcc].
    assert (∀ x y, k ∈ cls m x → tog k ∈ cls m y → tog y ∈ cls m x) as Hxy.
    { intros x y Hvx Hvy. rewrite <- (Hcc _ _ Hvx).
      assert (k ∈ cls m (tog y)) as H3 by (rewrite Hs; by apply elem_togs).
      rewrite (Hcc _ _ H3). apply Hr. }
    apply elem_of_union in H1 as [H1|H1]; apply elem_of_union in H2 as [H2|H2].
    - apply (Hc a). by apply (Hxy a a).
    - apply Hl. by apply (Hxy a b).
    - apply Hl. pose proof (Hxy b a H1 H2) as H4.
      assert (a ∈ cls m (tog b)) as H5 by (rewrite Hs; by apply elem_togs).
      rewrite (Hcc _ _ H5). apply Hr.
    - apply (Hc b). by apply (Hxy b b). }
  assert (HIA : togs (cls m (tog a) ∪ cls m (tog b)) = cls m a ∪ cls m b).
  { rewrite togs_union, <- !Hs, !tog_tog. done. }
  assert (HA : togs (cls m a ∪ cls m b) = cls m (tog a) ∪ cls m (tog b)).
  { rewrite togs_union, <- !Hs. done. }
  destruct (decide (k ∈ cls m a ∪ cls m b)) as [H1|H1];
    destruct (decide (tog k ∈ cls m a ∪ cls m b)) as [H2|H2]; try (exfalso; apply Hdisj; done).
  - by rewrite HA.
  - by rewrite HIA.
  - apply Hs.
Qed.

Lemma add_al_consistent m a b : inv m → sym m → consistent m → tog b ∉ cls m a → consistent (add_al m a b).
Proof.
  intros Hi Hs Hc Hl k.
  rewrite cls_add_al by done.
  destruct Hi as [Hr Hcc].
  assert (∀ x y, k ∈ cls m x → tog k ∈ cls m y → tog y ∈ cls m x) as Hxy.
  { intros x y Hvx Hvy. rewrite <- (Hcc _ _ Hvx).
    assert (k ∈ cls m (tog y)) as H3 by (rewrite Hs; by apply elem_togs).
    rewrite (Hcc _ _ H3). apply Hr. }
  assert (Hflip : tog a ∈ cls m b → tog b ∈ cls m a).
  { intros H4. assert (a ∈ cls m (tog b)) as H5 by (rewrite Hs; by apply elem_togs).
    rewrite (Hcc _ _ H5). apply Hr. }
  case_decide as H1.
  - intros H2.
    apply elem_of_union in H1 as [H1|H1]; apply elem_of_union in H2 as [H2|H2].
    + apply (Hc a). by apply (Hxy a a).
    + apply Hl. by apply (Hxy a b).
    + apply Hl, Hflip. by apply (Hxy b a).
    + apply (Hc b). by apply (Hxy b b).
  - case_decide as H2; [|apply Hc].
    intros H3. apply H1.
    rewrite elem_of_union, !Hs, !elem_togs in H3. rewrite tog_tog in H3. by apply elem_of_union.
Qed.

(* histories of adds *)
Definition runA (P : list (svar * svar)) : amap := fold_left (fun m '(a, b) => add_al m a b) P ∅.
Fixpoint legal (P : list (svar * svar)) (m : amap) : Prop :=
  match P with
  | [] => True
  | (a, b) :: P' => tog b ∉ cls m a ∧ legal P' (add_al m a b)
  end.
Definition dbl (P : list (svar * svar)) : list (svar * svar) :=
  flat_map (fun '(a, b) => [(a, b); (tog a, tog b)]) P.

Lemma sym_empty : sym (∅ : amap).
Proof. intros k. unfold cls. rewrite !lookup_empty. simpl. unfold togs. by rewrite set_map_singleton_L. Qed.
Lemma consistent_empty : consistent (∅ : amap).
Proof. intros k. unfold cls. rewrite lookup_empty. simpl. intros ?%elem_of_singleton. by eapply tog_ne. Qed.

Lemma merge_ext (m1 m2 : amap) a b : ext_eq m1 m2 → inv m1 → inv m2 → ext_eq (merge m1 a b) (merge m2 a b).
Proof. intros E H1 H2 k. rewrite !cls_merge by done. rewrite !E. done. Qed.

Lemma fold_ext P : ∀ m1 m2, ext_eq m1 m2 → inv m1 → sym m1 → consistent m1 → legal P m1 →
  ext_eq (fold_left (fun m '(a, b) => add_al m a b) P m1)
         (fold_left (fun m '(a, b) => merge m a b) (dbl P) m2).
Proof.
  induction P as [|[a b] P IH]; intros m1 m2 E Hi Hs Hc Hl; [exact E|].
  destruct Hl as [Hl1 Hl2]. cbn [fold_left dbl flat_map app].
  apply IH; try done.
  - intros k. rewrite add_al_double_merge by done.
    assert (inv m2) as Hi2 by (eapply inv_ext; [intros k'; symmetry; apply E|done]).
    apply merge_ext; [apply merge_ext; done|by apply merge_inv|by apply merge_inv].
  - by apply add_al_inv.
  - by apply add_al_sym.
  - by apply add_al_consistent.
Qed.

Theorem aliases_is_signed_closure P k v : legal P ∅ →
  v ∈ cls (runA P) k ↔ eqv (dbl P) k v.
Proof.
  intros Hl. rewrite <- run_closure. unfold runA, run.
  rewrite (fold_ext P ∅ ∅); try done.
  - apply inv_empty.
  - apply sym_empty.
  - apply consistent_empty.
Qed.
