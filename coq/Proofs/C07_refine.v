(* Proofs/C07_refine.v — refinement: the model of pymoca's flatten computes the specification
   Lib/Inst.v `inst` on plain libraries (no extends, no modifications; any nesting depth, repeated classes,
   nested class definitions, scalar arrays, all prefixes). *)
From Coq Require Import List ZArith Bool PArith Lia.
From PV Require Import Lib.ClassTree Lib.Inst Model.C07_flatten Proofs.C07_flatten.
Import ListNotations.

(* ------------------------------------------------------------------ ordered dictionaries *)
Section ODgen.
  Context {A K : Type} (key : A -> K) (eqb : K -> K -> bool).
  Hypothesis eqb_spec : forall a b, eqb a b = true <-> a = b.

  Lemma od_set_fresh x l : ~ In (key x) (map key l) -> od_set key eqb x l = l ++ [x].
  Proof.
    induction l as [|y l IH]; simpl; intros H; [reflexivity|].
    destruct (eqb (key y) (key x)) eqn:E.
    - apply eqb_spec in E. exfalso. apply H. left. exact E.
    - rewrite IH; [reflexivity|]. intro; apply H; right; assumption.
  Qed.

  Lemma od_update_fresh new : forall l,
    NoDup (map key l ++ map key new) -> od_update key eqb l new = l ++ new.
  Proof.
    unfold od_update. induction new as [|x new IH]; intros l H; simpl.
    - rewrite app_nil_r. reflexivity.
    - assert (~ In (key x) (map key l)) as N.
      { intro Hin. simpl in H. apply NoDup_remove_2 in H. apply H. apply in_or_app. left. exact Hin. }
      rewrite (od_set_fresh x l N). rewrite IH.
      + rewrite <- app_assoc. reflexivity.
      + rewrite map_app. simpl. rewrite <- app_assoc. simpl. exact H.
  Qed.

  Lemma od_set_Forall (P : A -> Prop) x l : P x -> Forall P l -> Forall P (od_set key eqb x l).
  Proof.
    intros Hx. induction 1 as [|y l Hy Hl IH]; simpl; [constructor; auto|].
    destruct (eqb (key y) (key x)); constructor; auto.
  Qed.

  Lemma od_update_Forall (P : A -> Prop) new : forall l,
    Forall P l -> Forall P new -> Forall P (od_update key eqb l new).
  Proof.
    unfold od_update. induction new as [|x new IH]; intros l Hl Hn; simpl; [assumption|].
    inversion Hn; subst. apply IH; [apply od_set_Forall; assumption | assumption].
  Qed.

  Lemma od_get_In k l x : od_get key eqb k l = Some x -> In x l.
  Proof.
    induction l as [|y l IH]; simpl; [discriminate|].
    destruct (eqb (key y) k); [intros H; inversion H; left; reflexivity | intros H; right; auto].
  Qed.
End ODgen.

(* od_set / od_update commute with a key-preserving map *)
Section ODmap.
  Context {A B K : Type} (ka : A -> K) (kb : B -> K) (eqb : K -> K -> bool) (g : A -> B).
  Hypothesis kg : forall a, kb (g a) = ka a.

  Lemma od_set_map x l : map g (od_set ka eqb x l) = od_set kb eqb (g x) (map g l).
  Proof.
    induction l as [|y l IH]; simpl; [reflexivity|].
    rewrite !kg. destruct (eqb (ka y) (ka x)); simpl; [reflexivity | rewrite IH; reflexivity].
  Qed.

  Lemma od_update_map new : forall l,
    map g (od_update ka eqb l new) = od_update kb eqb (map g l) (map g new).
  Proof.
    unfold od_update. induction new as [|x new IH]; intros l; simpl; [reflexivity|].
    rewrite IH, od_set_map. reflexivity.
  Qed.
End ODmap.

(* ------------------------------------------------------------------ plain libraries *)
Definition plain_sym (s : sym) : Prop := s_mods s = [] /\ NoDup (s_prefixes s).

(* a type alias of a built-in without modifications in the type definition: type T = Real; *)
Inductive alias : cdef -> Prop :=
| Alias n t : mem_id t BUILTIN = true -> n <> t -> alias (CDef n kType [] [([t], [])] [] []).

Inductive plain : cdef -> Prop :=
| Plain n k cs ss es :
    k <> kBuiltin -> k <> kType -> Forall (fun c => plain c \/ alias c) cs -> Forall plain_sym ss ->
    NoDup (map s_name ss) ->
    plain (CDef n k cs [] ss es).

Definition pclass (c : cdef) : Prop := plain c \/ alias c.

Definition fplain (fr : frame) : Prop := Forall (fun e => pclass (e_def e)) (f_entries fr).

Lemma plain_classes c : pclass c -> Forall pclass (c_classes c).
Proof. intros [H|H]; inversion H; simpl; [assumption | constructor]. Qed.

Lemma entries_plain lex cs : Forall pclass cs -> Forall (fun e => pclass (e_def e)) (entries_of lex cs).
Proof. unfold entries_of. intros H. apply Forall_map. simpl. exact H. Qed.

Lemma own_frame_plain c lex : pclass c -> fplain (own_frame c lex).
Proof. intros H. unfold fplain, own_frame; simpl. apply entries_plain, plain_classes, H. Qed.

Lemma pos_eqb_spec' : forall a b : positive, Pos.eqb a b = true <-> a = b.
Proof. intros; apply Pos.eqb_eq. Qed.

Lemma descend_plain : forall rest c lex c' lex',
  pclass c -> descend c lex rest = Some (c', lex') -> pclass c'.
Proof.
  induction rest as [|n rest IH]; intros c lex c' lex' Hc H; simpl in H.
  - inversion H; subst; assumption.
  - destruct (od_get c_name Pos.eqb n (c_classes c)) as [c1|] eqn:E; [|discriminate].
    apply (IH _ _ _ _ (proj1 (Forall_forall _ _) (plain_classes c Hc) c1 (od_get_In _ _ _ _ _ E)) H).
Qed.

Lemma descend_frames_plain : forall rest c lex,
  pclass c -> Forall fplain (descend_frames c lex rest).
Proof.
  induction rest as [|n rest IH]; intros c lex Hc; simpl; [constructor|].
  destruct (od_get c_name Pos.eqb n (c_classes c)) as [c1|] eqn:E; [|constructor].
  apply Forall_app. split.
  - apply IH. apply (proj1 (Forall_forall _ _) (plain_classes c Hc) c1 (od_get_In _ _ _ _ _ E)).
  - constructor; [apply own_frame_plain; assumption | constructor].
Qed.

Lemma lookup_plain : forall S ref c lex S' b,
  Forall fplain S -> lookup S ref = Some (c, lex, S', b) -> pclass c /\ Forall fplain S'.
Proof.
  induction S as [|fr S IH]; intros ref c lex S' b HS H; destruct ref as [|n rest]; simpl in H; try discriminate.
  inversion HS as [|? ? Hfr HS']; subst.
  destruct (od_get e_key Pos.eqb n (f_entries fr)) as [e|] eqn:E.
  - assert (pclass (e_def e)) as He
      by (apply (proj1 (Forall_forall _ _) Hfr e (od_get_In _ _ _ _ _ E))).
    destruct (descend (e_def e) (e_lex e) rest) as [[c1 lex1]|] eqn:D.
    + inversion H; subst. split; [eapply descend_plain; eauto|].
      apply Forall_app. split; [apply descend_frames_plain; assumption | assumption].
    + eapply IH; eauto.
  - eapply IH; eauto.
Qed.

(* ------------------------------------------------------------------ scopes up to the instance flag *)
Definition fsim (a b : frame) : Prop := f_owner a = f_owner b /\ f_entries a = f_entries b.
Definition sim (S1 S2 : scope) : Prop := Forall2 fsim S1 S2.

Lemma sim_refl S : sim S S.
Proof. induction S; constructor; [split; reflexivity | assumption]. Qed.

Lemma sim_app A1 A2 S1 S2 : sim A1 A2 -> sim S1 S2 -> sim (A1 ++ S1) (A2 ++ S2).
Proof. intros H1 H2. apply Forall2_app; assumption. Qed.

Lemma lookup_sim : forall S1 S2 ref,
  sim S1 S2 ->
  match lookup S1 ref with
  | Some (c, lex, S1', _) => exists S2' b2, lookup S2 ref = Some (c, lex, S2', b2) /\ sim S1' S2'
  | None => lookup S2 ref = None
  end.
Proof.
  intros S1 S2 ref H. induction H as [|f1 f2 S1 S2 [Ho He] HS IH]; destruct ref as [|n rest]; simpl; try reflexivity.
  rewrite <- He.
  destruct (od_get e_key Pos.eqb n (f_entries f1)) as [e|].
  - destruct (descend (e_def e) (e_lex e) rest) as [[c1 lex1]|].
    + eexists _, _. split; [reflexivity|].
      apply sim_app; [apply sim_refl | constructor; [split; assumption | assumption]].
    + exact IH.
  - exact IH.
Qed.

Lemma scope_ref_sim S1 S2 : sim S1 S2 -> scope_ref S1 = scope_ref S2.
Proof. induction 1 as [|f1 f2 S1 S2 [Ho He] HS IH]; simpl; [reflexivity|]. rewrite Ho, IH. reflexivity. Qed.

(* ------------------------------------------------------------------ references, prefixes *)
Lemma resolve_rename leaves env : forall e, resolve leaves env e = rename leaves env e.
Proof.
  (* the two definitions are the same fixpoint *)
  intros e. reflexivity.
Qed.

Lemma resolve_eqn_rename leaves env q : resolve_eqn leaves env q = rename_eqn leaves env q.
Proof. unfold resolve_eqn, rename_eqn. rewrite !resolve_rename. reflexivity. Qed.

Lemma remove_first_filter x l : NoDup l -> remove_first x l = filter (fun y => negb (Pos.eqb y x)) l.
Proof.
  induction 1 as [|z l Hz Hnd IH]; simpl; [reflexivity|].
  destruct (Pos.eqb_spec z x) as [->|N]; simpl.
  - clear IH. induction l as [|w l IHl]; simpl; [reflexivity|].
    destruct (Pos.eqb_spec w x) as [->|N]; simpl.
    + exfalso. apply Hz. left. reflexivity.
    + f_equal. apply IHl; [intro; apply Hz; right; assumption | inversion Hnd; assumption].
  - rewrite IH. reflexivity.
Qed.

Lemma filter_two (a b : positive) l :
  filter (fun y => negb (Pos.eqb y b)) (filter (fun y => negb (Pos.eqb y a)) l) =
  filter (fun y => negb (Pos.eqb y a || Pos.eqb y b)) l.
Proof.
  induction l as [|z l IH]; [reflexivity|]. cbn [filter].
  destruct (Pos.eqb z a); cbn [negb orb filter]; [exact IH|].
  destruct (Pos.eqb z b); cbn [negb]; [exact IH | rewrite IH; reflexivity].
Qed.

Lemma strip_drop prefix pre : NoDup pre -> strip_io prefix pre = drop_io prefix pre.
Proof.
  intros H. destruct prefix as [|a p]; [reflexivity|]. unfold strip_io, drop_io.
  rewrite (remove_first_filter pInput pre H).
  rewrite remove_first_filter by (apply NoDup_filter; assumption).
  unfold is_io. apply filter_two.
Qed.

(* ------------------------------------------------------------------ clean flat symbols *)
Definition clean (s : fsym) : Prop := f_attrs s = [] /\ f_cmods s = [].
Definition var_of (s : fsym) : flatvar := mkVar (f_name s) (f_type s) (f_prefixes s) (f_dims s) [].

Lemma modify_clean sc s : clean s -> modify_symbol sc s = Ok s.
Proof. destruct s; intros [A C]; simpl in *; subst. reflexivity. Qed.

Lemma map_res_clean sc l : Forall clean l -> map_res (modify_symbol sc) l = Ok l.
Proof.
  induction 1 as [|s l Hs Hl IH]; [reflexivity|]. cbn [map_res]. rewrite (modify_clean sc s Hs). cbn [bind].
  rewrite IH. reflexivity.
Qed.

Lemma rename_clean cont prefix s : clean s -> rename_fsym cont prefix s = s.
Proof. destruct s; intros [A C]; simpl in *; subst. reflexivity. Qed.

Lemma map_fix {A} (g : A -> A) l : Forall (fun x => g x = x) l -> map g l = l.
Proof. induction 1 as [|x l Hx Hl IH]; simpl; [reflexivity | rewrite Hx, IH; reflexivity]. Qed.

Lemma fs_finish_clean myref prefix eqs flat feqs :
  Forall clean flat ->
  fs_finish myref prefix eqs (flat, feqs) =
  Ok (flat, feqs ++ map (rename_eqn (map f_name flat) prefix) eqs).
Proof.
  intros H. unfold fs_finish. rewrite (map_res_clean myref flat H). cbn [bind].
  rewrite map_fix; [reflexivity|]. eapply Forall_impl; [|exact H]. intros s Hs. apply rename_clean; exact Hs.
Qed.

Lemma var_of_update flat new :
  map var_of (f_update flat new) = v_update (map var_of flat) (map var_of new).
Proof. unfold f_update, v_update. apply od_update_map. reflexivity. Qed.

Lemma clean_update flat new : Forall clean flat -> Forall clean new -> Forall clean (f_update flat new).
Proof. apply od_update_Forall. Qed.

Lemma path_eqb_spec' : forall a b : path, path_eqb a b = true <-> a = b.
Proof. exact path_eqb_spec. Qed.

(* ------------------------------------------------------------------ build on a plain class *)
Lemma collapses_plain r k ss es m : k <> kBuiltin -> k <> kType -> collapses (Inst r k ss es m) = None.
Proof.
  intros H1 H2. unfold collapses. destruct (value_sym ss); [|reflexivity].
  destruct (Pos.eqb_spec k kBuiltin); [contradiction|]. destruct (Pos.eqb_spec k kType); [contradiction|].
  reflexivity.
Qed.

Definition me_of (c : cdef) (lex : path) (parent : scope) : scope :=
  mkFrame (Some (c_name c)) true
          (od_update e_key Pos.eqb [] (entries_of (lex ++ [c_name c]) (c_classes c))) None :: parent.

Lemma build_plain root f c lex parent :
  plain c ->
  build root false (S (S f)) c lex parent [] [] =
  (r <- build_syms root false (build root false (S f)) (extends_builtin root (S f)) (me_of c lex parent)
                   (scope_ref (me_of c lex parent)) (c_syms c) [] [] [] ;;
   Ok (Inst (scope_ref (me_of c lex parent)) (c_kind c) (fst r) (c_eqs c) (snd r))).
Proof.
  intros H. inversion H as [n k cs ss es Hk Ht Hcs Hss Hnd]; subst.
  cbn [build].
  rewrite (flatten_extends_no_extends root f (CDef n k cs [] ss es) lex []) by (simpl; auto).
  cbn [bind x_kind x_classes x_syms x_eqs x_menv c_kind c_name c_classes c_syms c_eqs].
  destruct (Pos.eqb_spec k kBuiltin) as [E|_]; [contradiction|].
  cbn [app forallb negb].
  rewrite (od_update_fresh s_name Pos.eqb pos_eqb_spec' ss []) by (simpl; exact Hnd).
  reflexivity.
Qed.

Lemma build_kind root n c lex parent i :
  plain c -> build root false n c lex parent [] [] = Ok i ->
  exists a b d e, i = Inst a (c_kind c) b d e.
Proof.
  intros H B. destruct n as [|[|f]]; try (simpl in B; discriminate B).
  rewrite (build_plain root f c lex parent H) in B.
  destruct (build_syms _ _ _ _ _ _ _ _) as [r|]; cbn [bind] in B; [|discriminate B].
  inversion B. eexists _, _, _, _. reflexivity.
Qed.

(* ------------------------------------------------------------------ build on an alias class *)
Lemma path_eqb_single t lex n : n <> t -> path_eqb ([] ++ [t]) (lex ++ [n]) = false.
Proof.
  intros N. destruct lex as [|a l]; cbn [app path_eqb].
  - destruct (Pos.eqb_spec t n); [congruence | reflexivity].
  - destruct l; cbn [app path_eqb]; rewrite andb_false_r; reflexivity.
Qed.

Lemma build_alias root f c lex parent i :
  alias c -> build root false f c lex parent [] [] = Ok i ->
  exists r m t, i = Inst r kBuiltin [ISym iValueSym [] [] (TyElem [t]) []] [] m /\
                c = CDef (c_name c) kType [] [([t], [])] [] [] /\ mem_id t BUILTIN = true /\ f <> 0.
Proof.
  intros [n t Ht Hn] B.
  destruct f as [|[|[|f]]]; try (cbn [build flatten_extends bind] in B; discriminate B).
  - (* fuel 2: the inner flatten_extends runs out of fuel *)
    cbn [build flatten_extends c_exts fold_left bind fst snd length] in B.
    unfold find_base in B. cbn [head_id] in B. rewrite Ht in B. cbn [bind c_name builtin_class c_kind] in B.
    rewrite (path_eqb_single t lex n Hn) in B. cbn [bind] in B. discriminate B.
  - cbn [build flatten_extends c_exts fold_left bind fst snd length] in B.
    unfold find_base in B. cbn [head_id] in B. rewrite Ht in B.
    cbn [bind c_name builtin_class c_kind c_exts c_classes c_syms c_eqs fold_left] in B.
    rewrite (path_eqb_single t lex n Hn) in B.
    cbv beta iota zeta delta [bind x_kind x_classes x_syms x_eqs x_menv Pos.eqb kBuiltin Nat.ltb Nat.leb andb
                              od_update fold_left od_set entries_of map app add_value_mods s_name s_type
                              s_prefixes s_dims s_mods iValueSym negb forallb mem_id head_id existsb
                              m_target orb] in B.
    cbn [build_syms s_name s_type head_id] in B. rewrite Ht in B.
    cbn [filter flat_map app s_mods s_prefixes s_dims rev bind fst snd] in B.
    inversion B. eexists _, _, t. repeat split; try reflexivity; try assumption. discriminate.
Qed.

(* ------------------------------------------------------------------ the symbol loop of build *)
(* ------------------------------------------------------------------ spec side: types *)
Lemma elem_type_builtin f S tref :
  mem_id (head_id tref) BUILTIN = true -> elem_type f S tref = Some (Some (tref, [])).
Proof. intros H. destruct f; cbn [elem_type]; rewrite H; reflexivity. Qed.

Lemma elem_type_struct f S tref tc tlex tS b :
  mem_id (head_id tref) BUILTIN = false -> lookup S tref = Some (tc, tlex, tS, b) ->
  c_kind tc <> kType -> elem_type (Datatypes.S f) S tref = Some None.
Proof.
  intros H L K. cbn [elem_type]. rewrite H, L.
  destruct (Pos.eqb_spec (c_kind tc) kType); [contradiction | reflexivity].
Qed.

Lemma plain_kind c : plain c -> c_kind c <> kBuiltin /\ c_kind c <> kType.
Proof. inversion 1; simpl; auto. Qed.

(* ------------------------------------------------------------------ the symbol loop of build, and the
   fused loop build_syms + fs_go against the specification's inst_elems; generic in what is known about
   the classes (Q: a class found by lookup; CP: a class that is instantiated) *)
Section Loop.
  Variable root : list cdef.
  Variable Q : cdef -> path -> scope -> Prop.
  Variable CP : cdef -> path -> scope -> Prop.
  Variable REL : scope -> scope -> Prop.      (* parent chain of the model vs scope of the specification *)

  (* two scopes agree on a type name: same class, same lexical path, related parent chains *)
  Definition agree (me sc : scope) (t : path) : Prop :=
    match lookup me t with
    | Some (c, lex, S1, _) => exists S2 b2, lookup sc t = Some (c, lex, S2, b2) /\ REL S1 S2
    | None => lookup sc t = None
    end.

  Hypothesis HQ : forall tc tlex tparent, Q tc tlex tparent -> alias tc \/ CP tc tlex tparent.
  Hypothesis HK : forall c lex parent n i,
      CP c lex parent -> build root false n c lex parent [] [] = Ok i ->
      exists a b d e, i = Inst a (c_kind c) b d e /\ c_kind c <> kBuiltin /\ c_kind c <> kType.

  Inductive built (f : nat) (me : scope) : sym -> isym -> Prop :=
  | BElem s :
      mem_id (head_id (s_type s)) BUILTIN = true ->
      built f me s (ISym (s_name s) (s_prefixes s) (s_dims s) (TyElem (s_type s)) [])
  | BInst s tc tlex tparent b i :
      mem_id (head_id (s_type s)) BUILTIN = false ->
      lookup me (s_type s) = Some (tc, tlex, tparent, b) ->
      Q tc tlex tparent ->
      build root false f tc tlex tparent [] [] = Ok i ->
      built f me s (ISym (s_name s) (s_prefixes s) (s_dims s) (TyInst i) []).

  Lemma build_syms_plain f me myref :
    forall ss,
    (forall s tc tlex tparent b, In s ss -> lookup me (s_type s) = Some (tc, tlex, tparent, b) -> Q tc tlex tparent) ->
    forall acc l rest,
    Forall plain_sym ss ->
    build_syms root false (build root false f) (extends_builtin root f) me myref ss [] [] acc = Ok (l, rest) ->
    exists l', l = rev acc ++ l' /\ Forall2 (built f me) ss l'.
  Proof.
    induction ss as [|s ss IH]; intros Hme acc l rest Hp H; cbn [build_syms mlookup] in H.
    - inversion H; subst. exists []. rewrite app_nil_r. split; [reflexivity | constructor].
    - inversion Hp as [|? ? [Hm Hnd] Hp']; subst.
      destruct (mem_id (head_id (s_type s)) BUILTIN) eqn:E.
      + rewrite Hm in H. cbn [filter flat_map app] in H.
        apply IH in H; [| intros s0 tc0 tlex0 tp0 b0 Hin0; apply Hme; right; exact Hin0 | assumption]. destruct H as [l' [-> F]].
        eexists (_ :: l'). split; [cbn [rev]; rewrite <- app_assoc; reflexivity|].
        constructor; [apply BElem; assumption | assumption].
      + destruct (lookup me (s_type s)) as [[[[tc tlex] tparent] b]|] eqn:L; [|discriminate H].
        cbn [filter] in H.
        destruct (if b then Ok false else extends_builtin root f tc tlex) as [ib|err] eqn:Eib;
          cbn [bind] in H; [|discriminate H].
        rewrite Hm in H.
        assert (build root false f tc tlex tparent [] [] = Ok (match build root false f tc tlex tparent [] [] with Ok i => i | Err _ => Inst [] xH [] [] [] end)
                /\ build_syms root false (build root false f) (extends_builtin root f) me myref ss [] []
                     (ISym (s_name s) (s_prefixes s) (s_dims s)
                        (TyInst (match build root false f tc tlex tparent [] [] with Ok i => i | Err _ => Inst [] xH [] [] [] end)) [] :: acc) = Ok (l, rest)) as [B H'].
        { destruct ib; cbn [flat_map shift_args bind app map] in H; destruct b; cbn [app map] in H;
            destruct (build root false f tc tlex tparent [] []) as [i|err]; cbn [bind] in H;
            try discriminate H; split; (reflexivity || exact H). }
        apply IH in H'; [| intros s0 tc0 tlex0 tp0 b0 Hin0; apply Hme; right; exact Hin0 | assumption]. destruct H' as [l' [-> F]].
        eexists (_ :: l'). split; [cbn [rev]; rewrite <- app_assoc; reflexivity|].
        pose proof (Hme s _ _ _ _ (or_introl eq_refl) L) as Hq.
        constructor; [eapply BInst; eassumption | assumption].
  Qed.

  Definition IHyp (f : nat) : Prop :=
    forall c lex parent Sp prefix i r,
      CP c lex parent -> REL parent Sp ->
      build root false f c lex parent [] [] = Ok i ->
      flatten_symbols i prefix = Ok r ->
      inst_go f c lex Sp prefix [] = Some (map var_of (fst r), snd r) /\ Forall clean (fst r).

  Definition el_ok (f : nat) (me : scope) (el : elem) (y : isym) : Prop :=
    built f me (el_sym el) y /\ agree me (el_scope el) (s_type (el_sym el)) /\ el_mods el = [].

  Lemma fs_inst f me prefix :
    IHyp f ->
    forall els l', Forall2 (el_ok f me) els l' -> Forall plain_sym (map el_sym els) ->
    forall flat feqs r, Forall clean flat ->
      fs_go flatten_symbols prefix l' flat feqs = Ok r ->
      inst_elems (inst_go f) (elem_type f) prefix els (map var_of flat) feqs
        = Some (map var_of (fst r), snd r) /\ Forall clean (fst r).
  Proof.
    intros IHf els l' F. induction F as [|el y els l' [Hb [Hag Hmods]] F IH]; intros Hp flat feqs r Hc H.
    - cbn [fs_go] in H. inversion H; subst. cbn [inst_elems fst snd]. split; [reflexivity | assumption].
    - destruct el as [[s sc] mods]. cbn [el_sym el_scope el_mods fst snd map] in *. subst mods.
      inversion Hp as [|? ? [Hm Hnd] Hp']; subst.
      destruct Hb as [s E | s tc tlex tparent b i E L Hq B].
      + cbn [fs_go] in H. cbn [inst_elems].
        rewrite (elem_type_builtin f sc (s_type s) E). rewrite Hm.
        change (sub_mods (s_name s) [] ++ flat_args (Some prefix) []) with (@nil mentry).
        change (leaf_attrs ([] ++ [])) with (@nil (ident * expr * option path)).
        rewrite <- (strip_drop prefix (s_prefixes s) Hnd).
        specialize (IH Hp' (f_update flat [mkF (prefix ++ [s_name s]) (s_type s) (strip_io prefix (s_prefixes s)) (s_dims s) [] []]) feqs r).
        rewrite var_of_update in IH. apply IH; [|exact H].
        apply clean_update; [assumption | constructor; [split; reflexivity | constructor]].
      + unfold agree in Hag. rewrite L in Hag. destruct Hag as [tS [b2 [L2 Hs2]]].
        destruct (HQ _ _ _ Hq) as [Hal|Htc].
        { (* the type is an alias of a built-in: the component is a leaf *)
          destruct (build_alias root f tc tlex tparent i Hal B) as [ra [rm [t [-> [Etc [Ht Hf]]]]]].
          cbn [fs_go] in H.
          change (collapses (Inst ra kBuiltin [ISym iValueSym [] [] (TyElem [t]) []] [] rm))
            with (Some (ISym iValueSym [] [] (TyElem [t]) [])) in H.
          cbn [app] in H.
          destruct f as [|f']; [congruence|].
          cbn [inst_elems]. cbn [elem_type]. rewrite E, L2, Etc. cbn [c_kind c_exts].
          change (Pos.eqb kType kType) with true. cbv iota.
          rewrite (elem_type_builtin f' _ [t] Ht). rewrite Hm.
          change (sub_mods (s_name s) [] ++ flat_args (Some prefix) []) with (@nil mentry).
          change (leaf_attrs ([] ++ (flat_args None [] ++ []))) with (@nil (ident * expr * option path)).
          rewrite <- (strip_drop prefix (s_prefixes s) Hnd).
          specialize (IH Hp' (f_update flat [mkF (prefix ++ [s_name s]) [t] (strip_io prefix (s_prefixes s)) (s_dims s) [] []]) feqs r).
          rewrite var_of_update in IH. apply IH; [|exact H].
          apply clean_update; [assumption | constructor; [split; reflexivity | constructor]]. }
        destruct (HK _ _ _ _ _ Htc B) as [ra [rb [rd [re [-> [K1 K2]]]]]].
        cbn [fs_go] in H. rewrite (collapses_plain ra (c_kind tc) rb rd re K1 K2) in H.
        destruct (flatten_symbols (Inst ra (c_kind tc) rb rd re) (prefix ++ [s_name s])) as [r0|err] eqn:Fs;
          cbn [bind] in H; [|discriminate H].
        destruct (IHf tc tlex tparent tS (prefix ++ [s_name s]) _ r0 Htc Hs2 B Fs) as [I0 C0].
        destruct f as [|f']; [simpl in B; discriminate B|].
        cbn [inst_elems].
        rewrite (elem_type_struct f' sc (s_type s) tc tlex tS b2 E L2 K2). rewrite L2, Hm.
        change (sub_mods (s_name s) [] ++ flat_args (Some (prefix)) []) with (@nil mentry).
        rewrite I0.
        specialize (IH Hp' (f_update flat (map (fun s0 => mkF (f_name s0) (f_type s0) (f_prefixes s0) (s_dims s ++ f_dims s0) (f_attrs s0) (f_cmods s0)) (fst r0))) (feqs ++ snd r0) r).
        rewrite var_of_update in IH. rewrite !map_map in IH. rewrite map_map.
        apply IH; [|exact H].
        apply clean_update; [assumption|].
        apply Forall_map. eapply Forall_impl; [|exact C0]. intros s0 [A1 A2]. split; assumption.
  Qed.
End Loop.

(* ================================================================== stage 1: plain libraries *)
Definition Q1 (tc : cdef) (tlex : path) (tparent : scope) : Prop := pclass tc /\ Forall fplain tparent.
Definition CP1 (c : cdef) (lex : path) (parent : scope) : Prop := plain c /\ Forall fplain parent.

Lemma HQ1 tc tlex tparent : Q1 tc tlex tparent -> alias tc \/ CP1 tc tlex tparent.
Proof. intros [[H|H] F]; [right; split; assumption | left; assumption]. Qed.

Lemma HK1 root c lex parent n i :
  CP1 c lex parent -> build root false n c lex parent [] [] = Ok i ->
  exists a b d e, i = Inst a (c_kind c) b d e /\ c_kind c <> kBuiltin /\ c_kind c <> kType.
Proof.
  intros [Hc _] B. destruct (build_kind root n c lex parent i Hc B) as [a [b [d [e ->]]]].
  destruct (plain_kind c Hc). eexists _, _, _, _. split; [reflexivity | split; assumption].
Qed.

Lemma all_classes_plain f c lex S :
  c_exts c = [] ->
  all_classes f c lex S = od_update e_key Pos.eqb [] (entries_of (lex ++ [c_name c]) (c_classes c)).
Proof. intros E. destruct f; cbn [all_classes]; [reflexivity|]. rewrite E. reflexivity. Qed.

Lemma elems_plain f c lex Sp prefix mods :
  c_exts c = [] -> NoDup (map s_name (c_syms c)) ->
  elems (S f) c lex Sp prefix mods =
  Some (map (fun s => (s, class_scope f c lex Sp, mods)) (c_syms c), c_eqs c).
Proof.
  intros E N. cbn [elems]. rewrite E. cbn [fold_left app]. unfold e_update.
  rewrite (od_update_fresh el_name Pos.eqb pos_eqb_spec' _ []); [reflexivity|].
  cbn [map app]. rewrite map_map. exact N.
Qed.

Lemma inst_go_unfold f c lex S prefix mods :
  inst_go (Datatypes.S f) c lex S prefix mods =
  match elems f c lex S prefix mods with
  | None => None
  | Some (els, raw) =>
      match inst_elems (inst_go f) (elem_type f) prefix els [] [] with
      | None => None
      | Some (vs, es) =>
          Some (map (resolve_var (map v_name vs) prefix) vs, es ++ map (resolve_eqn (map v_name vs) prefix) raw)
      end
  end.
Proof. reflexivity. Qed.

Lemma map_el_ok root Q REL f me sc ss l' :
  Forall2 (built root Q f me) ss l' -> (forall t, agree REL me sc t) ->
  Forall2 (el_ok root Q REL f me) (map (fun s => (s, sc, @nil mentry)) ss) l'.
Proof.
  intros F Hs. induction F as [|s0 y0 ss0 l0 Hb F IH]; [constructor|]. cbn [map]. constructor; [|exact IH].
  split; [exact Hb|]. split; [apply Hs | reflexivity].
Qed.

Lemma agree_sim me sc t : sim me sc -> agree sim me sc t.
Proof. intros H. unfold agree. exact (lookup_sim me sc t H). Qed.

Lemma instance_refines root : forall n, IHyp root CP1 sim n.
Proof.
  induction n as [|n IHn]; intros c lex parent Sp prefix i r [Hc Hpar] Hsim B Fs.
  - simpl in B. discriminate B.
  - destruct n as [|f]; [simpl in B; discriminate B|].
    rewrite (build_plain root f c lex parent Hc) in B.
    destruct (build_syms root false (build root false (S f)) (extends_builtin root (S f)) (me_of c lex parent)
                (scope_ref (me_of c lex parent)) (c_syms c) [] [] []) as [[l rest]|err] eqn:BS;
      cbn [bind] in B; [|discriminate B].
    inversion B; subst i; clear B. cbn [fst snd] in Fs.
    inversion Hc as [nm k cs ss es Hk Ht Hcs Hss Hnd]; subst c.
    assert (Forall fplain (me_of (CDef nm k cs [] ss es) lex parent)) as Hme.
    { constructor; [|assumption]. unfold fplain. cbn [f_entries].
      apply od_update_Forall; [constructor | apply entries_plain; assumption]. }
    destruct (build_syms_plain root Q1 (S f) _ _ _ (fun s0 tc tlex tparent b _ L => lookup_plain _ _ _ _ _ _ Hme L)
                _ _ _ Hss BS) as [l' [-> F]].
    cbn [rev app c_syms c_kind c_eqs] in *.
    cbn [flatten_symbols] in Fs.
    destruct (fs_go flatten_symbols prefix l' [] []) as [[flat feqs]|err] eqn:G; cbn [bind] in Fs; [|discriminate Fs].
    assert (sim (me_of (CDef nm k cs [] ss es) lex parent) (class_scope f (CDef nm k cs [] ss es) lex Sp)) as Hs.
    { unfold me_of, class_scope. rewrite all_classes_plain by reflexivity.
      constructor; [split; reflexivity | assumption]. }
    pose proof (map_el_ok root Q1 sim (S f) _ (class_scope f (CDef nm k cs [] ss es) lex Sp) ss l' F
                  (fun t => agree_sim _ _ t Hs)) as F2.
    assert (Forall plain_sym (map el_sym (map (fun s => (s, class_scope f (CDef nm k cs [] ss es) lex Sp, @nil mentry)) ss))) as Hss2.
    { rewrite map_map. cbn [el_sym fst]. rewrite map_id. exact Hss. }
    destruct (fs_inst root Q1 CP1 sim HQ1 (HK1 root) (S f) _ prefix IHn _ l' F2 Hss2 [] [] (flat, feqs) (Forall_nil _) G) as [IS Cl].
    cbn [fst snd map] in IS.
    rewrite (fs_finish_clean _ prefix es flat feqs Cl) in Fs. inversion Fs; subst r; clear Fs.
    cbn [fst snd]. split; [|assumption].
    rewrite inst_go_unfold. rewrite (elems_plain f (CDef nm k cs [] ss es) lex Sp prefix [] eq_refl Hnd).
    cbn [c_syms c_eqs]. rewrite IS.
    rewrite !map_map. cbn [v_name var_of].
    reflexivity.
Qed.

(* ------------------------------------------------------------------ the flat model *)
Lemma drop_value_clean s : clean s -> drop_value s = s.
Proof.
  destruct s as [n t p d a c]; intros [A C]; cbn [f_attrs f_cmods] in A, C; subst.
  unfold drop_value. destruct (is_state_like _); reflexivity.
Qed.

Lemma value_eqs_clean flat : Forall clean flat -> value_eqs flat = [].
Proof.
  induction 1 as [|s l [A C] Hl IH]; [reflexivity|]. unfold value_eqs in *. cbn [flat_map].
  rewrite IH. unfold has_value. rewrite A. reflexivity.
Qed.

Lemma conv_eqs_clean flat : conv_eqs (map var_of flat) = flow_eqs flat.
Proof.
  unfold conv_eqs, flow_eqs.
  replace (flat_map (fun v => match attr_value v with
                              | Some e => if is_variable v then [(ERef (v_name v) [], e)] else []
                              | None => [] end) (map var_of flat)) with (@nil eqn)
    by (induction flat as [|s l IH]; [reflexivity | cbn [map flat_map]; rewrite <- IH; reflexivity]).
  rewrite app_nil_r. induction flat as [|s l IH]; [reflexivity|]. cbn [map flat_map]. rewrite IH. reflexivity.
Qed.

Lemma conv_var_clean s : conv_var (var_of s) = var_of s.
Proof. unfold conv_var. destruct (is_variable (var_of s)); reflexivity. Qed.

(* every class is a plain model/package/... or an alias `type T = Real;` *)
Definition plain_lib (root : list cdef) : Prop := Forall pclass root.

Theorem refines_flat root top r :
  plain_lib root -> ~ (exists c lex Sp b, lookup (lex_scope root []) top = Some (c, lex, Sp, b) /\ alias c) ->
  flatten root false top = Ok r ->
  Forall clean (fst r) /\ PV.Lib.Inst.inst root top = Some (map var_of (fst r), snd r).
Proof.
  intros Hroot Htop H. unfold flatten in H. unfold PV.Lib.Inst.inst.
  destruct (lookup (lex_scope root []) top) as [[[[c lex] parent] b]|] eqn:L; [|discriminate H].
  assert (Forall fplain (lex_scope root [])) as Hsc.
  { unfold lex_scope. cbn [lex_frames_from]. constructor; [|constructor].
    unfold fplain. cbn [f_entries]. apply entries_plain. exact Hroot. }
  destruct (lookup_plain _ _ _ _ _ _ Hsc L) as [[Hc|Hal] Hpar]; [|exfalso; apply Htop; eexists _, _, _, _; split; [reflexivity | exact Hal]].
  destruct (build root false FUEL c lex parent [] []) as [i|err] eqn:B; cbn [bind] in H; [|discriminate H].
  destruct (flatten_symbols i []) as [[flat eqs]|err] eqn:Fs; cbn [bind] in H; [|discriminate H].
  inversion H; subst r; clear H.
  destruct (instance_refines root FUEL c lex parent parent [] i (flat, eqs) (conj Hc Hpar) (sim_refl parent) B Fs)
    as [I Cl].
  cbn [fst snd] in *.
  change INST_FUEL with FUEL. rewrite I.
  rewrite (map_fix drop_value flat) by (eapply Forall_impl; [|exact Cl]; intros s Hs; apply drop_value_clean; exact Hs).
  split; [assumption|].
  rewrite (value_eqs_clean flat Cl), app_nil_r, conv_eqs_clean.
  rewrite map_map. f_equal. f_equal. apply map_ext. intros s. apply conv_var_clean.
Qed.
