(* C18 — proofs about Model/C18_expand.v.  stdlib only. *)
From Coq Require Import String Ascii List Arith ZArith Bool Lia DecimalString DecimalNat FinFun.
From PV Require Import Model.C18_expand.
Import ListNotations.
Open Scope nat_scope.
Open Scope list_scope.

Notation "a +++ b" := (String.append a b) (at level 60, right associativity).

(* ======================================================================================== *)
(* 1. np.ndindex enumerates exactly the in-range index tuples, once each, row-major          *)
Lemma ndindex_In dims : forall idx, In idx (ndindex dims) <-> Forall2 lt idx dims.
Proof.
  induction dims as [|d r IH]; intros idx; cbn [ndindex].
  - split.
    + intros [<-|[]]. constructor.
    + intros H. inversion H. now left.
  - rewrite in_flat_map. split.
    + intros (i & Hi & Hin). apply in_seq in Hi. apply in_map_iff in Hin as (t & <- & Ht).
      constructor; [lia|]. now apply IH.
    + intros H. inversion H as [|i d' t r' Hlt Ht]; subst.
      exists i. split; [apply in_seq; lia|]. apply in_map. now apply IH.
Qed.

Lemma NoDup_app {A} (l1 l2 : list A) :
  NoDup l1 -> NoDup l2 -> (forall x, In x l1 -> ~ In x l2) -> NoDup (l1 ++ l2).
Proof.
  induction l1 as [|a l1 IH]; intros H1 H2 Hd; cbn; auto.
  inversion H1; subst. constructor.
  - rewrite in_app_iff. intros [?|?]; [contradiction|]. eapply Hd; [now left|eauto].
  - apply IH; auto. intros x Hx. apply Hd. now right.
Qed.

Lemma ndindex_NoDup dims : NoDup (ndindex dims).
Proof.
  induction dims as [|d r IH]; cbn [ndindex].
  - repeat constructor. intros [].
  - generalize 0 as s. induction d as [|d IHd]; intros s; cbn [seq flat_map]; [constructor|].
    apply NoDup_app.
    + apply Injective_map_NoDup; auto. intros x y H; now inversion H.
    + apply IHd.
    + intros x Hx Hx'. apply in_map_iff in Hx as (t & <- & _).
      apply in_flat_map in Hx' as (i & Hi & Hin). apply in_seq in Hi.
      apply in_map_iff in Hin as (t' & E & _). inversion E. lia.
Qed.

Lemma ndindex_length dims : length (ndindex dims) = product dims.
Proof.
  induction dims as [|d r IH]; cbn [ndindex product fold_right]; auto.
  fold (product r). generalize 0 as s.
  induction d as [|d IHd]; intros s; cbn [seq flat_map]; auto.
  rewrite app_length, map_length, IHd, IH. lia.
Qed.

(* nth of a grid laid out block by block *)
Lemma nth_grid {A} (f : nat -> nat -> A) (R C : nat) (d : A) :
  forall r c, r < R -> c < C ->
  nth (r + c * R) (flat_map (fun c => map (fun r => f c r) (seq 0 R)) (seq 0 C)) d = f c r.
Proof.
  intros r c Hr Hc.
  assert (G : forall s, nth (r + c * R) (flat_map (fun c => map (fun r => f c r) (seq 0 R)) (seq s C)) d = f (s + c) r).
  { revert c Hc. induction C as [|C IH]; intros c Hc s; [lia|].
    cbn [seq flat_map]. destruct c as [|c].
    - rewrite app_nth1 by (rewrite map_length, seq_length; lia).
      rewrite Nat.add_0_r.
      rewrite nth_indep with (d' := f s 0) by (rewrite map_length, seq_length; lia).
      rewrite map_nth with (d := 0) (f := fun r => f s r).
      rewrite seq_nth by lia. now rewrite Nat.add_0_r.
    - rewrite app_nth2 by (rewrite map_length, seq_length; lia).
      rewrite map_length, seq_length.
      replace (r + S c * R - R) with (r + c * R) by lia.
      rewrite IH by lia. f_equal. lia. }
  now rewrite G.
Qed.

Lemma ndindex_nth2 n m i j : i < n -> j < m -> nth (j + i * m) (ndindex [n; m]) [] = [i; j].
Proof.
  intros Hi Hj. cbn [ndindex].
  assert (E : forall x, flat_map (fun k => map (cons k) [[]]) (seq 0 x) = map (fun k => [k]) (seq 0 x)).
  { intros x. generalize 0. induction x; intros s; cbn; [reflexivity | now rewrite IHx]. }
  rewrite (flat_map_ext _ (fun i0 => map (fun k => [i0; k]) (seq 0 m))).
  - now rewrite (nth_grid (fun a b => [a; b]) m n []) by lia.
  - intros a. rewrite E, map_map. reflexivity.
Qed.

(* ======================================================================================== *)
(* 2. strings: decimal numerals are digit strings and determine the number                   *)
Lemma append_assoc a b c : (a +++ b) +++ c = a +++ (b +++ c).
Proof. induction a; cbn; congruence. Qed.
Lemma append_inv_head a b c : a +++ b = a +++ c -> b = c.
Proof. induction a; cbn; intros H; auto. inversion H; auto. Qed.
Lemma append_nil_r a : a +++ EmptyString = a.
Proof. induction a; cbn; congruence. Qed.

Definition is_digit (c : ascii) : bool :=
  let n := nat_of_ascii c in (48 <=? n) && (n <=? 57).
Fixpoint all_digits (s : string) : bool :=
  match s with EmptyString => true | String c r => is_digit c && all_digits r end.

Lemma uint_digits d : all_digits (NilEmpty.string_of_uint d) = true.
Proof. induction d; cbn; auto. Qed.
Lemma show_nat_digits n : all_digits (show_nat n) = true.
Proof. apply uint_digits. Qed.

Lemma show_nat_inj a b : show_nat a = show_nat b -> a = b.
Proof.
  unfold show_nat. intros H.
  assert (E : Some (Nat.to_uint a) = Some (Nat.to_uint b)).
  { rewrite <- !NilEmpty.usu. now rewrite H. }
  inversion E as [E']. apply (f_equal Nat.of_uint) in E'. now rewrite !Unsigned.of_to in E'.
Qed.

(* a digit string followed by a non-digit is uniquely delimited *)
Lemma digits_sep s1 : forall s2 c1 c2 r1 r2,
  all_digits s1 = true -> all_digits s2 = true -> is_digit c1 = false -> is_digit c2 = false ->
  s1 +++ String c1 r1 = s2 +++ String c2 r2 -> s1 = s2 /\ c1 = c2 /\ r1 = r2.
Proof.
  induction s1 as [|a s1 IH]; intros [|b s2] c1 c2 r1 r2 D1 D2 N1 N2 H; cbn in *.
  - inversion H; auto.
  - inversion H; subst. apply andb_prop in D2 as [D2 _]. congruence.
  - inversion H; subst. apply andb_prop in D1 as [D1 _]. congruence.
  - inversion H; subst. apply andb_prop in D1 as [_ D1]. apply andb_prop in D2 as [_ D2].
    destruct (IH _ _ _ _ _ D1 D2 N1 N2 H2) as (-> & -> & ->). auto.
Qed.

Arguments show_nat : simpl never.
Notation shows l := (map (fun i : nat => show_nat (S i)) l).

(* "i1,i2,...,ik]" followed by anything determines the indices *)
Lemma commas_sep l1 : forall l2 r1 r2,
  length l1 = length l2 -> l1 <> [] ->
  commas (shows l1) +++ String "]" r1 = commas (shows l2) +++ String "]" r2 -> l1 = l2 /\ r1 = r2.
Proof.
  induction l1 as [|a l1 IH]; intros [|b l2] r1 r2 HL HN H; try (cbn in HL; congruence).
  destruct l1 as [|a' l1], l2 as [|b' l2]; try (cbn in HL; congruence).
  - change (commas (shows [a])) with (show_nat (S a)) in H.
    change (commas (shows [b])) with (show_nat (S b)) in H.
    apply digits_sep in H as (E & _ & ->); auto using show_nat_digits.
    apply show_nat_inj in E. inversion E. auto.
  - change (commas (shows (a :: a' :: l1))) with (show_nat (S a) +++ String "," (commas (shows (a' :: l1)))) in H.
    change (commas (shows (b :: b' :: l2))) with (show_nat (S b) +++ String "," (commas (shows (b' :: l2)))) in H.
    rewrite !append_assoc in H. cbn [append] in H.
    apply digits_sep in H as (E & _ & H); auto using show_nat_digits.
    apply show_nat_inj in E. inversion E; subst.
    assert (HL' : length (a' :: l1) = length (b' :: l2)) by (cbn in HL |- *; lia).
    assert (HN' : a' :: l1 <> []) by discriminate.
    destruct (IH _ _ _ HL' HN' H) as (E' & ->). rewrite E'. auto.
Qed.

Definition total (g : list (list nat)) : nat := length (concat g).

Lemma firstn_skipn_eq {A} k (a b : list A) : firstn k a = firstn k b -> skipn k a = skipn k b -> a = b.
Proof. intros H1 H2. rewrite <- (firstn_skipn k a), <- (firstn_skipn k b). congruence. Qed.

(* the rendered name determines the index tuple (names and shape fixed) *)
Lemma render_sep names : forall g i1 i2 s1 s2,
  length i1 = total g -> length i2 = total g -> length names = length g ->
  render names g i1 +++ s1 = render names g i2 +++ s2 -> i1 = i2 /\ s1 = s2.
Proof.
  induction names as [|n ns IH]; intros [|g gs] i1 i2 s1 s2 L1 L2 LN H; try (cbn in LN; congruence).
  - unfold total in *. cbn in *. destruct i1, i2; cbn in *; try congruence. auto.
  - unfold total in L1, L2. cbn [concat] in L1, L2. rewrite app_length in L1, L2.
    cbn [render] in H. rewrite !append_assoc in H. apply append_inv_head in H.
    assert (K : forall i : list nat, length i = length g + length (concat gs) ->
                length (firstn (length g) i) = length g /\ length (skipn (length g) i) = total gs).
    { intros i Li. rewrite firstn_length, skipn_length. unfold total. lia. }
    destruct (K _ L1) as (F1 & S1). destruct (K _ L2) as (F2 & S2).
    assert (Tail : forall t1 t2,
               (match ns with [] => EmptyString | _ => String "." (render ns gs t1) end) +++ s1
               = (match ns with [] => EmptyString | _ => String "." (render ns gs t2) end) +++ s2 ->
               length t1 = total gs -> length t2 = total gs -> t1 = t2 /\ s1 = s2).
    { intros t1 t2 HT T1 T2. destruct ns as [|n' ns'].
      - destruct gs; [|cbn in LN; congruence]. unfold total in T1, T2. cbn in T1, T2.
        destruct t1, t2; cbn in *; try congruence. auto.
      - cbn [append] in HT. inversion HT as [HT']. apply IH in HT'; auto; cbn in LN |- *; lia. }
    destruct (Nat.eqb (length g) 0) eqn:EK.
    + apply Nat.eqb_eq in EK. cbn [append] in H.
      apply Tail in H as (E & ->); auto. split; auto.
      apply (firstn_skipn_eq (length g)); auto. rewrite EK. reflexivity.
    + apply Nat.eqb_neq in EK. cbn [append] in H. inversion H as [H'].
      rewrite !append_assoc in H'. cbn [append] in H'.
      apply commas_sep in H' as (EF & H'); [| congruence | intros E; rewrite E in F1; cbn in F1; lia].
      apply Tail in H' as (ES & ->); auto. split; auto.
      apply (firstn_skipn_eq (length g)); auto.
Qed.

Lemma scalar_name_inj name s i1 i2 n :
  length i1 = length (iter_dims s) -> length i2 = length (iter_dims s) ->
  scalar_name name s i1 = Some n -> scalar_name name s i2 = Some n -> i1 = i2.
Proof.
  intros L1 L2. destruct s as [g|d]; cbn [scalar_name iter_dims] in *.
  - destruct (strip_der _ _) as [k rest]. destruct (rstrip_paren rest) as [mid j].
    destruct (Nat.eqb _ _) eqn:E; [|discriminate]. apply Nat.eqb_eq in E.
    intros H1 H2. rewrite <- H2 in H1. inversion H1 as [H]. apply append_inv_head in H.
    apply render_sep in H as (-> & _); auto.
  - intros H1 H2. rewrite <- H2 in H1. inversion H1 as [H].
    assert (H' : render [name] [d] i1 +++ EmptyString = render [name] [d] i2 +++ EmptyString)
      by (now rewrite !append_nil_r).
    apply render_sep in H' as (-> & _); auto; unfold total; cbn; now rewrite app_nil_r.
Qed.

(* every in-range element gets a name, or none does (the assert on the component count) *)
Lemma scalar_name_some name s i1 i2 n : scalar_name name s i1 = Some n -> exists n', scalar_name name s i2 = Some n'.
Proof.
  destruct s; cbn [scalar_name]; [|eauto].
  destruct (strip_der _ _). destruct (rstrip_paren _). destruct (Nat.eqb _ _); [eauto|discriminate].
Qed.

Lemma opt_all_some {A} (l : list (option A)) r : opt_all l = Some r -> l = map Some r.
Proof.
  revert r. induction l as [|[a|] l IH]; intros r H.
  - inversion H; auto.
  - change (opt_all (Some a :: l)) with (match opt_all l with Some r => Some (a :: r) | None => None end) in H.
    destruct (opt_all l) eqn:E; [|discriminate]. inversion H; subst. cbn. f_equal. now apply IH.
  - discriminate.
Qed.

Lemma Forall2_length {A B} (R : A -> B -> Prop) l1 l2 : Forall2 R l1 l2 -> length l1 = length l2.
Proof. induction 1; cbn; auto. Qed.

Lemma NoDup_map_inj_on {A B} (f : A -> B) l :
  NoDup l -> (forall a b, In a l -> In b l -> f a = f b -> a = b) -> NoDup (map f l).
Proof.
  induction l as [|x l IH]; intros N Hinj; cbn; [constructor|].
  inversion N; subst. constructor.
  - intros Hin. apply in_map_iff in Hin as (y & Hy & Hyl).
    assert (y = x) by (apply Hinj; auto; [now right | now left]). subst. contradiction.
  - apply IH; auto. intros a b Ha Hb. apply Hinj; now right.
Qed.

Theorem bijection name s names :
  opt_all (map (scalar_name name s) (ndindex (iter_dims s))) = Some names ->
  let dims := iter_dims s in
  (forall idx, In idx (ndindex dims) <-> Forall2 lt idx dims)
  /\ NoDup (ndindex dims)
  /\ map Some names = map (scalar_name name s) (ndindex dims)
  /\ length names = product dims
  /\ NoDup names
  /\ (forall i1 i2 n, Forall2 lt i1 dims -> Forall2 lt i2 dims ->
        scalar_name name s i1 = Some n -> scalar_name name s i2 = Some n -> i1 = i2).
Proof.
  intros H dims. apply opt_all_some in H.
  assert (Inj : forall i1 i2 n, Forall2 lt i1 dims -> Forall2 lt i2 dims ->
        scalar_name name s i1 = Some n -> scalar_name name s i2 = Some n -> i1 = i2).
  { intros i1 i2 n F1 F2. apply scalar_name_inj; eauto using Forall2_length. }
  repeat split; auto.
  - apply ndindex_In.
  - apply ndindex_In.
  - apply ndindex_NoDup.
  - apply (f_equal (@length _)) in H. rewrite !map_length in H. rewrite <- H. apply ndindex_length.
  - apply (NoDup_map_inv Some). rewrite <- H. apply NoDup_map_inj_on; [apply ndindex_NoDup|].
    intros a b Ha Hb E.
    assert (Hin := in_map (scalar_name name s) _ _ Ha). rewrite H in Hin.
    apply in_map_iff in Hin as (n & Hn & _).
    apply (Inj a b n); try (apply ndindex_In; assumption); congruence.
Qed.

Lemma one_based n i j d1 d2 :
  render [n] [[d1; d2]] [i; j] = n +++ String "[" (show_nat (i + 1) +++ String "," (show_nat (j + 1) +++ String "]" EmptyString)).
Proof.
  cbn. rewrite !Nat.add_1_r. rewrite append_nil_r, !append_assoc. reflexivity.
Qed.

(* ======================================================================================== *)
(* 3. layout: reshape(vertcat(scalars), (n2, n1)).T has the row-major k-th scalar at (i, j)  *)
Theorem layout names n m i j :
  length names = n * m -> i < n -> j < m ->
  mget (subst_matrix names n m) i j = nth (j + i * m) names EmptyString
  /\ nth (j + i * m) (ndindex [n; m]) [] = [i; j]
  /\ m_rows (subst_matrix names n m) = n /\ m_cols (subst_matrix names n m) = m.
Proof.
  intros L Hi Hj. repeat split.
  - unfold subst_matrix, transpose, reshape, column, mget at 1. cbn [m_rows m_cols m_data].
    rewrite (nth_grid (fun c r => mget (mk_mat m n names) c r) n m EmptyString i j Hi Hj).
    unfold mget. cbn [m_rows m_data]. reflexivity.
  - now apply ndindex_nth2.
Qed.

(* ======================================================================================== *)
(* 4. attributes                                                                              *)
Fixpoint shaped (dims : list nat) (v : nlist) : Prop :=
  match dims with
  | [] => exists a, v = NLeaf a
  | d :: r => exists l, v = NNode l /\ length l = d /\ Forall (shaped r) l
  end.

(* row-major flattening of a nested list of the given rank *)
Fixpoint flat (dims : list nat) (v : nlist) : list aval :=
  match dims with
  | [] => match v with NLeaf a => [a] | _ => [] end
  | _ :: r => match v with NNode l => flat_map (flat r) l | _ => [] end
  end.

Lemma flat_map_seq_nth {A B} (g : A -> list B) (l : list A) (h : nat -> list B) :
  (forall i x, nth_error l i = Some x -> h i = g x) ->
  flat_map h (seq 0 (length l)) = flat_map g l.
Proof.
  revert h. induction l as [|a l IH]; intros h H; cbn [length seq flat_map]; auto.
  rewrite (H 0 a eq_refl). f_equal.
  rewrite <- seq_shift, flat_map_concat_map, map_map, <- flat_map_concat_map.
  apply IH. intros i x Hx. apply (H (S i)). exact Hx.
Qed.

Theorem attributes_list dims : forall v, shaped dims v ->
  map (sel_list v) (ndindex dims) = map SVal (flat dims v).
Proof.
  induction dims as [|d r IH]; intros v Hs; cbn [shaped] in Hs.
  - destruct Hs as (a & ->). reflexivity.
  - destruct Hs as (l & -> & <- & Hall). cbn [ndindex flat].
    rewrite flat_map_concat_map, concat_map, map_map, <- flat_map_concat_map.
    rewrite (flat_map_seq_nth (fun x => map SVal (flat r x)) l).
    + rewrite !flat_map_concat_map, concat_map, map_map. reflexivity.
    + intros i x Hx. rewrite map_map. cbn [sel_list]. rewrite Hx.
      apply IH. rewrite Forall_forall in Hall. apply Hall. eapply nth_error_In; eauto.
Qed.

Lemma attributes_scalar a idx : sel_attr (AtScalar a) idx = SVal a.
Proof. reflexivity. Qed.

Lemma attributes_matrix ismx n1 n2 rows i j :
  1 < n1 * n2 -> i < n1 -> j < n2 ->
  sel_attr (AtMat ismx n1 n2 rows) [i; j] = mat_get rows i j.
Proof.
  intros H Hi Hj. destruct ismx; cbn [sel_attr sel_mat].
  - destruct (Nat.eqb_spec (n1 * n2) 1); [lia|].
    apply Nat.ltb_lt in Hi, Hj. now rewrite Hi, Hj.
  - apply Nat.ltb_lt in Hi, Hj. now rewrite Hi, Hj.
Qed.

Lemma attributes_column ismx n rows k :
  1 < n -> k < n -> sel_attr (AtMat ismx n 1 rows) [k] = mat_get rows k 0.
Proof.
  intros H Hk. assert (E : (k <? n * 1) = true) by (apply Nat.ltb_lt; lia).
  destruct ismx; cbn [sel_attr].
  - destruct (Nat.eqb_spec (n * 1) 1); [lia|]. cbn [sel_mat]. rewrite E.
    now rewrite Nat.mod_small, Nat.div_small by lia.
  - cbn [sel_mat]. rewrite E. now rewrite Nat.mod_small, Nat.div_small by lia.
Qed.

(* ======================================================================================== *)
(* 5. outputs are renamed in place, delay states keep their order                            *)
Lemma index_of_app x pre post : ~ In x pre -> index_of x (pre ++ x :: post) = Some (length pre).
Proof.
  induction pre as [|y pre IH]; intros H; cbn.
  - now rewrite String.eqb_refl.
  - destruct (String.eqb_spec x y) as [->|_]; [exfalso; apply H; now left|].
    rewrite IH; auto. intros ?; apply H; now right.
Qed.

Lemma index_of_none x l : ~ In x l -> index_of x l = None.
Proof.
  induction l as [|y l IH]; intros H; cbn; auto.
  destruct (String.eqb_spec x y) as [->|_]; [exfalso; apply H; now left|].
  rewrite IH; auto. intros ?; apply H; now right.
Qed.

Lemma firstn_len_app {A} (pre l : list A) : firstn (length pre) (pre ++ l) = pre.
Proof. induction pre; cbn; congruence. Qed.
Lemma skipn_len_app {A} (pre : list A) x post : skipn (S (length pre)) (pre ++ x :: post) = post.
Proof. induction pre; cbn in *; auto. Qed.

Theorem outputs_in_place pre post x new :
  ~ In x pre -> rename_outputs (pre ++ x :: post) x new = pre ++ new ++ post.
Proof.
  intros H. unfold rename_outputs. rewrite index_of_app by auto.
  now rewrite firstn_len_app, skipn_len_app.
Qed.

Theorem outputs_untouched outs x new : ~ In x outs -> rename_outputs outs x new = outs.
Proof. intros H. unfold rename_outputs. now rewrite index_of_none. Qed.

Lemma rename_delay_head x rest new : rename_delay (x :: rest) x new = rest ++ new.
Proof. unfold rename_delay. cbn. now rewrite String.eqb_refl. Qed.

(* the loop visits the delay states in list order (they are the first inputs, in creation order);
   each visit pops the state and appends its scalars: at the end the scalars stand in the
   original order of their states *)
Theorem delay_order (f : string -> list string) (ds : list string) :
  fold_left (fun acc x => rename_delay acc x (f x)) ds ds = flat_map f ds.
Proof.
  assert (G : forall rest done,
             fold_left (fun acc x => rename_delay acc x (f x)) rest (rest ++ done) = done ++ flat_map f rest).
  { induction rest as [|x rest IH]; intros done; cbn [fold_left flat_map].
    - now rewrite app_nil_r.
    - cbn [app]. rewrite rename_delay_head, <- app_assoc, IH, <- app_assoc. reflexivity. }
  specialize (G ds []). now rewrite app_nil_r in G.
Qed.

(* ======================================================================================== *)
(* 6. residual, element-wise expression language                                              *)
Inductive expr :=
  | Elem (v : string) (i j : nat)      (* element (i, j) of the matrix symbol v, 0-based *)
  | Sym (s : string)
  | Const (z : Z)
  | Add (a b : expr) | Mul (a b : expr) | Neg (a : expr).

Section Residual.
  Variable dims : string -> nat * nat.             (* MX shape of every array symbol *)
  Variable names : string -> list string.          (* its scalars, in np.ndindex order *)
  Variable envU : string -> nat -> nat -> Z.       (* a point of the unexpanded model *)
  Variable envS : string -> Z.                     (* the same point, scalars by name *)

  Fixpoint evalU (e : expr) : Z :=
    match e with
    | Elem v i j => envU v i j
    | Sym s => envS s
    | Const z => z
    | Add a b => evalU a + evalU b
    | Mul a b => evalU a * evalU b
    | Neg a => - evalU a
    end.
  Fixpoint evalE (e : expr) : Z :=
    match e with
    | Elem v i j => 0            (* no matrix symbol is left *)
    | Sym s => envS s
    | Const z => z
    | Add a b => evalE a + evalE b
    | Mul a b => evalE a * evalE b
    | Neg a => - evalE a
    end.
  (* ca.substitute(eq, symbols, values): every element reference reads the substituted matrix *)
  Fixpoint subst (e : expr) : expr :=
    match e with
    | Elem v i j => Sym (mget (subst_matrix (names v) (fst (dims v)) (snd (dims v))) i j)
    | Sym s => Sym s
    | Const z => Const z
    | Add a b => Add (subst a) (subst b)
    | Mul a b => Mul (subst a) (subst b)
    | Neg a => Neg (subst a)
    end.
  Fixpoint in_range (e : expr) : Prop :=
    match e with
    | Elem v i j => i < fst (dims v) /\ j < snd (dims v)
    | Sym _ | Const _ => True
    | Add a b | Mul a b => in_range a /\ in_range b
    | Neg a => in_range a
    end.

  (* the renaming: element (i, j) of v has the value of the scalar enumerated at [i; j] *)
  Hypothesis names_len : forall v, length (names v) = fst (dims v) * snd (dims v).
  Hypothesis renaming : forall v i j, i < fst (dims v) -> j < snd (dims v) ->
      envU v i j = envS (nth (j + i * snd (dims v)) (names v) EmptyString).

  Theorem residual_elementwise e : in_range e -> evalE (subst e) = evalU e.
  Proof.
    induction e; cbn [subst evalE evalU in_range]; intros H; auto.
    - destruct H as (Hi & Hj).
      destruct (layout (names v) (fst (dims v)) (snd (dims v)) i j (names_len v) Hi Hj) as (-> & _).
      symmetry. now apply renaming.
    - destruct H. now rewrite IHe1, IHe2.
    - destruct H. now rewrite IHe1, IHe2.
    - now rewrite IHe.
  Qed.
End Residual.

(* ======================================================================================== *)
(* 7. expand_var: what one expanded variable consists of; when it cannot fail                 *)
Lemma expand_var_spec v ex :
  expand_var v = Some ex ->
  let idxs := ndindex (iter_dims (ushape v)) in
  opt_all (map (scalar_name (uname v) (ushape v)) idxs) = Some (map fst ex)
  /\ map snd ex = map (fun idx => map (fun a => sel_attr a idx) (uattrs v)) idxs
  /\ length ex = product (iter_dims (ushape v)).
Proof.
  unfold expand_var. intros H. cbv zeta in *. set (idxs := ndindex (iter_dims (ushape v))) in *.
  destruct (opt_all (map (scalar_name (uname v) (ushape v)) idxs)) as [names|] eqn:E; [|discriminate].
  destruct (forallb _ _); [|discriminate]. inversion H; subst ex; clear H.
  assert (L : length names = length idxs).
  { apply opt_all_some in E. apply (f_equal (@length _)) in E. now rewrite !map_length in E. }
  assert (C : forall (A B : Type) (l1 : list A) (l2 : list B), length l1 = length l2 ->
              map fst (combine l1 l2) = l1 /\ map snd (combine l1 l2) = l2).
  { intros A B l1. induction l1 as [|a l1 IH]; intros [|b l2] HL; cbn in *; try discriminate; auto.
    destruct (IH l2) as (-> & ->); auto. }
  destruct (C _ _ names (map (fun idx => map (fun a => sel_attr a idx) (uattrs v)) idxs)) as (-> & ->).
  - now rewrite map_length.
  - repeat split; auto. rewrite combine_length, map_length, L, Nat.min_id. apply ndindex_length.
Qed.

(* attributes the expansion is defined on: scalars and lists of the full rank of the index *)
Definition attr_full (dims : list nat) (a : attr) : Prop :=
  match a with
  | AtScalar _ => True
  | AtList l => shaped dims l
  | AtMat _ _ _ _ => False
  end.

Lemma sel_full_ok dims a idx : attr_full dims a -> In idx (ndindex dims) -> sel_ok (sel_attr a idx) = true.
Proof.
  destruct a as [x|l|]; cbn [attr_full sel_attr]; intros F Hin; [reflexivity| |contradiction].
  apply attributes_list in F.
  apply (in_map (sel_list l)) in Hin. rewrite F in Hin. apply in_map_iff in Hin as (y & <- & _). reflexivity.
Qed.

Theorem expand_total v names :
  opt_all (map (scalar_name (uname v) (ushape v)) (ndindex (iter_dims (ushape v)))) = Some names ->
  Forall (attr_full (iter_dims (ushape v))) (uattrs v) ->
  exists ex, expand_var v = Some ex.
Proof.
  intros HN HF. unfold expand_var. rewrite HN.
  assert (E : forallb (forallb sel_ok)
                (map (fun idx => map (fun a => sel_attr a idx) (uattrs v)) (ndindex (iter_dims (ushape v)))) = true).
  { apply forallb_forall. intros x Hx. apply in_map_iff in Hx as (idx & <- & Hidx).
    apply forallb_forall. intros y Hy. apply in_map_iff in Hy as (a & <- & Ha).
    rewrite Forall_forall in HF. eapply sel_full_ok; eauto. }
  rewrite E. eauto.
Qed.
