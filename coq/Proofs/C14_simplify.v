(* C14 / C15 — proofs about Model/C14_simplify.v *)
From Coq Require Import ZArith QArith Qcanon List Bool PArith Lia.
Import ListNotations.
From PV Require Import Model.C14_simplify.
Open Scope Qc_scope.

(* ---------- rationals ---------- *)
Lemma qeqb_true a b : qeqb a b = true -> a = b.
Proof. unfold qeqb. destruct (Qc_eq_dec a b); congruence. Qed.

Lemma Qc_sub_0 (a b : Qc) : a - b = 0 <-> a = b.
Proof.
  split; intro H.
  - assert (E : a = (a - b) + b) by ring. rewrite E, H. ring.
  - subst. ring.
Qed.
Lemma Qc_add_0 (a b : Qc) : a + b = 0 <-> a = - b.
Proof.
  split; intro H.
  - assert (E : a = (a + b) - b) by ring. rewrite E, H. ring.
  - subst. ring.
Qed.

(* ---------- node identity and is_equal ---------- *)
Lemma same_node_sound r a b : same_node a b = true -> eval r a = eval r b.
Proof.
  destruct a, b; simpl; try discriminate. intro H. apply Pos.eqb_eq in H. now subst.
Qed.
Lemma uop_eqb_true a b : uop_eqb a b = true -> a = b.
Proof. destruct a, b; simpl; congruence. Qed.
Lemma bop_eqb_true a b : bop_eqb a b = true -> a = b.
Proof. destruct a, b; simpl; congruence. Qed.

Lemma is_equal1_sound r a b : is_equal1 a b = true -> eval r a = eval r b.
Proof.
  unfold is_equal1. intro H. apply orb_true_iff in H. destruct H as [H | H].
  - now apply same_node_sound.
  - destruct a, b; try discriminate.
    + simpl. now apply qeqb_true.
    + apply andb_true_iff in H. destruct H as [Ho Hd]. apply uop_eqb_true in Ho. subst.
      simpl. now rewrite (same_node_sound r _ _ Hd).
    + apply andb_true_iff in H. destruct H as [Ho Hd]. apply bop_eqb_true in Ho. subst.
      apply orb_true_iff in Hd. destruct Hd as [Hd | Hd].
      * apply andb_true_iff in Hd. destruct Hd as [H1 H2].
        simpl. now rewrite (same_node_sound r _ _ H1), (same_node_sound r _ _ H2).
      * apply andb_true_iff in Hd. destruct Hd as [Hd H2].
        apply andb_true_iff in Hd. destruct Hd as [Hc H1].
        simpl. rewrite (same_node_sound r _ _ H1), (same_node_sound r _ _ H2).
        destruct o0; simpl in *; try discriminate; ring.
Qed.

(* ---------- the on-the-fly simplifying constructors preserve the value ---------- *)
Lemma mk_un_sound r o x : eval r (mk_un o x) = ev_un o (eval r x).
Proof.
  destruct x; simpl; try reflexivity.
  destruct o0; simpl; try reflexivity.
  destruct o; simpl; ring.
Qed.

Lemma is_zero_sound r x : is_zero x = true -> eval r x = 0.
Proof. destruct x; simpl; try discriminate. apply qeqb_true. Qed.

Definition rec_ok (rec : bop -> expr -> expr -> expr) : Prop :=
  forall r o x y, eval r (rec o x y) = ev_bin o (eval r x) (eval r y).

Lemma bin_generic_sound rec : rec_ok rec -> rec_ok (bin_generic rec).
Proof.
  intros Hrec r o x y. unfold bin_generic.
  destruct (match o with Mul => is_zero x || is_zero y | _ => false end) eqn:Hz.
  { destruct o; try discriminate. apply orb_true_iff in Hz.
    destruct Hz as [Hz | Hz]; apply (is_zero_sound r) in Hz; simpl; rewrite Hz; ring. }
  destruct (is_equal1 y x) eqn:He.
  { apply (is_equal1_sound r) in He. destruct o; simpl; rewrite ?mk_un_sound; simpl; rewrite He; ring. }
  destruct y as [y0 | q | uo d | bo d0 d1]; try reflexivity.
  - destruct (negb (is_const x) && comm o) eqn:Hc.
    + rewrite Hrec. apply andb_true_iff in Hc. destruct Hc as [_ Hc].
      destruct o; simpl in *; try discriminate; ring.
    + destruct o.
      * destruct (qeqb q 0) eqn:Hq; try reflexivity. apply qeqb_true in Hq. subst. simpl. ring.
      * destruct (qeqb q 0) eqn:Hq; try reflexivity. apply qeqb_true in Hq. subst. simpl. ring.
      * destruct (qeqb q 1) eqn:Hq; try reflexivity. apply qeqb_true in Hq. subst. simpl. ring.
  - destruct uo; try reflexivity.
    destruct o; rewrite ?mk_un_sound, Hrec; simpl; ring.
  - destruct bo; try reflexivity; destruct o; try reflexivity.
    + destruct (is_equal1 x d0) eqn:E0.
      { apply (is_equal1_sound r) in E0. rewrite mk_un_sound. simpl. rewrite E0. ring. }
      destruct (is_equal1 x d1) eqn:E1; try reflexivity.
      apply (is_equal1_sound r) in E1. rewrite mk_un_sound. simpl. rewrite E1. ring.
    + destruct (is_equal1 x d1) eqn:E1; try reflexivity.
      apply (is_equal1_sound r) in E1. simpl. rewrite E1. ring.
Qed.

Lemma bin_const_sound rec : rec_ok rec ->
  forall r o v y, eval r (bin_const rec o v y) = ev_bin o v (eval r y).
Proof.
  intros Hrec r o v y. pose proof (bin_generic_sound rec Hrec r) as G.
  unfold bin_const. destruct o.
  - destruct (qeqb v 0) eqn:Hv. { apply qeqb_true in Hv. subst. simpl. ring. }
    destruct y; try (rewrite G; reflexivity). reflexivity.
  - destruct (qeqb v 0) eqn:Hv. { apply qeqb_true in Hv. subst. rewrite mk_un_sound. simpl. ring. }
    destruct y; try (rewrite G; reflexivity). reflexivity.
  - destruct (qeqb v 1) eqn:H1. { apply qeqb_true in H1. subst. simpl. ring. }
    destruct (qeqb v (- (1))) eqn:H2. { apply qeqb_true in H2. subst. rewrite mk_un_sound. simpl. ring. }
    destruct (qeqb v (Q2Qc 2)) eqn:H3.
    { apply qeqb_true in H3. subst. rewrite mk_un_sound. simpl.
      assert (E : Q2Qc 2 = 1 + 1) by (apply Qc_is_canon; reflexivity). rewrite E. ring. }
    destruct y; try (rewrite G; reflexivity). reflexivity.
Qed.

Lemma bin_top_sound rec : rec_ok rec -> rec_ok (bin_top rec).
Proof.
  intros Hrec r o x y. pose proof (bin_generic_sound rec Hrec r) as G.
  unfold bin_top.
  destruct x as [x0 | v | uo d | bo d0 d1].
  - apply G.
  - apply bin_const_sound; assumption.
  - destruct uo.
    + destruct o; rewrite ?mk_un_sound, Hrec; simpl; ring.
    + apply G.
    + destruct o; try apply G.
      destruct (is_equal1 y d) eqn:He; try apply G.
      apply (is_equal1_sound r) in He. simpl. rewrite He. ring.
  - destruct bo.
    + destruct o; try apply G.
      destruct (is_equal1 y d0) eqn:H0. { apply (is_equal1_sound r) in H0. simpl. rewrite H0. ring. }
      destruct (is_equal1 y d1) eqn:H1. { apply (is_equal1_sound r) in H1. simpl. rewrite H1. ring. }
      apply G.
    + destruct o.
      * destruct (is_equal1 y d1) eqn:H1; try apply G.
        apply (is_equal1_sound r) in H1. simpl. rewrite H1. ring.
      * destruct (is_equal1 y d0) eqn:H0; try apply G.
        apply (is_equal1_sound r) in H0. rewrite mk_un_sound. simpl. rewrite H0. ring.
      * apply G.
    + apply G.
Qed.

Lemma mk_bin_f_sound n : rec_ok (mk_bin_f n).
Proof.
  induction n as [| n IH].
  - intros r o x y. reflexivity.
  - simpl. apply bin_top_sound. exact IH.
Qed.
Lemma mk_bin_sound r o x y : eval r (mk_bin o x y) = ev_bin o (eval r x) (eval r y).
Proof. apply mk_bin_f_sound. Qed.

(* ---------- substitution lemma ---------- *)
Definition upd (r : env) (s : sub) : env :=
  fun x => match lookup x s with Some v => eval r v | None => r x end.

Lemma subst_sound r s e : eval r (subst s e) = eval (upd r s) e.
Proof.
  induction e as [x | q | o a IH | o a IHa b IHb]; simpl.
  - unfold upd. destruct (lookup x s); reflexivity.
  - reflexivity.
  - now rewrite mk_un_sound, IH.
  - now rewrite mk_bin_sound, IHa, IHb.
Qed.

(* ---------- satisfaction ---------- *)
Definition holds (r : env) (es : list expr) : Prop := Forall (fun e => eval r e = 0) es.
Definition facts (r : env) (l : list (name * expr)) : Prop :=
  Forall (fun p => r (fst p) = eval r (snd p)) l.
Definition pfacts (r : env) (l : list (name * pval)) : Prop :=
  Forall (fun p => match snd p with Some e => r (fst p) = eval r e | None => True end) l.

Lemma lookup_In {B} x (l : list (name * B)) v : lookup x l = Some v -> In (x, v) l.
Proof.
  induction l as [| [y w] l IH]; simpl; try discriminate.
  destruct (Pos.eqb x y) eqn:E.
  - intro H. inversion H. subst. apply Pos.eqb_eq in E. subst. now left.
  - intro H. right. now apply IH.
Qed.

Lemma upd_facts r s : facts r s -> forall x, upd r s x = r x.
Proof.
  intros F x. unfold upd. destruct (lookup x s) eqn:L; try reflexivity.
  apply lookup_In in L. unfold facts in F. rewrite Forall_forall in F.
  specialize (F _ L). simpl in F. now rewrite F.
Qed.

Lemma eval_ext r1 r2 e : (forall x, r1 x = r2 x) -> eval r1 e = eval r2 e.
Proof.
  intro H. induction e; simpl; try congruence.
Qed.

(* the workhorse: under the recorded facts, substituting changes no value *)
Lemma subst_under_facts r s e : facts r s -> eval r (subst s e) = eval r e.
Proof.
  intro F. rewrite subst_sound. apply eval_ext. now apply upd_facts.
Qed.

Lemma holds_subst r s es : facts r s -> (holds r (map (subst s) es) <-> holds r es).
Proof.
  intro F. unfold holds. rewrite Forall_map.
  split; intro H; eapply Forall_impl; try exact H; simpl; intros e He.
  - now rewrite subst_under_facts in He.
  - now rewrite subst_under_facts.
Qed.

Lemma pfacts_subst r s l : facts r s -> (pfacts r (subst_vals s l) <-> pfacts r l).
Proof.
  intro F. unfold pfacts, subst_vals. rewrite Forall_map.
  split; intro H; eapply Forall_impl; try exact H; intros [x v]; simpl;
    destruct v as [e |]; simpl; try tauto; destruct (is_const e); simpl; try tauto;
    rewrite subst_under_facts by assumption; tauto.
Qed.

(* ---------- replace_parameter_values ---------- *)
Lemma split_valued_facts r l :
  pfacts r l <-> pfacts r (fst (split_valued l)) /\ facts r (snd (split_valued l)).
Proof.
  induction l as [| [x v] l IH]; simpl.
  - split; [intros _; split; constructor | intros _; constructor].
  - destruct (split_valued l) as [u d] eqn:E. simpl in IH.
    unfold pfacts, facts in *.
    destruct v as [e |]; [destruct e |]; simpl;
      rewrite ?Forall_cons_iff; simpl; rewrite IH; tauto.
Qed.

Record sat (r : env) (m : model) : Prop := {
  sat_eqs : holds r (eqs m);
  sat_ieqs : holds r (ieqs m);
  sat_consts : pfacts r (consts m);
  sat_params : pfacts r (params m);
  sat_ghost : facts r (ghost m)
}.

Lemma facts_app r a b : facts r (a ++ b) <-> facts r a /\ facts r b.
Proof. unfold facts. apply Forall_app. Qed.
Lemma pfacts_app r a b : pfacts r (a ++ b) <-> pfacts r a /\ pfacts r b.
Proof. unfold pfacts. apply Forall_app. Qed.

Theorem sound_replace_param_values r m : sat r m <-> sat r (replace_param_values m).
Proof.
  unfold replace_param_values. destruct (split_valued (params m)) as [u s] eqn:E.
  pose proof (split_valued_facts r (params m)) as SP. rewrite E in SP. simpl in SP.
  split; intros [H1 H2 H3 H4 H5]; simpl in *.
  - apply SP in H4. destruct H4 as [Hu Hs].
    constructor; simpl.
    + now apply holds_subst.
    + now apply holds_subst.
    + now apply pfacts_subst.
    + now apply pfacts_subst.
    + apply facts_app. tauto.
  - apply facts_app in H5. destruct H5 as [Hg Hs].
    constructor; simpl.
    + now apply (holds_subst r s).
    + now apply (holds_subst r s).
    + now apply (pfacts_subst r s).
    + apply SP. split; [now apply (pfacts_subst r s) | assumption].
    + assumption.
Qed.

(* ---------- eliminate_constant_assignments ---------- *)
Lemma eca_match_sound r al e x v :
  eca_match al e = Some (x, v) -> (eval r e = 0 <-> r x = eval r v).
Proof.
  unfold eca_match. destruct e as [y | q | o a | o d0 d1]; try discriminate.
  - destruct (mem y al); try discriminate. intro H. inversion H. subst. simpl. tauto.
  - destruct o; try discriminate;
      destruct d0 as [y | q | |]; try discriminate; destruct d1 as [z | q' | |]; try discriminate;
      match goal with |- context [mem ?w al] => destruct (mem w al) end; try discriminate;
      intro H; inversion H; subst; simpl; rewrite ?Qc_add_0, ?Qc_sub_0;
      split; intro K; rewrite K; ring.
Qed.

Lemma eca_loop_sound r al es :
  let '(al', cs, kept) := eca_loop al es in
  holds r es <-> holds r kept /\ pfacts r cs.
Proof.
  revert al. induction es as [| e es IH]; intro al; simpl.
  - split; [intros _; split; constructor | intros _; constructor].
  - destruct (eca_match al e) as [[x v] |] eqn:M.
    + specialize (IH (remove1 x al)). destruct (eca_loop (remove1 x al) es) as [[al' cs] kept].
      unfold holds, pfacts in *. rewrite !Forall_cons_iff. simpl.
      rewrite (eca_match_sound r _ _ _ _ M). tauto.
    + specialize (IH al). destruct (eca_loop al es) as [[al' cs] kept].
      unfold holds in *. rewrite !Forall_cons_iff. tauto.
Qed.

Theorem sound_elim_const_assignments r m : sat r m <-> sat r (elim_const_assignments m).
Proof.
  unfold elim_const_assignments.
  pose proof (eca_loop_sound r (algs m) (eqs m)) as L.
  destruct (eca_loop (algs m) (eqs m)) as [[al cs] kept].
  split; intros [H1 H2 H3 H4 H5]; simpl in *.
  - apply L in H1. constructor; simpl; try tauto; apply pfacts_app; tauto.
  - apply pfacts_app in H3. constructor; simpl; try tauto; apply L; tauto.
Qed.

(* each dropped equation goes with exactly one removed unknown *)
Lemma remove1_length x al : NoDup al -> mem x al = true -> S (length (remove1 x al)) = length al.
Proof.
  induction al as [| y al IH]; simpl; try discriminate.
  intros ND H. inversion ND as [| ? ? Hn ND']. subst.
  destruct (Pos.eqb x y) eqn:E; simpl.
  - apply Pos.eqb_eq in E. subst. f_equal.
    assert (R : remove1 y al = al).
    { unfold remove1. clear -Hn. induction al as [| z al IH]; simpl; try reflexivity.
      destruct (Pos.eqb y z) eqn:E; simpl.
      - apply Pos.eqb_eq in E. subst. exfalso. apply Hn. now left.
      - f_equal. apply IH. intro K. apply Hn. now right. }
    fold (remove1 y al). now rewrite R.
  - fold (remove1 x al). f_equal. apply IH; assumption.
Qed.

Lemma remove1_NoDup x al : NoDup al -> NoDup (remove1 x al).
Proof. intro H. unfold remove1. now apply NoDup_filter. Qed.

Lemma eca_match_mem al e x v : eca_match al e = Some (x, v) -> mem x al = true.
Proof.
  unfold eca_match. destruct e as [y | q | o a | o d0 d1]; try discriminate.
  - destruct (mem y al) eqn:M; try discriminate. intro H. inversion H. now subst.
  - destruct o; try discriminate;
      destruct d0 as [y | q | |]; try discriminate; destruct d1 as [z | q' | |]; try discriminate;
      (destruct (mem y al) eqn:M || destruct (mem z al) eqn:M); try discriminate;
      intro H; inversion H; now subst.
Qed.

Lemma eca_loop_square al es : NoDup al ->
  let '(al', cs, kept) := eca_loop al es in
  (length al' + length es = length al + length kept)%nat /\ (length cs + length al' = length al)%nat.
Proof.
  revert al. induction es as [| e es IH]; intros al ND; simpl.
  - lia.
  - destruct (eca_match al e) as [[x v] |] eqn:M.
    + pose proof (eca_match_mem _ _ _ _ M) as Hm.
      pose proof (remove1_length x al ND Hm) as Hl.
      specialize (IH (remove1 x al) (remove1_NoDup x al ND)).
      destruct (eca_loop (remove1 x al) es) as [[al' cs] kept]. simpl. lia.
    + specialize (IH al ND). destruct (eca_loop al es) as [[al' cs] kept]. simpl. lia.
Qed.

Theorem square_elim_const_assignments m : NoDup (algs m) ->
  let m' := elim_const_assignments m in
  (length (algs m') + length (eqs m) = length (algs m) + length (eqs m'))%nat
  /\ ders m' = ders m /\ states m' = states m.
Proof.
  intro ND. unfold elim_const_assignments.
  pose proof (eca_loop_square (algs m) (eqs m) ND) as L.
  destruct (eca_loop (algs m) (eqs m)) as [[al cs] kept]. simpl. tauto.
Qed.

(* ---------- free symbols of the simplifying constructors ---------- *)
Fixpoint occurs (x : name) (e : expr) : bool :=
  match e with
  | Sym y => Pos.eqb x y
  | Const _ => false
  | Un _ a => occurs x a
  | Bin _ a b => occurs x a || occurs x b
  end.

Lemma eval_ext_occ r1 r2 e :
  (forall x, occurs x e = true -> r1 x = r2 x) -> eval r1 e = eval r2 e.
Proof.
  induction e as [y | q | o a IH | o a IHa b IHb]; simpl; intro H.
  - apply H. apply Pos.eqb_refl.
  - reflexivity.
  - f_equal. now apply IH.
  - f_equal; [apply IHa | apply IHb]; intros x Hx; apply H; rewrite Hx; auto using orb_true_r.
Qed.

Lemma mk_un_occ x o e : occurs x (mk_un o e) = true -> occurs x e = true.
Proof.
  destruct e as [y | q | o' a | o' a b]; simpl; auto.
  destruct o'; simpl; auto. destruct o; simpl; auto.
Qed.

Definition rec_occ (rec : bop -> expr -> expr -> expr) : Prop :=
  forall x o a b, occurs x (rec o a b) = true -> occurs x a = true \/ occurs x b = true.

Ltac occ :=
  repeat match goal with
  | H : occurs _ (mk_un _ _) = true |- _ => apply mk_un_occ in H
  | H : occurs _ (Bin _ _ _) = true |- _ => simpl in H; apply orb_true_iff in H
  | H : occurs _ (Un _ _) = true |- _ => simpl in H
  | H : occurs _ (Const _) = true |- _ => simpl in H; discriminate
  | H : _ \/ _ |- _ => destruct H
  end; simpl in *; rewrite ?orb_true_iff in *; auto; try tauto.

Lemma bin_generic_occ rec : rec_occ rec -> rec_occ (bin_generic rec).
Proof.
  intros Hrec x o a b. unfold bin_generic.
  destruct (match o with Mul => is_zero a || is_zero b | _ => false end). { intro H. occ. }
  destruct (is_equal1 b a). { destruct o; intro H; occ. }
  destruct b as [y0 | q | uo d | bo d0 d1]; try (intro H; solve [occ]).
  - destruct (negb (is_const a) && comm o).
    + intro H. apply Hrec in H. occ.
    + destruct o; [destruct (qeqb q 0) | destruct (qeqb q 0) | destruct (qeqb q 1)]; intro H; occ.
  - destruct uo; try (intro H; solve [occ]).
    destruct o; intro H; occ; apply Hrec in H; occ.
  - destruct bo; try (intro H; solve [occ]); destruct o; try (intro H; solve [occ]).
    + destruct (is_equal1 a d0); [intro H; occ |]. destruct (is_equal1 a d1); intro H; occ.
    + destruct (is_equal1 a d1); intro H; occ.
Qed.

Lemma bin_const_occ rec : rec_occ rec ->
  forall x o v b, occurs x (bin_const rec o v b) = true -> occurs x b = true.
Proof.
  intros Hrec x o v b. pose proof (bin_generic_occ rec Hrec x) as G.
  unfold bin_const. destruct o.
  - destruct (qeqb v 0); auto. destruct b; intro H; try (apply G in H; solve [occ]). occ.
  - destruct (qeqb v 0). { intro H. occ. } destruct b; intro H; try (apply G in H; solve [occ]). occ.
  - destruct (qeqb v 1); auto. destruct (qeqb v (- (1))). { intro H. occ. }
    destruct (qeqb v (Q2Qc 2)). { intro H. occ. }
    destruct b; intro H; try (apply G in H; solve [occ]). occ.
Qed.

Lemma bin_top_occ rec : rec_occ rec -> rec_occ (bin_top rec).
Proof.
  intros Hrec x o a b. pose proof (bin_generic_occ rec Hrec x) as G.
  unfold bin_top.
  destruct a as [x0 | v | uo d | bo d0 d1].
  - apply G.
  - intro H. right. eapply bin_const_occ; eauto.
  - destruct uo.
    + destruct o; intro H; occ; apply Hrec in H; occ.
    + apply G.
    + destruct o; try apply G. destruct (is_equal1 b d); try apply G. intro H. occ.
  - destruct bo.
    + destruct o; try apply G.
      destruct (is_equal1 b d0). { intro H. occ. }
      destruct (is_equal1 b d1). { intro H. occ. } apply G.
    + destruct o.
      * destruct (is_equal1 b d1); try apply G. intro H. occ.
      * destruct (is_equal1 b d0); try apply G. intro H. occ.
      * apply G.
    + apply G.
Qed.

Lemma mk_bin_f_occ n : rec_occ (mk_bin_f n).
Proof.
  induction n as [| n IH].
  - intros x o a b H. occ.
  - simpl. apply bin_top_occ. exact IH.
Qed.

(* free symbols of a substituted expression: untouched symbols of e, or symbols of the values *)
Lemma subst_occ x s e : occurs x (subst s e) = true ->
  (occurs x e = true /\ lookup x s = None) \/
  (exists y v, occurs y e = true /\ lookup y s = Some v /\ occurs x v = true).
Proof.
  induction e as [y | q | o a IH | o a IHa b IHb]; simpl.
  - destruct (lookup y s) as [v |] eqn:L.
    + intro H. right. exists y, v. rewrite Pos.eqb_refl. auto.
    + simpl. intro H. left. apply Pos.eqb_eq in H. subst. rewrite Pos.eqb_refl. auto.
  - discriminate.
  - intro H. apply mk_un_occ in H. auto.
  - intro H. apply mk_bin_f_occ in H. destruct H as [H | H]; [apply IHa in H | apply IHb in H];
      (destruct H as [[H1 H2] | [y [v [H1 [H2 H3]]]]];
       [left; rewrite H1; auto using orb_true_r | right; exists y, v; rewrite H1; auto using orb_true_r]).
Qed.

(* ---------- eliminable_variable_expression ---------- *)
Local Opaque SUBSTITUTE_LOOP_LIMIT subst_fix.
Lemma extract_sound r sts al0 al mt e x v :
  extract_assignment sts al0 al mt e = ExtAlg x v -> (eval r e = 0 <-> r x = eval r v).
Proof.
  unfold extract_assignment. destruct e as [y | q | o a | o d0 d1]; try discriminate.
  - destruct ((mem y sts || mem y al0) && mem y mt); try discriminate.
    destruct (mem y sts); try discriminate. intro H. inversion H. subst. simpl. tauto.
  - pose proof (mk_un_sound r Neg d0) as M0. pose proof (mk_un_sound r Neg d1) as M1.
    revert M0 M1. generalize (mk_un Neg d0) as n0, (mk_un Neg d1) as n1. intros n0 n1 M0 M1.
    destruct o; try discriminate; cbv beta zeta;
      repeat match goal with
        | |- context [match ?d with Sym _ => _ | _ => _ end] => is_var d; destruct d
        | |- context [if ?c then _ else _] => destruct c
        end; try discriminate; intro H; inversion H; subst; simpl in *; rewrite ?M0, ?M1;
      rewrite ?Qc_add_0, ?Qc_sub_0; split; intro K;
      first [now symmetry | exact K | rewrite K; ring | rewrite <- K; ring].
Qed.

Lemma elim_loop_sound r sts al0 mt es : forall al al' defs kept,
  elim_loop sts al0 al mt es = (al', defs, kept, false) ->
  (holds r es <-> holds r kept /\ facts r defs).
Proof.
  induction es as [| e es IH]; intros al al' defs kept; simpl.
  - intro H. inversion H. subst. split; [intros _; split; constructor | intros _; constructor].
  - destruct (extract_assignment sts al0 al mt e) as [| x v |] eqn:X.
    + destruct (elim_loop sts al0 al mt es) as [[[a1 d1] k1] u1] eqn:E. intro H. inversion H. subst.
      specialize (IH _ _ _ _ E). unfold holds in *. rewrite !Forall_cons_iff. tauto.
    + destruct (elim_loop sts al0 (remove1 x al) mt es) as [[[a1 d1] k1] u1] eqn:E.
      intro H. inversion H. subst. specialize (IH _ _ _ _ E).
      unfold holds, facts in *. rewrite !Forall_cons_iff. simpl.
      rewrite (extract_sound r _ _ _ _ _ _ _ X). tauto.
    + discriminate.
Qed.

Lemma combine_map_r {A B C} (f : B -> C) (xs : list A) (vs : list B) :
  combine xs (map f vs) = map (fun p => (fst p, f (snd p))) (combine xs vs).
Proof.
  revert vs. induction xs as [| x xs IH]; intros [| v vs]; simpl; try reflexivity. now rewrite IH.
Qed.

(* every iterate of the value-into-value loop is implied by the original assignments *)
Local Transparent subst_fix.
Lemma subst_fix_forward r n vars : forall vals,
  facts r (combine vars vals) -> facts r (combine vars (fst (subst_fix n vars vals))).
Proof.
  induction n as [| n IH]; intros vals F; simpl; try assumption.
  assert (F' : facts r (combine vars (map (subst (combine vars vals)) vals))).
  { rewrite combine_map_r. unfold facts in *. rewrite Forall_map. simpl.
    eapply Forall_impl; try exact F. intros [x v] H. simpl in *.
    rewrite subst_under_facts; assumption. }
  destruct (list_eqb expr_eqb vals (map (subst (combine vars vals)) vals)); simpl; auto.
Qed.

Local Opaque subst_fix.
Lemma combine_fst_snd {A B} (l : list (A * B)) : combine (map fst l) (map snd l) = l.
Proof. induction l as [| [a b] l IH]; simpl; congruence. Qed.

(* forward half for arbitrary (also chained) eliminations: every original solution satisfies the
   simplified model and the recorded definitions of the eliminated variables *)
Theorem eliminate_vars_forward r mt m :
  failed m = false -> failed (eliminate_vars mt m) = false -> sat r m -> sat r (eliminate_vars mt m).
Proof.
  unfold eliminate_vars. intros Hf.
  destruct (elim_loop (states m) (algs m) (algs m) mt (eqs m)) as [[[al defs] kept] u] eqn:E.
  destruct u. { simpl. congruence. }
  simpl. destruct (has_dup (map fst defs)). { simpl. congruence. }
  pose proof (elim_loop_sound r _ _ _ _ _ _ _ _ E) as L.
  intros _ [H1 H2 H3 H4 H5]. apply L in H1. destruct H1 as [Hk Hd].
  destruct defs as [| d0 defs'].
  - constructor; simpl; auto.
  - remember (d0 :: defs') as defs.
    pose proof (subst_fix_forward r SUBSTITUTE_LOOP_LIMIT (map fst defs) (map snd defs)) as FW.
    rewrite combine_fst_snd in FW. specialize (FW Hd).
    destruct (subst_fix SUBSTITUTE_LOOP_LIMIT (map fst defs) (map snd defs)) as [vals conv].
    simpl in FW. constructor; simpl; auto.
    + now apply holds_subst.
    + now apply holds_subst.
    + apply facts_app. auto.
Qed.

(* ---------- closedness (C15) ---------- *)
(* symbols of a list of expressions stay within D after substituting s, when the symbols outside
   dom s were in D and the substituted values only use symbols of D *)
Theorem closed_subst (D : name -> Prop) s es :
  (forall e x, In e es -> occurs x e = true -> lookup x s = None -> D x) ->
  (forall y v x, lookup y s = Some v -> occurs x v = true -> D x) ->
  forall e x, In e (map (subst s) es) -> occurs x e = true -> D x.
Proof.
  intros H1 H2 e x Hin Ho. apply in_map_iff in Hin. destruct Hin as [e0 [<- Hin]].
  apply subst_occ in Ho. destruct Ho as [[Ho L] | [y [v [Hy [L Hv]]]]].
  - eapply H1; eauto.
  - eapply H2; eauto.
Qed.

Lemma lookup_combine_in x vars (vals : list expr) v :
  lookup x (combine vars vals) = Some v -> In x vars /\ In v vals.
Proof.
  intro H. apply lookup_In in H. split; [eapply in_combine_l | eapply in_combine_r]; eauto.
Qed.
Lemma lookup_none_notin x (s : sub) : lookup x s = None -> ~ In x (map fst s).
Proof.
  induction s as [| [y v] s IH]; simpl; auto.
  destruct (Pos.eqb x y) eqn:E; try discriminate. intros H [K | K].
  - subst. rewrite Pos.eqb_refl in E. discriminate.
  - now apply IH.
Qed.

Lemma map_fst_combine_len {A B} (xs : list A) (vs : list B) :
  length vs = length xs -> map fst (combine xs vs) = xs.
Proof.
  revert vs. induction xs as [| x xs IH]; intros [| v vs]; simpl; try discriminate; auto.
  intro H. f_equal. apply IH. congruence.
Qed.

(* the eliminable pass: if the resolved values no longer mention an eliminated variable (the loop
   converged on an acyclic set of assignments), no remaining equation mentions one *)
Theorem closed_eliminate_vars mt m :
  let '(al, defs, kept, u) := elim_loop (states m) (algs m) (algs m) mt (eqs m) in
  let vars := map fst defs in
  let vals := fst (subst_fix SUBSTITUTE_LOOP_LIMIT vars (map snd defs)) in
  length vals = length vars ->
  (forall v x, In v vals -> In x vars -> occurs x v = false) ->
  forall e x, In e (eqs (eliminate_vars mt m) ++ ieqs (eliminate_vars mt m)) ->
              u = false -> has_dup vars = false -> defs <> [] -> In x vars -> occurs x e = false.
Proof.
  unfold eliminate_vars.
  destruct (elim_loop (states m) (algs m) (algs m) mt (eqs m)) as [[[al defs] kept] u] eqn:E.
  simpl. intros Hlen Hfree e x Hin Hu Hd Hne Hx. subst u. rewrite Hd in Hin. simpl in Hin.
  destruct defs as [| d0 defs']; try congruence. remember (d0 :: defs') as defs.
  destruct (subst_fix SUBSTITUTE_LOOP_LIMIT (map fst defs) (map snd defs)) as [vals conv] eqn:SF.
  simpl in *.
  destruct (occurs x e) eqn:Ho; try reflexivity. exfalso.
  set (s := combine (map fst defs) vals) in *.
  assert (K : forall e0, occurs x (subst s e0) = true -> False).
  { intros e0 Hs. apply subst_occ in Hs. destruct Hs as [[_ L] | [y [v [_ [L Hv]]]]].
    - apply lookup_none_notin in L. apply L. unfold s. rewrite map_fst_combine_len; auto.
    - apply lookup_combine_in in L. destruct L as [_ Lv]. rewrite (Hfree v x Lv Hx) in Hv. discriminate. }
  apply in_app_or in Hin. destruct Hin as [Hin | Hin]; apply in_map_iff in Hin;
    destruct Hin as [e0 [<- _]]; eapply K; eauto.
Qed.

(* ---------- detect_aliases: the syntactic shapes ---------- *)
Definition sgnq (n : bool) (q : Qc) : Qc := if n then - q else q.

Lemma detect_alias_fast r pc x y (n : bool) : x <> y ->
  let e := Bin (if n then Add else Sub) (Sym x) (Sym y) in
  detect_alias pc e = Some (x, y, n) /\ (eval r e = 0 <-> r x = sgnq n (r y)).
Proof.
  intro Hxy. assert (E : Pos.eqb y x = false) by (apply Pos.eqb_neq; congruence).
  destruct n; simpl; unfold detect_alias, symvar; simpl; rewrite E; simpl; split; try reflexivity.
  - apply Qc_add_0.
  - apply Qc_sub_0.
Qed.

(* witnesses used by the _refuted statements *)
Definition e_squares : expr := Bin Sub (Un Sq (Sym 1%positive)) (Un Sq (Sym 2%positive)).
Definition r_squares : env := fun x => if Pos.eqb x 1%positive then 1 else - (1).

Lemma slow_path_unsound :
  detect_alias [] e_squares = Some (1%positive, 2%positive, false)
  /\ eval r_squares e_squares = 0 /\ r_squares 1%positive <> r_squares 2%positive.
Proof.
  split; [vm_compute; reflexivity |]. split.
  - apply Qc_is_canon. reflexivity.
  - intro H. apply (f_equal (fun q => Qnum (this q))) in H. vm_compute in H. discriminate.
Qed.

(* '_e1 = _e2; _e2 = _e1; a3 = _e1 + 1' with both _e eliminable (1 = _e1, 2 = _e2, 3 = a3) *)
Definition m_osc : model :=
  Model [] [] [1; 2; 3]%positive [] [] []
        [Bin Sub (Sym 1%positive) (Sym 2%positive); Bin Sub (Sym 2%positive) (Sym 1%positive);
         Bin Sub (Sym 3%positive) (Bin Add (Const 1) (Sym 1%positive))] [] [] [] false false.
Definition o_elim12 : options :=
  Options false false false false false (Some [1; 2]%positive) true false true false [].

Lemma osc_not_closed :
  let m' := simplify o_elim12 m_osc in
  failed m' = false /\ warned m' = false /\ algs m' = [3%positive] /\
  existsb (fun e => occurs 1%positive e || occurs 2%positive e) (eqs m') = true.
Proof. vm_compute. repeat split; reflexivity. Qed.

(* a regular example: p(4) = 2; c(5) = 3; a1 = c + p; _e2 = a1; a3 = -_e2   (1 = a1, 2 = _e2, 3 = a3) *)
Definition m_ex : model :=
  Model [] [] [1; 2; 3]%positive [] [(5%positive, Some (Const (Q2Qc 3)))] [(4%positive, Some (Const (Q2Qc 2)))]
        [Bin Sub (Sym 1%positive) (Bin Add (Sym 5%positive) (Sym 4%positive));
         Bin Sub (Sym 2%positive) (Sym 1%positive);
         Bin Add (Sym 3%positive) (Sym 2%positive)] [] [] [] false false.
Definition r_ex : env := fun x =>
  match x with 1%positive => Q2Qc 5 | 2%positive => Q2Qc 5 | 3%positive => - Q2Qc 5
          | 4%positive => Q2Qc 2 | 5%positive => Q2Qc 3 | _ => 0 end.
Definition o_ex : options :=
  Options false false true true true (Some [2%positive]) true true true false [].

Lemma ex_sat : sat r_ex m_ex.
Proof. constructor; simpl; repeat constructor; simpl; apply Qc_is_canon; reflexivity. Qed.

Lemma ex_simplified :
  let m' := simplify o_ex m_ex in
  failed m' = false /\ warned m' = false /\ algs m' = [1%positive] /\ length (eqs m') = 1%nat /\
  arel m' = [(1%positive, [(3%positive, true)])].
Proof. vm_compute. repeat split; reflexivity. Qed.
