(* C16 — proofs about Model/C16_merge.v (stdlib only). *)
From Coq Require Import QArith Qcanon List Bool Permutation.
From PV Require Import Model.C16_merge.
Import ListNotations.

(* ------------------------------------------------------------------------- *)
(* max / min over a decidable total order                                     *)
(* ------------------------------------------------------------------------- *)
Record total_order {A : Type} (leb : A -> A -> bool) : Prop := TotalOrder {
  to_refl : forall a, leb a a = true;
  to_antisym : forall a b, leb a b = true -> leb b a = true -> a = b;
  to_trans : forall a b c, leb a b = true -> leb b c = true -> leb a c = true;
  to_total : forall a b, leb a b = true \/ leb b a = true }.

Section TotalOrder.
  Context {A : Type} (leb : A -> A -> bool).
  Hypothesis ord : total_order leb.
  Let leb_refl := to_refl leb ord.
  Let leb_antisym := to_antisym leb ord.
  Let leb_trans := to_trans leb ord.
  Let leb_total := to_total leb ord.

  Lemma leb_false_flip a b : leb a b = false -> leb b a = true.
  Proof. intros H. destruct (leb_total a b) as [H'|H']; congruence. Qed.

  (* least upper bound, as a boolean equation *)
  Lemma gmax_le a b c : leb (gmax leb a b) c = leb a c && leb b c.
  Proof.
    unfold gmax. destruct (leb a b) eqn:Hab.
    - destruct (leb b c) eqn:Hbc.
      + rewrite (leb_trans _ _ _ Hab Hbc). reflexivity.
      + rewrite andb_false_r. reflexivity.
    - apply leb_false_flip in Hab. destruct (leb a c) eqn:Hac.
      + rewrite (leb_trans _ _ _ Hab Hac). reflexivity.
      + reflexivity.
  Qed.

  Lemma gmin_le a b c : leb c (gmin leb a b) = leb c a && leb c b.
  Proof.
    unfold gmin. destruct (leb a b) eqn:Hab.
    - destruct (leb c a) eqn:Hca.
      + rewrite (leb_trans _ _ _ Hca Hab). reflexivity.
      + reflexivity.
    - apply leb_false_flip in Hab. destruct (leb c b) eqn:Hcb.
      + rewrite (leb_trans _ _ _ Hcb Hab). reflexivity.
      + rewrite andb_false_r. reflexivity.
  Qed.

  Lemma gmax_cases a b : gmax leb a b = a \/ gmax leb a b = b.
  Proof. unfold gmax. destruct (leb a b); auto. Qed.
  Lemma gmin_cases a b : gmin leb a b = a \/ gmin leb a b = b.
  Proof. unfold gmin. destruct (leb a b); auto. Qed.

  (* an element is determined by its set of upper (resp. lower) bounds *)
  Lemma eq_by_upper m m' : (forall c, leb m c = leb m' c) -> m = m'.
  Proof.
    intros H. apply leb_antisym.
    - rewrite H. apply leb_refl.
    - rewrite <- H. apply leb_refl.
  Qed.
  Lemma eq_by_lower m m' : (forall c, leb c m = leb c m') -> m = m'.
  Proof.
    intros H. apply leb_antisym.
    - rewrite <- H. apply leb_refl.
    - rewrite H. apply leb_refl.
  Qed.

  (* folds *)
  Definition fmax (a : A) (l : list A) : A := fold_left (gmax leb) l a.
  Definition fmin (a : A) (l : list A) : A := fold_left (gmin leb) l a.

  Lemma fmax_le l : forall a c, leb (fmax a l) c = leb a c && forallb (fun x => leb x c) l.
  Proof.
    unfold fmax. induction l as [|x l IH]; intros a c; simpl.
    - rewrite andb_true_r. reflexivity.
    - rewrite IH, gmax_le, andb_assoc. reflexivity.
  Qed.
  Lemma fmin_le l : forall a c, leb c (fmin a l) = leb c a && forallb (fun x => leb c x) l.
  Proof.
    unfold fmin. induction l as [|x l IH]; intros a c; simpl.
    - rewrite andb_true_r. reflexivity.
    - rewrite IH, gmin_le, andb_assoc. reflexivity.
  Qed.

  Lemma fmax_in l : forall a, In (fmax a l) (a :: l).
  Proof.
    unfold fmax. induction l as [|x l IH]; intros a; [left; reflexivity|].
    simpl fold_left. destruct (IH (gmax leb a x)) as [H|H].
    - rewrite <- H. destruct (gmax_cases a x) as [E|E]; rewrite E; [left|right; left]; reflexivity.
    - right; right; exact H.
  Qed.
  Lemma fmin_in l : forall a, In (fmin a l) (a :: l).
  Proof.
    unfold fmin. induction l as [|x l IH]; intros a; [left; reflexivity|].
    simpl fold_left. destruct (IH (gmin leb a x)) as [H|H].
    - rewrite <- H. destruct (gmin_cases a x) as [E|E]; rewrite E; [left|right; left]; reflexivity.
    - right; right; exact H.
  Qed.

  (* "the largest among them": a member that dominates every member *)
  Lemma fmax_greatest a l : In (fmax a l) (a :: l) /\ forall x, In x (a :: l) -> leb x (fmax a l) = true.
  Proof.
    split; [apply fmax_in|]. intros x Hx.
    pose proof (fmax_le l a (fmax a l)) as H. rewrite leb_refl in H. symmetry in H.
    apply andb_true_iff in H as [Ha Hl]. destruct Hx as [<-|Hx]; [exact Ha|].
    rewrite forallb_forall in Hl. apply Hl, Hx.
  Qed.
  Lemma fmin_least a l : In (fmin a l) (a :: l) /\ forall x, In x (a :: l) -> leb (fmin a l) x = true.
  Proof.
    split; [apply fmin_in|]. intros x Hx.
    pose proof (fmin_le l a (fmin a l)) as H. rewrite leb_refl in H. symmetry in H.
    apply andb_true_iff in H as [Ha Hl]. destruct Hx as [<-|Hx]; [exact Ha|].
    rewrite forallb_forall in Hl. apply Hl, Hx.
  Qed.

  Lemma forallb_perm (p : A -> bool) l l' : Permutation l l' -> forallb p l = forallb p l'.
  Proof.
    induction 1; simpl; try congruence.
    - rewrite !andb_assoc, (andb_comm (p y)). reflexivity.
  Qed.

  Lemma fmax_perm a l l' : Permutation l l' -> fmax a l = fmax a l'.
  Proof. intros P. apply eq_by_upper. intros c. rewrite !fmax_le, (forallb_perm _ _ _ P). reflexivity. Qed.
  Lemma fmin_perm a l l' : Permutation l l' -> fmin a l = fmin a l'.
  Proof. intros P. apply eq_by_lower. intros c. rewrite !fmin_le, (forallb_perm _ _ _ P). reflexivity. Qed.
End TotalOrder.

(* ------------------------------------------------------------------------- *)
(* the two concrete orders                                                    *)
(* ------------------------------------------------------------------------- *)
Lemma qleb_le a b : qleb a b = true <-> (a <= b)%Qc.
Proof.
  unfold qleb. rewrite Qcle_alt. destruct (a ?= b)%Qc; split; intros; try congruence; try discriminate.
Qed.

Lemma qleb_refl a : qleb a a = true.
Proof. apply qleb_le, Qcle_refl. Qed.
Lemma qleb_antisym a b : qleb a b = true -> qleb b a = true -> a = b.
Proof. rewrite !qleb_le. apply Qcle_antisym. Qed.
Lemma qleb_trans a b c : qleb a b = true -> qleb b c = true -> qleb a c = true.
Proof. rewrite !qleb_le. apply Qcle_trans. Qed.
Lemma qleb_total a b : qleb a b = true \/ qleb b a = true.
Proof. rewrite !qleb_le. destruct (Qclt_le_dec a b) as [H|H]; [left; apply Qclt_le_weak, H|right; exact H]. Qed.

Lemma qleb_opp a b : qleb (- a) (- b) = qleb b a.
Proof.
  destruct (qleb b a) eqn:H.
  - apply qleb_le, Qcopp_le_compat, qleb_le, H.
  - destruct (qleb (- a) (- b)) eqn:H'; [|reflexivity].
    apply qleb_le, Qcopp_le_compat in H'. rewrite !Qcopp_involutive in H'.
    apply qleb_le in H'. congruence.
Qed.

Lemma eleb_refl a : eleb a a = true.
Proof. destruct a; simpl; auto using qleb_refl. Qed.
Lemma eleb_antisym a b : eleb a b = true -> eleb b a = true -> a = b.
Proof. destruct a, b; simpl; intros; try discriminate; try reflexivity. f_equal. apply qleb_antisym; auto. Qed.
Lemma eleb_trans a b c : eleb a b = true -> eleb b c = true -> eleb a c = true.
Proof. destruct a, b, c; simpl; intros; try discriminate; try reflexivity. eapply qleb_trans; eauto. Qed.
Lemma eleb_total a b : eleb a b = true \/ eleb b a = true.
Proof. destruct a, b; simpl; auto using qleb_total. Qed.

Lemma eopp_invol e : eopp (eopp e) = e.
Proof. destruct e; simpl; try reflexivity. rewrite Qcopp_involutive. reflexivity. Qed.
Lemma eleb_opp a b : eleb (eopp a) (eopp b) = eleb b a.
Proof. destruct a, b; simpl; try reflexivity. apply qleb_opp. Qed.
Lemma eleb_opp_l a x : eleb (eopp a) (Fin x) = eleb (Fin (- x)) a.
Proof. rewrite <- (eleb_opp a (Fin (- x))). simpl. rewrite Qcopp_involutive. reflexivity. Qed.
Lemma eleb_opp_r a x : eleb (Fin x) (eopp a) = eleb a (Fin (- x)).
Proof. rewrite <- (eleb_opp (Fin (- x)) a). simpl. rewrite Qcopp_involutive. reflexivity. Qed.

(* instantiations *)
Lemma eleb_order : total_order eleb.
Proof. constructor; [apply eleb_refl|apply eleb_antisym|apply eleb_trans|apply eleb_total]. Qed.
Lemma qleb_order : total_order qleb.
Proof. constructor; [apply qleb_refl|apply qleb_antisym|apply qleb_trans|apply qleb_total]. Qed.

(* ------------------------------------------------------------------------- *)
(* the merge, attribute by attribute                                          *)
(* ------------------------------------------------------------------------- *)
Definition live (als : list alias) : list alias := filter (fun a => negb (skipped a)) als.

Lemma merge_cons c a als : merge c (a :: als) = merge (step c a) als.
Proof. reflexivity. Qed.

Lemma merge_live c als : merge c als = merge c (live als).
Proof.
  revert c. induction als as [|a als IH]; intros c; [reflexivity|].
  unfold live. cbn [filter]. fold (live als). rewrite merge_cons.
  destruct (skipped a) eqn:Hs; cbn [negb].
  - unfold step. rewrite Hs. apply IH.
  - rewrite merge_cons. apply IH.
Qed.

Lemma live_all_unskipped als : forallb (fun a => negb (skipped a)) (live als) = true.
Proof. apply forallb_forall. intros a Ha. apply filter_In in Ha. tauto. Qed.

(* on a list without skipped entries each field is its own fold *)
Lemma merge_fields c als :
  forallb (fun a => negb (skipped a)) als = true ->
  vmin (merge c als) = fmax eleb (vmin c) (map smin als) /\
  vmax (merge c als) = fmin eleb (vmax c) (map smax als) /\
  vnom (merge c als) = fmax qleb (vnom c) (map (fun a => vnom (avar a)) als) /\
  vfixed (merge c als) = vfixed c || existsb (fun a => vfixed (avar a)) als.
Proof.
  revert c. induction als as [|a als IH]; intros c H.
  - simpl. rewrite orb_false_r. auto.
  - simpl in H. apply andb_true_iff in H as [Ha H]. apply negb_true_iff in Ha.
    rewrite merge_cons. destruct (IH (step c a) H) as (I1 & I2 & I3 & I4).
    rewrite I1, I2, I3, I4. unfold step. rewrite Ha. simpl. rewrite orb_assoc. auto.
Qed.

(* membership of a rational in the interval of a variable *)
Definition inb (x : Qc) (v : var) : bool := eleb (vmin v) (Fin x) && eleb (Fin x) (vmax v).

Lemma in_signed_alias x a :
  eleb (smin a) (Fin x) && eleb (Fin x) (smax a) = inb (sgn (aneg a) x) (avar a).
Proof.
  unfold smin, smax, inb, sgn. destruct (aneg a).
  - rewrite eleb_opp_l, eleb_opp_r. apply andb_comm.
  - reflexivity.
Qed.

Lemma forallb_map {X Y} (f : X -> Y) p l : forallb p (map f l) = forallb (fun x => p (f x)) l.
Proof. induction l; simpl; congruence. Qed.

Lemma forallb_andb {X} (p q : X -> bool) l :
  forallb p l && forallb q l = forallb (fun x => p x && q x) l.
Proof.
  induction l as [|x l IH]; simpl; [reflexivity|]. rewrite <- IH.
  destruct (p x), (q x), (forallb p l), (forallb q l); reflexivity.
Qed.

Lemma forallb_ext' {X} (p q : X -> bool) l : (forall x, p x = q x) -> forallb p l = forallb q l.
Proof. intros E. induction l; simpl; congruence. Qed.

(* BOUNDS: the merged interval is exactly the intersection of the canonical's interval with
   every (non-skipped) alias' interval read through the alias' sign *)
Lemma bounds_intersection c als x :
  inb x (merge c als) = inb x c && forallb (fun a => inb (sgn (aneg a) x) (avar a)) (live als).
Proof.
  rewrite merge_live. destruct (merge_fields c (live als) (live_all_unskipped als)) as (I1 & I2 & _).
  unfold inb at 1. rewrite I1, I2.
  rewrite (fmax_le eleb eleb_order), (fmin_le eleb eleb_order).
  rewrite !forallb_map.
  rewrite <- (forallb_ext' _ _ (live als) (fun a => in_signed_alias x a)).
  rewrite <- forallb_andb. unfold inb.
  destruct (eleb (vmin c) (Fin x)), (eleb (Fin x) (vmax c)),
    (forallb (fun a => eleb (smin a) (Fin x)) (live als)),
    (forallb (fun a => eleb (Fin x) (smax a)) (live als)); reflexivity.
Qed.

(* explicit formula: min' is the greatest of the sign-adjusted lower bounds, max' the least of
   the sign-adjusted upper bounds *)
Lemma bounds_formula c als :
  let lo := vmin c :: map smin (live als) in
  let hi := vmax c :: map smax (live als) in
  (In (vmin (merge c als)) lo /\ forall e, In e lo -> eleb e (vmin (merge c als)) = true) /\
  (In (vmax (merge c als)) hi /\ forall e, In e hi -> eleb (vmax (merge c als)) e = true).
Proof.
  cbv zeta. rewrite merge_live.
  destruct (merge_fields c (live als) (live_all_unskipped als)) as (I1 & I2 & _).
  rewrite I1, I2. split.
  - apply (fmax_greatest eleb eleb_order).
  - apply (fmin_least eleb eleb_order).
Qed.

Lemma nominal_largest c als :
  let ns := vnom c :: map (fun a => vnom (avar a)) (live als) in
  In (vnom (merge c als)) ns /\ forall n, In n ns -> (n <= vnom (merge c als))%Qc.
Proof.
  cbv zeta. rewrite merge_live.
  destruct (merge_fields c (live als) (live_all_unskipped als)) as (_ & _ & I3 & _).
  rewrite I3. destruct (fmax_greatest qleb qleb_order (vnom c)
    (map (fun a => vnom (avar a)) (live als))) as [H1 H2].
  split; [exact H1|]. intros n Hn. apply qleb_le, H2, Hn.
Qed.

Lemma fixed_any c als :
  vfixed (merge c als) = true <->
  vfixed c = true \/ exists a, In a als /\ skipped a = false /\ vfixed (avar a) = true.
Proof.
  rewrite merge_live.
  destruct (merge_fields c (live als) (live_all_unskipped als)) as (_ & _ & _ & I4).
  rewrite I4, orb_true_iff, existsb_exists. split; (intros [H|H]; [left; exact H|right]).
  - destruct H as (a & Ha & Hf). apply filter_In in Ha as [Ha Hs]. apply negb_true_iff in Hs. eauto.
  - destruct H as (a & Ha & Hs & Hf). exists a. split; [|exact Hf].
    apply filter_In. split; [exact Ha|]. rewrite Hs. reflexivity.
Qed.

(* START *)
Lemma start_kept c als s : vstart c = Some s -> vstart (merge c als) = Some s.
Proof.
  revert c. induction als as [|a als IH]; intros c H; [exact H|].
  rewrite merge_cons. apply IH. unfold step. destruct (skipped a); [exact H|]. simpl. rewrite H. reflexivity.
Qed.

(* no own start: the start is taken, sign-adjusted, from the first non-skipped alias (in
   iteration order) that has an explicit start; default if there is none *)
Lemma start_taken c als :
  vstart c = None ->
  (vstart (merge c als) = None /\
   forall a, In a als -> skipped a = false -> vstart (avar a) = None)
  \/
  (exists l1 a l2 s, als = l1 ++ a :: l2 /\ skipped a = false /\ vstart (avar a) = Some s /\
     (forall b, In b l1 -> skipped b = false -> vstart (avar b) = None) /\
     vstart (merge c als) = Some (sgn (aneg a) s)).
Proof.
  revert c. induction als as [|a als IH]; intros c H.
  - left. split; [exact H|]. intros a [].
  - rewrite merge_cons. destruct (skipped a) eqn:Hs.
    + unfold step. rewrite Hs. destruct (IH c H) as [[E N]|(l1 & b & l2 & s & -> & Hb & Hbs & Hl1 & E)].
      * left. split; [exact E|]. intros b [<-|Hb] Hk; [congruence|]. apply N; assumption.
      * right. exists (a :: l1), b, l2, s. repeat split; auto.
        intros b' [<-|Hb'] Hk; [congruence|]. apply Hl1; assumption.
    + destruct (vstart (avar a)) as [s|] eqn:Ha.
      * right. exists [], a, als, s. repeat split; auto.
        -- intros b [].
        -- apply start_kept. unfold step. rewrite Hs. simpl. rewrite H, Ha. reflexivity.
      * assert (H' : vstart (step c a) = None).
        { unfold step. rewrite Hs. simpl. rewrite H, Ha. reflexivity. }
        destruct (IH (step c a) H') as [[E N]|(l1 & b & l2 & s & -> & Hb & Hbs & Hl1 & E)].
        -- left. split; [exact E|]. intros b [<-|Hb] Hk; [exact Ha|]. apply N; assumption.
        -- right. exists (a :: l1), b, l2, s. repeat split; auto.
           intros b' [<-|Hb'] Hk; [exact Ha|]. apply Hl1; assumption.
Qed.

(* ORDER INDEPENDENCE (the code iterates a Python set) *)
Lemma live_perm als als' : Permutation als als' -> Permutation (live als) (live als').
Proof.
  induction 1; unfold live in *; simpl.
  - constructor.
  - destruct (negb (skipped x)); [constructor|]; assumption.
  - destruct (negb (skipped x)), (negb (skipped y)); try apply Permutation_refl. apply perm_swap.
  - eapply Permutation_trans; eassumption.
Qed.

Lemma existsb_perm {X} (p : X -> bool) l l' : Permutation l l' -> existsb p l = existsb p l'.
Proof.
  induction 1; simpl; try congruence.
  rewrite !orb_assoc, (orb_comm (p y)). reflexivity.
Qed.

Lemma merge_perm c als als' :
  Permutation als als' ->
  vmin (merge c als) = vmin (merge c als') /\
  vmax (merge c als) = vmax (merge c als') /\
  vnom (merge c als) = vnom (merge c als') /\
  vfixed (merge c als) = vfixed (merge c als') /\
  (vstart (merge c als) = None <-> vstart (merge c als') = None).
Proof.
  intros P. pose proof (live_perm _ _ P) as PL.
  rewrite (merge_live c als), (merge_live c als').
  destruct (merge_fields c (live als) (live_all_unskipped als)) as (I1 & I2 & I3 & I4).
  destruct (merge_fields c (live als') (live_all_unskipped als')) as (J1 & J2 & J3 & J4).
  rewrite I1, I2, I3, I4, J1, J2, J3, J4.
  repeat split.
  - apply (fmax_perm eleb eleb_order), Permutation_map, PL.
  - apply (fmin_perm eleb eleb_order), Permutation_map, PL.
  - apply (fmax_perm qleb qleb_order), Permutation_map, PL.
  - f_equal. apply existsb_perm, PL.
  - intros E. destruct (vstart c) as [s|] eqn:Hc.
    + rewrite (start_kept c _ s Hc) in E. discriminate.
    + destruct (start_taken c (live als') Hc) as [[E' _]|(l1 & a & l2 & s & Eq & Hs & Ha & _ & _)]; [exact E'|].
      destruct (start_taken c (live als) Hc) as [[_ N]|(l1' & a' & l2' & s' & _ & _ & _ & _ & E')]; [|congruence].
      assert (In a (live als)) as Hin.
      { apply (Permutation_in a (Permutation_sym PL)). rewrite Eq. apply in_or_app. right. left. reflexivity. }
      rewrite (N a Hin Hs) in Ha. discriminate.
  - intros E. destruct (vstart c) as [s|] eqn:Hc.
    + rewrite (start_kept c _ s Hc) in E. discriminate.
    + destruct (start_taken c (live als) Hc) as [[E' _]|(l1 & a & l2 & s & Eq & Hs & Ha & _ & _)]; [exact E'|].
      destruct (start_taken c (live als') Hc) as [[_ N]|(l1' & a' & l2' & s' & _ & _ & _ & _ & E')]; [|congruence].
      assert (In a (live als')) as Hin.
      { apply (Permutation_in a PL). rewrite Eq. apply in_or_app. right. left. reflexivity. }
      rewrite (N a Hin Hs) in Ha. discriminate.
Qed.

(* several passes: aliases handled in an earlier pass contribute nothing again *)
Lemma merge_all_skipped c als : forallb skipped als = true -> merge c als = c.
Proof.
  revert c. induction als as [|a als IH]; intros c H; [reflexivity|].
  simpl in H. apply andb_true_iff in H as [Ha H]. rewrite merge_cons. unfold step. rewrite Ha. apply IH, H.
Qed.
