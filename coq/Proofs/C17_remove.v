(* C17 — AliasRelation.remove and histories of add / remove / copy over several relations:
   remove resets exactly the class of the removed canonical variable and its mirror class to
   singletons, all invariants are preserved by every legal operation, and an operation on one
   relation leaves every other relation (in particular a copy or its source) unchanged. *)
From stdpp Require Import gmap.
From PV Require Import Lib.Closure Model.C17_alias Proofs.C17_alias Proofs.C17_canon.

Lemma del_fold_lookup_aux {V} (m : gmap svar V) (R : gset svar) (k : svar) :
  let r : gmap svar V := set_fold (fun v (acc : gmap svar V) => delete v acc) m R in
  (k ∈ R → r !! k = None) ∧ (k ∉ R → r !! k = m !! k).
Proof.
  apply (set_fold_ind_L (fun (acc : gmap svar V) X =>
    (k ∈ X → acc !! k = None) ∧ (k ∉ X → acc !! k = m !! k))).
  - split; [set_solver|done].
  - intros x X acc Hx [IH1 IH2]. cbn beta. split.
    + intros [->%elem_of_singleton|Hk]%elem_of_union; [by rewrite lookup_delete|].
      destruct (decide (k = x)) as [->|Hne]; [by rewrite lookup_delete|].
      rewrite lookup_delete_ne by done. auto.
    + intros Hk. rewrite lookup_delete_ne by set_solver. apply IH2. set_solver.
Qed.

Lemma del_fold_lookup {V} (m : gmap svar V) (R : gset svar) (k : svar) :
  set_fold (fun v (acc : gmap svar V) => delete v acc) m R !! k = if decide (k ∈ R) then None else m !! k.
Proof. destruct (del_fold_lookup_aux m R k) as [H1 H2]. case_decide; auto. Qed.

Definition removed_set (r : rel) (a : svar) : gset svar := cls (al r) a ∪ cls (al r) (tog a).

Lemma remove_unfold (r : rel) (p : positive) : p ∈ cv r →
  remove r (false, p) =
  Rel (set_fold (fun v (acc : amap) => delete v acc) (al r) (removed_set r (false, p)))
      (set_fold (fun v (acc : cmapT) => delete v acc) (cm r) (removed_set r (false, p)))
      (cv r ∖ {[p]}).
Proof. intros Hp. unfold remove. cbn. rewrite decide_True by done. done. Qed.

Lemma remove_noop_neg (r : rel) (p : positive) : remove r (true, p) = r.
Proof. done. Qed.
Lemma remove_noop_notcanon (r : rel) (a : svar) : a.2 ∉ cv r → remove r a = r.
Proof. intros H. unfold remove. destruct a as [[] p]; [done|]. cbn in *. by rewrite decide_False. Qed.

(* the class function after a removal: singletons on the removed set, unchanged elsewhere *)
Lemma cls_remove (r : rel) (p : positive) (k : svar) : p ∈ cv r →
  cls (al (remove r (false, p))) k =
    if decide (k ∈ removed_set r (false, p)) then {[k]} else cls (al r) k.
Proof.
  intros Hp. rewrite remove_unfold by done. cbn [al]. unfold cls at 1.
  rewrite del_fold_lookup. case_decide; done.
Qed.

Lemma canon_remove (r : rel) (p : positive) (k : svar) : p ∈ cv r →
  canon (cm (remove r (false, p))) k =
    if decide (k ∈ removed_set r (false, p)) then (k.2, k.1) else canon (cm r) k.
Proof.
  intros Hp. rewrite remove_unfold by done. cbn [cm]. unfold canon at 1.
  rewrite del_fold_lookup. case_decide; done.
Qed.

Section RemoveInv.
  Context (r : rel) (a : svar).
  Hypothesis Hal : al_ok r.
  Let R := removed_set r a.

  Lemma removed_tog k : k ∈ R ↔ tog k ∈ R.
  Proof.
    destruct Hal as (_ & Hs & _). unfold R, removed_set.
    rewrite (Hs a). rewrite !elem_of_union, !elem_togs, tog_tog. tauto.
  Qed.

  (* a class that meets the removed set lies inside it *)
  Lemma removed_closed k v : v ∈ cls (al r) k → v ∈ R → k ∈ R.
  Proof.
    destruct Hal as ([Hr Hc] & _ & _). unfold R, removed_set. intros Hv [H1|H1]%elem_of_union.
    - apply elem_of_union_l. rewrite <- (Hc _ _ H1). rewrite (Hc _ _ Hv). apply Hr.
    - apply elem_of_union_r. rewrite <- (Hc _ _ H1). rewrite (Hc _ _ Hv). apply Hr.
  Qed.
End RemoveInv.

Lemma remove_al_ok (r : rel) (a : svar) : al_ok r → al_ok (remove r a).
Proof.
  intros Hal. destruct a as [[] p]; [done|].
  destruct (decide (p ∈ cv r)) as [Hp|Hp]; [|by rewrite remove_noop_notcanon].
  pose proof Hal as ([Hr Hc] & Hs & Hcons).
  split; [split|split].
  - intros k. rewrite cls_remove by done. case_decide; [set_solver|apply Hr].
  - intros k v. rewrite !cls_remove by done. case_decide as Hk.
    + intros ->%elem_of_singleton. by rewrite decide_True.
    + intros Hv. rewrite decide_False; [by apply Hc|].
      intros HvR. apply Hk. by eapply (removed_closed r (false, p) Hal).
  - intros k. rewrite !cls_remove by done.
    destruct (decide (k ∈ removed_set r (false, p))) as [Hk|Hk].
    + rewrite decide_True by (by apply (proj1 (removed_tog r (false, p) Hal k))). unfold togs. by rewrite set_map_singleton_L.
    + rewrite decide_False; [apply Hs|]. intros H1. apply Hk. by apply (proj2 (removed_tog r (false, p) Hal k)).
  - intros k. rewrite cls_remove by done. case_decide.
    + intros ?%elem_of_singleton. by eapply tog_ne.
    + apply Hcons.
Qed.

Lemma remove_canon_ok (r : rel) (a : svar) : al_ok r → canon_ok r → canon_ok (remove r a).
Proof.
  intros Hal (C1 & C2 & C3). destruct a as [[] p]; [done|].
  destruct (decide (p ∈ cv r)) as [Hp|Hp]; [|by rewrite remove_noop_notcanon].
  split; [|split].
  - intros k. rewrite canon_remove, cls_remove by done. case_decide; [|apply C1].
    destruct k as [s q]. cbn. set_solver.
  - intros k v. rewrite cls_remove, !canon_remove by done. case_decide as Hk.
    + intros ->%elem_of_singleton. by rewrite decide_True.
    + intros Hv. rewrite decide_False; [by apply C2|].
      intros HvR. apply Hk. by eapply (removed_closed r (false, p) Hal).
  - intros k. rewrite !canon_remove by done.
    destruct (decide (k ∈ removed_set r (false, p))) as [Hk|Hk].
    + rewrite decide_True by (by apply (proj1 (removed_tog r (false, p) Hal k))). destruct k as [[] q]; reflexivity.
    + rewrite decide_False; [apply C3|]. intros H1. apply Hk. by apply (proj2 (removed_tog r (false, p) Hal k)).
Qed.

(* ---------- histories of operations over several relations ---------- *)
Definition rel_ok (r : rel) : Prop := al_ok r ∧ canon_ok r.
Definition all_ok (rs : list rel) : Prop := Forall rel_ok rs.

(* an Add is legal when it does not relate a variable to its own negation *)
Definition legal_op (rs : list rel) (o : op) : Prop :=
  match o with
  | Add i a b => ∀ r, rs !! i = Some r → tog b ∉ cls (al r) a
  | _ => True
  end.
Fixpoint legal_ops (rs : list rel) (ops : list op) : Prop :=
  match ops with
  | [] => True
  | o :: ops' => legal_op rs o ∧ legal_ops (step rs o) ops'
  end.

Lemma add_rel_ok r a b : rel_ok r → tog b ∉ cls (al r) a → rel_ok (add r a b).
Proof. intros [H1 H2] Hl. split; [by apply add_al_ok|by apply add_canon_ok]. Qed.
Lemma remove_rel_ok r a : rel_ok r → rel_ok (remove r a).
Proof. intros [H1 H2]. split; [by apply remove_al_ok|by apply remove_canon_ok]. Qed.

Lemma upd_all_ok rs i f : all_ok rs → (∀ r, rs !! i = Some r → rel_ok r → rel_ok (f r)) → all_ok (upd rs i f).
Proof.
  intros Hall Hf. unfold upd. destruct (rs !! i) as [r|] eqn:E; [|done].
  apply Forall_insert; [done|]. apply Hf; [done|]. by eapply Forall_lookup_1.
Qed.

Lemma step_all_ok rs o : all_ok rs → legal_op rs o → all_ok (step rs o).
Proof.
  intros Hall Hl. destruct o as [i a b|i a|i]; cbn [step].
  - apply upd_all_ok; [done|]. intros r Hr Hok. apply add_rel_ok; [done|]. by apply Hl.
  - apply upd_all_ok; [done|]. intros r _ Hok. by apply remove_rel_ok.
  - destruct (rs !! i) as [r|] eqn:E; [|done].
    apply Forall_app. split; [done|]. constructor; [|constructor]. by eapply Forall_lookup_1.
Qed.

Lemma fold_all_ok ops : ∀ rs, all_ok rs → legal_ops rs ops → all_ok (fold_left step ops rs).
Proof.
  induction ops as [|o ops IH]; intros rs Hall Hl; [done|].
  destruct Hl as [H1 H2]. cbn [fold_left]. apply IH; [by apply step_all_ok|done].
Qed.

Lemma rel_ok_empty : rel_ok empty_rel.
Proof. split; [apply al_ok_empty|apply canon_ok_empty]. Qed.

(* every relation reachable by a legal history of add / remove / copy satisfies all invariants *)
Theorem history_invariants ops : legal_ops [empty_rel] ops → all_ok (run_ops ops).
Proof. intros Hl. apply fold_all_ok; [|done]. constructor; [apply rel_ok_empty|constructor]. Qed.

(* independence: an operation addressed to relation i changes no other relation that already
   exists — in particular a copy and its source evolve independently *)
Theorem step_frame rs o j r :
  rs !! j = Some r →
  match o with Add i _ _ | Remove i _ => i ≠ j | Copy _ => True end →
  step rs o !! j = Some r.
Proof.
  intros Hj Hne. destruct o as [i a b|i a|i]; cbn [step]; unfold upd.
  - destruct (rs !! i); [|done]. by rewrite list_lookup_insert_ne.
  - destruct (rs !! i); [|done]. by rewrite list_lookup_insert_ne.
  - destruct (rs !! i); [|done]. by rewrite lookup_app_l by (by eapply lookup_lt_Some).
Qed.

(* a copy starts out equal to its source *)
Theorem copy_equal rs i r : rs !! i = Some r → step rs (Copy i) !! length rs = Some r.
Proof.
  intros Hi. cbn [step]. rewrite Hi. rewrite lookup_app_r by done.
  by rewrite Nat.sub_diag.
Qed.

(* what remove does to the answers of aliases() and canonical_signed() *)
Theorem remove_spec (r : rel) (p : positive) (k : svar) : rel_ok r → p ∈ cv r →
  let R := q_aliases r (false, p) ∪ q_aliases r (true, p) in
  (k ∈ R → q_aliases (remove r (false, p)) k = {[k]} ∧ q_canon (remove r (false, p)) k = (k.2, k.1)) ∧
  (k ∉ R → q_aliases (remove r (false, p)) k = q_aliases r k ∧ q_canon (remove r (false, p)) k = q_canon r k) ∧
  cv (remove r (false, p)) = cv r ∖ {[p]}.
Proof.
  intros _ Hp R. unfold q_aliases, q_canon.
  assert (R = removed_set r (false, p)) as HR by done.
  split; [|split].
  - intros Hk. rewrite cls_remove, canon_remove by done. rewrite <- HR. by rewrite !decide_True.
  - intros Hk. rewrite cls_remove, canon_remove by done. rewrite <- HR. by rewrite !decide_False.
  - by rewrite remove_unfold.
Qed.
