(* C11 — proofs over Model/C11_residual.v *)
From Coq Require Import ZArith QArith Qcanon List Bool Lia.
From PV Require Import Model.C11_residual.
Import ListNotations.
Open Scope Qc_scope.

(* ---------- exact primitives ---------- *)
Lemma qeqb_true a b : qeqb a b = true <-> a = b.
Proof.
  unfold qeqb. rewrite Qceq_alt. destruct (a ?= b); split; intro H; try reflexivity; discriminate H.
Qed.
Lemma qeqb_false a b : qeqb a b = false <-> a <> b.
Proof.
  split; intro H.
  - intro E. apply qeqb_true in E. congruence.
  - destruct (qeqb a b) eqn:E; [apply qeqb_true in E; contradiction | reflexivity].
Qed.
Lemma Qc_0_le_1 : 0 <= 1.
Proof. unfold Qcle. simpl. unfold Qle. simpl. lia. Qed.
Lemma Qc_1_neq_0 : (1:Qc) <> 0.
Proof. exact Q_apart_0_1. Qed.

(* ---------- encoding relation ---------- *)
(* numbers: equal; Booleans: the CasADi number is >= 0 and non-zero exactly when true *)
Definition enc_rel (v : value) (w : Qc) : Prop :=
  match v with
  | VNum q => w = q
  | VBool b => 0 <= w /\ (w <> 0 <-> b = true)
  end.

Lemma enc_b2q b : enc_rel (VBool b) (b2q b).
Proof.
  destruct b; simpl; split.
  - exact Qc_0_le_1.
  - split; intro; [reflexivity | exact Qc_1_neq_0].
  - apply Qcle_refl.
  - split; intro H; [exfalso; apply H; reflexivity | discriminate H].
Qed.

Lemma enc_and a b x y :
  enc_rel (VBool a) x -> enc_rel (VBool b) y -> enc_rel (VBool (a && b)) (x * y).
Proof.
  simpl. intros [Hx Ha] [Hy Hb]. split.
  - pose proof (Qcmult_le_compat_r 0 x y Hx Hy) as H. rewrite Qcmult_0_l in H. exact H.
  - split; intro H.
    + apply andb_true_intro. split.
      * apply Ha. intro E. apply H. rewrite E. apply Qcmult_0_l.
      * apply Hb. intro E. apply H. rewrite E. apply Qcmult_0_r.
    + apply andb_prop in H. destruct H as [H1 H2]. intro E.
      apply Qcmult_integral in E. destruct E as [E | E].
      * apply Ha in H1. contradiction.
      * apply Hb in H2. contradiction.
Qed.

Lemma nonneg_sum_zero x y : 0 <= x -> 0 <= y -> x + y = 0 -> x = 0 /\ y = 0.
Proof.
  intros Hx Hy E. split.
  - apply Qcle_antisym; [| exact Hx].
    pose proof (Qcplus_le_compat x x 0 y (Qcle_refl x) Hy) as H.
    rewrite Qcplus_0_r, E in H. exact H.
  - apply Qcle_antisym; [| exact Hy].
    pose proof (Qcplus_le_compat 0 x y y Hx (Qcle_refl y)) as H.
    rewrite Qcplus_0_l, E in H. exact H.
Qed.

Lemma enc_or a b x y :
  enc_rel (VBool a) x -> enc_rel (VBool b) y -> enc_rel (VBool (a || b)) (x + y).
Proof.
  simpl. intros [Hx Ha] [Hy Hb]. split.
  - pose proof (Qcplus_le_compat 0 x 0 y Hx Hy) as H. rewrite Qcplus_0_l in H. exact H.
  - split; intro H.
    + destruct a; [reflexivity |]. destruct b; [reflexivity |]. exfalso.
      assert (x = 0) as Ex.
      { destruct (Qc_eq_dec x 0) as [E | N]; [exact E |]. apply Ha in N. discriminate N. }
      assert (y = 0) as Ey.
      { destruct (Qc_eq_dec y 0) as [E | N]; [exact E |]. apply Hb in N. discriminate N. }
      apply H. rewrite Ex, Ey. apply Qcplus_0_l.
    + intro E. destruct (nonneg_sum_zero x y Hx Hy E) as [Ex Ey].
      apply orb_prop in H. destruct H as [H | H].
      * apply Ha in H. contradiction.
      * apply Hb in H. contradiction.
Qed.

(* not x = if_else(x, 0, 1) *)
Lemma enc_not a x :
  enc_rel (VBool a) x -> enc_rel (VBool (negb a)) (if qeqb x 0 then 1 else 0).
Proof.
  simpl. intros [Hx Ha]. destruct (qeqb x 0) eqn:E.
  - apply qeqb_true in E. split; [exact Qc_0_le_1 |].
    split; intro H.
    + destruct a; [| reflexivity]. exfalso. assert (x <> 0) by (apply Ha; reflexivity). contradiction.
    + exact Qc_1_neq_0.
  - apply qeqb_false in E. split; [apply Qcle_refl |].
    split; intro H.
    + exfalso. apply H. reflexivity.
    + apply Ha in E. rewrite E in H. discriminate H.
Qed.

(* ---------- the table ---------- *)
Lemma meth_eqb_eq a b : meth_eqb a b = true -> a = b.
Proof. destruct a, b; simpl; intro H; try reflexivity; discriminate H. Qed.

Lemma table_ok_lookup T : table_ok T = true -> forall k, k <> K_ne -> lookup T k = Some (expected k, true).
Proof.
  unfold table_ok. intros H k Hk. apply andb_prop in H. destruct H as [H _]. rewrite forallb_forall in H.
  assert (In k core_keys) as Hin by (destruct k; simpl; try tauto; contradiction).
  specialize (H k Hin). unfold row_ok in H.
  destruct (lookup T k) as [[m ex] |]; [| discriminate H].
  apply andb_prop in H. destruct H as [H1 H2]. apply meth_eqb_eq in H1. subst. reflexivity.
Qed.
Lemma ne_ok_lookup T : ne_ok T = true -> lookup T K_ne = Some (M_ne, true).
Proof.
  unfold ne_ok, row_ok. destruct (lookup T K_ne) as [[m ex] |]; [| intro H; discriminate H].
  intro H. apply andb_prop in H. destruct H as [H1 H2]. apply meth_eqb_eq in H1. subst. reflexivity.
Qed.
Lemma table_ok_ne T m : table_ok T = true -> lookup T K_ne = Some (m, true) -> m = M_ne.
Proof.
  unfold table_ok. intros H E. apply andb_prop in H. destruct H as [_ H]. unfold ne_row_sound in H.
  rewrite E in H. simpl in H. apply meth_eqb_eq in H. exact H.
Qed.

Lemma table_ok_total T : table_ok T = true -> ne_ok T = true -> table_total T = true.
Proof.
  intros H N. unfold table_total. apply forallb_forall. intros k _.
  destruct k; try (rewrite (table_ok_lookup T H) by discriminate; reflexivity).
  rewrite (ne_ok_lookup T N). reflexivity.
Qed.

(* ---------- induction principle for the nested expr ---------- *)
Section ExprInd.
Variable P : expr -> Prop.
Hypothesis Hnum : forall q, P (ENum q).
Hypothesis Hbool : forall b, P (EBool b).
Hypothesis Href : forall r, P (ERef r).
Hypothesis Hun : forall o a, P a -> P (EUn o a).
Hypothesis Hbin : forall o a b, P a -> P b -> P (EBin o a b).
Hypothesis Hif : forall brs els,
    Forall (fun ca => P (fst ca) /\ P (snd ca)) brs -> P els -> P (EIf brs els).
Hypothesis Hfun : forall f a, P a -> P (EFun f a).

Fixpoint expr_ind' (e : expr) : P e :=
  match e with
  | ENum q => Hnum q
  | EBool b => Hbool b
  | ERef r => Href r
  | EUn o a => Hun o a (expr_ind' a)
  | EBin o a b => Hbin o a b (expr_ind' a) (expr_ind' b)
  | EIf brs els =>
      Hif brs els
        ((fix go (l : list (expr * expr)) : Forall (fun ca => P (fst ca) /\ P (snd ca)) l :=
            match l with
            | [] => Forall_nil _
            | ca :: r => Forall_cons ca (conj (expr_ind' (fst ca)) (expr_ind' (snd ca))) (go r)
            end) brs)
        (expr_ind' els)
  | EFun f a => Hfun f a (expr_ind' a)
  end.
End ExprInd.

(* ---------- environments ---------- *)
(* the CasADi evaluation point encodes the Modelica one: Real variables by their value,
   Boolean variables by 0/1, derivatives as independent inputs, arrays shifted to 0-based *)
Definition env_rel (rm : menv) (rc : cenv) : Prop :=
  (forall x, match m_sc rm x with VNum q => c_sc rc x = q | VBool b => c_sc rc x = b2q b end) /\
  (forall x, c_der rc x = m_der rm x) /\
  (forall x k, c_arr rc x (k - 1) = m_arr rm x k) /\
  c_i rc = m_i rm.

Lemma env_rel_loop rm rc i : env_rel rm rc -> env_rel (with_mi rm i) (with_ci rc i).
Proof. intros (H1 & H2 & H3 & H4). repeat split; simpl; auto. Qed.

(* ---------- ranges ---------- *)
(* the values the generator loops over are the Modelica range, for every non-zero step *)
Lemma range_values_modelica lo st hi : st <> 0%Z -> range_values lo st hi = modelica_range lo st hi.
Proof.
  intro Hst. unfold range_values, modelica_range, arange.
  destruct (0 <? st)%Z eqn:Hp.
  - apply Z.ltb_lt in Hp.
    assert ((st <? 0)%Z = false) as -> by (apply Z.ltb_ge; lia).
    rewrite andb_false_l, orb_false_r, andb_true_l.
    replace (hi + 1 - lo + st - 1)%Z with ((hi - lo) + 1 * st)%Z by lia.
    rewrite Z.div_add by lia.
    destruct (hi <? lo)%Z eqn:Hlt; [| reflexivity].
    apply Z.ltb_lt in Hlt.
    assert ((hi - lo) / st < 0)%Z by (apply Z.div_lt_upper_bound; lia).
    replace (Z.to_nat ((hi - lo) / st + 1)) with 0%nat by lia. reflexivity.
  - apply Z.ltb_ge in Hp.
    assert ((st <? 0)%Z = true) as -> by (apply Z.ltb_lt; lia).
    rewrite andb_false_l, orb_false_l, andb_true_l.
    replace (lo - (hi + -1) + - st - 1)%Z with ((lo - hi) + 1 * (- st))%Z by lia.
    rewrite Z.div_add by lia.
    assert ((hi - lo) / st = (lo - hi) / (- st))%Z as E.
    { rewrite <- (Z.div_opp_opp (lo - hi) (- st)) by lia.
      rewrite Z.opp_involutive. f_equal. lia. }
    rewrite E.
    destruct (lo <? hi)%Z eqn:Hlt; [| reflexivity].
    apply Z.ltb_lt in Hlt.
    assert ((lo - hi) / (- st) < 0)%Z by (apply Z.div_lt_upper_bound; lia).
    replace (Z.to_nat ((lo - hi) / - st + 1)) with 0%nat by lia. reflexivity.
Qed.

Section Sound.
Variable F : positive -> Qc -> Qc.
Variable T : table.
Hypothesis HT : table_ok T = true.

Lemma ref_sound rm rc r : env_rel rm rc -> enc_rel (m_ref r rm) (c_sym (tr_ref r) rc).
Proof.
  intros (H1 & H2 & H3 & H4). destruct r; simpl.
  - specialize (H1 x). destruct (m_sc rm x); [exact H1 | rewrite H1; apply enc_b2q].
  - apply H2.
  - apply H3.
  - rewrite H4. apply H3.
  - rewrite H4. reflexivity.
  - rewrite H4. apply H3.
Qed.

(* tr never fails under a good table, on `<>`-free input or when "<>" is mapped *)
Lemma tr_bin_total o a b : (ne_ok T = true \/ o <> BNe) -> exists c, tr_bin T o a b = Ok c.
Proof.
  intro N. unfold tr_bin. destruct o; try (eexists; reflexivity);
    try (rewrite (table_ok_lookup T HT) by discriminate; simpl; eexists; reflexivity).
  destruct N as [N | N]; [| contradiction]. simpl. rewrite (ne_ok_lookup T N). simpl. eexists; reflexivity.
Qed.
Lemma tr_un_total o a : exists c, tr_un T o a = Ok c.
Proof.
  unfold tr_un. destruct o; try (eexists; reflexivity).
  rewrite (table_ok_lookup T HT) by discriminate. simpl. eexists; reflexivity.
Qed.

Lemma tr_total e : (ne_ok T = true \/ ne_free e = true) -> exists c, tr T e = Ok c.
Proof.
  induction e using expr_ind'; cbn [tr ne_free]; intro N.
  - eexists; reflexivity.
  - eexists; reflexivity.
  - eexists; reflexivity.
  - destruct (IHe N) as [c ->]. apply tr_un_total.
  - assert ((ne_ok T = true \/ ne_free e1 = true) /\ (ne_ok T = true \/ ne_free e2 = true) /\ (ne_ok T = true \/ o <> BNe)) as (N1 & N2 & N3).
    { destruct N as [N | N]; [repeat split; left; exact N |].
      destruct o; try discriminate N; apply andb_prop in N; destruct N as [A B];
        (repeat split; right; try assumption; discriminate). }
    destruct (IHe1 N1) as [c1 ->]. destruct (IHe2 N2) as [c2 ->]. apply tr_bin_total. exact N3.
  - assert (ne_ok T = true \/ ne_free e = true) as Nels.
    { destruct N as [N | N]; [left; exact N | right].
      induction brs as [| [c a] r IHr]; [exact N |].
      apply andb_prop in N. destruct N as [_ N]. inversion H; subst. apply IHr; assumption. }
    destruct (IHe Nels) as [cels ->].
    induction H as [| [c a] r [Hc Ha] _ IHr].
    + eexists; reflexivity.
    + simpl in Hc, Ha.
      assert ((ne_ok T = true \/ ne_free c = true) /\ (ne_ok T = true \/ ne_free a = true) /\
              (ne_ok T = true \/ (fix go (l : list (expr * expr)) : bool :=
                 match l with [] => ne_free e | (c, a) :: r => ne_free c && ne_free a && go r end) r = true))
        as (N1 & N2 & N3).
      { destruct N as [N | N]; [repeat split; left; exact N |].
        apply andb_prop in N. destruct N as [N N3]. apply andb_prop in N. destruct N as [N1 N2].
        repeat split; right; assumption. }
      destruct (Hc N1) as [cc ->]. destruct (Ha N2) as [ca ->]. destruct (IHr N3) as [rest ->].
      eexists; reflexivity.
  - destruct (IHe N) as [c ->]. eexists; reflexivity.
Qed.

Lemma bin_sound o v w r x y c ca cb rc :
  m_bin o v w = Some r -> enc_rel v x -> enc_rel w y ->
  ca_eval F ca rc = Some x -> ca_eval F cb rc = Some y ->
  tr_bin T o ca cb = Ok c ->
  exists z, ca_eval F c rc = Some z /\ enc_rel r z.
Proof.
  intros Hm Hx Hy Ea Eb Htr.
  assert (o = BNe -> c = CBin CNe ca cb) as HNe.
  { intros ->. unfold tr_bin in Htr. simpl in Htr.
    destruct (lookup T K_ne) as [[m [|]] |] eqn:E; try discriminate Htr.
    rewrite (table_ok_ne T m HT E) in Htr. simpl in Htr. injection Htr as <-. reflexivity. }
  destruct o; try (rewrite (HNe eq_refl); clear Htr);
    try (unfold tr_bin in Htr; try rewrite (table_ok_lookup T HT) in Htr by discriminate;
         simpl in Htr; injection Htr as <-);
    cbn [ca_eval]; rewrite Ea, Eb;
    destruct v as [a | a], w as [b | b]; simpl in Hm; try discriminate Hm;
    simpl in Hx, Hy; try subst x; try subst y; cbn [ca_bin].
  - injection Hm as <-. eexists; split; reflexivity.
  - injection Hm as <-. eexists; split; reflexivity.
  - injection Hm as <-. eexists; split; reflexivity.
  - injection Hm as <-. eexists; split; reflexivity.
  - destruct (qdiv a b); simpl in Hm; [| discriminate Hm]. injection Hm as <-. eexists; split; reflexivity.
  - destruct (qpow a b); simpl in Hm; [| discriminate Hm]. injection Hm as <-. eexists; split; reflexivity.
  - injection Hm as <-. eexists; split; [reflexivity | apply enc_b2q].
  - injection Hm as <-. eexists; split; [reflexivity | apply enc_b2q].
  - injection Hm as <-. eexists; split; [reflexivity | apply enc_b2q].
  - injection Hm as <-. eexists; split; [reflexivity | apply enc_b2q].
  - injection Hm as <-. eexists; split; [reflexivity | apply enc_b2q].
  - injection Hm as <-. eexists; split; [reflexivity | apply enc_b2q].
  - injection Hm as <-. eexists; split; reflexivity.
  - injection Hm as <-. eexists; split; reflexivity.
  - injection Hm as <-. eexists; split; [reflexivity | apply enc_and; assumption].
  - injection Hm as <-. eexists; split; [reflexivity | apply enc_or; assumption].
Qed.

Lemma un_sound o v r x c ca rc :
  m_un o v = Some r -> enc_rel v x -> ca_eval F ca rc = Some x -> tr_un T o ca = Ok c ->
  exists z, ca_eval F c rc = Some z /\ enc_rel r z.
Proof.
  intros Hm Hx Ea Htr. unfold tr_un in Htr.
  destruct o; try rewrite (table_ok_lookup T HT) in Htr by discriminate; simpl in Htr; injection Htr as <-;
    destruct v as [a | a]; simpl in Hm; try discriminate Hm; injection Hm as <-.
  - simpl in Hx. subst x. cbn [ca_eval]. rewrite Ea. eexists; split; reflexivity.
  - simpl in Hx. subst x. exists a. split; [exact Ea | reflexivity].
  - cbn [ca_eval]. rewrite Ea. pose proof (enc_not a x Hx) as H.
    destruct (qeqb x 0); eexists; (split; [reflexivity | exact H]).
  - simpl in Hx. subst x. cbn [ca_eval]. rewrite Ea. eexists; split; reflexivity.
Qed.

(* C11_expr: whenever the Modelica meaning is defined, the CasADi graph evaluates to its encoding *)
Lemma expr_sound rm rc (HE : env_rel rm rc) e :
  forall c, tr T e = Ok c ->
  forall v, m_eval F e rm = Some v -> exists w, ca_eval F c rc = Some w /\ enc_rel v w.
Proof.
  induction e using expr_ind'; cbn [tr m_eval]; intros c Htr v Hm.
  - injection Htr as <-. injection Hm as <-. eexists; split; reflexivity.
  - injection Htr as <-. injection Hm as <-. eexists; split; [reflexivity | apply enc_b2q].
  - injection Htr as <-. injection Hm as <-. eexists; split; [reflexivity | apply ref_sound; exact HE].
  - destruct (tr T e) as [ca |] eqn:Ea; [| discriminate Htr].
    destruct (m_eval F e rm) as [va |] eqn:Ma; [| discriminate Hm].
    destruct (IHe ca eq_refl va eq_refl) as (x & Ex & Rx).
    eapply un_sound; eassumption.
  - destruct (tr T e1) as [ca |] eqn:Ea; [| discriminate Htr].
    destruct (tr T e2) as [cb |] eqn:Eb; [| discriminate Htr].
    destruct (m_eval F e1 rm) as [va |] eqn:Ma; [| discriminate Hm].
    destruct (m_eval F e2 rm) as [vb |] eqn:Mb; [| discriminate Hm].
    destruct (IHe1 ca eq_refl va eq_refl) as (x & Ex & Rx).
    destruct (IHe2 cb eq_refl vb eq_refl) as (y & Ey & Ry).
    eapply bin_sound; eassumption.
  - destruct (tr T e) as [cels |] eqn:Eels; [| discriminate Htr].
    revert c Htr v Hm.
    induction H as [| [cnd a] r [IHc IHa] _ IHr]; intros c Htr v Hm.
    + injection Htr as <-. apply (IHe cels eq_refl v Hm).
    + simpl in IHc, IHa.
      destruct (tr T cnd) as [cc |] eqn:Ec; [| discriminate Htr].
      destruct (tr T a) as [ca |] eqn:Ea; [| destruct ((fix go (l : list (expr * expr)) : res caexpr := _) r); discriminate Htr].
      match type of Htr with
      | match ?g with _ => _ end = _ => destruct g as [rest |] eqn:Er; [| discriminate Htr]
      end.
      injection Htr as <-.
      destruct (m_eval F cnd rm) as [[q | b] |] eqn:Mc; try discriminate Hm.
      destruct (IHc cc eq_refl (VBool b) eq_refl) as (x & Ex & [Hx Hb]).
      cbn [ca_eval]. rewrite Ex.
      destruct b.
      * assert (x <> 0) as N by (apply Hb; reflexivity). apply qeqb_false in N. rewrite N.
        apply (IHa ca eq_refl v Hm).
      * assert (x = 0) as Z.
        { destruct (Qc_eq_dec x 0) as [E | N]; [exact E |]. apply Hb in N. discriminate N. }
        apply qeqb_true in Z. rewrite Z.
        apply (IHr rest eq_refl v Hm).
  - destruct (tr T e) as [ca |] eqn:Ea; [| discriminate Htr]. injection Htr as <-.
    destruct (m_eval F e rm) as [[q | b] |] eqn:Ma; try discriminate Hm. injection Hm as <-.
    destruct (IHe ca eq_refl (VNum q) eq_refl) as (x & Ex & Rx). simpl in Rx. subst x.
    cbn [ca_eval]. rewrite Ex. eexists; split; reflexivity.
Qed.

(* ---------- residuals ---------- *)
Lemma seqn_sound rm rc (HE : env_rel rm rc) s c d :
  tr_seqn T s = Ok c -> m_res1 F s rm = Some d -> ca_eval F c rc = Some d.
Proof.
  unfold tr_seqn, m_res1. destruct s as [l r]. simpl. intros Htr Hm.
  destruct (tr T l) as [cl |] eqn:El; [| discriminate Htr].
  destruct (tr T r) as [cr |] eqn:Er; [| discriminate Htr]. injection Htr as <-.
  destruct (m_eval F l rm) as [[a | a] |] eqn:Ml; try discriminate Hm.
  destruct (m_eval F r rm) as [[b | b] |] eqn:Mr; try discriminate Hm. injection Hm as <-.
  destruct (expr_sound rm rc HE l cl El _ Ml) as (x & Ex & Rx).
  destruct (expr_sound rm rc HE r cr Er _ Mr) as (y & Ey & Ry).
  simpl in Rx, Ry. subst. cbn [ca_eval]. rewrite Ex, Ey. reflexivity.
Qed.

Definition seqn_ne_free (s : seqn) : bool := ne_free (fst s) && ne_free (snd s).
Lemma tr_seqn_total s : (ne_ok T = true \/ seqn_ne_free s = true) -> exists c, tr_seqn T s = Ok c.
Proof.
  intro N. unfold tr_seqn.
  assert ((ne_ok T = true \/ ne_free (fst s) = true) /\ (ne_ok T = true \/ ne_free (snd s) = true)) as [N1 N2].
  { destruct N as [N | N]; [split; left; exact N |]. apply andb_prop in N. destruct N. split; right; assumption. }
  destruct (tr_total (fst s) N1) as [l ->]. destruct (tr_total (snd s) N2) as [r ->].
  eexists; reflexivity.
Qed.
Lemma tr_seqns_total l : (ne_ok T = true \/ forallb seqn_ne_free l = true) -> exists cs, tr_seqns T l = Ok cs.
Proof.
  induction l as [| s r IH]; simpl; intro N.
  - eexists; reflexivity.
  - assert ((ne_ok T = true \/ seqn_ne_free s = true) /\ (ne_ok T = true \/ forallb seqn_ne_free r = true)) as [N1 N2].
    { destruct N as [N | N]; [split; left; exact N |]. apply andb_prop in N. destruct N. split; right; assumption. }
    destruct (tr_seqn_total s N1) as [c ->]. destruct (IH N2) as [cs ->]. eexists; reflexivity.
Qed.

(* agreement of a CasADi residual entry with the Modelica one: wherever the Modelica
   residual is defined, the CasADi entry is that number *)
Definition agrees (m c : option Qc) : Prop := forall d, m = Some d -> c = Some d.

Lemma seqns_sound rm rc (HE : env_rel rm rc) l cs :
  tr_seqns T l = Ok cs ->
  Forall2 agrees (map (fun s => m_res1 F s rm) l) (ca_evals F cs rc).
Proof.
  revert cs. induction l as [| s r IH]; simpl; intros cs H.
  - injection H as <-. constructor.
  - destruct (tr_seqn T s) as [c |] eqn:Es; [| discriminate H].
    destruct (tr_seqns T r) as [cr |] eqn:Er; [| discriminate H]. injection H as <-.
    simpl. constructor; [| apply IH; reflexivity].
    intros d Hd. eapply seqn_sound; eassumption.
Qed.

(* well-formed: if-equation blocks all have the length of the else block (Modelica requires it,
   generator line 530 checks it) *)
Definition eqn_wf (q : eqn) : Prop :=
  match q with
  | QIf brs els => Forall (fun b => length (snd b) = length els) brs
  | QFor _ st _ _ => st <> 0%Z
  | QSimple _ => True
  end.
Definition eqn_ne_free (q : eqn) : bool :=
  match q with
  | QSimple s => seqn_ne_free s
  | QIf brs els => forallb (fun b => ne_free (fst b) && forallb seqn_ne_free (snd b)) brs && forallb seqn_ne_free els
  | QFor _ _ _ body => forallb seqn_ne_free body
  end.

Lemma tr_eqn_total q : eqn_wf q -> (ne_ok T = true \/ eqn_ne_free q = true) -> exists r, tr_eqn T q = Ok r.
Proof.
  destruct q as [s | brs els | lo st hi body]; simpl; intros W N.
  - destruct (tr_seqn_total s N) as [c ->]. eexists; reflexivity.
  - assert (forallb (fun b => Nat.eqb (length (snd b)) (length els)) brs = true) as ->.
    { apply forallb_forall. intros b Hb. rewrite Forall_forall in W. apply Nat.eqb_eq. apply W. exact Hb. }
    assert ((ne_ok T = true \/ forallb seqn_ne_free els = true) /\
            (ne_ok T = true \/ forallb (fun b => ne_free (fst b) && forallb seqn_ne_free (snd b)) brs = true)) as [Nels Nbrs].
    { destruct N as [N | N]; [split; left; exact N |]. apply andb_prop in N. destruct N. split; right; assumption. }
    destruct (tr_seqns_total els Nels) as [cels ->].
    clear W N. induction brs as [| [c blk] r IH].
    + eexists; reflexivity.
    + assert ((ne_ok T = true \/ ne_free c = true) /\ (ne_ok T = true \/ forallb seqn_ne_free blk = true) /\
              (ne_ok T = true \/ forallb (fun b => ne_free (fst b) && forallb seqn_ne_free (snd b)) r = true)) as (N1 & N2 & N3).
      { destruct Nbrs as [N | N]; [repeat split; left; exact N |]. simpl in N.
        apply andb_prop in N. destruct N as [N N3]. apply andb_prop in N. destruct N as [N1 N2].
        repeat split; right; assumption. }
      destruct (tr_total c N1) as [cc ->]. destruct (tr_seqns_total blk N2) as [cb ->].
      destruct (IH N3) as [rest ->]. eexists; reflexivity.
  - apply Z.eqb_neq in W. rewrite W. destruct (tr_seqns_total body N) as [cb ->]. eexists; reflexivity.
Qed.

Lemma Forall2_app_agrees a b c d :
  Forall2 agrees a b -> Forall2 agrees c d -> Forall2 agrees (a ++ c) (b ++ d).
Proof. intros H1 H2. induction H1; simpl; [exact H2 | constructor; assumption]. Qed.

Lemma map_loop_sound rm rc (HE : env_rel rm rc) vals s c :
  tr_seqn T s = Ok c ->
  Forall2 agrees (map (fun i => m_res1 F s (with_mi rm i)) vals)
                 (map (fun i => ca_eval F c (with_ci rc i)) vals).
Proof.
  intro Es. induction vals as [| i vs IHv]; simpl; constructor; [| exact IHv].
  intros d Hd. eapply seqn_sound; [apply env_rel_loop; exact HE | exact Es | exact Hd].
Qed.

Lemma eqn_sound rm rc (HE : env_rel rm rc) q r ms :
  tr_eqn T q = Ok r -> m_res F q rm = Some ms ->
  exists cs, ca_res F r rc = Some cs /\ Forall2 agrees ms cs.
Proof.
  destruct q as [s | brs els | lo st hi body]; simpl; intros Htr Hm.
  - destruct (tr_seqn T s) as [c |] eqn:Es; [| discriminate Htr]. injection Htr as <-.
    injection Hm as <-. simpl. eexists; split; [reflexivity |].
    constructor; [| constructor]. intros d Hd. eapply seqn_sound; eassumption.
  - destruct (forallb _ brs); [| discriminate Htr].
    destruct (tr_seqns T els) as [cels |] eqn:Eels; [| discriminate Htr].
    revert r Htr ms Hm. induction brs as [| [cnd blk] rest IH]; intros r Htr ms Hm.
    + injection Htr as <-. injection Hm as <-. simpl. eexists; split; [reflexivity |].
      apply seqns_sound; assumption.
    + destruct (tr T cnd) as [cc |] eqn:Ec; [| discriminate Htr].
      destruct (tr_seqns T blk) as [cb |] eqn:Eb;
        [| destruct ((fix go (l : list (expr * list seqn)) : res cares := _) rest); discriminate Htr].
      match type of Htr with
      | match ?g with _ => _ end = _ => destruct g as [rr |] eqn:Er; [| discriminate Htr]
      end.
      injection Htr as <-.
      destruct (m_eval F cnd rm) as [[qv | b] |] eqn:Mc; try discriminate Hm.
      destruct (expr_sound rm rc HE cnd cc Ec _ Mc) as (x & Ex & [Hx Hb]).
      cbn [ca_res]. rewrite Ex. destruct b.
      * injection Hm as <-.
        assert (x <> 0) as N by (apply Hb; reflexivity). apply qeqb_false in N. rewrite N.
        eexists; split; [reflexivity |]. apply seqns_sound; assumption.
      * assert (x = 0) as Z.
        { destruct (Qc_eq_dec x 0) as [E | N]; [exact E |]. apply Hb in N. discriminate N. }
        apply qeqb_true in Z. rewrite Z.
        apply (IH rr eq_refl ms Hm).
  - destruct (st =? 0)%Z eqn:Est; [discriminate Htr |]. apply Z.eqb_neq in Est.
    destruct (tr_seqns T body) as [cb |] eqn:Eb; [| discriminate Htr]. injection Htr as <-.
    injection Hm as <-. simpl. rewrite (range_values_modelica lo st hi Est). eexists; split; [reflexivity |].
    revert cb Eb. induction body as [| s rest IH]; intros cb Eb; simpl in Eb.
    + injection Eb as <-. constructor.
    + destruct (tr_seqn T s) as [c |] eqn:Es; [| discriminate Eb].
      destruct (tr_seqns T rest) as [cr |] eqn:Er; [| discriminate Eb]. injection Eb as <-.
      simpl. apply Forall2_app_agrees; [| apply IH; reflexivity].
      apply map_loop_sound; assumption.
Qed.

End Sound.

(* ---------- the loop range ---------- *)
Lemma zrange_In lo n v : In v (zrange lo n) <-> (lo <= v < lo + Z.of_nat n)%Z.
Proof.
  revert lo. induction n as [| n IH]; intro lo; simpl zrange.
  - simpl. lia.
  - simpl In. rewrite IH. lia.
Qed.
Lemma zrange_length lo n : length (zrange lo n) = n.
Proof. revert lo. induction n; simpl; intros; [reflexivity | f_equal; auto]. Qed.
(* the loop visits exactly lo, lo+1, ..., hi (each once, in order); empty when hi < lo *)
Lemma loop_values_In lo hi v : In v (loop_values lo hi) <-> (lo <= v <= hi)%Z.
Proof. unfold loop_values. rewrite zrange_In. lia. Qed.
Lemma zrange_nth lo n k : (k < n)%nat -> nth k (zrange lo n) 0%Z = (lo + Z.of_nat k)%Z.
Proof.
  revert lo k. induction n as [| n IH]; intros lo k H; [lia |].
  destruct k; simpl; [lia |]. rewrite IH by lia. lia.
Qed.

(* ---------- refutation for the pre-fix table ---------- *)
Definition prefix_table : table :=
  [(K_mul, (M_mul, true)); (K_add, (M_add, true)); (K_sub, (M_sub, true)); (K_div, (M_div, false));
   (K_pow, (M_pow, true)); (K_gt, (M_gt, true)); (K_lt, (M_lt, true)); (K_le, (M_le, true));
   (K_ge, (M_ge, true)); (K_eq, (M_eq, true)); (K_min, (M_fmin, true));
   (K_max, (M_fmax, true)); (K_abs, (M_fabs, true)); (K_and, (M_mul, true)); (K_or, (M_add, true))].
Definition good_table : table :=
  [(K_mul, (M_mul, true)); (K_add, (M_add, true)); (K_sub, (M_sub, true)); (K_div, (M_truediv, true));
   (K_pow, (M_pow, true)); (K_gt, (M_gt, true)); (K_lt, (M_lt, true)); (K_le, (M_le, true));
   (K_ge, (M_ge, true)); (K_ne, (M_ne, true)); (K_eq, (M_eq, true)); (K_min, (M_fmin, true));
   (K_max, (M_fmax, true)); (K_abs, (M_fabs, true)); (K_and, (M_mul, true)); (K_or, (M_add, true))].
(* OP_MAP before e57542a: no "<>" row *)
Definition pre_ne_table : table :=
  [(K_mul, (M_mul, true)); (K_add, (M_add, true)); (K_sub, (M_sub, true)); (K_div, (M_truediv, true));
   (K_pow, (M_pow, true)); (K_gt, (M_gt, true)); (K_lt, (M_lt, true)); (K_le, (M_le, true));
   (K_ge, (M_ge, true)); (K_eq, (M_eq, true)); (K_min, (M_fmin, true));
   (K_max, (M_fmax, true)); (K_abs, (M_fabs, true)); (K_and, (M_mul, true)); (K_or, (M_add, true))].
Lemma good_table_ok : table_ok good_table = true.
Proof. vm_compute. reflexivity. Qed.
Lemma prefix_division_fails :
  tr prefix_table (EBin BDiv (ERef (RVar 1%positive)) (ERef (RVar 2%positive))) = Err E_nomethod.
Proof. vm_compute. reflexivity. Qed.

(* ---------- ranges, continued ---------- *)
(* the two-part range lo:hi (step 1) visits exactly lo..hi *)
Lemma range_values_step1 lo hi : range_values lo 1 hi = loop_values lo hi.
Proof.
  unfold range_values, loop_values, arange. change (0 <? 1)%Z with true. cbv beta iota zeta.
  rewrite Z.div_1_r. replace (hi + 1 - lo + 1 - 1)%Z with (hi + 1 - lo)%Z by lia.
  generalize (Z.to_nat (hi + 1 - lo)). intro n. revert lo.
  induction n as [| n IH]; intro lo; [reflexivity |].
  simpl zrange. rewrite <- IH. cbn [seq map]. rewrite <- seq_shift, map_map.
  f_equal; [lia | apply map_ext; intro k; lia].
Qed.
Lemma range_values_step1_In lo hi v : In v (range_values lo 1 hi) <-> (lo <= v <= hi)%Z.
Proof. rewrite range_values_step1. apply loop_values_In. Qed.
(* concrete instances: positive step not dividing the span, negative step, empty *)
Lemma range_examples :
  range_values 1 2 6 = [1; 3; 5]%Z /\ range_values 5 (-2) 2 = [5; 3]%Z /\ range_values 1 (-1) 3 = [] /\
  range_values 3 1 2 = [].
Proof. vm_compute. repeat split; reflexivity. Qed.
(* the reading before 3facb7b differs from Modelica *)
Lemma old_range3_differs : old_range3 1 2 5 = [1; 6]%Z /\ modelica_range 1 2 5 = [1; 3; 5]%Z.
Proof. vm_compute. split; reflexivity. Qed.

Lemma good_table_total : ne_ok good_table = true /\ table_total good_table = true.
Proof. vm_compute. split; reflexivity. Qed.
(* before e57542a "<>" was not in OP_MAP *)
Lemma pre_ne_table_fails :
  table_ok pre_ne_table = true /\ ne_ok pre_ne_table = false /\
  tr pre_ne_table (EBin BNe (ERef (RVar 1%positive)) (ERef (RVar 2%positive))) = Err E_notable.
Proof. vm_compute. repeat split; reflexivity. Qed.

(* affine loop subscripts: at the iteration with index value v the gathered CasADi element of
   x[a*i + b] is the Modelica element x[a*v + b] (1-based), for any integers a, b *)
Lemma affine_subscript rm rc x a b v :
  env_rel rm rc -> c_sym (tr_ref (RAff x a b)) (with_ci rc v) = m_arr rm x (a * v + b).
Proof. intros (_ & _ & H3 & _). simpl. apply H3. Qed.
