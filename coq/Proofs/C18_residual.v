(* C18 — expanded residual = unexpanded residual under the renaming, at the matrix level. *)
From Coq Require Import String List Arith ZArith Bool Lia.
From PV Require Import Model.C18_expand Model.C18_matrix Proofs.C18_expand.
Import ListNotations.
Open Scope nat_scope.
Open Scope list_scope.

(* ---------------------------------------------------------------------------------------- *)
(* column-major tabulation                                                                    *)
Lemma grid_length {A} (f : nat -> nat -> A) r c :
  length (flat_map (fun j => map (fun i => f i j) (seq 0 r)) (seq 0 c)) = r * c.
Proof.
  assert (G : forall s, length (flat_map (fun j => map (fun i => f i j) (seq 0 r)) (seq s c)) = r * c).
  { induction c as [|c IH]; intros s; cbn [seq flat_map]; [cbn; lia|].
    rewrite app_length, map_length, seq_length, IH. lia. }
  apply G.
Qed.

Lemma build_wf r c f : zwf (build r c f).
Proof. unfold zwf, build; cbn. apply grid_length. Qed.

Lemma zget_build r c f i j : i < r -> j < c -> zget (build r c f) i j = f i j.
Proof.
  intros Hi Hj. unfold zget, build. cbn [zr zd].
  exact (nth_grid (fun j i => f i j) r c 0%Z i j Hi Hj).
Qed.

(* re-tabulating a well-formed matrix gives it back *)
Lemma build_zget_id m : zwf m -> build (zr m) (zc m) (zget m) = m.
Proof.
  destruct m as [r c d]. unfold zwf, build. cbn [zr zc zd]. intros L. f_equal.
  apply (nth_ext _ _ 0%Z 0%Z).
  - now rewrite grid_length.
  - intros k Hk. rewrite grid_length in Hk.
    assert (r <> 0) by (intros ->; lia).
    assert (Hq : k / r < c) by (apply Nat.div_lt_upper_bound; lia).
    assert (Hm : k mod r < r) by (apply Nat.mod_upper_bound; lia).
    assert (E : k = k mod r + (k / r) * r) by (rewrite (Nat.div_mod k r) at 1; lia).
    rewrite E at 1.
    rewrite (nth_grid (fun j i => zget (mk_zmat r c d) i j) r c 0%Z _ _ Hm Hq).
    unfold zget. cbn [zr zd]. now rewrite <- E.
Qed.

(* ---------------------------------------------------------------------------------------- *)
(* the matrix substituted for an array symbol evaluates to the symbol's value                 *)
Section Subst.
  Variable dims : string -> nat * nat.
  Variable names : string -> list string.
  Variable rm : string -> zmat.          (* a point of the unexpanded model: array symbols ... *)
  Variable rs : string -> Z.             (* ... and scalar symbols *)
  Variable rm0 : string -> zmat.         (* anything: the expanded expression has no array symbol *)
  Variable rs' : string -> Z.            (* the point of the expanded model *)

  (* v is an n1 x n2 array symbol whose scalars are enumerated row-major and rs' gives every scalar the
     corresponding element: rs' (name of [i; j]) = rm v [i, j] *)
  Definition renamed (v : string) : Prop :=
    let '(n1, n2) := dims v in
    zr (rm v) = n1 /\ zc (rm v) = n2 /\ zwf (rm v) /\ length (names v) = n1 * n2
    /\ forall i j, i < n1 -> j < n2 -> rs' (nth (j + i * n2) (names v) EmptyString) = zget (rm v) i j.

  Lemma subst_value v : renamed v ->
    eval rm0 rs' (MTrans (MReshape (MSyms (names v)) (snd (dims v)) (fst (dims v)))) = rm v.
  Proof.
    unfold renamed. destruct (dims v) as [n1 n2]. intros (R & C & W & L & H). cbn [fst snd].
    cbn [eval]. cbn [zr zc zd].
    rewrite <- (build_zget_id (rm v) W), R, C.
    unfold build. f_equal.
    rewrite !flat_map_concat_map. f_equal. apply map_ext_in. intros j Hj. apply in_seq in Hj.
    apply map_ext_in. intros i Hi. apply in_seq in Hi.
    unfold zget at 1. cbn [zr zd].
    rewrite (nth_indep _ 0%Z (rs' EmptyString)) by (rewrite map_length, L; nia).
    rewrite map_nth. rewrite H by lia.
    rewrite <- (build_zget_id (rm v) W), R, C. now rewrite zget_build by lia.
  Qed.

  (* scalar symbols of the unexpanded expression keep their value *)
  Definition scalars_kept (e : mexpr) : Prop := forall s, In s (msyms e) -> rs' s = rs s.

  Theorem residual_matrix e :
    (forall v, In v (mvars e) -> renamed v) -> scalars_kept e ->
    eval rm0 rs' (expand dims names e) = eval rm rs e.
  Proof.
    unfold scalars_kept.
    induction e; cbn [expand eval mvars msyms]; intros HV HS;
      try (rewrite IHe by auto; reflexivity);
      try (rewrite IHe1, IHe2 by (intros; first [apply HV | apply HS]; apply in_or_app; auto); reflexivity).
    - apply subst_value. apply HV. now left.
    - f_equal. f_equal. apply HS. now left.
    - reflexivity.
    - f_equal. apply map_ext_in. intros s Hs. now apply HS.
  Qed.

  (* vec / vertsplit: the k-th scalar equation of the expanded model evaluates to the k-th entry of
     the column-major vectorisation of the unexpanded (matrix) residual *)
  Lemma map_nth_seq (l : list Z) : map (fun k => nth k l 0%Z) (seq 0 (length l)) = l.
  Proof.
    induction l as [|x l IH]; [reflexivity|].
    cbn [length seq map nth]. f_equal. rewrite <- seq_shift, map_map. exact IH.
  Qed.

  Theorem residual_split e :
    (forall v, In v (mvars e) -> renamed v) -> scalars_kept e ->
    map (fun s => zget (eval rm0 rs' s) 0 0)
        (split_equation dims names (length (zd (eval rm rs e))) e)
    = zd (eval rm rs e).
  Proof.
    intros HV HS. unfold split_equation. rewrite map_map.
    rewrite <- (map_nth_seq (zd (eval rm rs e))) at 2.
    apply map_ext. intros k. cbn [eval]. rewrite (residual_matrix e HV HS). reflexivity.
  Qed.

  (* dae_residual_function: veccat of all equations, before and after *)
  Theorem residual_vector (eqs : list mexpr) :
    (forall e v, In e eqs -> In v (mvars e) -> renamed v) ->
    (forall e, In e eqs -> scalars_kept e) ->
    map (fun s => zget (eval rm0 rs' s) 0 0)
        (flat_map (fun e => split_equation dims names (length (zd (eval rm rs e))) e) eqs)
    = flat_map (fun e => zd (eval rm rs e)) eqs.
  Proof.
    induction eqs as [|e eqs IH]; intros HV HS; [reflexivity|].
    cbn [flat_map]. rewrite map_app. f_equal.
    - apply residual_split; [intros v; apply HV | apply HS]; now left.
    - apply IH; [intros e' v He'; apply HV | intros e' He'; apply HS]; now right.
  Qed.
End Subst.

(* ---------------------------------------------------------------------------------------- *)
(* the renaming rho' exists: no two elements share a name                                     *)
Lemma assoc_in (t : list (string * Z)) s z :
  NoDup (map fst t) -> In (s, z) t -> assoc s t = Some z.
Proof.
  induction t as [|[k x] t IH]; intros ND Hin; [contradiction|].
  cbn [map fst] in ND. inversion ND as [|? ? Hk ND']; subst. cbn [assoc].
  destruct Hin as [E|Hin].
  - inversion E; subst. now rewrite String.eqb_refl.
  - destruct (String.eqb_spec s k) as [->|_].
    + exfalso. apply Hk. apply in_map_iff. exists (k, z). auto.
    + now apply IH.
Qed.

Lemma assoc_none (t : list (string * Z)) s : ~ In s (map fst t) -> assoc s t = None.
Proof.
  induction t as [|[k x] t IH]; intros H; [reflexivity|]. cbn [assoc].
  destruct (String.eqb_spec s k) as [->|_]; [exfalso; apply H; now left|].
  apply IH. intros ?; apply H; now right.
Qed.

Lemma rowmajor_nth m i j : i < zr m -> j < zc m -> nth (j + i * zc m) (rowmajor m) 0%Z = zget m i j.
Proof. intros Hi Hj. unfold rowmajor. exact (nth_grid (fun i j => zget m i j) (zc m) (zr m) 0%Z j i Hj Hi). Qed.

Lemma rowmajor_length m : length (rowmajor m) = zr m * zc m.
Proof. unfold rowmajor. rewrite (grid_length (fun j i => zget m i j) (zc m) (zr m)). lia. Qed.

Lemma map_fst_combine {A B} (l1 : list A) (l2 : list B) : length l1 = length l2 -> map fst (combine l1 l2) = l1.
Proof. revert l2; induction l1; intros [|b l2] H; cbn in *; try discriminate; auto. f_equal; auto. Qed.

Lemma table_keys names rm vars :
  (forall v, In v vars -> length (names v) = zr (rm v) * zc (rm v)) ->
  map fst (rename_table names rm vars) = flat_map names vars.
Proof.
  induction vars as [|v vars IH]; intros H; [reflexivity|].
  unfold rename_table in *. cbn [flat_map]. rewrite map_app. f_equal.
  - apply map_fst_combine. rewrite rowmajor_length. apply H. now left.
  - apply IH. intros; apply H; now right.
Qed.

Theorem renaming_exists dims names rm rs vars :
  NoDup (flat_map names vars) ->
  (forall v, In v vars ->
     zr (rm v) = fst (dims v) /\ zc (rm v) = snd (dims v) /\ zwf (rm v)
     /\ length (names v) = fst (dims v) * snd (dims v)) ->
  (forall v, In v vars -> renamed dims names rm (rho' names rm vars rs) v)
  /\ (forall s, ~ In s (flat_map names vars) -> rho' names rm vars rs s = rs s).
Proof.
  intros ND W.
  assert (K : map fst (rename_table names rm vars) = flat_map names vars).
  { apply table_keys. intros v Hv. destruct (W v Hv) as (-> & -> & _ & ->). reflexivity. }
  split.
  - intros v Hv. unfold renamed. destruct (W v Hv) as (R & C & Z & L).
    destruct (dims v) as [n1 n2]. cbn [fst snd] in *. repeat split; auto.
    intros i j Hi Hj. unfold rho'.
    rewrite (assoc_in _ _ (zget (rm v) i j)); [reflexivity | now rewrite K |].
    unfold rename_table. apply in_flat_map. exists v. split; [exact Hv|].
    assert (Hk : j + i * n2 < n1 * n2) by nia.
    assert (E : nth (j + i * n2) (combine (names v) (rowmajor (rm v))) (EmptyString, 0%Z)
                = (nth (j + i * n2) (names v) EmptyString, nth (j + i * n2) (rowmajor (rm v)) 0%Z)).
    { apply combine_nth. rewrite rowmajor_length, R, C. exact L. }
    rewrite <- C, rowmajor_nth in E by lia. rewrite C in E. rewrite <- E.
    apply nth_In. rewrite combine_length, rowmajor_length, R, C, L, Nat.min_id. exact Hk.
  - intros s Hs. unfold rho'. rewrite assoc_none; [reflexivity | now rewrite K].
Qed.

(* both together: for every point of the unexpanded model there is a point of the expanded model
   (each scalar name = the corresponding element; all other scalars unchanged) at which every
   expanded equation evaluates to the corresponding entry of the unexpanded residual *)
Theorem residual_under_renaming dims names rm rs rm0 vars (eqs : list mexpr) :
  NoDup (flat_map names vars) ->
  (forall v, In v vars ->
     zr (rm v) = fst (dims v) /\ zc (rm v) = snd (dims v) /\ zwf (rm v)
     /\ length (names v) = fst (dims v) * snd (dims v)) ->
  (forall e v, In e eqs -> In v (mvars e) -> In v vars) ->
  (forall e s, In e eqs -> In s (msyms e) -> ~ In s (flat_map names vars)) ->
  let rs' := rho' names rm vars rs in
  map (fun s => zget (eval rm0 rs' s) 0 0)
      (flat_map (fun e => split_equation dims names (length (zd (eval rm rs e))) e) eqs)
  = flat_map (fun e => zd (eval rm rs e)) eqs.
Proof.
  intros ND W HV HS rs'.
  destruct (renaming_exists dims names rm rs vars ND W) as (Ren & Keep).
  apply residual_vector.
  - intros e v He Hv. apply Ren. eapply HV; eauto.
  - intros e He s Hs. apply Keep. eapply HS; eauto.
Qed.

(* the names the model of _expand_vectors generates for ANY variable (1-D, 2-D, inside component arrays,
   der(...) wrapped, delay state) satisfy what the residual theorem asks of `names`: as many as elements,
   pairwise distinct, and the k-th is the name of the k-th index tuple of np.ndindex *)
Theorem model_names_fit v ex n1 n2 :
  expand_var v = Some ex -> product (iter_dims (ushape v)) = n1 * n2 ->
  length (map fst ex) = n1 * n2 /\ NoDup (map fst ex)
  /\ map Some (map fst ex) = map (scalar_name (uname v) (ushape v)) (ndindex (iter_dims (ushape v))).
Proof.
  intros E P. destruct (expand_var_spec v ex E) as (N & _ & _).
  destruct (bijection _ _ _ N) as (_ & _ & M & L & ND & _).
  repeat split; auto. now rewrite L.
Qed.

(* ---------------------------------------------------------------------------------------- *)
(* a concrete instance: array inside a component array, its derivative, a delay state         *)
Fixpoint nodupb (l : list string) : bool :=
  match l with [] => true | x :: r => negb (existsb (String.eqb x) r) && nodupb r end.
Lemma nodupb_sound l : nodupb l = true -> NoDup l.
Proof.
  induction l as [|x l IH]; cbn; intros H; [constructor|].
  apply andb_prop in H as (H1 & H2). constructor; auto.
  intros Hin. apply negb_true_iff in H1.
  assert (existsb (String.eqb x) l = true) by (apply existsb_exists; exists x; split; auto; apply String.eqb_refl).
  congruence.
Qed.

Open Scope string_scope.
Definition ex_shape (v : string) : vshape * (nat * nat) :=
  if String.eqb v "s.x" then (Nested [[2]; [2]], (2, 2))
  else if String.eqb v "der(s.x)" then (Nested [[2]; [2]], (2, 2))
  else if String.eqb v "_pymoca_delay_0" then (Flat [2; 1], (2, 1))
  else (Nested [[2]], (2, 1)).
Definition ex_dims (v : string) : nat * nat := snd (ex_shape v).
Definition ex_names (v : string) : list string :=
  match expand_var (mk_uvar v (fst (ex_shape v)) (snd (ex_shape v)) []) with
  | Some ex => map fst ex | None => [] end.
Definition ex_vars : list string := ["s.x"; "der(s.x)"; "_pymoca_delay_0"; "w"].
Definition ex_rm (v : string) : zmat :=
  let '(n1, n2) := ex_dims v in
  build n1 n2 (fun i j => (Z.of_nat (String.length v) * 100 + Z.of_nat i * 10 + Z.of_nat j + 1)%Z).
Definition ex_rs (s : string) : Z := 7%Z.
Definition ex_eqs : list mexpr :=
  [MSub (MVar "der(s.x)") (MAdd (MTrans (MVar "s.x")) (MScale (MSym "k") (MVar "s.x")));
   MSub (MVar "w") (MMtimes (MVar "s.x") (MVar "_pymoca_delay_0"));
   MSub (MSlice (MVar "s.x") 0 1 1 1) (MEmul (MSym "k") (MPick (MVec (MVar "w")) 1))].
Close Scope string_scope.

Lemma example_hypotheses :
  NoDup (flat_map ex_names ex_vars)
  /\ (forall v, In v ex_vars ->
       zr (ex_rm v) = fst (ex_dims v) /\ zc (ex_rm v) = snd (ex_dims v) /\ zwf (ex_rm v)
       /\ length (ex_names v) = fst (ex_dims v) * snd (ex_dims v))
  /\ (forall e v, In e ex_eqs -> In v (mvars e) -> In v ex_vars)
  /\ (forall e s, In e ex_eqs -> In s (msyms e) -> ~ In s (flat_map ex_names ex_vars))
  /\ flat_map ex_names ex_vars
     = ["s[1].x[1]"; "s[1].x[2]"; "s[2].x[1]"; "s[2].x[2]";
        "der(s[1].x[1])"; "der(s[1].x[2])"; "der(s[2].x[1])"; "der(s[2].x[2])";
        "_pymoca_delay_0[1,1]"; "_pymoca_delay_0[2,1]"; "w[1]"; "w[2]"]%string.
Proof.
  split; [apply nodupb_sound; vm_compute; reflexivity|].
  split.
  { intros v [<-|[<-|[<-|[<-|[]]]]]; vm_compute; auto. }
  split.
  { intros e v [<-|[<-|[<-|[]]]]; cbn [mvars app]; intros H;
      repeat (destruct H as [<-|H]; [cbn; auto 10|]); destruct H. }
  split.
  { intros e s [<-|[<-|[<-|[]]]]; cbn [msyms app]; intros H;
      repeat (destruct H as [<-|H]; [vm_compute; intuition discriminate|]); destruct H. }
  vm_compute. reflexivity.
Qed.
