(* C11 — proofs about array equations (Model/C11_arrays.v) *)
From Coq Require Import ZArith QArith Qcanon List Bool Arith Lia.
From PV Require Import Model.C11_residual Proofs.C11_residual Model.C11_arrays.
Import ListNotations.
Open Scope Qc_scope.

(* ---------- subscripts: 0-based index lists of the generator vs 1-based Modelica ---------- *)
Lemma in_range_spec d k : in_range d k = true -> (1 <= k <= Z.of_nat d)%Z.
Proof. unfold in_range. intro H. apply andb_prop in H. destruct H as [A B]. apply Z.leb_le in A, B. lia. Qed.

Lemma nth_map_seq (f : nat -> Z) n k : (k < n)%nat -> nth k (map f (seq 0 n)) 0%Z = f k.
Proof.
  intro H. rewrite (nth_indep _ 0%Z (f 0%nat)) by (rewrite map_length, seq_length; lia).
  rewrite (map_nth f (seq 0 n) 0%nat k). rewrite seq_nth by lia. reflexivity.
Qed.
(* a Modelica range is the arithmetic progression lo, lo+st, ... of its own length *)
Lemma mrange_shape lo st hi :
  modelica_range lo st hi =
  map (fun k => (lo + Z.of_nat k * st)%Z) (seq 0 (length (modelica_range lo st hi))).
Proof.
  unfold modelica_range. destruct (_ || _); [reflexivity |].
  rewrite map_length, seq_length. reflexivity.
Qed.
(* the Python slice slice(p0 - 1, end, st) built from the picked indices p0, p0+st, ..., p0+(n-1)st
   selects exactly their 0-based counterparts, in the same order *)
Lemma arange_of_prog lo st n : st <> 0%Z -> (1 <= n)%nat ->
  arange (lo - 1) (lo + Z.of_nat (n - 1) * st - 1 + (if (0 <? st)%Z then 1 else -1)) st =
  map (fun k => (lo - 1 + Z.of_nat k * st)%Z) (seq 0 n).
Proof.
  intros Hst Hn. unfold arange.
  set (m := Z.of_nat (n - 1)). assert (Z.of_nat n = m + 1)%Z as En by (unfold m; lia).
  destruct (0 <? st)%Z eqn:Hp.
  - apply Z.ltb_lt in Hp.
    replace (lo + m * st - 1 + 1 - (lo - 1) + st - 1)%Z with ((m + 1) * st)%Z by ring.
    rewrite Z.div_mul by lia. replace (Z.to_nat (m + 1)) with n by lia. reflexivity.
  - apply Z.ltb_ge in Hp. assert ((st <? 0)%Z = true) as -> by (apply Z.ltb_lt; lia).
    replace (lo - 1 - (lo + m * st - 1 + -1) + - st - 1)%Z with ((m + 1) * (- st))%Z by ring.
    rewrite Z.div_mul by lia. replace (Z.to_nat (m + 1)) with n by lia. reflexivity.
Qed.

Lemma sub_rel d s sc im ic :
  m_sub d s = Some (sc, im) -> c_sub d s = Some ic ->
  length ic = length im /\
  forall i, (i < length im)%nat -> (nth i ic 0 = nth i im 0 - 1 /\ 1 <= nth i im 0)%Z.
Proof.
  destruct s as [k | lo hi | | lo st hi]; cbn [m_sub c_sub]; intros Hm Hc.
  - destruct (in_range d k) eqn:R; [| discriminate Hm]. injection Hm as <- <-. injection Hc as <-.
    apply in_range_spec in R. split; [reflexivity |]. intros i Hi. simpl in Hi.
    destruct i; [simpl; lia | lia].
  - destruct (in_range d lo && in_range d hi && (lo <=? hi)%Z) eqn:R; [| discriminate Hm].
    injection Hm as <- <-. injection Hc as <-.
    apply andb_prop in R. destruct R as [R R3]. apply andb_prop in R. destruct R as [R1 R2].
    apply in_range_spec in R1, R2. apply Z.leb_le in R3.
    rewrite !zrange_length. split; [f_equal; lia |].
    intros i Hi. rewrite !zrange_nth by lia. lia.
  - injection Hm as <- <-. injection Hc as <-. rewrite !zrange_length. split; [reflexivity |].
    intros i Hi. rewrite !zrange_nth by lia. lia.
  - destruct (st =? 0)%Z eqn:Est; [discriminate Hm |]. apply Z.eqb_neq in Est.
    rewrite (range_values_modelica lo st hi Est) in Hc.
    pose proof (mrange_shape lo st hi) as Hs.
    remember (modelica_range lo st hi) as idx eqn:Eidx.
    destruct idx as [| p0 rest]; cbv beta match in Hm, Hc; [discriminate Hm |].
    destruct (forallb (in_range d) (p0 :: rest)) eqn:Efa; [| discriminate Hm]. injection Hm as <- <-.
    destruct (in_range d (Z.min p0 (nth (length (p0 :: rest) - 1) (p0 :: rest) 0%Z)) &&
              in_range d (Z.max p0 (nth (length (p0 :: rest) - 1) (p0 :: rest) 0%Z))); [| discriminate Hc].
    injection Hc as <-.
    set (n := length (p0 :: rest)) in *. assert (1 <= n)%nat as Hn by (unfold n; simpl; lia).
    assert (forall i, (i < n)%nat -> nth i (p0 :: rest) 0%Z = (lo + Z.of_nat i * st)%Z) as Hnth.
    { intros i Hi. rewrite Hs. apply nth_map_seq. exact Hi. }
    assert (p0 = lo) as E0 by (specialize (Hnth 0%nat ltac:(lia)); simpl in Hnth; lia).
    change (match (length rest - 0)%nat with 0%nat => p0 | S m => nth m rest 0%Z end)
      with (nth (n - 1) (p0 :: rest) 0%Z).
    rewrite (Hnth (n - 1)%nat) by lia. replace (p0 - 1)%Z with (lo - 1)%Z by lia.
    rewrite (arange_of_prog lo st n Est Hn).
    rewrite map_length, seq_length. split; [reflexivity |].
    intros i Hi. rewrite nth_map_seq by exact Hi. rewrite Hnth by exact Hi. split; [lia |].
    rewrite forallb_forall in Efa.
    assert (In (nth i (p0 :: rest) 0%Z) (p0 :: rest)) as Hin by (apply nth_In; exact Hi).
    apply Efa in Hin. apply in_range_spec in Hin. rewrite Hnth in Hin by exact Hi. lia.
Qed.

Lemma sumn_ext k f g : (forall l, (l < k)%nat -> f l = g l) -> sumn k f = sumn k g.
Proof.
  induction k as [| k IH]; intro H; simpl; [reflexivity |].
  rewrite IH by (intros l Hl; apply H; lia). rewrite H by lia. reflexivity.
Qed.

(* ---------- representation relation ---------- *)
(* a Modelica matrix is the CasADi matrix of the same shape; a Modelica vector is a CasADi column
   (n,1) or row (1,n) *)
Definition is_col (n : nat) (g : nat -> nat -> Qc) (v : cmat) : Prop :=
  cm_r v = n /\ cm_c v = 1%nat /\ forall i, (i < n)%nat -> cm_get v i 0%nat = g i 0%nat.
Definition is_row (n : nat) (g : nat -> nat -> Qc) (v : cmat) : Prop :=
  cm_r v = 1%nat /\ cm_c v = n /\ forall i, (i < n)%nat -> cm_get v 0%nat i = g i 0%nat.
Definition rep (sh : mshape) (g : nat -> nat -> Qc) (v : cmat) : Prop :=
  match sh with
  | ShM n m => cm_r v = n /\ cm_c v = m /\ forall i j, (i < n)%nat -> (j < m)%nat -> cm_get v i j = g i j
  | ShV n => is_col n g v \/ is_row n g v
  end.

Lemma row_is_col n g v : is_row n g v -> cm_c v = 1%nat -> is_col n g v.
Proof.
  intros (H1 & H2 & H3) Hc. assert (n = 1)%nat as E by congruence. rewrite E in *.
  repeat split; [exact H1 | exact Hc |]. intros i Hi. assert (i = 0)%nat as Ei by lia. rewrite Ei. apply H3. lia.
Qed.
Lemma col_is_row n g v : is_col n g v -> cm_r v = 1%nat -> is_row n g v.
Proof.
  intros (H1 & H2 & H3) Hr. assert (n = 1)%nat as E by congruence. rewrite E in *.
  repeat split; [exact Hr | exact H2 |]. intros i Hi. assert (i = 0)%nat as Ei by lia. rewrite Ei. apply H3. lia.
Qed.

Definition mat_rel (mm : menv2) (cm : cenv2) : Prop :=
  forall x i j, cm x (i - 1)%Z (j - 1)%Z = mm x i j.

Lemma mshape_eqb_eq a b : mshape_eqb a b = true -> a = b.
Proof.
  destruct a, b; simpl; intro H; try discriminate H.
  - apply Nat.eqb_eq in H. congruence.
  - apply andb_prop in H. destruct H as [A B]. apply Nat.eqb_eq in A, B. congruence.
Qed.

Section ArrSound.
Variable F : positive -> Qc -> Qc.
Variable decl : positive -> mshape.
Variable T : table.
Hypothesis HT : table_ok T = true.
Variables (mm : menv2) (cm : cenv2) (rm : menv) (rc : cenv).
Hypothesis HE : env_rel rm rc.
Hypothesis HM : mat_rel mm cm.

Lemma arr1 x i : c_arr rc x (Z.of_nat i) = m_arr rm x (Z.of_nat i + 1).
Proof.
  destruct HE as (_ & _ & H3 & _). rewrite <- (H3 x (Z.of_nat i + 1)%Z). f_equal. lia.
Qed.
Lemma arr1' x k : (1 <= k)%Z -> c_arr rc x (Z.of_nat (Z.to_nat (k - 1))) = m_arr rm x k.
Proof.
  intro Hk. destruct HE as (_ & _ & H3 & _). rewrite Z2Nat.id by lia. apply H3.
Qed.
Lemma mat2 x i j : cm x (Z.of_nat i) (Z.of_nat j) = mm x (Z.of_nat i + 1)%Z (Z.of_nat j + 1)%Z.
Proof. rewrite <- HM. f_equal; lia. Qed.
Lemma mat2' x a b : (1 <= a)%Z -> (1 <= b)%Z ->
  cm x (Z.of_nat (Z.to_nat (a - 1))) (Z.of_nat (Z.to_nat (b - 1))) = mm x a b.
Proof. intros Ha Hb. rewrite !Z2Nat.id by lia. apply HM. Qed.

(* every array expression: the CasADi value represents the Modelica value *)
Lemma rep_sound a : forall c sh g v,
  tr_a decl T a = Ok c -> m_aeval F decl a mm rm = Some (sh, g) -> ca_aeval F c cm rc = Some v ->
  rep sh g v.
Proof.
  induction a as [x | x s | x s1 s2 | o a IHa b IHb | a IHa b IHb | e a IHa | a IHa | a IHa];
    intros c sh g v Htr Hm Hc; cbn [tr_a m_aeval] in Htr, Hm.
  - (* AVar *)
    destruct (decl x) as [n | n m].
    + injection Htr as <-. injection Hm as <- <-. cbn [ca_aeval] in Hc. injection Hc as <-.
      left. repeat split. intros i Hi. cbn [cm_get]. apply arr1.
    + injection Htr as <-. injection Hm as <- <-. cbn [ca_aeval] in Hc. injection Hc as <-.
      repeat split. intros i j Hi Hj. cbn [cm_get]. apply mat2.
  - (* ASl1 *)
    destruct (decl x) as [d | ? ?]; [| discriminate Htr].
    destruct (c_sub d s) as [ic |] eqn:Ec; [| discriminate Htr]. injection Htr as <-.
    destruct (m_sub d s) as [[[|] im] |] eqn:Em; try discriminate Hm. injection Hm as <- <-.
    cbn [ca_aeval cm_c] in Hc. simpl in Hc. injection Hc as <-.
    destruct (sub_rel d s _ im ic Em Ec) as [HL HN].
    left. repeat split; cbn [cm_r cm_c cm_get]; [exact HL |].
    intros i Hi. destruct (HN i Hi) as [E1 E2]. rewrite E1. apply arr1'. exact E2.
  - (* ASl2 *)
    destruct (decl x) as [? | d1 d2]; [discriminate Htr |].
    destruct (c_sub d1 s1) as [ic1 |] eqn:Ec1; [| discriminate Htr].
    destruct (c_sub d2 s2) as [ic2 |] eqn:Ec2; [| discriminate Htr]. injection Htr as <-.
    cbn [ca_aeval] in Hc. injection Hc as <-.
    destruct (m_sub d1 s1) as [[sc1 im1] |] eqn:Em1; [| discriminate Hm].
    destruct (m_sub d2 s2) as [[sc2 im2] |] eqn:Em2; [| destruct sc1; discriminate Hm].
    destruct (sub_rel d1 s1 _ im1 ic1 Em1 Ec1) as [HL1 HN1].
    destruct (sub_rel d2 s2 _ im2 ic2 Em2 Ec2) as [HL2 HN2].
    destruct sc1, sc2; try discriminate Hm; injection Hm as <- <-.
    + (* scalar row index, slice of columns: a ROW (1, len) *)
      assert (length im1 = 1)%nat as L1.
      { destruct s1 as [k | lo hi | | lo st hi]; cbn [m_sub] in Em1;
          [| destruct (_ && _); discriminate Em1 | discriminate Em1
           | destruct (st =? 0)%Z; [discriminate Em1 |]; destruct (modelica_range lo st hi); [discriminate Em1 |];
             destruct (forallb _ _); discriminate Em1].
        destruct (in_range d1 k); [| discriminate Em1]. injection Em1 as <-. reflexivity. }
      right. repeat split; cbn [cm_r cm_c cm_get]; [congruence | exact HL2 |].
      intros i Hi. destruct (HN1 0%nat ltac:(lia)) as [A1 A2]. destruct (HN2 i Hi) as [B1 B2].
      rewrite A1, B1. apply mat2'; assumption.
    + (* slice of rows, scalar column index: a COLUMN (len, 1) *)
      assert (length im2 = 1)%nat as L2.
      { destruct s2 as [k | lo hi | | lo st hi]; cbn [m_sub] in Em2;
          [| destruct (_ && _); discriminate Em2 | discriminate Em2
           | destruct (st =? 0)%Z; [discriminate Em2 |]; destruct (modelica_range lo st hi); [discriminate Em2 |];
             destruct (forallb _ _); discriminate Em2].
        destruct (in_range d2 k); [| discriminate Em2]. injection Em2 as <-. reflexivity. }
      left. repeat split; cbn [cm_r cm_c cm_get]; [exact HL1 | congruence |].
      intros i Hi. destruct (HN1 i Hi) as [A1 A2]. destruct (HN2 0%nat ltac:(lia)) as [B1 B2].
      rewrite A1, B1. apply mat2'; assumption.
    + repeat split; cbn [cm_r cm_c cm_get]; [exact HL1 | exact HL2 |].
      intros i j Hi Hj. destruct (HN1 i Hi) as [A1 A2]. destruct (HN2 j Hj) as [B1 B2].
      rewrite A1, B1. apply mat2'; assumption.
  - (* ABin *)
    destruct (tr_a decl T a) as [ca |] eqn:Ea; [| discriminate Htr].
    destruct (tr_a decl T b) as [cb |] eqn:Eb; [| discriminate Htr]. injection Htr as <-.
    destruct (m_aeval F decl a mm rm) as [[sa ga] |] eqn:Ma; [| discriminate Hm].
    destruct (m_aeval F decl b mm rm) as [[sb gb] |] eqn:Mb; [| discriminate Hm].
    destruct (mshape_eqb sa sb) eqn:Es; [| discriminate Hm]. apply mshape_eqb_eq in Es. subst sb.
    injection Hm as <- <-.
    cbn [ca_aeval] in Hc.
    destruct (ca_aeval F ca cm rc) as [va |] eqn:Ca; [| discriminate Hc].
    destruct (ca_aeval F cb cm rc) as [vb |] eqn:Cb; [| discriminate Hc].
    destruct (Nat.eqb (cm_r va) (cm_r vb) && Nat.eqb (cm_c va) (cm_c vb)) eqn:Ed; [| discriminate Hc].
    injection Hc as <-. apply andb_prop in Ed. destruct Ed as [Er Ec]. apply Nat.eqb_eq in Er, Ec.
    pose proof (IHa ca sa ga va eq_refl eq_refl Ca) as Ra.
    pose proof (IHb cb sa gb vb eq_refl eq_refl Cb) as Rb.
    destruct sa as [n | n m]; simpl in Ra, Rb |- *.
    + destruct Ra as [Ra | Ra].
      * assert (is_col n gb vb) as Rb'.
        { destruct Rb as [Rb | Rb]; [exact Rb |]. apply row_is_col; [exact Rb |]. destruct Ra as (_ & A & _). congruence. }
        left. destruct Ra as (A1 & A2 & A3). destruct Rb' as (B1 & B2 & B3).
        repeat split; cbn [cm_r cm_c cm_get]; [exact A1 | exact A2 |].
        intros i Hi. rewrite A3, B3 by exact Hi. reflexivity.
      * assert (is_row n gb vb) as Rb'.
        { destruct Rb as [Rb | Rb]; [| exact Rb]. apply col_is_row; [exact Rb |]. destruct Ra as (A & _ & _). congruence. }
        right. destruct Ra as (A1 & A2 & A3). destruct Rb' as (B1 & B2 & B3).
        repeat split; cbn [cm_r cm_c cm_get]; [exact A1 | exact A2 |].
        intros i Hi. rewrite A3, B3 by exact Hi. reflexivity.
    + destruct Ra as (A1 & A2 & A3). destruct Rb as (B1 & B2 & B3).
      repeat split; cbn [cm_r cm_c cm_get]; [exact A1 | exact A2 |].
      intros i j Hi Hj. rewrite A3, B3 by assumption. reflexivity.
  - (* AMul *)
    destruct (tr_a decl T a) as [ca |] eqn:Ea; [| discriminate Htr].
    destruct (tr_a decl T b) as [cb |] eqn:Eb; [| discriminate Htr]. injection Htr as <-.
    destruct (m_aeval F decl a mm rm) as [[sa ga] |] eqn:Ma; [| discriminate Hm].
    destruct (m_aeval F decl b mm rm) as [[sb gb] |] eqn:Mb; [| destruct sa; discriminate Hm].
    cbn [ca_aeval] in Hc.
    destruct (ca_aeval F ca cm rc) as [va |] eqn:Ca; [| discriminate Hc].
    destruct (ca_aeval F cb cm rc) as [vb |] eqn:Cb; [| discriminate Hc].
    destruct (Nat.eqb (cm_c va) (cm_r vb)) eqn:Ed; [| discriminate Hc].
    injection Hc as <-. apply Nat.eqb_eq in Ed.
    pose proof (IHa ca sa ga va eq_refl eq_refl Ca) as Ra.
    pose proof (IHb cb sb gb vb eq_refl eq_refl Cb) as Rb.
    destruct sa as [? | n k]; [discriminate Hm |]. destruct Ra as (A1 & A2 & A3).
    destruct sb as [k' | k' m].
    + destruct (Nat.eqb k k') eqn:Ek; [| discriminate Hm]. apply Nat.eqb_eq in Ek. subst k'.
      injection Hm as <- <-.
      assert (is_col k gb vb) as (B1 & B2 & B3).
      { destruct Rb as [Rb | Rb]; [exact Rb |]. apply row_is_col; [exact Rb |].
        destruct Rb as (R1 & R2 & _). congruence. }
      left. repeat split; cbn [cm_r cm_c cm_get]; [exact A1 | exact B2 |].
      intros i Hi. rewrite A2. apply sumn_ext. intros l Hl. rewrite A3, B3 by assumption. reflexivity.
    + destruct (Nat.eqb k k') eqn:Ek; [| discriminate Hm]. apply Nat.eqb_eq in Ek. subst k'.
      injection Hm as <- <-. destruct Rb as (B1 & B2 & B3).
      repeat split; cbn [cm_r cm_c cm_get]; [exact A1 | exact B2 |].
      intros i j Hi Hj. rewrite A2. apply sumn_ext. intros l Hl. rewrite A3, B3 by assumption. reflexivity.
  - (* AScal *)
    destruct (tr T e) as [ce |] eqn:Ee; [| discriminate Htr].
    destruct (tr_a decl T a) as [ca |] eqn:Ea; [| discriminate Htr]. injection Htr as <-.
    destruct (m_eval F e rm) as [[s | ?] |] eqn:Me; try discriminate Hm.
    destruct (m_aeval F decl a mm rm) as [[sa ga] |] eqn:Ma; [| discriminate Hm]. injection Hm as <- <-.
    cbn [ca_aeval] in Hc.
    destruct (expr_sound F T HT rm rc HE e ce Ee _ Me) as (w & Ew & Rw). simpl in Rw. subst w.
    rewrite Ew in Hc.
    destruct (ca_aeval F ca cm rc) as [va |] eqn:Ca; [| discriminate Hc]. injection Hc as <-.
    pose proof (IHa ca sa ga va eq_refl eq_refl Ca) as Ra.
    destruct sa as [n | n m]; simpl in Ra |- *.
    + destruct Ra as [(A1 & A2 & A3) | (A1 & A2 & A3)]; [left | right];
        (repeat split; cbn [cm_r cm_c cm_get]; [exact A1 | exact A2 |]; intros i Hi; rewrite A3 by exact Hi; reflexivity).
    + destruct Ra as (A1 & A2 & A3). repeat split; cbn [cm_r cm_c cm_get]; [exact A1 | exact A2 |].
      intros i j Hi Hj. rewrite A3 by assumption. reflexivity.
  - (* ANeg *)
    destruct (tr_a decl T a) as [ca |] eqn:Ea; [| discriminate Htr]. injection Htr as <-.
    destruct (m_aeval F decl a mm rm) as [[sa ga] |] eqn:Ma; [| discriminate Hm]. injection Hm as <- <-.
    cbn [ca_aeval] in Hc.
    destruct (ca_aeval F ca cm rc) as [va |] eqn:Ca; [| discriminate Hc]. injection Hc as <-.
    pose proof (IHa ca sa ga va eq_refl eq_refl Ca) as Ra.
    destruct sa as [n | n m]; simpl in Ra |- *.
    + destruct Ra as [(A1 & A2 & A3) | (A1 & A2 & A3)]; [left | right];
        (repeat split; cbn [cm_r cm_c cm_get]; [exact A1 | exact A2 |]; intros i Hi; rewrite A3 by exact Hi; reflexivity).
    + destruct Ra as (A1 & A2 & A3). repeat split; cbn [cm_r cm_c cm_get]; [exact A1 | exact A2 |].
      intros i j Hi Hj. rewrite A3 by assumption. reflexivity.
  - (* ATr *)
    destruct (tr_a decl T a) as [ca |] eqn:Ea; [| discriminate Htr]. injection Htr as <-.
    destruct (m_aeval F decl a mm rm) as [[[? | n m] ga] |] eqn:Ma; try discriminate Hm. injection Hm as <- <-.
    cbn [ca_aeval] in Hc.
    destruct (ca_aeval F ca cm rc) as [va |] eqn:Ca; [| discriminate Hc]. injection Hc as <-.
    destruct (IHa ca _ ga va eq_refl eq_refl Ca) as (A1 & A2 & A3).
    repeat split; cbn [cm_r cm_c cm_get]; [exact A2 | exact A1 |].
    intros i j Hi Hj. apply A3; assumption.
Qed.

(* the static shape is the shape of the value *)
Lemma shape_eval c : forall v, ca_aeval F c cm rc = Some v -> ca_shape c = Some (cm_r v, cm_c v).
Proof.
  induction c as [x n | x n m | a IH idx | a IH i1 i2 | o a IHa b IHb | a IHa b IHb | ce a IH | a IH | a IH];
    intros v Hc; cbn [ca_aeval ca_shape] in *.
  - injection Hc as <-. reflexivity.
  - injection Hc as <-. reflexivity.
  - destruct (ca_aeval F a cm rc) as [va |]; [| discriminate Hc].
    destruct (Nat.eqb (cm_c va) 1) eqn:E1; [| discriminate Hc]. apply Nat.eqb_eq in E1.
    injection Hc as <-. rewrite (IH va eq_refl), E1. reflexivity.
  - destruct (ca_aeval F a cm rc) as [va |]; [| discriminate Hc]. injection Hc as <-.
    rewrite (IH va eq_refl). reflexivity.
  - destruct (ca_aeval F a cm rc) as [va |]; [| discriminate Hc].
    destruct (ca_aeval F b cm rc) as [vb |]; [| discriminate Hc].
    rewrite (IHa va eq_refl), (IHb vb eq_refl).
    destruct (Nat.eqb (cm_r va) (cm_r vb) && Nat.eqb (cm_c va) (cm_c vb)); [| discriminate Hc].
    injection Hc as <-. reflexivity.
  - destruct (ca_aeval F a cm rc) as [va |]; [| discriminate Hc].
    destruct (ca_aeval F b cm rc) as [vb |]; [| discriminate Hc].
    rewrite (IHa va eq_refl), (IHb vb eq_refl).
    destruct (Nat.eqb (cm_c va) (cm_r vb)); [| discriminate Hc]. injection Hc as <-. reflexivity.
  - destruct (ca_eval F ce rc); [| discriminate Hc].
    destruct (ca_aeval F a cm rc) as [va |]; [| discriminate Hc]. injection Hc as <-. apply (IH va eq_refl).
  - destruct (ca_aeval F a cm rc) as [va |]; [| discriminate Hc]. injection Hc as <-. apply (IH va eq_refl).
  - destruct (ca_aeval F a cm rc) as [va |]; [| discriminate Hc]. injection Hc as <-.
    rewrite (IH va eq_refl). reflexivity.
Qed.

(* flattening *)
Lemma map_seq_ext {A} (f g : nat -> A) n : (forall i, (i < n)%nat -> f i = g i) -> map f (seq 0 n) = map g (seq 0 n).
Proof. intro H. apply map_ext_in. intros i Hi. apply in_seq in Hi. apply H. lia. Qed.
Lemma flat_map_seq_ext {A} (f g : nat -> list A) n :
  (forall i, (i < n)%nat -> f i = g i) -> flat_map f (seq 0 n) = flat_map g (seq 0 n).
Proof.
  intro H. rewrite !flat_map_concat_map. f_equal. apply map_seq_ext. exact H.
Qed.
Lemma flat_map_single {A} (f : nat -> A) l : flat_map (fun j => [f j]) l = map f l.
Proof. induction l; simpl; [reflexivity | f_equal; assumption]. Qed.

(* same CasADi shape + both represent Modelica values of the same Modelica shape:
   the column-major flattening of the difference is the Modelica elementwise residual *)
Lemma flat_diff sh gl gr va vb :
  rep sh gl va -> rep sh gr vb -> cm_r va = cm_r vb -> cm_c va = cm_c vb ->
  c_flat {| cm_r := cm_r va; cm_c := cm_c va; cm_get := fun i j => aop_q ASub (cm_get va i j) (cm_get vb i j) |}
  = m_flat sh (fun i j => gl i j - gr i j).
Proof.
  intros Ra Rb Er Ec. unfold c_flat, m_flat. cbn [cm_r cm_c cm_get aop_q].
  destruct sh as [n | n m]; simpl in Ra, Rb.
  - destruct Ra as [Ra | Ra].
    + assert (is_col n gr vb) as Rb'.
      { destruct Rb as [Rb | Rb]; [exact Rb |]. apply row_is_col; [exact Rb |]. destruct Ra as (_ & A & _). congruence. }
      destruct Ra as (A1 & A2 & A3). destruct Rb' as (B1 & B2 & B3).
      rewrite A1, A2. simpl. rewrite app_nil_r. apply map_seq_ext. intros i Hi. rewrite A3, B3 by exact Hi. reflexivity.
    + assert (is_row n gr vb) as Rb'.
      { destruct Rb as [Rb | Rb]; [| exact Rb]. apply col_is_row; [exact Rb |]. destruct Ra as (A & _ & _). congruence. }
      destruct Ra as (A1 & A2 & A3). destruct Rb' as (B1 & B2 & B3).
      rewrite A1, A2. simpl. rewrite flat_map_single. apply map_seq_ext. intros i Hi. rewrite A3, B3 by exact Hi. reflexivity.
  - destruct Ra as (A1 & A2 & A3). destruct Rb as (B1 & B2 & B3). rewrite A1, A2.
    apply flat_map_seq_ext. intros j Hj. apply map_seq_ext. intros i Hi. rewrite A3, B3 by assumption. reflexivity.
Qed.

Lemma rep_transpose_vec n g v : rep (ShV n) g v ->
  rep (ShV n) g {| cm_r := cm_c v; cm_c := cm_r v; cm_get := fun i j => cm_get v j i |}.
Proof.
  simpl. intros [(A1 & A2 & A3) | (A1 & A2 & A3)]; [right | left]; repeat split; cbn [cm_r cm_c cm_get]; auto.
Qed.

(* C11_matrix_residual *)
Lemma aeq_sound l r c L v :
  tr_aeq decl T l r = Ok c -> m_ares F decl l r mm rm = Some L -> ca_aeval F c cm rc = Some v ->
  c_flat v = L.
Proof.
  unfold tr_aeq, m_ares. intros Htr Hm Hc.
  destruct (tr_a decl T l) as [cl |] eqn:El; [| discriminate Htr].
  destruct (tr_a decl T r) as [cr |] eqn:Er; [| discriminate Htr].
  destruct (ca_shape cl) as [[rl cl_] |] eqn:Sl; [| discriminate Htr].
  destruct (ca_shape cr) as [[rr cr_] |] eqn:Sr; [| discriminate Htr].
  destruct (m_aeval F decl l mm rm) as [[sl gl] |] eqn:Ml; [| discriminate Hm].
  destruct (m_aeval F decl r mm rm) as [[sr gr] |] eqn:Mr; [| discriminate Hm].
  destruct (mshape_eqb sl sr) eqn:Es; [| discriminate Hm]. apply mshape_eqb_eq in Es. subst sr.
  injection Hm as <-.
  set (tp := negb (Nat.eqb rl rr && Nat.eqb cl_ cr_) && (Nat.eqb rl cr_ && Nat.eqb cl_ rr)) in Htr.
  destruct (ca_shape (CABin ASub cl (if tp then CATr cr else cr))); [| discriminate Htr].
  injection Htr as <-. cbn [ca_aeval] in Hc.
  destruct (ca_aeval F cl cm rc) as [va |] eqn:Cl; [| discriminate Hc].
  destruct (ca_aeval F (if tp then CATr cr else cr) cm rc) as [vb |] eqn:Cr; [| discriminate Hc].
  destruct (Nat.eqb (cm_r va) (cm_r vb) && Nat.eqb (cm_c va) (cm_c vb)) eqn:Ed; [| discriminate Hc].
  injection Hc as <-. apply andb_prop in Ed. destruct Ed as [Edr Edc]. apply Nat.eqb_eq in Edr, Edc.
  pose proof (rep_sound l cl sl gl va El Ml Cl) as Ra.
  assert (rep sl gr vb) as Rb.
  { destruct tp eqn:Etp.
    - cbn [ca_aeval] in Cr. destruct (ca_aeval F cr cm rc) as [vr |] eqn:Cr0; [| discriminate Cr].
      injection Cr as <-. pose proof (rep_sound r cr sl gr vr Er Mr Cr0) as Rr.
      destruct sl as [n | n m].
      + apply rep_transpose_vec. exact Rr.
      + (* a matrix is never transposed: both sides have the same CasADi shape *)
        exfalso. pose proof (shape_eval cl va Cl) as S1. pose proof (shape_eval cr vr Cr0) as S2.
        rewrite Sl in S1. rewrite Sr in S2. injection S1 as -> ->. injection S2 as -> ->.
        destruct Ra as (A1 & A2 & _). destruct Rr as (B1 & B2 & _).
        unfold tp in Etp. rewrite A1, A2, B1, B2, !Nat.eqb_refl in Etp. discriminate Etp.
    - apply (rep_sound r cr sl gr vb Er Mr Cr). }
  apply (flat_diff sl gl gr va vb Ra Rb Edr Edc).
Qed.

End ArrSound.

(* the shapes-differ guard of exitEquation matters: without it the right-hand side of a square
   array equation is transposed (the seeded change /verif/seeded/C11/m3) *)
Definition sq_decl : positive -> mshape := fun _ => ShM 2 2.
Definition sq_cm : cenv2 := fun x i j => z2q (Zpos x * 100 + i * 10 + j).
Lemma square_not_transposed :
  match tr_aeq sq_decl good_table (AVar 1%positive) (AVar 2%positive) with
  | Ok (CABin ASub (CASymM _ _ _) (CASymM _ _ _)) => True
  | _ => False
  end.
Proof. vm_compute. exact I. Qed.
