(* C06 — well-formedness is an invariant of every operation of the model, so the theorems of
   Proofs/C06_deepcopy.v hold in every world reachable from parsed trees; and the history-level
   independence (projection) theorem. *)
From Coq Require Import List Arith Bool Lia.
From PV Require Import Lib.ObjGraph Model.C06_deepcopy Proofs.C06_deepcopy.
Import ListNotations.

(* ---------- the invariant ---------- *)
(* a tree as the parser (ast.Tree.update_parent_refs) and the operations below leave it: the root
   first; every other class after its owner, with parent = its owner's address; no foreign hooks;
   one entry per path; the root's parent, if any, is an object of an OLDER tree (a detached copy
   made by find_class(copy=True) keeps the original parent) *)
Definition wf_tree (ti : nat) (t : tree) : Prop :=
  exists i0 rest, t = ([], i0) :: rest /\ hk i0 = None /\
    (forall pa, par i0 = Some pa -> fst pa < ti) /\
    wf_rest ti [] [[]] rest /\ NoDup (map fst t).
Definition wf_world (w : world) : Prop := forall ti t, nth_error w ti = Some t -> wf_tree ti t.

(* ---------- list / path facts ---------- *)
Lemma nth_set_nth_eq {A} (x : A) : forall l i, i < length l -> nth_error (set_nth i x l) i = Some x.
Proof. induction l as [|y l IH]; intros [|i] H; simpl in *; try lia; auto. apply IH. lia. Qed.

Lemma upd_tree_same w ti f : nth_error (upd_tree w ti f) ti = option_map f (nth_error w ti).
Proof.
  unfold upd_tree. destruct (nth_error w ti) as [t|] eqn:E; cbn [option_map].
  - apply nth_set_nth_eq. apply nth_error_Some. congruence.
  - exact E.
Qed.

Lemma wf_rest_incl ti p : forall l s1 s2, incl s1 s2 -> wf_rest ti p s1 l -> wf_rest ti p s2 l.
Proof.
  induction l as [|[r i] l IH]; simpl; intros s1 s2 Hi H; auto.
  destruct H as (Hr & Hh & Hp & Hin & H). repeat split; auto.
  apply (IH (r :: s1)); auto. intros x [<-|Hx]; [left; reflexivity|right; auto].
Qed.

Lemma strip_snoc_nil p k : strip (p ++ [k]) [] = None.
Proof. destruct p; reflexivity. Qed.

Lemma strip_cons_nil x p : strip (x :: p) [] = None.
Proof. reflexivity. Qed.

Lemma strip_removelast x q r : q <> [] -> strip x (removelast q) = Some r -> exists r', strip x q = Some r'.
Proof.
  intros Hq H. apply strip_sound in H.
  assert (E : q = (x ++ r) ++ [last q 0]) by (rewrite <- H; apply app_removelast_last; exact Hq).
  rewrite E, <- app_assoc. eexists. apply strip_app.
Qed.

Lemma removelast_neq (p : path) : p <> [] -> removelast p <> p.
Proof.
  intros Hp E. pose proof (@app_removelast_last key p 0 Hp) as H. rewrite E in H.
  apply (f_equal (@length key)) in H. rewrite app_length in H. cbn in H. lia.
Qed.

Lemma assoc_None_notin {B} p (t : list (path * B)) : assoc p t = None -> ~ In p (map fst t).
Proof.
  induction t as [|[q j] t IH]; simpl; intros H; [tauto|].
  destruct (path_dec p q) as [E|E]; [discriminate|]. intros [E'|H']; [congruence|tauto].
Qed.

Lemma NoDup_snoc {A} (l : list A) x : NoDup l -> ~ In x l -> NoDup (l ++ [x]).
Proof.
  induction 1 as [|y l Hy Hl IH]; simpl; intros Hx.
  - constructor; [tauto|constructor].
  - constructor.
    + intros H. apply in_app_or in H. destruct H as [H|[H|[]]]; [tauto|]. apply Hx. left. auto.
    + apply IH. tauto.
Qed.

Lemma in_map_fst_filter {B} (f : path * B -> bool) l x : In x (map fst (filter f l)) -> In x (map fst l).
Proof.
  intros H. apply in_map_iff in H. destruct H as (e & <- & He). apply filter_In in He.
  apply in_map. tauto.
Qed.

Lemma NoDup_map_filter {B} (f : path * B -> bool) l : NoDup (map fst l) -> NoDup (map fst (filter f l)).
Proof.
  induction l as [|e l IH]; simpl; intros H; [constructor|].
  inversion H as [|? ? Hn Hd]; subst. destruct (f e); simpl; auto.
  constructor; auto. intros Hx. apply Hn. eapply in_map_fst_filter; eauto.
Qed.

Lemma sub_In p : forall l r, In r (map fst (sub p l)) -> In (p ++ r) (map fst l).
Proof.
  induction l as [|[q i] l IH]; simpl; intros r H; [tauto|].
  destruct (strip p q) as [r0|] eqn:E.
  - apply strip_sound in E. destruct H as [<-|H]; [left; auto|right; auto].
  - right; auto.
Qed.

Lemma sub_NoDup p : forall l, NoDup (map fst l) -> NoDup (map fst (sub p l)).
Proof.
  induction l as [|[q i] l IH]; simpl; intros H; [constructor|].
  inversion H as [|? ? Hn Hd]; subst.
  destruct (strip p q) as [r0|] eqn:E; auto.
  simpl. constructor; auto. intros Hx. apply sub_In in Hx. apply strip_sound in E. apply Hn. rewrite E. exact Hx.
Qed.

(* ---------- every live class of a well-formed tree is a well-formed deepcopy source ---------- *)
Lemma sub_wf2 ti p : forall l seenA seenR,
  wf_rest ti [] seenA l ->
  (forall r, In (p ++ r) seenA -> In r seenR) ->
  (forall i, ~ In (p, i) l) ->
  wf_rest ti p seenR (sub p l).
Proof.
  induction l as [|[q i] l IH]; intros seenA seenR Hwf Hinv Hno; [exact I|].
  destruct Hwf as (Hq & Hh & Hp & Hin & Hwf). cbn [app] in Hp. cbn [sub].
  destruct (strip p q) as [r|] eqn:E.
  - apply strip_sound in E. subst q.
    assert (Hr : r <> []).
    { intros ->. rewrite app_nil_r in Hno. apply (Hno i). left. reflexivity. }
    cbn [wf_rest]. repeat split; auto.
    + rewrite Hp, removelast_app by auto. reflexivity.
    + apply Hinv. rewrite <- removelast_app by auto. exact Hin.
    + apply (IH ((p ++ r) :: seenA)); auto.
      * intros r' [E'|H']; [apply app_inv_head in E'; left; auto|right; auto].
      * intros i' Hi'. apply (Hno i'). right. exact Hi'.
  - apply (IH (q :: seenA)); auto.
    + intros r' [E'|H']; [subst q; rewrite strip_app in E; discriminate|auto].
    + intros i' Hi'. apply (Hno i'). right. exact Hi'.
Qed.

Lemma sub_wf1 ti p : p <> [] -> forall l seenA,
  wf_rest ti [] seenA l ->
  (forall q, In q seenA -> strip p q = None) ->
  NoDup (map fst l) ->
  sub p l = [] \/
  exists i0 rest', sub p l = ([], i0) :: rest' /\ hk i0 = None /\
                   par i0 = Some (ti, removelast p) /\ wf_rest ti p [[]] rest'.
Proof.
  intros Hp0. induction l as [|[q i] l IH]; intros seenA Hwf Hinv Hnd; [left; reflexivity|].
  destruct Hwf as (Hq & Hh & Hp & Hin & Hwf). cbn [app] in Hp. cbn [sub].
  cbn [map fst] in Hnd. inversion Hnd as [|? ? Hn Hd]; subst.
  destruct (strip p q) as [r|] eqn:E.
  - apply strip_sound in E. subst q.
    assert (Hr : r = []).
    { destruct r as [|x r']; [reflexivity|]. exfalso.
      rewrite removelast_app in Hin by discriminate.
      specialize (Hinv _ Hin). rewrite strip_app in Hinv. discriminate. }
    subst r. rewrite app_nil_r in *. right. exists i, (sub p l). repeat split; auto.
    apply (sub_wf2 ti p l (p :: seenA)); auto.
    + intros r0 [E0|H0].
      * left. apply (app_inv_head p). rewrite app_nil_r. exact E0.
      * specialize (Hinv _ H0). rewrite strip_app in Hinv. discriminate.
    + intros i' Hi'. apply Hn. change p with (fst (p, i')). apply in_map. exact Hi'.
  - apply (IH (q :: seenA)); auto.
    intros q' [<-|H']; auto.
Qed.

Lemma wf_src w ti t p i0 rest :
  nth_error w ti = Some t -> wf_tree ti t -> src_of w (ti, p) = Some (i0, rest) ->
  wf_at w (ti, p) i0 rest /\ (forall pa, par i0 = Some pa -> fst pa <= ti) /\
  NoDup (map fst (([], i0) :: rest)) /\ (p = [] -> exists j0 r0, t = ([], j0) :: r0 /\ par i0 = par j0).
Proof.
  intros Ht (j0 & rest0 & -> & Hh & Hpar & Hwf & Hnd) Hs.
  pose proof Hs as Hs0. unfold src_of in Hs. cbn [fst snd] in Hs. rewrite Ht in Hs.
  assert (Hnd' : NoDup (map fst (sub p (([], j0) :: rest0)))) by (apply sub_NoDup; exact Hnd).
  destruct p as [|x p'].
  - rewrite sub_nil in Hs, Hnd'. injection Hs as <- <-. split; [|split; [|split]].
    + repeat split; auto. intros E. specialize (Hpar _ E). cbn in Hpar. lia.
    + intros pa E. specialize (Hpar _ E). lia.
    + exact Hnd'.
    + intros _. eauto.
  - cbn [sub] in Hs, Hnd'. rewrite strip_cons_nil in Hs, Hnd'.
    cbn [map fst] in Hnd. inversion Hnd as [|? ? _ Hd]; subst.
    destruct (sub_wf1 ti (x :: p') ltac:(discriminate) rest0 [[]] Hwf) as [E|(i1 & r1 & E & Hh1 & Hp1 & Hw1)]; auto.
    + intros q [<-|[]]. reflexivity.
    + rewrite E in Hs. discriminate.
    + rewrite E in Hs, Hnd'. injection Hs as <- <-. split; [|split; [|split]].
      * repeat split; auto. rewrite Hp1. intros E'. injection E' as E'.
        apply (removelast_neq (x :: p')); [discriminate|exact E'].
      * intros pa E'. rewrite Hp1 in E'. injection E' as <-. cbn. lia.
      * exact Hnd'.
      * discriminate.
Qed.

(* ---------- each operation preserves the invariant ---------- *)
Lemma wf_rest_nonnil ti p : forall rest seen, wf_rest ti p seen rest -> ~ In [] (map fst rest).
Proof.
  induction rest as [|[r i] rest IH]; simpl; intros seen H; [tauto|].
  destruct H as (Hr & _ & _ & _ & H). intros [E|E]; [congruence|]. eapply IH; eauto.
Qed.

Lemma map_fst_spec n rest : map fst (map (spec_node n) rest) = map fst rest.
Proof. rewrite map_map. apply map_ext. intros [r i]. reflexivity. Qed.

Lemma deepcopy_wf w a w' : wf_world w -> deepcopy fixed_flags w a = Some w' -> wf_world w'.
Proof.
  intros Hw Hd. destruct a as [ti p].
  pose proof Hd as Hd0. unfold deepcopy in Hd.
  destruct (src_of w (ti, p)) as [[i0 rest]|] eqn:S; [|discriminate]. clear Hd.
  assert (exists t, nth_error w ti = Some t) as (t & Ht).
  { unfold src_of in S. cbn [fst] in S. destruct (nth_error w ti); [eauto|discriminate]. }
  destruct (wf_src w ti t p i0 rest Ht (Hw _ _ Ht) S) as (Hat & Hle & Hnd & _).
  rewrite (deepcopy_spec _ _ _ _ Hat) in Hd0. injection Hd0 as <-.
  assert (Hlt : ti < length w) by (apply nth_error_Some; congruence).
  intros tj tt Htj. destruct (lt_dec tj (length w)) as [L|L].
  - rewrite nth_error_app1 in Htj by auto. eauto.
  - rewrite nth_error_app2 in Htj by lia.
    destruct (tj - length w) as [|m] eqn:Em; [|destruct m; discriminate Htj].
    cbn in Htj. injection Htj as <-. assert (tj = length w) by lia. subst tj.
    destruct Hat as (_ & Hh & _ & Hr). cbn [fst snd] in Hr.
    exists (Info (dat i0) (par i0) None), (map (spec_node (length w)) rest).
    split; [reflexivity|]. split; [reflexivity|]. split; [|split].
    + cbn [par]. intros pa E. specialize (Hle _ E). lia.
    + eapply wf_rest_spec; eauto.
    + unfold spec_copy. cbn [map fst]. rewrite map_fst_spec. exact Hnd.
Qed.

Lemma upd_tree_wf w ti f :
  wf_world w -> (forall t, nth_error w ti = Some t -> wf_tree ti t -> wf_tree ti (f t)) ->
  wf_world (upd_tree w ti f).
Proof.
  intros Hw Hf tj t Htj. destruct (Nat.eq_dec tj ti) as [->|N].
  - rewrite upd_tree_same in Htj. destruct (nth_error w ti) as [t0|] eqn:E; [|discriminate].
    cbn in Htj. injection Htj as <-. apply Hf; auto.
  - rewrite upd_tree_other in Htj by auto. eauto.
Qed.

Lemma wf_rest_snoc ti p : forall l seen r i,
  wf_rest ti p seen l -> r <> [] -> hk i = None -> par i = Some (ti, p ++ removelast r) ->
  In (removelast r) (map fst l ++ seen) -> wf_rest ti p seen (l ++ [(r, i)]).
Proof.
  induction l as [|[q j] l IH]; simpl; intros seen r i Hwf Hr Hh Hp Hin.
  - repeat split; auto.
  - destruct Hwf as (Hq & Hhq & Hpq & Hinq & Hwf). repeat split; auto.
    apply IH; auto. destruct Hin as [E|Hin].
    + apply in_or_app. right. left. exact E.
    + apply in_app_or in Hin. apply in_or_app. destruct Hin; [left|right; right]; auto.
Qed.

Lemma add_wf ti t p k d i :
  wf_tree ti t -> assoc p t = Some i -> assoc (p ++ [k]) t = None ->
  wf_tree ti (t ++ [(p ++ [k], Info d (Some (ti, p)) None)]).
Proof.
  intros (j0 & rest & -> & Hh & Hpar & Hwf & Hnd) Ha Hn.
  exists j0, (rest ++ [(p ++ [k], Info d (Some (ti, p)) None)]).
  split; [reflexivity|]. split; auto. split; auto. split.
  - apply wf_rest_snoc; auto.
    + intros E. apply app_eq_nil in E. destruct E; discriminate.
    + cbn [par app]. rewrite removelast_last. reflexivity.
    + rewrite removelast_last. apply assoc_In in Ha.
      apply (in_map fst) in Ha. cbn [fst map] in Ha. destruct Ha as [<-|Ha].
      * apply in_or_app. right. left. reflexivity.
      * apply in_or_app. left. exact Ha.
  - change (([], j0) :: rest ++ [(p ++ [k], Info d (Some (ti, p)) None)])
      with ((([], j0) :: rest) ++ [(p ++ [k], Info d (Some (ti, p)) None)]).
    rewrite map_app. apply NoDup_snoc; auto. apply assoc_None_notin. exact Hn.
Qed.

Definition keepp (x q : path) : bool := negb (is_some (strip x q)).

Lemma wf_rest_filter ti x : x <> [] -> forall l seen,
  wf_rest ti [] seen l ->
  wf_rest ti [] (filter (keepp x) seen) (filter (fun e => keepp x (fst e)) l).
Proof.
  intros Hx. induction l as [|[q i] l IH]; intros seen Hwf; [exact I|].
  destruct Hwf as (Hq & Hh & Hp & Hin & Hwf). cbn [filter fst].
  specialize (IH _ Hwf). cbn [filter] in IH.
  destruct (keepp x q) eqn:K.
  - cbn [wf_rest]. repeat split; auto.
    apply filter_In. split; auto. unfold keepp in *.
    destruct (strip x (removelast q)) as [r|] eqn:E; [|reflexivity].
    destruct (strip_removelast x q r Hq E) as (r' & E'). rewrite E' in K. discriminate.
  - exact IH.
Qed.

Lemma rm_wf ti t p k :
  wf_tree ti t -> wf_tree ti (filter (fun e => negb (is_some (strip (p ++ [k]) (fst e)))) t).
Proof.
  intros (j0 & rest & -> & Hh & Hpar & Hwf & Hnd).
  assert (Hx : p ++ [k] <> []) by (intros E; apply app_eq_nil in E; destruct E; discriminate).
  exists j0, (filter (fun e => keepp (p ++ [k]) (fst e)) rest).
  split.
  - cbn [filter fst]. rewrite strip_snoc_nil. reflexivity.
  - split; auto. split; auto. split.
    + pose proof (wf_rest_filter ti _ Hx _ _ Hwf) as H. cbn [filter] in H.
      unfold keepp at 1 in H. rewrite strip_snoc_nil in H. exact H.
    + apply NoDup_map_filter. exact Hnd.
Qed.

Lemma wf_rest_map ti p (g : path * info -> path * info) :
  (forall e, fst (g e) = fst e /\ par (snd (g e)) = par (snd e) /\ hk (snd (g e)) = hk (snd e)) ->
  forall l seen, wf_rest ti p seen l -> wf_rest ti p seen (map g l).
Proof.
  intros Hg. induction l as [|[r i] l IH]; intros seen H; [exact I|].
  destruct H as (Hr & Hh & Hp & Hin & H). cbn [map].
  destruct (Hg (r, i)) as (E1 & E2 & E3). destruct (g (r, i)) as [r' i'] eqn:Eg.
  cbn [fst snd] in *. subst r'. cbn [wf_rest]. rewrite E2, E3. repeat split; auto.
Qed.

Lemma setdata_wf ti t p d :
  wf_tree ti t ->
  wf_tree ti (map (fun e => if path_dec (fst e) p then (fst e, Info d (par (snd e)) (hk (snd e))) else e) t).
Proof.
  intros (j0 & rest & -> & Hh & Hpar & Hwf & Hnd).
  set (g := fun e : path * info => if path_dec (fst e) p then (fst e, Info d (par (snd e)) (hk (snd e))) else e).
  assert (Hg : forall e, fst (g e) = fst e /\ par (snd (g e)) = par (snd e) /\ hk (snd (g e)) = hk (snd e)).
  { intros e. unfold g. destruct (path_dec (fst e) p); cbn; auto. }
  destruct (Hg ([], j0)) as (E1 & E2 & E3).
  exists (snd (g ([], j0))), (map g rest). split.
  - cbn [map]. f_equal. rewrite (surjective_pairing (g ([], j0))), E1. reflexivity.
  - rewrite E2, E3. split; auto. split; auto. split.
    + apply wf_rest_map; auto.
    + replace (map fst (map g (([], j0) :: rest))) with (map fst (([], j0) :: rest)); auto.
      rewrite map_map. apply map_ext. intros e. symmetry. apply Hg.
Qed.

(* ---------- the boolean check of the parsed tree (evaluated in the correspondence) is sound ---------- *)
Lemma mem_path_In p l : mem_path p l = true <-> In p l.
Proof.
  unfold mem_path. rewrite existsb_exists. split.
  - intros (q & Hq & E). destruct (path_dec p q) as [->|]; [exact Hq|discriminate].
  - intros H. exists p. split; auto. destruct (path_dec p p) as [_|N]; [reflexivity|exfalso; apply N; reflexivity].
Qed.

Lemma wf_restb_sound ti p : forall rest seen, wf_restb ti p seen rest = true -> wf_rest ti p seen rest.
Proof.
  induction rest as [|[r i] rest IH]; intros seen H; [exact I|].
  cbn [wf_restb] in H. apply andb_prop in H. destruct H as (H & H5).
  apply andb_prop in H. destruct H as (H & H4). apply andb_prop in H. destruct H as (H & H3).
  apply andb_prop in H. destruct H as (H1 & H2).
  cbn [wf_rest]. repeat split.
  - intros ->. discriminate H1.
  - unfold no_hook in H2. destruct (hk i); [discriminate|reflexivity].
  - destruct (oaddr_dec (par i) (Some (ti, p ++ removelast r))) as [E|]; [exact E|discriminate].
  - apply mem_path_In. exact H4.
  - apply IH. exact H5.
Qed.

Lemma nodupb_sound : forall l, nodupb l = true -> NoDup l.
Proof.
  induction l as [|x l IH]; intros H; [constructor|].
  cbn [nodupb] in H. apply andb_prop in H. destruct H as (H1 & H2). constructor; auto.
  intros Hin. apply mem_path_In in Hin. rewrite Hin in H1. discriminate H1.
Qed.

Lemma wf_treeb_sound ti t : wf_treeb ti t = true -> wf_tree ti t.
Proof.
  destruct t as [|[[|x q] i0] rest]; cbn [wf_treeb]; try discriminate. intros H.
  apply andb_prop in H. destruct H as (H & H4). apply andb_prop in H. destruct H as (H & H3).
  apply andb_prop in H. destruct H as (H1 & H2).
  exists i0, rest. split; [reflexivity|]. split; [|split; [|split]].
  - unfold no_hook in H1. destruct (hk i0); [discriminate|reflexivity].
  - intros pa E. rewrite E in H2. apply Nat.ltb_lt. exact H2.
  - apply wf_restb_sound. exact H3.
  - apply nodupb_sound. exact H4.
Qed.

Lemma apply_op_wf w o : wf_world w -> wf_world (apply_op fixed_flags w o).
Proof.
  intros Hw. destruct o as [a|a k d|a k|a d|a k ents]; cbn [apply_op].
  - destruct (deepcopy fixed_flags w a) as [w'|] eqn:E; auto. eapply deepcopy_wf; eauto.
  - destruct (is_some (get w a) && negb (is_some (get w (fst a, snd a ++ [k])))) eqn:C; auto.
    apply andb_prop in C. destruct C as (C1 & C2).
    apply upd_tree_wf; auto. intros t Ht Hwt.
    unfold get in C1, C2. cbn [fst snd] in C1, C2. rewrite Ht in C1, C2.
    destruct (assoc (snd a) t) as [i|] eqn:A1; [|discriminate].
    destruct (assoc (snd a ++ [k]) t) eqn:A2; [discriminate|].
    destruct a as [ti p]. cbn [fst snd] in *. eapply add_wf; eauto.
  - apply upd_tree_wf; auto. intros t _ Hwt. apply rm_wf. exact Hwt.
  - apply upd_tree_wf; auto. intros t _ Hwt. apply setdata_wf. exact Hwt.
  - destruct (is_some (get w a)); auto. apply upd_tree_wf; auto. intros t _ Hwt. cbv zeta.
    match goal with |- wf_tree _ (if wf_treeb ?i ?x then _ else _) => destruct (wf_treeb i x) eqn:E end; auto.
    apply wf_treeb_sound. exact E.
Qed.

Lemma run_wf : forall ops w, wf_world w -> wf_world (run fixed_flags ops w).
Proof.
  induction ops as [|o ops IH]; intros w Hw; [exact Hw|].
  cbn [run fold_left]. apply IH. apply apply_op_wf. exact Hw.
Qed.

Lemma wf_world_single t0 : wf_tree 0 t0 -> wf_world [t0].
Proof. intros H [|ti] t E; [injection E as <-; exact H|destruct ti; discriminate E]. Qed.

(* every world reachable from a parsed tree is well-formed *)
Lemma reachable_wf t0 ops : wf_tree 0 t0 -> wf_world (run fixed_flags ops [t0]).
Proof. intros H. apply run_wf. apply wf_world_single. exact H. Qed.

(* ---------- self-contained trees (root without parent) stay so ---------- *)
Definition root_none (w : world) (ti : nat) : Prop :=
  exists i0 rest, nth_error w ti = Some (([], i0) :: rest) /\ par i0 = None.

Lemma wf_tree_closed ti t i0 rest : wf_tree ti t -> t = ([], i0) :: rest -> par i0 = None -> closed_tree ti t.
Proof.
  intros (j0 & r0 & -> & _ & _ & Hwf & _) E Hp. injection E as -> ->.
  intros r i [E|Hin].
  - injection E as <- <-. exact Hp.
  - destruct (wf_rest_nonroot _ _ _ _ _ _ Hwf Hin) as (Hr & Hpar & _).
    cbn [app] in Hpar. destruct r; congruence.
Qed.

Lemma apply_op_length fl w o : length w <= length (apply_op fl w o).
Proof.
  destruct o as [a|a k d|a k|a d|a k ents]; cbn [apply_op].
  - destruct (deepcopy fl w a) eqn:E; auto. destruct (deepcopy_frame _ _ _ _ E) as (c & ->).
    rewrite app_length. lia.
  - destruct (_ && _); auto. rewrite upd_tree_length. auto.
  - rewrite upd_tree_length. auto.
  - rewrite upd_tree_length. auto.
  - destruct (is_some (get w a)); auto. rewrite upd_tree_length. auto.
Qed.

Lemma apply_op_root_none fl w o ti : root_none w ti -> root_none (apply_op fl w o) ti.
Proof.
  intros (i0 & rest & Ht & Hp).
  assert (Hl : ti < length w) by (apply nth_error_Some; congruence).
  assert (Hother : forall f, (exists i1 r1, f (([], i0) :: rest) = ([], i1) :: r1 /\ par i1 = None) ->
                   forall tj, root_none (upd_tree w tj f) ti).
  { intros f (i1 & r1 & Ef & Hp1) tj. destruct (Nat.eq_dec ti tj) as [->|N].
    - exists i1, r1. rewrite upd_tree_same, Ht. cbn. rewrite Ef. auto.
    - exists i0, rest. rewrite upd_tree_other by auto. auto. }
  destruct o as [a|a k d|a k|a d|a k ents]; cbn [apply_op].
  - destruct (deepcopy fl w a) eqn:E; [|exists i0, rest; auto].
    destruct (deepcopy_frame _ _ _ _ E) as (c & ->). exists i0, rest.
    rewrite nth_error_app1 by auto. auto.
  - destruct (_ && _); [|exists i0, rest; auto]. apply Hother. cbn [app]. eauto.
  - apply Hother. cbn [filter fst]. rewrite strip_snoc_nil. cbn. eauto.
  - apply Hother. cbn [map fst snd]. destruct (path_dec [] (snd a)); cbn; eauto.
  - destruct (is_some (get w a)); [|exists i0, rest; auto]. apply Hother. cbv zeta.
    match goal with |- exists _ _, (if ?b then _ else _) = _ /\ _ => destruct b end; [|eauto].
    cbn [filter fst app]. rewrite strip_snoc_nil. cbn [negb is_some app]. eauto.
Qed.

Lemma run_root_none fl : forall ops w ti, root_none w ti -> root_none (run fl ops w) ti.
Proof.
  induction ops as [|o ops IH]; intros w ti H; [exact H|].
  cbn [run fold_left]. apply IH. apply apply_op_root_none. exact H.
Qed.

(* ---------- projection: a tree's fate depends only on the operations addressed to it ---------- *)
Definition touchesb (ti : nat) (o : op) : bool :=
  match o with DeepCopy _ => false | _ => Nat.eqb (op_tree o) ti end.

Lemma touchesb_true ti o : touchesb ti o = true -> touches o ti.
Proof. destruct o; cbn; try discriminate; apply Nat.eqb_eq. Qed.

Lemma touchesb_false ti o : touchesb ti o = false -> ~ touches o ti.
Proof. destruct o; cbn; auto; intros H; apply Nat.eqb_neq; exact H. Qed.

Lemma apply_op_local fl w1 w2 o ti :
  nth_error w1 ti = nth_error w2 ti -> touches o ti ->
  nth_error (apply_op fl w1 o) ti = nth_error (apply_op fl w2 o) ti.
Proof.
  intros H Ht. destruct o as [a|[ta p] k d|[ta p] k|[ta p] d|[ta p] k ents]; cbn [touches op_tree fst] in Ht; [contradiction| | | |];
    subst ta; cbn [apply_op fst snd].
  - assert (G : forall q, get w1 (ti, q) = get w2 (ti, q)) by (intros q; apply get_same; exact H).
    rewrite !G. destruct (_ && _); auto. rewrite !upd_tree_same, H. reflexivity.
  - rewrite !upd_tree_same, H. reflexivity.
  - rewrite !upd_tree_same, H. reflexivity.
  - assert (G : forall q, get w1 (ti, q) = get w2 (ti, q)) by (intros q; apply get_same; exact H).
    rewrite !G. destruct (is_some (get w2 (ti, p))); auto. rewrite !upd_tree_same, H. reflexivity.
Qed.

Lemma run_project fl ti : forall ops w1 w2,
  ti < length w1 -> ti < length w2 -> nth_error w1 ti = nth_error w2 ti ->
  nth_error (run fl ops w1) ti = nth_error (run fl (filter (touchesb ti) ops) w2) ti.
Proof.
  induction ops as [|o ops IH]; intros w1 w2 L1 L2 H; [exact H|].
  cbn [run fold_left filter]. destruct (touchesb ti o) eqn:T.
  - cbn [fold_left]. apply IH.
    + pose proof (apply_op_length fl w1 o). lia.
    + pose proof (apply_op_length fl w2 o). lia.
    + apply apply_op_local; auto. apply touchesb_true. exact T.
  - apply IH; auto.
    + pose proof (apply_op_length fl w1 o). lia.
    + destruct (apply_op_frame fl w1 o ti L1 (touchesb_false _ _ T)) as (E & _). rewrite E. exact H.
Qed.

(* history-level independence: in any world reachable from a parsed tree, for any self-contained tree
   (the parsed tree, a copy of it, a copy of a copy ...) and ANY further history, the tree and
   everything lookup can reach from its classes are what the sub-history of the operations
   addressed to that tree alone produces *)
Lemma history_projection w ti ops :
  wf_world w -> root_none w ti ->
  let wfull := run fixed_flags ops w in
  let wproj := run fixed_flags (filter (touchesb ti) ops) w in
  nth_error wfull ti = nth_error wproj ti /\
  forall p ss, see wfull (ti, p) ss = see wproj (ti, p) ss.
Proof.
  intros Hw Hr wfull wproj.
  assert (Hl : ti < length w) by (destruct Hr as (i0 & rest & Ht & _); apply nth_error_Some; congruence).
  assert (E : nth_error wfull ti = nth_error wproj ti) by (apply run_project; auto).
  split; [exact E|]. intros p ss.
  destruct (run_root_none fixed_flags (filter (touchesb ti) ops) w ti Hr) as (i1 & r1 & Ht1 & Hp1).
  fold wproj in Ht1.
  eapply see_closed; eauto.
  eapply wf_tree_closed; eauto. eapply run_wf; eauto.
Qed.

(* the copy of a self-contained tree is self-contained *)
Lemma copy_root_none w ti :
  wf_world w -> root_none w ti ->
  exists c, deepcopy fixed_flags w (ti, []) = Some (w ++ [c]) /\ root_none (w ++ [c]) (length w) /\
            root_none (w ++ [c]) ti /\ wf_world (w ++ [c]) /\
            erase c = erase (match nth_error w ti with Some t => t | None => [] end).
Proof.
  intros Hw (i0 & rest & Ht & Hp).
  assert (S : src_of w (ti, []) = Some (i0, rest)).
  { unfold src_of. cbn [fst snd]. rewrite Ht, sub_nil. reflexivity. }
  destruct (wf_src w ti _ [] i0 rest Ht (Hw _ _ Ht) S) as (Hat & _).
  pose proof (deepcopy_spec _ _ _ _ Hat) as Hd.
  exists (spec_copy (length w) i0 rest). split; [exact Hd|].
  assert (Hl : ti < length w) by (apply nth_error_Some; congruence).
  split; [|split; [|split]].
  - exists (Info (dat i0) (par i0) None), (map (spec_node (length w)) rest).
    rewrite nth_error_app2 by lia. rewrite Nat.sub_diag. cbn. auto.
  - exists i0, rest. rewrite nth_error_app1 by auto. auto.
  - eapply deepcopy_wf; eauto.
  - rewrite Ht. apply spec_copy_iso.
Qed.

