(* C14 / C15 — non-vacuity: the hypotheses of the composed theorems instantiated on a concrete run *)
From Coq Require Import ZArith QArith Qcanon List Bool PArith Lia Permutation.
Import ListNotations.
From PV Require Import Model.C14_simplify Proofs.C14_simplify Proofs.C14_compose Proofs.C15_square.
Open Scope Qc_scope.

Lemma acyclic_flat (s : sub) :
  (forall x v y w, In (x, v) s -> lookup y s = Some w -> occurs y v = false) -> acyclic s.
Proof. intro H. exists (fun _ => 0%nat). intros x v y w H1 H2 H3. rewrite (H x v y w H1 H2) in H3. discriminate. Qed.

Lemma loop_ok_noiter o m left : o_iter o = false -> run_ok (passes o) m -> forall fuel, loop_ok fuel o left m.
Proof.
  intros Hi Hr fuel. destruct fuel; simpl; auto. split; auto.
  destruct (failed (simplify_once o m)); auto. rewrite Hi. simpl. exact I.
Qed.
Lemma loop_ok15_noiter o m left : o_iter o = false -> run_ok (passes15 o) m -> forall fuel, loop_ok15 fuel o left m.
Proof.
  intros Hi Hr fuel. destruct fuel; simpl; auto. split; auto.
  destruct (failed (simplify_once o m)); auto. rewrite Hi. simpl. exact I.
Qed.

Example ex_run_ok : run_ok (passes o_ex) m_ex.
Proof.
  unfold passes, o_ex. cbn [run_ok o_rpe o_rce o_eca o_rpv o_rcv o_da elim_on o_elim o_allow_der].
  split; [intro; discriminate |]. split; [intro; discriminate |].
  split; [intros _ _; exact I |]. split; [intros _ _; exact I |].
  split.
  { intros _ _. split.
    - match goal with |- acyclic ?d =>
        assert (E0 : d = [(5%positive, Const (Q2Qc 3))]) by (vm_compute; reflexivity); rewrite E0 end.
      apply acyclic_flat. intros x v y w [E | []] _. inversion E. reflexivity.
    - vm_compute. reflexivity. }
  split.
  { intros _ _. unfold H_elim. cbn [o_elim]. split; [vm_compute; reflexivity |].
    match goal with |- acyclic ?d =>
      assert (E0 : d = [(2%positive, Sym 1%positive)]) by (vm_compute; reflexivity); rewrite E0 end.
    apply acyclic_flat. intros x v y w [E | []] L. inversion E. subst.
    destruct (Pos.eq_dec y 2) as [-> | Hn]; [reflexivity |].
    cbn [lookup] in L. apply Pos.eqb_neq in Hn. rewrite Hn in L. discriminate L. }
  split; [| exact I].
  intros _ _. split.
  - intros r e d0 d1 n Hin Hd. vm_compute in Hin. destruct Hin as [<- | [<- | []]];
      vm_compute in Hd; inversion Hd; subst. simpl. apply Qc_add_0.
  - vm_compute. reflexivity.
Qed.

Example ex_run_ok15 : run_ok (passes15 o_ex) m_ex.
Proof.
  unfold passes15, o_ex. cbn [run_ok o_rpe o_rce o_eca o_rpv o_rcv o_da elim_on o_elim o_allow_der].
  split; [intro; discriminate |]. split; [intro; discriminate |].
  split; [intros _ _; exact I |]. split; [intros _ _; exact I |].
  split; [intros _ _; exact I |]. split; [intros _ _; vm_compute; reflexivity |].
  split; [| exact I].
  intros _ _. split; [| split].
  - match goal with |- relinv _ ?R => assert (E0 : R = []) by (vm_compute; reflexivity); rewrite E0 end.
    split; [constructor | split; [intros c [] | intros x []]].
  - intros e d0 d1 n Hin Hd. vm_compute in Hin. destruct Hin as [<- | [<- | []]];
      vm_compute in Hd; inversion Hd; subst. split; left; vm_compute; reflexivity.
  - vm_compute. reflexivity.
Qed.

Lemma ex_nodup : NoDup (algs m_ex).
Proof. repeat constructor; simpl; intuition discriminate. Qed.
Lemma ex_not_failed : failed (simplify o_ex m_ex) = false.
Proof. vm_compute. reflexivity. Qed.

(* the hypotheses of the composed theorems are satisfiable: the regular example (parameter,
   constant, eliminable variable, negative alias) under six options *)
Lemma ex_preserves r : sat2 r m_ex <-> sat2 r (simplify o_ex m_ex).
Proof.
  apply simplify_sound; [| exact ex_not_failed].
  apply loop_ok_noiter; [reflexivity | exact ex_run_ok].
Qed.
Lemma ex_square : sq m_ex (simplify o_ex m_ex).
Proof.
  apply simplify_loop_square; [| exact ex_nodup | exact ex_not_failed].
  apply loop_ok15_noiter; [reflexivity | exact ex_run_ok15].
Qed.
