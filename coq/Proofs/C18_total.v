(* C18 — when is the expansion defined?  Exact carve-out of the recorded defect class
   ("array attribute of lower rank than the index, inside a component array").  stdlib only. *)
From Coq Require Import String List Arith ZArith Bool Lia.
From PV Require Import Model.C18_expand Proofs.C18_expand.
Import ListNotations.
Open Scope nat_scope.
Open Scope list_scope.

(* a CasADi matrix given row-wise really has n1 rows of n2 entries *)
Definition mat_wf (n1 n2 : nat) (rows : list (list aval)) : Prop :=
  length rows = n1 /\ Forall (fun r => length r = n2) rows.

(* the attribute object is an array of tensor shape d: a nested list of that shape, or a DM/MX
   holding a length-n array as an n x 1 column / an n x m array as an n x m matrix *)
Definition attr_matches (d : list nat) (a : attr) : Prop :=
  match a with
  | AtScalar _ => False
  | AtList l => shaped d l
  | AtMat _ n1 n2 rows => mat_wf n1 n2 rows /\ ((d = [n1] /\ n2 = 1) \/ d = [n1; n2])
  end.

(* scalar attribute objects: np.isscalar values and 1x1 MX expressions (both are broadcast) *)
Definition attr_scalar (a : attr) : Prop :=
  match a with
  | AtScalar _ => True
  | AtMat true n1 n2 rows => n1 * n2 = 1 /\ mat_wf n1 n2 rows
  | _ => False
  end.

(* the expansion is defined on: scalars, and arrays of exactly the tensor shape of the index *)
Definition attr_ok (dims : list nat) (a : attr) : Prop := attr_scalar a \/ attr_matches dims a.

Lemma mat_get_wf n1 n2 rows i j : mat_wf n1 n2 rows -> i < n1 -> j < n2 -> sel_ok (mat_get rows i j) = true.
Proof.
  intros (L & F) Hi Hj. unfold mat_get.
  destruct (nth_error rows i) as [r|] eqn:E.
  - assert (Hr : length r = n2).
    { rewrite Forall_forall in F. apply F. eapply nth_error_In; eauto. }
    destruct (nth_error r j) eqn:E2; [reflexivity|].
    apply nth_error_None in E2. lia.
  - apply nth_error_None in E. lia.
Qed.

Lemma sel_ok_ok dims a idx : attr_ok dims a -> In idx (ndindex dims) -> sel_ok (sel_attr a idx) = true.
Proof.
  intros [S|M] Hin.
  - destruct a as [x|l|[|] n1 n2 rows]; cbn [attr_scalar] in S; try contradiction; [reflexivity|].
    destruct S as (E & W). cbn [sel_attr]. rewrite (proj2 (Nat.eqb_eq _ _) E).
    apply Nat.eq_mul_1 in E as (-> & ->). apply (mat_get_wf 1 1); auto.
  - apply ndindex_In in Hin.
    destruct a as [x|l|ismx n1 n2 rows]; cbn [attr_matches] in M; [contradiction| |].
    + apply (sel_full_ok dims (AtList l) idx); [exact M | now apply ndindex_In].
    + destruct M as (W & [(-> & ->)| ->]).
      * inversion Hin as [|k d t r Hk Ht]; subst. inversion Ht; subst.
        assert (E : (k <? n1 * 1) = true) by (apply Nat.ltb_lt; lia).
        assert (G : sel_ok (sel_mat n1 1 rows [k]) = true).
        { cbn [sel_mat]. rewrite E. rewrite Nat.mod_small, Nat.div_small by lia.
          apply (mat_get_wf n1 1); auto. }
        destruct ismx; cbn [sel_attr]; auto.
        destruct (Nat.eqb_spec (n1 * 1) 1) as [E1|]; auto.
        assert (n1 = 1) by lia. subst. assert (k = 0) by lia. subst. apply (mat_get_wf 1 1); auto.
      * inversion Hin as [|i d t r Hi Ht]; subst. inversion Ht as [|j d' t' r' Hj Ht']; subst.
        inversion Ht'; subst.
        assert (G : sel_ok (sel_mat n1 n2 rows [i; j]) = true).
        { cbn [sel_mat]. rewrite (proj2 (Nat.ltb_lt _ _) Hi), (proj2 (Nat.ltb_lt _ _) Hj). cbn [andb].
          apply (mat_get_wf n1 n2); auto. }
        destruct ismx; cbn [sel_attr]; auto.
        destruct (Nat.eqb_spec (n1 * n2) 1) as [E1|]; auto.
        apply Nat.eq_mul_1 in E1 as (-> & ->). assert (i = 0) by lia. assert (j = 0) by lia. subst. apply (mat_get_wf 1 1); auto.
Qed.

Theorem expand_total_ok v names :
  opt_all (map (scalar_name (uname v) (ushape v)) (ndindex (iter_dims (ushape v)))) = Some names ->
  Forall (attr_ok (iter_dims (ushape v))) (uattrs v) ->
  exists ex, expand_var v = Some ex.
Proof.
  intros HN HF. unfold expand_var. rewrite HN.
  assert (E : forallb (forallb sel_ok)
                (map (fun idx => map (fun a => sel_attr a idx) (uattrs v)) (ndindex (iter_dims (ushape v)))) = true).
  { apply forallb_forall. intros x Hx. apply in_map_iff in Hx as (idx & <- & Hidx).
    apply forallb_forall. intros y Hy. apply in_map_iff in Hy as (a & <- & Ha).
    rewrite Forall_forall in HF. eapply sel_ok_ok; eauto. }
  rewrite E. eauto.
Qed.

(* ---------------------------------------------------------------------------------------- *)
(* the carve-out is exactly the recorded class                                                *)
Definition own_dims (s : vshape) : list nat :=
  match s with Nested g => last g [] | Flat d => d end.
Definition outer_dims (s : vshape) : list nat :=
  match s with Nested g => concat (removelast g) | Flat _ => [] end.

(* what the generator hands over (generator.py l.139-156): a scalar, or an array that has the shape
   of the whole flattened symbol (declared at the top level / modification covering the component
   dimensions), or the shape of the declared member only (declared inside the component's class,
   or `each`) *)
Definition attr_declared (s : vshape) (a : attr) : Prop :=
  attr_scalar a \/ attr_matches (iter_dims s) a \/ attr_matches (own_dims s) a.

(* the two known findings: an ARRAY attribute of the member's own rank on a variable that lives in
   a component ARRAY, i.e. attribute rank < index rank *)
Definition lowrank_in_component_array (s : vshape) (a : attr) : Prop :=
  outer_dims s <> [] /\ attr_matches (own_dims s) a
  /\ length (own_dims s) < length (iter_dims s).

Lemma concat_removelast_last (g : list (list nat)) : concat g = concat (removelast g) ++ last g [].
Proof.
  induction g as [|x g IH]; [reflexivity|].
  destruct g as [|y g']; [cbn; now rewrite app_nil_r|].
  change (removelast (x :: y :: g')) with (x :: removelast (y :: g')).
  change (last (x :: y :: g') []) with (last (y :: g') []).
  cbn [concat]. rewrite <- app_assoc. f_equal. exact IH.
Qed.

Lemma iter_outer_own s : iter_dims s = outer_dims s ++ own_dims s.
Proof. destruct s; cbn; [apply concat_removelast_last | reflexivity]. Qed.

Theorem carveout_exact s a :
  attr_declared s a -> attr_ok (iter_dims s) a \/ lowrank_in_component_array s a.
Proof.
  intros [S|[M|M]]; [left; now left | left; now right |].
  destruct (outer_dims s) as [|o os] eqn:E.
  - left. right. rewrite iter_outer_own, E. exact M.
  - right. repeat split; auto.
    + rewrite E; discriminate.
    + rewrite iter_outer_own, E, app_length. cbn. lia.
Qed.

(* no component-array dimension on the path: every declared attribute is fine *)
Corollary no_component_array_total s a : outer_dims s = [] -> attr_declared s a -> attr_ok (iter_dims s) a.
Proof.
  intros E D. destruct (carveout_exact s a D) as [H|(H & _)]; [exact H | contradiction].
Qed.

(* ---------------------------------------------------------------------------------------- *)
(* and on that class the expansion does fail                                                  *)
Lemma lowrank_list_err d : forall l idx, shaped d l -> length d < length idx -> sel_list l idx = SErr.
Proof.
  induction d as [|n d IH]; intros l idx S L; cbn [shaped] in S.
  - destruct S as (a & ->). destruct idx; [cbn in L; lia | reflexivity].
  - destruct S as (l' & -> & _ & F). destruct idx as [|i idx]; [cbn in L; lia|].
    cbn [sel_list]. destruct (nth_error l' i) as [x|] eqn:E; [|reflexivity].
    apply IH; [|cbn in L; lia]. rewrite Forall_forall in F. apply F. eapply nth_error_In; eauto.
Qed.

Theorem lowrank_list_refuted v l d :
  In (AtList l) (uattrs v) -> shaped d l -> length d < length (iter_dims (ushape v)) ->
  ndindex (iter_dims (ushape v)) <> [] ->
  expand_var v = None.
Proof.
  intros Hin S L NE. unfold expand_var.
  destruct (opt_all _) as [names|]; [|reflexivity].
  destruct (forallb _ _) eqn:E; [|reflexivity]. exfalso.
  destruct (ndindex (iter_dims (ushape v))) as [|idx rest] eqn:EN; [contradiction|].
  rewrite forallb_forall in E.
  specialize (E (map (fun a => sel_attr a idx) (uattrs v)) (or_introl eq_refl)).
  rewrite forallb_forall in E.
  specialize (E (sel_attr (AtList l) idx) (in_map _ _ _ Hin)).
  cbn [sel_attr] in E. rewrite (lowrank_list_err d) in E; [discriminate | exact S |].
  assert (Hidx : In idx (ndindex (iter_dims (ushape v)))) by (rewrite EN; now left).
  apply ndindex_In, Forall2_length in Hidx. lia.
Qed.

Lemma expand_var_none_if v a idx :
  In a (uattrs v) -> In idx (ndindex (iter_dims (ushape v))) -> sel_attr a idx = SErr -> expand_var v = None.
Proof.
  intros Ha Hidx E. unfold expand_var.
  destruct (opt_all _) as [names|]; [|reflexivity].
  destruct (forallb _ _) eqn:F; [|reflexivity]. exfalso.
  rewrite forallb_forall in F.
  specialize (F (map (fun a => sel_attr a idx) (uattrs v)) (in_map _ _ _ Hidx)).
  rewrite forallb_forall in F. specialize (F (sel_attr a idx) (in_map _ _ _ Ha)).
  rewrite E in F. discriminate.
Qed.

(* DM flavour of the class: a length-n member (n >= 2) given as an n x 1 DM inside `Sub s[c]` *)
Theorem lowrank_dm_refuted v n c rows :
  In (AtMat false n 1 rows) (uattrs v) -> iter_dims (ushape v) = [c; n] -> 0 < c -> 2 <= n ->
  expand_var v = None.
Proof.
  intros Ha D Hc Hn. apply (expand_var_none_if v (AtMat false n 1 rows) [0; 1]); auto.
  - rewrite D. apply ndindex_In. repeat constructor; lia.
  - cbn [sel_attr sel_mat]. replace (1 <? 1) with false by reflexivity. now rewrite andb_false_r.
Qed.
