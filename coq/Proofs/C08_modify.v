(* Proofs/C08_modify.v — lemmas about the modification machinery of the flattening model. *)
From Coq Require Import List ZArith Bool PArith Lia.
From PV Require Import Lib.ClassTree Model.C07_flatten Model.C08_modify.
Import ListNotations.

Lemma get_set a b v l :
  get_attr a (set_attr b v l) = if Pos.eqb b a then Some v else get_attr a l.
Proof.
  unfold get_attr, set_attr. induction l as [|[c w] l IH]; simpl.
  - destruct (Pos.eqb_spec b a); reflexivity.
  - destruct (Pos.eqb_spec c b) as [->|N]; simpl.
    + destruct (Pos.eqb_spec b a); reflexivity.
    + destruct (Pos.eqb_spec c a) as [->|N']; simpl.
      * destruct (Pos.eqb_spec b a); [congruence | reflexivity].
      * exact IH.
Qed.

(* modify_symbol = setattr in list order: the final value of an attribute is that of the LAST
   argument of the list that names it, else the previous value *)
Lemma apply_args_last a : forall l attrs r,
  apply_args l attrs = Ok r ->
  get_attr a r = match last_for a l with Some e => Some e | None => get_attr a attrs end.
Proof.
  induction l as [|m l IH]; intros attrs r H; cbn [apply_args last_for] in *.
  - inversion H; reflexivity.
  - destruct (negb (mem_id (head_id (m_target m)) ATTRIBUTES)) in H; [discriminate H|].
    destruct (m_mods m) as [|[e|cl] ms]; try discriminate H.
    specialize (IH _ _ H). rewrite IH.
    destruct (last_for a l); [reflexivity|].
    rewrite get_set. destruct (Pos.eqb (head_id (m_target m)) a); reflexivity.
Qed.

Lemma last_for_app a l1 l2 :
  last_for a (l1 ++ l2) = match last_for a l2 with Some e => Some e | None => last_for a l1 end.
Proof.
  induction l1 as [|m l1 IH]; simpl.
  - destruct (last_for a l2); reflexivity.
  - rewrite IH. destruct (last_for a l2); reflexivity.
Qed.

(* outermost wins: the arguments that come from outside (enclosing component, extends clause) are
   appended AFTER the declaration's / base class's own (tree.py:305-307, 326-328, 494-497, 545-548) *)
Lemma outermost_wins a inner outer attrs r e :
  apply_args (inner ++ outer) attrs = Ok r -> last_for a outer = Some e -> get_attr a r = Some e.
Proof.
  intros H L. rewrite (apply_args_last a _ _ _ H), last_for_app, L. reflexivity.
Qed.

Lemma inner_when_outer_silent a inner outer attrs r :
  apply_args (inner ++ outer) attrs = Ok r -> last_for a outer = None ->
  get_attr a r = match last_for a inner with Some e => Some e | None => get_attr a attrs end.
Proof.
  intros H L. rewrite (apply_args_last a _ _ _ H), last_for_app, L. reflexivity.
Qed.

(* a VALUE modification keeps the scope of the argument it came from (tree.py:485-490, 533-538) *)
Lemma value_keeps_scope a e :
  In (MExpr e) (m_mods a) -> In (MArg (m_scope a) [aValue] [MExpr e]) (to_symbol_mods a).
Proof.
  intros H. unfold to_symbol_mods. apply in_flat_map. exists (MExpr e). split; [auto | left; reflexivity].
Qed.

(* and an argument is applied only in the class whose full reference equals its scope *)
Lemma applies_scope sc s t m : applies sc (MArg (Some s) t m) = true <-> s = sc.
Proof.
  unfold applies; simpl. split.
  - revert sc; induction s as [|x s IH]; intros [|y sc]; simpl; try congruence.
    rewrite andb_true_iff, Pos.eqb_eq. intros [-> H]. f_equal; auto.
  - intros ->. induction sc; simpl; [reflexivity|]. rewrite Pos.eqb_refl; auto.
Qed.

(* the nested spelling is rejected at every structured component (tree.py:542: child[0] of a
   one-element reference) *)
Lemma nest_rejected sc n m rest ms :
  shift_arg (nest (MArg sc (n :: m :: rest) ms)) = Err IndexErr.
Proof. reflexivity. Qed.

Lemma dotted_accepted sc n m rest ms :
  shift_arg (MArg sc (n :: m :: rest) ms) = Ok (MArg sc (m :: rest) ms).
Proof. reflexivity. Qed.

(* ------------------------------------------------------------------ properties of the SPEC's modifiers *)
From PV Require Import Lib.Inst.

Lemma map_flat_map {A B C} (g : B -> C) (f : A -> list B) l :
  map g (flat_map f l) = flat_map (fun x => map g (f x)) l.
Proof. induction l as [|x l IH]; simpl; [reflexivity|]. rewrite map_app, IH. reflexivity. Qed.

(* the specification does not see the spelling: a.rest(ms) and a(rest(ms)) are the same entries *)
Lemma spec_spelling env a : flat_arg env (nest a) = flat_arg env a.
Proof.
  destruct a as [sc t ms]. destruct t as [|n [|m rest]]; try reflexivity.
  cbn [nest flat_arg flat_map]. rewrite app_nil_r. cbn [flat_map]. rewrite app_nil_r.
  cbn [flat_arg]. rewrite map_flat_map. apply flat_map_ext. intros [e|l].
  - reflexivity.
  - rewrite map_map. apply map_ext. intros [[p e] w]. reflexivity.
Qed.

Lemma find_app {A} (f : A -> bool) l1 l2 :
  find f (l1 ++ l2) = match find f l1 with Some x => Some x | None => find f l2 end.
Proof. induction l1 as [|x l1 IH]; simpl; [reflexivity|]. destruct (f x); [reflexivity | exact IH]. Qed.

(* outermost wins in the specification: entries from outside come first and the first match counts *)
Lemma spec_outermost a outer inner :
  attr_lookup a (outer ++ inner) =
  match attr_lookup a outer with Some x => Some x | None => attr_lookup a inner end.
Proof. unfold attr_lookup. apply find_app. Qed.
