(* Proofs/C08_modify.v — lemmas about the modification machinery of the flattening model. *)
From Coq Require Import List ZArith Bool PArith Lia.
From PV Require Import Lib.ClassTree Model.C07_flatten Model.C08_modify.
Import ListNotations.

Lemma get_set a b v l :
  get_attr a (set_attr b v l) = if Pos.eqb b a then Some v else get_attr a l.
Proof.
  unfold get_attr, set_attr. induction l as [|[c w] l IH]; simpl.
  - destruct (Pos.eqb_spec b a); reflexivity.
  - destruct (Pos.eqb_spec c b) as [->|N]; simpl.
    + destruct (Pos.eqb_spec b a); reflexivity.
    + destruct (Pos.eqb_spec c a) as [->|N']; simpl.
      * destruct (Pos.eqb_spec b a); [congruence | reflexivity].
      * exact IH.
Qed.

(* modify_symbol = setattr in list order: the final value of an attribute is that of the LAST
   argument of the list that names it, else the previous value *)
Lemma apply_args_last a : forall l attrs r,
  apply_args l attrs = Ok r ->
  get_attr a r = match last_for a l with Some e => Some e | None => get_attr a attrs end.
Proof.
  induction l as [|m l IH]; intros attrs r H; cbn [apply_args last_for] in *.
  - inversion H; reflexivity.
  - destruct (negb (mem_id (head_id (m_target m)) ATTRIBUTES)) in H; [discriminate H|].
    destruct (m_mods m) as [|[e|cl] ms]; try discriminate H.
    specialize (IH _ _ H). rewrite IH.
    destruct (last_for a l); [reflexivity|].
    rewrite get_set. destruct (Pos.eqb (head_id (m_target m)) a); reflexivity.
Qed.

Lemma last_for_app a l1 l2 :
  last_for a (l1 ++ l2) = match last_for a l2 with Some e => Some e | None => last_for a l1 end.
Proof.
  induction l1 as [|m l1 IH]; simpl.
  - destruct (last_for a l2); reflexivity.
  - rewrite IH. destruct (last_for a l2); reflexivity.
Qed.

(* outermost wins: the arguments that come from outside (enclosing component, extends clause) are
   appended AFTER the declaration's / base class's own (tree.py:305-307, 326-328, 494-497, 545-548) *)
Lemma outermost_wins a inner outer attrs r e :
  apply_args (inner ++ outer) attrs = Ok r -> last_for a outer = Some e -> get_attr a r = Some e.
Proof.
  intros H L. rewrite (apply_args_last a _ _ _ H), last_for_app, L. reflexivity.
Qed.

Lemma inner_when_outer_silent a inner outer attrs r :
  apply_args (inner ++ outer) attrs = Ok r -> last_for a outer = None ->
  get_attr a r = match last_for a inner with Some e => Some e | None => get_attr a attrs end.
Proof.
  intros H L. rewrite (apply_args_last a _ _ _ H), last_for_app, L. reflexivity.
Qed.

(* a VALUE modification keeps the scope of the argument it came from (tree.py:485-490, 533-538) *)
Lemma value_keeps_scope a e :
  In (MExpr e) (m_mods a) -> In (MArg (m_scope a) [aValue] [MExpr e]) (to_symbol_mods a).
Proof.
  intros H. unfold to_symbol_mods. apply in_flat_map. exists (MExpr e). split; [auto | left; reflexivity].
Qed.

(* and an argument is applied only in the class whose full reference equals its scope *)
Lemma applies_scope sc s t m : applies sc (MArg (Some s) t m) = true <-> s = sc.
Proof.
  unfold applies; simpl. split.
  - revert sc; induction s as [|x s IH]; intros [|y sc]; simpl; try congruence.
    rewrite andb_true_iff, Pos.eqb_eq. intros [-> H]. f_equal; auto.
  - intros ->. induction sc; simpl; [reflexivity|]. rewrite Pos.eqb_refl; auto.
Qed.

(* the nested spelling is rejected at every structured component (tree.py:542: child[0] of a
   one-element reference) *)
Lemma nest_rejected sc n m rest ms :
  shift_arg (nest (MArg sc (n :: m :: rest) ms)) = Err IndexErr.
Proof. reflexivity. Qed.

Lemma dotted_accepted sc n m rest ms :
  shift_arg (MArg sc (n :: m :: rest) ms) = Ok (MArg sc (m :: rest) ms).
Proof. reflexivity. Qed.

(* ------------------------------------------------------------------ properties of the SPEC's modifiers *)
From PV Require Import Lib.Inst.

Lemma map_flat_map {A B C} (g : B -> C) (f : A -> list B) l :
  map g (flat_map f l) = flat_map (fun x => map g (f x)) l.
Proof. induction l as [|x l IH]; simpl; [reflexivity|]. rewrite map_app, IH. reflexivity. Qed.

(* the specification does not see the spelling: a.rest(ms) and a(rest(ms)) are the same entries *)
Lemma spec_spelling env a : flat_arg env (nest a) = flat_arg env a.
Proof.
  destruct a as [sc t ms]. destruct t as [|n [|m rest]]; try reflexivity.
  cbn [nest flat_arg flat_map]. rewrite app_nil_r. cbn [flat_map]. rewrite app_nil_r.
  cbn [flat_arg]. rewrite map_flat_map. apply flat_map_ext. intros [e|l].
  - reflexivity.
  - rewrite map_map. apply map_ext. intros [[p e] w]. reflexivity.
Qed.

Lemma find_app {A} (f : A -> bool) l1 l2 :
  find f (l1 ++ l2) = match find f l1 with Some x => Some x | None => find f l2 end.
Proof. induction l1 as [|x l1 IH]; simpl; [reflexivity|]. destruct (f x); [reflexivity | exact IH]. Qed.

(* outermost wins in the specification: entries from outside come first and the first match counts *)
Lemma spec_outermost a outer inner :
  attr_lookup a (outer ++ inner) =
  match attr_lookup a outer with Some x => Some x | None => attr_lookup a inner end.
Proof. unfold attr_lookup. apply find_app. Qed.

(* ------------------------------------------------------------------ apply_args_leaf *)
(* bridge between the model's order and the specification's order at a leaf: the model applies the
   arguments in list order by setattr (the last one naming an attribute wins); the specification looks
   the attribute up in the entries outermost first (the first match wins).  For attribute arguments
   `a = e` — what reaches an elementary symbol in dotted/canonical spelling — the two agree when the
   specification's entries are the model's list reversed. *)
Definition simple_arg (m : marg) : Prop := exists s a e ms, m = MArg s [a] (MExpr e :: ms) /\ a <> aValue.

Definition attr_pred (a : ident) (en : mentry) : bool :=
  match en with (p, _, _) => path_eqb p [a] || (Pos.eqb a aValue && path_eqb p []) end.
Definition entry_expr (en : mentry) : expr := snd (fst en).

Lemma attr_lookup_find a ms : attr_lookup a ms = find (attr_pred a) ms.
Proof. reflexivity. Qed.

Definition entry_of (env : option path) (m : marg) : mentry :=
  match m with MArg _ t (MExpr e :: _) => (t, e, env) | MArg _ t _ => (t, ENum 0, env) end.

Definition simple_arg1 (m : marg) : Prop := exists s a e, m = MArg s [a] [MExpr e].

Lemma flat_arg_simple env m : simple_arg1 m -> flat_arg env m = [entry_of env m].
Proof. intros [s [a [e ->]]]. reflexivity. Qed.

Lemma flat_args_simple env l : Forall simple_arg1 l -> flat_args env l = map (entry_of env) l.
Proof.
  induction 1 as [|m l Hm Hl IH]; [reflexivity|].
  unfold flat_args in *. cbn [flat_map map]. rewrite (flat_arg_simple env m Hm), IH. reflexivity.
Qed.

Lemma last_for_find env a : forall l,
  Forall simple_arg1 l ->
  last_for a l = option_map entry_expr (find (attr_pred a) (rev (map (entry_of env) l))).
Proof.
  induction 1 as [|m l Hm Hl IH]; [reflexivity|].
  cbn [last_for map rev]. rewrite find_app, IH.
  destruct (find (attr_pred a) (rev (map (entry_of env) l))) as [en|]; [reflexivity|].
  destruct Hm as [s [a' [e ->]]].
  cbn [option_map find m_target m_mods head_id entry_of attr_pred path_eqb entry_expr].
  rewrite andb_true_r, andb_false_r, orb_false_r.
  destruct (Pos.eqb a' a); reflexivity.
Qed.

(* the attributes modify_symbol leaves on a symbol = the specification's lookup in the reversed entries *)
Lemma apply_args_leaf env a l r :
  Forall simple_arg1 l -> apply_args l [] = Ok r ->
  get_attr a r = option_map entry_expr (attr_lookup a (rev (flat_args env l))).
Proof.
  intros Hs H. rewrite (apply_args_last a l [] r H), (flat_args_simple env l Hs), attr_lookup_find.
  rewrite <- (last_for_find env a l Hs). destruct (last_for a l); reflexivity.
Qed.

(* ------------------------------------------------------------------ one-level shift = sub-modifiers *)
Lemma flat_map_flat_map {A B C} (f : B -> list C) (g : A -> list B) l :
  flat_map f (flat_map g l) = flat_map (fun x => flat_map f (g x)) l.
Proof. induction l as [|x l IH]; simpl; [reflexivity|]. rewrite flat_map_app, IH. reflexivity. Qed.

Lemma flat_map_singleton {A B} (h : A -> B) l : flat_map (fun x => [h x]) l = map h l.
Proof. induction l as [|x l IH]; simpl; [reflexivity | rewrite IH; reflexivity]. Qed.

(* the model moves a dotted argument n.m.rest(ms) to component n by dropping the first name
   (tree.py:542); the specification takes the sub-modifiers of n: the same entries *)
Lemma sub_mods_shift env sc n m rest ms :
  sub_mods n (flat_arg env (MArg sc (n :: m :: rest) ms)) = flat_arg env (MArg sc (m :: rest) ms).
Proof.
  cbn [flat_arg]. unfold sub_mods. rewrite flat_map_flat_map. apply flat_map_ext. intros [e|l].
  - cbn [flat_map app]. rewrite Pos.eqb_refl. reflexivity.
  - rewrite flat_map_concat_map, map_map. rewrite <- flat_map_concat_map.
    rewrite <- flat_map_singleton. apply flat_map_ext. intros [[p e] w].
    cbn [app]. rewrite Pos.eqb_refl. reflexivity.
Qed.

Lemma sub_mods_other env sc n h t ms :
  Pos.eqb h n = false -> sub_mods n (flat_arg env (MArg sc (h :: t) ms)) = [].
Proof.
  intros N. cbn [flat_arg]. unfold sub_mods. rewrite flat_map_flat_map.
  induction ms as [|[e|l] ms IH]; [reflexivity| |]; cbn [flat_map]; rewrite IH, app_nil_r.
  - cbn [flat_map app]. rewrite N. reflexivity.
  - induction (flat_map (flat_arg env) l) as [|[[p e] w] X IHX]; [reflexivity|].
    cbn [map flat_map app]. rewrite N. exact IHX.
Qed.

(* ------------------------------------------------------------------ conversion at a leaf *)
(* the conversion at an elementary symbol (tree.py:469-492: a value becomes the argument `value = e`, the
   arguments of a class modification are taken as they are) preserves what the specification looks up:
   for an argument aimed at component n, the sub-modifiers of n and the entries of the converted
   arguments give the same expression for every attribute *)
Definition same_entry (x y : mentry) : Prop :=
  entry_expr x = entry_expr y /\ forall a, attr_pred a x = attr_pred a y.

Lemma same_entry_refl x : same_entry x x.
Proof. split; reflexivity. Qed.

Lemma find_same a : forall l1 l2, Forall2 same_entry l1 l2 ->
  option_map entry_expr (find (attr_pred a) l1) = option_map entry_expr (find (attr_pred a) l2).
Proof.
  induction 1 as [|x y l1 l2 [He Hp] F IH]; [reflexivity|]. cbn [find]. rewrite <- (Hp a).
  destruct (attr_pred a x); [cbn [option_map]; rewrite He; reflexivity | exact IH].
Qed.

Lemma Forall2_refl_same l : Forall2 same_entry l l.
Proof. induction l; constructor; [apply same_entry_refl | assumption]. Qed.

Lemma sub_cons n x l : sub_mods n (x :: l) = sub_mods n [x] ++ sub_mods n l.
Proof. unfold sub_mods. cbn [flat_map]. rewrite app_nil_r. reflexivity. Qed.

Lemma sub_pre n l : sub_mods n (map (fun en : mentry => match en with (p, e, w) => ([n] ++ p, e, w) end) l) = l.
Proof.
  induction l as [|[[p e] w] l IH]; [reflexivity|]. cbn [map]. rewrite sub_cons, IH.
  unfold sub_mods. cbn [flat_map app]. rewrite Pos.eqb_refl. reflexivity.
Qed.

Lemma sub_app n l1 l2 : sub_mods n (l1 ++ l2) = sub_mods n l1 ++ sub_mods n l2.
Proof. unfold sub_mods. apply flat_map_app. Qed.

Lemma leaf_conversion env sc n ms a :
  option_map entry_expr (attr_lookup a (sub_mods n (flat_arg env (MArg sc [n] ms)))) =
  option_map entry_expr (attr_lookup a (flat_args env (to_symbol_mods (MArg sc [n] ms)))).
Proof.
  rewrite !attr_lookup_find. apply find_same.
  unfold to_symbol_mods, flat_args. cbn [flat_arg m_mods m_scope].
  induction ms as [|[e|l] ms IH]; [constructor| |]; cbn [flat_map]; rewrite sub_app, flat_map_app;
    (apply Forall2_app; [|exact IH]).
  - unfold sub_mods. cbn [flat_map app flat_arg]. rewrite Pos.eqb_refl. cbn [app].
    constructor; [|constructor]. split; [reflexivity|]. intros a0. cbn [attr_pred path_eqb].
    rewrite ?andb_true_r, ?andb_false_r, ?orb_false_r. cbn [orb]. apply Pos.eqb_sym.
  - rewrite sub_pre. apply Forall2_refl_same.
Qed.

(* ------------------------------------------------------------------ build_leaf_list (attribute level) *)
(* the entries of a converted argument aimed at leaf n are, entry by entry, the specification's sub-modifiers *)
Lemma leaf_entries_same env sc n ms :
  Forall2 same_entry (sub_mods n (flat_arg env (MArg sc [n] ms))) (flat_args env (to_symbol_mods (MArg sc [n] ms))).
Proof.
  unfold to_symbol_mods, flat_args. cbn [flat_arg m_mods m_scope].
  induction ms as [|[e|l] ms IH]; [constructor| |]; cbn [flat_map]; rewrite sub_app, flat_map_app;
    (apply Forall2_app; [|exact IH]).
  - unfold sub_mods. cbn [flat_map app flat_arg]. rewrite Pos.eqb_refl. cbn [app].
    constructor; [|constructor]. split; [reflexivity|]. intros a0. cbn [attr_pred path_eqb].
    rewrite ?andb_true_r, ?andb_false_r, ?orb_false_r. cbn [orb]. apply Pos.eqb_sym.
  - rewrite sub_pre. apply Forall2_refl_same.
Qed.

Lemma leaf_entries_same_list env n : forall l,
  Forall (fun m => m_target m = [n]) l ->
  Forall2 same_entry (sub_mods n (flat_args env l)) (flat_args env (flat_map to_symbol_mods l)).
Proof.
  induction 1 as [|m l Hm Hl IH]; [constructor|].
  unfold flat_args in *. cbn [flat_map]. rewrite sub_app, flat_map_app.
  apply Forall2_app; [|exact IH]. destruct m as [sc t ms]. cbn [m_target] in Hm. subst t.
  apply leaf_entries_same.
Qed.

(* each source names an attribute at most once *)
Definition uniq (l : list marg) : Prop := NoDup (map (fun m => head_id (m_target m)) l).

Lemma last_for_absent a : forall l,
  ~ In a (map (fun m => head_id (m_target m)) l) -> last_for a l = None.
Proof.
  induction l as [|m l IH]; intros H; [reflexivity|]. cbn [last_for map] in *.
  rewrite IH by (intro; apply H; right; assumption).
  destruct (Pos.eqb_spec (head_id (m_target m)) a) as [E|N]; [exfalso; apply H; left; exact E | reflexivity].
Qed.

Lemma last_for_first env a : forall l,
  Forall simple_arg1 l -> uniq l ->
  last_for a l = option_map entry_expr (attr_lookup a (flat_args env l)).
Proof.
  intros l Hs. rewrite (flat_args_simple env l Hs), attr_lookup_find.
  induction Hs as [|m l [s [a' [e ->]]] Hl IH]; intros Hu; [reflexivity|].
  inversion Hu as [|? ? Hn Hu']; subst. cbn [last_for map find entry_of attr_pred m_target m_mods head_id path_eqb] in *.
  rewrite ?andb_true_r, ?andb_false_r, ?orb_false_r.
  destruct (Pos.eqb_spec a' a) as [->|N].
  - rewrite (last_for_absent a l Hn). reflexivity.
  - rewrite (IH Hu'). destruct (find (attr_pred a) (map (entry_of env) l)); reflexivity.
Qed.

(* build_leaf_list, attribute level: the list build_syms puts on an inherited elementary leaf n is
   decl ++ to_symbol_mods(clause args for n) ++ to_symbol_mods(incoming args for n) (tree.py:469-497 with the
   environment of C08_extends_clause_env); applied by setattr in list order it gives, for every attribute,
   what the specification looks up in  sub_mods n (incoming ++ clause entries) ++ declaration entries:
   the incoming (outer) environment wins over the extends clause, the clause over the base's declaration. *)
Theorem extends_leaf_attributes env n a decl clause incoming r :
  Forall (fun m => m_target m = [n]) clause -> Forall (fun m => m_target m = [n]) incoming ->
  Forall simple_arg1 decl -> Forall simple_arg1 (flat_map to_symbol_mods clause) ->
  Forall simple_arg1 (flat_map to_symbol_mods incoming) ->
  uniq decl -> uniq (flat_map to_symbol_mods clause) -> uniq (flat_map to_symbol_mods incoming) ->
  apply_args (decl ++ flat_map to_symbol_mods clause ++ flat_map to_symbol_mods incoming) [] = Ok r ->
  get_attr a r =
  option_map entry_expr
    (attr_lookup a (sub_mods n (flat_args env incoming ++ flat_args env clause) ++ flat_args env decl)).
Proof.
  intros Tc Ti Sd Sc Si Ud Uc Ui H.
  rewrite (apply_args_last a _ [] r H). rewrite !last_for_app.
  rewrite sub_app. rewrite !spec_outermost.
  rewrite (last_for_first env a _ Si Ui), (last_for_first env a _ Sc Uc), (last_for_first env a _ Sd Ud).
  rewrite !attr_lookup_find.
  rewrite <- (find_same a _ _ (leaf_entries_same_list env n incoming Ti)).
  rewrite <- (find_same a _ _ (leaf_entries_same_list env n clause Tc)).
  destruct (find (attr_pred a) (sub_mods n (flat_args env incoming))); [reflexivity|].
  destruct (find (attr_pred a) (sub_mods n (flat_args env clause))); [reflexivity|].
  destruct (find (attr_pred a) (flat_args env decl)); reflexivity.
Qed.

(* the list itself: one step of build_syms on an elementary symbol (tree.py:449-497) — the declaration's own
   arguments, then the converted arguments of the environment that name the symbol, in environment order *)
Lemma build_syms_leaf_list root late rec ebi me myref s ss menv acc :
  mem_id (head_id (s_type s)) BUILTIN = true -> s_name s <> iValueSym ->
  build_syms root late rec ebi me myref (s :: ss) menv [] acc =
  build_syms root late rec ebi me myref ss (filter (fun a => negb (targets (s_name s) a)) menv) []
    (ISym (s_name s) (s_prefixes s) (s_dims s) (TyElem (s_type s))
          (s_mods s ++ flat_map to_symbol_mods (filter (targets (s_name s)) menv)) :: acc).
Proof.
  intros E N. cbn [build_syms]. rewrite E.
  assert (Pos.eqb (s_name s) iValueSym = false) as F by (destruct (Pos.eqb_spec (s_name s) iValueSym); [contradiction | reflexivity]).
  rewrite F. cbn [andb filter flat_map].
  rewrite (filter_ext (fun a => targets (s_name s) a || false) (targets (s_name s))) by (intros; apply orb_false_r).
  rewrite (filter_ext (fun a => negb (targets (s_name s) a || false)) (fun a => negb (targets (s_name s) a)))
    by (intros; rewrite orb_false_r; reflexivity).
  rewrite app_nil_r. reflexivity.
Qed.

Lemma filter_targets_app n (l1 l2 : list marg) :
  flat_map to_symbol_mods (filter (targets n) (l1 ++ l2)) =
  flat_map to_symbol_mods (filter (targets n) l1) ++ flat_map to_symbol_mods (filter (targets n) l2).
Proof. rewrite filter_app, flat_map_app. reflexivity. Qed.
