(* C17 — the canonical map of AliasRelation.add: every member of a class gets the same
   canonical name with a consistent sign. *)
From stdpp Require Import gmap.
From PV Require Import Lib.Closure Model.C17_alias Proofs.C17_alias.

Lemma merged_disjoint (m : amap) a b : inv m → sym m → consistent m → tog b ∉ cls m a →
  ∀ v, v ∈ cls m a ∪ cls m b → tog v ∉ cls m a ∪ cls m b.
Proof.
  intros [Hr Hc] Hs Hcons Hleg v Hv Htv.
  assert (∀ x y, v ∈ cls m x → tog v ∈ cls m y → tog y ∈ cls m x) as Hxy.
  { intros x y Hvx Hvy. rewrite <- (Hc _ _ Hvx).
    assert (v ∈ cls m (tog y)) as H1.
    { rewrite Hs. apply elem_togs. done. }
    rewrite (Hc _ _ H1). apply Hr. }
  apply elem_of_union in Hv as [Hv|Hv]; apply elem_of_union in Htv as [Htv|Htv].
  - apply (Hcons a). by apply (Hxy a a).
  - apply Hleg. by apply (Hxy a b).
  - apply Hleg. pose proof (Hxy b a Hv Htv) as H1.
    assert (a ∈ cls m (tog b)) as H2.
    { rewrite Hs. apply elem_togs. done. }
    rewrite (Hc _ _ H2). apply Hr.
  - apply (Hcons b). by apply (Hxy b b).
Qed.

Lemma cm_fold_lookup (x y : positive * bool) (m : cmapT) (k : svar) (Y : gset svar) :
  (∀ v, v ∈ Y → tog v ∉ Y) →
  let r : cmapT := set_fold (fun v (acc : cmapT) => <[tog v := y]> (<[v := x]> acc)) m Y in
  (k ∈ Y → r !! k = Some x) ∧ (tog k ∈ Y → r !! k = Some y) ∧
  (k ∉ Y → tog k ∉ Y → r !! k = m !! k).
Proof.
  intros Hdisj.
  apply (set_fold_ind_L (fun r X => X ⊆ Y →
     (k ∈ X → r !! k = Some x) ∧ (tog k ∈ X → r !! k = Some y) ∧
     (k ∉ X → tog k ∉ X → r !! k = m !! k))); [|intros z X r Hz IH HX|set_solver].
  - intros _. repeat split; set_solver.
  - cbn beta. destruct IH as (IH1 & IH2 & IH3); [set_solver|].
    assert (Hzy : z ∈ Y) by set_solver.
    repeat split.
    + intros [->%elem_of_singleton|Hk]%elem_of_union.
      * rewrite lookup_insert_ne by (apply tog_ne). by rewrite lookup_insert.
      * destruct (decide (k = tog z)) as [->|Hne2].
        { exfalso. apply (Hdisj z Hzy). set_solver. }
        rewrite lookup_insert_ne by done.
        destruct (decide (k = z)) as [->|Hne]; [by rewrite lookup_insert|].
        rewrite lookup_insert_ne by done. auto.
    + intros [Hk%elem_of_singleton|Hk]%elem_of_union.
      * assert (k = tog z) as -> by (by rewrite <- Hk, tog_tog).
        by rewrite lookup_insert.
      * destruct (decide (k = tog z)) as [->|Hne2]; [by rewrite lookup_insert|].
        rewrite lookup_insert_ne by done.
        destruct (decide (k = z)) as [->|Hne].
        { exfalso. apply (Hdisj (tog z)); [set_solver|]. rewrite tog_tog. done. }
        rewrite lookup_insert_ne by done. auto.
    + intros Hk1 Hk2.
      rewrite lookup_insert_ne.
      * rewrite lookup_insert_ne by set_solver. apply IH3; set_solver.
      * intros <-. apply Hk2. rewrite tog_tog. set_solver.
Qed.

(* what canonical_signed must satisfy *)
Definition flipc (c : positive * bool) : positive * bool := (c.1, negb c.2).
Definition canon_ok (r : rel) : Prop :=
  (∀ k, ((canon (cm r) k).2, (canon (cm r) k).1) ∈ cls (al r) k) ∧
  (∀ k v, v ∈ cls (al r) k → canon (cm r) v = canon (cm r) k) ∧
  (∀ k, canon (cm r) (tog k) = flipc (canon (cm r) k)).

Definition al_ok (r : rel) : Prop := inv (al r) ∧ sym (al r) ∧ consistent (al r).

Lemma canon_ok_empty : canon_ok empty_rel.
Proof.
  split; [|split].
  - intros k. unfold canon, cls. cbn. rewrite !lookup_empty. cbn. destruct k. set_solver.
  - intros k v. unfold cls. cbn. rewrite lookup_empty. cbn. intros ->%elem_of_singleton. done.
  - intros k. unfold canon. cbn. rewrite !lookup_empty. destruct k as [[] p]; reflexivity.
Qed.

Lemma canon_add (r : rel) (a b k : svar) :
  al_ok r → tog b ∉ cls (al r) a → b ∉ cls (al r) a →
  canon (cm (add r a b)) k =
    if decide (k ∈ cls (al r) a ∪ cls (al r) b) then canon (cm r) a
    else if decide (tog k ∈ cls (al r) a ∪ cls (al r) b) then flipc (canon (cm r) a)
    else canon (cm r) k.
Proof.
  intros (Hi & Hs & Hc) Hleg Hnb. unfold add.
  rewrite decide_False by done.
  destruct (canon (cm r) a) as [ca sa] eqn:Ea. destruct (canon (cm r) b) as [cb sb] eqn:Eb.
  cbn [cm].
  assert (HA : cls (add_al (al r) a b) a = cls (al r) a ∪ cls (al r) b).
  { rewrite cls_add_al by done. rewrite decide_True; [done|]. destruct Hi as [Hr _]. apply elem_of_union_l, Hr. }
  rewrite HA.
  pose proof (merged_disjoint _ a b Hi Hs Hc Hleg) as Hdisj.
  destruct (cm_fold_lookup (ca, sa) (ca, negb sa) (cm r) k _ Hdisj) as (H1 & H2 & H3).
  unfold canon at 1.
  case_decide as Hk; [by rewrite H1|].
  case_decide as Htk; [by rewrite H2|].
  rewrite H3 by done. reflexivity.
Qed.

Lemma add_same (r : rel) a b : b ∈ cls (al r) a → add r a b = r.
Proof. intros H. unfold add. by rewrite decide_True. Qed.

Lemma al_add (r : rel) a b : al (add r a b) = add_al (al r) a b.
Proof.
  unfold add, add_al. case_decide; [done|].
  destruct (canon (cm r) a), (canon (cm r) b). reflexivity.
Qed.

Lemma add_al_ok r a b : al_ok r → tog b ∉ cls (al r) a → al_ok (add r a b).
Proof.
  intros (Hi & Hs & Hc) Hl. unfold al_ok. rewrite al_add.
  split; [by apply add_al_inv|split; [by apply add_al_sym|by apply add_al_consistent]].
Qed.

Lemma add_canon_ok r a b : al_ok r → canon_ok r → tog b ∉ cls (al r) a → canon_ok (add r a b).
Proof.
  intros Hal (C1 & C2 & C3) Hleg.
  destruct (decide (b ∈ cls (al r) a)) as [Hb|Hb]; [rewrite add_same by done; done|].
  pose proof Hal as (Hi & Hs & Hc). pose proof Hi as [Hr Hcl].
  pose proof (merged_disjoint _ a b Hi Hs Hc Hleg) as Hdisj.
  set (A' := cls (al r) a ∪ cls (al r) b) in *.
  assert (Hmem : ∀ x, x ∈ cls (al r) (tog a) ∪ cls (al r) (tog b) ↔ tog x ∈ A').
  { intros x. unfold A'. rewrite !elem_of_union, !Hs, !elem_togs. done. }
  assert (Hclosed : ∀ k v, v ∈ cls (al r) k → v ∈ A' → k ∈ A').
  { intros k v Hv [HvA|HvA]%elem_of_union.
    - apply elem_of_union_l. rewrite <- (Hcl _ _ HvA). rewrite (Hcl _ _ Hv). apply Hr.
    - apply elem_of_union_r. rewrite <- (Hcl _ _ HvA). rewrite (Hcl _ _ Hv). apply Hr. }
  assert (Hsymcl : ∀ k v, v ∈ cls (al r) k → tog v ∈ cls (al r) (tog k)).
  { intros k v Hv. rewrite Hs. apply elem_togs. by rewrite tog_tog. }
  repeat split.
  - intros k. rewrite canon_add by done. rewrite al_add, cls_add_al by done. fold A'.
    case_decide as Hk.
    + apply elem_of_union_l. apply C1.
    + case_decide as Htk; [|apply C1].
      apply Hmem. unfold flipc. cbn. apply elem_of_union_l.
      replace (tog (negb (canon (cm r) a).2, (canon (cm r) a).1)) with (((canon (cm r) a).2, (canon (cm r) a).1)).
      * apply C1.
      * unfold tog. cbn. by rewrite negb_involutive.
  - intros k v. rewrite !canon_add by done. rewrite al_add, cls_add_al by done. fold A'.
    case_decide as Hk.
    + intros Hv. by rewrite decide_True.
    + case_decide as Htk.
      * intros Hv%Hmem. rewrite decide_False; [by rewrite decide_True|].
        intros Hv2. apply (Hdisj v Hv2 Hv).
      * intros Hv. rewrite decide_False by (intros Hv2; apply Hk; by apply (Hclosed k v)).
        rewrite decide_False; [by apply C2|].
        intros Hv2. apply Htk. apply (Hclosed (tog k) (tog v)); [by apply Hsymcl|done].
  - intros k. rewrite !canon_add by done. fold A'. rewrite tog_tog.
    destruct (decide (k ∈ A')) as [Hk|Hk]; destruct (decide (tog k ∈ A')) as [Htk|Htk].
    + exfalso. by apply (Hdisj k).
    + done.
    + unfold flipc. cbn. rewrite negb_involutive. by destruct (canon (cm r) a).
    + apply C3.
Qed.

(* every legal add-history keeps both invariants *)
Fixpoint legalR (P : list (svar * svar)) (r : rel) : Prop :=
  match P with
  | [] => True
  | (a, b) :: P' => tog b ∉ cls (al r) a ∧ legalR P' (add r a b)
  end.
Definition runR (P : list (svar * svar)) (r : rel) : rel := fold_left (fun r '(a, b) => add r a b) P r.

Lemma al_ok_empty : al_ok empty_rel.
Proof. split; [apply inv_empty|split; [apply sym_empty|apply consistent_empty]]. Qed.

Lemma runR_ok P : ∀ r, al_ok r → canon_ok r → legalR P r → al_ok (runR P r) ∧ canon_ok (runR P r).
Proof.
  induction P as [|[a b] P IH]; intros r H1 H2 Hl; [done|].
  destruct Hl as [Hl1 Hl2]. cbn [runR fold_left]. apply IH; [by apply add_al_ok|by apply add_canon_ok|done].
Qed.

Lemma runR_al P : ∀ r, al (runR P r) = fold_left (fun m '(a, b) => add_al m a b) P (al r).
Proof.
  induction P as [|[a b] P IH]; intros r; [done|]. cbn [runR fold_left]. rewrite <- al_add. apply IH.
Qed.

Lemma legalR_legal P : ∀ r, legalR P r → legal P (al r).
Proof.
  induction P as [|[a b] P IH]; intros r; [done|]. intros [H1 H2]. split; [done|]. rewrite <- al_add. by apply IH.
Qed.

(* same class => same canonical name and sign; mirrored class => same name, opposite sign *)
Theorem canonical_consistent P k v : legalR P empty_rel →
  let r := runR P empty_rel in
  (v ∈ q_aliases r k → q_canon r v = q_canon r k) ∧
  (tog v ∈ q_aliases r k → q_canon r v = flipc (q_canon r k)) ∧
  ((q_canon r k).2, (q_canon r k).1) ∈ q_aliases r k.
Proof.
  intros Hl r. destruct (runR_ok P empty_rel al_ok_empty canon_ok_empty Hl) as [_ (C1 & C2 & C3)].
  fold r in C1, C2, C3. unfold q_canon, q_aliases. split; [|split].
  - apply C2.
  - intros Hv. rewrite <- (tog_tog v), C3. f_equal. by apply C2.
  - apply C1.
Qed.

Theorem aliases_closure_rel P k v : legalR P empty_rel →
  v ∈ q_aliases (runR P empty_rel) k ↔ eqv (dbl P) k v.
Proof.
  intros Hl. unfold q_aliases. rewrite runR_al. apply (aliases_is_signed_closure P k v).
  by apply (legalR_legal P empty_rel).
Qed.
