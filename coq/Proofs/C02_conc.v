(* C02 — proofs over Model/C02_conc.v: the safety invariant for well-moded programs. *)
From Coq Require Import List Bool Arith Lia.
From PV Require Import Lib.Lock Model.C02_conc.
Import ListNotations.

(* ---------- small list facts ---------- *)
Lemma length_upd_nth {A} n (x : A) l : length (upd_nth n x l) = length l.
Proof. revert n; induction l; intros [|n]; simpl; auto. Qed.

Lemma Forall_upd_nth {A} (P : A -> Prop) n x l : P x -> Forall P l -> Forall P (upd_nth n x l).
Proof.
  intros Hx H. revert n. induction H; intros [|n]; simpl; constructor; auto.
Qed.

Lemma nth_error_Forall {A} (P : A -> Prop) l n x : Forall P l -> nth_error l n = Some x -> P x.
Proof. intros H. revert n. induction H; intros [|n]; simpl; intros E; try discriminate; [inversion E; subst; auto|eauto]. Qed.

Definition nonnone (x : option db) : Prop := x <> None.

Lemma content_some c g : g < length (c_store c) -> Forall nonnone (c_store c) -> exists d, content c g = Some d.
Proof.
  intros Hl Hf. unfold content. destruct (nth_error (c_store c) g) as [o|] eqn:E.
  - pose proof (nth_error_Forall _ _ _ _ Hf E) as Hn. destruct o; [eauto|congruence].
  - apply nth_error_None in E. lia.
Qed.

(* ---------- typing facts ---------- *)
Lemma mode_eqb_eq a b : mode_eqb a b = true -> a = b.
Proof. destruct a, b; simpl; congruence. Qed.

Lemma ty_i_if c th el a :
  ty_i (IIf c th el) a =
  if is_cifail c then ty el a
  else match ty th a, ty el a with
       | Some x, Some y => if mode_eqb x y then Some x else None
       | _, _ => None
       end.
Proof. reflexivity. Qed.

Lemma ty_app l1 l2 a : ty (l1 ++ l2) a = match ty l1 a with Some a1 => ty l2 a1 | None => None end.
Proof.
  revert a. induction l1 as [|x l1 IH]; intros a; [reflexivity|].
  cbn [app ty]. destruct (ty_i x a); auto.
Qed.

(* ---------- the invariant ---------- *)
Definition has_mode (t : thr) (a : mode) : Prop :=
  match a with
  | MClosed => t_conn t = None /\ t_intx t = false /\ t_lvl t = Unl
  | MN => t_conn t <> None /\ t_intx t = false /\ t_lvl t = Unl
  | MD0 => t_conn t <> None /\ t_intx t = true /\ t_lvl t = Unl
  | MD1 => t_conn t <> None /\ t_intx t = true /\ t_lvl t = Sh
  | MW => t_conn t <> None /\ t_intx t = true /\ geb (t_lvl t) Res = true
  end.

Definition live (len : nat) (t : thr) : Prop :=
  t_ifail t = false /\ (forall g, t_conn t = Some g -> g < len) /\
  exists a r, has_mode t a /\ ty (t_k t) a = Some r.

Definition tinv (len : nat) (t : thr) : Prop :=
  match t_st t with
  | Run => live len t
  | Fin => t_conn t = None
  | Err e => e = ESchema /\ t_conn t = None
  end.

Definition inv (c : cfg) : Prop :=
  Forall nonnone (c_store c) /\
  (exists g, c_path c = Some g /\ g < length (c_store c)) /\
  c_viol c = false /\
  Forall (tinv (length (c_store c))) (c_thrs c).

(* advance keeps a live thread live (or finishes it) *)
Lemma advance_f_inv len n : forall k t a r,
  t_st t = Run -> t_ifail t = false -> (forall g, t_conn t = Some g -> g < len) ->
  has_mode t a -> ty k a = Some r -> tinv len (advance_f n k t).
Proof.
  induction n as [|n IH]; intros k t a r Hst Hif Hc Hm Hty.
  - destruct k as [|[s|c th el] k']; cbn [advance_f].
    + unfold tinv; reflexivity.
    + assert (G : tinv len (set_k t (IS s :: k'))).
      { unfold tinv. cbn. rewrite Hst. split; [exact Hif|]. split; [exact Hc|]. exists a, r. split; [destruct a; exact Hm|exact Hty]. }
      destruct s; exact G.
    + unfold tinv. cbn. rewrite Hst. split; [exact Hif|]. split; [exact Hc|]. exists a, r. split; [destruct a; exact Hm|exact Hty].
  - destruct k as [|[s|c th el] k']; cbn [advance_f].
    + unfold tinv; reflexivity.
    + assert (G : tinv len (set_k t (IS s :: k'))).
      { unfold tinv. cbn. rewrite Hst. split; [exact Hif|]. split; [exact Hc|]. exists a, r. split; [destruct a; exact Hm|exact Hty]. }
      destruct s; try exact G.
      (* SSet *)
      cbn [ty ty_i] in Hty. cbn [check trm] in Hty.
      apply (IH k' (set_reg t r0 b) a r); auto; destruct a; exact Hm.
    + cbn [ty] in Hty. rewrite ty_i_if in Hty.
      destruct (is_cifail c) eqn:Ec.
      * destruct c; try discriminate Ec. cbn [cond_val]. rewrite Hif.
        apply (IH (el ++ k') t a r); auto.
        rewrite ty_app. destruct (ty el a); [exact Hty|discriminate].
      * destruct (ty th a) as [x|] eqn:E1; [|discriminate].
        destruct (ty el a) as [y|] eqn:E2; [|discriminate].
        destruct (mode_eqb x y) eqn:E3; [|discriminate]. apply mode_eqb_eq in E3. subst y.
        apply (IH ((if cond_val t c then th else el) ++ k') t a r); auto.
        rewrite ty_app. destruct (cond_val t c); [rewrite E1|rewrite E2]; exact Hty.
Qed.

Lemma advance_inv len k t a r :
  t_st t = Run -> t_ifail t = false -> (forall g, t_conn t = Some g -> g < len) ->
  has_mode t a -> ty k a = Some r -> tinv len (advance k t).
Proof. apply advance_f_inv. Qed.

(* one attempt of a statement by a live thread *)
Definition exec_post (c : cfg) (t : thr) (s : stmt) (k' : prog) (a : mode) (r : res) : Prop :=
  r_path r = c_path c /\ length (r_store r) = length (c_store c) /\ Forall nonnone (r_store r) /\
  r_viol r = c_viol c /\
  match t_st (r_thr r) with
  | Run => t_ifail (r_thr r) = false /\
           (forall g, t_conn (r_thr r) = Some g -> g < length (c_store c)) /\
           ((r_out r = OBlocked /\ has_mode (r_thr r) a /\ t_k (r_thr r) = IS s :: k') \/
            (r_out r <> OBlocked /\ has_mode (r_thr r) (trm s a) /\ t_k (r_thr r) = k'))
  | Fin => False
  | Err e => e = ESchema /\ t_conn (r_thr r) = None
  end.

Ltac brk :=
  repeat (cbn; match goal with
  | |- context [match ?x with _ => _ end] =>
      match x with
      | context [match _ with _ => _ end] => fail 1
      | _ => destruct x eqn:?
      end
  end).

Lemma apply_wr_err x w d e : apply_wr x w d = inr e -> e = ESchema \/ (w = WInsert false).
Proof.
  destruct w as [[]|[]| | | | |rep]; cbn; intros H;
    repeat match type of H with context [if ?b then _ else _] => destruct b end;
    try discriminate; try (inversion H; auto).
Qed.

Lemma read_val_err x r d e : read_val x r d = inr e -> e = ESchema.
Proof. destruct r; cbn; intros H; try discriminate; destruct (is_good (d_models d)); try discriminate; inversion H; auto. Qed.

Lemma exec_inv c tid t s k' a :
  Forall nonnone (c_store c) ->
  (exists g, c_path c = Some g /\ g < length (c_store c)) ->
  t_st t = Run -> t_ifail t = false -> (forall g, t_conn t = Some g -> g < length (c_store c)) ->
  has_mode t a -> t_k t = IS s :: k' -> check s a = true ->
  exec_post c t s k' a (exec c tid t s).
Proof.
  intros Hnn (g0 & Hp & Hg0) Hst Hif Hcb Hm Hk Hck.
  destruct t as [k conn l ix v regs ifl par st]. cbn in Hst, Hif, Hcb, Hk. subst st ifl k.
  assert (Hupd : forall g d, Forall nonnone (upd_nth g (Some d) (c_store c))).
  { intros. apply Forall_upd_nth; [unfold nonnone; congruence|exact Hnn]. }
  destruct conn as [g|].
  2:{ (* closed *)
      destruct a; cbn in Hm; destruct Hm as (Hc & Hi & Hl); try congruence. subst ix l.
      destruct s; cbn in Hck; try discriminate; unfold exec_post, exec; cbn; rewrite Hp; cbn;
        (repeat split; auto; try (intros ? E; inversion E; subst; auto); right; repeat split; auto; try discriminate; congruence). }
  assert (Hg : g < length (c_store c)) by (apply Hcb; reflexivity).
  destruct (content_some c g Hg Hnn) as (d & Hd).
  destruct a; cbn in Hm; destruct Hm as (Hc & Hi & Hl); try congruence; subst ix.
  - (* MN *) subst l.
    destruct s as [|h| |[]|rd dst|w| | |r b]; cbn in Hck; try discriminate; unfold exec_post, exec, mk; cbn;
      rewrite ?Hp, ?Hd; cbn.
    all: try (repeat split; auto; try (intros ? E; inversion E; subst; auto); right; repeat split; auto; try discriminate; congruence).
    all: unfold acquire; cbn.
    all: brk; cbn; rewrite ?length_upd_nth.
    all: try (repeat split; auto; try (intros ? E; inversion E; subst; auto);
              first [ right; repeat split; auto; try discriminate; congruence
                    | left; repeat split; auto; try discriminate; congruence ]).
    all: try (match goal with H : read_val _ _ _ = inr _ |- _ => apply read_val_err in H; subst end; repeat split; auto).
    all: try (match goal with H : apply_wr _ _ _ = inr _ |- _ => apply apply_wr_err in H; destruct H as [H|H]; subst; cbn in Hck; try discriminate end; repeat split; auto).
    all: try congruence.
    all: try (cbn in Hck; discriminate).
  - (* MD0 *) subst l.
    destruct s as [|h| |[]|rd dst|w| | |r b]; cbn in Hck; try discriminate; unfold exec_post, exec, mk; cbn;
      rewrite ?Hp, ?Hd; cbn.
    all: try (repeat split; auto; try (intros ? E; inversion E; subst; auto); right; repeat split; auto; try discriminate; congruence).
    all: unfold acquire; cbn.
    all: brk; cbn; rewrite ?length_upd_nth.
    all: try (repeat split; auto; try (intros ? E; inversion E; subst; auto);
              first [ right; repeat split; auto; try discriminate; congruence
                    | left; repeat split; auto; try discriminate; congruence ]).
    all: try (match goal with H : read_val _ _ _ = inr _ |- _ => apply read_val_err in H; subst end; repeat split; auto).
    all: try (match goal with H : apply_wr _ _ _ = inr _ |- _ => apply apply_wr_err in H; destruct H as [H|H]; subst; cbn in Hck; try discriminate end; repeat split; auto).
    all: try congruence.
    all: try (cbn in Hck; discriminate).
  - (* MD1 *) subst l.
    destruct s as [|h| |[]|rd dst|w| | |r b]; cbn in Hck; try discriminate; unfold exec_post, exec, mk; cbn;
      rewrite ?Hp, ?Hd; cbn.
    all: try (repeat split; auto; try (intros ? E; inversion E; subst; auto); right; repeat split; auto; try discriminate; congruence).
    all: unfold acquire; cbn.
    all: brk; cbn; rewrite ?length_upd_nth.
    all: try (repeat split; auto; try (intros ? E; inversion E; subst; auto);
              first [ right; repeat split; auto; try discriminate; congruence
                    | left; repeat split; auto; try discriminate; congruence ]).
    all: try (match goal with H : read_val _ _ _ = inr _ |- _ => apply read_val_err in H; subst end; repeat split; auto).
    all: try (match goal with H : apply_wr _ _ _ = inr _ |- _ => apply apply_wr_err in H; destruct H as [H|H]; subst; cbn in Hck; try discriminate end; repeat split; auto).
    all: try congruence.
    all: try (cbn in Hck; discriminate).
  - (* MW *)
    destruct l; cbn in Hl; try discriminate.
    all: destruct s as [|h| |[]|rd dst|w| | |r b]; cbn in Hck; try discriminate; unfold exec_post, exec, mk; cbn;
      rewrite ?Hp, ?Hd; cbn.
    all: try (repeat split; auto; try (intros ? E; inversion E; subst; auto); right; repeat split; auto; try discriminate; congruence).
    all: unfold acquire; cbn.
    all: brk; cbn; rewrite ?length_upd_nth.
    all: try (repeat split; auto; try (intros ? E; inversion E; subst; auto);
              first [ right; repeat split; auto; try discriminate; congruence
                    | left; repeat split; auto; try discriminate; congruence ]).
    all: try (match goal with H : read_val _ _ _ = inr _ |- _ => apply read_val_err in H; subst end; repeat split; auto).
    all: try (match goal with H : apply_wr _ _ _ = inr _ |- _ => apply apply_wr_err in H; destruct H as [H|H]; subst; cbn in Hck; try discriminate end; repeat split; auto).
    all: try congruence.
    all: try (cbn in Hck; discriminate).
Qed.

Lemma tinv_of_nth len ts tid t : Forall (tinv len) ts -> nth_error ts tid = Some t -> tinv len t.
Proof. apply nth_error_Forall. Qed.

Lemma step_inv tid c :
  inv c ->
  inv (fst (step tid c)) /\ c_path (fst (step tid c)) = c_path c /\
  length (c_store (fst (step tid c))) = length (c_store c).
Proof.
  intros (Hnn & Hp & Hv & Hts). unfold step.
  destruct (nth_error (c_thrs c) tid) as [t|] eqn:En; [|cbn; repeat split; auto].
  pose proof (tinv_of_nth _ _ _ _ Hts En) as Ht. unfold tinv in Ht.
  destruct (t_st t) eqn:Est; [|cbn; repeat split; auto..].
  destruct Ht as (Hif & Hcb & a & r & Hm & Hty).
  destruct (t_k t) as [|[s|cc th el] k'] eqn:Ek; [cbn; repeat split; auto| |].
  - (* a statement *)
    cbn [ty ty_i] in Hty. destruct (check s a) eqn:Hck; [|discriminate].
    pose proof (exec_inv c tid t s k' a Hnn Hp Est Hif Hcb Hm Ek Hck) as P.
    destruct (exec c tid t s) as [t1 pa sto vi out]. unfold exec_post in P. cbn in P.
    destruct P as (P1 & P2 & P3 & P4 & P5). cbn [fst c_path c_store]. subst pa.
    split; [|split; auto].
    unfold inv. cbn. rewrite P2. split; [exact P3|]. split; [exact Hp|]. split; [congruence|].
    apply Forall_upd_nth; [|exact Hts].
    destruct (t_st t1) eqn:E1.
    + destruct P5 as (Q1 & Q2 & [(Q3 & Q4 & Q5)|(Q3 & Q4 & Q5)]).
      * subst out. unfold tinv. rewrite E1. split; [exact Q1|]. split; [exact Q2|].
        exists a, r. split; [exact Q4|]. rewrite Q5. cbn [ty ty_i]. rewrite Hck. exact Hty.
      * assert (G : tinv (length (c_store c)) (advance (t_k t1) t1)).
        { apply (advance_inv _ _ _ (trm s a) r); auto. rewrite Q5. exact Hty. }
        destruct out; try exact G. congruence.
    + destruct P5.
    + unfold tinv. rewrite E1. exact P5.
  - (* an unresolved `if` (only when the fuel of advance ran out) *)
    assert (G : tinv (length (c_store c)) (advance (IIf cc th el :: k') t)).
    { apply (advance_inv _ _ _ a r); auto. }
    remember (advance (IIf cc th el :: k') t) as t' eqn:Et'. clear Et'.
    cbn [fst c_path c_store]. split; [|split; auto].
    unfold inv. cbn. split; [exact Hnn|]. split; [exact Hp|]. split; [exact Hv|].
    apply Forall_upd_nth; [exact G|exact Hts].
Qed.

Lemma run_inv sched : forall c,
  inv c ->
  inv (fst (run sched c)) /\ c_path (fst (run sched c)) = c_path c /\
  length (c_store (fst (run sched c))) = length (c_store c).
Proof.
  induction sched as [|tid sched IH]; intros c H; [cbn; auto|].
  cbn [run]. pose proof (step_inv tid c H) as (H1 & H2 & H3).
  destruct (step tid c) as [c1 o]. cbn [fst] in *.
  pose proof (IH c1 H1) as (G1 & G2 & G3).
  destruct (run sched c1) as [c2 os]. cbn [fst] in *.
  split; [exact G1|]. split; congruence.
Qed.

Lemma init_inv p d0 pars : side_ok p = true -> inv (init_cfg p (Some d0) pars).
Proof.
  intros Hs. unfold side_ok in Hs. destruct (ty p MClosed) as [r|] eqn:Ety; [|discriminate].
  unfold inv, init_cfg. cbn.
  split; [constructor; [unfold nonnone; congruence|constructor]|].
  split; [exists 0; split; [reflexivity|lia]|]. split; [reflexivity|].
  induction pars as [|par pars IH]; cbn; constructor; [|exact IH].
  unfold new_thr. apply (advance_inv _ _ _ MClosed r); cbn; auto.
  intros g E; discriminate.
Qed.

(* The safety theorem: a well-moded program, any database that is not garbage, any number of
   calls with any parameters, any schedule of any length. *)
Theorem safe p d0 pars sched :
  side_ok p = true ->
  let c := fst (run sched (init_cfg p (Some d0) pars)) in
  c_viol c = false /\ c_path c = Some 0 /\ length (c_store c) = 1 /\
  (forall t, In t (c_thrs c) -> forall e, t_st t = Err e -> e = ESchema).
Proof.
  intros Hs c. pose proof (run_inv sched _ (init_inv p d0 pars Hs)) as ((Hnn & Hp & Hv & Hts) & G2 & G3).
  fold c in Hnn, Hp, Hv, Hts, G2, G3.
  split; [exact Hv|]. split; [exact G2|]. split; [exact G3|].
  intros t Hin e He. rewrite Forall_forall in Hts. specialize (Hts t Hin). unfold tinv in Hts.
  rewrite He in Hts. exact (proj1 Hts).
Qed.

Lemma side_ok_head : side_ok prog_head = true.
Proof. vm_compute. reflexivity. Qed.
