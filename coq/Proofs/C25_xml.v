(* C25 — proofs about Model/C25_xml.v: the decoder is a left inverse of the generator on the
   normalised flat tree (structural induction, unbounded). *)
From Coq Require Import String List Bool Arith.
From PV Require Import Model.C25_xml.
Import ListNotations.
Open Scope string_scope.
Open Scope list_scope.

(* ---- nested induction principles ---- *)
Section ExprInd.
  Variable P : expr -> Prop.
  Hypothesis HRef : forall n, P (Ref n).
  Hypothesis HLit : forall k t, P (Lit k t).
  Hypothesis HOp : forall o args, Forall P args -> P (Op o args).
  Fixpoint expr_ind' (e : expr) : P e :=
    match e with
    | Ref n => HRef n
    | Lit k t => HLit k t
    | Op o args =>
        HOp o args ((fix go (l : list expr) : Forall P l :=
                       match l with
                       | [] => Forall_nil P
                       | a :: r => Forall_cons a (expr_ind' a) (go r)
                       end) args)
    end.
End ExprInd.

Section EqnInd.
  Variable P : eqn -> Prop.
  Hypothesis HEqual : forall l r, P (Equal l r).
  Hypothesis HDecl : forall s r, P (DeclEq s r).
  Hypothesis HFun : forall f args, P (FunEq f args).
  Hypothesis HWhen : forall c body, Forall P body -> P (When c body).
  Fixpoint eqn_ind' (q : eqn) : P q :=
    match q with
    | Equal l r => HEqual l r
    | DeclEq s r => HDecl s r
    | FunEq f args => HFun f args
    | When c body =>
        HWhen c body ((fix go (l : list eqn) : Forall P l :=
                         match l with
                         | [] => Forall_nil P
                         | a :: r => Forall_cons a (eqn_ind' a) (go r)
                         end) body)
    end.
End EqnInd.

Lemma mapM_cons {A B} (f : A -> option B) (a : A) (r : list A) :
  mapM f (a :: r) = match f a, mapM f r with Some b, Some bs => Some (b :: bs) | _, _ => None end.
Proof. reflexivity. Qed.

Lemma mapM_map {A B C} (f : B -> option C) (g : A -> B) (h : A -> C) (l : list A) :
  Forall (fun a => f (g a) = Some (h a)) l -> mapM f (map g l) = Some (map h l).
Proof.
  induction 1 as [|a r Ha _ IH]; [reflexivity|].
  cbn [map]. rewrite mapM_cons, Ha, IH. reflexivity.
Qed.

(* unfolding equations of the decoders (by computation on the concrete tag names) *)
Lemma unexpr_operator o ch :
  unexpr (Node T_operator [(A_name, o)] ch) =
  match mapM unexpr ch with Some [e] => Some (Op o [e]) | _ => None end.
Proof. reflexivity. Qed.
Lemma unexpr_apply o ch :
  unexpr (Node T_apply [(A_builtin, o)] ch) =
  match mapM unexpr ch with Some [_] => None | Some es => Some (Op o es) | None => None end.
Proof. reflexivity. Qed.
Lemma uneqn_equal l r :
  uneqn (Node T_equal [] [l; r]) =
  match unexpr l, unexpr r with Some a, Some b => Some (Equal a b) | _, _ => None end.
Proof. reflexivity. Qed.
Lemma uneqn_apply f ch :
  uneqn (Node T_apply [(A_builtin, f)] ch) =
  match mapM unexpr ch with Some es => Some (FunEq f es) | None => None end.
Proof. reflexivity. Qed.
Lemma uneqn_when c body :
  uneqn (Node T_when [] [Node T_cond [] [c]; Node T_then [] body]) =
  match unexpr c, mapM uneqn body with Some c', Some b' => Some (When c' b') | _, _ => None end.
Proof. reflexivity. Qed.
Lemma unbody_last E :
  unbody [Node T_equation [] E] = match mapM uneqn E with Some es => Some ([], es) | None => None end.
Proof. reflexivity. Qed.
Lemma unbody_cons x y ys :
  unbody (x :: y :: ys) =
  match unsym x, unbody (y :: ys) with Some s, Some (ss, es) => Some (s :: ss, es) | _, _ => None end.
Proof. reflexivity. Qed.
Lemma uncls_unfold n body :
  uncls (Node T_classDefinition [(A_name, n)] [Node T_class [(A_kind, V_model)] body]) =
  match unbody body with Some (ss, es) => Some (Cls n ss es) | None => None end.
Proof. reflexivity. Qed.
Lemma unxml_unfold cs :
  unxml (Node T_modelica [(A_format, V_format)] [Node T_declarations [] cs]) = mapM uncls cs.
Proof. reflexivity. Qed.

(* ---- expressions ---- *)
Lemma unexpr_gen (e : expr) : unexpr (gen_expr e) = Some (norm_expr e).
Proof.
  induction e as [n|k t|o args IH] using expr_ind'; try reflexivity.
  pose proof (mapM_map unexpr gen_expr norm_expr args IH) as HM.
  destruct args as [|a [|b r]].
  - reflexivity.
  - change (gen_expr (Op o [a])) with (Node T_operator [(A_name, o)] (map gen_expr [a])).
    rewrite unexpr_operator, HM. reflexivity.
  - change (gen_expr (Op o (a :: b :: r))) with (Node T_apply [(A_builtin, o)] (map gen_expr (a :: b :: r))).
    rewrite unexpr_apply, HM. reflexivity.
Qed.

Lemma unexpr_gen_list (l : list expr) : mapM unexpr (map gen_expr l) = Some (map norm_expr l).
Proof. apply mapM_map. apply Forall_forall. intros e _. apply unexpr_gen. Qed.

(* ---- equations ---- *)
Lemma existsb_false_Forall {A} (f : A -> bool) (l : list A) :
  existsb f l = false -> Forall (fun a => f a = false) l.
Proof.
  induction l as [|a r IH]; simpl; intros H; constructor.
  - apply orb_false_iff in H. apply H.
  - apply IH. apply orb_false_iff in H. apply H.
Qed.

Lemma uneqn_gen (mv : bool) (q : eqn) :
  (mv = true -> has_decl q = false) -> uneqn (gen_eqn mv q) = Some (norm_eqn q).
Proof.
  induction q as [l r|s r|f args|c body IH] using eqn_ind'; intros Hs.
  - change (gen_eqn mv (Equal l r)) with (Node T_equal [] [gen_expr l; gen_expr r]).
    rewrite uneqn_equal, !unexpr_gen. reflexivity.
  - destruct mv.
    + specialize (Hs eq_refl). discriminate Hs.
    + change (gen_eqn false (DeclEq s r)) with (Node T_equal [] [gen_expr (Ref s); gen_expr r]).
      rewrite uneqn_equal, !unexpr_gen. reflexivity.
  - change (gen_eqn mv (FunEq f args)) with (Node T_apply [(A_builtin, f)] (map gen_expr args)).
    rewrite uneqn_apply, unexpr_gen_list. reflexivity.
  - change (gen_eqn mv (When c body))
      with (Node T_when [] [Node T_cond [] [gen_expr c]; Node T_then [] (map (gen_eqn mv) body)]).
    rewrite uneqn_when, unexpr_gen.
    assert (HM : mapM uneqn (map (gen_eqn mv) body) = Some (map norm_eqn body)).
    { apply mapM_map. apply Forall_forall. intros q Hq.
      rewrite Forall_forall in IH. apply IH; [exact Hq|].
      intros Hmv. specialize (Hs Hmv). cbn [has_decl] in Hs.
      apply existsb_false_Forall in Hs. rewrite Forall_forall in Hs. apply Hs. exact Hq. }
    rewrite HM. reflexivity.
Qed.

Lemma uneqn_gen_list (mv : bool) (l : list eqn) :
  (mv = true -> existsb has_decl l = false) ->
  mapM uneqn (map (gen_eqn mv) l) = Some (map norm_eqn l).
Proof.
  intros Hs. apply mapM_map. apply Forall_forall. intros q Hq. apply uneqn_gen.
  intros Hmv. specialize (Hs Hmv). apply existsb_false_Forall in Hs.
  rewrite Forall_forall in Hs. apply Hs. exact Hq.
Qed.

(* ---- symbols ---- *)
Lemma unsym_gen (s : sym) : unsym (gen_sym s) = Some (norm_sym s).
Proof.
  destruct s as [n ty p st va fx]. unfold gen_sym, norm_sym, variability. cbn [s_name s_type s_prefixes s_start s_value s_fixed].
  destruct (first_in variabilities p) as [v|];
    destruct st as [[k1 t1]|]; destruct va as [[k2 t2]|]; destruct fx; reflexivity.
Qed.

(* ---- class body ---- *)
Lemma unbody_gen (ss : list sym) (E : list xml) (es : list eqn) :
  mapM uneqn E = Some es ->
  unbody (map gen_sym ss ++ [Node T_equation [] E]) = Some (map norm_sym ss, es).
Proof.
  intros HE. induction ss as [|s r IH].
  - cbn [map app]. rewrite unbody_last, HE. reflexivity.
  - cbn [map app]. destruct (map gen_sym r ++ [Node T_equation [] E]) as [|y ys] eqn:Hl.
    + destruct (map gen_sym r); discriminate Hl.
    + rewrite unbody_cons, unsym_gen, IH. reflexivity.
Qed.

Lemma uncls_gen (mv : bool) (c : cls) :
  (mv = true -> existsb has_decl (c_eqs c) = false) ->
  uncls (gen_cls mv c) = Some (norm_cls c).
Proof.
  intros Hs. destruct c as [n ss es]. unfold gen_cls, norm_cls. cbn [c_name c_syms c_eqs] in *.
  rewrite uncls_unfold.
  rewrite (unbody_gen ss _ (map norm_eqn es) (uneqn_gen_list mv es Hs)). reflexivity.
Qed.

(* ---- main theorem ---- *)
Theorem roundtrip (mv : bool) (t : flat) :
  (mv = true -> has_decl_flat t = false) -> unxml (gen mv t) = Some (norm t).
Proof.
  intros Hs. unfold gen, norm. rewrite unxml_unfold.
  apply mapM_map. apply Forall_forall. intros c Hc. apply uncls_gen.
  intros Hmv. specialize (Hs Hmv). unfold has_decl_flat in Hs.
  apply existsb_false_Forall in Hs. rewrite Forall_forall in Hs. apply (Hs c Hc).
Qed.

(* the generator is injective up to the normalisation: two flat trees with the same XML carry the same
   names, builtin types, variabilities, start/value texts and the same equations, operator for operator *)
Corollary gen_injective (mv : bool) (t u : flat) :
  (mv = true -> has_decl_flat t = false) -> (mv = true -> has_decl_flat u = false) ->
  gen mv t = gen mv u -> norm t = norm u.
Proof.
  intros Ht Hu H. pose proof (roundtrip mv t Ht) as A. pose proof (roundtrip mv u Hu) as B.
  rewrite H in A. rewrite A in B. injection B as B. exact B.
Qed.

(* shape: one <component> per symbol, in order, then one <equation> with one child per flat equation *)
Lemma class_shape (mv : bool) (c : cls) :
  exists comps eqs,
    gen_cls mv c = Node T_classDefinition [(A_name, c_name c)]
                        [Node T_class [(A_kind, V_model)] (comps ++ [Node T_equation [] eqs])]
    /\ comps = map gen_sym (c_syms c) /\ eqs = map (gen_eqn mv) (c_eqs c)
    /\ length comps = length (c_syms c) /\ length eqs = length (c_eqs c).
Proof.
  eexists _, _. repeat split; try reflexivity; apply map_length.
Qed.

(* the defect: with the moved left operand the declaration-value equation `Real x = 3;` is not mirrored *)
Definition decl_witness : flat :=
  [Cls "M" [Sym "x" "Real" [] None None false] [DeclEq "x" (Lit KInt "3")]].

Lemma moved_refuted : unxml (gen true decl_witness) <> Some (norm decl_witness).
Proof. vm_compute. discriminate. Qed.

Lemma moved_loses_left :
  gen_eqn true (DeclEq "x" (Lit KInt "3")) = Node T_equal [] [Node T_real [(A_value, "3")] []].
Proof. reflexivity. Qed.

(* a non-trivial member of the subset *)
Definition example_flat : flat :=
  [Cls "M"
     [Sym "p" "Real" ["parameter"] None (Some (KReal, "2.5")) false;
      Sym "d" "Integer" ["discrete"; "output"] (Some (KInt, "0")) None false;
      Sym "x" "Real" [] (Some (KReal, "1.0")) None true;
      Sym "u" "Real" ["input"] None None false]
     [Equal (Op "der" [Ref "x"]) (Op "+" [Op "-" [Ref "x"]; Op "*" [Op "sin" [Ref "u"]; Ref "p"]]);
      When (Op ">" [Ref "x"; Lit KInt "1"])
           [FunEq "reinit" [Ref "x"; Lit KInt "0"]; Equal (Ref "d") (Op "+" [Op "pre" [Ref "d"]; Lit KInt "1"])];
      Equal (Ref "u") (Op "min" [Ref "x"; Ref "p"; Lit KBool "True"])]].

Lemma example_ok :
  has_decl_flat example_flat = false /\ unxml (gen true example_flat) = Some (norm example_flat)
  /\ norm example_flat <> example_flat.
Proof. vm_compute. repeat split. discriminate. Qed.
