(* C04 — invariants of the whole walk: the order counter and the allocation stamp only grow, so over a whole
   file the order numbers increase strictly in source order and no two symbols share a prefixes / dimensions /
   type object.  The ghost component l_trace of the listener state records (order, ids) of every symbol in
   creation order; the invariant `good` is stated on the piece of trace an element appends. *)
From Coq Require Import String List Bool Arith Lia Sorting.Sorted Sorting.Permutation.
From PV Require Import Model.C04_listener Proofs.C04_listener.
Import ListNotations.
Open Scope string_scope.
Open Scope list_scope.

Definition kord (x : key_t) : nat := fst x.
Definition kpid (x : key_t) : nat := fst (fst (snd x)).
Definition kdid (x : key_t) : nat := snd (fst (snd x)).
Definition ktid (x : key_t) : nat := snd (snd x).

Lemma kord_key l : map kord (map key l) = map s_order l.
Proof. rewrite map_map. apply map_ext. reflexivity. Qed.
Lemma kpid_key l : map kpid (map key l) = map s_pid l.
Proof. rewrite map_map. apply map_ext. reflexivity. Qed.
Lemma kdid_key l : map kdid (map key l) = map s_did l.
Proof. rewrite map_map. apply map_ext. reflexivity. Qed.
Lemma ktid_key l : map ktid (map key l) = map s_tid l.
Proof. rewrite map_map. apply map_ext. reflexivity. Qed.

(* ---- lists of naturals lying in consecutive intervals ------------------------------------- *)
Lemma sorted_app a : forall b m,
  StronglySorted lt a -> StronglySorted lt b -> Forall (fun x => x < m) a -> Forall (fun y => m <= y) b ->
  StronglySorted lt (a ++ b).
Proof.
  induction a as [|x r IH]; intros b m Ha Hb Fa Fb; cbn [app]; [assumption|].
  inversion Ha; subst. inversion Fa; subst. constructor; [eapply IH; eauto|].
  apply Forall_app. split; [assumption|]. eapply Forall_impl; [|exact Fb]. cbn. intros; lia.
Qed.

Lemma nodup_app (a : list nat) : forall b m,
  NoDup a -> NoDup b -> Forall (fun x => x < m) a -> Forall (fun y => m <= y) b -> NoDup (a ++ b).
Proof.
  induction a as [|x r IH]; intros b m Ha Hb Fa Fb; cbn [app]; [assumption|].
  inversion Ha; subst. inversion Fa; subst. constructor; [|eapply IH; eauto].
  intros Hi. apply in_app_or in Hi. destruct Hi as [Hi|Hi]; [contradiction|].
  rewrite Forall_forall in Fb. specialize (Fb x Hi). lia.
Qed.

Lemma Forall_map_iff {A B : Type} (f : A -> B) (Q : B -> Prop) l : Forall Q (map f l) <-> Forall (fun x => Q (f x)) l.
Proof. apply Forall_map. Qed.

Record good (c n : nat) (K : list key_t) (c' n' : nat) : Prop := mkGood {
  g_c : c <= c'; g_n : n <= n';
  g_sorted : StronglySorted lt (map kord K);
  g_ord : Forall (fun x => c <= kord x < c') K;
  g_ids : Forall (fun x => (n <= kpid x < n') /\ (n <= kdid x < n') /\ (n <= ktid x < n')) K;
  g_p : NoDup (map kpid K); g_d : NoDup (map kdid K); g_t : NoDup (map ktid K) }.

Lemma good_nil c n c' n' : c <= c' -> n <= n' -> good c n [] c' n'.
Proof. intros; constructor; cbn; auto; constructor. Qed.

Lemma good_app c n K1 c1 n1 K2 c2 n2 : good c n K1 c1 n1 -> good c1 n1 K2 c2 n2 -> good c n (K1 ++ K2) c2 n2.
Proof.
  intros [A1 A2 A3 A4 A5 A6 A7 A8] [B1 B2 B3 B4 B5 B6 B7 B8].
  assert (W : forall (Q R : key_t -> Prop) K, (forall x, Q x -> R x) -> Forall Q K -> Forall R K)
    by (intros Q R K HQ F; eapply Forall_impl; [exact HQ|exact F]).
  constructor; try lia; rewrite ?map_app.
  - apply (sorted_app _ _ c1); auto; apply Forall_map_iff.
    + apply (W _ _ _ (fun x (H : c <= kord x < c1) => proj2 H) A4).
    + apply (W _ _ _ (fun x (H : c1 <= kord x < c2) => proj1 H) B4).
  - apply Forall_app; split; [apply (W _ _ _ (fun x (H : c <= kord x < c1) => conj (proj1 H) (Nat.lt_le_trans _ _ _ (proj2 H) B1)) A4)
                             |apply (W _ _ _ (fun x (H : c1 <= kord x < c2) => conj (Nat.le_trans _ _ _ A1 (proj1 H)) (proj2 H)) B4)].
  - apply Forall_app; split; [eapply W; [|exact A5]|eapply W; [|exact B5]]; cbn; intros; lia.
  - apply (nodup_app _ _ n1); auto; apply Forall_map_iff; [eapply W; [|exact A5]|eapply W; [|exact B5]]; cbn; intros; lia.
  - apply (nodup_app _ _ n1); auto; apply Forall_map_iff; [eapply W; [|exact A5]|eapply W; [|exact B5]]; cbn; intros; lia.
  - apply (nodup_app _ _ n1); auto; apply Forall_map_iff; [eapply W; [|exact A5]|eapply W; [|exact B5]]; cbn; intros; lia.
Qed.

(* ---- stamps of one clause -------------------------------------------------------------------- *)
Definition ids_in (b m : nat) (s : osym) : Prop :=
  (b <= s_pid s < m) /\ (b <= s_did s < m) /\ (b <= s_tid s < m).
Lemma ids_in_mono b m m' s : m <= m' -> ids_in b m s -> ids_in b m' s.
Proof. unfold ids_in. intros; lia. Qed.

Lemma pre_syms_ids cl b ds : forall c n, S (S (S b)) <= n ->
  Forall (ids_in b (pre_next ds n)) (pre_syms cl b (S b) (S (S b)) ds c n).
Proof.
  induction ds as [|d r IH]; intros c n Hn; cbn [pre_syms pre_next]; constructor.
  - pose proof (pre_next_mono r (step_next d n)) as Hm. unfold ids_in, step_next in *. cbn.
    destruct (d_dims d); lia.
  - apply IH. unfold step_next. destruct (d_dims d); lia.
Qed.

Definition dims_step (v : variant) (cl : clause) (D0 : nat) (ss : list osym) (n : nat) : list osym * nat :=
  match c_dims cl with
  | Some subs => if v_dimsmerge v then merge_dims D0 n subs (map (set_type (c_type cl)) ss) (S n)
                 else (map (set_dims n [subs]) (map (set_type (c_type cl)) ss), S n)
  | None => (map (set_type (c_type cl)) ss, n)
  end.

Lemma close_clause_eq v cl D0 ss n :
  close_clause v cl D0 ss n = tail_copy (fst (dims_step v cl D0 ss n)) (snd (dims_step v cl D0 ss n)).
Proof. unfold close_clause. fold (dims_step v cl D0 ss n). destruct (dims_step v cl D0 ss n). reflexivity. Qed.

Lemma merge_ids b D0 Dc subs ss : forall k m, Dc < k -> m <= Dc -> Forall (ids_in b m) ss ->
  Forall (ids_in b (snd (merge_dims D0 Dc subs ss k))) (fst (merge_dims D0 Dc subs ss k))
  /\ k <= snd (merge_dims D0 Dc subs ss k).
Proof.
  induction ss as [|s r IH]; intros k m Hk Hm F; cbn [merge_dims]; [cbn; split; [constructor|lia]|].
  inversion F as [|? ? Hs Fr]; subst.
  destruct (Nat.eqb (s_did s) D0).
  - destruct (IH k m Hk Hm Fr) as [A B]. destruct (merge_dims D0 Dc subs r k) as [r' n'] eqn:E. cbn [fst snd] in *.
    split; [|assumption]. constructor; [|assumption]. unfold ids_in in *. cbn. lia.
  - destruct (IH (S k) m ltac:(lia) Hm Fr) as [A B]. destruct (merge_dims D0 Dc subs r (S k)) as [r' n'] eqn:E. cbn [fst snd] in *.
    split; [|lia]. constructor; [|assumption]. unfold ids_in in *. cbn. lia.
Qed.

Lemma dims_step_ids v cl b D0 ss m : Forall (ids_in b m) ss ->
  Forall (ids_in b (snd (dims_step v cl D0 ss m))) (fst (dims_step v cl D0 ss m))
  /\ m <= snd (dims_step v cl D0 ss m).
Proof.
  intros F.
  assert (F1 : Forall (ids_in b m) (map (set_type (c_type cl)) ss)).
  { apply Forall_map_iff. eapply Forall_impl; [|exact F]. intros s Hs. exact Hs. }
  unfold dims_step. destruct (c_dims cl) as [subs|]; [destruct (v_dimsmerge v)|].
  - destruct (merge_ids b D0 m subs _ (S m) m ltac:(lia) (le_n m) F1) as [A B]. split; [exact A|lia].
  - cbn [fst snd]. split; [|lia]. apply Forall_map_iff. eapply Forall_impl; [|exact F1].
    intros s Hs. unfold ids_in in *. cbn. lia.
  - cbn [fst snd]. split; [exact F1|lia].
Qed.

Lemma copy_syms_bounds ss : forall n,
  Forall (ids_in n (snd (copy_syms ss n))) (fst (copy_syms ss n))
  /\ n <= snd (copy_syms ss n)
  /\ NoDup (map s_pid (fst (copy_syms ss n))) /\ NoDup (map s_did (fst (copy_syms ss n)))
  /\ NoDup (map s_tid (fst (copy_syms ss n))).
Proof.
  induction ss as [|s r IH]; intros n; cbn [copy_syms].
  - cbn. repeat split; try constructor.
  - destruct (IH (3 + n)) as (F & L & N1 & N2 & N3). destruct (copy_syms r (3 + n)) as [r' n'] eqn:E. cbn [fst snd] in *.
    cbn [map set_ids s_pid s_did s_tid]. rewrite Forall_forall in F.
    repeat split; try lia.
    + constructor; [unfold ids_in; cbn; lia|]. apply Forall_forall. intros x Hx. specialize (F x Hx). unfold ids_in in *. lia.
    + constructor; [|exact N1]. rewrite in_map_iff. intros (x & Ex & Hx). specialize (F x Hx). unfold ids_in in F. lia.
    + constructor; [|exact N2]. rewrite in_map_iff. intros (x & Ex & Hx). specialize (F x Hx). unfold ids_in in F. lia.
    + constructor; [|exact N3]. rewrite in_map_iff. intros (x & Ex & Hx). specialize (F x Hx). unfold ids_in in F. lia.
Qed.

Lemma tail_copy_ids b ss n : Forall (ids_in b n) ss -> b <= n ->
  Forall (ids_in b (snd (tail_copy ss n))) (fst (tail_copy ss n))
  /\ n <= snd (tail_copy ss n)
  /\ NoDup (map s_pid (fst (tail_copy ss n))) /\ NoDup (map s_did (fst (tail_copy ss n)))
  /\ NoDup (map s_tid (fst (tail_copy ss n))).
Proof.
  intros F Hb. destruct ss as [|s0 tl]; cbn [tail_copy].
  - cbn. repeat split; try constructor.
  - inversion F as [|? ? H0 Ft]; subst.
    destruct (copy_syms_bounds tl n) as (G & L & N1 & N2 & N3). destruct (copy_syms tl n) as [tl' n'] eqn:E.
    cbn [fst snd map] in *. rewrite Forall_forall in G.
    repeat split; try lia.
    + constructor; [eapply ids_in_mono; eauto|]. apply Forall_forall. intros x Hx. specialize (G x Hx). unfold ids_in in *. lia.
    + constructor; [|exact N1]. rewrite in_map_iff. intros (x & Ex & Hx). specialize (G x Hx). unfold ids_in in *. lia.
    + constructor; [|exact N2]. rewrite in_map_iff. intros (x & Ex & Hx). specialize (G x Hx). unfold ids_in in *. lia.
    + constructor; [|exact N3]. rewrite in_map_iff. intros (x & Ex & Hx). specialize (G x Hx). unfold ids_in in *. lia.
Qed.

Lemma seq_sorted n : forall c, StronglySorted lt (seq c n) /\ Forall (fun x => c <= x < c + n) (seq c n).
Proof.
  induction n as [|n IH]; intros c; cbn [seq]; [split; constructor|].
  destruct (IH (S c)) as [A B]. split.
  - constructor; [assumption|]. eapply Forall_impl; [|exact B]. cbn; intros; lia.
  - constructor; [lia|]. eapply Forall_impl; [|exact B]. cbn; intros; lia.
Qed.

(* the symbols of one clause: fresh orders, fresh pairwise distinct objects *)
Lemma clause_good v cl seen l ss seen' l' :
  do_clause v cl (seen, l) = Ok (ss, (seen', l')) ->
  good (l_count l) (l_next l) (map key ss) (l_count l') (l_next l') /\ l_trace l' = l_trace l ++ map key ss.
Proof.
  intros H. apply do_clause_ok in H. destruct H as (_ & Ho & _ & _ & Hc & _ & Ht & Hcl).
  split; [|exact Ht].
  set (b := l_next l) in *.
  pose proof (pre_syms_ids cl b (c_decls cl) (l_count l) (S (S (S b))) (le_n _)) as F0.
  rewrite close_clause_eq in Hcl.
  destruct (dims_step_ids v cl b (S (S b)) _ _ F0) as [F1 L1].
  pose proof (pre_next_mono (c_decls cl) (S (S (S b)))) as L0.
  destruct (tail_copy_ids b _ _ F1 ltac:(lia)) as (F2 & L2 & N1 & N2 & N3).
  rewrite <- Hcl in F2, L2, N1, N2, N3. cbn [fst snd] in *.
  destruct (seq_sorted (length (c_decls cl)) (l_count l)) as [S1 S2].
  constructor; rewrite ?kord_key, ?kpid_key, ?kdid_key, ?ktid_key; try assumption; try lia.
  - now rewrite Ho.
  - apply Forall_map_iff. cbn. apply (proj1 (Forall_map_iff s_order (fun x => l_count l <= x < l_count l') ss)).
    rewrite Ho, Hc. exact S2.
  - apply Forall_map_iff. eapply Forall_impl; [|exact F2]. intros s Hs. exact Hs.
Qed.

(* ---- induction principle for elements --------------------------------------------------------- *)
Section ElemInd.
  Variable P : element -> Prop.
  Hypothesis Hc : forall cl, P (EComp cl).
  Hypothesis He : forall p m a, P (EExt p m a).
  Hypothesis Hi : forall i a, P (EImp i a).
  Hypothesis Hk : forall ct n cm secs eqs algs,
      Forall (fun s : label * list element => Forall P (snd s)) secs -> P (ECls ct n cm secs eqs algs).
  Fixpoint element_ind2 (e : element) : P e :=
    match e with
    | EComp cl => Hc cl
    | EExt p m a => He p m a
    | EImp i a => Hi i a
    | ECls ct n cm secs eqs algs =>
        Hk ct n cm secs eqs algs
           ((fix go (ss : list (label * list element)) : Forall (fun s => Forall P (snd s)) ss :=
               match ss with
               | [] => Forall_nil _
               | s :: r =>
                   Forall_cons s
                     ((fix go2 (els : list element) : Forall P els :=
                         match els with
                         | [] => Forall_nil _
                         | e' :: r2 => Forall_cons e' (element_ind2 e') (go2 r2)
                         end) (snd s))
                     (go r)
               end) secs)
    end.
End ElemInd.

(* ---- what an element adds to the walk --------------------------------------------------------- *)
Definition incr_from (c : nat) (os : list nat) (c' : nat) : Prop :=
  StronglySorted lt os /\ Forall (fun o => c <= o < c') os.

Lemma incr_app c a c1 b c2 : c <= c1 -> c1 <= c2 -> incr_from c a c1 -> incr_from c1 b c2 -> incr_from c (a ++ b) c2.
Proof.
  intros L1 L2 [A1 A2] [B1 B2]. split.
  - apply (sorted_app _ _ c1); auto; (eapply Forall_impl; [|eassumption]); cbn; intros; lia.
  - apply Forall_app; split; (eapply Forall_impl; [|eassumption]); cbn; intros; lia.
Qed.
Lemma incr_nil c c' : incr_from c [] c'.
Proof. split; constructor. Qed.

Definition sorted_cls (c : oclass) : Prop := StronglySorted lt (map s_order (o_syms c)).

(* K = the piece of trace appended; rsyms = symbols handed to the enclosing class; cls = classes produced *)
Definition step_inv (l : lst) (rsyms : list osym) (cls : list oclass) (l' : lst) : Prop :=
  exists K, l_trace l' = l_trace l ++ K
    /\ Permutation K (map key (rsyms ++ flat_map o_syms cls))
    /\ good (l_count l) (l_next l) K (l_count l') (l_next l')
    /\ incr_from (l_count l) (map s_order rsyms) (l_count l')
    /\ Forall sorted_cls cls.

Definition Pel (e : element) : Prop := forall v path k l r cls k' l',
  do_element v path e (k, l) = Ok ((r, cls), (k', l')) -> step_inv l (syms_of [r]) cls l'.

Ltac split5 := split; [|split; [|split; [|split]]].

Lemma step_inv_nil l l' : l_trace l' = l_trace l -> l_count l <= l_count l' -> l_next l <= l_next l' ->
  step_inv l [] [] l'.
Proof.
  intros Ht Hc Hn. exists []. rewrite app_nil_r.
  split5; [exact Ht|cbn; constructor|apply good_nil; assumption|apply incr_nil|constructor].
Qed.

(* the counter never decreases along the arguments of a modification *)
Fixpoint walk_modif_mono (rs : bool) (m : modif) : forall s, fst s <= fst (walk_modif rs m s)
with walk_arg_mono (rs : bool) (a : arg) : forall s, fst s <= fst (walk_arg rs a s).
Proof.
  - destruct m as [cm val]. destruct cm as [args|]; cbn [walk_modif]; [|intros; apply le_n].
    refine ((fix go (l : list arg) : forall s, fst s <= fst (fold_left (fun s' a => walk_arg rs a s') l s) :=
               match l with
               | [] => fun s => le_n _
               | a :: r => fun s => Nat.le_trans _ _ _ (walk_arg_mono rs a s) (go r _)
               end) args).
  - destruct a as [n m|p t n d m c|ct n t]; cbn [walk_arg]; intros s.
    + destruct m as [m'|].
      * eapply Nat.le_trans; [|apply (walk_modif_mono rs m')]. destruct (snd s); cbn; lia.
      * destruct (snd s); cbn; lia.
    + cbn [fst]. destruct m as [m'|]; [|cbn; lia].
      eapply Nat.le_trans; [|apply (walk_modif_mono rs m')]. cbn; lia.
    + apply le_n.
Qed.

Lemma walk_args_mono rs m s : fst s <= fst (walk_args rs m s).
Proof.
  destruct m as [args|]; cbn [walk_args]; [|apply le_n]. revert s.
  induction args as [|a r IH]; intros s; cbn [fold_left]; [apply le_n|].
  eapply Nat.le_trans; [apply (walk_arg_mono rs a)|apply IH].
Qed.

Lemma bump_nil b l : step_inv l [] [] (bump b l).
Proof. unfold bump. destruct b; [destruct (l_symset l)|]; apply step_inv_nil; cbn; auto. Qed.

Lemma perm4 {A : Type} (a b c d : list A) : Permutation ((a ++ c) ++ (b ++ d)) ((a ++ b) ++ (c ++ d)).
Proof. rewrite <- !app_assoc. apply Permutation_app_head. apply Permutation_app_swap_app. Qed.

Lemma step_inv_app l s1 c1 l1 s2 c2 l2 :
  step_inv l s1 c1 l1 -> step_inv l1 s2 c2 l2 -> step_inv l (s1 ++ s2) (c1 ++ c2) l2.
Proof.
  intros (K1 & T1 & P1 & G1 & I1 & F1) (K2 & T2 & P2 & G2 & I2 & F2).
  exists (K1 ++ K2). split5.
  - now rewrite T2, T1, app_assoc.
  - rewrite flat_map_app, !map_app. rewrite !map_app in P1, P2.
    eapply Permutation_trans; [apply Permutation_app; eassumption|]. apply perm4.
  - eapply good_app; eassumption.
  - rewrite map_app. destruct G1, G2. apply (incr_app _ _ (l_count l1)); auto.
  - apply Forall_app. split; assumption.
Qed.

Lemma syms_of_cons r rs : syms_of (r :: rs) = syms_of [r] ++ syms_of rs.
Proof. unfold syms_of. cbn [flat_map]. now rewrite app_nil_r. Qed.

Lemma els_inv v path els : Forall Pel els -> forall k l rs k' l',
  mapM (do_element v path) els (k, l) = Ok (rs, (k', l')) ->
  step_inv l (syms_of (map fst rs)) (concat (map snd rs)) l'.
Proof.
  induction 1 as [|e r He _ IH]; intros k l rs k' l' H; cbn [mapM] in H.
  - inversion H; subst. cbn. apply step_inv_nil; auto.
  - destruct (do_element v path e (k, l)) as [[[r1 c1] [k1 l1]]|] eqn:E1; [|discriminate].
    destruct (mapM (do_element v path) r (k1, l1)) as [[bs [k2 l2]]|] eqn:E2; [|discriminate].
    inversion H; subst. cbn [map fst snd concat]. rewrite syms_of_cons.
    eapply step_inv_app; [eapply He; eassumption|eapply IH; eassumption].
Qed.

Definition all_rs (srs : list (label * list (ores * list oclass))) : list (ores * list oclass) := flat_map snd srs.

Lemma secs_inv v path secs : Forall (fun s : label * list element => Forall Pel (snd s)) secs -> forall k l srs k' l',
  mapM (sec_fun v path) secs (k, l) = Ok (srs, (k', l')) ->
  step_inv l (syms_of (map fst (all_rs srs))) (concat (map snd (all_rs srs))) l'.
Proof.
  induction 1 as [|[lb els] r He _ IH]; intros k l srs k' l' H; cbn [mapM] in H.
  - inversion H; subst. cbn. apply step_inv_nil; auto.
  - unfold sec_fun at 1 in H. cbn [fst snd] in H, He.
    destruct (mapM (do_element v path) els (k, l)) as [[rs [k1 l1]]|] eqn:E1; [|discriminate].
    destruct (mapM (sec_fun v path) r (k1, l1)) as [[bs [k2 l2]]|] eqn:E2; [|discriminate].
    inversion H; subst. unfold all_rs. cbn [flat_map snd]. fold (all_rs bs).
    rewrite !map_app, concat_app. unfold syms_of at 1. rewrite flat_map_app. fold (syms_of (map fst rs)) (syms_of (map fst (all_rs bs))).
    eapply step_inv_app; [eapply els_inv; eassumption|eapply IH; eassumption].
Qed.

(* the visibility assignment changes neither order numbers nor object identities *)
Lemma keys_set_vis w rs : map key (syms_of (map (set_vis_res w) rs)) = map key (syms_of rs).
Proof.
  unfold syms_of. induction rs as [|r rs IH]; [reflexivity|]. cbn [map flat_map]. rewrite !map_app, IH. f_equal.
  destruct r; cbn; try reflexivity. rewrite map_map. apply map_ext. reflexivity.
Qed.

Lemma syms_of_concat (L : list (list ores)) : syms_of (concat L) = concat (map syms_of L).
Proof.
  induction L as [|a r IH]; [reflexivity|]. cbn [concat map]. unfold syms_of at 1. rewrite flat_map_app.
  fold (syms_of a) (syms_of (concat r)). now rewrite IH.
Qed.

Lemma keys_concat (L1 L2 : list (list ores)) :
  Forall2 (fun a b => map key (syms_of a) = map key (syms_of b)) L1 L2 ->
  map key (syms_of (concat L1)) = map key (syms_of (concat L2)).
Proof.
  rewrite !syms_of_concat. induction 1 as [|a b r1 r2 Hab _ IH]; [reflexivity|].
  cbn [map concat]. rewrite !map_app, Hab, IH. reflexivity.
Qed.

Lemma assign_at_keys epub epro X : forall i,
  Forall2 (fun a b => map key (syms_of a) = map key (syms_of b)) (assign_at epub epro X i) (map snd X).
Proof.
  induction X as [|[lb rs] r IH]; intros i; cbn [assign_at map snd]; constructor; [|apply IH].
  destruct lb; [apply keys_set_vis| |]; match goal with |- context [if ?c then _ else _] => destruct c end;
    try apply keys_set_vis; reflexivity.
Qed.

Lemma assign_vis_keys v X : map key (syms_of (concat (assign_vis v X))) = map key (syms_of (concat (map snd X))).
Proof.
  apply keys_concat. unfold assign_vis. destruct (v_allsec v); [|apply assign_at_keys].
  induction X as [|[lb rs] r IH]; cbn [map fst snd]; constructor; [apply keys_set_vis|exact IH].
Qed.

Lemma all_rs_fst srs : concat (map snd (map (fun s : label * list (ores * list oclass) => (fst s, map fst (snd s))) srs))
                       = map fst (all_rs srs).
Proof.
  unfold all_rs. induction srs as [|s r IH]; [reflexivity|]. cbn [map concat flat_map snd]. now rewrite map_app, IH.
Qed.
Lemma all_rs_snd srs : concat (map (fun s : label * list (ores * list oclass) => concat (map snd (snd s))) srs)
                       = concat (map snd (all_rs srs)).
Proof.
  unfold all_rs. induction srs as [|s r IH]; [reflexivity|]. cbn [map concat flat_map]. now rewrite map_app, concat_app, IH.
Qed.

Lemma all_Pel : forall e, Pel e.
Proof.
  apply element_ind2.
  - intros cl v path k l r cls k' l' H. cbn [do_element] in H.
    destruct (do_clause v cl (k_seen k, l)) as [[ss [seen' l1]]|] eqn:Hc; [|discriminate].
    inversion H; subst. destruct (clause_good _ _ _ _ _ _ _ Hc) as [G T].
    apply do_clause_ok in Hc. destruct Hc as (_ & Ho & _ & _ & Hcnt & _).
    exists (map key ss). unfold syms_of. cbn [flat_map]. rewrite !app_nil_r. split5; auto.
    rewrite Ho, Hcnt. split; apply seq_sorted.
  - intros p m a v path k l r cls k' l' H. cbn [do_element] in H. inversion H; subst.
    unfold syms_of. cbn. unfold ext_count.
    pose proof (walk_args_mono (v_redecl v) m (l_count l, l_symset l)) as Hw. cbn [fst] in Hw.
    replace (@nil osym) with (@nil osym ++ []) by reflexivity. replace (@nil oclass) with (@nil oclass ++ []) by reflexivity.
    eapply step_inv_app; [|apply bump_nil]. apply step_inv_nil; cbn; auto.
  - intros i a v path k l r cls k' l' H. cbn [do_element] in H.
    destruct (add_import v i (k_imports k)); [|discriminate]. inversion H; subst. unfold syms_of. cbn. apply bump_nil.
  - intros ct n cm secs eqs algs IH v path k l r cls k' l' H. cbn [do_element] in H. fold (sec_fun v (path ++ [n])) in H.
    destruct (mapM (sec_fun v (path ++ [n])) secs (mkK [] [] [], l)) as [[srs [k1 l1]]|] eqn:Hm; [|discriminate].
    inversion H; subst. clear H. apply (secs_inv v _ secs IH) in Hm.
    destruct Hm as (K & T & P & G & I & F).
    unfold syms_of at 1. cbn [flat_map app].
    set (own := finish_class v (path ++ [n]) ct cm _ k1 eqs algs).
    assert (Hk : map key (o_syms own) = map key (syms_of (map fst (all_rs srs)))).
    { subst own. unfold finish_class. destruct (split_init eqs), (split_init algs). cbn [o_syms].
      rewrite assign_vis_keys, all_rs_fst. reflexivity. }
    exists K. split5; auto.
    + cbn [flat_map app]. rewrite all_rs_snd. rewrite map_app, Hk, <- map_app. exact P.
    + apply incr_nil.
    + constructor; [|rewrite all_rs_snd; exact F].
      unfold sorted_cls. rewrite <- kord_key, Hk, kord_key. apply I.
Qed.

(* ---- a whole file ------------------------------------------------------------------------------ *)
Definition is_cls (e : element) : Prop := match e with ECls _ _ _ _ _ _ => True | _ => False end.

Lemma cls_results v path els : Forall is_cls els -> forall st rs st',
  mapM (do_element v path) els st = Ok (rs, st') -> syms_of (map fst rs) = [].
Proof.
  induction 1 as [|e r He _ IH]; intros [k l] rs st' H; cbn [mapM] in H.
  - inversion H; subst. reflexivity.
  - destruct (do_element v path e (k, l)) as [[[r1 c1] st1]|] eqn:E1; [|discriminate].
    destruct (mapM (do_element v path) r st1) as [[bs st2]|] eqn:E2; [|discriminate].
    inversion H; subst. cbn [map fst]. rewrite syms_of_cons, (IH _ _ _ E2), app_nil_r.
    destruct e; try contradiction. cbn [do_element] in E1.
    destruct (mapM _ secs _) as [[srs [k1 l1]]|]; [|discriminate]. inversion E1; subst. reflexivity.
Qed.

Theorem file_walk v cs out lf : run_file_full v cs = Ok (out, lf) -> Forall is_cls cs ->
  Permutation (l_trace lf) (map key (flat_map o_syms out))
  /\ good 0 0 (l_trace lf) (l_count lf) (l_next lf)
  /\ Forall sorted_cls out.
Proof.
  unfold run_file_full. intros H Hc.
  destruct (mapM (do_element v []) cs (mkK [] [] [], init_lst)) as [[rs [k l]]|] eqn:Hm; [|discriminate].
  inversion H; subst. clear H.
  pose proof (cls_results v [] cs Hc _ _ _ Hm) as Hr.
  apply (els_inv v [] cs) in Hm; [|apply Forall_forall; intros; apply all_Pel].
  destruct Hm as (K & T & P & G & _ & F). cbn in T, G. subst K. rewrite Hr in P. cbn [app] in P. auto.
Qed.

Theorem file_order v cs out lf : run_file_full v cs = Ok (out, lf) -> Forall is_cls cs ->
  StronglySorted lt (map kord (l_trace lf))
  /\ Permutation (l_trace lf) (map key (flat_map o_syms out))
  /\ Forall (fun c => StronglySorted lt (map s_order (o_syms c))) out.
Proof. intros H Hc. destruct (file_walk v cs out lf H Hc) as (P & G & F). destruct G. auto. Qed.

Theorem file_no_sharing v cs out lf : run_file_full v cs = Ok (out, lf) -> Forall is_cls cs ->
  NoDup (map s_pid (flat_map o_syms out)) /\ NoDup (map s_did (flat_map o_syms out))
  /\ NoDup (map s_tid (flat_map o_syms out)).
Proof.
  intros H Hc. destruct (file_walk v cs out lf H Hc) as (P & G & _). destruct G.
  rewrite <- kpid_key, <- kdid_key, <- ktid_key.
  repeat split; (eapply Permutation_NoDup; [apply Permutation_map; exact P|assumption]).
Qed.

(* ---- the ideal reading is the reading of /repo HEAD ------------------------------------------- *)
Definition ideal_sym (vs : vis) (cl : clause) (d : declr) : osym :=
  mkS (d_name d) (c_type cl) (c_prefixes cl) (ideal_dims cl d) vs 0 (d_comment d) (spec_cm (d_mod d)) 0 0 0.
Definition ideal_syms (secs : list (label * list element)) : list osym :=
  flat_map (fun sec => flat_map (fun e => match e with
                                          | EComp cl => map (ideal_sym (vis_of_label (fst sec)) cl) (c_decls cl)
                                          | _ => []
                                          end) (snd sec)) secs.
Definition ideal_exts (secs : list (label * list element)) : list oext :=
  flat_map (fun sec => flat_map (fun e => match e with
                                          | EExt p m _ => [mkE p (vis_of_label (fst sec)) (conv_args m)]
                                          | _ => []
                                          end) (snd sec)) secs.

Lemma class_syms_head secs : class_syms head_variant secs = ideal_syms secs.
Proof.
  unfold class_syms. rewrite eff_vis_ideal by (left; reflexivity). unfold ideal_syms.
  induction secs as [|[lb els] r IH]; [reflexivity|]. cbn [map class_syms_aux flat_map fst snd]. rewrite IH. f_equal.
  unfold sec_syms. apply flat_map_ext. intros e. destruct e; try reflexivity. apply map_ext. intros d.
  unfold spec_sym, ideal_sym. rewrite spec_dims_ideal by (left; reflexivity). reflexivity.
Qed.

Lemma class_exts_head secs : class_exts head_variant secs = ideal_exts secs.
Proof.
  unfold class_exts. rewrite eff_vis_ideal by (left; reflexivity). unfold ideal_exts.
  induction secs as [|[lb els] r IH]; [reflexivity|]. cbn [map class_exts_aux flat_map fst snd]. now rewrite IH.
Qed.

(* ---- the modelled subset --------------------------------------------------------------------------
   An element redeclaration inside the modification of a COMPONENT (a declared one, or one that is itself
   redeclared inside an extends clause) is outside the model: there /repo HEAD corrupts the listener state
   (known finding redeclare-in-component-modification) and do_declr / walk_arg do not mirror that.  The property
   theorems carry `modelled … = true`; such texts are judged by the oracle only. *)
Fixpoint modif_redecl (m : modif) : bool :=
  match m with Modif cm _ => match cm with Some args => existsb arg_redecl args | None => false end end
with arg_redecl (a : arg) : bool :=
  match a with
  | Arg _ m => match m with Some m' => modif_redecl m' | None => false end
  | ARedecl _ _ _ _ _ _ => true
  | AShort _ _ _ => true
  end.
Fixpoint modif_nested (m : modif) : bool :=
  match m with Modif cm _ => match cm with Some args => existsb arg_nested args | None => false end end
with arg_nested (a : arg) : bool :=
  match a with
  | Arg _ m => match m with Some m' => modif_nested m' | None => false end
  | ARedecl _ _ _ _ m _ => match m with Some m' => modif_redecl m' | None => false end
  | AShort _ _ _ => false
  end.
Fixpoint modelled (e : element) : bool :=
  match e with
  | EComp cl => forallb (fun d => match d_mod d with Some m => negb (modif_redecl m) | None => true end) (c_decls cl)
  | EExt _ m _ => match m with Some args => negb (existsb arg_nested args) | None => true end
  | EImp _ _ => true
  | ECls _ _ _ secs _ _ => forallb (fun s : label * list element => forallb modelled (snd s)) secs
  end.

(* model M extends Base(a(b = 1), redeclare Real x = 3, redeclare model N = K); Real z; end M;  — x is no component of M *)
Definition redecl_example : element :=
  ECls "model" "M" ""
    [(Unl, [EExt ["Base"] (Some [Arg "a" (Some (Modif (Some [Arg "b" (Some (Modif None (Some "1")))]) None));
                                  ARedecl [] ["Real"] "x" None (Some (Modif None (Some "3"))) "";
                                  AShort "model" "N" ["K"]]) false;
            EComp (mkC [] ["Real"] None [mkD "z" None None ""])])] [] [].
