(* C27 — proofs about the merge model (Model/C27_merge.v). *)
From Coq Require Import List Bool PArith Arith Permutation.
From PV Require Import Model.C27_merge.
Import ListNotations.

(* ------------------------------------------------------------------------------------------ *)
(* extend = header merge + merge_children extend                                                *)
Lemma extend_eq hs cs ho co :
  extend (Node hs cs) (Node ho co) = Node (merge_hdr hs ho) (merge_children extend co cs).
Proof. reflexivity. Qed.

(* nested induction principle *)
Section NodeInd.
  Variable P : node -> Prop.
  Hypothesis H : forall h cs, Forall (fun nc => P (snd nc)) cs -> P (Node h cs).
  Fixpoint node_ind2 (t : node) : P t :=
    match t with
    | Node h cs =>
        H h cs ((fix go (l : list (name * node)) : Forall (fun nc => P (snd nc)) l :=
                   match l with
                   | [] => Forall_nil _
                   | (n, c) :: l' => Forall_cons (n, c) (node_ind2 c) (go l')
                   end) cs)
    end.
End NodeInd.

(* ------------------------------------------------------------------------------------------ *)
(* dictionaries                                                                                 *)
Lemma find_upd n f l m :
  find m (upd n f l) = if Pos.eqb m n then option_map f (find n l) else find m l.
Proof.
  induction l as [|[k x] r IH]; simpl.
  - destruct (Pos.eqb m n); reflexivity.
  - destruct (Pos.eqb k n) eqn:E; simpl.
    + apply Pos.eqb_eq in E; subst k.
      destruct (Pos.eqb m n) eqn:E2.
      * apply Pos.eqb_eq in E2; subst m. rewrite Pos.eqb_refl. reflexivity.
      * rewrite Pos.eqb_sym, E2. reflexivity.
    + destruct (Pos.eqb k m) eqn:E3.
      * apply Pos.eqb_eq in E3; subst m. rewrite E. reflexivity.
      * exact IH.
Qed.

Lemma find_app_new m l n c :
  find m (l ++ [(n, c)]) =
  match find m l with Some a => Some a | None => if Pos.eqb n m then Some c else None end.
Proof.
  induction l as [|[k x] r IH]; simpl.
  - reflexivity.
  - destruct (Pos.eqb k m); [reflexivity | exact IH].
Qed.

Lemma find_none n l : ~ In n (map fst l) -> find n l = None.
Proof.
  induction l as [|[k x] r IH]; simpl; intros Hn; [reflexivity|].
  destruct (Pos.eqb k n) eqn:E.
  - apply Pos.eqb_eq in E. exfalso; apply Hn; left; exact E.
  - apply IH. intros Hi; apply Hn; right; exact Hi.
Qed.

Lemma find_In n l c : find n l = Some c -> In (n, c) l.
Proof.
  induction l as [|[k x] r IH]; simpl; intros Hf; [discriminate|].
  destruct (Pos.eqb k n) eqn:E.
  - apply Pos.eqb_eq in E; subst k. inversion Hf; subst. left; reflexivity.
  - right; apply IH; exact Hf.
Qed.

Definition comb (ext : node -> node -> node) (a c : option node) : option node :=
  match a, c with
  | Some a, Some c => Some (ext a c)
  | Some a, None => Some a
  | None, c => c
  end.

Lemma find_merge_children ext co :
  forall acc n, NoDup (map fst co) ->
  find n (merge_children ext co acc) = comb ext (find n acc) (find n co).
Proof.
  induction co as [|[k c] co IH]; intros acc n ND; simpl.
  - destruct (find n acc); reflexivity.
  - inversion ND as [|? ? Hnotin ND']; subst.
    rewrite IH by assumption.
    destruct (Pos.eqb k n) eqn:E.
    + apply Pos.eqb_eq in E; subst k.
      rewrite (find_none n co Hnotin).
      unfold has. destruct (find n acc) eqn:F.
      * rewrite find_upd, Pos.eqb_refl, F. reflexivity.
      * rewrite find_app_new, F, Pos.eqb_refl. reflexivity.
    + unfold has. destruct (find k acc) eqn:F.
      * rewrite find_upd. rewrite Pos.eqb_sym, E. reflexivity.
      * rewrite find_app_new. destruct (find n acc); [reflexivity|].
        rewrite E. simpl. destruct (find n co); reflexivity.
Qed.

(* ------------------------------------------------------------------------------------------ *)
(* well-formed = no duplicate keys anywhere (a Python dict)                                      *)
Fixpoint wf (t : node) : Prop :=
  match t with
  | Node _ cs =>
      NoDup (map fst cs) /\
      (fix all (l : list (name * node)) : Prop :=
         match l with [] => True | (_, c) :: l' => wf c /\ all l' end) cs
  end.

Lemma wf_child h cs n c : wf (Node h cs) -> In (n, c) cs -> wf c.
Proof.
  simpl. intros [_ Hall]. induction cs as [|[k x] r IH]; simpl in *; [tauto|].
  destruct Hall as [Hx Hr]. intros [E|I].
  - inversion E; subst; exact Hx.
  - exact (IH Hr I).
Qed.

Lemma nodupb_NoDup l : nodupb l = true -> NoDup l.
Proof.
  induction l as [|x r IH]; simpl; intros Hb; [constructor|].
  apply andb_true_iff in Hb; destruct Hb as [Hx Hr].
  constructor; [|apply IH; exact Hr].
  intros Hin. apply negb_true_iff in Hx.
  assert (existsb (Pos.eqb x) r = true) as Hex.
  { apply existsb_exists. exists x; split; [exact Hin | apply Pos.eqb_refl]. }
  rewrite Hex in Hx; discriminate.
Qed.

Lemma wfb_wf t : wfb t = true -> wf t.
Proof.
  induction t as [h cs IH] using node_ind2. simpl. intros Hb.
  apply andb_true_iff in Hb; destruct Hb as [Hnd Hall].
  split; [apply nodupb_NoDup; exact Hnd|].
  induction cs as [|[k x] r IHr]; simpl in *; [exact I|].
  apply andb_true_iff in Hall; destruct Hall as [Hx Hr].
  inversion IH as [|? ? Px Pr]; subst.
  split; [apply Px; exact Hx|].
  apply IHr; try assumption.
  apply andb_true_iff in Hnd; destruct Hnd as [_ Hnd']; exact Hnd'.
Qed.

(* ------------------------------------------------------------------------------------------ *)
(* header algebra                                                                               *)
Definition omerge (a b : option hdr) : option hdr :=
  match a, b with
  | Some x, Some y => Some (merge_hdr x y)
  | Some x, None => Some x
  | None, y => y
  end.

Lemma omerge_None_r a : omerge a None = a.
Proof. destruct a; reflexivity. Qed.

Lemma adopt_assoc a b c : adopt (adopt a b) c = adopt a (adopt b c).
Proof. unfold adopt. destruct a; simpl; reflexivity. Qed.

Lemma merge_attrs_nil_r s : merge_attrs s [] = s.
Proof. destruct s; reflexivity. Qed.

Lemma merge_flags_nil_r s : merge_flags s [] = s.
Proof. destruct s; reflexivity. Qed.

Lemma merge_attrs_assoc a : forall b c,
  merge_attrs (merge_attrs a b) c = merge_attrs a (merge_attrs b c).
Proof.
  induction a as [|x a IH]; intros b c; [reflexivity|].
  destruct b as [|y b]; [reflexivity|].
  destruct c as [|z c]; [reflexivity|].
  simpl. rewrite adopt_assoc, IH. reflexivity.
Qed.

Lemma merge_flags_assoc a : forall b c,
  merge_flags (merge_flags a b) c = merge_flags a (merge_flags b c).
Proof.
  induction a as [|x a IH]; intros b c; [reflexivity|].
  destruct b as [|y b]; [reflexivity|].
  destruct c as [|z c]; [reflexivity|].
  simpl. rewrite orb_assoc, IH. reflexivity.
Qed.

Lemma merge_hdr_assoc a b c : merge_hdr (merge_hdr a b) c = merge_hdr a (merge_hdr b c).
Proof. unfold merge_hdr; simpl. rewrite merge_attrs_assoc, merge_flags_assoc. reflexivity. Qed.

Lemma omerge_assoc a b c : omerge (omerge a b) c = omerge a (omerge b c).
Proof.
  destruct a as [a|], b as [b|], c as [c|]; simpl; try reflexivity.
  rewrite merge_hdr_assoc; reflexivity.
Qed.

(* compatibility: at most one side gives a value to an attribute, or both give the same *)
Definition acompat (a b : attr) : Prop := a = [] \/ b = [] \/ a = b.

Fixpoint lcompat (s o : list attr) : Prop :=
  match s, o with
  | a :: s', b :: o' => acompat a b /\ lcompat s' o'
  | _, _ => True
  end.

Definition hcompat (a b : hdr) : Prop := h_ty a = h_ty b /\ lcompat (h_attrs a) (h_attrs b).

Definition ocompat (a b : option hdr) : Prop :=
  match a, b with Some x, Some y => hcompat x y | _, _ => True end.

Lemma adopt_comm a b : acompat a b -> adopt a b = adopt b a.
Proof.
  unfold adopt. intros [H|[H|H]]; subst; simpl.
  - destruct b; reflexivity.
  - destruct a; reflexivity.
  - reflexivity.
Qed.

Lemma merge_attrs_comm s : forall o, lcompat s o -> merge_attrs s o = merge_attrs o s.
Proof.
  induction s as [|a s IH]; intros o Hc.
  - simpl. rewrite merge_attrs_nil_r. reflexivity.
  - destruct o as [|b o]; [reflexivity|].
    simpl in *. destruct Hc as [Hab Hso]. rewrite (adopt_comm _ _ Hab), (IH _ Hso). reflexivity.
Qed.

Lemma merge_flags_comm s : forall o, merge_flags s o = merge_flags o s.
Proof.
  induction s as [|a s IH]; intros o.
  - simpl. rewrite merge_flags_nil_r. reflexivity.
  - destruct o as [|b o]; [reflexivity|]. simpl. rewrite orb_comm, IH. reflexivity.
Qed.

Lemma merge_hdr_comm a b : hcompat a b -> merge_hdr a b = merge_hdr b a.
Proof.
  intros [Hty Hl]. unfold merge_hdr.
  rewrite Hty, (merge_attrs_comm _ _ Hl), (merge_flags_comm (h_flags a)). reflexivity.
Qed.

Lemma omerge_comm a b : ocompat a b -> omerge a b = omerge b a.
Proof.
  destruct a as [a|], b as [b|]; simpl; intros Hc; try reflexivity.
  rewrite (merge_hdr_comm _ _ Hc); reflexivity.
Qed.

Lemma fold_left_omerge L : forall a, fold_left omerge L a = omerge a (fold_right omerge None L).
Proof.
  induction L as [|x L IH]; intros a; simpl.
  - rewrite omerge_None_r; reflexivity.
  - rewrite IH, omerge_assoc. reflexivity.
Qed.

Lemma fold_right_omerge_perm (L L' : list (option hdr)) :
  Permutation L L' ->
  (forall a b, In a L -> In b L -> ocompat a b) ->
  fold_right omerge None L = fold_right omerge None L'.
Proof.
  induction 1 as [|x l l' HP IH|x y l|l l' l'' HP1 IH1 HP2 IH2]; intros Hc; simpl.
  - reflexivity.
  - rewrite IH; [reflexivity|]. intros a b Ha Hb; apply Hc; right; assumption.
  - rewrite <- !omerge_assoc. f_equal. apply omerge_comm. apply Hc; simpl; auto.
  - rewrite IH1 by exact Hc. apply IH2.
    intros a b Ha Hb. apply Hc; eapply Permutation_in; try eassumption; apply Permutation_sym; assumption.
Qed.

(* ------------------------------------------------------------------------------------------ *)
(* the key lemma: lookup in a merged tree = merge of the lookups                                 *)
Lemma get_extend o : wf o -> forall s p, get (extend s o) p = omerge (get s p) (get o p).
Proof.
  induction o as [ho co IH] using node_ind2. intros Hwf [hs cs] p.
  rewrite extend_eq. destruct p as [|n p]; [reflexivity|].
  simpl. rewrite find_merge_children by (destruct Hwf as [Hnd _]; exact Hnd).
  destruct (find n cs) as [a|] eqn:Fa; destruct (find n co) as [c|] eqn:Fc; simpl.
  - pose proof (find_In _ _ _ Fc) as Hin.
    rewrite Forall_forall in IH. apply (IH (n, c) Hin). exact (wf_child _ _ _ _ Hwf Hin).
  - rewrite omerge_None_r; reflexivity.
  - reflexivity.
  - reflexivity.
Qed.

Lemma get_fold ts p : Forall wf ts -> forall t0,
  get (fold_left extend ts t0) p = fold_left omerge (map (fun t => get t p) ts) (get t0 p).
Proof.
  induction ts as [|t ts IH]; intros Hwf t0; simpl; [reflexivity|].
  inversion Hwf; subst. rewrite IH by assumption. rewrite get_extend by assumption. reflexivity.
Qed.

(* lookup in the assembled tree, for ANY list of well-formed trees (no compatibility needed):
   header merge, left to right, of the headers the files have at that path *)
Lemma get_merge_compiler ts p : Forall wf ts ->
  get (merge_compiler ts) p = omerge (get empty_root p) (fold_right omerge None (map (fun t => get t p) ts)).
Proof. intros Hwf. unfold merge_compiler. rewrite get_fold by assumption. apply fold_left_omerge. Qed.

Lemma get_merge_api t ts p : Forall wf ts ->
  get (merge_api (t :: ts)) p = fold_right omerge None (map (fun t => get t p) (t :: ts)).
Proof. intros Hwf. simpl. rewrite get_fold by assumption. apply fold_left_omerge. Qed.

(* ------------------------------------------------------------------------------------------ *)
(* compatible file sets                                                                         *)
Definition compatible (ts : list node) : Prop :=
  forall f g p hf hg, In f ts -> In g ts -> get f p = Some hf -> get g p = Some hg -> hcompat hf hg.

Lemma compatible_ocompat ts p : compatible ts ->
  forall a b, In a (map (fun t => get t p) ts) -> In b (map (fun t => get t p) ts) -> ocompat a b.
Proof.
  intros Hc a b Ha Hb. apply in_map_iff in Ha; destruct Ha as [f [Ef If]].
  apply in_map_iff in Hb; destruct Hb as [g [Eg Ig]].
  destruct a as [ha|], b as [hb|]; simpl; try exact I.
  exact (Hc f g p ha hb If Ig Ef Eg).
Qed.

Theorem merge_compiler_perm ts ts' t0 p :
  Permutation ts ts' -> Forall wf ts -> compatible ts ->
  get (fold_left extend ts t0) p = get (fold_left extend ts' t0) p.
Proof.
  intros HP Hwf Hc.
  assert (Forall wf ts') as Hwf' by (eapply Permutation_Forall; eassumption).
  rewrite !get_fold by assumption. rewrite !fold_left_omerge. f_equal.
  apply fold_right_omerge_perm; [apply Permutation_map; exact HP | apply compatible_ocompat; exact Hc].
Qed.

Theorem merge_api_perm ts ts' p :
  Permutation ts ts' -> Forall wf ts -> compatible ts ->
  get (merge_api ts) p = get (merge_api ts') p.
Proof.
  intros HP Hwf Hc.
  assert (Forall wf ts') as Hwf' by (eapply Permutation_Forall; eassumption).
  destruct ts as [|t r]; destruct ts' as [|t' r'].
  - reflexivity.
  - apply Permutation_nil in HP; discriminate.
  - apply Permutation_sym, Permutation_nil in HP; discriminate.
  - inversion Hwf; inversion Hwf'; subst.
    rewrite !get_merge_api by assumption.
    apply fold_right_omerge_perm; [apply Permutation_map; exact HP | apply compatible_ocompat; exact Hc].
Qed.

(* the two drivers agree below the root *)
Lemma styles_agree t ts n p : Forall wf (t :: ts) ->
  get (merge_compiler (t :: ts)) (n :: p) = get (merge_api (t :: ts)) (n :: p).
Proof.
  intros Hwf. rewrite get_merge_compiler by assumption.
  inversion Hwf; subst. rewrite get_merge_api by assumption. reflexivity.
Qed.

(* ------------------------------------------------------------------------------------------ *)
(* the property's "split into files with within clauses": two files that both know a class either
   agree on it or one of them only has the within-placeholder; the placeholder's type is right *)
Definition split_ok (ts : list node) : Prop :=
  forall f g p hf hg, In f ts -> In g ts -> get f p = Some hf -> get g p = Some hg ->
    (hf = ph_hdr \/ hg = ph_hdr \/ hf = hg) /\ h_ty hf = h_ty hg.

Lemma lcompat_refl s : lcompat s s.
Proof. induction s; simpl; [exact I|]. split; [right; right; reflexivity | assumption]. Qed.

Lemma lcompat_empty_l n o : lcompat (repeat [] n) o.
Proof.
  revert o; induction n; intros o; simpl; [exact I|]. destruct o; [exact I|].
  split; [left; reflexivity | apply IHn].
Qed.

Lemma lcompat_sym s : forall o, lcompat s o -> lcompat o s.
Proof.
  induction s as [|a s IH]; intros [|b o]; simpl; try tauto.
  intros [[H|[H|H]] Hl]; (split; [|apply IH; exact Hl]); unfold acompat; auto.
Qed.

Lemma split_ok_compatible ts : split_ok ts -> compatible ts.
Proof.
  intros Hs f g p hf hg If Ig Ef Eg.
  destruct (Hs f g p hf hg If Ig Ef Eg) as [[H|[H|H]] Hty]; split; try exact Hty; subst.
  - apply lcompat_empty_l.
  - apply lcompat_sym. apply lcompat_empty_l.
  - apply lcompat_refl.
Qed.

(* ------------------------------------------------------------------------------------------ *)
(* the decidable checks evaluated on every generated case are sound for the hypotheses           *)
Lemma list_eqb_pos_eq a : forall b, list_eqb Pos.eqb a b = true -> a = b.
Proof.
  induction a as [|x a IH]; intros [|y b]; simpl; intros Hb; try reflexivity; try discriminate.
  apply andb_true_iff in Hb; destruct Hb as [Hx Hr].
  apply Pos.eqb_eq in Hx; subst. rewrite (IH _ Hr). reflexivity.
Qed.

Lemma acompatb_sound a b : acompatb a b = true -> acompat a b.
Proof.
  unfold acompatb, acompat. intros Hb.
  apply orb_true_iff in Hb; destruct Hb as [Hb|Hb].
  - apply orb_true_iff in Hb; destruct Hb as [Hb|Hb].
    + left; destruct a; [reflexivity | discriminate].
    + right; left; destruct b; [reflexivity | discriminate].
  - right; right; apply list_eqb_pos_eq; exact Hb.
Qed.

Lemma lcompatb_sound s : forall o, lcompatb s o = true -> lcompat s o.
Proof.
  induction s as [|a s IH]; intros [|b o]; simpl; intros Hb; try exact I.
  apply andb_true_iff in Hb; destruct Hb as [Ha Hr].
  split; [apply acompatb_sound; exact Ha | apply IH; exact Hr].
Qed.

Lemma hcompatb_sound a b : hcompatb a b = true -> hcompat a b.
Proof.
  unfold hcompatb, hcompat. intros Hb. apply andb_true_iff in Hb; destruct Hb as [Ht Hl].
  split; [apply Pos.eqb_eq; exact Ht | apply lcompatb_sound; exact Hl].
Qed.

Lemma tcompatb_sound a : forall b, tcompatb a b = true ->
  forall p ha hb, get a p = Some ha -> get b p = Some hb -> hcompat ha hb.
Proof.
  induction a as [ha0 ca IH] using node_ind2. intros [hb0 cb] Hb p ha hb Ga Gb.
  simpl in Hb. apply andb_true_iff in Hb; destruct Hb as [Hh Hgo].
  destruct p as [|n p].
  - simpl in Ga, Gb. inversion Ga; inversion Gb; subst. apply hcompatb_sound; exact Hh.
  - simpl in Ga, Gb.
    destruct (find n ca) as [x|] eqn:Fx; [|discriminate].
    destruct (find n cb) as [y|] eqn:Fy; [|discriminate].
    assert (tcompatb x y = true /\ (forall b', tcompatb x b' = true ->
              forall p ha hb, get x p = Some ha -> get b' p = Some hb -> hcompat ha hb)) as [Hxy IHx].
    { clear Ga Gb. induction ca as [|[k z] r IHr]; simpl in *; [discriminate|].
      inversion IH as [|? ? Pz Pr]; subst.
      apply andb_true_iff in Hgo; destruct Hgo as [Hz Hr].
      destruct (Pos.eqb k n) eqn:E.
      - apply Pos.eqb_eq in E; subst k. inversion Fx; subst z.
        rewrite Fy in Hz. split; [exact Hz | exact Pz].
      - apply IHr; assumption. }
    exact (IHx y Hxy p ha hb Ga Gb).
Qed.

Lemma compat_filesb_sound ts : compat_filesb ts = true -> compatible ts.
Proof.
  unfold compat_filesb, compatible. intros Hb f g p hf hg If Ig Ef Eg.
  rewrite forallb_forall in Hb. specialize (Hb f If). rewrite forallb_forall in Hb.
  exact (tcompatb_sound f g (Hb g Ig) p hf hg Ef Eg).
Qed.

Lemma forallb_wfb ts : forallb wfb ts = true -> Forall wf ts.
Proof.
  intros Hb. rewrite forallb_forall in Hb. apply Forall_forall. intros t Ht. apply wfb_wf, Hb, Ht.
Qed.

(* ------------------------------------------------------------------------------------------ *)
(* statements used by Props/C27.v                                                               *)
Theorem merge_perm_both ts ts' p :
  Permutation ts ts' -> Forall wf ts -> compatible ts ->
  get (merge_api ts) p = get (merge_api ts') p /\
  get (merge_compiler ts) p = get (merge_compiler ts') p.
Proof.
  intros HP Hwf Hc. split.
  - apply merge_api_perm; assumption.
  - unfold merge_compiler. apply merge_compiler_perm; assumption.
Qed.

Theorem split_perm (fs fs' : list file) p :
  Permutation fs fs' ->
  Forall wf (map file_to_tree fs) -> split_ok (map file_to_tree fs) ->
  get (merge_api (map file_to_tree fs)) p = get (merge_api (map file_to_tree fs')) p /\
  get (merge_compiler (map file_to_tree fs)) p = get (merge_compiler (map file_to_tree fs')) p.
Proof.
  intros HP Hwf Hs. apply merge_perm_both; try assumption.
  - apply Permutation_map; exact HP.
  - apply split_ok_compatible; exact Hs.
Qed.

Theorem observation_perm {A} (F : node -> A) :
  (forall t t', (forall p, get t p = get t' p) -> F t = F t') ->
  forall ts ts', Permutation ts ts' -> Forall wf ts -> compatible ts ->
  F (merge_api ts) = F (merge_api ts') /\ F (merge_compiler ts) = F (merge_compiler ts').
Proof.
  intros HF ts ts' HP Hwf Hc. split; apply HF; intros p;
    destruct (merge_perm_both ts ts' p HP Hwf Hc) as [H1 H2]; assumption.
Qed.

Theorem checked_hypotheses_sound ts :
  forallb wfb ts = true -> compat_filesb ts = true -> Forall wf ts /\ compatible ts.
Proof. intros H1 H2. split; [apply forallb_wfb; exact H1 | apply compat_filesb_sound; exact H2]. Qed.

(* concrete library: P (constants) with Base; `within P; model M`; `within P.Q; model S` *)
Definition ex_h (ty : positive) (syms eqs : attr) : hdr :=
  Hdr ty [[]; []; syms; []; []; eqs; []; []; []; []] [false; false; false].
Definition ex_f0 : file :=
  ([], [(10, Node (ex_h 1 [21; 22] []) [(11, Node (ex_h 3 [23] [31]) [])])])%positive.
Definition ex_f1 : file := ([10], [(12, Node (ex_h 3 [24] [32]) [])])%positive.
Definition ex_f2 : file := ([10; 13], [(14, Node (ex_h 3 [25] [33]) [])])%positive.
Definition ex_ts : list node := map file_to_tree [ex_f0; ex_f1; ex_f2].

Lemma ex_ok : Forall wf ex_ts /\ compatible ex_ts.
Proof. apply checked_hypotheses_sound; vm_compute; reflexivity. Qed.

Lemma ex_result :
  get (merge_api (map file_to_tree [ex_f2; ex_f1; ex_f0])) [10%positive] = Some (ex_h 1 [21; 22]%positive [])
  /\ get (merge_api (map file_to_tree [ex_f2; ex_f1; ex_f0])) [10; 13; 14]%positive = Some (ex_h 3 [25]%positive [33]%positive).
Proof. vm_compute. split; reflexivity. Qed.

(* two files that both give symbols to P: the hypothesis `compatible` cannot be dropped *)
Definition bad_a : node := file_to_tree ([], [(10, Node (ex_h 1 [21] []) [])])%positive.
Definition bad_b : node := file_to_tree ([], [(10, Node (ex_h 1 [22] []) [])])%positive.

Lemma incompatible_witness :
  Permutation [bad_a; bad_b] [bad_b; bad_a] /\ Forall wf [bad_a; bad_b] /\
  get (merge_api [bad_a; bad_b]) [10%positive] <> get (merge_api [bad_b; bad_a]) [10%positive].
Proof.
  split; [apply perm_swap|]. split.
  - apply forallb_wfb. vm_compute. reflexivity.
  - vm_compute. intros H; discriminate H.
Qed.

(* tools/compiler.parse_all called several times on one tree: adding the files batch by batch is the same fold *)
Lemma merge_compiler_batches (gs : list (list node)) (t0 : node) :
  fold_left extend (concat gs) t0 = fold_left (fun t g => fold_left extend g t) gs t0.
Proof.
  revert t0. induction gs as [|g gs IH]; intros t0; simpl; [reflexivity|].
  rewrite fold_left_app. apply IH.
Qed.
