(* C01 — proofs over Model/C01_cache.v: invariant over the op history (DESIGN.md A.5). *)
From Coq Require Import List Bool Arith ZArith Lia.
Import ListNotations.
From PV Require Import Model.C01_cache.

(* Histories the property quantifies over: the fault list of the property (entries that no longer
   unpickle, wrong layout, corrupt file, version change, ...).  Planting a VALID pickle of another
   object / another text's tree in a row is not in that list. *)
Definition legal_op (o : op) : bool :=
  match o with
  | CorruptEntry _ (Good _) | CorruptEntry _ OtherObject => false
  | _ => true
  end.
Definition legal (h : list op) : bool := forallb legal_op h.

(* faults after which the lookup's SELECT raises sqlite3.DatabaseError *)
Definition breaks (o : op) : bool :=
  match o with
  | CorruptFile | DeleteFile | ZeroFile | MakeDir
  | CorruptLayout LModelsDropped | CorruptLayout LModelsWrong | CorruptLayout LModelsView => true
  | _ => false
  end.

(* faults no re-initialisation can repair (only the decorator's fall-back to an uncached parse copes with them) *)
Definition persistent (o : op) : bool :=
  match o with MakeDir | CorruptLayout LModelsView => true | _ => false end.

(* "every database fault that hits an initialised process is followed by a Reload before the next
   (caching) Parse": a three-bit automaton over the op list.  init = this process has checked the
   database, dirty = a breaking fault happened since, vclean = the current version is not *.dirty *)
Fixpoint disciplined (init dirty vclean : bool) (h : list op) : bool :=
  match h with
  | [] => true
  | o :: h' =>
    match o with
    | Parse _ _ _ => if vclean then negb dirty && disciplined true false true h'
                     else disciplined init dirty vclean h'
    | Reload => disciplined false false vclean h'
    | SetVersion v => disciplined init dirty (is_clean v) h'
    | _ => negb (persistent o) && disciplined init (dirty || (init && breaks o)) vclean h'
    end
  end.

Definition usable (d : db) : Prop := match d with Db (MOk _ _) _ => True | _ => False end.
(* repairable by the once-per-process block: not a directory, no view named models *)
Definition benign (d : db) : Prop := match d with Dir | Db MView _ => False | _ => True end.

Lemma Forall_filter {A} (P : A -> Prop) (f : A -> bool) (l : list A) : Forall P l -> Forall P (filter f l).
Proof.
  rewrite !Forall_forall. intros H x Hx. apply filter_In in Hx. apply H, Hx.
Qed.

Section Proofs.
  Variable syntax_ok : nat -> bool.
  Variable caught : exn -> bool.
  Variable flag : bool.

  Notation fresh_out := (fresh_out syntax_ok).
  Notation step := (step syntax_ok caught flag).
  Notation next := (next syntax_ok caught flag).
  Notation outcome := (outcome syntax_ok caught flag).
  Notation run := (run syntax_ok caught flag).
  Notation exec := (exec syntax_ok caught flag).
  Notation parse_step := (parse_step syntax_ok caught flag).

  (* a row is sound: its text parses, and its blob is the tree of ITS OWN text or does not unpickle *)
  Definition row_ok (r : row) : Prop :=
    syntax_ok (r_key r) = true /\
    match r_blob r with Good t' => t' = r_key r | OtherObject => False | _ => True end.

  Definition db_inv (d : db) : Prop :=
    match d with Db (MOk _ rows) _ => Forall row_ok rows | _ => True end.
  Definition Inv (s : state) : Prop := db_inv (s_db s).

  Definition out_ok (o : op) (r : out) : Prop :=
    match o with Parse t _ _ => r = fresh_out t | _ => r = ONone end.

  (* every parse of the history returns what an uncached parse returns; nothing is raised *)
  Definition transparent (s : state) (h : list op) : Prop := Forall2 out_ok h (run s h).

  Lemma db_inv_init_db s days d : db_inv (s_db s) -> init_db s days = Some d -> db_inv d.
  Proof.
    unfold init_db, connect, integrity, check_structure, prune.
    destruct (s_db s) as [| | |[| | |[] rows] mt]; destruct (s_init s); simpl; intros H E;
      inversion E; subst; simpl; auto using Forall_filter, Forall_nil.
  Qed.

  Lemma touch_ok k v now rows : Forall row_ok rows -> Forall row_ok (touch k v now rows).
  Proof.
    unfold touch. rewrite !Forall_forall. intros H x Hx. apply in_map_iff in Hx as (r & <- & Hr).
    specialize (H r Hr). destruct (same_key k v r); auto.
  Qed.

  Lemma insert_ok t v now rows :
    syntax_ok t = true -> Forall row_ok rows -> Forall row_ok (insert t v (Good t) now rows).
  Proof.
    intros Ht H. unfold insert. constructor.
    - split; simpl; auto.
    - apply Forall_filter, H.
  Qed.

  Lemma set_blob_ok key b rows :
    legal_op (CorruptEntry key b) = true -> Forall row_ok rows -> Forall row_ok (set_blob key b rows).
  Proof.
    intros Hl. unfold set_blob. rewrite !Forall_forall. intros H x Hx.
    apply in_map_iff in Hx as (r & <- & Hr). specialize (H r Hr).
    destruct (Nat.eqb (r_key r) key); auto.
    destruct H as [H1 _]. split; simpl; auto. destruct b; simpl in *; auto; discriminate.
  Qed.

  Lemma miss_inv x rows mt s v t :
    Forall row_ok rows -> db_inv (s_db (fst (fst (miss syntax_ok x rows mt s v t)))).
  Proof.
    intros H. unfold miss. simpl. destruct (syntax_ok t) eqn:E; auto using insert_ok.
  Qed.

  Lemma db_fail_inv d e s t i n : db_inv d -> db_inv (s_db (fst (fst (db_fail syntax_ok flag d e s t i n)))).
  Proof. unfold db_fail. destruct flag; simpl; auto. Qed.

  Lemma connect_inv d : db_inv d -> db_inv (connect d).
  Proof. destruct d; simpl; auto. Qed.

  Lemma parse_step_inv s t days upd : Inv s -> Inv (fst (fst (parse_step s t days upd))).
  Proof.
    unfold Inv. intros H. unfold parse_step.
    destruct (s_ver s); [|exact H].
    destruct (init_db s days) as [d|] eqn:Ei; [|apply db_fail_inv, connect_inv, H].
    pose proof (db_inv_init_db s days d H Ei) as Hi.
    destruct d as [| | |[| | |x rows] mt]; try (apply db_fail_inv; exact I).
    - destruct (syntax_ok t); [apply db_fail_inv; exact I | exact I].
    - simpl in Hi.
      destruct (lookup t n rows) as [r|]; [|apply miss_inv, Hi].
      set (rows1 := if upd || (r_hit r <? s_clock s - DAY)%Z then touch t n (s_clock s) rows else rows).
      assert (H1 : Forall row_ok rows1) by (unfold rows1; destruct (_ || _); auto using touch_ok).
      destruct (r_blob r); try (simpl; exact H1); try (apply miss_inv, H1).
      destruct (caught e); [apply miss_inv, H1 | simpl; exact H1].
  Qed.

  Lemma step_inv s o : legal_op o = true -> Inv s -> Inv (next s o).
  Proof.
    intros Hl H. unfold next. destruct o; simpl; try exact H; try exact I.
    - apply parse_step_inv, H.
    - unfold Inv in *. simpl. destruct (s_db s) as [| | |[| | |x rows] mt]; simpl; auto.
      apply set_blob_ok; auto.
    - unfold Inv in *. simpl. destruct (s_db s) as [| | |[| | |x rows] mt]; destruct k; simpl; auto.
  Qed.

  Lemma exec_inv h s : legal h = true -> Inv s -> Inv (exec s h).
  Proof.
    revert s. induction h as [|o h IH]; intros s Hl H; simpl; auto.
    simpl in Hl. apply andb_true_iff in Hl as [Ho Hh]. apply IH; auto using step_inv.
  Qed.

  (* C01_rows_sound: in every state reached by a prefix of a legal history every row is sound —
     independent of which exceptions are caught and of the DatabaseError handling *)
  Theorem rows_sound s h1 h2 : legal (h1 ++ h2) = true -> Inv s -> Inv (exec s h1).
  Proof.
    intros Hl. apply exec_inv. unfold legal in *. rewrite forallb_app in Hl.
    apply andb_true_iff in Hl. tauto.
  Qed.

  Hypothesis all_caught : forall e, caught e = true.

  (* the lookup of this Parse will find a usable database *)
  Definition good_for_parse (s : state) (days : Z) : Prop := exists d, init_db s days = Some d /\ usable d.

  Lemma parse_out s t days upd :
    Inv s -> (flag = true \/ good_for_parse s days) -> outcome s (Parse t days upd) = fresh_out t.
  Proof.
    unfold Inv, outcome. intros H Hu. simpl. unfold parse_step.
    destruct (s_ver s); [|reflexivity].
    assert (F : forall d e i n, flag = true \/ False -> snd (fst (db_fail syntax_ok flag d e s t i n)) = fresh_out t).
    { intros d e i n0 [->|[]]. reflexivity. }
    destruct (init_db s days) as [d|] eqn:Ei.
    2: { apply F. destruct Hu as [Hf|(d & Hd & _)]; [auto|congruence]. }
    assert (Hu' : flag = true \/ usable d).
    { destruct Hu as [Hf|(d' & Hd & Hus)]; [auto|]. rewrite Ei in Hd. inversion Hd; subst. auto. }
    pose proof (db_inv_init_db s days d H Ei) as Hi.
    destruct d as [| | |[| | |x rows] mt]; try (apply F; destruct Hu' as [Hf|[]]; auto).
    - destruct (syntax_ok t) eqn:Es; [|unfold C01_cache.fresh_out; rewrite Es; reflexivity].
      apply F. destruct Hu' as [Hf|[]]; auto.
    - simpl in Hi.
      destruct (lookup t n rows) as [r|] eqn:El; [|reflexivity].
      apply find_some in El as [Hin Hk].
      rewrite Forall_forall in Hi. specialize (Hi r Hin) as [Hs Hb].
      unfold same_key in Hk. apply andb_true_iff in Hk as [Hk _]. apply Nat.eqb_eq in Hk.
      destruct (r_blob r); simpl.
      + subst. unfold C01_cache.fresh_out. rewrite Hs. reflexivity.
      + rewrite all_caught. reflexivity.
      + reflexivity.
      + destruct Hb.
  Qed.

  Lemma other_out s o : (forall t d u, o <> Parse t d u) -> outcome s o = ONone.
  Proof. intros H. destruct o; try reflexivity. exfalso. eapply H. reflexivity. Qed.

  (* C01_transparent for a source that handles DatabaseError after initialisation *)
  Theorem transparent_fixed : flag = true -> forall s h, legal h = true -> Inv s -> transparent s h.
  Proof.
    intros Hf s h. revert s. induction h as [|o h IH]; intros s Hl H; [constructor|].
    simpl in Hl. apply andb_true_iff in Hl as [Ho Hh].
    unfold transparent. simpl. constructor.
    - destruct o; try reflexivity. simpl. apply parse_out; auto.
    - apply IH; auto using step_inv.
  Qed.

  (* ---- the reload discipline ---- *)
  Definition link (s : state) (init dirty vclean : bool) : Prop :=
    s_init s = init /\ is_clean (s_ver s) = vclean /\ benign (s_db s) /\
    (init = true -> dirty = false -> usable (s_db s)).

  Lemma usable_benign d : usable d -> benign d.
  Proof. destruct d as [| | |[| | |x rows] mt]; simpl; auto. Qed.

  Lemma good_init_db s days :
    benign (s_db s) -> (s_init s = true -> usable (s_db s)) -> good_for_parse s days.
  Proof.
    unfold good_for_parse, init_db. destruct (s_init s).
    - intros _ H. specialize (H eq_refl).
      destruct (s_db s) as [| | |[| | |x rows] mt]; simpl in *; try contradiction.
      eexists; split; [reflexivity|exact I].
    - intros Hb _.
      destruct (s_db s) as [| | |[| | |[] rows] mt]; simpl in *; try contradiction;
        (eexists; split; [reflexivity|exact I]).
  Qed.

  Lemma parse_next_clean s t days upd n :
    s_ver s = Clean n -> good_for_parse s days ->
    let s' := next s (Parse t days upd) in
    s_init s' = true /\ s_ver s' = s_ver s /\ usable (s_db s').
  Proof.
    intros Hv (d & Ed & Hu). unfold next. simpl. unfold parse_step. rewrite Hv, Ed.
    destruct d as [| | |[| | |x rows] mt]; try destruct Hu.
    destruct (lookup t n rows) as [r|]; [|unfold miss; simpl; rewrite Hv; auto].
    destruct (r_blob r); simpl; rewrite ?Hv; auto.
    destruct (caught e); simpl; rewrite ?Hv; auto.
  Qed.

  Definition plain (o : op) : Prop :=
    match o with Parse _ _ _ | Reload | SetVersion _ => False | _ => True end.

  Lemma nonbreaking_usable s o :
    breaks o = false -> plain o -> usable (s_db s) -> usable (s_db (next s o)).
  Proof.
    intros Hb Hp Hu. unfold next. destruct o; simpl in *; auto; try discriminate; try contradiction.
    - destruct (s_db s) as [| | |[| | |x rows] mt]; simpl in *; auto.
    - destruct (s_db s) as [| | |[| | |x rows] mt]; destruct k; simpl in *; auto; discriminate.
  Qed.

  Lemma nonpersistent_benign s o :
    persistent o = false -> plain o -> benign (s_db s) -> benign (s_db (next s o)).
  Proof.
    intros Hb Hp Hu. unfold next. destruct o; simpl in *; auto; try discriminate; try contradiction.
    - destruct (s_db s) as [| | |[| | |x rows] mt]; simpl in *; auto.
    - destruct (s_db s) as [| | |[| | |x rows] mt]; destruct k; simpl in *; auto; discriminate.
  Qed.

  Lemma plain_keeps s o : plain o -> s_init (next s o) = s_init s /\ s_ver (next s o) = s_ver s.
  Proof. intros Hp. unfold next. destruct o; simpl in *; auto; contradiction. Qed.

  Lemma other_link s o i d c :
    plain o -> persistent o = false -> link s i d c -> link (next s o) i (d || (i && breaks o)) c.
  Proof.
    intros Hp Hn (Hi & Hc & Hb & Hu). destruct (plain_keeps s o Hp) as [A B].
    repeat split; try congruence.
    - apply nonpersistent_benign; auto.
    - intros E1 E2. apply orb_false_iff in E2 as [E2 E3]. rewrite E1, andb_true_l in E3.
      apply nonbreaking_usable; auto.
  Qed.

  Lemma transparent_link h : forall s i d c,
    legal h = true -> Inv s -> link s i d c -> disciplined i d c h = true -> transparent s h.
  Proof.
    induction h as [|o h IH]; intros s i d c Hl H Hk Hd; [constructor|].
    simpl in Hl. apply andb_true_iff in Hl as [Ho Hh].
    unfold transparent. simpl.
    assert (Hinv' : Inv (next s o)) by auto using step_inv.
    assert (Other : plain o -> negb (persistent o) && disciplined i (d || (i && breaks o)) c h = true ->
                    Forall2 out_ok (o :: h) (outcome s o :: run (next s o) h)).
    { intros Hp Hd'. apply andb_true_iff in Hd' as [Hn Hd']. apply negb_true_iff in Hn.
      constructor; [destruct o; simpl in *; try reflexivity; contradiction|].
      eapply IH; eauto. apply other_link; auto. }
    destruct Hk as (Hi & Hc & Hb & Hu).
    destruct o as [t days upd| |v|dt|key b|k| | | |]; try (apply Other; [exact I|exact Hd]).
    - (* Parse *)
      simpl in Hd. destruct c.
      + apply andb_true_iff in Hd as [Hdirty Hd]. apply negb_true_iff in Hdirty. subst d.
        destruct (s_ver s) as [n|n] eqn:Hv; [|simpl in Hc; discriminate].
        assert (Hus : good_for_parse s days).
        { apply good_init_db; auto. intros E. apply Hu; congruence. }
        constructor; [apply parse_out; auto|].
        destruct (parse_next_clean s t days upd n Hv Hus) as (A & B & C).
        eapply IH; eauto. repeat split; auto using usable_benign. rewrite B, Hv. reflexivity.
      + destruct (s_ver s) as [n|n] eqn:Hv; [simpl in Hc; discriminate|].
        constructor.
        * unfold outcome. simpl. unfold C01_cache.parse_step. rewrite Hv. reflexivity.
        * assert (E : next s (Parse t days upd) = s).
          { unfold C01_cache.next. simpl. unfold C01_cache.parse_step. rewrite Hv. reflexivity. }
          rewrite E in *. eapply IH; eauto. repeat split; auto. rewrite Hv. reflexivity.
    - constructor; [reflexivity|]. simpl in Hd. eapply IH; eauto. repeat split; auto. discriminate.
    - constructor; [reflexivity|]. simpl in Hd. eapply IH; eauto. repeat split; auto.
  Qed.

  (* positive theorem for a source that does NOT handle DatabaseError after initialisation (any flag):
     from a freshly started process, transparent provided every breaking fault that hits an
     initialised process is followed by a reload before the next caching parse *)
  Theorem transparent_reload s h :
    legal h = true -> Inv s -> s_init s = false -> benign (s_db s) ->
    disciplined false false (is_clean (s_ver s)) h = true -> transparent s h.
  Proof.
    intros Hl H Hi Hb Hd. eapply transparent_link; eauto. repeat split; auto. discriminate.
  Qed.
End Proofs.

(* ---- refutations (faithful model of the unrepaired behaviours) ---- *)
Definition witness_dberr : list op := [Parse 0 (30 * DAY) false; CorruptFile; Parse 0 (30 * DAY) false].
Definition witness_uncaught (e : exn) : list op := [Parse 0 (30 * DAY) false; CorruptEntry 0 (Raises e); Parse 0 (30 * DAY) false].

Lemma third_out sy caught flag a b c :
  transparent sy caught flag init_state [a; b; c] ->
  out_ok sy c (outcome sy caught flag (exec sy caught flag init_state [a; b]) c).
Proof.
  unfold transparent. simpl. intros H.
  inversion H as [|? ? ? ? _ H1]; subst. inversion H1 as [|? ? ? ? _ H2]; subst.
  inversion H2 as [|? ? ? ? H3 _]; subst. exact H3.
Qed.

Theorem refuted_dberr sy caught flag :
  flag = false -> exists h, legal h = true /\ ~ transparent sy caught flag init_state h.
Proof.
  intros ->. exists witness_dberr. split; [reflexivity|]. intros H. apply third_out in H.
  unfold out_ok, fresh_out in H. destruct (sy 0%nat); vm_compute in H; discriminate H.
Qed.

Theorem refuted_uncaught sy caught flag e :
  caught e = false -> sy 0%nat = true ->
  legal (witness_uncaught e) = true /\ ~ transparent sy caught flag init_state (witness_uncaught e).
Proof.
  intros Hc Hs. split; [reflexivity|]. intros H. apply third_out in H.
  unfold out_ok, fresh_out in H.
  cbn in H. rewrite Hs in H. cbn in H.
  unfold outcome, step, parse_step in H. cbn in H. rewrite Hc in H. cbn in H.
  discriminate H.
Qed.
