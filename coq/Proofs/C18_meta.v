(* C18 — the metadata rows of the expanded model: one row per scalar, in enumeration order, the
   columns (CASADI_ATTRIBUTES order) being the selected elements.  variable_metadata_function
   (model.py l.1366-1396) stacks exactly these rows per category (for 1 x 1 symbols `repmat` is the
   identity).  stdlib only. *)
From Coq Require Import String List Arith ZArith Bool Lia.
From PV Require Import Model.C18_expand Proofs.C18_expand.
Import ListNotations.
Open Scope nat_scope.
Open Scope list_scope.

(* rows contributed by one variable of the unexpanded model *)
Definition rows_of (v : uvar) (delay : list string) : list (list sel) :=
  if is_expanded v delay
  then map (fun idx => map (fun a => sel_attr a idx) (uattrs v)) (ndindex (iter_dims (ushape v)))
  else [map keep_attr (uattrs v)].

Lemma step_var_rows acc s v acc' s' :
  step_var (Some (acc, s)) v = Some (acc', s') ->
  map snd acc' = map snd acc ++ rows_of v (st_delay s)
  /\ map fst acc' = map fst acc ++
       (if is_expanded v (st_delay s)
        then match expand_var v with Some ex => map fst ex | None => [] end else [uname v]).
Proof.
  unfold step_var, rows_of. destruct (is_expanded v (st_delay s)).
  - destruct (expand_var v) as [ex|] eqn:E; [|discriminate].
    destruct (usize v) as [n1 n2]. intros H. inversion H; subst; clear H.
    destruct (expand_var_spec v ex E) as (_ & R & _).
    rewrite !map_app, R. auto.
  - intros H. inversion H; subst; clear H. rewrite !map_app. cbn. auto.
Qed.

Lemma step_var_nodelay acc s v acc' s' :
  step_var (Some (acc, s)) v = Some (acc', s') -> st_delay s = [] -> st_delay s' = [].
Proof.
  unfold step_var. intros H D. rewrite D in H. cbn [mem index_of] in H.
  destruct (is_expanded v []).
  - destruct (expand_var v); [|discriminate]. destruct (usize v). inversion H; subst. reflexivity.
  - inversion H; subst. exact D.
Qed.

Lemma fold_step_none g : fold_left step_var g None = None.
Proof. induction g; cbn; auto. Qed.

(* one category of a model without delay states: the metadata matrix of the expanded model has, for
   each variable of the unexpanded model in order, one row per element in np.ndindex order carrying
   the selected element of every attribute (or the variable's own row when it is a scalar) *)
Theorem metadata_rows_group g : forall acc s acc' s',
  fold_left step_var g (Some (acc, s)) = Some (acc', s') -> st_delay s = [] ->
  map snd acc' = map snd acc ++ flat_map (fun v => rows_of v []) g /\ st_delay s' = [].
Proof.
  induction g as [|v g IH]; intros acc s acc' s' H D; cbn [fold_left flat_map] in *.
  - inversion H; subst. now rewrite app_nil_r.
  - destruct (step_var (Some (acc, s)) v) as [[acc1 s1]|] eqn:E.
    + destruct (step_var_rows _ _ _ _ _ E) as (R & _).
      pose proof (step_var_nodelay _ _ _ _ _ E D) as D1.
      destruct (IH _ _ _ _ H D1) as (R' & D').
      split; auto. rewrite R', R, D, <- app_assoc. reflexivity.
    + rewrite fold_step_none in H. discriminate.
Qed.

(* every row has one cell per attribute *)
Lemma rows_of_width v delay r : In r (rows_of v delay) -> length r = length (uattrs v).
Proof.
  unfold rows_of. destruct (is_expanded v delay); intros H.
  - apply in_map_iff in H as (idx & <- & _). now rewrite map_length.
  - destruct H as [<-|[]]. now rewrite map_length.
Qed.

(* ---------------------------------------------------------------------------------------- *)
(* expansion commutes with any row function                                                   *)
Section RowFunction.
  Variable R : Type.
  Variable row : list sel -> R.     (* the metadata row computed from the six selected attribute objects *)

  (* rows of the expanded category = per unexpanded variable, in order, the row function applied to the
     variable's attributes specialised to each element in np.ndindex order *)
  Theorem metadata_rows_commute g acc s acc' s' :
    fold_left step_var g (Some (acc, s)) = Some (acc', s') -> st_delay s = [] ->
    map row (map snd acc')
    = map row (map snd acc)
      ++ flat_map (fun v => if has_dims (ushape v)
                            then map (fun idx => row (map (fun a => sel_attr a idx) (uattrs v)))
                                     (ndindex (iter_dims (ushape v)))
                            else [row (map keep_attr (uattrs v))]) g.
  Proof.
    intros H D. destruct (metadata_rows_group g acc s acc' s' H D) as (E & _).
    rewrite E, map_app. f_equal. clear H E.
    induction g as [|v g IH]; [reflexivity|]. cbn [flat_map]. rewrite map_app. f_equal; [|exact IH].
    unfold rows_of, is_expanded. cbn [mem index_of]. rewrite orb_false_r.
    destruct (has_dims (ushape v)); [now rewrite map_map | reflexivity].
  Qed.
End RowFunction.

(* ---------------------------------------------------------------------------------------- *)
(* instance in the vocabulary of C13's metadata model (Model/C13_metadata.v, read-only)         *)
From Coq Require Import QArith Qcanon.
From PV Require Model.C13_metadata.
Module C13 := PV.Model.C13_metadata.

(* attribute numbers are handed to Coq scaled by 64 *)
Definition ext_of (a : aval) : C13.ext :=
  match a with
  | ANum z => C13.Fin (Q2Qc (Qmake z 64))
  | ANaN => C13.NaN | APInf => C13.PosInf | ANInf => C13.NegInf
  end.
(* the cell C13's `column` puts into the metadata matrix for a numeric attribute object; None = the
   attribute is not a number (a left-over list, an error) *)
Definition c13_cell (x : sel) : option C13.cell :=
  match x with SVal a => Some (C13.CLit (ext_of a)) | _ => None end.
Definition c13_row (r : list sel) : list (option C13.cell) := map c13_cell r.

(* C13's column of a size-1 Real variable declared with the finite literal q is exactly that cell *)
Lemma c13_column_literal (d : C13.attr -> C13.decl) (a : C13.attr) (q : Qc) :
  d a = C13.DLit (C13.LReal q) ->
  C13.column (C13.Var C13.TReal 1 d) a = Some [C13.CLit (C13.Fin q)].
Proof. intros H. unfold C13.column, C13.eff_decl. cbn [C13.vdecl C13.vt C13.vsize]. rewrite H. reflexivity. Qed.

(* ... and the default cells of an attribute that is not given are C13's defaults *)
Lemma c13_column_default (d : C13.attr -> C13.decl) (a : C13.attr) :
  d a = C13.DNone ->
  C13.column (C13.Var C13.TReal 1 d) a = Some [C13.CLit (fst (C13.default a))].
Proof.
  intros H. unfold C13.column, C13.eff_decl. cbn [C13.vdecl C13.vt C13.vsize]. rewrite H.
  destruct a; reflexivity.
Qed.
