(* C03 — value-level theorems:
     1. value_resign  : the tree the pymoca grammar builds (sign attached to the left-most factor)
                        evaluates like the intended tree;
     2. literals      : horner = positional notation; int / real literal values;
     3. string escapes: str_value keeps the raw text, which equals the decoded text exactly when
                        there is no backslash; refuted in general. *)
From Coq Require Import List Arith NArith ZArith QArith Qcanon Qpower Qfield Bool Lia.
From Coq Require String Ascii.
From PV Require Import Model.C03_prec Lib.C03_spec.
Import ListNotations.
Local Open Scope nat_scope.

(* ------------------------------------------------------------------ *)
(* 1. resign preserves the value                                       *)
(* ------------------------------------------------------------------ *)

Lemma ev_bin_sign : forall o m, is_sign o = true -> is_mul m = true ->
  forall a b : val, ev_bin m (ev_un o a) b = ev_un o (ev_bin m a b).
Proof.
  intros o m Ho Hm a b.
  destruct o; try discriminate Ho; destruct m; try discriminate Hm;
    destruct a, b; simpl; try reflexivity; f_equal; try ring; unfold Qcdiv; ring.
Qed.

Definition sign_ok (pend : option sym) : Prop :=
  match pend with None => True | Some o => is_sign o = true end.

Section Value.
  Variable rho : positive -> val.
  Variable fn : fname -> list val -> val.

  Lemma eval_wrap : forall pend x,
    eval rho fn (wrap pend x) =
    match pend with Some o => ev_un o (eval rho fn x) | None => eval rho fn x end.
  Proof. destruct pend; reflexivity. Qed.

  Lemma wrap_congr : forall pend x y,
    eval rho fn x = eval rho fn y -> eval rho fn (wrap pend x) = eval rho fn (wrap pend y).
  Proof. intros pend x y H. rewrite !eval_wrap. rewrite H. reflexivity. Qed.

  Lemma eval_if_congr : forall (c c' t t' e e' : expr) (cs cs' bs bs' : list expr),
    eval rho fn c = eval rho fn c' -> eval rho fn t = eval rho fn t' -> eval rho fn e = eval rho fn e' ->
    map (eval rho fn) cs = map (eval rho fn) cs' -> map (eval rho fn) bs = map (eval rho fn) bs' ->
    eval rho fn (IfE (c :: cs) (t :: bs ++ [e])) = eval rho fn (IfE (c' :: cs') (t' :: bs' ++ [e'])).
  Proof.
    intros c c' t t' e e' cs cs' bs bs' Hc Ht He Hcs Hbs.
    change (ev_if (map (eval rho fn) (c :: cs)) (map (eval rho fn) (t :: bs ++ [e]))
            = ev_if (map (eval rho fn) (c' :: cs')) (map (eval rho fn) (t' :: bs' ++ [e']))).
    rewrite !map_cons, !map_app, !map_cons. cbn [map].
    rewrite Hc, Ht, He, Hcs, Hbs. reflexivity.
  Qed.

  Lemma eval_call_congr : forall f (l l' : list expr),
    map (eval rho fn) l = map (eval rho fn) l' -> eval rho fn (Call f l) = eval rho fn (Call f l').
  Proof.
    intros f l l' H.
    change (fn f (map (eval rho fn) l) = fn f (map (eval rho fn) l')). rewrite H. reflexivity.
  Qed.

  Lemma map_eval_ext : forall (A : Type) (f g : A -> expr) (l : list A),
    Forall (fun x => eval rho fn (f x) = eval rho fn (g x)) l ->
    map (eval rho fn) (map f l) = map (eval rho fn) (map g l).
  Proof.
    intros A f g l H. induction H as [| x l Hx Hl IH].
    - reflexivity.
    - cbn [map]. rewrite Hx, IH. reflexivity.
  Qed.

  Definition rs_ok (e : sexpr) : Prop :=
    forall pend : option sym, sign_ok pend ->
    eval rho fn (rs pend e) = eval rho fn (wrap pend (strip e)).

  Lemma rs_value : forall (e : sexpr), rs_ok e.
  Proof.
    intro e. induction e as [a | e IHe | o e IHe | m l r IHl IHr | c t el e IHc IHt IHel IHe | f args IHargs]
      using sexpr_ind'; intros pend Hp.
    - reflexivity.
    - assert (H0 : eval rho fn (rs None e) = eval rho fn (strip e)) by exact (IHe None I).
      simpl rs; simpl strip. apply wrap_congr. exact H0.
    - simpl rs; simpl strip. rewrite !eval_wrap.
      destruct (is_sign o) eqn:Ho.
      + assert (H1 : eval rho fn (rs (Some o) e) = ev_un o (eval rho fn (strip e)))
          by exact (IHe (Some o) Ho).
        rewrite H1. reflexivity.
      + assert (H0 : eval rho fn (rs None e) = eval rho fn (strip e)) by exact (IHe None I).
        simpl eval. rewrite H0. reflexivity.
    - assert (Hr : eval rho fn (rs None r) = eval rho fn (strip r)) by exact (IHr None I).
      simpl rs; simpl strip.
      destruct (is_mul m) eqn:Hm.
      + simpl eval. rewrite Hr. rewrite (IHl pend Hp). rewrite !eval_wrap.
        destruct pend as [o|].
        * simpl eval. apply ev_bin_sign; assumption.
        * reflexivity.
      + assert (Hl : eval rho fn (rs None l) = eval rho fn (strip l)) by exact (IHl None I).
        rewrite !eval_wrap. simpl eval. rewrite Hl, Hr. reflexivity.
    - simpl rs; simpl strip. apply wrap_congr. apply eval_if_congr.
      + exact (IHc None I).
      + exact (IHt None I).
      + exact (IHe None I).
      + apply map_eval_ext. eapply Forall_impl; [| exact IHel].
        intros [c' b'] [H1 H2]. exact (H1 None I).
      + apply map_eval_ext. eapply Forall_impl; [| exact IHel].
        intros [c' b'] [H1 H2]. exact (H2 None I).
    - simpl rs; simpl strip. apply wrap_congr. apply eval_call_congr.
      apply map_eval_ext. eapply Forall_impl; [| exact IHargs].
      intros x Hx. exact (Hx None I).
  Qed.

  Theorem value_resign : forall e : sexpr, eval rho fn (resign e) = eval rho fn (strip e).
  Proof. intro e. unfold resign. exact (rs_value e None I). Qed.
End Value.

(* ------------------------------------------------------------------ *)
(* 2. literals                                                         *)
(* ------------------------------------------------------------------ *)

(* positional notation, most significant digit first *)
Fixpoint posval (ds : list nat) : N :=
  match ds with
  | [] => 0%N
  | d :: r => (N.of_nat d * 10 ^ N.of_nat (length r) + posval r)%N
  end.

Lemma fold_horner : forall ds a,
  fold_left (fun a d => (10 * a + N.of_nat d)%N) ds a
  = (a * 10 ^ N.of_nat (length ds) + posval ds)%N.
Proof.
  induction ds as [| d r IH]; intro a.
  - cbn [fold_left posval length]. change (N.of_nat 0) with 0%N.
    rewrite N.pow_0_r. ring.
  - cbn [fold_left posval length]. rewrite IH.
    rewrite Nat2N.inj_succ, N.pow_succ_r'. ring.
Qed.

Theorem horner_posval : forall ds, horner ds = posval ds.
Proof.
  intro ds. unfold horner. rewrite fold_horner. ring.
Qed.

Lemma posval_app : forall a b,
  posval (a ++ b) = (posval a * 10 ^ N.of_nat (length b) + posval b)%N.
Proof.
  induction a as [| d r IH]; intro b.
  - cbn [app posval]. ring.
  - cbn [app posval]. rewrite IH, app_length, Nat2N.inj_add, N.pow_add_r. ring.
Qed.

Theorem literal_int : forall ds, num_value (mkNum ds None None) = VInt (posval ds).
Proof.
  intro ds. unfold num_value. cbn [n_int n_frac n_exp]. rewrite horner_posval. reflexivity.
Qed.

Definition frac_digits (fr : option digits) : digits :=
  match fr with Some d => d | None => [] end.

(* the decimal value of  ip [. fd] [e ex]  *)
Definition dec_value (ip : digits) (fr : option digits) (ex : option (bool * digits)) : Q :=
  ((inject_Z (Z.of_N (posval ip))
    + inject_Z (Z.of_N (posval (frac_digits fr)))
      / Qpower (10 # 1) (Z.of_nat (length (frac_digits fr))))
   * Qpower (10 # 1) (exp_of ex))%Q.

Lemma ten_neq_0 : ~ (10 # 1 == 0)%Q.
Proof. unfold Qeq. simpl. discriminate. Qed.

Lemma real_core : forall (ip fd : digits) (z : Z),
  (inject_Z (Z.of_N (horner (ip ++ fd))) * Qpower (10 # 1) (z - Z.of_nat (length fd))
   == (inject_Z (Z.of_N (posval ip))
       + inject_Z (Z.of_N (posval fd)) / Qpower (10 # 1) (Z.of_nat (length fd)))
      * Qpower (10 # 1) z)%Q.
Proof.
  intros ip fd z.
  rewrite horner_posval, posval_app.
  rewrite N2Z.inj_add, N2Z.inj_mul, N2Z.inj_pow, nat_N_Z.
  change (Z.of_N 10) with 10%Z.
  rewrite inject_Z_plus, inject_Z_mult.
  rewrite Zpower_Qpower by apply Nat2Z.is_nonneg.
  change (inject_Z 10) with (10 # 1).
  unfold Z.sub. rewrite Qpower_plus by exact ten_neq_0. rewrite Qpower_opp.
  assert (HP : ~ (Qpower (10 # 1) (Z.of_nat (length fd)) == 0)%Q).
  { apply Qpower_not_0. exact ten_neq_0. }
  set (P := Qpower (10 # 1) (Z.of_nat (length fd))) in *.
  set (E := Qpower (10 # 1) z).
  field. exact HP.
Qed.

Theorem literal_real : forall ip fr ex, (fr <> None \/ ex <> None) ->
  exists q, num_value (mkNum ip fr ex) = VReal q /\ Qeq q (dec_value ip fr ex).
Proof.
  intros ip fr ex H.
  exists (inject_Z (Z.of_N (horner (ip ++ frac_digits fr)))
          * Qpower (10 # 1) (exp_of ex - Z.of_nat (length (frac_digits fr))))%Q.
  split.
  - destruct fr, ex; try reflexivity. destruct H; congruence.
  - unfold dec_value. apply real_core.
Qed.

(* the exponent too is read positionally *)
Lemma exp_of_posval : forall ex,
  exp_of ex = match ex with
              | None => 0%Z
              | Some (neg, ds) => if neg then (- Z.of_N (posval ds))%Z else Z.of_N (posval ds)
              end.
Proof. intros [[neg ds]|]; simpl; [rewrite horner_posval|]; reflexivity. Qed.

(* ------------------------------------------------------------------ *)
(* 3. string escapes                                                   *)
(* ------------------------------------------------------------------ *)
Import Ascii.

Definition is_bs (c : ascii) : bool := N.eqb (N_of_ascii c) 92%N.

(* character denoted by  \d , None when  \d  is not an escape sequence *)
Definition unescape (d : ascii) : option ascii :=
  match N_of_ascii d with
  | 39%N | 34%N | 63%N | 92%N => Some d          (* quote, double quote, question mark, backslash *)
  | 97%N => Some (ascii_of_N 7)                  (* \a *)
  | 98%N => Some (ascii_of_N 8)                  (* \b *)
  | 102%N => Some (ascii_of_N 12)                (* \f *)
  | 110%N => Some (ascii_of_N 10)                (* \n *)
  | 114%N => Some (ascii_of_N 13)                (* \r *)
  | 116%N => Some (ascii_of_N 9)                 (* \t *)
  | 118%N => Some (ascii_of_N 11)                (* \v *)
  | _ => None
  end.

Fixpoint decode (s : string) : string :=
  match s with
  | String.EmptyString => String.EmptyString
  | String.String c r =>
      if is_bs c then
        match r with
        | String.EmptyString => String.String c String.EmptyString
        | String.String d r' =>
            match unescape d with
            | Some x => String.String x (decode r')
            | None => String.String c (decode r)
            end
        end
      else String.String c (decode r)
  end.

Fixpoint escape_free (s : string) : bool :=
  match s with
  | String.EmptyString => true
  | String.String c r => negb (is_bs c) && escape_free r
  end.

Lemma decode_escape_free : forall raw, escape_free raw = true -> decode raw = raw.
Proof.
  induction raw as [| c r IH]; intro H.
  - reflexivity.
  - cbn [escape_free] in H. apply andb_true_iff in H. destruct H as [Hc Hr].
    cbn [decode]. destruct (is_bs c); [discriminate Hc|].
    rewrite (IH Hr). reflexivity.
Qed.

Theorem string_escape_free : forall raw,
  escape_free raw = true -> str_value raw = VStr (decode raw).
Proof.
  intros raw H. unfold str_value. rewrite (decode_escape_free raw H). reflexivity.
Qed.

(* the four characters  a, backslash, double quote, b  *)
Definition esc_witness : string :=
  String.String (ascii_of_N 97) (String.String (ascii_of_N 92)
    (String.String (ascii_of_N 34) (String.String (ascii_of_N 98) String.EmptyString))).

Theorem string_escape_refuted : exists raw, str_value raw <> VStr (decode raw).
Proof.
  exists esc_witness. intro H. vm_compute in H. discriminate H.
Qed.

(* has_escape raw: raw contains a backslash followed by a character that `unescape` recognises
   (same case split as decode: scanning never skips a character before it answers true) *)
Fixpoint has_escape (s : string) : bool :=
  match s with
  | String.EmptyString => false
  | String.String c r =>
      if is_bs c then
        match r with
        | String.EmptyString => false
        | String.String d _ =>
            match unescape d with
            | Some _ => true
            | None => has_escape r
            end
        end
      else has_escape r
  end.

(* decoding never lengthens the text, and shortens it as soon as there is one escape sequence *)
Lemma decode_len : forall n s, String.length s <= n ->
  String.length (decode s) <= String.length s
  /\ (has_escape s = true -> String.length (decode s) < String.length s).
Proof.
  induction n as [| n IHn]; intros s Hn.
  - destruct s as [| c r]; cbn [String.length] in Hn; [| lia].
    cbn. split; [lia | discriminate].
  - destruct s as [| c r].
    + cbn. split; [lia | discriminate].
    + cbn [String.length] in Hn. cbn [decode has_escape].
      destruct (is_bs c).
      * destruct r as [| d r'].
        { cbn. split; [lia | discriminate]. }
        destruct (unescape d) as [x |].
        { cbn [String.length] in Hn |- *.
          destruct (IHn r') as [H1 _]; [lia |].
          split; [lia | intros _; lia]. }
        { destruct (IHn (String.String d r')) as [H1 H2]; [cbn [String.length] in Hn |- *; lia |].
          cbn [String.length] in *.
          split; [lia | intro H; specialize (H2 H); lia]. }
      * destruct (IHn r) as [H1 H2]; [lia |].
        cbn [String.length].
        split; [lia | intro H; specialize (H2 H); lia].
Qed.

Theorem decode_length_le : forall s, String.length (decode s) <= String.length s.
Proof. intro s. exact (proj1 (decode_len (String.length s) s (le_n _))). Qed.

Theorem decode_length_lt : forall s,
  has_escape s = true -> String.length (decode s) < String.length s.
Proof. intro s. exact (proj2 (decode_len (String.length s) s (le_n _))). Qed.

(* universal refutation: every string body that contains an escape sequence gets the wrong value *)
Theorem string_escape_always_wrong : forall raw,
  has_escape raw = true -> str_value raw <> VStr (decode raw).
Proof.
  intros raw H E. unfold str_value in E. injection E as E'.
  pose proof (decode_length_lt raw H) as HL.
  apply (f_equal String.length) in E'. lia.
Qed.

Lemma has_escape_not_free : forall s, has_escape s = true -> escape_free s = false.
Proof.
  induction s as [| c r IH]; intro H.
  - discriminate H.
  - cbn [has_escape] in H. cbn [escape_free]. destruct (is_bs c); [reflexivity |].
    cbn. exact (IH H).
Qed.

(* ---- the table-driven listener (T2): with the standard table it is num_value / str_value ---- *)
Lemma listener_ok_std : forall lt, listener_ok lt = true -> lt = std_lt.
Proof.
  intros lt H. unfold listener_ok in H.
  destruct (ltable_eq_dec lt std_lt) as [E | _]; [exact E | discriminate H].
Qed.

Theorem num_value_lt_std : forall lt n, listener_ok lt = true -> num_value_lt lt n = num_value n.
Proof. intros lt n H. apply listener_ok_std in H. subst lt. reflexivity. Qed.

Theorem str_value_lt_std : forall lt raw, listener_ok lt = true -> str_value_lt lt raw = str_value raw.
Proof. intros lt raw H. apply listener_ok_std in H. subst lt. reflexivity. Qed.

(* exactly what the code does: the raw body between the quotes *)
Theorem string_raw : forall lt raw, listener_ok lt = true -> str_value_lt lt raw = VStr raw.
Proof. intros lt raw H. rewrite (str_value_lt_std lt raw H). reflexivity. Qed.

Theorem literal_int_lt : forall lt ds, listener_ok lt = true ->
  num_value_lt lt (mkNum ds None None) = VInt (posval ds).
Proof. intros lt ds H. rewrite (num_value_lt_std lt _ H). apply literal_int. Qed.

Theorem literal_real_lt : forall lt ip fr ex, listener_ok lt = true -> (fr <> None \/ ex <> None) ->
  exists q, num_value_lt lt (mkNum ip fr ex) = VReal q /\ Qeq q (dec_value ip fr ex).
Proof. intros lt ip fr ex H H0. rewrite (num_value_lt_std lt _ H). apply literal_real. exact H0. Qed.

Theorem string_escape_always_wrong_lt : forall lt raw, listener_ok lt = true ->
  has_escape raw = true -> str_value_lt lt raw <> VStr (decode raw).
Proof. intros lt raw H. rewrite (str_value_lt_std lt raw H). apply string_escape_always_wrong. Qed.

(* sanity: the decoder on the witness and on  x \ n \ \ \ q  *)
Example decode_witness :
  decode esc_witness
  = String.String (ascii_of_N 97) (String.String (ascii_of_N 34)
      (String.String (ascii_of_N 98) String.EmptyString)).
Proof. vm_compute. reflexivity. Qed.

Example decode_mixed :
  decode (String.String (ascii_of_N 120) (String.String (ascii_of_N 92) (String.String (ascii_of_N 110)
          (String.String (ascii_of_N 92) (String.String (ascii_of_N 92)
          (String.String (ascii_of_N 92) (String.String (ascii_of_N 113) String.EmptyString)))))))
  = String.String (ascii_of_N 120) (String.String (ascii_of_N 10) (String.String (ascii_of_N 92)
      (String.String (ascii_of_N 92) (String.String (ascii_of_N 113) String.EmptyString)))).
Proof. vm_compute. reflexivity. Qed.

Print Assumptions value_resign.
Print Assumptions horner_posval.
Print Assumptions literal_int.
Print Assumptions literal_real.
Print Assumptions string_escape_free.
Print Assumptions string_escape_refuted.
Print Assumptions string_escape_always_wrong.
Print Assumptions decode_length_le.
Print Assumptions num_value_lt_std.
Print Assumptions str_value_lt_std.
Print Assumptions string_raw.
Print Assumptions literal_int_lt.
Print Assumptions literal_real_lt.
Print Assumptions string_escape_always_wrong_lt.
