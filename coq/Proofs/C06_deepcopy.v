(* C06 — proofs about Model/C06_deepcopy.v (flags = fixed_flags). *)
From Coq Require Import List Arith Bool Lia.
From PV Require Import Lib.ObjGraph Model.C06_deepcopy.
Import ListNotations.

(* ---------- paths ---------- *)
Lemma strip_app p r : strip p (p ++ r) = Some r.
Proof. induction p as [|x p IH]; simpl; auto. rewrite Nat.eqb_refl. exact IH. Qed.

Lemma strip_sound p : forall q r, strip p q = Some r -> q = p ++ r.
Proof.
  induction p as [|x p IH]; simpl; intros q r H.
  - congruence.
  - destruct q as [|y q]; [discriminate|].
    destruct (Nat.eqb x y) eqn:E; [|discriminate].
    apply Nat.eqb_eq in E. subst y. f_equal. apply IH. exact H.
Qed.

Lemma sub_nil t : sub [] t = t.
Proof. induction t as [|[q i] t IH]; simpl; congruence. Qed.

Lemma assoc_In {B} p (t : list (path * B)) i : assoc p t = Some i -> In (p, i) t.
Proof.
  induction t as [|[q j] t IH]; simpl; [discriminate|].
  destruct (path_dec p q); intros H.
  - left. congruence.
  - right. auto.
Qed.

Lemma mget_same m a v : mget ((a, v) :: m) a = Some v.
Proof. cbn [mget]. destruct (addr_dec a a) as [_|N]; [reflexivity|exfalso; apply N; reflexivity]. Qed.

Lemma mget_other m a b v : a <> b -> mget ((b, v) :: m) a = mget m a.
Proof. intros H. cbn [mget]. destruct (addr_dec a b) as [E|_]; [exfalso; auto|reflexivity]. Qed.

(* ---------- well-formed sources ---------- *)
(* the classes owned by the class being copied: no foreign hook, parent = owner (by
   address), owner reached before the class *)
Fixpoint wf_rest (ti : nat) (p : path) (seen : list path) (rest : list (path * info)) : Prop :=
  match rest with
  | [] => True
  | (r, i) :: rest' =>
      r <> [] /\ hk i = None /\ par i = Some (ti, p ++ removelast r) /\ In (removelast r) seen /\
      wf_rest ti p (r :: seen) rest'
  end.

Definition wf_at (w : world) (a : addr) (i0 : info) (rest : list (path * info)) : Prop :=
  src_of w a = Some (i0, rest) /\ hk i0 = None /\ par i0 <> Some a /\
  wf_rest (fst a) (snd a) [[]] rest.

(* what the copy must be: same names and content; every owned class's parent is its
   owner IN THE COPY; the root keeps the parent of the source root; no hooks *)
Definition spec_node (n : nat) (e : path * info) : path * info :=
  (fst e, Info (dat (snd e)) (Some (n, removelast (fst e))) None).
Definition spec_copy (n : nat) (i0 : info) (rest : list (path * info)) : tree :=
  ([], Info (dat i0) (par i0) None) :: map (spec_node n) rest.

Lemma wf_rest_nohook ti p : forall rest seen, wf_rest ti p seen rest ->
  forallb (fun e => no_hook (snd e)) rest = true.
Proof.
  induction rest as [|[r i] rest IH]; simpl; intros seen H; auto.
  destruct H as (_ & Hh & _ & _ & H). unfold no_hook at 1. rewrite Hh. simpl. eauto.
Qed.

Lemma copy_rest_spec n ti p : forall rest m seen,
  wf_rest ti p seen rest ->
  (forall r', In r' seen -> mget m (ti, p ++ r') = Some (n, r')) ->
  copy_ents fixed_flags n ti p m rest = map (spec_node n) rest.
Proof.
  induction rest as [|[r i] rest IH]; intros m seen Hwf Hm; [reflexivity|].
  destruct Hwf as (Hr & Hh & Hp & Hin & Hwf).
  cbn [copy_ents copy_node map]. rewrite Hp.
  unfold guard. cbn [g_fixed h_fixed fixed_flags]. rewrite (Hm _ Hin).
  f_equal.
  - unfold spec_node. cbn [fst snd]. f_equal. f_equal.
    cbn [mget]. destruct (addr_dec (ti, p ++ removelast r) (ti, p ++ r)) as [E|E].
    + injection E as E. apply app_inv_head in E. rewrite E. reflexivity.
    + rewrite (Hm _ Hin). reflexivity.
  - apply (IH _ (r :: seen)); auto.
    intros r' [<-|Hin'].
    + apply mget_same.
    + cbn [mget]. destruct (addr_dec (ti, p ++ r') (ti, p ++ r)) as [E|E]; auto.
      injection E as E. apply app_inv_head in E. rewrite E. reflexivity.
Qed.

(* the core lemma: with the guard and hook as now coded, copy.deepcopy of the class at
   `a` appends exactly spec_copy and leaves every existing tree as it was *)
Lemma deepcopy_spec w a i0 rest :
  wf_at w a i0 rest ->
  deepcopy fixed_flags w a = Some (w ++ [spec_copy (length w) i0 rest]).
Proof.
  intros (Hs & Hh & Hp & Hwf). destruct a as [ti p]. cbn [fst snd] in *.
  unfold deepcopy. rewrite Hs, Hh, Hs.
  unfold no_hook at 1. rewrite Hh. rewrite (wf_rest_nohook _ _ _ _ Hwf). cbn [andb].
  f_equal. f_equal. f_equal.
  unfold spec_copy. cbn [copy_ents copy_node fst snd].
  rewrite app_nil_r.
  destruct (par i0) as [pa|] eqn:Epar.
  - assert (Hne : pa <> (ti, p)) by (intros ->; apply Hp; reflexivity).
    unfold guard. cbn [g_fixed h_fixed fixed_flags].
    change (mget [] pa) with (@None addr). cbn iota.
    rewrite (mget_other _ _ _ _ Hne), mget_same.
    f_equal. apply (copy_rest_spec _ _ _ _ _ [[]]); auto.
    intros r' [<-|[]]. rewrite app_nil_r. apply mget_same.
  - cbn [h_fixed fixed_flags]. f_equal. apply (copy_rest_spec _ _ _ _ _ [[]]); auto.
    intros r' [<-|[]]. rewrite app_nil_r. apply mget_same.
Qed.

(* ---------- iso / closed ---------- *)
Definition erase (t : list (path * info)) : list (path * cdata) := map (fun e => (fst e, dat (snd e))) t.

Lemma spec_copy_iso n i0 rest : erase (spec_copy n i0 rest) = erase (([], i0) :: rest).
Proof.
  unfold spec_copy, erase. cbn [map fst snd dat]. f_equal. rewrite map_map. reflexivity.
Qed.

(* closed inside tree ti: parent of every owned class = its owner in the same tree *)
Definition closed_below (ti : nat) (t : tree) : Prop :=
  forall r i, In (r, i) t -> r <> [] -> par i = Some (ti, removelast r) /\ hk i = None.
(* a self-contained tree: additionally the root has no parent *)
Definition closed_tree (ti : nat) (t : tree) : Prop :=
  forall r i, In (r, i) t -> par i = match r with [] => None | _ => Some (ti, removelast r) end.

Lemma wf_rest_nonroot ti p : forall rest seen r i, wf_rest ti p seen rest -> In (r, i) rest ->
  r <> [] /\ par i = Some (ti, p ++ removelast r) /\ hk i = None.
Proof.
  induction rest as [|[r0 i0] rest IH]; simpl; intros seen r i H Hin; [contradiction|].
  destruct H as (Hr & Hh & Hp & _ & H). destruct Hin as [E|Hin].
  - injection E as <- <-. auto.
  - eauto.
Qed.

Lemma spec_copy_closed_below n i0 rest ti p seen :
  wf_rest ti p seen rest -> closed_below n (spec_copy n i0 rest).
Proof.
  intros Hwf r i [E|Hin] Hr.
  - injection E as <- _. congruence.
  - apply in_map_iff in Hin. destruct Hin as ([r1 i1] & E & Hin).
    unfold spec_node in E. cbn [fst snd] in E. injection E as <- <-. cbn. auto.
Qed.

Lemma spec_copy_closed_tree n i0 rest ti p seen :
  wf_rest ti p seen rest -> par i0 = None -> closed_tree n (spec_copy n i0 rest).
Proof.
  intros Hwf Hp r i [E|Hin].
  - injection E as <- <-. exact Hp.
  - apply in_map_iff in Hin. destruct Hin as ([r1 i1] & E & Hin).
    destruct (wf_rest_nonroot _ _ _ _ _ _ Hwf Hin) as (Hr & _).
    unfold spec_node in E. cbn [fst snd] in E. injection E as <- <-. cbn [par].
    destruct r1; congruence.
Qed.

Lemma wf_closed_tree w ti i0 rest t :
  wf_at w (ti, []) i0 rest -> par i0 = None -> nth_error w ti = Some t -> closed_tree ti t.
Proof.
  intros (Hs & _ & _ & Hwf) Hp Ht r i Hin.
  unfold src_of in Hs. cbn [fst snd] in *. rewrite Ht, sub_nil in Hs.
  destruct t as [|[q j] t']; [discriminate|]. destruct q; [|discriminate].
  injection Hs as -> ->. destruct Hin as [E|Hin].
  - injection E as <- <-. exact Hp.
  - destruct (wf_rest_nonroot _ _ _ _ _ _ Hwf Hin) as (Hr & Hpar & _).
    cbn [app] in Hpar. destruct r; congruence.
Qed.

(* ---------- the copy is again a well-formed source (copy of a copy) ---------- *)
Lemma wf_rest_spec n ti p : forall rest seen,
  wf_rest ti p seen rest -> wf_rest n [] seen (map (spec_node n) rest).
Proof.
  induction rest as [|[r i] rest IH]; simpl; intros seen H; auto.
  destruct H as (Hr & Hh & Hp & Hin & H). repeat split; auto.
Qed.

Lemma wf_at_copy w a i0 rest :
  wf_at w a i0 rest -> (forall pa, par i0 = Some pa -> fst pa < length w) ->
  wf_at (w ++ [spec_copy (length w) i0 rest]) (length w, [])
        (Info (dat i0) (par i0) None) (map (spec_node (length w)) rest).
Proof.
  intros (Hs & Hh & Hp & Hwf) Hsc. repeat split.
  - unfold src_of. cbn [fst snd]. rewrite nth_error_app2 by lia. rewrite Nat.sub_diag.
    cbn [nth_error]. rewrite sub_nil. reflexivity.
  - cbn [par]. intros E. specialize (Hsc _ E). cbn in Hsc. lia.
  - cbn [fst snd]. eapply wf_rest_spec; eauto.
Qed.

(* ---------- frame: what an operation on one tree does to the others ---------- *)
Lemma nth_set_nth_other {A} (x : A) : forall l i j, i <> j -> nth_error (set_nth i x l) j = nth_error l j.
Proof.
  induction l as [|y l IH]; intros [|i] [|j] H; simpl; auto; try congruence.
Qed.

Lemma length_set_nth {A} (x : A) : forall l i, length (set_nth i x l) = length l.
Proof. induction l as [|y l IH]; intros [|i]; simpl; auto. Qed.

Lemma upd_tree_other w ti f j : j <> ti -> nth_error (upd_tree w ti f) j = nth_error w j.
Proof.
  intros H. unfold upd_tree. destruct (nth_error w ti); auto. apply nth_set_nth_other. auto.
Qed.

Lemma upd_tree_length w ti f : length (upd_tree w ti f) = length w.
Proof. unfold upd_tree. destruct (nth_error w ti); auto. apply length_set_nth. Qed.

Lemma deepcopy_frame fl w a w' : deepcopy fl w a = Some w' -> exists c, w' = w ++ [c].
Proof.
  unfold deepcopy. destruct (src_of w a) as [[i0 r0]|]; [|discriminate].
  destruct (src_of w _) as [[i1 r1]|]; [|discriminate].
  destruct (_ && _); [|discriminate]. intros E. injection E as <-. eauto.
Qed.

(* an operation leaves tree j alone unless it is an edit addressed to tree j *)
Definition touches (o : op) (j : nat) : Prop :=
  match o with DeepCopy _ => False | _ => op_tree o = j end.

Lemma apply_op_frame fl w o j :
  j < length w -> ~ touches o j ->
  nth_error (apply_op fl w o) j = nth_error w j /\ j < length (apply_op fl w o).
Proof.
  intros Hj Ht. destruct o as [a|a k d|a k|a d|a k ents]; cbn [apply_op touches op_tree] in *.
  - destruct (deepcopy fl w a) eqn:E; auto.
    destruct (deepcopy_frame _ _ _ _ E) as (c & ->).
    rewrite nth_error_app1 by auto. rewrite app_length. split; auto. lia.
  - destruct (_ && _); auto. rewrite upd_tree_other, upd_tree_length; auto.
  - rewrite upd_tree_other, upd_tree_length; auto.
  - rewrite upd_tree_other, upd_tree_length; auto.
  - destruct (is_some (get w a)); auto. rewrite upd_tree_other, upd_tree_length; auto.
Qed.

Lemma run_frame fl : forall ops w j,
  j < length w -> (forall o, In o ops -> ~ touches o j) ->
  nth_error (run fl ops w) j = nth_error w j.
Proof.
  induction ops as [|o ops IH]; intros w j Hj H; [reflexivity|].
  cbn [run fold_left]. destruct (apply_op_frame fl w o j Hj) as (E & Hl).
  { apply H. left. reflexivity. }
  change (nth_error (run fl ops (apply_op fl w o)) j = nth_error w j).
  rewrite IH; auto. intros o' Ho'. apply H. right. exact Ho'.
Qed.

(* ---------- lookups from a self-contained tree see only that tree ---------- *)
Lemma get_same w w' ti p : nth_error w' ti = nth_error w ti -> get w' (ti, p) = get w (ti, p).
Proof. intros H. unfold get. cbn [fst snd]. rewrite H. reflexivity. Qed.

Lemma nav1_same w w' ti p s :
  nth_error w' ti = nth_error w ti -> nav1 w' (ti, p) s = nav1 w (ti, p) s.
Proof.
  intros H. destruct s as [|k]; unfold nav1; cbn [fst snd].
  - rewrite (get_same _ _ _ _ H). reflexivity.
  - rewrite (get_same _ _ _ _ H). reflexivity.
Qed.

Lemma nav1_stays w ti t p s a' :
  nth_error w ti = Some t -> closed_tree ti t -> nav1 w (ti, p) s = Some a' -> fst a' = ti.
Proof.
  intros Ht Hc. destruct s as [|k]; unfold nav1; cbn [fst snd].
  - destruct (get w (ti, p)) as [i|] eqn:G; [|discriminate].
    unfold get in G. cbn [fst snd] in G. rewrite Ht in G. apply assoc_In in G.
    rewrite (Hc _ _ G). destruct p; [discriminate|]. intros E. injection E as <-. reflexivity.
  - destruct (get w (ti, p ++ [k])); [|discriminate]. intros E. injection E as <-. reflexivity.
Qed.

Lemma nav_closed w w' ti t :
  nth_error w ti = Some t -> closed_tree ti t -> nth_error w' ti = nth_error w ti ->
  forall ss p, nav w' (ti, p) ss = nav w (ti, p) ss /\
               (forall a', nav w (ti, p) ss = Some a' -> fst a' = ti).
Proof.
  intros Ht Hc Hsame. induction ss as [|s ss IH]; intros p.
  - cbn. split; auto. intros a' E. injection E as <-. reflexivity.
  - cbn [nav]. rewrite (nav1_same _ _ _ _ _ Hsame).
    destruct (nav1 w (ti, p) s) as [[tj q]|] eqn:N; [|split; [auto|discriminate]].
    apply (nav1_stays _ _ _ _ _ _ Ht Hc) in N. cbn in N. subst tj. apply IH.
Qed.

Lemma see_closed w w' ti t :
  nth_error w ti = Some t -> closed_tree ti t -> nth_error w' ti = nth_error w ti ->
  forall p ss, see w' (ti, p) ss = see w (ti, p) ss.
Proof.
  intros Ht Hc Hsame p ss. unfold see.
  destruct (nav_closed _ _ _ _ Ht Hc Hsame ss p) as (E & Hin). rewrite E.
  destruct (nav w (ti, p) ss) as [[tj q]|] eqn:N; auto.
  specialize (Hin _ eq_refl). cbn in Hin. subst tj. rewrite (get_same _ _ _ _ Hsame). reflexivity.
Qed.

(* edits elsewhere are invisible from a self-contained tree *)
Lemma edits_invisible fl ops w ti t :
  nth_error w ti = Some t -> closed_tree ti t ->
  (forall o, In o ops -> ~ touches o ti) ->
  forall p ss, see (run fl ops w) (ti, p) ss = see w (ti, p) ss.
Proof.
  intros Ht Hc Hops p ss. eapply see_closed; eauto.
  apply run_frame; auto. apply nth_error_Some. congruence.
Qed.

(* copy of a parsed tree, then any edits: both sides stay independent *)
Lemma copy_independent w ti t i0 rest ops :
  nth_error w ti = Some t -> wf_at w (ti, []) i0 rest -> par i0 = None ->
  exists c, deepcopy fixed_flags w (ti, []) = Some (w ++ [c]) /\
    erase c = erase t /\ closed_tree (length w) c /\
    ((forall o, In o ops -> ~ touches o (length w)) ->
       forall p ss, see (run fixed_flags ops (w ++ [c])) (length w, p) ss = see (w ++ [c]) (length w, p) ss) /\
    ((forall o, In o ops -> ~ touches o ti) ->
       forall p ss, see (run fixed_flags ops (w ++ [c])) (ti, p) ss = see w (ti, p) ss).
Proof.
  intros Ht Hwf Hp. exists (spec_copy (length w) i0 rest).
  pose proof (deepcopy_spec _ _ _ _ Hwf) as Hd.
  pose proof Hwf as (Hs & _ & _ & Hr). cbn [fst snd] in Hr.
  assert (Hc : closed_tree (length w) (spec_copy (length w) i0 rest))
    by (eapply spec_copy_closed_tree; eauto).
  assert (Ht0 : t = ([], i0) :: rest).
  { unfold src_of in Hs. cbn [fst snd] in Hs. rewrite Ht, sub_nil in Hs.
    destruct t as [|[q j] t']; [discriminate|]. destruct q; [|discriminate].
    injection Hs as -> ->. reflexivity. }
  repeat split; auto.
  - rewrite spec_copy_iso, Ht0. reflexivity.
  - intros Hops p ss. eapply edits_invisible; eauto.
    rewrite nth_error_app2 by lia. rewrite Nat.sub_diag. reflexivity.
  - intros Hops p ss.
    assert (Hlt : ti < length w) by (apply nth_error_Some; congruence).
    assert (Ht' : nth_error (w ++ [spec_copy (length w) i0 rest]) ti = Some t)
      by (rewrite nth_error_app1; auto).
    rewrite (edits_invisible fixed_flags ops _ ti t Ht'); eauto using wf_closed_tree.
    eapply see_closed; eauto using wf_closed_tree. rewrite Ht'. symmetry. exact Ht.
Qed.

(* copy of the copy: a copy of THE COPY (not of the original), again self-contained *)
Lemma copy_of_copy w a i0 rest :
  wf_at w a i0 rest -> (forall pa, par i0 = Some pa -> fst pa < length w) ->
  let c := spec_copy (length w) i0 rest in
  exists c', deepcopy fixed_flags (w ++ [c]) (length w, []) = Some ((w ++ [c]) ++ [c']) /\
    erase c' = erase c /\ closed_below (S (length w)) c' /\
    (par i0 = None -> closed_tree (S (length w)) c').
Proof.
  intros Hwf Hsc c.
  pose proof (wf_at_copy _ _ _ _ Hwf Hsc) as Hwf'.
  pose proof (deepcopy_spec _ _ _ _ Hwf') as Hd.
  rewrite app_length in Hd. cbn [length] in Hd. rewrite Nat.add_1_r in Hd.
  eexists. split; [exact Hd|].
  destruct Hwf' as (_ & _ & _ & Hr). cbn [fst snd] in Hr.
  repeat split.
  - rewrite spec_copy_iso. reflexivity.
  - eapply spec_copy_closed_below; eauto.
  - eapply spec_copy_closed_below; eauto.
  - intros Hp. eapply spec_copy_closed_tree; eauto.
Qed.
