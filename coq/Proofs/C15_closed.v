(* C15 — closedness: the value-into-value loop on acyclic definitions reaches a closed form, the
   passes keep every symbol of the remaining equations declared. *)
From Coq Require Import ZArith QArith Qcanon List Bool PArith Lia.
Import ListNotations.
From PV Require Import Model.C14_simplify Proofs.C14_simplify Proofs.C14_compose Proofs.C15_square.
Local Opaque SUBSTITUTE_LOOP_LIMIT.

(* ---------- structural equality tests ---------- *)
Lemma expr_eqb_eq a : forall b, expr_eqb a b = true -> a = b.
Proof.
  induction a as [x | q | o a IH | o a1 IH1 a2 IH2]; intros [y | p | o' b | o' b1 b2]; simpl; try discriminate.
  - intro H. apply Pos.eqb_eq in H. now subst.
  - intro H. apply qeqb_true in H. now subst.
  - intro H. apply andb_true_iff in H. destruct H as [H1 H2].
    apply uop_eqb_true in H1. subst. f_equal. now apply IH.
  - intro H. apply andb_true_iff in H. destruct H as [H H3]. apply andb_true_iff in H. destruct H as [H1 H2].
    apply bop_eqb_true in H1. subst. f_equal; [now apply IH1 | now apply IH2].
Qed.
Lemma list_eqb_eq (l1 : list expr) : forall l2, list_eqb expr_eqb l1 l2 = true -> l1 = l2.
Proof.
  induction l1 as [| a l1 IH]; intros [| b l2]; simpl; try discriminate; auto.
  intro H. apply andb_true_iff in H. destruct H as [H1 H2]. f_equal; [now apply expr_eqb_eq | now apply IH].
Qed.

(* ---------- the loop on acyclic definitions ---------- *)
Local Transparent subst_fix.
Lemma subst_fix_tri rk n vars : forall vals,
  tri rk (combine vars vals) -> tri rk (combine vars (fst (subst_fix n vars vals))).
Proof.
  induction n as [| n IH]; intros vals T; simpl; auto.
  assert (T' : tri rk (combine vars (map (subst (combine vars vals)) vals))).
  { rewrite combine_sub_step. now apply tri_step. }
  destruct (list_eqb expr_eqb vals (map (subst (combine vars vals)) vals)); simpl; auto.
Qed.

(* converged: the result is a fixpoint of one substitution step *)
Lemma subst_fix_conv n vars : forall vals,
  snd (subst_fix n vars vals) = true ->
  sub_step (combine vars (fst (subst_fix n vars vals))) = combine vars (fst (subst_fix n vars vals)).
Proof.
  induction n as [| n IH]; intros vals; simpl; [discriminate |].
  destruct (list_eqb expr_eqb vals (map (subst (combine vars vals)) vals)) eqn:E; simpl; auto.
  intros _. apply list_eqb_eq in E. rewrite <- E at 1 2. rewrite <- combine_sub_step. now rewrite <- E.
Qed.

(* every symbol of a resolved value occurs in one of the original values *)
Definition sym_in (s : sub) (x : name) : Prop := exists y v, In (y, v) s /\ occurs x v = true.
Lemma sub_step_origin s x : sym_in (sub_step s) x -> sym_in s x.
Proof.
  intros [y [v' [Hin Ho]]]. unfold sub_step in Hin. apply in_map_iff in Hin.
  destruct Hin as [[y0 v] [E Hin]]. simpl in E. inversion E. subst y0 v'. clear E.
  apply subst_occ in Ho. destruct Ho as [[Ho _] | [z [w [_ [L Hw]]]]].
  - exists y, v. auto.
  - exists z, w. split; auto. eapply lookup_In; eauto.
Qed.
Lemma subst_fix_origin n vars x : forall vals,
  sym_in (combine vars (fst (subst_fix n vars vals))) x -> sym_in (combine vars vals) x.
Proof.
  induction n as [| n IH]; intros vals; simpl; auto.
  destruct (list_eqb expr_eqb vals (map (subst (combine vars vals)) vals)); simpl; intro H.
  - rewrite combine_sub_step in H. now apply sub_step_origin.
  - apply IH in H. rewrite combine_sub_step in H. now apply sub_step_origin.
Qed.
Local Opaque subst_fix.

(* a fixpoint of the substitution step over an acyclic relation mentions no defined variable *)
Lemma fix_domfree rk s : tri rk s -> sub_step s = s ->
  forall x v y w, In (x, v) s -> lookup y s = Some w -> occurs y v = false.
Proof.
  intros T Fx.
  assert (K : forall k x v y w, (rk x <= k)%nat -> In (x, v) s -> lookup y s = Some w -> occurs y v = false).
  { induction k as [| k IH]; intros x v y w Hk Hin L; destruct (occurs y v) eqn:O; auto; exfalso.
    - assert (rk y < rk x)%nat by (eapply T; eauto). lia.
    - rewrite <- Fx in Hin. unfold sub_step in Hin. apply in_map_iff in Hin.
      destruct Hin as [[x0 v0] [E Hin]]. simpl in E. inversion E. subst x0 v. clear E.
      apply subst_occ in O. destruct O as [[_ L'] | [z [w0 [Hz [Lz Hy]]]]]; [congruence |].
      assert (rk z < rk x)%nat by (eapply T; eauto).
      assert (In (z, w0) s) by (eapply lookup_In; eauto).
      rewrite (IH z w0 y w) in Hy; [discriminate | lia | assumption | assumption]. }
  intros x v y w. apply (K (rk x)). lia.
Qed.

(* THE CLOSED FORM: acyclic definitions + converged loop => the resolved values mention no defined
   variable, and every symbol they mention occurs in an original value *)
Theorem loop_closed_form (d : sub) :
  acyclic d ->
  let res := subst_fix SUBSTITUTE_LOOP_LIMIT (map fst d) (map snd d) in
  snd res = true ->
  let s := combine (map fst d) (fst res) in
  (forall x v y w, In (x, v) s -> lookup y s = Some w -> occurs y v = false)
  /\ (forall x, sym_in s x -> sym_in d x).
Proof.
  intros [rk T] res Hc s. split.
  - apply (fix_domfree rk).
    + unfold s, res. apply subst_fix_tri. now rewrite combine_fst_snd.
    + unfold s, res. now apply subst_fix_conv.
  - intros x H. unfold s, res in H. apply subst_fix_origin in H. now rewrite combine_fst_snd in H.
Qed.

(* ---------- closedness of a model ---------- *)
Definition others (m : model) : list name :=
  states m ++ ders m ++ inputs m ++ map fst (params m) ++ map fst (consts m).
Definition decl (m : model) : list name := algs m ++ others m.
(* every symbol of the remaining equations and initial equations is a declared variable,
   parameter or constant, or `time` *)
Definition closed (tm : name) (m : model) : Prop :=
  forall e x, In e (eqs m ++ ieqs m) -> occurs x e = true -> In x (decl m) \/ x = tm.

Lemma extract_occ sts al0 al mt e y v x :
  extract_assignment sts al0 al mt e = ExtAlg y v -> occurs x v = true -> occurs x e = true.
Proof.
  unfold extract_assignment. destruct e as [z | q | o a | o d0 d1]; try discriminate.
  - destruct ((mem z sts || mem z al0) && mem z mt); try discriminate.
    destruct (mem z sts); try discriminate. intro H. inversion H. subst. discriminate.
  - pose proof (fun z => mk_un_occ z Neg d0) as M0. pose proof (fun z => mk_un_occ z Neg d1) as M1.
    revert M0 M1. generalize (mk_un Neg d0) as n0, (mk_un Neg d1) as n1. intros n0 n1 M0 M1.
    destruct o; try discriminate; cbv beta zeta;
      repeat match goal with
        | |- context [match ?d with Sym _ => _ | _ => _ end] => is_var d; destruct d
        | |- context [if ?c then _ else _] => destruct c
        end; try discriminate; intro H; inversion H; subst; intro Ho;
      try (apply M0 in Ho); try (apply M1 in Ho); simpl in *; try discriminate;
      rewrite ?Ho, ?orb_true_r; auto; try (apply orb_true_iff; auto).
Qed.

Lemma elim_loop_facts sts al0 mt : forall es al al' defs kept,
  elim_loop sts al0 al mt es = (al', defs, kept, false) ->
  incl kept es
  /\ (forall x, In x al -> In x al' \/ In x (map fst defs))
  /\ (forall y v x, In (y, v) defs -> occurs x v = true -> exists e, In e es /\ occurs x e = true).
Proof.
  induction es as [| e es IH]; intros al al' defs kept; simpl.
  - intro H. inversion H. subst. split; [intros z [] | split; [auto | intros y v x []]].
  - destruct (extract_assignment sts al0 al mt e) as [| y0 v0 |] eqn:X.
    + destruct (elim_loop sts al0 al mt es) as [[[a1 d1] k1] u1] eqn:E. intro H. inversion H. subst.
      destruct (IH _ _ _ _ E) as [I1 [I2 I3]]. repeat split.
      * intros z [-> | Hz]; [now left | right; now apply I1].
      * exact I2.
      * intros y v x Hin Ho. destruct (I3 y v x Hin Ho) as [e0 [H1 H2]]. exists e0. split; [now right | exact H2].
    + destruct (elim_loop sts al0 (remove1 y0 al) mt es) as [[[a1 d1] k1] u1] eqn:E.
      intro H. inversion H. subst. destruct (IH _ _ _ _ E) as [I1 [I2 I3]]. repeat split.
      * intros z Hz. right. now apply I1.
      * intros x Hx. simpl. destruct (Pos.eq_dec y0 x) as [-> | Hn]; [right; now left |].
        assert (Hr : In x (remove1 y0 al)).
        { unfold remove1. apply filter_In. split; auto. apply negb_true_iff. now apply Pos.eqb_neq. }
        destruct (I2 x Hr); auto.
      * intros y v x [Hin | Hin] Ho.
        -- inversion Hin. subst. exists e. split; [now left | eapply extract_occ; eauto].
        -- destruct (I3 y v x Hin Ho) as [e0 [H1 H2]]. exists e0. split; [now right | exact H2].
    + discriminate.
Qed.

Local Transparent subst_fix.
Lemma subst_fix_length n vars : forall vals, length (fst (subst_fix n vars vals)) = length vals.
Proof.
  induction n as [| n IH]; intros vals; simpl; auto.
  destruct (list_eqb expr_eqb vals (map (subst (combine vars vals)) vals)); simpl.
  - now rewrite map_length.
  - now rewrite IH, map_length.
Qed.
Local Opaque subst_fix.

(* the eliminable pass (algebraic variables): acyclic assignments + converged loop keep the model closed *)
Theorem closed_eliminate_vars_acyclic tm mt m :
  closed tm m -> acyclic (elim_defs mt m) -> failed (eliminate_vars mt m) = false ->
  warned m = false -> warned (eliminate_vars mt m) = false ->
  closed tm (eliminate_vars mt m).
Proof.
  unfold elim_defs, eliminate_vars. intros Hc.
  destruct (elim_loop (states m) (algs m) (algs m) mt (eqs m)) as [[[al defs] kept] u] eqn:E.
  intro Hac. destruct u; [simpl; congruence |]. simpl.
  destruct (has_dup (map fst defs)); [simpl; congruence |].
  destruct (elim_loop_facts _ _ _ _ _ _ _ _ E) as [I1 [I2 I3]].
  destruct defs as [| d0 defs'].
  - intros _ _ _ e x Hin Ho. unfold decl, others. simpl in *.
    assert (Hin' : In e (eqs m ++ ieqs m)).
    { apply in_app_or in Hin. apply in_or_app. destruct Hin; [left; now apply I1 | now right]. }
    destruct (Hc e x Hin' Ho) as [Hd | Ht]; [| now right]. left.
    unfold decl in Hd. apply in_app_or in Hd. apply in_or_app. destruct Hd as [Hd | Hd]; [| now right].
    destruct (I2 x Hd) as [K | []]. now left.
  - remember (d0 :: defs') as defs.
    pose proof (loop_closed_form defs Hac) as CF. simpl in CF.
    pose proof (subst_fix_length SUBSTITUTE_LOOP_LIMIT (map fst defs) (map snd defs)) as Len.
    destruct (subst_fix SUBSTITUTE_LOOP_LIMIT (map fst defs) (map snd defs)) as [vals conv].
    simpl in *. intros _ Hw0 Hw. rewrite Hw0 in Hw. simpl in Hw. apply negb_false_iff in Hw. subst conv.
    destruct (CF eq_refl) as [Free Orig].
    set (s := combine (map fst defs) vals) in *.
    assert (Dom : map fst s = map fst defs).
    { unfold s. apply map_fst_combine_len. now rewrite Len, !map_length. }
    (* a declared symbol that is not substituted stays declared *)
    assert (Keep : forall x, (In x (decl m) \/ x = tm) -> lookup x s = None ->
                   In x (al ++ others m) \/ x = tm).
    { intros x [Hd | Ht] L; [| now right]. left. unfold decl in Hd. apply in_app_or in Hd.
      apply in_or_app. destruct Hd as [Hd | Hd]; [| now right].
      destruct (I2 x Hd) as [K | K]; [now left |]. exfalso.
      apply lookup_none_notin in L. apply L. now rewrite Dom. }
    intros e x Hin Ho. unfold decl, others. simpl.
    assert (Hsub : exists e0, In e0 (eqs m ++ ieqs m) /\ e = subst s e0).
    { apply in_app_or in Hin. destruct Hin as [Hin | Hin]; apply in_map_iff in Hin;
        destruct Hin as [e0 [<- Hin]]; exists e0; split; auto; apply in_or_app;
        [left; now apply I1 | now right]. }
    destruct Hsub as [e0 [Hin0 ->]].
    apply subst_occ in Ho. destruct Ho as [[Ho L] | [y [v [Hy [L Hv]]]]].
    + apply Keep; auto. eapply Hc; eauto.
    + assert (Lx : lookup x s = None).
      { destruct (lookup x s) as [w |] eqn:Lx; auto.
        rewrite (Free y v x w (lookup_In _ _ _ L) Lx) in Hv. discriminate. }
      apply Keep; auto.
      destruct (Orig x (ex_intro _ y (ex_intro _ v (conj (lookup_In _ _ _ L) Hv)))) as [y0 [v0 [Hd0 Ho0]]].
      destruct (I3 y0 v0 x Hd0 Ho0) as [e1 [He1 Ho1]].
      apply (Hc e1 x); auto. apply in_or_app. now left.
Qed.

(* ---------- bookkeeping passes: eliminate_constant_assignments, replace_parameter_values ---------- *)
Lemma eca_loop_facts : forall es al al' cs kept,
  eca_loop al es = (al', cs, kept) ->
  incl kept es /\ (forall x, In x al -> In x al' \/ In x (map fst cs)).
Proof.
  induction es as [| e es IH]; intros al al' cs kept; simpl.
  - intro H. inversion H. subst. split; [intros z [] | auto].
  - destruct (eca_match al e) as [[x v] |].
    + destruct (eca_loop (remove1 x al) es) as [[a1 c1] k1] eqn:E. intro H. inversion H. subst.
      destruct (IH _ _ _ _ E) as [I1 I2]. split.
      * intros z Hz. right. now apply I1.
      * intros y Hy. simpl. destruct (Pos.eq_dec x y) as [-> | Hn]; [right; now left |].
        assert (Hr : In y (remove1 x al)).
        { unfold remove1. apply filter_In. split; auto. apply negb_true_iff. now apply Pos.eqb_neq. }
        destruct (I2 y Hr); auto.
    + destruct (eca_loop al es) as [[a1 c1] k1] eqn:E. intro H. inversion H. subst.
      destruct (IH _ _ _ _ E) as [I1 I2]. split; auto.
      intros z [-> | Hz]; [now left | right; now apply I1].
Qed.

Theorem closed_elim_const_assignments tm m : closed tm m -> closed tm (elim_const_assignments m).
Proof.
  unfold elim_const_assignments. intro Hc.
  destruct (eca_loop (algs m) (eqs m)) as [[al cs] kept] eqn:E.
  destruct (eca_loop_facts _ _ _ _ _ E) as [I1 I2].
  intros e x Hin Ho. unfold decl, others in *. simpl in *.
  assert (Hin' : In e (eqs m ++ ieqs m)).
  { apply in_app_or in Hin. apply in_or_app. destruct Hin; [left; now apply I1 | now right]. }
  destruct (Hc e x Hin' Ho) as [Hd | Ht]; [| now right]. left.
  unfold decl, others in Hd. rewrite !in_app_iff in Hd. rewrite !in_app_iff, map_app, in_app_iff.
  destruct Hd as [Hd | Hd]; [destruct (I2 x Hd); tauto | tauto].
Qed.

Lemma split_valued_facts2 : forall l,
  (forall x, In x (map fst l) ->
             In x (map fst (fst (split_valued l))) \/ In x (map fst (snd (split_valued l))))
  /\ (forall y v x, In (y, v) (snd (split_valued l)) -> occurs x v = false).
Proof.
  induction l as [| [y0 v0] l [IH1 IH2]]; simpl.
  - split; [intros x [] | intros y v x []].
  - destruct (split_valued l) as [u d]. simpl in *.
    destruct v0 as [e |]; [destruct e |]; simpl; split;
      try (intros z0 [-> | Hx]; [auto | destruct (IH1 z0 Hx); auto]);
      try (intros y1 v1 z0 [Hyv | Hyv]; [inversion Hyv; reflexivity | eapply IH2; eauto]);
      try (intros y1 v1 z0 Hyv; eapply IH2; eauto).
Qed.

Theorem closed_replace_param_values tm m : closed tm m -> closed tm (replace_param_values m).
Proof.
  unfold replace_param_values. intro Hc.
  pose proof (split_valued_facts2 (params m)) as [P1 P2].
  destruct (split_valued (params m)) as [unspec s]. simpl in P1, P2.
  assert (Mf : forall l, map fst (subst_vals s l) = map fst l).
  { intro l. unfold subst_vals. rewrite map_map. apply map_ext. intros [a b]. reflexivity. }
  intros e x Hin Ho. unfold decl, others in *. simpl in *. rewrite !Mf.
  assert (Hsub : exists e0, In e0 (eqs m ++ ieqs m) /\ e = subst s e0).
  { apply in_app_or in Hin. destruct Hin as [Hin | Hin]; apply in_map_iff in Hin;
      destruct Hin as [e0 [<- Hin]]; exists e0; split; auto; apply in_or_app; [now left | now right]. }
  destruct Hsub as [e0 [Hin0 ->]].
  apply subst_occ in Ho. destruct Ho as [[Ho L] | [y [v [_ [L Hv]]]]].
  - destruct (Hc e0 x Hin0 Ho) as [Hd | Ht]; [| now right]. left.
    unfold decl, others in Hd. rewrite !in_app_iff in Hd. rewrite !in_app_iff.
    destruct Hd as [Hd | [Hd | [Hd | [Hd | [Hd | Hd]]]]]; try tauto.
    destruct (P1 x Hd) as [K | K]; [tauto |]. exfalso.
    apply lookup_none_notin in L. contradiction.
  - apply lookup_In in L. rewrite (P2 y v x L) in Hv. discriminate.
Qed.

(* ---------- replace_parameter_expressions / replace_constant_expressions ---------- *)
(* the VALUES of parameters and constants only mention declared symbols *)
Definition vals_closed (tm : name) (m : model) : Prop :=
  forall y v x, In (y, Some v) (params m ++ consts m) -> occurs x v = true -> In x (decl m) \/ x = tm.

Lemma split_simple_facts2 : forall l,
  (forall x, In x (map fst l) ->
             In x (map fst (fst (split_simple l))) \/ In x (map fst (snd (split_simple l))))
  /\ (forall y v, In (y, v) (snd (split_simple l)) -> In (y, Some v) l).
Proof.
  induction l as [| [y0 v0] l [IH1 IH2]]; simpl.
  - split; [intros z0 [] | intros y1 v1 []].
  - destruct (split_simple l) as [u d]. simpl in *.
    destruct v0 as [e |]; [destruct (is_const e) |]; simpl; split;
      try (intros z0 [-> | Hx]; [auto | destruct (IH1 z0 Hx); auto]);
      try (intros y1 v1 [Hyv | Hyv]; [inversion Hyv; auto | right; eapply IH2; eauto]);
      try (intros y1 v1 Hyv; right; eapply IH2; eauto).
Qed.

Lemma map_fst_subst_vals s l : map fst (subst_vals s l) = map fst l.
Proof. unfold subst_vals. rewrite map_map. apply map_ext. intros [a b]. reflexivity. Qed.

Theorem closed_replace_exprs tm b m :
  closed tm m -> vals_closed tm m -> acyclic (expr_defs b m) ->
  warned m = false -> warned (replace_exprs b m) = false ->
  closed tm (replace_exprs b m).
Proof.
  unfold expr_defs, replace_exprs. intros Hc Hv.
  pose proof (split_simple_facts2 (if b then params m else consts m)) as [P1 P2].
  destruct (split_simple (if b then params m else consts m)) as [simple defs]. simpl in P1, P2 |- *.
  intro Hac.
  destruct defs as [| d0 defs'].
  - intros _ _ e x Hin Ho.
    assert (Hd : In x (decl m) \/ x = tm) by (destruct b; apply (Hc e x); assumption).
    destruct Hd as [Hd | Ht]; [| now right]. left.
    unfold decl, others in *. rewrite !in_app_iff in *.
    destruct b; simpl; rewrite ?in_app_iff;
      destruct Hd as [Hd | [Hd | [Hd | [Hd | [Hd | Hd]]]]]; try tauto;
      destruct (P1 x Hd) as [K | []]; tauto.
  - remember (d0 :: defs') as defs.
    pose proof (loop_closed_form defs Hac) as CF. simpl in CF.
    pose proof (subst_fix_length SUBSTITUTE_LOOP_LIMIT (map fst defs) (map snd defs)) as Len.
    destruct (subst_fix SUBSTITUTE_LOOP_LIMIT (map fst defs) (map snd defs)) as [vals conv].
    simpl in *. intros Hw0 Hw.
    assert (conv = true).
    { destruct b; simpl in Hw; rewrite Hw0 in Hw; simpl in Hw; now apply negb_false_iff in Hw. }
    subst conv. destruct (CF eq_refl) as [Free Orig].
    set (s := combine (map fst defs) vals) in *.
    assert (Dom : map fst s = map fst defs).
    { unfold s. apply map_fst_combine_len. now rewrite Len, !map_length. }
    assert (Keep : forall x, (In x (decl m) \/ x = tm) -> lookup x s = None ->
                   In x (decl (if b
                     then Model (states m) (ders m) (algs m) (inputs m) (subst_vals s (consts m))
                                (subst_vals s simple) (map (subst s) (eqs m)) (map (subst s) (ieqs m))
                                (arel m) (ghost m ++ s) (warned m || negb true) (failed m)
                     else Model (states m) (ders m) (algs m) (inputs m) (subst_vals s simple)
                                (subst_vals s (params m)) (map (subst s) (eqs m)) (map (subst s) (ieqs m))
                                (arel m) (ghost m ++ s) (warned m || negb true) (failed m))) \/ x = tm).
    { intros x [Hd | Ht] L; [| now right]. left.
      apply lookup_none_notin in L. rewrite Dom in L.
      unfold decl, others in *. rewrite !in_app_iff in Hd.
      destruct b; simpl; rewrite !map_fst_subst_vals, !in_app_iff;
        destruct Hd as [Hd | [Hd | [Hd | [Hd | [Hd | Hd]]]]]; try tauto;
        destruct (P1 x Hd) as [K | K]; tauto. }
    intros e x Hin Ho.
    assert (Hsub : exists e0, In e0 (eqs m ++ ieqs m) /\ e = subst s e0).
    { destruct b; simpl in Hin; apply in_app_or in Hin; destruct Hin as [Hin | Hin];
        apply in_map_iff in Hin; destruct Hin as [e0 [<- Hin]]; exists e0; split; auto;
        apply in_or_app; [now left | now right | now left | now right]. }
    destruct Hsub as [e0 [Hin0 ->]].
    assert (Goal : In x (decl (if b
                     then Model (states m) (ders m) (algs m) (inputs m) (subst_vals s (consts m))
                                (subst_vals s simple) (map (subst s) (eqs m)) (map (subst s) (ieqs m))
                                (arel m) (ghost m ++ s) (warned m || negb true) (failed m)
                     else Model (states m) (ders m) (algs m) (inputs m) (subst_vals s simple)
                                (subst_vals s (params m)) (map (subst s) (eqs m)) (map (subst s) (ieqs m))
                                (arel m) (ghost m ++ s) (warned m || negb true) (failed m))) \/ x = tm).
    { apply subst_occ in Ho. destruct Ho as [[Ho L] | [y [v [Hy [L Hv']]]]].
      - apply Keep; auto. eapply Hc; eauto.
      - assert (Lx : lookup x s = None).
        { destruct (lookup x s) as [w |] eqn:Lx; auto.
          rewrite (Free y v x w (lookup_In _ _ _ L) Lx) in Hv'. discriminate. }
        apply Keep; auto.
        destruct (Orig x (ex_intro _ y (ex_intro _ v (conj (lookup_In _ _ _ L) Hv')))) as [y0 [v0 [Hd0 Ho0]]].
        apply (Hv y0 v0 x); auto. apply in_or_app. destruct b; [left | right]; now apply P2. }
    destruct b; exact Goal.
Qed.

(* ---------- replace_constant_values ---------- *)
Lemma const_defs_facts : forall (l : list (name * pval)),
  existsb (fun '(_, v) => match v with None => true | _ => false end) l = false ->
  let d := flat_map (fun '(x, v) => match v with Some e => [(x, e)] | None => [] end) l in
  map fst d = map fst l /\ (forall y v, In (y, v) d -> In (y, Some v) l).
Proof.
  induction l as [| [y0 v0] l IH]; simpl.
  - intros _. split; [reflexivity | intros y v []].
  - destruct v0 as [e |]; simpl; try discriminate. intro H. destruct (IH H) as [I1 I2]. split.
    + now rewrite I1.
    + intros y v [Hyv | Hyv]; [inversion Hyv; now left | right; now apply I2].
Qed.

Lemma all_const_no_occ (d : sub) :
  existsb (fun '(_, e) => negb (is_const e)) d = false ->
  forall y v x, In (y, v) d -> occurs x v = false.
Proof.
  intros H y v x Hin. destruct (occurs x v) eqn:O; auto.
  assert (K : existsb (fun '(_, e) => negb (is_const e)) d = true).
  { apply existsb_exists. exists (y, v). split; auto. destruct v; simpl in *; try discriminate; auto. }
  congruence.
Qed.

Theorem closed_replace_const_values tm m :
  closed tm m -> vals_closed tm m -> acyclic (const_defs m) ->
  failed (replace_const_values m) = false -> warned m = false ->
  warned (replace_const_values m) = false ->
  closed tm (replace_const_values m).
Proof.
  unfold replace_const_values, const_defs. intros Hc Hv Hac.
  set (d := flat_map (fun '(x, v) => match v with Some e => [(x, e)] | None => [] end) (consts m)) in *.
  destruct (existsb (fun '(_, v) => match v with None => true | _ => false end) (consts m)) eqn:Ex.
  { destruct (resolve_defs d); simpl; congruence. }
  destruct (const_defs_facts (consts m) Ex) as [D1 D2]. fold d in D1, D2.
  (* the substitution: its domain is the constants, its values are free of them and closed *)
  assert (S : forall s conv, resolve_defs d = (s, conv) -> conv = true ->
              map fst s = map fst (consts m)
              /\ (forall y v x, lookup y s = Some v -> occurs x v = true ->
                               lookup x s = None /\ (In x (decl m) \/ x = tm))).
  { intros s conv. unfold resolve_defs.
    destruct (existsb (fun '(_, e) => negb (is_const e)) d) eqn:Nc.
    - pose proof (loop_closed_form d Hac) as CF. simpl in CF.
      pose proof (subst_fix_length SUBSTITUTE_LOOP_LIMIT (map fst d) (map snd d)) as Len.
      destruct (subst_fix SUBSTITUTE_LOOP_LIMIT (map fst d) (map snd d)) as [vals cv].
      simpl in *. intro H. inversion H. subst s conv. intro Hcv. subst cv.
      destruct (CF eq_refl) as [Free Orig]. split.
      + rewrite map_fst_combine_len; [exact D1 | now rewrite Len, !map_length].
      + intros y v x L Ho. split.
        * destruct (lookup x (combine (map fst d) vals)) as [w |] eqn:Lx; auto.
          rewrite (Free y v x w (lookup_In _ _ _ L) Lx) in Ho. discriminate.
        * destruct (Orig x (ex_intro _ y (ex_intro _ v (conj (lookup_In _ _ _ L) Ho)))) as [y0 [v0 [Hd0 Ho0]]].
          apply (Hv y0 v0 x); auto. apply in_or_app. right. now apply D2.
    - intro H. inversion H. subst s conv. intros _. split; [exact D1 |].
      intros y v x L Ho. rewrite (all_const_no_occ d Nc y v x (lookup_In _ _ _ L)) in Ho. discriminate. }
  destruct (resolve_defs d) as [s conv] eqn:R. simpl.
  intros _ Hw0 Hw. rewrite Hw0 in Hw. simpl in Hw. apply negb_false_iff in Hw.
  destruct (S s conv eq_refl Hw) as [Dom Vals].
  assert (Keep : forall x, (In x (decl m) \/ x = tm) -> lookup x s = None ->
                 In x (algs m ++ states m ++ ders m ++ inputs m ++ map fst (subst_vals s (params m)) ++ []) \/ x = tm).
  { intros x [Hd | Ht] L; [| now right]. left. apply lookup_none_notin in L. rewrite Dom in L.
    unfold decl, others in Hd. rewrite !in_app_iff in Hd. rewrite map_fst_subst_vals, !in_app_iff. tauto. }
  intros e x Hin Ho. unfold decl, others. simpl in *.
  assert (Hsub : exists e0, In e0 (eqs m ++ ieqs m) /\ e = subst s e0).
  { apply in_app_or in Hin. destruct Hin as [Hin | Hin]; apply in_map_iff in Hin;
      destruct Hin as [e0 [<- Hin]]; exists e0; split; auto; apply in_or_app; [now left | now right]. }
  destruct Hsub as [e0 [Hin0 ->]].
  apply subst_occ in Ho. destruct Ho as [[Ho L] | [y [v [_ [L Hv']]]]].
  - apply Keep; auto. eapply Hc; eauto.
  - destruct (Vals y v x L Hv') as [Lx Hd]. now apply Keep.
Qed.

(* ---------- detect_aliases ---------- *)
Lemma da_loop_kept ad al dl dne pc : forall es R R' kept,
  da_loop ad al dl dne pc R es = (R', kept) -> incl kept es.
Proof.
  induction es as [| e es IH]; intros R R' kept; simpl.
  - intro H. inversion H. intros z [].
  - destruct (detect_alias pc e) as [[[d0 d1] neg] |].
    + destruct (make_alias ad al dl dne R d0 d1 neg) as [R1 |].
      * intro H. intros z Hz. right. eapply IH; eauto.
      * destruct (da_loop ad al dl dne pc R es) as [R2 k2] eqn:E. intro H. inversion H. subst.
        intros z [-> | Hz]; [now left | right; eapply IH; eauto].
    + destruct (da_loop ad al dl dne pc R es) as [R2 k2] eqn:E. intro H. inversion H. subst.
      intros z [-> | Hz]; [now left | right; eapply IH; eauto].
Qed.

Lemma sgn_sym_occ x n c : occurs x (sgn n (Sym c)) = true -> x = c.
Proof. destruct n; simpl; intro H; now apply Pos.eqb_eq in H. Qed.

Theorem closed_detect_aliases tm ad m :
  closed tm m -> relinv (dne_of m) (arel m) -> da_decl (pc_of m) (algs m) (dne_of m) (eqs m) ->
  da_nored ad (algs m) (ders m) (dne_of m) (pc_of m) (arel m) (eqs m) = true ->
  failed (detect_aliases ad m) = false ->
  closed tm (detect_aliases ad m).
Proof.
  unfold dne_of, pc_of, detect_aliases. intros Hc Inv Hd Hn.
  destruct (da_loop ad (algs m) (ders m)
              (ders m ++ states m ++ inputs m ++ map fst (params m) ++ map fst (consts m))
              (map fst (params m) ++ map fst (consts m)) (arel m) (eqs m)) as [R kept] eqn:E.
  destruct (da_loop_struct _ _ _ _ _ _ _ _ _ Inv Hd E Hn) as [news [P [L Inv']]].
  pose proof (da_loop_kept _ _ _ _ _ _ _ _ _ E) as Kin.
  match goal with |- context [if ?c then _ else _] => destruct c eqn:B end.
  { simpl. congruence. }
  intros _. cbv zeta.
  set (p := fun a => negb (old_member (arel m) a)).
  match goal with |- context [map (subst ?s0) kept] => set (s := s0) end.
  assert (G : map fst s = filter p (mnames R)).
  { unfold s. apply (gone_eq p (fun cl n => sgn n (Sym (fst cl)))). }
  destruct Inv' as [I1 [I2 M1]].
  (* a declared symbol that is not substituted stays declared *)
  assert (Keep : forall x, In x (decl m) -> ~ In x (map fst s) ->
    In x (filter (fun x0 => negb (mem x0 (map fst s))) (algs m) ++
          filter (fun x0 => negb (mem x0 (map fst s))) (states m) ++
          filter (fun x0 => negb (mem x0 (map fst s))) (ders m) ++
          filter (fun x0 => negb (mem x0 (map fst s))) (inputs m) ++
          map fst (filter (fun '(x0, _) => negb (mem x0 (map fst s))) (params m)) ++ map fst (consts m))).
  { intros x Hx Hn'. assert (Hm : negb (mem x (map fst s)) = true).
    { apply negb_true_iff. destruct (mem x (map fst s)) eqn:M; auto. apply mem_In in M. contradiction. }
    unfold decl, others in Hx. rewrite !in_app_iff in Hx. rewrite !in_app_iff, !filter_In.
    destruct Hx as [Hx | [Hx | [Hx | [Hx | [Hx | Hx]]]]]; try tauto.
    right. right. right. right. left. apply in_map_iff in Hx. destruct Hx as [[y v] [Ey Hy]]. simpl in Ey. subst y.
    apply in_map_iff. exists (x, v). split; auto. apply filter_In. split; auto. }
  intros e x Hin Ho. unfold decl, others. simpl in Hin |- *.
  assert (Hsub : exists e0, In e0 (eqs m ++ ieqs m) /\ e = subst s e0).
  { apply in_app_or in Hin. destruct Hin as [Hin | Hin]; apply in_map_iff in Hin;
      destruct Hin as [e0 [<- Hin]]; exists e0; split; auto; apply in_or_app;
      [left; now apply Kin | now right]. }
  destruct Hsub as [e0 [Hin0 ->]].
  apply subst_occ in Ho. destruct Ho as [[Ho Lx] | [y [v [_ [Ly Hv]]]]].
  - destruct (Hc e0 x Hin0 Ho) as [Hdx | Ht]; [| now right]. left.
    apply Keep; auto. now apply lookup_none_notin.
  - left. apply lookup_In in Ly. unfold s in Ly. apply in_flat_map in Ly. destruct Ly as [[c ms] [Hcl Ly]].
    apply in_map_iff in Ly. destruct Ly as [[a n] [Ea Ha]]. inversion Ea. subst y v. clear Ea.
    simpl in Hv. apply sgn_sym_occ in Hv. subst x.
    pose proof (existsb_false_in _ _ (c, ms) B Hcl) as Bc. simpl in Bc.
    apply orb_false_iff in Bc. destruct Bc as [Bc _]. apply negb_false_iff in Bc. apply mem_In in Bc.
    apply Keep.
    + unfold decl, others. rewrite !in_app_iff in *. tauto.
    + rewrite G. intro K. apply filter_In in K. destruct K as [K _].
      apply (I2 c); auto. unfold cnames. apply in_map_iff. exists (c, ms). auto.
Qed.

(* ---------- composition (partial) ---------- *)
Definition pass_closed (tm : name) (p : pass) : Prop :=
  let '(_, f, H) := p in
  forall m, H m -> closed tm m -> failed m = false -> failed (f m) = false -> closed tm (f m).

Lemma run_closed tm ps : Forall (pass_closed tm) ps ->
  forall m, run_ok ps m -> closed tm m -> failed (run ps m) = false -> closed tm (run ps m).
Proof.
  induction 1 as [| [[b f] H] ps Hp Hps IH]; simpl; intros m Hok Hc Hf; auto.
  destruct Hok as [H1 H2].
  assert (Hf1 : failed (step b f m) = false).
  { destruct (failed (step b f m)) eqn:E; auto. rewrite (run_failed ps _ E) in Hf. discriminate. }
  assert (C1 : closed tm (step b f m)).
  { unfold step in *. destruct b; simpl in *; [| exact Hc].
    destruct (failed m) eqn:Fm; simpl in *; [exact Hc |]. apply (Hp m); auto. }
  apply IH; assumption.
Qed.

(* hypotheses of the closedness composition.  PROVED from the carve-out: the eliminable pass
   (acyclic assignments, converged loop, no eliminable state).  eliminate_constant_assignments, replace_parameter_values
   (bookkeeping).  replace_parameter/constant_expressions (from: the values reaching the pass only
   mention declared symbols, acyclic, converged).  ASSUMED (stated as the pass's own closedness on the
   model that reaches it — the missing lemmas): replace_constant_values, detect_aliases. *)
Definition H_cl_assumed (tm : name) (f : model -> model) (m : model) : Prop := closed tm (f m).
Definition H_cl_elim (o : options) (m : model) : Prop :=
  match o_elim o with
  | Some ns => no_elim_state ns m = true /\ acyclic (elim_defs ns m) /\ warned m = false
               /\ warned (eliminate_vars ns m) = false
  | None => True
  end.

Definition H_cl_exprs (tm : name) (b : bool) (m : model) : Prop :=
  vals_closed tm m /\ acyclic (expr_defs b m) /\ warned m = false /\ warned (replace_exprs b m) = false.

Definition H_cl_rcv (tm : name) (m : model) : Prop :=
  vals_closed tm m /\ acyclic (const_defs m) /\ warned m = false /\ warned (replace_const_values m) = false.

Definition passes_cl (tm : name) (o : options) : list pass :=
  [ (o_rpe o, replace_exprs true, H_cl_exprs tm true);
    (o_rce o, replace_exprs false, H_cl_exprs tm false);
    (o_eca o, elim_const_assignments, fun _ => True);          (* proved *)
    (o_rpv o, replace_param_values, fun _ => True);            (* proved *)
    (o_rcv o, replace_const_values, H_cl_rcv tm);                (* proved from the carve-out *)
    (elim_on o, elim_f o, H_cl_elim o);
    (o_da o, detect_aliases (o_allow_der o), H_da15 o) ].      (* proved from the alias invariant *)

Lemma simplify_once_run_cl tm o m : simplify_once o m = run (passes_cl tm o) m.
Proof. unfold simplify_once, passes_cl, run, elim_on, elim_f. destruct (o_elim o); reflexivity. Qed.

Theorem simplify_once_closed_partial tm o m :
  run_ok (passes_cl tm o) m -> closed tm m -> failed (simplify_once o m) = false ->
  closed tm (simplify_once o m).
Proof.
  rewrite (simplify_once_run_cl tm). apply run_closed. unfold passes_cl.
  apply Forall_cons; [intros m0 H0 Hc _ _; apply closed_replace_exprs; [exact Hc | apply H0 ..] |].
  apply Forall_cons; [intros m0 H0 Hc _ _; apply closed_replace_exprs; [exact Hc | apply H0 ..] |].
  apply Forall_cons; [intros m0 _ Hc _ _; now apply closed_elim_const_assignments |].
  apply Forall_cons; [intros m0 _ Hc _ _; now apply closed_replace_param_values |].
  apply Forall_cons; [intros m0 H0 Hc _ Hf; apply closed_replace_const_values; [exact Hc | apply H0 | apply H0 | exact Hf | apply H0 | apply H0] |].
  apply Forall_cons; [| apply Forall_cons; [| apply Forall_nil];
    intros m0 H0 Hc _ Hf; unfold H_da15 in H0; apply closed_detect_aliases; [exact Hc | apply H0 | apply H0 | apply H0 | exact Hf]].
  intros m0 H0 Hc Hf Hf'. unfold elim_f, H_cl_elim in *. destruct (o_elim o) as [ns |]; [| exact Hc].
  destruct H0 as [Hn [Hac [Hw Hw']]]. rewrite Hn in *.
  destruct (o_expand_mx o); [| simpl in Hf'; discriminate].
  now apply closed_eliminate_vars_acyclic.
Qed.


(* ---------- the value-closedness hypothesis as a decidable check on the generated model ---------- *)
Fixpoint syms (e : expr) : list name :=
  match e with
  | Sym x => [x]
  | Const _ => []
  | Un _ a => syms a
  | Bin _ a b => syms a ++ syms b
  end.
Lemma occurs_syms x e : occurs x e = true -> In x (syms e).
Proof.
  induction e as [y | q | o a IH | o a IHa b IHb]; simpl; try discriminate.
  - intro H. apply Pos.eqb_eq in H. now left.
  - exact IH.
  - intro H. apply orb_true_iff in H. apply in_or_app. destruct H; [left; auto | right; auto].
Qed.

(* every symbol of every parameter / constant value is a declared symbol of the model *)
Definition vals_closedb (m : model) : bool :=
  forallb (fun p => match snd p with
                    | Some e => forallb (fun x => mem x (decl m)) (syms e)
                    | None => true
                    end) (params m ++ consts m).

Theorem vals_closedb_sound tm m : vals_closedb m = true -> vals_closed tm m.
Proof.
  unfold vals_closedb, vals_closed. intros H y v x Hin Ho. left.
  rewrite forallb_forall in H. specialize (H (y, Some v) Hin). simpl in H.
  rewrite forallb_forall in H. apply mem_In. apply H. now apply occurs_syms.
Qed.
