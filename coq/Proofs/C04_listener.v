(* C04 — proofs about the listener model (Model/C04_listener.v).
   The state-passing listener is related to a declarative reading of the class syntax:
   per declarator one symbol (spec_sym), per section its effective visibility (eff_vis), per class the
   equations / statements of the initial and non-initial sections in source order (sel). *)
From Coq Require Import String List Bool Arith Lia.
From PV Require Import Model.C04_listener.
Import ListNotations.
Open Scope string_scope.
Open Scope list_scope.

(* ------------------------------------------------------------------------------------------ *)
(* declarative reading                                                                        *)
(* ------------------------------------------------------------------------------------------ *)
Definition spec_cm (m : option modif) : option omod :=
  match m with
  | None => None
  | Some (Modif cm val) =>
      match cm, val with
      | None, None => None
      | Some a, None => Some (OCM (map conv_arg a))
      | None, Some e => Some (OCM [value_arg e])
      | Some a, Some e => Some (OCM (map conv_arg a ++ [value_arg e]))
      end
  end.

Definition spec_dims (v : variant) (cl : clause) (d : declr) : list (list expr) :=
  match c_dims cl, d_dims d with
  | None, None => default_dims
  | None, Some own => [own]
  | Some c, None => [c]
  | Some c, Some own => if v_dimsmerge v then [own ++ c] else [c]
  end.

(* a symbol without its order number and object identities *)
Definition erase_ids (s : osym) : osym :=
  mkS (s_name s) (s_type s) (s_prefixes s) (s_dims s) (s_vis s) (s_order s) (s_comment s) (s_cm s) 0 0 0.
Definition erase_sym (s : osym) : osym :=
  mkS (s_name s) (s_type s) (s_prefixes s) (s_dims s) (s_vis s) 0 (s_comment s) (s_cm s) 0 0 0.
Definition spec_sym (v : variant) (vs : vis) (cl : clause) (d : declr) : osym :=
  mkS (d_name d) (c_type cl) (c_prefixes cl) (spec_dims v cl d) vs 0 (d_comment d) (spec_cm (d_mod d)) 0 0 0.

Definition sel (init : bool) (secs : list (bool * list expr)) : list expr :=
  concat (map snd (filter (fun s => Bool.eqb (fst s) init) secs)).

(* effective visibility of each section: with the repair its label; without it a public / protected
   section followed by another one of the same label is not labelled at all (stays PRIVATE) *)
Definition has_label {X : Type} (lb : label) (secs : list (label * X)) : bool :=
  existsb (fun s => label_eqb lb (fst s)) secs.
Fixpoint eff_vis {X : Type} (v : variant) (secs : list (label * X)) : list vis :=
  match secs with
  | [] => []
  | (lb, _) :: r =>
      (if v_allsec v then vis_of_label lb
       else match lb with Unl => Private | _ => if has_label lb r then Private else vis_of_label lb end)
      :: eff_vis v r
  end.

(* ------------------------------------------------------------------------------------------ *)
(* modification of a declaration                                                              *)
(* ------------------------------------------------------------------------------------------ *)
Lemma decl_cm_spec m : decl_cm m = spec_cm m.
Proof. destruct m as [[cm val]|]; [|reflexivity]. destruct cm, val; reflexivity. Qed.

(* ------------------------------------------------------------------------------------------ *)
(* equation / algorithm sections                                                              *)
(* ------------------------------------------------------------------------------------------ *)
Lemma split_init_gen secs a b :
  fold_left (fun (acc : list expr * list expr) (s : bool * list expr) =>
               if fst s then (fst acc, snd acc ++ snd s) else (fst acc ++ snd s, snd acc)) secs (a, b)
  = (a ++ sel false secs, b ++ sel true secs).
Proof.
  revert a b. induction secs as [|[i xs] r IH]; intros a b; cbn [fold_left].
  - unfold sel; cbn. now rewrite !app_nil_r.
  - destruct i; cbn [fst snd]; rewrite IH; unfold sel; cbn; now rewrite <- ?app_assoc.
Qed.

Lemma split_init_spec secs : split_init secs = (sel false secs, sel true secs).
Proof. unfold split_init. now rewrite split_init_gen. Qed.

(* ------------------------------------------------------------------------------------------ *)
(* declarators of one clause                                                                  *)
(* ------------------------------------------------------------------------------------------ *)
Definition own_dims (d : declr) : list (list expr) :=
  match d_dims d with Some subs => [subs] | None => default_dims end.
Definition step_next (d : declr) (n : nat) : nat := match d_dims d with Some _ => S n | None => n end.

Fixpoint pre_syms (cl : clause) (P T D0 : nat) (ds : list declr) (c n : nat) : list osym :=
  match ds with
  | [] => []
  | d :: r => mkS (d_name d) [] (c_prefixes cl) (own_dims d) Private c (d_comment d) (decl_cm (d_mod d)) P
                  (match d_dims d with Some _ => n | None => D0 end) T
              :: pre_syms cl P T D0 r (S c) (step_next d n)
  end.
Fixpoint pre_next (ds : list declr) (n : nat) : nat :=
  match ds with [] => n | d :: r => pre_next r (step_next d n) end.
Fixpoint fresh (seen ns : list string) : bool :=
  match ns with [] => true | x :: r => negb (mem x seen) && fresh (seen ++ [x]) r end.

Lemma declrs_ok cl P T D0 ds : forall seen l ss seen' l',
  mapM (do_declr cl P T D0) ds (seen, l) = Ok (ss, (seen', l')) ->
  ss = pre_syms cl P T D0 ds (l_count l) (l_next l)
  /\ seen' = seen ++ map d_name ds
  /\ fresh seen (map d_name ds) = true
  /\ l_count l' = l_count l + length ds
  /\ l_next l' = pre_next ds (l_next l)
  /\ l_symset l' = match ds with [] => l_symset l | _ => false end.
Proof.
  induction ds as [|d r IH]; intros seen l ss seen' l' H; cbn [mapM] in H.
  - inversion H; subst. cbn. rewrite app_nil_r. repeat split; lia.
  - unfold do_declr at 1 in H. cbn iota beta in H.
    destruct (mem (d_name d) seen) eqn:Hm; [discriminate|].
    destruct (d_dims d) eqn:Hd;
      (destruct (mapM (do_declr cl P T D0) r _) as [[bs [s2 l2]]|] eqn:Hr; [|discriminate];
       inversion H; subst; apply IH in Hr; cbn [l_count l_next l_symset] in Hr;
       destruct Hr as (E1 & E2 & E3 & E4 & E5 & E6);
       cbn [pre_syms pre_next map fresh length]; unfold own_dims, step_next; rewrite Hd, Hm; cbn [negb andb];
       subst; rewrite <- app_assoc; cbn [app];
       repeat split; try assumption; try lia;
       destruct r; cbn in *; congruence).
Qed.

Lemma fresh_not_ok cl P T D0 ds seen l :
  fresh seen (map d_name ds) = false -> exists e, mapM (do_declr cl P T D0) ds (seen, l) = Err e.
Proof.
  intros Hf. destruct (mapM (do_declr cl P T D0) ds (seen, l)) as [[ss [s' l']]|e] eqn:H; [|eauto].
  apply declrs_ok in H. destruct H as (_ & _ & H & _). congruence.
Qed.

Lemma pre_next_mono ds : forall n, n <= pre_next ds n.
Proof. induction ds as [|d r IH]; intros n; cbn; [lia|]. specialize (IH (step_next d n)). unfold step_next in *. destruct (d_dims d); lia. Qed.

(* ------------------------------------------------------------------------------------------ *)
(* closing the clause: type filled in, clause dimensions, per-declarator copies                *)
(* ------------------------------------------------------------------------------------------ *)
Lemma fst_let {A B : Type} (p : list A * B) (x : A) :
  fst (let '(a, b) := p in (x :: a, b)) = x :: fst p.
Proof. now destruct p. Qed.

Lemma copy_syms_erase ss : forall n, map erase_ids (fst (copy_syms ss n)) = map erase_ids ss.
Proof.
  induction ss as [|s r IH]; intros n; cbn [copy_syms]; [reflexivity|].
  rewrite fst_let. cbn [map]. now rewrite IH.
Qed.

Lemma erase_sym_ids s : erase_sym s = erase_sym (erase_ids s).
Proof. reflexivity. Qed.
Lemma order_ids s : s_order s = s_order (erase_ids s).
Proof. reflexivity. Qed.

Lemma map_erase_sym_ids l l' : map erase_ids l = map erase_ids l' -> map erase_sym l = map erase_sym l'.
Proof.
  intros H. rewrite (map_ext _ _ erase_sym_ids l), (map_ext _ _ erase_sym_ids l'), <- !map_map. now rewrite H.
Qed.
Lemma map_order_ids l l' : map erase_ids l = map erase_ids l' -> map s_order l = map s_order l'.
Proof.
  intros H. rewrite (map_ext _ _ order_ids l), (map_ext _ _ order_ids l'), <- !map_map. now rewrite H.
Qed.

Definition tail_copy (ss : list osym) (n : nat) : list osym * nat :=
  match ss with [] => ([], n) | s0 :: tl => let '(tl', n3) := copy_syms tl n in (s0 :: tl', n3) end.
Lemma tail_copy_erase ss n : map erase_ids (fst (tail_copy ss n)) = map erase_ids ss.
Proof.
  destruct ss as [|s0 tl]; [reflexivity|]. unfold tail_copy. rewrite fst_let. cbn [map]. now rewrite copy_syms_erase.
Qed.

Lemma merge_spec cl P T D0 Dc subs v : c_dims cl = Some subs -> v_dimsmerge v = true ->
  forall ds c n k, D0 < n ->
  map erase_sym (fst (merge_dims D0 Dc subs (map (set_type (c_type cl)) (pre_syms cl P T D0 ds c n)) k))
  = map (spec_sym v Private cl) ds
  /\ map s_order (fst (merge_dims D0 Dc subs (map (set_type (c_type cl)) (pre_syms cl P T D0 ds c n)) k))
     = seq c (length ds).
Proof.
  intros Hc Hv. induction ds as [|d r IH]; intros c n k Hn; cbn [pre_syms map merge_dims]; [now split|].
  unfold set_type at 1 3. cbn [s_did].
  destruct (d_dims d) eqn:Hd.
  - replace (Nat.eqb n D0) with false by (symmetry; apply Nat.eqb_neq; lia).
    rewrite !fst_let. cbn [map length seq]. unfold step_next; rewrite Hd.
    destruct (IH (S c) (S n) (S k) ltac:(lia)) as [E1 E2]. rewrite E1, E2. split; [|reflexivity].
    f_equal. unfold spec_sym, spec_dims, erase_sym, set_dims, own_dims. cbn. rewrite Hc, Hd, Hv, decl_cm_spec. reflexivity.
  - rewrite Nat.eqb_refl. rewrite !fst_let. cbn [map length seq]. unfold step_next; rewrite Hd.
    destruct (IH (S c) n k Hn) as [E1 E2]. rewrite E1, E2. split; [|reflexivity].
    f_equal. unfold spec_sym, spec_dims, erase_sym, set_dims, own_dims. cbn. rewrite Hc, Hd, decl_cm_spec. reflexivity.
Qed.

Lemma plain_spec cl P T D0 v : (c_dims cl = None \/ v_dimsmerge v = false) ->
  forall ds c n,
  map erase_sym (match c_dims cl with
                 | Some subs => map (set_dims 0 [subs]) (map (set_type (c_type cl)) (pre_syms cl P T D0 ds c n))
                 | None => map (set_type (c_type cl)) (pre_syms cl P T D0 ds c n)
                 end)
  = map (spec_sym v Private cl) ds
  /\ map s_order (match c_dims cl with
                 | Some subs => map (set_dims 0 [subs]) (map (set_type (c_type cl)) (pre_syms cl P T D0 ds c n))
                 | None => map (set_type (c_type cl)) (pre_syms cl P T D0 ds c n)
                 end) = seq c (length ds).
Proof.
  intros Hv. induction ds as [|d r IH]; intros c n.
  - destruct (c_dims cl); now split.
  - specialize (IH (S c) (step_next d n)).
    destruct (c_dims cl) eqn:Hc; cbn [pre_syms map length seq] in *; destruct IH as [E1 E2]; rewrite E1, E2;
      (split; [|reflexivity]); f_equal;
      unfold spec_sym, spec_dims, erase_sym, set_dims, set_type, own_dims; cbn; rewrite Hc, decl_cm_spec;
      destruct (d_dims d); try reflexivity.
    destruct Hv as [Hv|Hv]; [discriminate|]. now rewrite Hv.
Qed.

Lemma set_dims_erase n m d ss : map erase_ids (map (set_dims n d) ss) = map erase_ids (map (set_dims m d) ss).
Proof. rewrite !map_map. apply map_ext. reflexivity. Qed.

Lemma close_clause_spec v cl P T D0 ds c n m : D0 < n ->
  map erase_sym (fst (close_clause v cl D0 (pre_syms cl P T D0 ds c n) m)) = map (spec_sym v Private cl) ds
  /\ map s_order (fst (close_clause v cl D0 (pre_syms cl P T D0 ds c n) m)) = seq c (length ds).
Proof.
  intros Hn. unfold close_clause.
  set (ss1 := map (set_type (c_type cl)) (pre_syms cl P T D0 ds c n)).
  assert (HH : forall (p : list osym * nat),
             fst (let '(ss2, n2) := p in
                  match ss2 with [] => ([], n2) | s0 :: tl => let '(tl', n3) := copy_syms tl n2 in (s0 :: tl', n3) end)
             = fst (tail_copy (fst p) (snd p))) by (intros [a b]; reflexivity).
  rewrite HH. clear HH.
  rewrite (map_erase_sym_ids _ _ (tail_copy_erase _ _)), (map_order_ids _ _ (tail_copy_erase _ _)).
  destruct (c_dims cl) as [subs|] eqn:Hc.
  - destruct (v_dimsmerge v) eqn:Hv.
    + subst ss1. apply (merge_spec cl P T D0 m subs v Hc Hv ds c n (S m) Hn).
    + cbn [fst]. pose proof (plain_spec cl P T D0 v (or_intror Hv) ds c n) as Hp. rewrite Hc in Hp.
      subst ss1.
      rewrite (map_erase_sym_ids _ _ (set_dims_erase m 0 [subs] _)), (map_order_ids _ _ (set_dims_erase m 0 [subs] _)).
      exact Hp.
  - cbn [fst]. pose proof (plain_spec cl P T D0 v (or_introl Hc) ds c n) as Hp. rewrite Hc in Hp. exact Hp.
Qed.

(* the whole clause *)
Lemma do_clause_ok v cl seen l ss seen' l' :
  do_clause v cl (seen, l) = Ok (ss, (seen', l')) ->
  map erase_sym ss = map (spec_sym v Private cl) (c_decls cl)
  /\ map s_order ss = seq (l_count l) (length (c_decls cl))
  /\ seen' = seen ++ map d_name (c_decls cl)
  /\ fresh seen (map d_name (c_decls cl)) = true
  /\ l_count l' = l_count l + length (c_decls cl)
  /\ l_symset l' = match c_decls cl with [] => l_symset l | _ => false end.
Proof.
  unfold do_clause. intros H.
  destruct (mapM _ (c_decls cl) _) as [[ss0 [seen0 l0]]|] eqn:Hm; [|discriminate].
  apply declrs_ok in Hm. cbn [l_count l_next l_symset] in Hm. destruct Hm as (E1 & E2 & E3 & E4 & E5 & E6).
  destruct (close_clause v cl _ ss0 (l_next l0)) as [ss' n'] eqn:Hc. inversion H; subst ss' seen' l'. clear H.
  assert (Hs : ss = fst (close_clause v cl (S (S (l_next l))) ss0 (l_next l0))) by now rewrite Hc.
  rewrite Hs, E1.
  destruct (close_clause_spec v cl (l_next l) (S (l_next l)) (S (S (l_next l))) (c_decls cl) (l_count l)
                              (S (S (S (l_next l)))) (l_next l0) ltac:(lia)) as [A B].
  cbn [l_count l_symset]. repeat split; assumption.
Qed.

Lemma do_clause_dup v cl seen l :
  fresh seen (map d_name (c_decls cl)) = false -> exists e, do_clause v cl (seen, l) = Err e.
Proof.
  intros Hf. destruct (do_clause v cl (seen, l)) as [[ss [s' l']]|e] eqn:H; [|eauto].
  apply do_clause_ok in H. destruct H as (_ & _ & _ & H & _). congruence.
Qed.

