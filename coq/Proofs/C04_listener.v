(* C04 — proofs about the listener model (Model/C04_listener.v).
   The state-passing listener is related to a declarative reading of the class syntax:
   per declarator one symbol (spec_sym), per section its effective visibility (eff_vis), per class the
   equations / statements of the initial and non-initial sections in source order (sel). *)
From Coq Require Import String List Bool Arith Lia.
From PV Require Import Model.C04_listener.
Import ListNotations.
Open Scope string_scope.
Open Scope list_scope.

(* ------------------------------------------------------------------------------------------ *)
(* declarative reading                                                                        *)
(* ------------------------------------------------------------------------------------------ *)
Definition spec_cm (m : option modif) : option omod :=
  match m with
  | None => None
  | Some (Modif cm val) =>
      match cm, val with
      | None, None => None
      | Some a, None => Some (OCM (map conv_arg a))
      | None, Some e => Some (OCM [value_arg e])
      | Some a, Some e => Some (OCM (map conv_arg a ++ [value_arg e]))
      end
  end.

Definition spec_dims (v : variant) (cl : clause) (d : declr) : list (list expr) :=
  match c_dims cl, d_dims d with
  | None, None => default_dims
  | None, Some own => [own]
  | Some c, None => [c]
  | Some c, Some own => if v_dimsmerge v then [own ++ c] else [c]
  end.

(* a symbol without its order number and object identities *)
Definition erase_ids (s : osym) : osym :=
  mkS (s_name s) (s_type s) (s_prefixes s) (s_dims s) (s_vis s) (s_order s) (s_comment s) (s_cm s) 0 0 0.
Definition erase_sym (s : osym) : osym :=
  mkS (s_name s) (s_type s) (s_prefixes s) (s_dims s) (s_vis s) 0 (s_comment s) (s_cm s) 0 0 0.
Definition spec_sym (v : variant) (vs : vis) (cl : clause) (d : declr) : osym :=
  mkS (d_name d) (c_type cl) (c_prefixes cl) (spec_dims v cl d) vs 0 (d_comment d) (spec_cm (d_mod d)) 0 0 0.

Definition sel (init : bool) (secs : list (bool * list expr)) : list expr :=
  concat (map snd (filter (fun s => Bool.eqb (fst s) init) secs)).

(* effective visibility of each section: with the repair its label; without it a public / protected
   section followed by another one of the same label is not labelled at all (stays PRIVATE) *)
Definition has_label {X : Type} (lb : label) (secs : list (label * X)) : bool :=
  existsb (fun s => label_eqb lb (fst s)) secs.
Fixpoint eff_vis {X : Type} (v : variant) (secs : list (label * X)) : list vis :=
  match secs with
  | [] => []
  | (lb, _) :: r =>
      (if v_allsec v then vis_of_label lb
       else match lb with Unl => Private | _ => if has_label lb r then Private else vis_of_label lb end)
      :: eff_vis v r
  end.

(* ------------------------------------------------------------------------------------------ *)
(* modification of a declaration                                                              *)
(* ------------------------------------------------------------------------------------------ *)
Lemma decl_cm_spec m : decl_cm m = spec_cm m.
Proof. destruct m as [[cm val]|]; [|reflexivity]. destruct cm, val; reflexivity. Qed.

(* ------------------------------------------------------------------------------------------ *)
(* equation / algorithm sections                                                              *)
(* ------------------------------------------------------------------------------------------ *)
Lemma split_init_gen secs a b :
  fold_left (fun (acc : list expr * list expr) (s : bool * list expr) =>
               if fst s then (fst acc, snd acc ++ snd s) else (fst acc ++ snd s, snd acc)) secs (a, b)
  = (a ++ sel false secs, b ++ sel true secs).
Proof.
  revert a b. induction secs as [|[i xs] r IH]; intros a b; cbn [fold_left].
  - unfold sel; cbn. now rewrite !app_nil_r.
  - destruct i; cbn [fst snd]; rewrite IH; unfold sel; cbn; now rewrite <- ?app_assoc.
Qed.

Lemma split_init_spec secs : split_init secs = (sel false secs, sel true secs).
Proof. unfold split_init. now rewrite split_init_gen. Qed.

(* ------------------------------------------------------------------------------------------ *)
(* declarators of one clause                                                                  *)
(* ------------------------------------------------------------------------------------------ *)
Definition own_dims (d : declr) : list (list expr) :=
  match d_dims d with Some subs => [subs] | None => default_dims end.
Definition step_next (d : declr) (n : nat) : nat := match d_dims d with Some _ => S n | None => n end.

Fixpoint pre_syms (cl : clause) (P T D0 : nat) (ds : list declr) (c n : nat) : list osym :=
  match ds with
  | [] => []
  | d :: r => mkS (d_name d) [] (c_prefixes cl) (own_dims d) Private c (d_comment d) (decl_cm (d_mod d)) P
                  (match d_dims d with Some _ => n | None => D0 end) T
              :: pre_syms cl P T D0 r (S c) (step_next d n)
  end.
Fixpoint pre_next (ds : list declr) (n : nat) : nat :=
  match ds with [] => n | d :: r => pre_next r (step_next d n) end.
Fixpoint fresh (seen ns : list string) : bool :=
  match ns with [] => true | x :: r => negb (mem x seen) && fresh (seen ++ [x]) r end.

Lemma declrs_ok cl P T D0 ds : forall seen l ss seen' l',
  mapM (do_declr cl P T D0) ds (seen, l) = Ok (ss, (seen', l')) ->
  ss = pre_syms cl P T D0 ds (l_count l) (l_next l)
  /\ seen' = seen ++ map d_name ds
  /\ fresh seen (map d_name ds) = true
  /\ l_count l' = l_count l + length ds
  /\ l_next l' = pre_next ds (l_next l)
  /\ l_symset l' = match ds with [] => l_symset l | _ => false end
  /\ l_trace l' = l_trace l.
Proof.
  induction ds as [|d r IH]; intros seen l ss seen' l' H; cbn [mapM] in H.
  - inversion H; subst. cbn. rewrite app_nil_r. repeat split; lia.
  - unfold do_declr at 1 in H. cbn iota beta in H.
    destruct (mem (d_name d) seen) eqn:Hm; [discriminate|].
    destruct (d_dims d) eqn:Hd;
      (destruct (mapM (do_declr cl P T D0) r _) as [[bs [s2 l2]]|] eqn:Hr; [|discriminate];
       inversion H; subst; apply IH in Hr; cbn [l_count l_next l_symset l_trace] in Hr;
       destruct Hr as (E1 & E2 & E3 & E4 & E5 & E6 & E7);
       cbn [pre_syms pre_next map fresh length]; unfold own_dims, step_next; rewrite Hd, Hm; cbn [negb andb];
       subst; rewrite <- app_assoc; cbn [app];
       repeat split; try assumption; try lia;
       destruct r; cbn in *; congruence).
Qed.

Lemma fresh_not_ok cl P T D0 ds seen l :
  fresh seen (map d_name ds) = false -> exists e, mapM (do_declr cl P T D0) ds (seen, l) = Err e.
Proof.
  intros Hf. destruct (mapM (do_declr cl P T D0) ds (seen, l)) as [[ss [s' l']]|e] eqn:H; [|eauto].
  apply declrs_ok in H. destruct H as (_ & _ & H & _). congruence.
Qed.

Lemma pre_next_mono ds : forall n, n <= pre_next ds n.
Proof. induction ds as [|d r IH]; intros n; cbn; [lia|]. specialize (IH (step_next d n)). unfold step_next in *. destruct (d_dims d); lia. Qed.

(* ------------------------------------------------------------------------------------------ *)
(* closing the clause: type filled in, clause dimensions, per-declarator copies                *)
(* ------------------------------------------------------------------------------------------ *)
Lemma fst_let {A B : Type} (p : list A * B) (x : A) :
  fst (let '(a, b) := p in (x :: a, b)) = x :: fst p.
Proof. now destruct p. Qed.

Lemma copy_syms_erase ss : forall n, map erase_ids (fst (copy_syms ss n)) = map erase_ids ss.
Proof.
  induction ss as [|s r IH]; intros n; cbn [copy_syms]; [reflexivity|].
  rewrite fst_let. cbn [map]. now rewrite IH.
Qed.

Lemma erase_sym_ids s : erase_sym s = erase_sym (erase_ids s).
Proof. reflexivity. Qed.
Lemma order_ids s : s_order s = s_order (erase_ids s).
Proof. reflexivity. Qed.

Lemma map_erase_sym_ids l : forall l', map erase_ids l = map erase_ids l' -> map erase_sym l = map erase_sym l'.
Proof.
  induction l as [|a l IH]; intros [|b l'] H; cbn [map] in H; try discriminate; [reflexivity|].
  pose proof (f_equal (hd a) H) as H1; pose proof (f_equal (@tl _) H) as H2; cbn [hd tl map] in H1, H2.
  cbn [map]. rewrite (IH _ H2), (erase_sym_ids a), (erase_sym_ids b), H1. reflexivity.
Qed.
Lemma map_order_ids l : forall l', map erase_ids l = map erase_ids l' -> map s_order l = map s_order l'.
Proof.
  induction l as [|a l IH]; intros [|b l'] H; cbn [map] in H; try discriminate; [reflexivity|].
  pose proof (f_equal (hd a) H) as H1; pose proof (f_equal (@tl _) H) as H2; cbn [hd tl map] in H1, H2.
  cbn [map]. rewrite (IH _ H2), (order_ids a), (order_ids b), H1. reflexivity.
Qed.

Definition tail_copy (ss : list osym) (n : nat) : list osym * nat :=
  match ss with [] => ([], n) | s0 :: tl => let '(tl', n3) := copy_syms tl n in (s0 :: tl', n3) end.
Lemma tail_copy_erase ss n : map erase_ids (fst (tail_copy ss n)) = map erase_ids ss.
Proof.
  destruct ss as [|s0 tl]; [reflexivity|]. unfold tail_copy. rewrite fst_let. cbn [map]. now rewrite copy_syms_erase.
Qed.

Lemma merge_cons D0 Dc subs s r k :
  fst (merge_dims D0 Dc subs (s :: r) k)
  = if Nat.eqb (s_did s) D0 then set_dims Dc [subs] s :: fst (merge_dims D0 Dc subs r k)
    else set_dims k [hd [] (s_dims s) ++ subs] s :: fst (merge_dims D0 Dc subs r (S k)).
Proof. cbn [merge_dims]. destruct (Nat.eqb (s_did s) D0); rewrite fst_let; reflexivity. Qed.

Lemma merge_spec cl P T D0 Dc subs v : c_dims cl = Some subs -> v_dimsmerge v = true ->
  forall ds c n k, D0 < n ->
  map erase_sym (fst (merge_dims D0 Dc subs (map (set_type (c_type cl)) (pre_syms cl P T D0 ds c n)) k))
  = map (spec_sym v Private cl) ds
  /\ map s_order (fst (merge_dims D0 Dc subs (map (set_type (c_type cl)) (pre_syms cl P T D0 ds c n)) k))
     = seq c (length ds).
Proof.
  intros Hc Hv. induction ds as [|d r IH]; intros c n k Hn; cbn [pre_syms map]; [now split|].
  rewrite merge_cons. cbn [s_did set_type].
  destruct (d_dims d) eqn:Hd.
  - replace (Nat.eqb n D0) with false by (symmetry; apply Nat.eqb_neq; lia).
    cbn [map length seq]. unfold step_next; rewrite Hd.
    destruct (IH (S c) (S n) (S k) ltac:(lia)) as [E1 E2]. rewrite E1, E2. split; [|reflexivity].
    f_equal. unfold spec_sym, spec_dims, erase_sym, set_dims, own_dims. cbn. rewrite Hc, Hd, Hv, decl_cm_spec. reflexivity.
  - rewrite Nat.eqb_refl. cbn [map length seq]. unfold step_next; rewrite Hd.
    destruct (IH (S c) n k Hn) as [E1 E2]. rewrite E1, E2. split; [|reflexivity].
    f_equal. unfold spec_sym, spec_dims, erase_sym, set_dims, own_dims. cbn. rewrite Hc, Hd, decl_cm_spec. reflexivity.
Qed.

Lemma plain_spec cl P T D0 v : (c_dims cl = None \/ v_dimsmerge v = false) ->
  forall ds c n,
  map erase_sym (match c_dims cl with
                 | Some subs => map (set_dims 0 [subs]) (map (set_type (c_type cl)) (pre_syms cl P T D0 ds c n))
                 | None => map (set_type (c_type cl)) (pre_syms cl P T D0 ds c n)
                 end)
  = map (spec_sym v Private cl) ds
  /\ map s_order (match c_dims cl with
                 | Some subs => map (set_dims 0 [subs]) (map (set_type (c_type cl)) (pre_syms cl P T D0 ds c n))
                 | None => map (set_type (c_type cl)) (pre_syms cl P T D0 ds c n)
                 end) = seq c (length ds).
Proof.
  intros Hv. induction ds as [|d r IH]; intros c n.
  - destruct (c_dims cl); now split.
  - specialize (IH (S c) (step_next d n)).
    destruct (c_dims cl) eqn:Hc; cbn [pre_syms map length seq] in *; destruct IH as [E1 E2]; rewrite E1, E2;
      (split; [|reflexivity]); f_equal;
      unfold spec_sym, spec_dims, erase_sym, set_dims, set_type, own_dims; cbn; rewrite Hc, decl_cm_spec;
      destruct (d_dims d); try reflexivity.
    destruct Hv as [Hv|Hv]; [discriminate|]. now rewrite Hv.
Qed.

Lemma set_dims_erase n m d ss : map erase_ids (map (set_dims n d) ss) = map erase_ids (map (set_dims m d) ss).
Proof. rewrite !map_map. apply map_ext. reflexivity. Qed.

Lemma close_clause_spec v cl P T D0 ds c n m : D0 < n ->
  map erase_sym (fst (close_clause v cl D0 (pre_syms cl P T D0 ds c n) m)) = map (spec_sym v Private cl) ds
  /\ map s_order (fst (close_clause v cl D0 (pre_syms cl P T D0 ds c n) m)) = seq c (length ds).
Proof.
  intros Hn. unfold close_clause.
  set (ss1 := map (set_type (c_type cl)) (pre_syms cl P T D0 ds c n)).
  assert (HH : forall (p : list osym * nat),
             fst (let '(ss2, n2) := p in
                  match ss2 with [] => ([], n2) | s0 :: tl => let '(tl', n3) := copy_syms tl n2 in (s0 :: tl', n3) end)
             = fst (tail_copy (fst p) (snd p))) by (intros [a b]; reflexivity).
  rewrite HH. clear HH.
  rewrite (map_erase_sym_ids _ _ (tail_copy_erase _ _)), (map_order_ids _ _ (tail_copy_erase _ _)).
  destruct (c_dims cl) as [subs|] eqn:Hc.
  - destruct (v_dimsmerge v) eqn:Hv.
    + subst ss1. apply (merge_spec cl P T D0 m subs v Hc Hv ds c n (S m) Hn).
    + cbn [fst]. pose proof (plain_spec cl P T D0 v (or_intror Hv) ds c n) as Hp. rewrite Hc in Hp.
      subst ss1.
      rewrite (map_erase_sym_ids _ _ (set_dims_erase m 0 [subs] _)), (map_order_ids _ _ (set_dims_erase m 0 [subs] _)).
      exact Hp.
  - cbn [fst]. pose proof (plain_spec cl P T D0 v (or_introl Hc) ds c n) as Hp. rewrite Hc in Hp. exact Hp.
Qed.

(* the whole clause *)
Lemma do_clause_ok v cl seen l ss seen' l' :
  do_clause v cl (seen, l) = Ok (ss, (seen', l')) ->
  map erase_sym ss = map (spec_sym v Private cl) (c_decls cl)
  /\ map s_order ss = seq (l_count l) (length (c_decls cl))
  /\ seen' = seen ++ map d_name (c_decls cl)
  /\ fresh seen (map d_name (c_decls cl)) = true
  /\ l_count l' = l_count l + length (c_decls cl)
  /\ l_symset l' = match c_decls cl with [] => l_symset l | _ => false end
  /\ l_trace l' = l_trace l ++ map key ss
  /\ (ss, l_next l') = close_clause v cl (S (S (l_next l)))
                          (pre_syms cl (l_next l) (S (l_next l)) (S (S (l_next l))) (c_decls cl) (l_count l) (S (S (S (l_next l)))))
                          (pre_next (c_decls cl) (S (S (S (l_next l))))).
Proof.
  unfold do_clause. intros H.
  destruct (mapM _ (c_decls cl) _) as [[ss0 [seen0 l0]]|] eqn:Hm; [|discriminate].
  apply declrs_ok in Hm. cbn [l_count l_next l_symset l_trace] in Hm. destruct Hm as (E1 & E2 & E3 & E4 & E5 & E6 & E7).
  destruct (close_clause v cl _ ss0 (l_next l0)) as [ss' n'] eqn:Hc. inversion H; subst ss' seen' l'. clear H.
  destruct (close_clause_spec v cl (l_next l) (S (l_next l)) (S (S (l_next l))) (c_decls cl) (l_count l)
                              (S (S (S (l_next l)))) (l_next l0) ltac:(lia)) as [A B].
  rewrite <- E1, Hc in A, B. cbn [fst] in A, B.
  cbn [l_count l_symset l_trace l_next]. repeat split; try assumption.
  - now rewrite E7.
  - now rewrite <- E5, <- E1, Hc.
Qed.

Lemma do_clause_dup v cl seen l :
  fresh seen (map d_name (c_decls cl)) = false -> exists e, do_clause v cl (seen, l) = Err e.
Proof.
  intros Hf. destruct (do_clause v cl (seen, l)) as [[ss [s' l']]|e] eqn:H; [|eauto].
  apply do_clause_ok in H. destruct H as (_ & _ & _ & H & _). congruence.
Qed.


(* ------------------------------------------------------------------------------------------ *)
(* visibility: ctx.epub / ctx.epro (last match) against the effective visibility               *)
(* ------------------------------------------------------------------------------------------ *)
Lemma last_idx_acc lb X : forall i acc,
  last_idx lb X i acc = match last_idx lb X i None with Some j => Some j | None => acc end.
Proof.
  induction X as [|[lb' rs] r IH]; intros i acc; cbn [last_idx]; [reflexivity|].
  rewrite (IH (S i) (if label_eqb lb lb' then Some i else acc)), (IH (S i) (if label_eqb lb lb' then Some i else None)).
  destruct (last_idx lb r (S i) None); [reflexivity|]. destruct (label_eqb lb lb'); reflexivity.
Qed.

Lemma last_idx_ge lb X : forall i j, last_idx lb X i None = Some j -> i <= j.
Proof.
  induction X as [|[lb' rs] r IH]; intros i j; cbn [last_idx]; [discriminate|].
  rewrite last_idx_acc. destruct (last_idx lb r (S i) None) eqn:E.
  - intros H; inversion H; subst. apply IH in E. lia.
  - destruct (label_eqb lb lb'); intros H; inversion H; lia.
Qed.

Lemma last_idx_none lb X : forall i, last_idx lb X i None = None <-> has_label lb X = false.
Proof.
  induction X as [|[lb' rs] r IH]; intros i; cbn [last_idx has_label existsb fst]; [tauto|].
  rewrite last_idx_acc. fold (has_label lb r). specialize (IH (S i)).
  destruct (last_idx lb r (S i) None) eqn:E.
  - split; [discriminate|]. intros H. apply orb_false_iff in H. destruct H as [_ H]. apply IH in H. discriminate.
  - destruct IH as [IH _]. rewrite (IH eq_refl), orb_false_r. destruct (label_eqb lb lb'); split; congruence.
Qed.

Definition res_private (r : ores) : Prop :=
  match r with RSyms ss => Forall (fun s => s_vis s = Private) ss | RExt e => x_vis e = Private | ROther => True end.

Lemma set_private_id rs : Forall res_private rs -> map (set_vis_res Private) rs = rs.
Proof.
  induction 1 as [|r rs H _ IH]; [reflexivity|]. cbn [map]. rewrite IH. f_equal.
  destruct r as [ss|e|]; cbn in *; [|destruct e; cbn in *; now subst|reflexivity].
  f_equal. induction H as [|s ss Hs _ IHs]; [reflexivity|]. cbn [map]. rewrite IHs. f_equal.
  destruct s; cbn in *; now subst.
Qed.

Fixpoint apply_vis (vs : list vis) (X : list (label * list ores)) : list (list ores) :=
  match vs, X with
  | v1 :: vr, (_, rs) :: r => map (set_vis_res v1) rs :: apply_vis vr r
  | _, _ => []
  end.

Lemma assign_at_spec X : forall i epub epro,
  (forall k, i <= k -> opt_is epub k = opt_is (last_idx Pub X i None) k) ->
  (forall k, i <= k -> opt_is epro k = opt_is (last_idx Pro X i None) k) ->
  Forall (fun s => Forall res_private (snd s)) X ->
  assign_at epub epro X i = apply_vis (eff_vis (mkV false false false false) X) X.
Proof.
  induction X as [|[lb rs] r IH]; intros i epub epro Hpub Hpro HX; [reflexivity|].
  inversion HX as [|? ? Hrs Hr]; subst. cbn [snd] in Hrs.
  cbn [assign_at eff_vis apply_vis v_allsec].
  assert (Htail : forall lb' e, (forall k, i <= k -> opt_is e k = opt_is (last_idx lb' ((lb, rs) :: r) i None) k) ->
                        forall k, S i <= k -> opt_is e k = opt_is (last_idx lb' r (S i) None) k).
  { intros lb' e H k Hk. rewrite (H k ltac:(lia)). cbn [last_idx]. rewrite last_idx_acc.
    destruct (last_idx lb' r (S i) None); [reflexivity|].
    destruct (label_eqb lb' lb); cbn [opt_is]; [|reflexivity]. apply Nat.eqb_neq. lia. }
  rewrite (IH (S i) epub epro (Htail Pub epub Hpub) (Htail Pro epro Hpro) Hr). f_equal.
  assert (Hhead : forall lb' e, (forall k, i <= k -> opt_is e k = opt_is (last_idx lb' ((lb', rs) :: r) i None) k) ->
                        opt_is e i = negb (has_label lb' r)).
  { intros lb' e H. rewrite (H i (le_n i)). cbn [last_idx]. rewrite last_idx_acc.
    destruct (last_idx lb' r (S i) None) eqn:E.
    - pose proof (last_idx_ge _ _ _ _ E). cbn [opt_is].
      destruct (has_label lb' r) eqn:Hl; [cbn; apply Nat.eqb_neq; lia|]. apply (proj2 (last_idx_none lb' r (S i))) in Hl. rewrite Hl in E. discriminate.
    - apply (proj1 (last_idx_none lb' r (S i))) in E. rewrite E. destruct lb'; cbn; now rewrite Nat.eqb_refl. }
  destruct lb.
  - reflexivity.
  - rewrite (Hhead Pub epub Hpub). destruct (has_label Pub r); cbn [negb]; [now rewrite set_private_id|reflexivity].
  - rewrite (Hhead Pro epro Hpro). destruct (has_label Pro r); cbn [negb]; [now rewrite set_private_id|reflexivity].
Qed.

Lemma apply_vis_all X : map (fun s => map (set_vis_res (vis_of_label (fst s))) (snd s)) X
                        = apply_vis (eff_vis (mkV true false false false) X) X.
Proof. induction X as [|[lb rs] r IH]; [reflexivity|]. cbn [map eff_vis apply_vis v_allsec fst snd]. now rewrite IH. Qed.

Lemma eff_vis_flag {X : Type} v (S : list (label * X)) : eff_vis v S = eff_vis (mkV (v_allsec v) false false false) S.
Proof. induction S as [|[lb x] r IH]; [reflexivity|]. cbn [eff_vis v_allsec]. now rewrite IH. Qed.

Lemma assign_vis_spec v X : Forall (fun s => Forall res_private (snd s)) X ->
  assign_vis v X = apply_vis (eff_vis v X) X.
Proof.
  intros HX. unfold assign_vis. rewrite (eff_vis_flag v X). destruct (v_allsec v).
  - apply apply_vis_all.
  - apply assign_at_spec; auto.
Qed.

(* ------------------------------------------------------------------------------------------ *)
(* elements, sections, the class                                                              *)
(* ------------------------------------------------------------------------------------------ *)
Definition spec_res (v : variant) (e : element) : ores :=
  match e with
  | EComp cl => RSyms (map (spec_sym v Private cl) (c_decls cl))
  | EExt p m _ => RExt (mkE p Private (conv_args m))
  | _ => ROther
  end.
Definition erase_res (r : ores) : ores := match r with RSyms ss => RSyms (map erase_sym ss) | x => x end.
Definition names_el (e : element) : list string := match e with EComp cl => map d_name (c_decls cl) | _ => [] end.
Definition imports_el (e : element) : list import := match e with EImp i _ => [i] | _ => [] end.
Definition cname_el (e : element) : list string := match e with ECls _ n _ _ _ _ => [n] | _ => [] end.

Fixpoint fold_imp (v : variant) (is_ : list import) (d : list (string * oimp)) : result (list (string * oimp)) :=
  match is_ with
  | [] => Ok d
  | i :: r => match add_import v i d with Err e => Err e | Ok d' => fold_imp v r d' end
  end.

Lemma fold_imp_app v a : forall b d d1, fold_imp v a d = Ok d1 -> fold_imp v (a ++ b) d = fold_imp v b d1.
Proof.
  induction a as [|i r IH]; intros b d d1 H; cbn in *; [now inversion H|].
  destruct (add_import v i d); [|discriminate]. now apply IH.
Qed.

Lemma mem_app x a b : mem x (a ++ b) = mem x a || mem x b.
Proof. unfold mem. apply existsb_app. Qed.

Lemma fresh_app a : forall seen b, fresh seen (a ++ b) = fresh seen a && fresh (seen ++ a) b.
Proof.
  induction a as [|x r IH]; intros seen b; cbn [fresh app]; [now rewrite app_nil_r|].
  rewrite IH, <- app_assoc. cbn [app]. now rewrite andb_assoc.
Qed.

Lemma do_element_shape v path e k l r cls k' l' :
  do_element v path e (k, l) = Ok ((r, cls), (k', l')) ->
  erase_res r = spec_res v e
  /\ (match r with RSyms ss => map s_order ss = seq (l_count l) (length (names_el e)) | _ => True end)
  /\ k_seen k' = k_seen k ++ names_el e
  /\ fresh (k_seen k) (names_el e) = true
  /\ fold_imp v (imports_el e) (k_imports k) = Ok (k_imports k')
  /\ k_classes k' = k_classes k ++ cname_el e.
Proof.
  destruct e as [cl|p m an|i an|ct n cm secs eqs algs]; cbn [do_element]; intros H.
  - destruct (do_clause v cl (k_seen k, l)) as [[ss [seen' l1]]|] eqn:Hc; [|discriminate].
    inversion H; subst. apply do_clause_ok in Hc. destruct Hc as (A & B & C & D & _).
    cbn [erase_res spec_res names_el imports_el cname_el k_seen k_imports k_classes fold_imp].
    rewrite A, app_nil_r, map_length. repeat split; auto.
  - inversion H; subst. cbn. now rewrite !app_nil_r.
  - destruct (add_import v i (k_imports k)) as [im|] eqn:Hi; [|discriminate].
    inversion H; subst. cbn. rewrite Hi, !app_nil_r. repeat split; auto.
  - destruct (mapM _ secs _) as [[srs [k1 l1]]|]; [|discriminate].
    inversion H; subst. cbn. now rewrite !app_nil_r.
Qed.

Definition names_els (els : list element) := flat_map names_el els.
Definition imports_els (els : list element) := flat_map imports_el els.
Definition cnames_els (els : list element) := flat_map cname_el els.

Lemma do_elements_shape v path els : forall k l rs k' l',
  mapM (do_element v path) els (k, l) = Ok (rs, (k', l')) ->
  map erase_res (map fst rs) = map (spec_res v) els
  /\ k_seen k' = k_seen k ++ names_els els
  /\ fresh (k_seen k) (names_els els) = true
  /\ fold_imp v (imports_els els) (k_imports k) = Ok (k_imports k')
  /\ k_classes k' = k_classes k ++ cnames_els els.
Proof.
  induction els as [|e r IH]; intros k l rs k' l' H; cbn [mapM] in H.
  - inversion H; subst. cbn. now rewrite !app_nil_r.
  - destruct (do_element v path e (k, l)) as [[[r1 c1] [k1 l1]]|] eqn:He; [|discriminate].
    destruct (mapM (do_element v path) r (k1, l1)) as [[bs [k2 l2]]|] eqn:Hr; [|discriminate].
    inversion H; subst. apply do_element_shape in He. apply IH in Hr.
    destruct He as (A1 & _ & A2 & A3 & A4 & A5). destruct Hr as (B1 & B2 & B3 & B4 & B5).
    unfold names_els, imports_els, cnames_els in *. cbn [map flat_map fst].
    repeat split.
    + now rewrite A1, B1.
    + now rewrite B2, A2, <- app_assoc.
    + now rewrite fresh_app, A3, <- A2, B3.
    + rewrite (fold_imp_app _ _ _ _ _ A4). exact B4.
    + now rewrite B5, A5, <- app_assoc.
Qed.

Definition sec_fun (v : variant) (path : list string) (sec : label * list element) (s : cstate * lst) :=
  match mapM (do_element v path) (snd sec) s with
  | Err x => Err x
  | Ok (rs, s') => Ok ((fst sec, rs), s')
  end.
Definition all_els (secs : list (label * list element)) : list element := flat_map snd secs.

Lemma do_sections_shape v path secs : forall k l srs k' l',
  mapM (sec_fun v path) secs (k, l) = Ok (srs, (k', l')) ->
  map (fun s => (fst s, map erase_res (map fst (snd s)))) srs = map (fun s => (fst s, map (spec_res v) (snd s))) secs
  /\ k_seen k' = k_seen k ++ names_els (all_els secs)
  /\ fresh (k_seen k) (names_els (all_els secs)) = true
  /\ fold_imp v (imports_els (all_els secs)) (k_imports k) = Ok (k_imports k')
  /\ k_classes k' = k_classes k ++ cnames_els (all_els secs).
Proof.
  induction secs as [|[lb els] r IH]; intros k l srs k' l' H; cbn [mapM] in H.
  - inversion H; subst. cbn. now rewrite !app_nil_r.
  - unfold sec_fun at 1 in H. cbn [fst snd] in H.
    destruct (mapM (do_element v path) els (k, l)) as [[rs [k1 l1]]|] eqn:He; [|discriminate].
    destruct (mapM (sec_fun v path) r (k1, l1)) as [[bs [k2 l2]]|] eqn:Hr; [|discriminate].
    inversion H; subst. apply do_elements_shape in He. apply IH in Hr.
    destruct He as (A1 & A2 & A3 & A4 & A5). destruct Hr as (B1 & B2 & B3 & B4 & B5).
    unfold all_els, names_els, imports_els, cnames_els in *. cbn [map flat_map fst snd].
    rewrite !flat_map_app.
    repeat split.
    + now rewrite A1, B1.
    + now rewrite B2, A2, <- app_assoc.
    + now rewrite fresh_app, A3, <- A2, B3.
    + rewrite (fold_imp_app _ _ _ _ _ A4). exact B4.
    + now rewrite B5, A5, <- app_assoc.
Qed.

(* erasing commutes with the visibility assignment *)
Lemma erase_set_vis vs r : erase_res (set_vis_res vs r) = set_vis_res vs (erase_res r).
Proof. destruct r; cbn; [|reflexivity|reflexivity]. f_equal. rewrite !map_map. apply map_ext. reflexivity. Qed.

Lemma apply_vis_erase vs : forall X,
  map (map erase_res) (apply_vis vs X) = apply_vis vs (map (fun s => (fst s, map erase_res (snd s))) X).
Proof.
  induction vs as [|v1 vr IH]; intros [|[lb rs] r]; try reflexivity.
  cbn [apply_vis map fst snd]. rewrite IH. f_equal. rewrite !map_map. apply map_ext. intros; apply erase_set_vis.
Qed.

Lemma eff_vis_map {X Y : Type} v (f : X -> Y) (S : list (label * X)) :
  eff_vis v (map (fun s => (fst s, f (snd s))) S) = eff_vis v S.
Proof.
  induction S as [|[lb x] r IH]; [reflexivity|]. cbn [map eff_vis fst snd]. rewrite IH. clear IH. f_equal.
  assert (H : forall lb', has_label lb' (map (fun s : label * X => (fst s, f (snd s))) r) = has_label lb' r).
  { intros lb'. unfold has_label. induction r as [|[l0 x0] r0 IHr]; [reflexivity|]. cbn [map existsb fst snd]. now rewrite IHr. }
  now rewrite !H.
Qed.

Definition sec_syms (v : variant) (vs : vis) (els : list element) : list osym :=
  flat_map (fun e => match e with EComp cl => map (spec_sym v vs cl) (c_decls cl) | _ => [] end) els.
Definition sec_exts (vs : vis) (els : list element) : list oext :=
  flat_map (fun e => match e with EExt p m _ => [mkE p vs (conv_args m)] | _ => [] end) els.
Fixpoint class_syms_aux (v : variant) (vs : list vis) (secs : list (label * list element)) : list osym :=
  match vs, secs with v1 :: vr, (_, els) :: r => sec_syms v v1 els ++ class_syms_aux v vr r | _, _ => [] end.
Fixpoint class_exts_aux (vs : list vis) (secs : list (label * list element)) : list oext :=
  match vs, secs with v1 :: vr, (_, els) :: r => sec_exts v1 els ++ class_exts_aux vr r | _, _ => [] end.
(* the symbol table / extends list a class text declares: every declarator of every component clause, in
   source order, with the effective visibility of its section *)
Definition class_syms (v : variant) (secs : list (label * list element)) : list osym :=
  class_syms_aux v (eff_vis v secs) secs.
Definition class_exts (v : variant) (secs : list (label * list element)) : list oext :=
  class_exts_aux (eff_vis v secs) secs.

Lemma syms_of_erase rs : map erase_sym (syms_of rs) = syms_of (map erase_res rs).
Proof.
  unfold syms_of. induction rs as [|r rs IH]; [reflexivity|]. cbn [flat_map map]. rewrite map_app, IH.
  destruct r; reflexivity.
Qed.
Lemma exts_of_erase rs : exts_of (map erase_res rs) = exts_of rs.
Proof.
  unfold exts_of. induction rs as [|r rs IH]; [reflexivity|]. cbn [flat_map map]. rewrite IH. destruct r; reflexivity.
Qed.
Lemma syms_of_app a b : syms_of (a ++ b) = syms_of a ++ syms_of b.
Proof. unfold syms_of. apply flat_map_app. Qed.
Lemma exts_of_app a b : exts_of (a ++ b) = exts_of a ++ exts_of b.
Proof. unfold exts_of. apply flat_map_app. Qed.

Lemma syms_of_spec v v1 els : syms_of (map (set_vis_res v1) (map (spec_res v) els)) = sec_syms v v1 els.
Proof.
  unfold syms_of, sec_syms. induction els as [|e r IH]; [reflexivity|]. cbn [map flat_map]. rewrite IH. f_equal.
  destruct e; cbn; try reflexivity. rewrite map_map. apply map_ext. reflexivity.
Qed.
Lemma exts_of_spec v v1 els : exts_of (map (set_vis_res v1) (map (spec_res v) els)) = sec_exts v1 els.
Proof.
  unfold exts_of, sec_exts. induction els as [|e r IH]; [reflexivity|]. cbn [map flat_map]. rewrite IH. f_equal.
  destruct e; reflexivity.
Qed.

Lemma apply_vis_class v secs : forall vs,
  syms_of (concat (apply_vis vs (map (fun s => (fst s, map (spec_res v) (snd s))) secs))) = class_syms_aux v vs secs
  /\ exts_of (concat (apply_vis vs (map (fun s => (fst s, map (spec_res v) (snd s))) secs))) = class_exts_aux vs secs.
Proof.
  induction secs as [|[lb els] r IH]; intros [|v1 vr]; try (split; reflexivity).
  cbn [map apply_vis concat fst snd class_syms_aux class_exts_aux].
  rewrite syms_of_app, exts_of_app, syms_of_spec, exts_of_spec. destruct (IH vr) as [A B]. now rewrite A, B.
Qed.

Lemma erased_private v e r : erase_res r = spec_res v e -> res_private r.
Proof.
  destruct r as [ss|x|]; destruct e; cbn; try discriminate; try exact (fun _ => I).
  - intros H. injection H as H. revert H. generalize (c_decls c). induction ss as [|s ss IH]; intros [|d ds] H; try discriminate; constructor.
    + cbn [map] in H. pose proof (f_equal (hd s) H) as H1. cbn [hd] in H1.
      apply (f_equal s_vis) in H1. exact H1.
    + apply (IH ds). cbn [map] in H. exact (f_equal (@tl _) H).
  - intros H. injection H as H. now subst.
Qed.

Lemma erased_private_list v els : forall rs, map erase_res rs = map (spec_res v) els -> Forall res_private rs.
Proof.
  induction els as [|e r IH]; intros [|x xs] H; try discriminate; constructor.
  - cbn [map] in H. apply (erased_private v e). exact (f_equal (hd x) H).
  - apply IH. exact (f_equal (@tl _) H).
Qed.

Theorem class_ok v path ct n cm secs eqs algs k l r cls k' l' :
  do_element v path (ECls ct n cm secs eqs algs) (k, l) = Ok ((r, cls), (k', l')) ->
  exists own nested, cls = own :: nested
  /\ o_path own = path ++ [n] /\ o_ctype own = ct /\ o_comment own = cm
  /\ map erase_sym (o_syms own) = class_syms v secs
  /\ o_exts own = class_exts v secs
  /\ fold_imp v (imports_els (all_els secs)) [] = Ok (o_imports own)
  /\ o_classes own = cnames_els (all_els secs)
  /\ o_eqs own = sel false eqs /\ o_ieqs own = sel true eqs
  /\ o_sts own = sel false algs /\ o_ists own = sel true algs
  /\ fresh [] (names_els (all_els secs)) = true
  /\ k_classes k' = k_classes k ++ [n] /\ k_seen k' = k_seen k /\ k_imports k' = k_imports k.
Proof.
  cbn [do_element]. fold (sec_fun v (path ++ [n])). intros H.
  destruct (mapM (sec_fun v (path ++ [n])) secs (mkK [] [] [], l)) as [[srs [k1 l1]]|] eqn:Hm; [|discriminate].
  inversion H; subst. clear H. apply do_sections_shape in Hm. cbn [k_seen k_imports k_classes app] in Hm.
  destruct Hm as (A1 & A2 & A3 & A4 & A5).
  eexists; eexists; split; [reflexivity|].
  unfold finish_class. rewrite !split_init_spec. cbn [o_path o_ctype o_comment o_syms o_exts o_imports o_classes o_eqs o_ieqs o_sts o_ists k_classes k_seen k_imports].
  set (srs' := map (fun s : label * list (ores * list oclass) => (fst s, map fst (snd s))) srs).
  assert (E : map (fun s : label * list ores => (fst s, map erase_res (snd s))) srs'
              = map (fun s => (fst s, map (spec_res v) (snd s))) secs).
  { subst srs'. rewrite map_map. cbn [fst snd]. exact A1. }
  assert (Hp : Forall (fun s : label * list ores => Forall res_private (snd s)) srs').
  { clear -E. revert secs E. induction srs' as [|[lb rs] r IH]; intros [|[lb' els] secs] E; try discriminate; constructor.
    - cbn [map fst snd] in E. pose proof (f_equal (hd (lb, [])) E) as H1. cbn [hd] in H1. injection H1 as _ H1.
      cbn [snd]. eapply erased_private_list; eauto.
    - apply (IH secs). exact (f_equal (@tl _) E). }
  rewrite (assign_vis_spec v srs' Hp).
  assert (Ev : eff_vis v srs' = eff_vis v secs).
  { rewrite <- (eff_vis_map v (map erase_res) srs'), E, (eff_vis_map v (map (spec_res v)) secs). reflexivity. }
  rewrite Ev.
  destruct (apply_vis_class v secs (eff_vis v secs)) as [S1 S2].
  repeat split; try assumption; try reflexivity.
  - rewrite syms_of_erase, concat_map, apply_vis_erase, E. exact S1.
  - rewrite <- exts_of_erase, concat_map, apply_vis_erase, E. exact S2.
Qed.

(* ------------------------------------------------------------------------------------------ *)
(* duplicates                                                                                 *)
(* ------------------------------------------------------------------------------------------ *)
Lemma mem_In x l : mem x l = true <-> In x l.
Proof.
  unfold mem. rewrite existsb_exists. split.
  - intros (y & Hy & E). apply String.eqb_eq in E. now subst.
  - intros H. exists x. split; [assumption|apply String.eqb_refl].
Qed.

Lemma fresh_NoDup ns : forall seen,
  fresh seen ns = true <-> (NoDup ns /\ forall x, In x ns -> ~ In x seen).
Proof.
  induction ns as [|x r IH]; intros seen; cbn [fresh].
  - split; [intros _; split; [constructor|intros ? []]|reflexivity].
  - rewrite andb_true_iff, negb_true_iff, (IH (seen ++ [x])). split.
    + intros (Hm & Hn & Hd). assert (Hx : ~ In x seen) by (rewrite <- mem_In; congruence). split.
      * constructor; [|assumption]. intros Hi. apply (Hd x Hi). apply in_or_app. right. now left.
      * intros y [<-|Hy]; [assumption|]. intros Hs. apply (Hd y Hy). apply in_or_app. now left.
    + intros (Hn & Hd). inversion Hn; subst. split; [|split; [assumption|]].
      * destruct (mem x seen) eqn:E; [|reflexivity]. apply mem_In in E. exfalso. apply (Hd x); [now left|assumption].
      * intros y Hy Hs. apply in_app_or in Hs. destruct Hs as [Hs|[<-|[]]]; [apply (Hd y); [now right|assumption]|contradiction].
Qed.

Theorem class_duplicate v path ct n cm secs eqs algs st :
  ~ NoDup (names_els (all_els secs)) -> exists e, do_element v path (ECls ct n cm secs eqs algs) st = Err e.
Proof.
  intros Hn. destruct st as [k l].
  destruct (do_element v path (ECls ct n cm secs eqs algs) (k, l)) as [[[r cls] [k' l']]|e] eqn:H; [|eauto].
  apply class_ok in H. destruct H as (own & nested & _ & _ & _ & _ & _ & _ & _ & _ & _ & _ & _ & _ & Hf & _).
  apply fresh_NoDup in Hf. destruct Hf as [Hf _]. contradiction.
Qed.

Lemma sec_syms_names v vs els : map s_name (sec_syms v vs els) = names_els els.
Proof.
  unfold sec_syms, names_els. induction els as [|e r IH]; [reflexivity|]. cbn [flat_map]. rewrite map_app, IH. f_equal.
  destruct e; cbn; try reflexivity. rewrite map_map. reflexivity.
Qed.

Lemma class_syms_names v secs : map s_name (class_syms v secs) = names_els (all_els secs).
Proof.
  unfold class_syms. induction secs as [|[lb els] r IH]; [reflexivity|].
  cbn [eff_vis class_syms_aux all_els flat_map snd]. unfold names_els in *. rewrite map_app, flat_map_app.
  f_equal; [apply sec_syms_names|exact IH].
Qed.

Lemma erase_name l : map s_name (map erase_sym l) = map s_name l.
Proof. rewrite map_map. apply map_ext. reflexivity. Qed.

Theorem class_names_nodup v path ct n cm secs eqs algs st r own nested st' :
  do_element v path (ECls ct n cm secs eqs algs) st = Ok ((r, own :: nested), st') ->
  map s_name (o_syms own) = names_els (all_els secs) /\ NoDup (map s_name (o_syms own)).
Proof.
  destruct st as [k l], st' as [k' l']. intros H. apply class_ok in H.
  destruct H as (own' & nested' & E & _ & _ & _ & Hs & _ & _ & _ & _ & _ & _ & _ & Hf & _).
  injection E as <- <-.
  assert (Hn : map s_name (o_syms own) = names_els (all_els secs))
    by (rewrite <- erase_name, Hs; apply class_syms_names).
  split; [exact Hn|]. rewrite Hn. apply fresh_NoDup in Hf. tauto.
Qed.

(* ------------------------------------------------------------------------------------------ *)
(* the ideal reading: with the repairs (or on texts that do not reach the defects) the           *)
(* effective visibility is the section label and the dimensions are declarator ++ clause       *)
(* ------------------------------------------------------------------------------------------ *)
Fixpoint labels_once {X : Type} (secs : list (label * X)) : bool :=
  match secs with
  | [] => true
  | (lb, _) :: r => (match lb with Unl => true | _ => negb (has_label lb r) end) && labels_once r
  end.

Lemma eff_vis_ideal {X : Type} v (secs : list (label * X)) :
  v_allsec v = true \/ labels_once secs = true -> eff_vis v secs = map (fun s => vis_of_label (fst s)) secs.
Proof.
  intros H. induction secs as [|[lb x] r IH]; [reflexivity|]. cbn [eff_vis map fst].
  destruct H as [H|H].
  - rewrite H, IH; auto.
  - cbn [labels_once] in H. apply andb_true_iff in H. destruct H as [H1 H2]. rewrite IH by auto. f_equal.
    destruct (v_allsec v); [reflexivity|]. destruct lb; [reflexivity| |]; apply negb_true_iff in H1; now rewrite H1.
Qed.

Definition ideal_dims (cl : clause) (d : declr) : list (list expr) :=
  match c_dims cl, d_dims d with
  | None, None => default_dims
  | _, _ => [match d_dims d with Some o => o | None => [] end ++ match c_dims cl with Some c => c | None => [] end]
  end.
Lemma spec_dims_ideal v cl d :
  v_dimsmerge v = true \/ c_dims cl = None \/ d_dims d = None -> spec_dims v cl d = ideal_dims cl d.
Proof.
  unfold spec_dims, ideal_dims. destruct (c_dims cl), (d_dims d); cbn; rewrite ?app_nil_r; try reflexivity.
  intros [H|[H|H]]; try discriminate. now rewrite H.
Qed.

(* ------------------------------------------------------------------------------------------ *)
(* no sharing after the copies of exitComponent_clause (636-640)                               *)
(* ------------------------------------------------------------------------------------------ *)
Lemma copy_syms_fresh ss : forall n,
  Forall (fun s => n <= s_pid s /\ n <= s_did s /\ n <= s_tid s) (fst (copy_syms ss n))
  /\ NoDup (map s_pid (fst (copy_syms ss n))) /\ NoDup (map s_did (fst (copy_syms ss n)))
  /\ NoDup (map s_tid (fst (copy_syms ss n))).
Proof.
  induction ss as [|s r IH]; intros n; cbn [copy_syms].
  - cbn. repeat split; constructor.
  - rewrite fst_let. destruct (IH (3 + n)) as (F & N1 & N2 & N3). cbn [map set_ids s_pid s_did s_tid].
    assert (F' : Forall (fun s => n <= s_pid s /\ n <= s_did s /\ n <= s_tid s) (fst (copy_syms r (3 + n))))
      by (eapply Forall_impl; [|exact F]; cbn; intros; lia).
    repeat split.
    + constructor; [cbn; lia|exact F'].
    + constructor; [|exact N1]. rewrite in_map_iff. intros (x & E & Hx). rewrite Forall_forall in F. specialize (F x Hx). lia.
    + constructor; [|exact N2]. rewrite in_map_iff. intros (x & E & Hx). rewrite Forall_forall in F. specialize (F x Hx). lia.
    + constructor; [|exact N3]. rewrite in_map_iff. intros (x & E & Hx). rewrite Forall_forall in F. specialize (F x Hx). lia.
Qed.

(* the first symbol keeps the clause's objects, every later one gets fresh copies: pairwise distinct *)
Theorem tail_copy_no_sharing s0 tl n :
  s_pid s0 < n -> s_did s0 < n -> s_tid s0 < n ->
  NoDup (map s_pid (fst (tail_copy (s0 :: tl) n))) /\ NoDup (map s_did (fst (tail_copy (s0 :: tl) n)))
  /\ NoDup (map s_tid (fst (tail_copy (s0 :: tl) n))).
Proof.
  intros H1 H2 H3. unfold tail_copy. rewrite fst_let. cbn [map].
  destruct (copy_syms_fresh tl n) as (F & N1 & N2 & N3). rewrite Forall_forall in F.
  repeat split; (constructor; [|assumption]); rewrite in_map_iff; intros (x & E & Hx); specialize (F x Hx); lia.
Qed.

Lemma close_clause_tail v cl D0 ss n :
  exists ss2 n2, fst (close_clause v cl D0 ss n) = fst (tail_copy ss2 n2) /\ length ss2 = length ss.
Proof.
  unfold close_clause.
  destruct (match c_dims cl with
            | Some subs => if v_dimsmerge v then merge_dims D0 n subs (map (set_type (c_type cl)) ss) (S n)
                           else (map (set_dims n [subs]) (map (set_type (c_type cl)) ss), S n)
            | None => (map (set_type (c_type cl)) ss, n) end) as [ss2 n2] eqn:E.
  exists ss2, n2. split; [reflexivity|].
  destruct (c_dims cl); [destruct (v_dimsmerge v)|]; try (injection E as <- _; now rewrite ?map_length).
  clear -E. revert ss2 n2 E. generalize (S n). induction ss as [|s r IH]; intros k ss2 n2 E; cbn [map merge_dims] in E.
  - now injection E as <- _.
  - destruct (Nat.eqb (s_did (set_type (c_type cl) s)) D0).
    + destruct (merge_dims D0 n l (map (set_type (c_type cl)) r) k) eqn:E2. injection E as <- _. cbn. f_equal. eapply IH; eauto.
    + destruct (merge_dims D0 n l (map (set_type (c_type cl)) r) (S k)) eqn:E2. injection E as <- _. cbn. f_equal. eapply IH; eauto.
Qed.

(* ------------------------------------------------------------------------------------------ *)
(* witnesses                                                                                  *)
(* ------------------------------------------------------------------------------------------ *)
Definition dcl (n : string) := mkD n None None "".
Definition real1 (n : string) := EComp (mkC [] ["Real"] None [dcl n]).
(* model M public Real a; protected Real b; public Real c; end M; *)
Definition vis_witness : element :=
  ECls "model" "M" "" [(Unl, []); (Pub, [real1 "a"]); (Pro, [real1 "b"]); (Pub, [real1 "c"])] [] [].
(* model M Real[2] x[3]; end M; *)
Definition dims_witness : element :=
  ECls "model" "M" "" [(Unl, [EComp (mkC [] ["Real"] (Some ["2"]) [mkD "x" (Some ["3"]) None ""])])] [] [].

Definition vis_of_first (r : result (list oclass)) : list (string * vis) :=
  match r with Ok (c :: _) => map (fun s => (s_name s, s_vis s)) (o_syms c) | _ => [] end.
Definition dims_of_first (r : result (list oclass)) : list (list (list expr)) :=
  match r with Ok (c :: _) => map s_dims (o_syms c) | _ => [] end.

Lemma vis_refuted :
  vis_of_first (run_file prefix_variant [vis_witness]) = [("a", Private); ("b", Protected); ("c", Public)]
  /\ vis_of_first (run_file head_variant [vis_witness]) = [("a", Public); ("b", Protected); ("c", Public)].
Proof. split; vm_compute; reflexivity. Qed.

Lemma dims_refuted :
  dims_of_first (run_file prefix_variant [dims_witness]) = [[["2"]]]
  /\ dims_of_first (run_file head_variant [dims_witness]) = [[["3"; "2"]]].
Proof. split; vm_compute; reflexivity. Qed.

(* a class with prefixes, clause and declarator dimensions, a modification with a declaration value, three
   sections, a nested class, extends, import, initial and non-initial sections *)
Definition example_class : element :=
  ECls "model" "M" "doc"
    [(Unl, [EComp (mkC ["parameter"; "input"] ["Real"] (Some ["2"])
                       [mkD "a" None (Some (Modif (Some [Arg "start" (Some (Modif None (Some "1")))]) (Some "3"))) "c";
                        mkD "b" None None ""]);
            EExt ["Base"] (Some [Arg "k" (Some (Modif None (Some "2")))]) false;
            EImp (ImpQual ["Lib"; "X"]) false]);
     (Pub, [EComp (mkC [] ["Integer"] None [mkD "i" (Some ["4"]) None ""]);
            ECls "record" "R" "" [(Unl, [real1 "a"])] [] []]);
     (Pro, [real1 "p"])]
    [(false, ["(= a b)"]); (true, ["(= a 1)"]); (false, ["(= i 2)"])] [(true, ["(:= b 2)"])].

Lemma example_ok :
  exists own nested st',
    do_element head_variant [] example_class (mkK [] [] [], init_lst) = Ok ((ROther, own :: nested), st')
    /\ map s_name (o_syms own) = ["a"; "b"; "i"; "p"]
    /\ map s_order (o_syms own) = [0; 1; 3; 5]
    /\ map s_vis (o_syms own) = [Private; Private; Public; Protected]
    /\ map s_prefixes (o_syms own) = [["parameter"; "input"]; ["parameter"; "input"]; []; []]
    /\ o_eqs own = ["(= a b)"; "(= i 2)"] /\ o_ieqs own = ["(= a 1)"]
    /\ NoDup (map s_pid (o_syms own)) /\ NoDup (map s_did (o_syms own)) /\ NoDup (map s_tid (o_syms own))
    /\ length nested = 1 /\ labels_once [(Unl, tt); (Pub, tt); (Pro, tt)] = true
    /\ map fst (l_trace (snd st')) = [0; 1; 3; 4; 5].
Proof.
  eexists; eexists; eexists. split; [vm_compute; reflexivity|].
  repeat split; try reflexivity; cbn; repeat constructor; cbn; intuition discriminate.
Qed.
