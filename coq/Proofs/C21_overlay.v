(* C21 — two writers on one file at byte level (Model/C21_crash.v Part 3).
   A. single write call per save: any two option sets, any interleaving, any reader: fine.
   B. same stream written in chunks that end where the decoder expects an opcode: every intermediate
      file is a prefix of the stream, or has a zero byte where an opcode is expected (Bad) — a third
      reader never gets a wrong value. *)
From Coq Require Import List Arith Bool Lia.
From PV Require Import Lib.Prefix Model.C21_crash Proofs.C21_crash.
Import ListNotations.

(* ---------- decoder facts ---------- *)
Lemma run_app_value (s : st) inp v tail :
  run step s inp = Value v [] -> run step s (inp ++ tail) = Value v tail.
Proof.
  revert s. induction inp as [|b inp IH]; intros s H; [discriminate|].
  cbn [app]. rewrite run_cons in *. destruct (step s b) as [v'|s'|].
  - injection H as -> ->. reflexivity.
  - apply IH, H.
  - discriminate.
Qed.

Lemma decode_dump_tail v tail : decode (dump v ++ tail) = Value v tail.
Proof. apply run_app_value, dump_accepted. Qed.

Lemma run_feed pre : forall s s' rest, feed s pre = Some s' -> run step s (pre ++ rest) = run step s' rest.
Proof.
  induction pre as [|b pre IH]; intros s s' rest H.
  - injection H as <-. reflexivity.
  - cbn [app feed] in *. rewrite run_cons. destruct (step s b) as [v|s1|]; try discriminate. apply IH, H.
Qed.

Lemma op_step_zero s : op_step s 0 = Fail.
Proof. reflexivity. Qed.

(* a zero byte where an opcode is expected: format error, whatever follows *)
Lemma hole_is_bad s p rest : boundary s p = true -> decode (firstn p s ++ 0 :: rest) = Bad.
Proof.
  unfold boundary, decode. destruct (feed init (firstn p s)) as [s'|] eqn:E; [|discriminate].
  destruct (md s') eqn:Em; try discriminate. intros _.
  rewrite (run_feed _ _ _ _ E), run_cons. unfold step. rewrite Em, op_step_zero. reflexivity.
Qed.

(* ---------- what load_model does, by the decoder's verdict on the file ---------- *)
Definition file_good (w : world) (bs : list byte) : Prop :=
  match decode bs with
  | Value v _ => exists vr o, v = db_of vr o (src w)
  | EOF => True
  | Bad => True
  end.

Lemma load_file_good t w o e bx bs mt : routes_ok t = true ->
  transfer_recompiles t (load_route t bx) = true ->
  cfile w = Some (bs, mt) -> file_good w bs ->
  match load_gen t w o e bx with inr m => m = (src w, o) | inl x => transfer_recompiles t x = true end.
Proof.
  intros Hr Hb Hf Hg. destruct (routes_ok_inv t Hr) as (He & Hi & Hn).
  unfold load_gen. rewrite Hf. destruct (mt <? smt w); [exact Hi|].
  unfold file_good in Hg. destruct (decode bs) as [v rest| |].
  - destruct Hg as (vr & o' & ->). rewrite decode_db_of.
    destruct (vr =? ver w); cbn [negb]; [|exact Hi].
    destruct (o' =? o) eqn:Eo; cbn [negb]; [|exact Hi]. apply Nat.eqb_eq in Eo. subst o'. reflexivity.
  - apply He.
  - exact Hb.
Qed.

(* ---------- A. one write call per save ---------- *)
Definition shape1 (sA sB : list byte) (x : ov) : Prop :=
  (offA x = 0 \/ length sA <= offA x) /\ (offB x = 0 \/ length sB <= offB x) /\
  (opA x || opB x = true ->
   exists f, ofile x = Some f /\ (f = [] \/ (exists tl, f = sA ++ tl) \/ (exists tl, f = sB ++ tl))).

Lemma write_at_0 f c : write_at f 0 c = c ++ skipn (length c) f.
Proof. destruct c as [|b c]; [reflexivity|]. unfold write_at. cbn [firstn Nat.sub repeat app Nat.add]. reflexivity. Qed.

Lemma chunk_whole s n : length s <= n -> chunk s 0 n = s.
Proof. intros H. unfold chunk. cbn [skipn]. apply firstn_all2, H. Qed.
Lemma chunk_done s off n : length s <= off -> chunk s off n = [].
Proof. intros H. unfold chunk. rewrite skipn_all2 by exact H. apply firstn_nil. Qed.

Lemma shape1_step sA sB x e : whole sA sB e = true -> shape1 sA sB x -> shape1 sA sB (ov_step sA sB x e).
Proof.
  intros Hw (Ha & Hb & Hf). destruct e as [| |n|n]; cbn [ov_step whole] in *.
  - split; [left; reflexivity|]. split; [exact Hb|]. intros _. exists []. auto.
  - split; [exact Ha|]. split; [left; reflexivity|]. intros _. exists []. auto.
  - apply Nat.leb_le in Hw. destruct (opA x) eqn:Eo; [|repeat split; try assumption; rewrite Eo; exact Hf].
    destruct (Hf eq_refl) as (f & Ef & Hs). cbn [offA offB ofile opA opB]. destruct Ha as [Ha|Ha].
    + rewrite Ha, (chunk_whole _ _ Hw). split; [right; cbn; lia|]. split; [exact Hb|].
      intros _. rewrite Ef. cbn [option_map]. eexists. split; [reflexivity|]. rewrite write_at_0. right. left. eauto.
    + rewrite (chunk_done _ _ _ Ha). cbn [length]. rewrite Nat.add_0_r. split; [right; exact Ha|]. split; [exact Hb|].
      intros _. rewrite Ef. cbn [option_map write_at]. exists f. split; [reflexivity|exact Hs].
  - apply Nat.leb_le in Hw. destruct (opB x) eqn:Eo; [|repeat split; try assumption; rewrite Eo; exact Hf].
    try rewrite Eo in Hf. try rewrite orb_true_r in Hf.
    destruct (Hf eq_refl) as (f & Ef & Hs). cbn [offA offB ofile opA opB]. destruct Hb as [Hb|Hb].
    + rewrite Hb, (chunk_whole _ _ Hw). split; [exact Ha|]. split; [right; cbn; lia|].
      intros _. rewrite Ef. cbn [option_map]. eexists. split; [reflexivity|]. rewrite write_at_0. right. right. eauto.
    + rewrite (chunk_done _ _ _ Hb). cbn [length]. rewrite Nat.add_0_r. split; [exact Ha|]. split; [right; exact Hb|].
      intros _. rewrite Ef. cbn [option_map write_at]. exists f. split; [reflexivity|exact Hs].
Qed.

Lemma shape1_run sA sB evs : forall x, forallb (whole sA sB) evs = true -> shape1 sA sB x ->
  shape1 sA sB (ov_run sA sB x evs).
Proof.
  induction evs as [|e evs IH]; intros x Hw Hs; [exact Hs|].
  cbn [forallb] in Hw. apply andb_true_iff in Hw as [H1 H2]. apply IH; [exact H2|]. apply shape1_step; assumption.
Qed.

(* A third caller at ANY point of ANY interleaving of two saves (any option sets oa, ob) whose write
   calls each deliver the whole stream: correct model or recompile; bx is arbitrary (never used). *)
Theorem single_chunk_reader t w oa ob evs o e bx : routes_ok t = true -> Inv w ->
  forallb (whole (stream w oa) (stream w ob)) evs = true ->
  match load_gen t (ov_world w oa ob evs) o e bx with
  | inr m => m = (src w, o)
  | inl x => transfer_recompiles t x = true
  end.
Proof.
  intros Hr Hi Hw. unfold ov_world.
  set (x0 := ov0 (option_map fst (cfile w))).
  assert (H0 : shape1 (stream w oa) (stream w ob) x0) by (repeat split; cbn; auto; discriminate).
  pose proof (shape1_run _ _ evs x0 Hw H0) as (_ & _ & Hf).
  set (x := ov_run (stream w oa) (stream w ob) x0 evs) in *.
  destruct (opA x || opB x) eqn:Eo.
  - destruct (Hf eq_refl) as (f & Ef & Hs). rewrite Ef. cbn [option_map].
    destruct (routes_ok_inv t Hr) as (He & Hinv & Hn).
    assert (D : decode f = EOF \/ exists vr o' tl, decode f = Value (db_of vr o' (src w)) tl).
    { destruct Hs as [->|[[tl ->]|[tl ->]]]; [left; reflexivity|right|right];
        unfold stream; rewrite decode_dump_tail; eauto. }
    unfold load_gen. cbn [set_cfile cfile smt ver src]. destruct (clock w <? smt w); [exact Hinv|].
    destruct D as [->|(vr & o' & tl & ->)]; [apply He|]. rewrite decode_db_of.
    destruct (vr =? ver w); cbn [negb]; [|exact Hinv].
    destruct (o' =? o) eqn:E1; cbn [negb]; [|exact Hinv]. apply Nat.eqb_eq in E1. subst o'. reflexivity.
  - exact (load_gen_ok t w o e bx Hr Hi).
Qed.

(* ---------- B. a hole at an opcode boundary ---------- *)
(* the file a third caller sees when the later opener has written p bytes (p an opcode boundary of the
   stream) and the earlier writer goes on beyond the gap: zero where an opcode is expected *)
Theorem hole_reader t w o' p rest o e : routes_ok t = true ->
  boundary (stream w o') p = true ->
  match load_gen t (set_cfile w (Some (firstn p (stream w o') ++ 0 :: rest, clock w))) o e UnpicklingError with
  | inr m => m = (src w, o)
  | inl x => transfer_recompiles t x = true
  end.
Proof.
  intros Hr Hb. destruct (routes_ok_inv t Hr) as (He & _ & _).
  apply (load_file_good t (set_cfile w (Some (firstn p (stream w o') ++ 0 :: rest, clock w))) o e UnpicklingError
           (firstn p (stream w o') ++ 0 :: rest) (clock w) Hr (He false)); [reflexivity|].
  unfold file_good. cbn [set_cfile src]. rewrite (hole_is_bad _ _ _ Hb). exact I.
Qed.

(* the three-phase schedule: A writes a0 bytes, B opens and writes b bytes, A writes up to a *)
Definition phase3 (a0 b a : nat) : list ev := [OpenA; WriteA a0; OpenB; WriteB b; WriteA (a - a0)].
Definition mask (s : list byte) (a0 b a : nat) : list byte :=
  if a <=? a0 then firstn b s
  else if b <? a0 then firstn b s ++ repeat 0 (a0 - b) ++ firstn (a - a0) (skipn a0 s)
  else firstn (Nat.max a b) s.

(* ---------- C. several write calls per save, same stream: what the file can contain ---------- *)
Lemma nth_repeat0 m : forall n, nth n (repeat 0 m) 0 = 0.
Proof. induction m; intros [|n]; cbn; auto. Qed.

Lemma nth_skipn0 n : forall (l : list nat) i, nth i (skipn n l) 0 = nth (n + i) l 0.
Proof. induction n; intros [|x l] i; cbn; auto. destruct i; reflexivity. Qed.

Lemma nth_firstn_lt n : forall (l : list nat) i, i < n -> nth i (firstn n l) 0 = nth i l 0.
Proof. induction n; intros [|x l] [|i] H; cbn; auto; try lia. apply IHn. lia. Qed.

Lemma nth_write_at f off c p : c <> [] ->
  nth p (write_at f off c) 0 =
  if p <? off then nth p f 0 else if p <? off + length c then nth (p - off) c 0 else nth p f 0.
Proof.
  intros Hc. unfold write_at. destruct c as [|b c]; [contradiction|]. set (cc := b :: c) in *.
  destruct (Nat.ltb_spec p off) as [H|H].
  - destruct (Nat.lt_ge_cases p (length f)) as [H'|H'].
    + rewrite app_nth1 by (rewrite firstn_length; lia). apply nth_firstn_lt, H.
    + rewrite app_nth2 by (rewrite firstn_length; lia). rewrite firstn_length.
      rewrite app_nth1 by (rewrite repeat_length; lia). rewrite nth_repeat0. symmetry. apply nth_overflow. exact H'.
  - rewrite app_assoc. rewrite app_nth2 by (rewrite app_length, firstn_length, repeat_length; lia).
    rewrite app_length, firstn_length, repeat_length.
    replace (p - (Nat.min off (length f) + (off - length f))) with (p - off) by lia.
    destruct (Nat.ltb_spec p (off + length cc)) as [H1|H1].
    + apply app_nth1. lia.
    + rewrite app_nth2 by lia. rewrite nth_skipn0. f_equal. lia.
Qed.

Lemma length_write_at f off c : c <> [] ->
  length (write_at f off c) = Nat.max (length f) (off + length c).
Proof.
  intros Hc. unfold write_at. destruct c as [|b c]; [contradiction|].
  rewrite !app_length, firstn_length, repeat_length, skipn_length. lia.
Qed.

Lemma length_chunk s off n : length (chunk s off n) = Nat.min n (length s - off).
Proof. unfold chunk. rewrite firstn_length, skipn_length. reflexivity. Qed.

Lemma nth_chunk s off n i : i < length (chunk s off n) -> nth i (chunk s off n) 0 = nth (off + i) s 0.
Proof.
  intros H. rewrite length_chunk in H. unfold chunk. rewrite nth_firstn_lt by lia. apply nth_skipn0.
Qed.

(* writing the next chunk of s at its own offset only adds written positions *)
Lemma write_chunk_pointwise s f (W : nat -> bool) off n :
  (forall p, nth p f 0 = if W p then nth p s 0 else 0) ->
  chunk s off n <> [] ->
  forall p, nth p (write_at f off (chunk s off n)) 0 =
            if W p || ((off <=? p) && (p <? off + length (chunk s off n))) then nth p s 0 else 0.
Proof.
  intros Hf Hc p. rewrite (nth_write_at _ _ _ _ Hc).
  destruct (Nat.ltb_spec p off) as [H|H].
  - rewrite Hf. destruct (Nat.leb_spec off p); [lia|]. rewrite andb_false_l, orb_false_r. reflexivity.
  - destruct (Nat.ltb_spec p (off + length (chunk s off n))) as [H1|H1].
    + destruct (Nat.leb_spec off p); [|lia]. rewrite andb_true_l, orb_true_r.
      rewrite nth_chunk by lia. f_equal. lia.
    + rewrite Hf. rewrite andb_false_r, orb_false_r. reflexivity.
Qed.

(* The later opener is B: it has just truncated the file when A stood at offset a0.  From then on, for ANY
   interleaving of write calls of ANY sizes, the file is exactly: the bytes of s at the positions written
   since (B's prefix [0, offB) and A's stretch [a0, offA)), zeros in the gap between them. *)
Definition written (a0 a b p : nat) : bool := (p <? b) || ((a0 <=? p) && (p <? a)).
Definition shapeS (s : list byte) (a0 : nat) (x : ov) : Prop :=
  opA x = true /\ opB x = true /\ a0 <= offA x /\ offA x <= length s /\ offB x <= length s /\
  exists f, ofile x = Some f /\
            length f = Nat.max (offB x) (if a0 <? offA x then offA x else 0) /\
            forall p, nth p f 0 = if written a0 (offA x) (offB x) p then nth p s 0 else 0.

Definition is_write (e : ev) : bool := match e with WriteA _ | WriteB _ => true | _ => false end.

Lemma if_ext (b b' : bool) (u v : nat) : b = b' -> (if b then u else v) = (if b' then u else v).
Proof. intros ->. reflexivity. Qed.

Lemma shapeS_step s a0 x e : is_write e = true -> shapeS s a0 x -> shapeS s a0 (ov_step s s x e).
Proof.
  intros He (HA & HB & H0 & Ha & Hb & f & Ef & Hl & Hn). destruct e as [| |n|n]; try discriminate; cbn [ov_step].
  - (* A writes *)
    rewrite HA. set (c := chunk s (offA x) n). pose proof (length_chunk s (offA x) n) as Lc. fold c in Lc.
    destruct c as [|b0 c0] eqn:Ec.
    + cbn [length]. rewrite Nat.add_0_r, Ef. cbn [option_map write_at].
      unfold shapeS; cbn [offA offB opA opB ofile].
      repeat (split; [first [reflexivity | assumption | lia]|]). exists f. auto.
    + assert (Hc : chunk s (offA x) n <> []) by (fold c; rewrite Ec; discriminate).
      rewrite <- Ec in *. clear Ec. unfold c in *.
      unfold shapeS; cbn [offA offB opA opB ofile].
      repeat (split; [first [reflexivity | assumption | lia]|]).
      rewrite Ef. cbn [option_map]. eexists. split; [reflexivity|]. split.
      * rewrite (length_write_at _ _ _ Hc), Hl.
        assert (0 < length (chunk s (offA x) n)) by (destruct (chunk s (offA x) n); [contradiction|cbn; lia]).
        destruct (Nat.ltb_spec a0 (offA x)); destruct (Nat.ltb_spec a0 (offA x + length (chunk s (offA x) n))); lia.
      * intros p. rewrite (write_chunk_pointwise s f _ _ _ Hn Hc p). apply if_ext. unfold written.
        destruct (Nat.ltb_spec p (offB x)); destruct (Nat.leb_spec a0 p); destruct (Nat.ltb_spec p (offA x));
          destruct (Nat.leb_spec (offA x) p); destruct (Nat.ltb_spec p (offA x + length (chunk s (offA x) n)));
          cbn; try reflexivity; lia.
  - (* B writes *)
    rewrite HB. set (c := chunk s (offB x) n). pose proof (length_chunk s (offB x) n) as Lc. fold c in Lc.
    destruct c as [|b0 c0] eqn:Ec.
    + cbn [length]. rewrite Nat.add_0_r, Ef. cbn [option_map write_at].
      unfold shapeS; cbn [offA offB opA opB ofile].
      repeat (split; [first [reflexivity | assumption | lia]|]). exists f. auto.
    + assert (Hc : chunk s (offB x) n <> []) by (fold c; rewrite Ec; discriminate).
      rewrite <- Ec in *. clear Ec. unfold c in *.
      unfold shapeS; cbn [offA offB opA opB ofile].
      repeat (split; [first [reflexivity | assumption | lia]|]).
      rewrite Ef. cbn [option_map]. eexists. split; [reflexivity|]. split.
      * rewrite (length_write_at _ _ _ Hc), Hl. destruct (Nat.ltb_spec a0 (offA x)); lia.
      * intros p. rewrite (write_chunk_pointwise s f _ _ _ Hn Hc p). apply if_ext. unfold written.
        destruct (Nat.ltb_spec p (offB x)); destruct (Nat.leb_spec a0 p); destruct (Nat.ltb_spec p (offA x));
          destruct (Nat.leb_spec (offB x) p); destruct (Nat.ltb_spec p (offB x + length (chunk s (offB x) n)));
          cbn; try reflexivity; lia.
Qed.

Lemma shapeS_run s a0 evs : forall x, forallb is_write evs = true -> shapeS s a0 x -> shapeS s a0 (ov_run s s x evs).
Proof.
  induction evs as [|e evs IH]; intros x Hw Hs; [exact Hs|].
  cbn [forallb] in Hw. apply andb_true_iff in Hw as [H1 H2]. apply IH; [exact H2|]. apply shapeS_step; assumption.
Qed.

(* list facts to turn the pointwise description into a prefix / a hole *)
Lemma firstn_ext b : forall f s : list nat, b <= length f -> b <= length s ->
  (forall p, p < b -> nth p f 0 = nth p s 0) -> firstn b f = firstn b s.
Proof.
  induction b as [|b IH]; intros f s Hf Hs H; [reflexivity|].
  destruct f as [|x f]; [cbn in Hf; lia|]. destruct s as [|y s]; [cbn in Hs; lia|].
  cbn [firstn]. f_equal; [exact (H 0 ltac:(lia))|].
  apply IH; cbn in *; try lia. intros p Hp. exact (H (S p) ltac:(lia)).
Qed.

Lemma split_nth : forall (f : list nat) b, b < length f -> f = firstn b f ++ nth b f 0 :: skipn (S b) f.
Proof.
  induction f as [|x f IH]; intros b H; [cbn in H; lia|].
  destruct b as [|b]; [reflexivity|]. cbn [firstn nth skipn app]. f_equal. apply IH. cbn in H. lia.
Qed.

Lemma skipn_nil_le {A} n : forall l : list A, skipn n l = [] -> length l <= n.
Proof. induction n; intros [|x l] H; cbn in *; try lia; try discriminate. apply le_n_S, IHn, H. Qed.

(* what a reader's decoder makes of such a file, if B's offset is an opcode boundary *)
Lemma shapeS_decode v a0 x : shapeS (dump v) a0 x -> boundary (dump v) (offB x) = true ->
  exists f, ofile x = Some f /\ (decode f = EOF \/ decode f = Bad \/ decode f = Value v []).
Proof.
  intros (HA & HB & H0 & Ha & Hb & f & Ef & Hl & Hn) Hbd. exists f. split; [exact Ef|].
  set (s := dump v) in *. set (a := offA x) in *. set (b := offB x) in *.
  assert (HL : length f <= length s) by (rewrite Hl; destruct (a0 <? a); lia).
  destruct (Nat.ltb_spec a0 a) as [Haa|Haa].
  - destruct (Nat.lt_ge_cases b a0) as [Hh|Hh].
    + (* a gap [b, a0) of zeros, A's stretch behind it *)
      right. left. assert (Hbl : b < length f) by lia.
      assert (E : f = firstn b s ++ 0 :: skipn (S b) f).
      { etransitivity; [exact (split_nth f b Hbl)|]. f_equal.
        - apply firstn_ext; [exact (Nat.lt_le_incl _ _ Hbl)|exact Hb|]. intros p Hp. etransitivity; [apply Hn|]. unfold written.
          destruct (Nat.ltb_spec p b); [reflexivity|lia].
        - f_equal. etransitivity; [apply Hn|]. unfold written.
          destruct (Nat.ltb_spec b b); [lia|]. destruct (Nat.leb_spec a0 b); [lia|]. reflexivity. }
      rewrite E. apply hole_is_bad, Hbd.
    + (* contiguous: a prefix of s of length max a b *)
      assert (Ef' : f = firstn (length f) s).
      { rewrite <- (firstn_all f) at 1. apply firstn_ext; [apply le_n|exact HL|].
        intros p Hp. rewrite Hl in Hp. etransitivity; [apply Hn|]. unfold written.
        destruct (Nat.ltb_spec p b); [reflexivity|]. destruct (Nat.leb_spec a0 p); [|lia].
        destruct (Nat.ltb_spec p a); [reflexivity|lia]. }
      destruct (Nat.lt_ge_cases (length f) (length s)) as [Hlt|Hge].
      * left. rewrite Ef'. apply (dump_prefix_eof v _ (skipn (length f) s)); [symmetry; apply firstn_skipn|].
        intros E. apply skipn_nil_le in E. exact (Nat.lt_irrefl _ (Nat.lt_le_trans _ _ _ Hlt E)).
      * right. right. rewrite Ef'. rewrite firstn_all2 by exact Hge. apply dump_accepted.
  - (* A has written nothing since: B's prefix only *)
    assert (Ef' : f = firstn (length f) s).
    { rewrite <- (firstn_all f) at 1. apply firstn_ext; [apply le_n|exact HL|].
      intros p Hp. rewrite Hl in Hp. etransitivity; [apply Hn|]. unfold written. destruct (Nat.ltb_spec p b); [reflexivity|lia]. }
    destruct (Nat.lt_ge_cases (length f) (length s)) as [Hlt|Hge].
    + left. rewrite Ef'. apply (dump_prefix_eof v _ (skipn (length f) s)); [symmetry; apply firstn_skipn|].
      intros E. apply skipn_nil_le in E. exact (Nat.lt_irrefl _ (Nat.lt_le_trans _ _ _ Hlt E)).
    + right. right. rewrite Ef'. rewrite firstn_all2 by exact Hge. apply dump_accepted.
Qed.

(* the state right after the later open: file empty, B at 0, A at a0 *)
Definition after_open (a0 : nat) : ov := Ov (Some []) a0 0 true true.

Lemma shapeS_after_open s a0 : a0 <= length s -> shapeS s a0 (after_open a0).
Proof.
  intros H. unfold shapeS, after_open. cbn [opA opB offA offB ofile]. repeat split; try lia.
  exists []. split; [reflexivity|]. split.
  - destruct (Nat.ltb_spec a0 a0); [lia|reflexivity].
  - intros p. unfold written. destruct (Nat.ltb_spec p 0); [lia|]. destruct (Nat.leb_spec a0 p); destruct (Nat.ltb_spec p a0);
      cbn; try lia; destruct p; reflexivity.
Qed.

(* Same stream, several write calls of ANY sizes, ANY interleaving after the second open, cut anywhere (evs is
   arbitrary), a third caller with ANY options: correct model or recompile — provided the later opener's
   offset is an opcode boundary at the moment of the load (its write calls end where an opcode starts). *)
Theorem chunked_same_stream_reader t w o' a0 evs o e : routes_ok t = true ->
  a0 <= length (stream w o') -> forallb is_write evs = true ->
  let x := ov_run (stream w o') (stream w o') (after_open a0) evs in
  boundary (stream w o') (offB x) = true ->
  match load_gen t (set_cfile w (option_map (fun f => (f, clock w)) (ofile x))) o e UnpicklingError with
  | inr m => m = (src w, o)
  | inl y => transfer_recompiles t y = true
  end.
Proof.
  intros Hr Ha Hw x Hb. unfold stream in *.
  pose proof (shapeS_run _ a0 evs _ Hw (shapeS_after_open _ a0 Ha)) as Hs. fold x in Hs.
  destruct (shapeS_decode _ a0 x Hs Hb) as (f & Ef & Hd). rewrite Ef. cbn [option_map].
  destruct (routes_ok_inv t Hr) as (He & _ & _).
  apply (load_file_good t (set_cfile w (Some (f, clock w))) o e UnpicklingError f (clock w) Hr (He false)); [reflexivity|].
  unfold file_good. cbn [set_cfile src]. destruct Hd as [-> | [-> | ->]]; try exact I. eauto.
Qed.
