(* C21 — two writers on one file at byte level (Model/C21_crash.v Part 3).
   A. single write call per save: any two option sets, any interleaving, any reader: fine.
   B. same stream written in chunks that end where the decoder expects an opcode: every intermediate
      file is a prefix of the stream, or has a zero byte where an opcode is expected (Bad) — a third
      reader never gets a wrong value. *)
From Coq Require Import List Arith Bool Lia.
From PV Require Import Lib.Prefix Model.C21_crash Proofs.C21_crash.
Import ListNotations.

(* ---------- decoder facts ---------- *)
Lemma run_app_value (s : st) inp v tail :
  run step s inp = Value v [] -> run step s (inp ++ tail) = Value v tail.
Proof.
  revert s. induction inp as [|b inp IH]; intros s H; [discriminate|].
  cbn [app]. rewrite run_cons in *. destruct (step s b) as [v'|s'|].
  - injection H as -> ->. reflexivity.
  - apply IH, H.
  - discriminate.
Qed.

Lemma decode_dump_tail v tail : decode (dump v ++ tail) = Value v tail.
Proof. apply run_app_value, dump_accepted. Qed.

Lemma run_feed pre : forall s s' rest, feed s pre = Some s' -> run step s (pre ++ rest) = run step s' rest.
Proof.
  induction pre as [|b pre IH]; intros s s' rest H.
  - injection H as <-. reflexivity.
  - cbn [app feed] in *. rewrite run_cons. destruct (step s b) as [v|s1|]; try discriminate. apply IH, H.
Qed.

Lemma op_step_zero s : op_step s 0 = Fail.
Proof. reflexivity. Qed.

(* a zero byte where an opcode is expected: format error, whatever follows *)
Lemma hole_is_bad s p rest : boundary s p = true -> decode (firstn p s ++ 0 :: rest) = Bad.
Proof.
  unfold boundary, decode. destruct (feed init (firstn p s)) as [s'|] eqn:E; [|discriminate].
  destruct (md s') eqn:Em; try discriminate. intros _.
  rewrite (run_feed _ _ _ _ E), run_cons. unfold step. rewrite Em, op_step_zero. reflexivity.
Qed.

(* ---------- what load_model does, by the decoder's verdict on the file ---------- *)
Definition file_good (w : world) (bs : list byte) : Prop :=
  match decode bs with
  | Value v _ => exists vr o, v = db_of vr o (src w)
  | EOF => True
  | Bad => True
  end.

Lemma load_file_good t w o e bx bs mt : routes_ok t = true ->
  transfer_recompiles t (load_route t bx) = true ->
  cfile w = Some (bs, mt) -> file_good w bs ->
  match load_gen t w o e bx with inr m => m = (src w, o) | inl x => transfer_recompiles t x = true end.
Proof.
  intros Hr Hb Hf Hg. destruct (routes_ok_inv t Hr) as (He & Hi & Hn).
  unfold load_gen. rewrite Hf. destruct (mt <? smt w); [exact Hi|].
  unfold file_good in Hg. destruct (decode bs) as [v rest| |].
  - destruct Hg as (vr & o' & ->). rewrite decode_db_of.
    destruct (vr =? ver w); cbn [negb]; [|exact Hi].
    destruct (o' =? o) eqn:Eo; cbn [negb]; [|exact Hi]. apply Nat.eqb_eq in Eo. subst o'. reflexivity.
  - apply He.
  - exact Hb.
Qed.

(* ---------- A. one write call per save ---------- *)
Definition shape1 (sA sB : list byte) (x : ov) : Prop :=
  (offA x = 0 \/ length sA <= offA x) /\ (offB x = 0 \/ length sB <= offB x) /\
  (opA x || opB x = true ->
   exists f, ofile x = Some f /\ (f = [] \/ (exists tl, f = sA ++ tl) \/ (exists tl, f = sB ++ tl))).

Lemma write_at_0 f c : write_at f 0 c = c ++ skipn (length c) f.
Proof. destruct c as [|b c]; [reflexivity|]. unfold write_at. cbn [firstn Nat.sub repeat app Nat.add]. reflexivity. Qed.

Lemma chunk_whole s n : length s <= n -> chunk s 0 n = s.
Proof. intros H. unfold chunk. cbn [skipn]. apply firstn_all2, H. Qed.
Lemma chunk_done s off n : length s <= off -> chunk s off n = [].
Proof. intros H. unfold chunk. rewrite skipn_all2 by exact H. apply firstn_nil. Qed.

Lemma shape1_step sA sB x e : whole sA sB e = true -> shape1 sA sB x -> shape1 sA sB (ov_step sA sB x e).
Proof.
  intros Hw (Ha & Hb & Hf). destruct e as [| |n|n]; cbn [ov_step whole] in *.
  - split; [left; reflexivity|]. split; [exact Hb|]. intros _. exists []. auto.
  - split; [exact Ha|]. split; [left; reflexivity|]. intros _. exists []. auto.
  - apply Nat.leb_le in Hw. destruct (opA x) eqn:Eo; [|repeat split; try assumption; rewrite Eo; exact Hf].
    destruct (Hf eq_refl) as (f & Ef & Hs). cbn [offA offB ofile opA opB]. destruct Ha as [Ha|Ha].
    + rewrite Ha, (chunk_whole _ _ Hw). split; [right; cbn; lia|]. split; [exact Hb|].
      intros _. rewrite Ef. cbn [option_map]. eexists. split; [reflexivity|]. rewrite write_at_0. right. left. eauto.
    + rewrite (chunk_done _ _ _ Ha). cbn [length]. rewrite Nat.add_0_r. split; [right; exact Ha|]. split; [exact Hb|].
      intros _. rewrite Ef. cbn [option_map write_at]. exists f. split; [reflexivity|exact Hs].
  - apply Nat.leb_le in Hw. destruct (opB x) eqn:Eo; [|repeat split; try assumption; rewrite Eo; exact Hf].
    try rewrite Eo in Hf. try rewrite orb_true_r in Hf.
    destruct (Hf eq_refl) as (f & Ef & Hs). cbn [offA offB ofile opA opB]. destruct Hb as [Hb|Hb].
    + rewrite Hb, (chunk_whole _ _ Hw). split; [exact Ha|]. split; [right; cbn; lia|].
      intros _. rewrite Ef. cbn [option_map]. eexists. split; [reflexivity|]. rewrite write_at_0. right. right. eauto.
    + rewrite (chunk_done _ _ _ Hb). cbn [length]. rewrite Nat.add_0_r. split; [exact Ha|]. split; [right; exact Hb|].
      intros _. rewrite Ef. cbn [option_map write_at]. exists f. split; [reflexivity|exact Hs].
Qed.

Lemma shape1_run sA sB evs : forall x, forallb (whole sA sB) evs = true -> shape1 sA sB x ->
  shape1 sA sB (ov_run sA sB x evs).
Proof.
  induction evs as [|e evs IH]; intros x Hw Hs; [exact Hs|].
  cbn [forallb] in Hw. apply andb_true_iff in Hw as [H1 H2]. apply IH; [exact H2|]. apply shape1_step; assumption.
Qed.

(* A third caller at ANY point of ANY interleaving of two saves (any option sets oa, ob) whose write
   calls each deliver the whole stream: correct model or recompile; bx is arbitrary (never used). *)
Theorem single_chunk_reader t w oa ob evs o e bx : routes_ok t = true -> Inv w ->
  forallb (whole (stream w oa) (stream w ob)) evs = true ->
  match load_gen t (ov_world w oa ob evs) o e bx with
  | inr m => m = (src w, o)
  | inl x => transfer_recompiles t x = true
  end.
Proof.
  intros Hr Hi Hw. unfold ov_world.
  set (x0 := ov0 (option_map fst (cfile w))).
  assert (H0 : shape1 (stream w oa) (stream w ob) x0) by (repeat split; cbn; auto; discriminate).
  pose proof (shape1_run _ _ evs x0 Hw H0) as (_ & _ & Hf).
  set (x := ov_run (stream w oa) (stream w ob) x0 evs) in *.
  destruct (opA x || opB x) eqn:Eo.
  - destruct (Hf eq_refl) as (f & Ef & Hs). rewrite Ef. cbn [option_map].
    destruct (routes_ok_inv t Hr) as (He & Hinv & Hn).
    assert (D : decode f = EOF \/ exists vr o' tl, decode f = Value (db_of vr o' (src w)) tl).
    { destruct Hs as [->|[[tl ->]|[tl ->]]]; [left; reflexivity|right|right];
        unfold stream; rewrite decode_dump_tail; eauto. }
    unfold load_gen. cbn [set_cfile cfile smt ver src]. destruct (clock w <? smt w); [exact Hinv|].
    destruct D as [->|(vr & o' & tl & ->)]; [apply He|]. rewrite decode_db_of.
    destruct (vr =? ver w); cbn [negb]; [|exact Hinv].
    destruct (o' =? o) eqn:E1; cbn [negb]; [|exact Hinv]. apply Nat.eqb_eq in E1. subst o'. reflexivity.
  - exact (load_gen_ok t w o e bx Hr Hi).
Qed.

(* ---------- B. a hole at an opcode boundary ---------- *)
(* the file a third caller sees when the later opener has written p bytes (p an opcode boundary of the
   stream) and the earlier writer goes on beyond the gap: zero where an opcode is expected *)
Theorem hole_reader t w o' p rest o e : routes_ok t = true ->
  boundary (stream w o') p = true ->
  match load_gen t (set_cfile w (Some (firstn p (stream w o') ++ 0 :: rest, clock w))) o e UnpicklingError with
  | inr m => m = (src w, o)
  | inl x => transfer_recompiles t x = true
  end.
Proof.
  intros Hr Hb. destruct (routes_ok_inv t Hr) as (He & _ & _).
  apply (load_file_good t (set_cfile w (Some (firstn p (stream w o') ++ 0 :: rest, clock w))) o e UnpicklingError
           (firstn p (stream w o') ++ 0 :: rest) (clock w) Hr (He false)); [reflexivity|].
  unfold file_good. cbn [set_cfile src]. rewrite (hole_is_bad _ _ _ Hb). exact I.
Qed.

(* the three-phase schedule: A writes a0 bytes, B opens and writes b bytes, A writes up to a *)
Definition phase3 (a0 b a : nat) : list ev := [OpenA; WriteA a0; OpenB; WriteB b; WriteA (a - a0)].
Definition mask (s : list byte) (a0 b a : nat) : list byte :=
  if a <=? a0 then firstn b s
  else if b <? a0 then firstn b s ++ repeat 0 (a0 - b) ++ firstn (a - a0) (skipn a0 s)
  else firstn (Nat.max a b) s.
