(* C09 — proofs about Model/C09_connect.v.
   1. the clause-by-clause, variable-by-variable run decomposes into: the flow map folded over the
      flow pairs, the potential rows of the potential pairs, the surviving zero-default names;
   2. connect_flow is Closure.merge on maps where every present key is a member of its set, so the
      final flow map is Closure.run of the flow pairs (classes = equivalence closure);
   3. semantics over rational valuations (Qc). *)
From stdpp Require Import gmap.
From Coq Require Import QArith Qcanon.
From PV Require Import Lib.Closure Model.C09_connect.
Close Scope Qc_scope.
Close Scope Q_scope.

Section Proofs.
Context {Sg N : Type} `{Countable N} `{!Naming Sg N}.
Local Notation var := N.
Local Notation key := (N * bool)%type.
Local Notation cmapT := (gmap key (gset key)).
Local Notation row := (list (var * Z)).
Local Notation cvars := (list (Sg * kind)).
Local Notation fclause := ((var * bool) * (var * bool) * cvars)%type.

(* ------------------------------------------------------------------ *)
(* 1. decomposition of the run                                         *)
(* ------------------------------------------------------------------ *)
Definition flow_pairs_vars (L R : var * bool) (vars : cvars) : list (key * key) :=
  flat_map (fun v : Sg * kind =>
              match v.2 with
              | KFlow => [((ext L.1 v.1, L.2), (ext R.1 v.1, R.2))]
              | _ => []
              end) vars.
Definition flow_pairs (cs : list fclause) : list (key * key) :=
  flat_map (fun c : fclause => flow_pairs_vars c.1.1 c.1.2 c.2) cs.

Definition pot_pairs_vars (L R : var * bool) (vars : cvars) : list (var * var) :=
  flat_map (fun v : Sg * kind =>
              match v.2 with
              | KPot => [(ext L.1 v.1, ext R.1 v.1)]
              | _ => []
              end) vars.
Definition pot_pairs (cs : list fclause) : list (var * var) :=
  flat_map (fun c : fclause => pot_pairs_vars c.1.1 c.1.2 c.2) cs.

Definition cf_fold (P : list (key * key)) (m : cmapT) : cmapT :=
  fold_left (fun m p => connect_flow m p.1 p.2) P m.

Definition untouched (P : list (key * key)) (n : var) : Prop :=
  Forall (fun p : key * key => n ≠ p.1.1 ∧ n ≠ p.2.1) P.

Definition pot_rows (Q : list (var * var)) : list row := map (fun p => pot_row p.1 p.2) Q.

Lemma cf_fold_app P1 P2 m : cf_fold (P1 ++ P2) m = cf_fold P2 (cf_fold P1 m).
Proof. unfold cf_fold. by rewrite fold_left_app. Qed.

Lemma step_vars_spec L R vars s :
  let s' := fold_left (step_var L R) vars s in
  fc s' = cf_fold (flow_pairs_vars L R vars) (fc s) ∧
  eqs s' = eqs s ++ pot_rows (pot_pairs_vars L R vars) ∧
  (∀ n, n ∈ disc s' ↔ n ∈ disc s ∧ untouched (flow_pairs_vars L R vars) n).
Proof.
  revert s. induction vars as [|[x k] vars IH]; intros s.
  - simpl. split; [done|]. split; [by rewrite app_nil_r|].
    intros n. unfold untouched. split; [intros; split; [done|constructor]|by intros [? _]].
  - simpl. destruct (IH (step_var L R s (x, k))) as (H1 & H2 & H3).
    rewrite H1, H2. destruct k; simpl.
    + split; [done|]. split; [by rewrite <- app_assoc|]. intros n. rewrite H3. done.
    + split; [done|]. split; [done|]. intros n. rewrite H3. simpl.
      unfold untouched. rewrite Forall_cons. simpl. rewrite elem_of_list_filter. tauto.
    + split; [done|]. split; [done|]. intros n. rewrite H3. done.
Qed.

Lemma untouched_app P1 P2 n : untouched (P1 ++ P2) n ↔ untouched P1 n ∧ untouched P2 n.
Proof. unfold untouched. apply Forall_app. Qed.

Lemma run_spec cs s :
  let s' := fold_left step_clause cs s in
  fc s' = cf_fold (flow_pairs cs) (fc s) ∧
  eqs s' = eqs s ++ pot_rows (pot_pairs cs) ∧
  (∀ n, n ∈ disc s' ↔ n ∈ disc s ∧ untouched (flow_pairs cs) n).
Proof.
  revert s. induction cs as [|[[L R] vars] cs IH]; intros s.
  - simpl. split; [done|]. split; [by rewrite app_nil_r|].
    intros n. split; [intros; split; [done|constructor]|by intros [? _]].
  - simpl. destruct (IH (fold_left (step_var L R) vars s)) as (H1 & H2 & H3).
    destruct (step_vars_spec L R vars s) as (G1 & G2 & G3).
    rewrite H1, H2, G1, G2. split; [by rewrite cf_fold_app|].
    split; [unfold pot_rows; by rewrite map_app, <- app_assoc|].
    intros n. rewrite H3, G3, untouched_app. tauto.
Qed.

Lemma run_clauses_spec flows cs :
  let s := run_clauses flows cs in
  fc s = cf_fold (flow_pairs cs) ∅ ∧
  eqs s = pot_rows (pot_pairs cs) ∧
  (∀ n, n ∈ disc s ↔ n ∈ flows ∧ untouched (flow_pairs cs) n).
Proof. apply (run_spec cs (St ∅ flows [])). Qed.

Lemma pot_eqs_spec cs : pot_eqs cs = pot_rows (pot_pairs cs).
Proof. unfold pot_eqs. apply (run_clauses_spec [] cs). Qed.

Lemma expand_split flows cs : expand flows cs = pot_eqs cs ++ flow_eqs flows cs.
Proof.
  unfold expand, flow_eqs. rewrite pot_eqs_spec.
  destruct (run_clauses_spec flows cs) as (_ & -> & _). done.
Qed.

(* ------------------------------------------------------------------ *)
(* 2. the flow map is the equivalence closure                          *)
(* ------------------------------------------------------------------ *)
(* sharing invariant at value level: every present key is a member of the set it points to
   (with Closure.inv: all members of a set point to that same set) *)
Definition good (m : cmapT) : Prop := ∀ k S, m !! k = Some S → k ∈ S.

Lemma cls_getset m k : good m → cls m k = getset m k ∪ {[k]}.
Proof.
  intros Hg. unfold cls, getset. destruct (m !! k) as [S|] eqn:E; simpl.
  - specialize (Hg _ _ E). set_solver.
  - set_solver.
Qed.

Lemma connect_flow_merge m l r : good m → connect_flow m l r = merge m l r.
Proof.
  intros Hg. unfold connect_flow, merge. f_equal.
  rewrite !cls_getset by done. set_solver.
Qed.

Lemma good_merge m a b : inv m → good m → good (merge m a b).
Proof.
  intros Hi Hg k S. unfold merge. rewrite relabel_lookup.
  case_decide as Hk; [by intros [= <-]|apply Hg].
Qed.

Lemma cf_fold_run P : cf_fold P ∅ = run P ∧ good (run P).
Proof.
  induction P as [|[a b] P [IH1 IH2]] using rev_ind.
  - split; [done|]. intros k S. unfold run. simpl. by rewrite lookup_empty.
  - rewrite cf_fold_app, run_snoc. simpl. rewrite IH1. split.
    + by apply connect_flow_merge.
    + apply good_merge; [apply run_inv|done].
Qed.

Definition mentioned (P : list (key * key)) (k : key) : Prop :=
  ∃ p, p ∈ P ∧ (k = p.1 ∨ k = p.2).

Lemma closed_of_inv (m : cmapT) k S v :
  inv m → m !! k = Some S → v ∈ S → is_Some (m !! v).
Proof.
  intros [Hr Hc] Hk Hv.
  assert (v ∈ cls m k) as Hv' by (unfold cls; by rewrite Hk).
  specialize (Hc _ _ Hv'). destruct (m !! v) as [T|] eqn:E; [eauto|]. exfalso.
  pose proof (Hr k) as Hkk. rewrite <- Hc in Hkk. unfold cls in Hkk. rewrite E in Hkk. simpl in Hkk.
  apply elem_of_singleton in Hkk. subst k. rewrite E in Hk. done.
Qed.

Lemma run_dom P k : is_Some (run P !! k) ↔ mentioned P k.
Proof.
  induction P as [|[a b] P IH] using rev_ind.
  - unfold run, mentioned. simpl. rewrite lookup_empty. split.
    + by intros [? ?].
    + intros (p & Hp & _). by apply elem_of_nil in Hp.
  - rewrite run_snoc. pose proof (run_inv P) as Hi. unfold merge. rewrite relabel_lookup. split.
    + case_decide as Hk.
      * intros _.
        assert (∀ x, k ∈ cls (run P) x → k = x ∨ mentioned P k) as Hx.
        { intros x. unfold cls. destruct (run P !! x) as [S|] eqn:E; simpl.
          - intros HkS. right. apply IH. by eapply closed_of_inv.
          - intros ->%elem_of_singleton. by left. }
        apply elem_of_union in Hk as [Hk|Hk]; apply Hx in Hk as [->|(p & Hp & Hkp)].
        -- exists (a, b). split; [set_solver|by left].
        -- exists p. split; [set_solver|done].
        -- exists (a, b). split; [set_solver|by right].
        -- exists p. split; [set_solver|done].
      * intros (p & Hp & Hkp)%IH. exists p. split; [set_solver|done].
    + intros (p & Hp & Hkp). case_decide as Hk; [eauto|]. apply IH.
      apply elem_of_app in Hp as [Hp|Hp]; [by exists p|].
      apply elem_of_list_singleton in Hp. subst p. simpl in Hkp. exfalso. apply Hk.
      destruct Hi as [Hr _]. destruct Hkp as [->| ->]; [apply elem_of_union_l|apply elem_of_union_r]; apply Hr.
Qed.

Lemma elem_of_sets_of (m : cmapT) S : S ∈ sets_of m ↔ ∃ k, m !! k = Some S.
Proof.
  unfold sets_of. rewrite elem_of_remove_dups, elem_of_list_fmap. split.
  - intros ([k S'] & -> & HkS%elem_of_map_to_list). eauto.
  - intros [k HkS]. exists (k, S). split; [done|]. by apply elem_of_map_to_list.
Qed.

Lemma run_lookup_cls (P : list (key * key)) (k : key) (S : gset key) :
  run P !! k = Some S → cls (run P) k = S.
Proof. intros E. unfold cls. by rewrite E. Qed.

Section Partition.
  Variable P : list (key * key).
  Let m := run P.

  Lemma sets_nodup : NoDup (sets_of m).
  Proof. apply NoDup_remove_dups. Qed.

  Lemma sets_are_classes S :
    S ∈ sets_of m → ∃ k, mentioned P k ∧ k ∈ S ∧ ∀ v, v ∈ S ↔ eqv P k v.
  Proof.
    intros [k Hk]%elem_of_sets_of. exists k.
    split; [apply run_dom; eauto|].
    split; [by apply (proj2 (cf_fold_run P)) in Hk|].
    intros v. rewrite <- (run_lookup_cls _ _ _ Hk). apply run_closure.
  Qed.

  Lemma mentioned_has_set k : mentioned P k → ∃ S, S ∈ sets_of m ∧ k ∈ S ∧ ∀ v, v ∈ S ↔ eqv P k v.
  Proof.
    intros [S HS]%run_dom. exists S. split; [apply elem_of_sets_of; eauto|].
    split; [by apply (proj2 (cf_fold_run P)) in HS|].
    intros v. rewrite <- (run_lookup_cls _ _ _ HS). apply run_closure.
  Qed.

  Lemma sets_disjoint S T : S ∈ sets_of m → T ∈ sets_of m → S ≠ T → S ## T.
  Proof.
    intros [k Hk]%elem_of_sets_of [k' Hk']%elem_of_sets_of Hne.
    apply elem_of_disjoint. intros v HvS HvT. apply Hne.
    destruct (run_inv P) as [_ Hc].
    rewrite <- (run_lookup_cls _ _ _ Hk), <- (run_lookup_cls _ _ _ Hk').
    rewrite <- (Hc k v), <- (Hc k' v); [done| |].
    - by rewrite (run_lookup_cls _ _ _ Hk').
    - by rewrite (run_lookup_cls _ _ _ Hk).
  Qed.

  Lemma share_iff_eqv a b :
    mentioned P a → (∃ S, S ∈ sets_of m ∧ a ∈ S ∧ b ∈ S) ↔ eqv P a b.
  Proof.
    intros Ha. split.
    - intros (S & HS & HaS & HbS).
      destruct (sets_are_classes S HS) as (k & _ & _ & Hcl).
      apply (eqv_trans _ _ k); [apply eqv_sym|]; by apply Hcl.
    - intros Hab. destruct (mentioned_has_set a Ha) as (S & HS & HaS & Hcl).
      exists S. split; [done|]. split; [done|]. by apply Hcl.
  Qed.
End Partition.

(* ------------------------------------------------------------------ *)
(* 3. semantics over rational valuations                               *)
(* ------------------------------------------------------------------ *)
Definition zq (z : Z) : Qc := Q2Qc (inject_Z z).

Fixpoint eval (ρ : var → Qc) (r : row) : Qc :=
  match r with
  | [] => 0%Qc
  | t :: r' => (zq t.2 * ρ t.1 + eval ρ r')%Qc
  end.

Definition sat (ρ : var → Qc) (rs : list row) : Prop := Forall (fun r => eval ρ r = 0%Qc) rs.

(* inside connectors count positive, outside connectors negative *)
Definition sgn (k : key) : Qc := if k.2 then 1%Qc else (-1)%Qc.

Fixpoint ssum (ρ : var → Qc) (l : list key) : Qc :=
  match l with
  | [] => 0%Qc
  | k :: l' => (sgn k * ρ k.1 + ssum ρ l')%Qc
  end.

Lemma zq_1 : zq 1 = 1%Qc.
Proof. apply Qc_is_canon. reflexivity. Qed.
Lemma zq_m1 : zq (-1) = (-1)%Qc.
Proof. apply Qc_is_canon. reflexivity. Qed.

Lemma Qc_opp_zero (x : Qc) : (- x)%Qc = 0%Qc ↔ x = 0%Qc.
Proof.
  split; intros Hx.
  - assert (x = (- - x)%Qc) as -> by ring. rewrite Hx. ring.
  - rewrite Hx. ring.
Qed.

Lemma Qc_sub_zero (x y : Qc) : (1 * x + (-1 * y + 0))%Qc = 0%Qc ↔ x = y.
Proof.
  split; intros Hx.
  - assert (x = (1 * x + (-1 * y + 0)) + y)%Qc as -> by ring. rewrite Hx. ring.
  - rewrite Hx. ring.
Qed.

Lemma ssum_perm ρ l l' : l ≡ₚ l' → ssum ρ l = ssum ρ l'.
Proof.
  induction 1 as [|x l l' _ IH|x y l|l l' l'' _ IH1 _ IH2]; simpl.
  - done.
  - by rewrite IH.
  - ring.
  - congruence.
Qed.

Lemma eval_signed ρ (l : list key) :
  eval ρ (map (fun k : key => (k.1, if k.2 then 1%Z else (-1)%Z)) l) = ssum ρ l.
Proof.
  induction l as [|[n [|]] l IH]; simpl; [done| |]; rewrite IH; unfold sgn; simpl;
    rewrite ?zq_1, ?zq_m1; done.
Qed.

Lemma eval_all_outside ρ (l : list key) :
  forallb (fun k : key => negb k.2) l = true →
  eval ρ (map (fun k : key => (k.1, 1%Z)) l) = (- ssum ρ l)%Qc.
Proof.
  induction l as [|[n [|]] l IH]; simpl; intros Hall.
  - ring.
  - done.
  - rewrite IH by done. unfold sgn. simpl. rewrite zq_1. ring.
Qed.

Lemma eval_sum_row ρ S : eval ρ (sum_row S) = 0%Qc ↔ ssum ρ (elements S) = 0%Qc.
Proof.
  unfold sum_row. destruct (forallb _ (elements S)) eqn:E.
  - rewrite eval_all_outside by done. apply Qc_opp_zero.
  - by rewrite eval_signed.
Qed.

Lemma eval_zero_row ρ n : eval ρ (zero_row n) = 0%Qc ↔ ρ n = 0%Qc.
Proof.
  unfold zero_row. simpl. rewrite zq_1.
  assert (1 * ρ n + 0 = ρ n)%Qc as -> by ring. done.
Qed.

Lemma eval_pot_row ρ a b : eval ρ (pot_row a b) = 0%Qc ↔ ρ a = ρ b.
Proof. unfold pot_row. simpl. rewrite zq_1, zq_m1. apply Qc_sub_zero. Qed.

(* the signed sum of an equivalence class does not depend on how the class is enumerated *)
Definition enumerates (P : list (key * key)) (k : key) (l : list key) : Prop :=
  NoDup l ∧ ∀ v, v ∈ l ↔ eqv P k v.

Definition flow_spec (flows : list var) (P : list (key * key)) (ρ : var → Qc) : Prop :=
  (∀ k l, mentioned P k → enumerates P k l → ssum ρ l = 0%Qc) ∧
  (∀ n, n ∈ flows → (∀ k, mentioned P k → k.1 ≠ n) → ρ n = 0%Qc).

Definition pot_spec (Q : list (var * var)) (ρ : var → Qc) : Prop :=
  ∀ a b, eqv Q a b → ρ a = ρ b.

Lemma untouched_unmentioned P n : untouched P n ↔ ∀ k, mentioned P k → k.1 ≠ n.
Proof.
  unfold untouched, mentioned. rewrite Forall_forall. split.
  - intros Hall k (p & Hp & Hk) <-. destruct (Hall p Hp) as [H1 H2].
    destruct Hk as [->| ->]; [by apply H1|by apply H2].
  - intros Hall p Hp. split; intros ->.
    + by apply (Hall p.1); [exists p; split; [done|by left]|].
    + by apply (Hall p.2); [exists p; split; [done|by right]|].
Qed.

Theorem flow_correct flows cs ρ :
  sat ρ (flow_eqs flows cs) ↔ flow_spec flows (flow_pairs cs) ρ.
Proof.
  unfold flow_eqs, sat, flow_spec.
  destruct (run_clauses_spec flows cs) as (Hfc & _ & Hdisc).
  rewrite Hfc, (proj1 (cf_fold_run _)).
  set (P := flow_pairs cs) in *.
  rewrite Forall_app, !Forall_fmap, !Forall_forall.
  split.
  - intros [Hsets Hz]. split.
    + intros k l Hk [Hnd Hl].
      destruct (mentioned_has_set P k Hk) as (S & HS & _ & Hcl).
      rewrite (ssum_perm ρ l (elements S)).
      * apply eval_sum_row. by apply Hsets.
      * apply NoDup_Permutation; [done|apply NoDup_elements|].
        intros v. rewrite elem_of_elements, Hl, Hcl. done.
    + intros n Hn Hun. apply eval_zero_row. apply (Hz n). apply Hdisc.
      split; [done|]. by apply untouched_unmentioned.
  - intros [Hspec1 Hspec2]. split.
    + intros S HS. simpl. apply eval_sum_row.
      destruct (sets_are_classes P S HS) as (k & Hk & _ & Hcl).
      apply (Hspec1 k); [done|]. split; [apply NoDup_elements|].
      intros v. by rewrite elem_of_elements.
    + intros n [Hn Hun]%Hdisc. simpl. apply eval_zero_row. apply Hspec2; [done|].
      by apply untouched_unmentioned.
Qed.

Theorem pot_correct cs ρ : sat ρ (pot_eqs cs) ↔ pot_spec (pot_pairs cs) ρ.
Proof.
  rewrite pot_eqs_spec. unfold sat, pot_rows, pot_spec.
  rewrite Forall_fmap, Forall_forall. split.
  - intros Hall a b. induction 1 as [x y Hxy|x|x y _ IH|x y z _ IH1 _ IH2].
    + apply (eval_pot_row ρ x y). apply (Hall (x, y) Hxy).
    + done.
    + done.
    + congruence.
  - intros Hspec [a b] Hab. simpl. apply eval_pot_row. apply Hspec. by apply eqv_pair.
Qed.

Theorem expand_correct flows cs ρ :
  sat ρ (expand flows cs) ↔ pot_spec (pot_pairs cs) ρ ∧ flow_spec flows (flow_pairs cs) ρ.
Proof.
  rewrite expand_split. unfold sat. rewrite Forall_app.
  rewrite <- pot_correct, <- flow_correct. done.
Qed.

Theorem partition_correct flows cs :
  let P := flow_pairs cs in
  let sets := sets_of (fc (run_clauses flows cs)) in
  NoDup sets ∧
  (∀ S T, S ∈ sets → T ∈ sets → S ≠ T → S ## T) ∧
  (∀ S, S ∈ sets → ∃ k, mentioned P k ∧ k ∈ S ∧ ∀ v, v ∈ S ↔ eqv P k v) ∧
  (∀ k, mentioned P k → ∃ S, S ∈ sets ∧ k ∈ S) ∧
  (∀ a b, mentioned P a → (∃ S, S ∈ sets ∧ a ∈ S ∧ b ∈ S) ↔ eqv P a b).
Proof.
  intros P sets. unfold sets.
  destruct (run_clauses_spec flows cs) as (-> & _ & _).
  rewrite (proj1 (cf_fold_run _)). fold P.
  split; [apply sets_nodup|]. split; [apply sets_disjoint|].
  split; [apply sets_are_classes|]. split.
  - intros k Hk. destruct (mentioned_has_set P k Hk) as (S & ? & ? & _). eauto.
  - apply share_iff_eqv.
Qed.

(* sharing invariant of every reachable flow map (what makes the value-level model adequate for
   the shared OrderedDict objects): a present key is a member of its set, and every member of a
   set is mapped to that very set *)
Theorem sharing_invariant flows cs :
  let m := fc (run_clauses flows cs) in
  ∀ k S, m !! k = Some S → k ∈ S ∧ ∀ v, v ∈ S → m !! v = Some S.
Proof.
  intros m k S. unfold m.
  destruct (run_clauses_spec flows cs) as (-> & _ & _).
  destruct (cf_fold_run (flow_pairs cs)) as [-> Hg]. intros Hk.
  split; [by apply Hg|]. intros v Hv.
  pose proof (run_inv (flow_pairs cs)) as Hi.
  destruct (closed_of_inv _ _ _ _ Hi Hk Hv) as [T HT].
  rewrite HT. f_equal. destruct Hi as [_ Hc].
  rewrite <- (run_lookup_cls _ _ _ HT), <- (run_lookup_cls _ _ _ Hk).
  apply Hc. by rewrite (run_lookup_cls _ _ _ Hk).
Qed.
End Proofs.
