(* C05 — flattening never changes what later flattening produces.
   Property theorems only; proofs live in Proofs/C05_frame.v.
   The model abstracts flatten to its FOOTPRINT (Model/C05_frame.v): the result of a request is
   an arbitrary function `res` of the parsed tree as it is when the request is made, and the
   request then writes arbitrarily inside the looked-up class and allocates.  `neutral` stands
   for the exact writes that reach the parsed tree even with copy-on-lookup (import memo,
   constants returned uncopied, argument hooks); that they do not change any result
   (`res_neutral`) is a PREMISE of the theorems, validated on every run by the sequence oracle. *)
From Coq Require Import List Arith Bool.
From PV Require Import Lib.ObjGraph Model.C06_deepcopy Proofs.C06_deepcopy Model.C05_frame Proofs.C05_frame.
Import ListNotations.

(* frame: with copy=True (tree.py:1242 as it is) one request leaves the parsed tree unchanged
   except for neutral writes, whatever flatten writes inside its footprint *)
Theorem C05_frame (R : Type) (res : tree -> path -> R) (neutral : tree -> tree -> Prop)
    (w w' : world) (p : path) (r : R) (t0 : tree) :
  nth_error w 0 = Some t0 -> neutral t0 t0 -> fstep R res neutral true w p w' r ->
  r = res t0 p /\ exists t0', nth_error w' 0 = Some t0' /\ neutral t0 t0'.
Proof. exact (frame R res neutral w p w' r t0). Qed.
Print Assumptions C05_frame.

(* sequences: any finite sequence of requests (repeats, different classes, classes used by
   earlier ones) gives at every step the result of that request on the initial parsed tree *)
Theorem C05_sequences (R : Type) (res : tree -> path -> R) (neutral : tree -> tree -> Prop) :
  (forall x, neutral x x) ->
  (forall a b c, neutral a b -> neutral b c -> neutral a c) ->
  (forall t t' p, neutral t t' -> res t' p = res t p) ->
  forall (ps : list path) (w w' : world) (rs : list R) (t0 : tree),
    nth_error w 0 = Some t0 -> fseq R res neutral true w ps w' rs -> rs = map (res t0) ps.
Proof.
  intros Hrefl Htrans Hres ps w w' rs t0 Ht Hseq.
  exact (sequences_gen R res neutral Htrans Hres ps w w' rs Hseq t0 t0 Hrefl Ht (Hrefl t0)).
Qed.
Print Assumptions C05_sequences.

(* the lookup of an existing class with copy=True is C06's detached copy: a new tree with the
   same names and content whose root keeps the ORIGINAL parent (so lookups from the copy still
   reach the rest of the library) *)
Theorem C05_lookup_copy (w : world) (p : path) (i0 : info) (rest : list (path * info)) :
  wf_at w (0, p) i0 rest -> get w (0, p) <> None ->
  lookup true w p = Some (w ++ [spec_copy (length w) i0 rest], (length w, [])).
Proof. exact (lookup_copy_shape w p i0 rest). Qed.
Print Assumptions C05_lookup_copy.

(* copy=False (tree.py before bc8343b): a footprint-conforming flatten (a symbol of the
   requested class consumed in place) makes the second identical request differ *)
Theorem C05_refuted :
  exists w w1 w2 p r1 r2,
    fseq (option cdata) ex5_res eq false w [p; p] w2 [r1; r2] /\
    fstep (option cdata) ex5_res eq false w p w1 r1 /\ r1 <> r2.
Proof. exact refuted_no_copy. Qed.
Print Assumptions C05_refuted.

(* non-vacuity: a two-request sequence with copy=True on a concrete library exists (the
   footprint writes into the copy, tree 0 is untouched) *)
Example C05_example :
  exists w', fseq (option cdata) ex5_res eq true [ex5_tree] [[1]; [1]] w' [Some (CD [4] 1); Some (CD [4] 1)].
Proof.
  assert (W : forall w c, nth_error w 0 = Some ex5_tree -> lookup true w [1] = Some (w ++ [c], (length w, [])) ->
              fstep (option cdata) ex5_res eq true w [1] (w ++ [c]) (Some (CD [4] 1))).
  { intros w c H0 L. exists ex5_tree. split; [exact H0|]. split; [reflexivity|]. rewrite L.
    exists (w ++ [c]), ex5_tree, ex5_tree. split.
    - split; [apply le_n|]. intros ti t1 H. exists t1. repeat split; auto.
    - split; [rewrite nth_error_app1; [exact H0|apply nth_error_Some; congruence]|]. split; [reflexivity|].
      destruct w; [discriminate H0|]. cbn in H0. injection H0 as ->. reflexivity. }
  eexists. eapply fseq_cons; [apply W; [reflexivity|vm_compute; reflexivity]|].
  eapply fseq_cons; [apply W; [reflexivity|vm_compute; reflexivity]|]. apply fseq_nil.
Qed.
Print Assumptions C05_example.
