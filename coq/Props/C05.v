(* C05 — flattening never changes what later flattening produces.
   Property theorems only; proofs live in Proofs/C05_frame.v.
   Model (Model/C05_frame.v): a request for class p runs an ARBITRARY program `prog_of p` that reads
   the parsed tree only through three queries (class lookup `find` = _find_class with import memo and
   unqualified imports; effective value of a constant; content of a class); it then writes
   arbitrarily inside the FOOTPRINT of the looked-up class and allocates, and the neutral fields of
   the parsed tree move by the three exact writes (`nstar`: import memo caching the reference found,
   constants renamed/modified in place, argument hooks bound to self).
   No theorem below has a premise about results: that the three writes are invisible is PROVED
   (Proofs/C05_frame.v exec_neutral, via find_memo_eq: lookup with a sound memo = lookup without).
   What stays trusted: the real flatten reads/writes the parsed tree only as modelled (snapshot
   correspondence + lookup correspondence + sequence oracle). *)
From Coq Require Import List Arith Bool.
From PV Require Import Lib.ObjGraph Model.C06_deepcopy Proofs.C06_deepcopy Model.C05_frame Proofs.C05_frame.
Import ListNotations.

(* `sd` = how ast.py treats a dotted name found through an unqualified import (Model/C05_frame.v find);
   it is read from the source on every run.  sd = true is the code with fixes/C05_import_dotted.diff. *)

(* frame: with copy=True (tree.py:1242 as it is) one request leaves the parsed tree EXACTLY as it
   was — whatever flatten writes inside its footprint — and moves the neutral fields only by the
   three exact writes *)
Theorem C05_frame (R : Type) (prog_of : path -> prog R) (sd : bool) (st st' : world * xmap) (p : path) (r : R) (t0 : tree) :
  nth_error (fst st) 0 = Some t0 -> fstep R prog_of sd true st p st' r ->
  r = exec sd (prog_of p) t0 (snd st) /\ nth_error (fst st') 0 = Some t0 /\ nstar t0 (snd st) (snd st').
Proof. exact (frame R prog_of sd st p st' r t0). Qed.
Print Assumptions C05_frame.

(* class lookup with a sound import memo = the un-memoised search (induction on the climb): for every
   (dotted) name when sd = true, for simple names whatever sd *)
Theorem C05_memo_transparent (sd : bool) (t : tree) (xm : xmap) (rp : list key) (k : key) (ks : list key) :
  memo_sound t xm -> sd = true \/ ks = [] ->
  find sd t xm rp k ks = find0 sd t (fun p => stars (xget xm p)) rp k ks.
Proof. intros Hs Hc. exact (find_memo_eq sd t xm ks Hs Hc rp k). Qed.
Print Assumptions C05_memo_transparent.

(* the three exact writes are invisible to every request (formerly a premise) *)
Theorem C05_neutral (R : Type) (t : tree) (xm xm' : xmap) (pr : prog R) :
  memo_sound t xm -> nstar t xm xm' -> exec true pr t xm' = exec true pr t xm.
Proof. intros Hs Hn. exact (exec_neutral true t xm xm' Hs Hn pr (okprog_true pr)). Qed.
Print Assumptions C05_neutral.

(* sequences: any finite sequence of requests (repeats, different classes, classes used by earlier
   ones) gives at every step the result of that request on the initial state (a fresh parse: empty
   memos, `fresh_sound`) — no premise about results *)
Theorem C05_sequences (R : Type) (prog_of : path -> prog R)
    (ps : list path) (st st' : world * xmap) (rs : list R) (t0 : tree) :
  nth_error (fst st) 0 = Some t0 -> memo_sound t0 (snd st) ->
  fseq R prog_of true true st ps st' rs -> rs = map (fun p => exec true (prog_of p) t0 (snd st)) ps.
Proof.
  intros Ht Hs Hseq.
  exact (sequences_gen R prog_of true (fun p => okprog_true (prog_of p)) ps st st' rs Hseq t0 (snd st) Ht Hs
                       (nstar_refl t0 (snd st))).
Qed.
Print Assumptions C05_sequences.

(* the code before fixes/C05_import_dotted.diff (sd = false; known finding dotted-name-through-unqualified-
   import): the memo IS visible to a dotted lookup (witness), and the sequence theorem holds for the
   requests whose lookups through the parsed tree are all simple names *)
Theorem C05_dotted_refuted :
  memo_sound exd_tree exd_xm0 /\ nstar exd_tree exd_xm0 exd_xm1 /\
  find false exd_tree exd_xm0 [5] 2 [3] = Some [1; 2] /\
  find false exd_tree exd_xm1 [5] 2 [3] = Some [1; 2; 3] /\
  find true exd_tree exd_xm0 [5] 2 [3] = Some [1; 2; 3] /\
  find true exd_tree exd_xm1 [5] 2 [3] = Some [1; 2; 3].
Proof. exact dotted_refuted. Qed.
Print Assumptions C05_dotted_refuted.

Theorem C05_sequences_carved (R : Type) (prog_of : path -> prog R)
    (ps : list path) (st st' : world * xmap) (rs : list R) (t0 : tree) :
  (forall p, okprog false (prog_of p)) ->
  nth_error (fst st) 0 = Some t0 -> memo_sound t0 (snd st) ->
  fseq R prog_of false true st ps st' rs -> rs = map (fun p => exec false (prog_of p) t0 (snd st)) ps.
Proof.
  intros Hok Ht Hs Hseq.
  exact (sequences_gen R prog_of false Hok ps st st' rs Hseq t0 (snd st) Ht Hs (nstar_refl t0 (snd st))).
Qed.
Print Assumptions C05_sequences_carved.

(* the lookup of an existing class with copy=True is C06's detached copy: a new tree with the
   same names and content whose root keeps the ORIGINAL parent *)
Theorem C05_lookup_copy (w : world) (p : path) (i0 : info) (rest : list (path * info)) :
  wf_at w (0, p) i0 rest -> get w (0, p) <> None ->
  lookup true w p = Some (w ++ [spec_copy (length w) i0 rest], (length w, [])).
Proof. exact (lookup_copy_shape w p i0 rest). Qed.
Print Assumptions C05_lookup_copy.

(* copy=False (tree.py before bc8343b): a footprint-conforming flatten (a symbol of the
   requested class consumed in place) makes the second identical request differ *)
Theorem C05_refuted :
  exists st st1 st2 p r1 r2,
    fseq (option cdata) ex5_prog true false st [p; p] st2 [r1; r2] /\
    fstep (option cdata) ex5_prog true false st p st1 r1 /\ r1 <> r2.
Proof. exact refuted_no_copy. Qed.
Print Assumptions C05_refuted.

(* non-vacuity: a package with two unqualified imports; the first request memoises the reference
   found (NS_memo), a constant is modified in place (NS_const); the second request returns the same *)
Definition ex5_lib : tree :=
  [ ([], Info (CD [] 0) None None);
    ([1], Info (CD [] 0) (Some (0, [])) None); ([1; 7], Info (CD [3] 1) (Some (0, [1])) None);
    ([2], Info (CD [] 0) (Some (0, [])) None); ([2; 8], Info (CD [4] 1) (Some (0, [2])) None);
    ([5], Info (CD [] 0) (Some (0, [])) None); ([5; 6], Info (CD [9] 0) (Some (0, [5])) None) ].
Definition ex5_xm : xmap := [ ([5], Ext [[1]; [2]] [] [(3, CSym 0 10 (Some 11))] false) ].
Definition ex5_prog2 (p : path) : prog (option path * option nat) :=
  AskFind [6; 5] 7 [] (fun a => AskConst [5] 3 (fun b => Ret (a, b))).

Example C05_example :
  memo_sound ex5_lib ex5_xm /\
  exists st', fseq _ ex5_prog2 true true ([ex5_lib], ex5_xm) [[5; 6]; [5; 6]] st'
                   [(Some [1; 7], Some 11); (Some [1; 7], Some 11)] /\
              snd st' <> ex5_xm.
Proof.
  split; [apply fresh_sound; intros p; unfold xget, ex5_xm; cbn [assoc];
          destruct (path_dec p [5]); reflexivity|].
  set (xm1 := xset ex5_xm [5] (Ext [[1]; [2]] [(7, [1; 7])] [(3, CSym 0 10 (Some 11))] false)).
  set (xm2 := xset xm1 [5] (Ext [[1]; [2]] [(7, [1; 7])] [(3, CSym 3 11 None); (3, CSym 0 10 (Some 11))] false)).
  assert (N : nstar ex5_lib ex5_xm xm2).
  { eapply nstar_step; [exact (NS_memo ex5_lib ex5_xm [5] 7 [1; 7] eq_refl)|].
    eapply nstar_step; [exact (NS_const ex5_lib xm1 [5] 3 (CSym 0 10 (Some 11)) 3 eq_refl)|].
    apply nstar_refl. }
  assert (F : forall w c, footprint (w ++ [c]) (length w, []) (w ++ [c])).
  { intros w c. split; [apply le_n|]. intros ti t1 H. exists t1. repeat split; auto. }
  set (c1 := copy_ents fixed_flags 1 0 [5; 6] [] [([], Info (CD [9] 0) (Some (0, [5])) None)]).
  set (c2 := copy_ents fixed_flags 2 0 [5; 6] [] [([], Info (CD [9] 0) (Some (0, [5])) None)]).
  exists ([ex5_lib; c1; c2], xm2).
  split; [|intros H; discriminate H].
  apply fseq_cons with (st1 := ([ex5_lib; c1], xm2)).
  - exists ex5_lib. split; [reflexivity|]. split; [reflexivity|]. split; [exact N|].
    cbn [fst snd]. change (lookup true [ex5_lib] [5; 6]) with (Some ([ex5_lib] ++ [c1], (1, @nil key))).
    apply (F [ex5_lib]).
  - apply fseq_cons with (st1 := ([ex5_lib; c1; c2], xm2)); [|apply fseq_nil].
    exists ex5_lib. split; [reflexivity|]. split; [vm_compute; reflexivity|]. split; [apply nstar_refl|].
    cbn [fst snd]. change (lookup true [ex5_lib; c1] [5; 6]) with (Some ([ex5_lib; c1] ++ [c2], (2, @nil key))).
    apply (F [ex5_lib; c1]).
Qed.
Print Assumptions C05_example.
