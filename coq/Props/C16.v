(* C16 — alias elimination merges variable metadata soundly.
   Property theorems only; proofs live in Proofs/C16_merge.v.  `merge c als` is the model of the
   loop of Model.simplify() that folds the aliases `als` (in the set's iteration order) into the
   canonical variable `c`; `live als` are the aliases not skipped as "handled in a previous pass". *)
From Coq Require Import QArith Qcanon List Bool Permutation.
From PV Require Import Model.C16_merge Proofs.C16_merge.
Import ListNotations.

(* BOUNDS, semantically: a value x of the canonical variable lies in the merged interval iff it lies
   in the canonical's own interval and, for every alias, the alias' value (x, or -x for a negative
   alias) lies in that alias' own interval.  I.e. the result is the intersection, min and max being
   swapped and negated for negative aliases.  Any number of aliases, any order, infinite bounds. *)
Theorem C16_bounds_intersection (c : var) (als : list alias) (x : Qc) :
  inb x (merge c als) = inb x c && forallb (fun a => inb (sgn (aneg a) x) (avar a)) (live als).
Proof. exact (bounds_intersection c als x). Qed.
Print Assumptions C16_bounds_intersection.

(* BOUNDS, as a formula: min' is a member of {min_c, smin(a_i)...} that dominates all of them (their
   maximum); max' is the minimum of {max_c, smax(a_i)...}; smin/smax swap and negate for "-alias" *)
Theorem C16_bounds_formula (c : var) (als : list alias) :
  let lo := vmin c :: map smin (live als) in
  let hi := vmax c :: map smax (live als) in
  (In (vmin (merge c als)) lo /\ forall e, In e lo -> eleb e (vmin (merge c als)) = true) /\
  (In (vmax (merge c als)) hi /\ forall e, In e hi -> eleb (vmax (merge c als)) e = true).
Proof. exact (bounds_formula c als). Qed.
Print Assumptions C16_bounds_formula.

(* NOMINAL: the largest among the canonical's and the aliases' nominals *)
Theorem C16_nominal (c : var) (als : list alias) :
  let ns := vnom c :: map (fun a => vnom (avar a)) (live als) in
  In (vnom (merge c als)) ns /\ forall n, In n ns -> (n <= vnom (merge c als))%Qc.
Proof. exact (nominal_largest c als). Qed.
Print Assumptions C16_nominal.

(* FIXED: fixed iff the canonical or any (non-skipped) alias is fixed *)
Theorem C16_fixed (c : var) (als : list alias) :
  vfixed (merge c als) = true <->
  vfixed c = true \/ exists a, In a als /\ skipped a = false /\ vfixed (avar a) = true.
Proof. exact (fixed_any c als). Qed.
Print Assumptions C16_fixed.

(* START: an own start value is kept, whatever the aliases say ... *)
Theorem C16_start_kept (c : var) (als : list alias) (s : Qc) :
  vstart c = Some s -> vstart (merge c als) = Some s.
Proof. exact (start_kept c als s). Qed.
Print Assumptions C16_start_kept.

(* ... and without an own start the result is the sign-adjusted explicit start of an alias (the first
   one in iteration order that has one), or stays "default" when no alias has an explicit start *)
Theorem C16_start_taken (c : var) (als : list alias) :
  vstart c = None ->
  (vstart (merge c als) = None /\
   forall a, In a als -> skipped a = false -> vstart (avar a) = None)
  \/
  (exists l1 a l2 s, als = l1 ++ a :: l2 /\ skipped a = false /\ vstart (avar a) = Some s /\
     (forall b, In b l1 -> skipped b = false -> vstart (avar b) = None) /\
     vstart (merge c als) = Some (sgn (aneg a) s)).
Proof. exact (start_taken c als). Qed.
Print Assumptions C16_start_taken.

(* ORDER INDEPENDENCE (the code iterates a Python set): bounds, nominal, fixed and the presence of a
   start value do not depend on the iteration order.  (Which alias' start is taken does depend on
   it when several aliases carry different explicit starts; the property allows any of them.) *)
Theorem C16_order_independent (c : var) (als als' : list alias) :
  Permutation als als' ->
  vmin (merge c als) = vmin (merge c als') /\
  vmax (merge c als) = vmax (merge c als') /\
  vnom (merge c als) = vnom (merge c als') /\
  vfixed (merge c als) = vfixed (merge c als') /\
  (vstart (merge c als) = None <-> vstart (merge c als') = None).
Proof. exact (merge_perm c als als'). Qed.
Print Assumptions C16_order_independent.

(* a later pass in which every alias was already handled changes nothing *)
Theorem C16_repeat_pass_identity (c : var) (als : list alias) :
  forallb skipped als = true -> merge c als = c.
Proof. exact (merge_all_skipped c als). Qed.
Print Assumptions C16_repeat_pass_identity.

(* non-vacuity (test/models/NegativeAlias.mo plus a positive alias that supplies the start):
   x(min=0,max=3,nominal=10), alias = -x with (min=-2,max=-1,nominal=1,fixed), b = x with start 4
   gives x in [1,2], nominal 10, fixed, start 4; and -3/2 is NOT in the merged interval although it
   lies in the negative alias' own interval *)
Example C16_example :
  let q (n : Z) (d : positive) := Q2Qc (n # d) in
  let x := Var (Fin (q 0%Z 1%positive)) (Fin (q 3%Z 1%positive)) (q 10%Z 1%positive) false None in
  let a := Alias true false false (Var (Fin (q (-2)%Z 1%positive)) (Fin (q (-1)%Z 1%positive)) (q 1%Z 1%positive) true None) in
  let b := Alias false false false (Var NegInf PosInf (q 0%Z 1%positive) false (Some (q 4%Z 1%positive))) in
  var_eqb (merge x [a; b]) (Var (Fin (q 1%Z 1%positive)) (Fin (q 2%Z 1%positive)) (q 10%Z 1%positive) true (Some (q 4%Z 1%positive))) = true /\
  inb (q 3%Z 2%positive) (merge x [a; b]) = true /\ inb (q (-3)%Z 2%positive) (merge x [a; b]) = false /\
  inb (q (-3)%Z 2%positive) (avar a) = true.
Proof. vm_compute. repeat split. Qed.
Print Assumptions C16_example.
