(* C06 — deep copies of a tree are independent of the original.
   Property theorems only; proofs live in Proofs/C06_deepcopy.v.  All positive statements are
   about the model with flags = fixed_flags, i.e. Class.__deepcopy__ as coded in /repo now (the
   run-time tie run/C06/Tie_C06.v checks that the flags read from ast.py are these). *)
From Coq Require Import List Arith Bool Lia.
From PV Require Import Lib.ObjGraph Model.C06_deepcopy Proofs.C06_deepcopy Proofs.C06_reach.
Import ListNotations.

(* copy.deepcopy of ANY class object (a Tree, a copy, or the class found by
   find_class(copy=True)) whose owned classes point to their owners: a new tree is appended, with the
   same class names and content; every owned class's parent is its owner IN THE COPY and no
   object of the copy carries a hook; the copy's root keeps the source root's parent (None for
   a Tree; the original parent for find_class(copy=True): a detached subtree sharing only that
   pointer). *)
Theorem C06_iso (w : world) (a : addr) (i0 : info) (rest : list (path * info)) :
  wf_at w a i0 rest ->
  exists c, deepcopy fixed_flags w a = Some (w ++ [c]) /\
            erase c = erase (([], i0) :: rest) /\
            closed_below (length w) c /\
            assoc [] c = Some (Info (dat i0) (par i0) None).
Proof.
  intros H. exists (spec_copy (length w) i0 rest). split; [exact (deepcopy_spec w a i0 rest H)|].
  split; [exact (spec_copy_iso _ _ _)|]. split; [|reflexivity].
  destruct H as (_ & _ & _ & Hr). exact (spec_copy_closed_below _ _ _ _ _ _ Hr).
Qed.
Print Assumptions C06_iso.

(* disjointness: whatever the flags, a deepcopy only appends (every existing tree is left as it
   was), and for the code as it is the copy of a Tree is self-contained: every parent pointer
   stored in it is an address inside the copy *)
Theorem C06_disjoint (w : world) (ti : nat) (i0 : info) (rest : list (path * info)) :
  (forall fl a w', deepcopy fl w a = Some w' -> exists c, w' = w ++ [c]) /\
  (wf_at w (ti, []) i0 rest -> par i0 = None ->
   exists c, deepcopy fixed_flags w (ti, []) = Some (w ++ [c]) /\ closed_tree (length w) c).
Proof.
  split; [intros fl a w' H; exact (deepcopy_frame fl w a w' H)|].
  intros H Hp. exists (spec_copy (length w) i0 rest). split; [exact (deepcopy_spec _ _ _ _ H)|].
  destruct H as (_ & _ & _ & Hr). exact (spec_copy_closed_tree _ _ _ _ _ _ Hr Hp).
Qed.
Print Assumptions C06_disjoint.

(* edits: after copying a parsed tree, ANY later sequence of add_class / remove_class / content
   edits (symbols, equations) and further deepcopies that is not addressed to one side leaves
   everything class lookup can reach from any class of that side (see = any walk over
   `.classes[name]` / `.parent`) exactly as it was — for the copy and for the original *)
Theorem C06_edits (w : world) (ti : nat) (t : tree) (i0 : info) (rest : list (path * info)) (ops : list op) :
  nth_error w ti = Some t -> wf_at w (ti, []) i0 rest -> par i0 = None ->
  exists c, deepcopy fixed_flags w (ti, []) = Some (w ++ [c]) /\
    erase c = erase t /\ closed_tree (length w) c /\
    ((forall o, In o ops -> ~ touches o (length w)) ->
       forall p ss, see (run fixed_flags ops (w ++ [c])) (length w, p) ss = see (w ++ [c]) (length w, p) ss) /\
    ((forall o, In o ops -> ~ touches o ti) ->
       forall p ss, see (run fixed_flags ops (w ++ [c])) (ti, p) ss = see w (ti, p) ss).
Proof. exact (copy_independent w ti t i0 rest ops). Qed.
Print Assumptions C06_edits.

(* copy of a copy: copies THE COPY (same names and content as the copy, whatever was edited in
   it since — the statement is for an arbitrary world), again closed *)
Theorem C06_copy_of_copy (w : world) (a : addr) (i0 : info) (rest : list (path * info)) :
  wf_at w a i0 rest -> (forall pa, par i0 = Some pa -> fst pa < length w) ->
  let c := spec_copy (length w) i0 rest in
  deepcopy fixed_flags w a = Some (w ++ [c]) /\
  exists c', deepcopy fixed_flags (w ++ [c]) (length w, []) = Some ((w ++ [c]) ++ [c']) /\
    erase c' = erase c /\ closed_below (S (length w)) c' /\
    (par i0 = None -> closed_tree (S (length w)) c').
Proof.
  intros H Hsc c. split; [exact (deepcopy_spec w a i0 rest H)|]. exact (copy_of_copy w a i0 rest H Hsc).
Qed.
Print Assumptions C06_copy_of_copy.

(* ---- reachable worlds ------------------------------------------------------------------------
   wf_tree (Proofs/C06_reach.v) is what the parser leaves (root first, every class after its owner with
   parent = owner, one entry per name path, no hooks).  EVERY operation of the model — deepcopy of any
   class (Tree, copy, find_class(copy=True)), add_class, remove_class, symbol/equation edits, on any
   tree — preserves it, so every world reachable by any history from a parsed tree is well-formed. *)
Theorem C06_reachable_wf (t0 : tree) (ops : list op) :
  wf_tree 0 t0 -> wf_world (run fixed_flags ops [t0]).
Proof. exact (reachable_wf t0 ops). Qed.
Print Assumptions C06_reachable_wf.

(* C06_iso / C06_disjoint / C06_copy_of_copy in every reachable world, for every live class object *)
Theorem C06_reachable_copy (t0 : tree) (ops : list op) (a : addr) (i0 : info) (rest : list (path * info)) :
  wf_tree 0 t0 ->
  let w := run fixed_flags ops [t0] in
  src_of w a = Some (i0, rest) ->
  exists c, deepcopy fixed_flags w a = Some (w ++ [c]) /\
    erase c = erase (([], i0) :: rest) /\ closed_below (length w) c /\
    assoc [] c = Some (Info (dat i0) (par i0) None) /\
    (par i0 = None -> closed_tree (length w) c) /\
    wf_world (w ++ [c]) /\
    exists c', deepcopy fixed_flags (w ++ [c]) (length w, []) = Some ((w ++ [c]) ++ [c']) /\
               erase c' = erase c /\ closed_below (S (length w)) c'.
Proof.
  intros H0 w S. pose proof (reachable_wf t0 ops H0) as Hw. fold w in Hw.
  destruct a as [ti p].
  assert (exists t, nth_error w ti = Some t) as (t & Ht).
  { unfold src_of in S. cbn [fst] in S. destruct (nth_error w ti); [eauto|discriminate]. }
  destruct (wf_src w ti t p i0 rest Ht (Hw _ _ Ht) S) as (Hat & Hle & _ & _).
  assert (Hlt : ti < length w) by (apply nth_error_Some; congruence).
  assert (Hsc : forall pa, par i0 = Some pa -> fst pa < length w) by (intros pa E; specialize (Hle _ E); lia).
  pose proof (deepcopy_spec _ _ _ _ Hat) as Hd.
  exists (spec_copy (length w) i0 rest). split; [exact Hd|].
  pose proof Hat as (_ & _ & _ & Hr). cbn [fst snd] in Hr.
  split; [apply spec_copy_iso|]. split; [eapply spec_copy_closed_below; eauto|].
  split; [reflexivity|]. split; [intros Hp; eapply spec_copy_closed_tree; eauto|].
  split; [eapply deepcopy_wf; eauto|].
  destruct (copy_of_copy w (ti, p) i0 rest Hat Hsc) as (c' & Hd' & He & Hc & _).
  exists c'. auto.
Qed.
Print Assumptions C06_reachable_copy.

(* history-level independence (the property's sentence, for histories): in any reachable world, copy
   a self-contained tree A (the parsed tree, a copy, a copy of a copy ...) giving B; then after ANY
   interleaving `ops` of edits addressed to A, to B or to other trees, further deepcopies and
   find_class(copy=True), the tree A and everything lookup reaches from any class of A are exactly what
   the sub-history of the operations addressed to A alone produces — and likewise for B. *)
Theorem C06_history_independent (t0 : tree) (ops0 ops : list op) (ta : nat) :
  wf_tree 0 t0 ->
  let w := run fixed_flags ops0 [t0] in
  root_none w ta ->
  exists c, deepcopy fixed_flags w (ta, []) = Some (w ++ [c]) /\
    let w1 := w ++ [c] in
    let tb := length w in
    let full := run fixed_flags ops w1 in
    let onlyA := run fixed_flags (filter (touchesb ta) ops) w1 in
    let onlyB := run fixed_flags (filter (touchesb tb) ops) w1 in
    (nth_error full ta = nth_error onlyA ta /\ forall p ss, see full (ta, p) ss = see onlyA (ta, p) ss) /\
    (nth_error full tb = nth_error onlyB tb /\ forall p ss, see full (tb, p) ss = see onlyB (tb, p) ss).
Proof.
  intros H0 w Hr. pose proof (reachable_wf t0 ops0 H0) as Hw. fold w in Hw.
  destruct (copy_root_none w ta Hw Hr) as (c & Hd & HrB & HrA & Hw1 & _).
  exists c. split; [exact Hd|]. cbn zeta. split.
  - exact (history_projection (w ++ [c]) ta ops Hw1 HrA).
  - exact (history_projection (w ++ [c]) (length w) ops Hw1 HrB).
Qed.
Print Assumptions C06_history_independent.

(* the same for any self-contained tree of any reachable world and any further history *)
Theorem C06_history_projection (t0 : tree) (ops0 ops : list op) (ti : nat) :
  wf_tree 0 t0 ->
  let w := run fixed_flags ops0 [t0] in
  root_none w ti ->
  nth_error (run fixed_flags ops w) ti = nth_error (run fixed_flags (filter (touchesb ti) ops) w) ti /\
  forall p ss, see (run fixed_flags ops w) (ti, p) ss = see (run fixed_flags (filter (touchesb ti) ops) w) (ti, p) ss.
Proof.
  intros H0 w Hr. exact (history_projection w ti ops (reachable_wf t0 ops0 H0) Hr).
Qed.
Print Assumptions C06_history_projection.

(* ---- the code before 08ba236: both parts fail (finite witnesses, by computation) ---- *)
Definition ex_tree : tree :=
  [ ([], Info (CD [] 0) None None);
    ([1], Info (CD [1; 2] 1) (Some (0, [])) None);
    ([1; 2], Info (CD [3] 0) (Some (0, [1])) None);
    ([3], Info (CD [] 2) (Some (0, [])) None) ].

(* guard `self.parent not in memo`: the owned classes of the copy keep parent = the ORIGINAL,
   so an edit of the original is seen from the copy *)
Example C06_refuted_parent :
  let fl := Flags false true in
  let w1 := run fl [DeepCopy (0, [])] [ex_tree] in
  get w1 (1, [1]) = Some (Info (CD [1; 2] 1) (Some (0, [])) None) /\
  ~ touches (SetData (0, []) (CD [9] 0)) 1 /\
  see (apply_op fl w1 (SetData (0, []) (CD [9] 0))) (1, [1]) [Up] <> see w1 (1, [1]) [Up].
Proof. vm_compute. repeat split; intros H; discriminate H. Qed.
Print Assumptions C06_refuted_parent.

(* hook `new.__deepcopy__ = _deepcp`: copying the (edited) copy reproduces the original *)
Example C06_refuted_hook :
  let fl := Flags true false in
  let w3 := run fl [DeepCopy (0, []); SetData (1, [1]) (CD [7] 5); DeepCopy (1, [])] [ex_tree] in
  option_map dat (get w3 (1, [1])) = Some (CD [7] 5) /\
  option_map dat (get w3 (2, [1])) = Some (CD [1; 2] 1).
Proof. vm_compute. split; reflexivity. Qed.
Print Assumptions C06_refuted_hook.

(* non-vacuity: a nested tree satisfies the hypotheses, for the root and for an inner class *)
Example C06_example :
  wf_at [ex_tree] (0, []) (Info (CD [] 0) None None)
        [ ([1], Info (CD [1; 2] 1) (Some (0, [])) None);
          ([1; 2], Info (CD [3] 0) (Some (0, [1])) None);
          ([3], Info (CD [] 2) (Some (0, [])) None) ] /\
  wf_at [ex_tree] (0, [1]) (Info (CD [1; 2] 1) (Some (0, [])) None)
        [ ([2], Info (CD [3] 0) (Some (0, [1])) None) ].
Proof.
  split; (split; [reflexivity|]); (split; [reflexivity|]); (split; [intros H; discriminate H|]);
    cbn; repeat split; auto; intros H; discriminate H.
Qed.
Print Assumptions C06_example.

(* the parsed-tree hypothesis of the reachable-world theorems is satisfiable *)
Example C06_example_wf : wf_tree 0 ex_tree /\ root_none [ex_tree] 0.
Proof.
  split.
  - eexists _, _. split; [reflexivity|]. split; [reflexivity|]. split; [intros pa H; discriminate H|]. split.
    + cbn. repeat split; auto; intros H; discriminate H.
    + cbn. repeat constructor; cbn; intuition discriminate.
  - eexists _, _. split; reflexivity.
Qed.
Print Assumptions C06_example_wf.

(* the hypothesis `wf_tree 0 t0` is decided by the boolean that the correspondence evaluates on every
   real parsed tree (check_case = wf_treeb 0 t0 && ...) *)
Theorem C06_parsed_tree_check (ti : nat) (t : tree) : wf_treeb ti t = true -> wf_tree ti t.
Proof. exact (wf_treeb_sound ti t). Qed.
Print Assumptions C06_parsed_tree_check.
