(* C12 — representation-only options do not change the model's meaning.
   Property theorems only; proofs live in Proofs/C12_options.v.

   The statements are about the model of Model/C12_options.v: `compile flags other m` is
   api.transfer_model (generate + Model.simplify) with the three flags threaded exactly where
   the code reads them; that the code reads them NOWHERE ELSE is checked on every run by the
   data-flow scan of vlib/c12.py (side condition `sites_ok` evaluated in the run directory).
   The models range over scalars, 1-D and 2-D arrays, for-equations with loop-index subscripts,
   user functions of two scalars AND user functions with whole-array arguments (a matrix, a
   vector, a scalar) whose for-statements read row / column slices and elements by the loop
   index, the mapped loop body seeing one column per iteration.
   `strategies_ok` is CasADi's contract for map / call / expand (trusted, see level_note):
     (1) mapS   m1 b1 vals rho = mapS m2 b2 vals rho       whenever b1, b2 agree pointwise
     (2) imapS  m1 f vals      = imapS m2 f vals
     (3) callS  c1 F1 a b k    = callS c2 F2 a b k         whenever F1, F2 agree pointwise
     (4) icallS c1 F n         = icallS c2 F n
     (5) expandS F rho         = F rho
     (6) callMS c1 F1 M v x k  = callMS c2 F2 M v x k      whenever F1, F2 agree pointwise
   (6) is (3) for functions called with whole arrays M (matrix), v (vector) and a scalar x. *)
From Coq Require Import ZArith QArith Qcanon List Bool Arith.
Import ListNotations.
From PV Require Import Model.C11_residual Model.C12_options Proofs.C12_options.

(* For every flat model, every pair of flag triples and every option set without simplification
   option and cache: both compilations succeed, the variable lists (names, order, per category,
   outputs included), the delay states and the types/prefixes of the variables are LITERALLY
   equal and the four output functions agree at every input. *)
Theorem C12_noninterference
  (mapS : mapmode -> (Z -> nat -> env -> list (option Qc)) -> list Z -> env -> list (list (option Qc)))
  (imapS : mapmode -> (Z -> Z) -> list Z -> list Z)
  (callS : callmode -> (Qc -> Qc -> nat -> option Qc) -> Qc -> Qc -> nat -> option Qc)
  (icallS : callmode -> (Z -> Z) -> Z -> Z)
  (expandS : (env -> list (option Qc)) -> env -> list (option Qc))
  (callMS : callmode -> ((Z -> Z -> Qc) -> (Z -> Qc) -> Qc -> nat -> option Qc) ->
            (Z -> Z -> Qc) -> (Z -> Qc) -> Qc -> nat -> option Qc)
  (P1 P2 P3 P4 : gmodel -> gmodel) (P5 : bool -> gmodel -> gmodel) :
  strategies_ok mapS imapS callS icallS expandS callMS ->
  forall (o : other) (m : smodel) (f1 f2 : flags),
  no_simpl o = true ->
  exists g1 g2,
    compile imapS icallS P1 P2 P3 P4 P5 f1 o m = Ok g1 /\
    compile imapS icallS P1 P2 P3 P4 P5 f2 o m = Ok g2 /\
    g_lists g1 = g_lists g2 /\ g_delay_states g1 = g_delay_states g2 /\ g_types g1 = g_types g2 /\
    (forall rho, dae_residual_function mapS callS expandS callMS g1 rho = dae_residual_function mapS callS expandS callMS g2 rho) /\
    (forall rho, initial_residual_function mapS callS expandS callMS g1 rho = initial_residual_function mapS callS expandS callMS g2 rho) /\
    (forall rho, variable_metadata_function mapS callS expandS callMS g1 rho = variable_metadata_function mapS callS expandS callMS g2 rho) /\
    (forall rho, delay_arguments_function mapS callS expandS callMS g1 rho = delay_arguments_function mapS callS expandS callMS g2 rho).
Proof.
  intros Hs o m f1 f2 Ho.
  exact (noninterference mapS imapS callS icallS expandS callMS P1 P2 P3 P4 P5 Hs o m f1 f2 Ho).
Qed.
Print Assumptions C12_noninterference.

(* The array-function fragment read on its own: the dae residual of the model transfer_model
   returns (expanded or not) is the same function under any two flag triples.  It is the
   instance of C12_noninterference for the sub-language SCallM / SM / SL2 / SDL / s_mfuns, kept
   as a named corollary because the correspondence of this fragment is VALUE-LEVEL
   (check_case_val): the model's residuals equal the real ones exactly at dyadic points under
   each flag triple, so the per-iteration slices the mapped body sees are tied to the code. *)
Theorem C12_noninterference_matrix
  (mapS : mapmode -> (Z -> nat -> env -> list (option Qc)) -> list Z -> env -> list (list (option Qc)))
  (imapS : mapmode -> (Z -> Z) -> list Z -> list Z)
  (callS : callmode -> (Qc -> Qc -> nat -> option Qc) -> Qc -> Qc -> nat -> option Qc)
  (icallS : callmode -> (Z -> Z) -> Z -> Z)
  (expandS : (env -> list (option Qc)) -> env -> list (option Qc))
  (callMS : callmode -> ((Z -> Z -> Qc) -> (Z -> Qc) -> Qc -> nat -> option Qc) ->
            (Z -> Z -> Qc) -> (Z -> Qc) -> Qc -> nat -> option Qc) :
  strategies_ok mapS imapS callS icallS expandS callMS ->
  forall (m : smodel) (f1 f2 : flags) (rho : env),
  dae_residual_function mapS callS expandS callMS
    (if expand_mx f1 then set_expand (gen imapS icallS f1 m) else gen imapS icallS f1 m) rho
  = dae_residual_function mapS callS expandS callMS
    (if expand_mx f2 then set_expand (gen imapS icallS f2 m) else gen imapS icallS f2 m) rho.
Proof.
  intros Hs m f1 f2 rho.
  destruct (noninterference mapS imapS callS icallS expandS callMS (fun g => g) (fun g => g) (fun g => g) (fun g => g)
              (fun _ g => g) Hs plain m f1 f2 eq_refl) as (g1 & g2 & H1 & H2 & _ & _ & _ & Hd & _).
  rewrite (compile_plain imapS icallS _ _ _ _ _ f1 plain m eq_refl) in H1.
  rewrite (compile_plain imapS icallS _ _ _ _ _ f2 plain m eq_refl) in H2.
  injection H1 as <-. injection H2 as <-. apply Hd.
Qed.
Print Assumptions C12_noninterference_matrix.

(* Attribute expressions that do not call user functions are generated literally equal
   (with calls they differ in the inline tag of the call node only, and C12_noninterference gives
   the equality of the metadata function). *)
Theorem C12_metadata_literal
  (mapS : mapmode -> (Z -> nat -> env -> list (option Qc)) -> list Z -> env -> list (list (option Qc)))
  (imapS : mapmode -> (Z -> Z) -> list Z -> list Z)
  (callS : callmode -> (Qc -> Qc -> nat -> option Qc) -> Qc -> Qc -> nat -> option Qc)
  (icallS : callmode -> (Z -> Z) -> Z -> Z)
  (expandS : (env -> list (option Qc)) -> env -> list (option Qc))
  (callMS : callmode -> ((Z -> Z -> Qc) -> (Z -> Qc) -> Qc -> nat -> option Qc) ->
            (Z -> Z -> Qc) -> (Z -> Qc) -> Qc -> nat -> option Qc) :
  strategies_ok mapS imapS callS icallS expandS callMS ->
  forall (m : smodel) (f1 f2 : flags),
  forallb (fun d => forallb call_free (d_attrs d)) (s_decls m) = true ->
  g_attrs (gen imapS icallS f1 m) = g_attrs (gen imapS icallS f2 m).
Proof. intros Hs m f1 f2 H. exact (metadata_literal mapS imapS callS icallS expandS callMS Hs m f1 f2 H). Qed.
Print Assumptions C12_metadata_literal.

(* The hypothesis `no_simpl` cannot be dropped: with eliminable_variable_expression set the
   flag expand_mx decides between an exception and a model (model.py:731).
   NOT proved (the passes are opaque in this model): C12_expand_commutes of DESIGN.md, i.e. the
   intra-array alias stream with {expand_vectors, detect_aliases} fixed stays oracle-only. *)
Theorem C12_flags_matter_with_eliminable
  (imapS : mapmode -> (Z -> Z) -> list Z -> list Z) (icallS : callmode -> (Z -> Z) -> Z -> Z)
  (P1 P2 P3 P4 : gmodel -> gmodel) (P5 : bool -> gmodel -> gmodel) (m : smodel) :
  exists o, compile imapS icallS P1 P2 P3 P4 P5 (mkFlags true true false) o m = Err 1%nat /\
            exists g, compile imapS icallS P1 P2 P3 P4 P5 (mkFlags true true true) o m = Ok g.
Proof. exact (eliminable_needs_expand imapS icallS P1 P2 P3 P4 P5 m). Qed.
Print Assumptions C12_flags_matter_with_eliminable.

(* non-vacuity: the reference strategies (apply iteration by iteration, call = apply,
   expand = identity) satisfy the contract *)
Example C12_strategies_example : strategies_ok mapR imapR callR icallR expandR callMR.
Proof. exact reference_strategies_ok. Qed.
Print Assumptions C12_strategies_example.

(* a concrete non-trivial model (the corpus model of vlib/c12.py: two user functions with if- and
   for-statements, for-equations with offset / reversed / scaled / squared subscripts and a call,
   plain and in-loop delays, an array of dimension n-3 = 0, an attribute calling a function): the
   model compiles under two different flag triples to the lists / delay inputs / residual lengths
   the REAL transfer_model produced *)
Open Scope Qc_scope.
Definition corpus_model : smodel :=
  (mkSmodel [(mkDecl (C10.mkSym 0%nat 0%nat [C10.Kparameter] C10.TInteger false) None None [(SNum (Q2Qc (3 # 1)))]); (mkDecl (C10.mkSym 1%nat 1%nat [] C10.TReal false) None None [(SNum (Q2Qc (1 # 1))); (SNeg (SRef (SV 10%nat))); (SCall 0%nat (SRef (SV 10%nat)) (SNum (Q2Qc (2 # 1))) 0%nat)]); (mkDecl (C10.mkSym 2%nat 2%nat [] C10.TReal false) None None []); (mkDecl (C10.mkSym 3%nat 3%nat [] C10.TReal false) None None []); (mkDecl (C10.mkSym 4%nat 4%nat [C10.Koutput] C10.TReal false) None None []); (mkDecl (C10.mkSym 5%nat 5%nat [] C10.TReal false) (Some (IPar 0%nat (0)%Z)) None []); (mkDecl (C10.mkSym 6%nat 6%nat [] C10.TReal false) (Some (IPar 0%nat (1)%Z)) None []); (mkDecl (C10.mkSym 7%nat 7%nat [] C10.TReal false) (Some (IPar 0%nat (-3)%Z)) None []); (mkDecl (C10.mkSym 8%nat 8%nat [] C10.TReal false) (Some (ILit (7)%Z)) None []); (mkDecl (C10.mkSym 9%nat 9%nat [C10.Kinput] C10.TReal false) None None []); (mkDecl (C10.mkSym 10%nat 10%nat [C10.Kparameter] C10.TReal false) None None [(SNum (Q2Qc (3 # 2)))]); (mkDecl (C10.mkSym 11%nat 11%nat [C10.Kparameter] C10.TReal false) None None [(SBin CMul (SRef (SV 10%nat)) (SNum (Q2Qc (2 # 1))))]); (mkDecl (C10.mkSym 12%nat 12%nat [C10.Kconstant] C10.TReal false) None None [(SNum (Q2Qc (2 # 1)))]); (mkDecl (C10.mkSym 13%nat 13%nat [] C10.TBoolean false) None None [])] (fun p => if Nat.eqb p 0%nat then (3)%Z else 0%Z) [(0%nat, mkSfun [(TAssign 4%nat (SBin CMul (SRef (SArg 0%nat)) (SRef (SArg 1%nat)))); (TAssign 2%nat (SBin CAdd (SRef (SArg 4%nat)) (SNum (Q2Qc (1 # 1))))); (TAssign 2%nat (SIf (SBin CGt (SRef (SArg 4%nat)) (SNum (Q2Qc (1 # 1)))) (SBin CAdd (SRef (SArg 2%nat)) (SNum (Q2Qc (1 # 1)))) (SBin CSub (SRef (SArg 2%nat)) (SNum (Q2Qc (1 # 1)))))); (TFor (1)%Z (ILit (3)%Z) 2%nat (SBin CAdd (SRef (SArg 2%nat)) (SBin CMul (SRef SLoop) (SRef (SArg 0%nat)))))] [2%nat]); (1%nat, mkSfun [(TAssign 4%nat (SBin CSub (SRef (SArg 0%nat)) (SRef (SArg 1%nat)))); (TAssign 2%nat (SBin CMul (SRef (SArg 4%nat)) (SNum (Q2Qc (2 # 1))))); (TAssign 3%nat (SBin CAdd (SRef (SArg 2%nat)) (SRef (SArg 1%nat)))); (TFor (1)%Z (ILit (2)%Z) 3%nat (SBin CAdd (SRef (SArg 3%nat)) (SRef SLoop)))] [2%nat; 3%nat])] [] [(MEq (SRef (SD 1%nat)) (SCall 0%nat (SRef (SV 2%nat)) (SRef (SV 9%nat)) 0%nat)); (MEq (SRef (SV 3%nat)) (SCall 1%nat (SRef (SV 1%nat)) (SRef (SV 10%nat)) 0%nat)); (MEq (SRef (SV 4%nat)) (SCall 1%nat (SRef (SV 1%nat)) (SRef (SV 10%nat)) 1%nat)); (MFor (1)%Z (IPar 0%nat (0)%Z) [((SRef (SL 5%nat (IOff (0)%Z))), (SBin CAdd (SRef (SL 6%nat (IOff (1)%Z))) (SBin CMul (SRef SLoop) (SRef (SV 1%nat)))))]); (MFor (2)%Z (IPar 0%nat (0)%Z) [((SRef (SL 6%nat (IOff (0)%Z))), (SIf (SBin CMul (SRef (SV 13%nat)) (SBin CGt (SRef (SL 5%nat (IOff (-1)%Z))) (SNum (Q2Qc (0 # 1))))) (SCall 0%nat (SRef (SL 5%nat (IOff (0)%Z))) (SRef (SV 2%nat)) 0%nat) (SRef (SV 12%nat))))]); (MForDelay (1)%Z (ILit (1)%Z) (SRef (SL 6%nat (IOff (0)%Z))) (SRef (SL 5%nat (IOff (1)%Z))) (SNum (Q2Qc (1 # 2)))); (MFor (1)%Z (ILit (2)%Z) [((SRef (SL 8%nat (IRev (4)%Z))), (SBin CSub (SRef (SL 8%nat (ILin (2)%Z (3)%Z))) (SRef (SL 8%nat ISq)))); ((SRef (SL 8%nat (ILin (2)%Z (-1)%Z))), (SBin CMul (SRef (SL 6%nat (IRev (4)%Z))) (SRef (SL 5%nat (IRev (3)%Z)))))]); (MDelay (SRef (SI 6%nat (4)%Z)) (SBin CMul (SRef (SV 2%nat)) (SRef (SV 11%nat))) (SRef (SV 10%nat))); (MEq (SRef (SV 13%nat)) (SBin CGt (SRef (SV 1%nat)) (SRef (SV 2%nat)))); (MEq (SRef (SV 2%nat)) (SBin CSub (SRef (SV 999%nat)) (SRef (SD 1%nat))))] [(MEq (SRef (SV 1%nat)) (SRef (SV 11%nat)))]).
Example C12_concrete_example :
  check_case (corpus_model,
    [ (mkFlags false false false, (Some ((C10.mkObs [1%nat] [(C10.Der 1%nat)] [2%nat; 3%nat; 4%nat; 5%nat; 6%nat; 8%nat; 13%nat] [9%nat] [0%nat; 10%nat; 11%nat] [12%nat] [] [] [4%nat]), 2%nat, (16%nat, 1%nat, 4%nat))));
      (mkFlags true false true, (Some ((C10.mkObs [1%nat] [(C10.Der 1%nat)] [2%nat; 3%nat; 4%nat; 5%nat; 6%nat; 8%nat; 13%nat] [9%nat] [0%nat; 10%nat; 11%nat] [12%nat] [] [] [4%nat]), 2%nat, (16%nat, 1%nat, 4%nat)))) ]) = true.
Proof. vm_compute. reflexivity. Qed.
Print Assumptions C12_concrete_example.

(* a concrete array-function model (function g(A, b) with a row loop and a column loop reading
   slices by the loop index, function h(A, x) with an if-statement): under three flag triples
   the model's lists and its EXACT dae / initial residuals at a dyadic point are the ones the
   REAL transfer_model produced *)
Example C12_matrix_example :
  check_case ((mkSmodel [(mkDecl (C10.mkSym 0%nat 0%nat [C10.Kparameter] C10.TReal false) None None [(SNum (Q2Qc (2 # 1)))]); (mkDecl (C10.mkSym 1%nat 1%nat [] C10.TReal false) (Some (ILit (3)%Z)) (Some (3)%Z) []); (mkDecl (C10.mkSym 2%nat 2%nat [] C10.TReal false) (Some (ILit (3)%Z)) None [(SRef (SV 0%nat)); (SBin CMul (SNum (Q2Qc (3 # 1))) (SRef (SV 0%nat)))]); (mkDecl (C10.mkSym 3%nat 3%nat [] C10.TReal false) None None []); (mkDecl (C10.mkSym 4%nat 4%nat [] C10.TReal false) None None [])] (fun _ => 0%Z) [] [(0%nat, mkSfun [(TAssign 1%nat (SRef (SM 1%nat (XK (1)%Z) (XK (1)%Z) 3%nat 1%nat))); (TFor (1)%Z (ILit (3)%Z) 1%nat (SBin CAdd (SBin CMul (SRef (SArg 1%nat)) (SNum (Q2Qc (1 # 2)))) (SRef (SM 0%nat XI (XK (1)%Z) 3%nat 3%nat)))); (TFor (1)%Z (ILit (3)%Z) 1%nat (SBin CSub (SRef (SArg 1%nat)) (SBin CAdd (SBin CMul (SRef (SM 1%nat XI (XK (1)%Z) 3%nat 1%nat)) (SRef (SM 0%nat XI XAll 3%nat 3%nat))) (SRef (SM 0%nat XI (XK (1)%Z) 3%nat 3%nat))))); (TFor (1)%Z (ILit (3)%Z) 1%nat (SBin CAdd (SRef (SArg 1%nat)) (SRef (SM 0%nat XAll XI 3%nat 3%nat))))] [1%nat]); (1%nat, mkSfun [(TAssign 1%nat (SBin CAdd (SBin CMul (SRef (SArg 0%nat)) (SRef (SM 0%nat (XK (2)%Z) (XK (1)%Z) 3%nat 3%nat))) (SRef (SM 0%nat XAll (XK (1)%Z) 3%nat 3%nat)))); (TAssign 1%nat (SIf (SBin CGt (SRef (SArg 1%nat)) (SNum (Q2Qc (1 # 1)))) (SBin CSub (SRef (SArg 1%nat)) (SRef (SM 0%nat (XK (1)%Z) (XK (1)%Z) 3%nat 3%nat))) (SBin CAdd (SRef (SArg 1%nat)) (SRef (SArg 0%nat)))))] [1%nat])] [(MEq (SRef (SV 3%nat)) (SCallM 0%nat 1%nat 2%nat (SNum (Q2Qc (0 # 1))) 0%nat)); (MEq (SRef (SV 4%nat)) (SBin CAdd (SCallM 1%nat 1%nat 2%nat (SRef (SV 3%nat)) 0%nat) (SCallM 0%nat 1%nat 2%nat (SNum (Q2Qc (0 # 1))) 0%nat))); (MFor (1)%Z (ILit (3)%Z) [((SRef (SL2 1%nat (IOff (0)%Z) (1)%Z)), (SBin CMul (SRef SLoop) (SRef (SV 999%nat)))); ((SRef (SL2 1%nat (IOff (0)%Z) (2)%Z)), (SBin CAdd (SRef (SL 2%nat (IOff (0)%Z))) (SNum (Q2Qc (2 # 1))))); ((SRef (SL2 1%nat (IOff (0)%Z) (3)%Z)), (SBin CAdd (SRef (SL 2%nat (IOff (0)%Z))) (SNum (Q2Qc (3 # 1))))); ((SRef (SDL 2%nat (IOff (0)%Z))), (SBin CMul (SNeg (SRef (SV 0%nat))) (SRef (SL 2%nat (IOff (0)%Z)))))])] [(MFor (1)%Z (ILit (3)%Z) [((SRef (SL 2%nat (IOff (0)%Z))), (SBin CMul (SRef SLoop) (SRef (SV 0%nat))))])]), [(mkFlags false false false, (Some ((C10.mkObs [2%nat] [(C10.Der 2%nat)] [1%nat; 3%nat; 4%nat] [] [0%nat] [] [] [] []), 0%nat, (14%nat, 3%nat, 0%nat)))); (mkFlags true true true, (Some ((C10.mkObs [2%nat] [(C10.Der 2%nat)] [1%nat; 3%nat; 4%nat] [] [0%nat] [] [] [] []), 0%nat, (14%nat, 3%nat, 0%nat)))); (mkFlags false true false, (Some ((C10.mkObs [2%nat] [(C10.Der 2%nat)] [1%nat; 3%nat; 4%nat] [] [0%nat] [] [] [] []), 0%nat, (14%nat, 3%nat, 0%nat))))]) = true /\
  check_case_val ((mkSmodel [(mkDecl (C10.mkSym 0%nat 0%nat [C10.Kparameter] C10.TReal false) None None [(SNum (Q2Qc (2 # 1)))]); (mkDecl (C10.mkSym 1%nat 1%nat [] C10.TReal false) (Some (ILit (3)%Z)) (Some (3)%Z) []); (mkDecl (C10.mkSym 2%nat 2%nat [] C10.TReal false) (Some (ILit (3)%Z)) None [(SRef (SV 0%nat)); (SBin CMul (SNum (Q2Qc (3 # 1))) (SRef (SV 0%nat)))]); (mkDecl (C10.mkSym 3%nat 3%nat [] C10.TReal false) None None []); (mkDecl (C10.mkSym 4%nat 4%nat [] C10.TReal false) None None [])] (fun _ => 0%Z) [] [(0%nat, mkSfun [(TAssign 1%nat (SRef (SM 1%nat (XK (1)%Z) (XK (1)%Z) 3%nat 1%nat))); (TFor (1)%Z (ILit (3)%Z) 1%nat (SBin CAdd (SBin CMul (SRef (SArg 1%nat)) (SNum (Q2Qc (1 # 2)))) (SRef (SM 0%nat XI (XK (1)%Z) 3%nat 3%nat)))); (TFor (1)%Z (ILit (3)%Z) 1%nat (SBin CSub (SRef (SArg 1%nat)) (SBin CAdd (SBin CMul (SRef (SM 1%nat XI (XK (1)%Z) 3%nat 1%nat)) (SRef (SM 0%nat XI XAll 3%nat 3%nat))) (SRef (SM 0%nat XI (XK (1)%Z) 3%nat 3%nat))))); (TFor (1)%Z (ILit (3)%Z) 1%nat (SBin CAdd (SRef (SArg 1%nat)) (SRef (SM 0%nat XAll XI 3%nat 3%nat))))] [1%nat]); (1%nat, mkSfun [(TAssign 1%nat (SBin CAdd (SBin CMul (SRef (SArg 0%nat)) (SRef (SM 0%nat (XK (2)%Z) (XK (1)%Z) 3%nat 3%nat))) (SRef (SM 0%nat XAll (XK (1)%Z) 3%nat 3%nat)))); (TAssign 1%nat (SIf (SBin CGt (SRef (SArg 1%nat)) (SNum (Q2Qc (1 # 1)))) (SBin CSub (SRef (SArg 1%nat)) (SRef (SM 0%nat (XK (1)%Z) (XK (1)%Z) 3%nat 3%nat))) (SBin CAdd (SRef (SArg 1%nat)) (SRef (SArg 0%nat)))))] [1%nat])] [(MEq (SRef (SV 3%nat)) (SCallM 0%nat 1%nat 2%nat (SNum (Q2Qc (0 # 1))) 0%nat)); (MEq (SRef (SV 4%nat)) (SBin CAdd (SCallM 1%nat 1%nat 2%nat (SRef (SV 3%nat)) 0%nat) (SCallM 0%nat 1%nat 2%nat (SNum (Q2Qc (0 # 1))) 0%nat))); (MFor (1)%Z (ILit (3)%Z) [((SRef (SL2 1%nat (IOff (0)%Z) (1)%Z)), (SBin CMul (SRef SLoop) (SRef (SV 999%nat)))); ((SRef (SL2 1%nat (IOff (0)%Z) (2)%Z)), (SBin CAdd (SRef (SL 2%nat (IOff (0)%Z))) (SNum (Q2Qc (2 # 1))))); ((SRef (SL2 1%nat (IOff (0)%Z) (3)%Z)), (SBin CAdd (SRef (SL 2%nat (IOff (0)%Z))) (SNum (Q2Qc (3 # 1))))); ((SRef (SDL 2%nat (IOff (0)%Z))), (SBin CMul (SNeg (SRef (SV 0%nat))) (SRef (SL 2%nat (IOff (0)%Z)))))])] [(MFor (1)%Z (ILit (3)%Z) [((SRef (SL 2%nat (IOff (0)%Z))), (SBin CMul (SRef SLoop) (SRef (SV 0%nat))))])]), (mkVpoint [(999%nat, (Q2Qc (-1 # 1))); (0%nat, (Q2Qc (13 # 8))); (3%nat, (Q2Qc (-9 # 8))); (4%nat, (Q2Qc (-9 # 8)))] [(2%nat, [(Q2Qc (13 # 8)); (Q2Qc (1 # 1)); (Q2Qc (-9 # 8))])] [(2%nat, [(Q2Qc (-3 # 2)); (Q2Qc (-5 # 4)); (Q2Qc (-11 # 8))])] [(1%nat, (3%nat, [(Q2Qc (-2 # 1)); (Q2Qc (-15 # 8)); (Q2Qc (3 # 2)); (Q2Qc (-3 # 2)); (Q2Qc (1 # 1)); (Q2Qc (-1 # 2)); (Q2Qc (13 # 8)); (Q2Qc (-1 # 2)); (Q2Qc (-1 # 8))]))]), [(mkFlags false false false, ([(Q2Qc (-435 # 64)); (Q2Qc (-173 # 32)); (Q2Qc (-1 # 1)); (Q2Qc (1 # 8)); (Q2Qc (9 # 2)); (Q2Qc (-41 # 8)); (Q2Qc (-2 # 1)); (Q2Qc (-11 # 8)); (Q2Qc (-3 # 1)); (Q2Qc (-9 # 2)); (Q2Qc (-2 # 1)); (Q2Qc (73 # 64)); (Q2Qc (3 # 8)); (Q2Qc (-205 # 64))], [(Q2Qc (0 # 1)); (Q2Qc (-9 # 4)); (Q2Qc (-6 # 1))])); (mkFlags true true true, ([(Q2Qc (-435 # 64)); (Q2Qc (-173 # 32)); (Q2Qc (-1 # 1)); (Q2Qc (1 # 8)); (Q2Qc (9 # 2)); (Q2Qc (-41 # 8)); (Q2Qc (-2 # 1)); (Q2Qc (-11 # 8)); (Q2Qc (-3 # 1)); (Q2Qc (-9 # 2)); (Q2Qc (-2 # 1)); (Q2Qc (73 # 64)); (Q2Qc (3 # 8)); (Q2Qc (-205 # 64))], [(Q2Qc (0 # 1)); (Q2Qc (-9 # 4)); (Q2Qc (-6 # 1))])); (mkFlags false true false, ([(Q2Qc (-435 # 64)); (Q2Qc (-173 # 32)); (Q2Qc (-1 # 1)); (Q2Qc (1 # 8)); (Q2Qc (9 # 2)); (Q2Qc (-41 # 8)); (Q2Qc (-2 # 1)); (Q2Qc (-11 # 8)); (Q2Qc (-3 # 1)); (Q2Qc (-9 # 2)); (Q2Qc (-2 # 1)); (Q2Qc (73 # 64)); (Q2Qc (3 # 8)); (Q2Qc (-205 # 64))], [(Q2Qc (0 # 1)); (Q2Qc (-9 # 4)); (Q2Qc (-6 # 1))]))]) = true.
Proof. split; vm_compute; reflexivity. Qed.
Print Assumptions C12_matrix_example.
