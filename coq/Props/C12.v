(* C12 — representation-only options do not change the model's meaning.
   Property theorems only; proofs live in Proofs/C12_options.v.

   The statements are about the model of Model/C12_options.v: `compile flags other m` is
   api.transfer_model (generate + Model.simplify) with the three flags threaded exactly where
   the code reads them; that the code reads them NOWHERE ELSE is checked on every run by the
   data-flow scan of vlib/c12.py (side condition `sites_ok` evaluated in run/C12/Gen.v).
   `strategies_ok` is CasADi's contract for map / call / expand (trusted, see level_note): the
   result of a mapped, called or expanded function depends only on the extension of the
   function, not on the mode. *)
From Coq Require Import ZArith QArith Qcanon List Bool.
Import ListNotations.
From PV Require Import Model.C11_residual Model.C12_options Proofs.C12_options.

(* For every flat model, every pair of flag triples and every option set without simplification
   option and cache: both compilations succeed, the variable lists (names, order, per category,
   outputs included), the delay states and the types/prefixes of the variables are LITERALLY
   equal and the four output functions agree at every input. *)
Theorem C12_noninterference
  (mapS : mapmode -> (Z -> nat -> env -> list (option Qc)) -> list Z -> env -> list (list (option Qc)))
  (imapS : mapmode -> (Z -> Z) -> list Z -> list Z)
  (callS : callmode -> (Qc -> Qc -> nat -> option Qc) -> Qc -> Qc -> nat -> option Qc)
  (icallS : callmode -> (Z -> Z) -> Z -> Z)
  (expandS : (env -> list (option Qc)) -> env -> list (option Qc))
  (P1 P2 P3 P4 : gmodel -> gmodel) (P5 : bool -> gmodel -> gmodel) :
  strategies_ok mapS imapS callS icallS expandS ->
  forall (o : other) (m : smodel) (f1 f2 : flags),
  no_simpl o = true ->
  exists g1 g2,
    compile imapS icallS P1 P2 P3 P4 P5 f1 o m = Ok g1 /\
    compile imapS icallS P1 P2 P3 P4 P5 f2 o m = Ok g2 /\
    g_lists g1 = g_lists g2 /\ g_delay_states g1 = g_delay_states g2 /\ g_types g1 = g_types g2 /\
    (forall rho, dae_residual_function mapS callS expandS g1 rho = dae_residual_function mapS callS expandS g2 rho) /\
    (forall rho, initial_residual_function mapS callS expandS g1 rho = initial_residual_function mapS callS expandS g2 rho) /\
    (forall rho, variable_metadata_function mapS callS expandS g1 rho = variable_metadata_function mapS callS expandS g2 rho) /\
    (forall rho, delay_arguments_function mapS callS expandS g1 rho = delay_arguments_function mapS callS expandS g2 rho).
Proof.
  intros Hs o m f1 f2 Ho.
  exact (noninterference mapS imapS callS icallS expandS P1 P2 P3 P4 P5 Hs o m f1 f2 Ho).
Qed.
Print Assumptions C12_noninterference.

(* Attribute expressions that do not call user functions are generated literally equal
   (with calls they differ in the inline tag of the call node only, and C12_noninterference gives
   the equality of the metadata function). *)
Theorem C12_metadata_literal
  (mapS : mapmode -> (Z -> nat -> env -> list (option Qc)) -> list Z -> env -> list (list (option Qc)))
  (imapS : mapmode -> (Z -> Z) -> list Z -> list Z)
  (callS : callmode -> (Qc -> Qc -> nat -> option Qc) -> Qc -> Qc -> nat -> option Qc)
  (icallS : callmode -> (Z -> Z) -> Z -> Z)
  (expandS : (env -> list (option Qc)) -> env -> list (option Qc)) :
  strategies_ok mapS imapS callS icallS expandS ->
  forall (m : smodel) (f1 f2 : flags),
  forallb (fun d => forallb call_free (d_attrs d)) (s_decls m) = true ->
  g_attrs (gen imapS icallS f1 m) = g_attrs (gen imapS icallS f2 m).
Proof. intros Hs m f1 f2 H. exact (metadata_literal mapS imapS callS icallS expandS Hs m f1 f2 H). Qed.
Print Assumptions C12_metadata_literal.

(* The hypothesis `no_simpl` cannot be dropped: with eliminable_variable_expression set the
   flag expand_mx decides between an exception and a model (model.py:731).
   C12_expand_commutes of DESIGN.md (expand_vectors before/after the scalar passes) is NOT
   proved: the passes are opaque in this model. *)
Theorem C12_flags_matter_with_eliminable
  (imapS : mapmode -> (Z -> Z) -> list Z -> list Z) (icallS : callmode -> (Z -> Z) -> Z -> Z)
  (P1 P2 P3 P4 : gmodel -> gmodel) (P5 : bool -> gmodel -> gmodel) (m : smodel) :
  exists o, compile imapS icallS P1 P2 P3 P4 P5 (mkFlags true true false) o m = Err 1%nat /\
            exists g, compile imapS icallS P1 P2 P3 P4 P5 (mkFlags true true true) o m = Ok g.
Proof. exact (eliminable_needs_expand imapS icallS P1 P2 P3 P4 P5 m). Qed.
Print Assumptions C12_flags_matter_with_eliminable.

(* non-vacuity: the reference strategies (apply iteration by iteration, call = apply,
   expand = identity) satisfy the contract *)
Example C12_strategies_example : strategies_ok mapR imapR callR icallR expandR.
Proof. exact reference_strategies_ok. Qed.
Print Assumptions C12_strategies_example.
