(* C21 — an interrupted or in-progress cache write never breaks later loads.
   Property theorems only; proofs live in Lib/Prefix.v and Proofs/C21_crash.v.
   `t` is the exception-routing table extracted from api.py on every run (run/C21/Gen_C21.v); the
   side condition `routes_ok t = true` is discharged there by vm_compute (run/C21/Tie_C21.v). *)
From Coq Require Import List Arith Bool.
From PV Require Import Lib.Prefix Model.C21_crash Proofs.C21_crash.
Import ListNotations.

(* the mini pickle format is written by an encoder whose output the online decoder accepts with
   nothing left over — for every value, of any size and nesting *)
Theorem C21_dump_accepted (v : pv) : accepted step init (dump v) v.
Proof. exact (dump_accepted v). Qed.
Print Assumptions C21_dump_accepted.

(* hence every proper prefix of a written cache file ends the decoder in EOF: never a value,
   never a format error *)
Theorem C21_prefix_eof (v : pv) (pre suf : list byte) :
  dump v = pre ++ suf -> suf <> [] -> decode pre = EOF.
Proof. exact (dump_prefix_eof v pre suf). Qed.
Print Assumptions C21_prefix_eof.

(* C21 over arbitrary histories: starting from an empty folder, for every sequence of source edits,
   version changes, transfers (any options), transfers killed after any number of write steps
   (0 = before open, 1 = file created/truncated, 1+k = k bytes written), cache files cut at any
   byte offset, and reader-during-write interleavings: every transfer that returns, returns the
   model of the current sources for the requested options (loaded or recompiled); none raises. *)
Theorem C21_crash (t : tables) (h : list op) :
  routes_ok t = true -> all_good t w0 h.
Proof. intros Hr. exact (all_good_from t h Hr w0 Inv_w0). Qed.
Print Assumptions C21_crash.

(* explicit crash-point form: in any reachable state, a transfer killed after ANY j write steps,
   followed by any transfer: correct model, no exception *)
Theorem C21_crash_point (t : tables) (h : list op) (ow : nat) (e : bool) (j : nat) (o : nat) (e' : bool) :
  routes_ok t = true ->
  let w := world_after t w0 h in
  let w' := fst (transfer_cut t w ow e j) in
  good w o (snd (transfer t w' o e')).
Proof. exact (crash_point t h ow e j o e'). Qed.
Print Assumptions C21_crash_point.

(* reader/writer interleaving, same options: the reader runs when the writer has done any j of its
   write steps; both return the correct model.
   _partial: two concurrent transfers with DIFFERENT option sets (two writers of different byte
   streams into one file), torn writes that are not prefixes, the codegen mode's shared libraries
   and mtime_check=False are not in the model. *)
Theorem C21_reader_partial (t : tables) (h : list op) (o : nat) (e e' : bool) (j : nat) :
  routes_ok t = true ->
  let w := world_after t w0 h in
  Forall (good w o) (snd (step_op t w (Reader o e e' j))).
Proof. exact (reader_point t h o e e' j). Qed.
Print Assumptions C21_reader_partial.

(* two callers on one folder that BOTH finish load_model on the same reachable state (e.g. the same
   unfinished cache file) before either runs its handler / compile / save, the later steps interleaved
   in any order of whole steps (lastb = whose save comes last), any two option sets: both return the
   correct model.  _partial: byte-level interleaving of the two saves is not modelled. *)
Theorem C21_two_callers_partial (t : tables) (h : list op) (oa ob : nat) (ea eb lastb : bool) :
  routes_ok t = true ->
  let w := world_after t w0 h in
  exists ra rb, snd (step_op t w (Two oa ob ea eb lastb)) = [ra; rb] /\ good w oa ra /\ good w ob rb.
Proof. exact (two_point t h oa ob ea eb lastb). Qed.
Print Assumptions C21_two_callers_partial.

(* a writer at any write step j and two such readers (same options) *)
Theorem C21_writer_two_readers_partial (t : tables) (h : list op) (o : nat) (e ea eb : bool) (j : nat) :
  routes_ok t = true ->
  let w := world_after t w0 h in
  Forall (good w o) (snd (step_op t w (Reader2 o e ea eb j))).
Proof. exact (reader2_point t h o e ea eb j). Qed.
Print Assumptions C21_writer_two_readers_partial.

(* the repaired code's table satisfies the side condition ... *)
Example C21_fixed_routes : routes_ok tbl_fixed = true.
Proof. vm_compute. reflexivity. Qed.
Print Assumptions C21_fixed_routes.

(* ... non-vacuity: a concrete history with a crash after 5 write steps, an edit, a cut at offset 0
   and a reader at step 4; the outcomes are the expected ones *)
Example C21_history_example :
  map (map obs_of)
      (run_ops tbl_fixed w0 [Transfer 1 true; CrashT 2 true 5; Transfer 2 false; Transfer 2 true; Edit;
                             Transfer 2 true; Cut 0; Transfer 2 true; Reader 3 true false 4; Transfer 3 true])
  = [[ORecompiled]; [ODied]; [ORecompiled]; [OLoaded]; []; [ORecompiled]; []; [ORecompiled];
     [ORecompiled; ORecompiled]; [OLoaded]].
Proof. vm_compute. reflexivity. Qed.
Print Assumptions C21_history_example.

(* the side condition is necessary: with the routing table of the code before commit cb129b2 the
   transfer after a crash raises *)
Theorem C21_unrouted_refuted :
  routes_ok tbl_prefix = false /\
  exists h, In [Raised UnpicklingError] (run_ops tbl_prefix w0 h).
Proof.
  split; [vm_compute; reflexivity|].
  exists [Transfer 1 true; CrashT 2 true 5; Transfer 2 false]. vm_compute. auto.
Qed.
Print Assumptions C21_unrouted_refuted.

(* ================= second round: byte-level two writers, codegen ================= *)
From PV Require Import Proofs.C21_overlay Proofs.C21_codegen.

(* Two saves into one file at byte level (Model Part 3: open "wb" truncates, own offsets, zero-filled
   gaps), ANY two option sets, ANY interleaving of opens and writes, also cut short anywhere (crash),
   and a caller with ANY options that loads at ANY point: it gets the model of the current sources for
   its own options or it recompiles; it never accepts a mixture.
   ASSUMPTION (whole): every write call delivers the writer's whole stream — true of pickle.dump into
   a buffered file while the pickle fits one frame (< 64 KiB); checked on the real code by tie W. *)
Theorem C21_two_writers_single_write (t : tables) (h : list op) (oa ob : nat) (evs : list ev)
        (o : nat) (e : bool) (bx : exc) :
  routes_ok t = true ->
  let w := world_after t w0 h in
  forallb (whole (stream w oa) (stream w ob)) evs = true ->
  match load_gen t (ov_world w oa ob evs) o e bx with
  | inr m => m = (src w, o)
  | inl x => transfer_recompiles t x = true
  end.
Proof.
  intros Hr w Hw. exact (single_chunk_reader t w oa ob evs o e bx Hr (Inv_after t h Hr w0 Inv_w0) Hw).
Qed.
Print Assumptions C21_two_writers_single_write.

(* several write calls per save, SAME stream: the later opener has written p bytes, the earlier writer
   continues beyond the gap.  If p is a position where the decoder expects an opcode (write calls end at
   frame boundaries), the zero byte there is a format error whatever follows: the reader recompiles. *)
Theorem C21_hole_at_opcode_boundary (s : list byte) (p : nat) (rest : list byte) :
  boundary s p = true -> decode (firstn p s ++ 0 :: rest) = Bad.
Proof. exact (hole_is_bad s p rest). Qed.
Print Assumptions C21_hole_at_opcode_boundary.

(* _partial: that every intermediate file of a chunked same-stream interleaving is either a prefix of
   the stream or of this shape is derived from write_at only for the three-phase schedules over the
   model's stream (finite sweep C21_phase3_shape_sweep below), not for arbitrary schedules. *)
Theorem C21_torn_same_stream_partial (t : tables) (h : list op) (o' p : nat) (rest : list byte) (o : nat) (e : bool) :
  routes_ok t = true ->
  let w := world_after t w0 h in
  boundary (stream w o') p = true ->
  match load_gen t (set_cfile w (Some (firstn p (stream w o') ++ 0 :: rest, clock w))) o e UnpicklingError with
  | inr m => m = (src w, o)
  | inl x => transfer_recompiles t x = true
  end.
Proof. intros Hr w Hb. exact (hole_reader t w o' p rest o e Hr Hb). Qed.
Print Assumptions C21_torn_same_stream_partial.

(* finite sweep (28^3 schedules of ONE stream): the file after [OpenA; WriteA a0; OpenB; WriteB b; WriteA (a-a0)]
   computed with write_at is mask: a prefix, or prefix ++ zeros ++ later chunk *)
Example C21_phase3_shape_sweep :
  let s := dump (db_of 3 5 7) in
  forallb (fun a0 => forallb (fun b => forallb (fun a =>
    match ofile (ov_run s s (ov0 None) (phase3 a0 b a)) with
    | Some f => if list_eq_dec Nat.eq_dec f (mask s a0 b (Nat.max a a0)) then true else false
    | None => false end) (seq 0 29)) (seq 0 29)) (seq 0 29) = true.
Proof. vm_compute. reflexivity. Qed.
Print Assumptions C21_phase3_shape_sweep.

(* without the alignment assumption the statement is false even for the SAME stream: the gap covers a
   payload byte, the file decodes, and a stale model id is served *)
Theorem C21_torn_unaligned_refuted :
  let w := W 5 0 0 0 None in
  load_gen tbl_fixed (ov_world w 1 1 [OpenA; WriteA 23; OpenB; WriteB 22; WriteA 5]) 1 true UnpicklingError = inr (0, 1).
Proof. vm_compute. reflexivity. Qed.
Print Assumptions C21_torn_unaligned_refuted.

(* and for two DIFFERENT option sets with several write calls a mixture is accepted: header (options 2)
   from one stream, functions (options 1) from the other; the caller asking for options 2 gets model 1 *)
Theorem C21_mixture_refuted :
  let w := W 5 0 0 0 None in
  load_gen tbl_fixed (ov_world w 1 2 [OpenA; WriteA 20; OpenB; WriteB 20; WriteA 8]) 2 true UnpicklingError = inr (5, 1).
Proof. vm_compute. reflexivity. Qed.
Print Assumptions C21_mixture_refuted.

(* codegen mode (Model Part 4), step order since ee3ded2 = remove cache file; four libraries;
   create/truncate; bytes: for every history of edits, version changes, transfers and transfers killed
   after ANY number of these steps, every transfer that returns yields four libraries that are all
   compiled from the current sources for the requested options, or recompiles; none raises.
   The side condition "remove first" is extracted from save_model on every run (tie). *)
Theorem C21_crash_codegen (t : tables) (h : list cop) :
  routes_ok t = true -> cg_all_good t cw0 h.
Proof. intros Hr. exact (cg_all_good_from t h Hr cw0 CInv_cw0). Qed.
Print Assumptions C21_crash_codegen.

(* the order before ee3ded2 (libraries first, cache file untouched until the end) is refuted: a write for
   options 2 killed after the four libraries leaves the complete cache file of options 1 next to them *)
Theorem C21_codegen_old_order_refuted :
  exists h, In [CLoaded (all4 (0, 2))] (cg_run false tbl_fixed cw0 h) /\
            last h CEdit = CTransfer 1 true.
Proof. exists [CTransfer 1 true; CCrashT 2 true 4; CTransfer 1 true]. vm_compute. auto. Qed.
Print Assumptions C21_codegen_old_order_refuted.

(* a caller overlapping a codegen writer that has removed the cache file (first step of its save) and is
   killed while building libraries: wherever the removal falls relative to the caller's load_model — before
   it, in the gap between its existence/mtime test and its open, or after it — the caller returns the correct
   model.  (The gap is not a separate state of the model: the test and the open raise the same
   FileNotFoundError class, which is what the routing table must send to recompilation; the real schedules
   with the removal inside the gap are exercised by the harness op `gap`.) *)
Theorem C21_reader_vs_removal (t : tables) (h : list op) (o : nat) (e late sf : bool) :
  routes_ok t = true ->
  let w := world_after t w0 h in
  Forall (good w o) (snd (step_op t w (Gap o e late sf))).
Proof.
  intros Hr w. exact (proj1 (step_op_good t w (Gap o e late sf) Hr (Inv_after t h Hr w0 Inv_w0))).
Qed.
Print Assumptions C21_reader_vs_removal.

(* ================= round 4: several write calls per save ================= *)
(* WHAT THE FILE CAN CONTAIN (same stream s, cache mode).  B is the later opener: its "wb" open has just
   truncated the file while A stood at offset a0 (after_open a0).  After ANY interleaving of write calls
   of ANY sizes by the two writers (evs arbitrary, so also cut anywhere by a kill), the file is exactly:
   byte p of s at every position written since — B's prefix [0, offB) and A's stretch [a0, offA) — and zero
   everywhere else below its length max(offB, offA): a prefix of s, or prefix ++ zero gap ++ later stretch. *)
Theorem C21_chunked_file_shape (s : list byte) (a0 : nat) (evs : list ev) :
  a0 <= length s -> forallb is_write evs = true ->
  shapeS s a0 (ov_run s s (after_open a0) evs).
Proof. intros Ha Hw. exact (shapeS_run s a0 evs _ Hw (shapeS_after_open s a0 Ha)). Qed.
Print Assumptions C21_chunked_file_shape.

(* WHICH OF THOSE A READER ACCEPTS, and the property's clause: same options (same stream), k >= 1 write calls
   each, any interleaving, with or without a kill, a later caller with ANY options: it gets the model of the
   current sources for its own options (only from the complete stream) or it recompiles; it never raises.
   ASSUMPTION: at the moment of the load the later opener's offset is a position where the decoder expects an
   opcode (its write calls end at opcode/frame boundaries); without it: C21_torn_unaligned_refuted.
   Two DIFFERENT option sets with several write calls: refuted in the model, C21_mixture_refuted. *)
Theorem C21_two_writers_chunked_same_stream (t : tables) (h : list op) (o' a0 : nat) (evs : list ev) (o : nat) (e : bool) :
  routes_ok t = true ->
  let w := world_after t w0 h in
  a0 <= length (stream w o') -> forallb is_write evs = true ->
  let x := ov_run (stream w o') (stream w o') (after_open a0) evs in
  boundary (stream w o') (offB x) = true ->
  match load_gen t (set_cfile w (option_map (fun f => (f, clock w)) (ofile x))) o e UnpicklingError with
  | inr m => m = (src w, o)
  | inl y => transfer_recompiles t y = true
  end.
Proof. intros Hr w. exact (chunked_same_stream_reader t w o' a0 evs o e Hr). Qed.
Print Assumptions C21_two_writers_chunked_same_stream.
