(* C21 — an interrupted or in-progress cache write never breaks later loads.
   Property theorems only; proofs live in Lib/Prefix.v and Proofs/C21_crash.v.
   `t` is the exception-routing table extracted from api.py on every run (run/C21/Gen_C21.v); the
   side condition `routes_ok t = true` is discharged there by vm_compute (run/C21/Tie_C21.v). *)
From Coq Require Import List Arith Bool.
From PV Require Import Lib.Prefix Model.C21_crash Proofs.C21_crash.
Import ListNotations.

(* the mini pickle format is written by an encoder whose output the online decoder accepts with
   nothing left over — for every value, of any size and nesting *)
Theorem C21_dump_accepted (v : pv) : accepted step init (dump v) v.
Proof. exact (dump_accepted v). Qed.
Print Assumptions C21_dump_accepted.

(* hence every proper prefix of a written cache file ends the decoder in EOF: never a value,
   never a format error *)
Theorem C21_prefix_eof (v : pv) (pre suf : list byte) :
  dump v = pre ++ suf -> suf <> [] -> decode pre = EOF.
Proof. exact (dump_prefix_eof v pre suf). Qed.
Print Assumptions C21_prefix_eof.

(* C21 over arbitrary histories: starting from an empty folder, for every sequence of source edits,
   version changes, transfers (any options), transfers killed after any number of write steps
   (0 = before open, 1 = file created/truncated, 1+k = k bytes written), cache files cut at any
   byte offset, and reader-during-write interleavings: every transfer that returns, returns the
   model of the current sources for the requested options (loaded or recompiled); none raises. *)
Theorem C21_crash (t : tables) (h : list op) :
  routes_ok t = true -> all_good t w0 h.
Proof. intros Hr. exact (all_good_from t h Hr w0 Inv_w0). Qed.
Print Assumptions C21_crash.

(* explicit crash-point form: in any reachable state, a transfer killed after ANY j write steps,
   followed by any transfer: correct model, no exception *)
Theorem C21_crash_point (t : tables) (h : list op) (ow : nat) (e : bool) (j : nat) (o : nat) (e' : bool) :
  routes_ok t = true ->
  let w := world_after t w0 h in
  let w' := fst (transfer_cut t w ow e j) in
  good w o (snd (transfer t w' o e')).
Proof. exact (crash_point t h ow e j o e'). Qed.
Print Assumptions C21_crash_point.

(* reader/writer interleaving, same options: the reader runs when the writer has done any j of its
   write steps; both return the correct model.
   _partial: two concurrent transfers with DIFFERENT option sets (two writers of different byte
   streams into one file), torn writes that are not prefixes, the codegen mode's shared libraries
   and mtime_check=False are not in the model. *)
Theorem C21_reader_partial (t : tables) (h : list op) (o : nat) (e e' : bool) (j : nat) :
  routes_ok t = true ->
  let w := world_after t w0 h in
  Forall (good w o) (snd (step_op t w (Reader o e e' j))).
Proof. exact (reader_point t h o e e' j). Qed.
Print Assumptions C21_reader_partial.

(* two callers on one folder that BOTH finish load_model on the same reachable state (e.g. the same
   unfinished cache file) before either runs its handler / compile / save, the later steps interleaved
   in any order of whole steps (lastb = whose save comes last), any two option sets: both return the
   correct model.  _partial: byte-level interleaving of the two saves is not modelled. *)
Theorem C21_two_callers_partial (t : tables) (h : list op) (oa ob : nat) (ea eb lastb : bool) :
  routes_ok t = true ->
  let w := world_after t w0 h in
  exists ra rb, snd (step_op t w (Two oa ob ea eb lastb)) = [ra; rb] /\ good w oa ra /\ good w ob rb.
Proof. exact (two_point t h oa ob ea eb lastb). Qed.
Print Assumptions C21_two_callers_partial.

(* a writer at any write step j and two such readers (same options) *)
Theorem C21_writer_two_readers_partial (t : tables) (h : list op) (o : nat) (e ea eb : bool) (j : nat) :
  routes_ok t = true ->
  let w := world_after t w0 h in
  Forall (good w o) (snd (step_op t w (Reader2 o e ea eb j))).
Proof. exact (reader2_point t h o e ea eb j). Qed.
Print Assumptions C21_writer_two_readers_partial.

(* the repaired code's table satisfies the side condition ... *)
Example C21_fixed_routes : routes_ok tbl_fixed = true.
Proof. vm_compute. reflexivity. Qed.
Print Assumptions C21_fixed_routes.

(* ... non-vacuity: a concrete history with a crash after 5 write steps, an edit, a cut at offset 0
   and a reader at step 4; the outcomes are the expected ones *)
Example C21_history_example :
  map (map obs_of)
      (run_ops tbl_fixed w0 [Transfer 1 true; CrashT 2 true 5; Transfer 2 false; Transfer 2 true; Edit;
                             Transfer 2 true; Cut 0; Transfer 2 true; Reader 3 true false 4; Transfer 3 true])
  = [[ORecompiled]; [ODied]; [ORecompiled]; [OLoaded]; []; [ORecompiled]; []; [ORecompiled];
     [ORecompiled; ORecompiled]; [OLoaded]].
Proof. vm_compute. reflexivity. Qed.
Print Assumptions C21_history_example.

(* the side condition is necessary: with the routing table of the code before commit cb129b2 the
   transfer after a crash raises *)
Theorem C21_unrouted_refuted :
  routes_ok tbl_prefix = false /\
  exists h, In [Raised UnpicklingError] (run_ops tbl_prefix w0 h).
Proof.
  split; [vm_compute; reflexivity|].
  exists [Transfer 1 true; CrashT 2 true 5; Transfer 2 false]. vm_compute. auto.
Qed.
Print Assumptions C21_unrouted_refuted.
