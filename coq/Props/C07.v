(* C07 — hierarchical flattening instantiates every component once.
   Property theorems only; proofs in Proofs/C07_flatten.v; model in Lib/ClassTree.v + Model/C07_flatten.v.
   The model mirrors pymoca.tree.flatten (defects included) and is compared with the real code on every
   run.  What is proved here are the four local rules the property names, for arbitrary inputs; the global
   refinement `flatten = inst` is NOT proved (see C07_refines_partial) and is false under shadowing
   (C07_refuted_shadowing). *)
From Coq Require Import List ZArith Bool PArith.
From PV Require Import Lib.ClassTree Lib.Inst Model.C07_flatten Proofs.C07_flatten Proofs.C07_refine Proofs.C07_refine_ext Proofs.C07_late Proofs.C07_lex Proofs.C07_refine_pkg.
Import ListNotations.

(* C07a: a flat name is the instance path: composition prefix ++ [name] is injective, and the
   dictionary test `new_name in container.symbols` (string equality of dotted names) is exact *)
Theorem C07a_names :
  (forall (p p' : path) (n n' : ident), p ++ [n] = p' ++ [n'] -> p = p' /\ n = n') /\
  (forall a b : path, path_eqb a b = true <-> a = b) /\
  (forall (x : path) (l : list path), mem_path x l = true <-> In x l).
Proof. exact (conj compose_injective (conj path_eqb_spec mem_path_spec)). Qed.
Print Assumptions C07a_names.

(* C07b: prefix rule of flatten_symbols (tree.py:585-592): top-level components keep every prefix;
   below the top level input and output are gone (for a duplicate-free prefix list) and every other
   prefix (parameter, constant, discrete, flow, ...) is kept *)
Theorem C07b_prefixes :
  (forall pre, strip_io [] pre = pre) /\
  (forall n prefix pre, NoDup pre ->
     ~ In pInput (strip_io (n :: prefix) pre) /\ ~ In pOutput (strip_io (n :: prefix) pre)) /\
  (forall prefix pre x, x <> pInput -> x <> pOutput -> (In x (strip_io prefix pre) <-> In x pre)).
Proof. exact (conj strip_io_top (conj strip_io_nested strip_io_keeps)). Qed.
Print Assumptions C07b_prefixes.

(* C07c: extends merge (tree.py:294, 316 — OrderedDict.update): merging the symbols `new` of a base or
   of the class itself into a duplicate-free dictionary keeps it duplicate free (every inherited
   component is instantiated exactly once, also when two sources bring the same name), keeps the
   earlier symbols first in their order, and contains exactly the names of both *)
Theorem C07c_extends_merge (l new : list sym) :
  NoDup (map s_name l) ->
  NoDup (map s_name (od_update s_name Pos.eqb l new)) /\
  (exists t, map s_name (od_update s_name Pos.eqb l new) = map s_name l ++ t) /\
  (forall n, In n (map s_name (od_update s_name Pos.eqb l new)) <-> In n (map s_name l) \/ In n (map s_name new)).
Proof. exact (update_props s_name new l). Qed.
Print Assumptions C07c_extends_merge.

(* C07d: reference renaming (ComponentRefFlattener, tree.py:736-765): a reference is replaced by the
   composed flat name iff that name is a symbol of the container, else left alone; this holds for every
   reference inside every expression *)
Theorem C07d_rename (cont : list path) (prefix : path) :
  (forall p idx, (In (prefix ++ p) cont -> rename cont prefix (ERef p idx) = ERef (prefix ++ p) idx) /\
                 (~ In (prefix ++ p) cont -> rename cont prefix (ERef p idx) = ERef p idx)) /\
  (forall e, refs_ok cont prefix e (rename cont prefix e)).
Proof. exact (conj (rename_ref_iff cont prefix) (rename_ok cont prefix)). Qed.
Print Assumptions C07d_rename.

(* REFINEMENT, stage 1.  Lib/Inst.v `inst` is the specification written from the property text (one
   variable per leaf named by its instance path, types looked up in the declaring class, prefix rule,
   equations of every instance with references renamed to the leaf they denote, outermost modifier wins).
   For every PLAIN library — no extends clauses, no modifications; any nesting depth, repeated classes,
   nested class definitions (looked up through enclosing scopes), type aliases `type T = Real;` of the
   built-in types (anywhere in the class tree; the flattened class itself is not an alias), scalar arrays,
   all prefixes, symbol names duplicate free — whenever the model of pymoca's flatten returns a flat class, the specification
   returns the SAME ordered variables and the SAME list of equations (hence the same multiset).  `clean`:
   no attribute and no pending modification on any flat symbol, so `var_of` forgets nothing. *)
Theorem C07_refines_flat (root : list cdef) (top : path) (r : list fsym * list eqn) :
  plain_lib root ->
  ~ (exists c lex Sp b, lookup (lex_scope root []) top = Some (c, lex, Sp, b) /\ alias c) ->
  flatten root false top = Ok r ->
  Forall clean (fst r) /\ PV.Lib.Inst.inst root top = Some (map var_of (fst r), snd r).
Proof. exact (refines_flat root top r). Qed.
Print Assumptions C07_refines_flat.

(* `flatten root false` is the model WITHOUT pymoca's definition-order rule (every nested class counts as
   instantiated before its users); the real code is `flatten root true` (Model/C07_flatten.v, ilookup).  For
   the real model the theorem holds under the hypothesis that carves out the recorded finding
   nested-class-defined-after-user-resolved-lexically: the order rule does not change the result. *)
Theorem C07_refines_flat_real (root : list cdef) (top : path) (r : list fsym * list eqn) :
  plain_lib root ->
  ~ (exists c lex Sp b, lookup (lex_scope root []) top = Some (c, lex, Sp, b) /\ alias c) ->
  flatten root true top = flatten root false top ->
  flatten root true top = Ok r ->
  Forall clean (fst r) /\ PV.Lib.Inst.inst root top = Some (map var_of (fst r), snd r).
Proof. intros Hp Ht E H. rewrite E in H. exact (refines_flat root top r Hp Ht H). Qed.
Print Assumptions C07_refines_flat_real.

(* the recorded finding: model Part Real pr; end Part;  model Base model Part Real pb; end Part; end Base;
   model M  model Inner Helper h; end Inner;  model Helper Part p; end Helper;  extends Base;  Inner i1; end M;
   Helper is defined AFTER its user Inner, so it is instantiated in its lexical scope and `Part` is the
   root-level class (variable i1.h.p.pr); the specification — and the code when Helper comes first — gives
   the inherited Base.Part (i1.h.p.pb) *)
Definition late_lib : list cdef := [(CDef 40%positive 17%positive [] [] [(mkSym 41%positive [1%positive] [] [] [])] []); (CDef 42%positive 17%positive [(CDef 40%positive 17%positive [] [] [(mkSym 43%positive [1%positive] [] [] [])] [])] [] [] []); (CDef 44%positive 17%positive [(CDef 45%positive 17%positive [] [] [(mkSym 46%positive [47%positive] [] [] [])] []); (CDef 47%positive 17%positive [] [] [(mkSym 48%positive [40%positive] [] [] [])] [])] [([42%positive], [])] [(mkSym 49%positive [45%positive] [] [] [])] [])].
Theorem C07_refuted_definition_order :
  map f_name (match flatten late_lib true [44%positive] with Ok r => fst r | Err _ => [] end) = [[49; 46; 48; 41]%positive] /\
  map f_name (match flatten late_lib false [44%positive] with Ok r => fst r | Err _ => [] end) = [[49; 46; 48; 43]%positive] /\
  option_map (fun r => map v_name (fst r)) (PV.Lib.Inst.inst late_lib [44%positive]) = Some [[49; 46; 48; 43]%positive].
Proof. vm_compute. repeat split; reflexivity. Qed.
Print Assumptions C07_refuted_definition_order.

(* the hypotheses are satisfiable by a non-trivial library: type I = Integer; model A input Real x; output Real y[2]; discrete I k; equation
   y[1] = x; end A;  model M  model N A c; end N;  A a; N b; input Real u;  equation a.x = u; b.c.x = a.y[1]; end M; *)
Definition plain_ex : list cdef :=
  [CDef 50 kType [] [([iInteger], [])] [] [];
   CDef 40 kModel [] [] [mkSym 41 [iReal] [pInput] [] []; mkSym 42 [iReal] [pOutput] [2%Z] []; mkSym 51 [50] [pDiscrete] [] []]
        [(ERef [42] [1%Z], ERef [41] [])];
   CDef 43 kModel [CDef 44 kModel [] [] [mkSym 45 [40] [] [] []] []] []
        [mkSym 46 [40] [] [] []; mkSym 47 [44] [] [] []; mkSym 48 [iReal] [pInput] [] []]
        [(ERef [46; 41] [], ERef [48] []); (ERef [47; 45; 41] [], ERef [46; 42] [1%Z])]]%positive.
Example C07_refines_flat_example :
  plain_lib plain_ex /\
  ~ (exists c lex Sp b, lookup (lex_scope plain_ex []) [43%positive] = Some (c, lex, Sp, b) /\ alias c) /\
  exists r, flatten plain_ex true [43%positive] = Ok r /\ flatten plain_ex false [43%positive] = Ok r /\
    map (fun s => (f_name s, f_type s)) (fst r) =
      [([46; 41], [iReal]); ([46; 42], [iReal]); ([46; 51], [iInteger]); ([47; 45; 41], [iReal]);
       ([47; 45; 42], [iReal]); ([47; 45; 51], [iInteger]); ([48], [iReal])]%positive /\ length (snd r) = 4%nat.
Proof.
  split; [|split].
  - constructor; [right; constructor; [reflexivity | discriminate]|].
    repeat (constructor; try (left; constructor); try (unfold kModel, kBuiltin, kType; discriminate);
            try (simpl; intuition discriminate)).
  - intros [c [lex [Sp [b [L A]]]]]. vm_compute in L. inversion L; subst. inversion A.
  - eexists. split; [vm_compute; reflexivity | split; [vm_compute; reflexivity | split; reflexivity]].
Qed.
Print Assumptions C07_refines_flat_example.

(* REFINEMENT, stage 2: EXTENDS.  For every library whose classes are all defined at the top level
   (`root_lib`: no nested class definitions; extends clauses without modifiers naming classes of the
   library; no modifications; type aliases `type T = Real;` allowed as leaf types) — extends chains of
   ANY depth, single and multiple inheritance, a base reached along several paths, inherited components
   of classes that themselves extend, any component nesting depth, repeated classes — whenever the model
   of pymoca's flatten returns a flat class, the specification `inst` returns the same ordered variables
   and the same equation list: every inherited component is instantiated exactly once, inherited
   equations are there with their references renamed.  (With all classes at the top level the inherited
   types cannot be shadowed, which is what `no_shadowing` asks for.)  Proof: Proofs/C07_refine_ext.v —
   fe_elems (flatten_extends = the specification's `elems`, by induction on the fuel = depth of the
   chain, fold_sim over the extends clauses), then the generic fused loop of stage 1. *)
Theorem C07_refines_extends (root : list cdef) (top : path) (r : list fsym * list eqn) :
  root_lib root ->
  ~ (exists c lex Sp b, lookup (lex_scope root []) top = Some (c, lex, Sp, b) /\ alias c) ->
  flatten root false top = Ok r ->
  Forall clean (fst r) /\ PV.Lib.Inst.inst root top = Some (map var_of (fst r), snd r).
Proof. exact (refines_extends root top r). Qed.
Print Assumptions C07_refines_extends.

Theorem C07_refines_extends_real (root : list cdef) (top : path) (r : list fsym * list eqn) :
  root_lib root ->
  ~ (exists c lex Sp b, lookup (lex_scope root []) top = Some (c, lex, Sp, b) /\ alias c) ->
  flatten root true top = flatten root false top ->
  flatten root true top = Ok r ->
  Forall clean (fst r) /\ PV.Lib.Inst.inst root top = Some (map var_of (fst r), snd r).
Proof. intros Hp Ht E H. rewrite E in H. exact (refines_extends root top r Hp Ht H). Qed.
Print Assumptions C07_refines_extends_real.

(* In a top-level library pymoca's definition-order rule cannot fire (instance frames hold no classes), so the
   model WITH the rule — the real code — and without it compute the same flat class, for every top class: *)
Theorem C07_definition_order_irrelevant_toplevel (root : list cdef) (top : path) :
  Forall eclass root -> flatten root true top = flatten root false top.
Proof. exact (fun H => flatten_late root H top). Qed.
Print Assumptions C07_definition_order_irrelevant_toplevel.

(* ... hence the extends refinement holds for the REAL model without any semantic hypothesis *)
Theorem C07_refines_extends_toplevel (root : list cdef) (top : path) (r : list fsym * list eqn) :
  root_lib root ->
  ~ (exists c lex Sp b, lookup (lex_scope root []) top = Some (c, lex, Sp, b) /\ alias c) ->
  flatten root true top = Ok r ->
  Forall clean (fst r) /\ PV.Lib.Inst.inst root top = Some (map var_of (fst r), snd r).
Proof.
  intros Hp Ht H. rewrite (flatten_late root (proj1 Hp) top) in H. exact (refines_extends root top r Hp Ht H).
Qed.
Print Assumptions C07_refines_extends_toplevel.

(* satisfiable: type T = Real; model A input Real x; parameter T k; equation x = k; end A;
   model B extends A; Real y; equation y = x; end B;  model C Real z[2]; end C;
   model M extends B; extends C; B b; output Real w; equation w = b.y; z[1] = y; end M;
   (chain M -> B -> A, multiple extends, a component of a class that extends): 8 variables, 6 equations,
   and the real model (definition-order rule on) gives the same *)
Definition ext_ex : list cdef :=
  [CDef 50 kType [] [([iReal], [])] [] [];
   CDef 40 kModel [] [] [mkSym 41 [iReal] [pInput] [] []; mkSym 42 [50] [pParam] [] []] [(ERef [41] [], ERef [42] [])];
   CDef 43 kModel [] [([40], [])] [mkSym 44 [iReal] [] [] []] [(ERef [44] [], ERef [41] [])];
   CDef 45 kModel [] [] [mkSym 46 [iReal] [] [2%Z] []] [];
   CDef 47 kModel [] [([43], []); ([45], [])] [mkSym 48 [43] [] [] []; mkSym 49 [iReal] [pOutput] [] []]
        [(ERef [49] [], ERef [48; 44] []); (ERef [46] [1%Z], ERef [44] [])]]%positive.
Example C07_refines_extends_example :
  root_lib ext_ex /\
  ~ (exists c lex Sp b, lookup (lex_scope ext_ex []) [47%positive] = Some (c, lex, Sp, b) /\ alias c) /\
  flatten ext_ex true [47%positive] = flatten ext_ex false [47%positive] /\
  exists r, flatten ext_ex false [47%positive] = Ok r /\
    map f_name (fst r) = [[41]; [42]; [44]; [46]; [48; 41]; [48; 42]; [48; 44]; [49]]%positive /\
    length (snd r) = 6%nat.
Proof.
  split; [|split; [|split]].
  - split.
    + constructor; [right; constructor; [reflexivity | discriminate]|].
      repeat (constructor; try (left; constructor); try (unfold kModel, kBuiltin, kType; discriminate);
              try (simpl; intuition (discriminate || reflexivity))).
    + intros c e bc l S b Hin Hc He L.
      simpl in Hin. repeat (destruct Hin as [<-|Hin]; [try (inversion Hc; fail); simpl in He;
        repeat (destruct He as [<-|He]; [vm_compute in L; inversion L; subst;
          constructor; try (unfold kModel, kBuiltin, kType; discriminate);
          repeat (constructor; try (simpl; intuition (discriminate || reflexivity)))|]); try contradiction|]);
      contradiction.
  - intros [c [lex [Sp [b [L A]]]]]. vm_compute in L. inversion L; subst. inversion A.
  - vm_compute. reflexivity.
  - eexists. split; [vm_compute; reflexivity | split; reflexivity].
Qed.
Print Assumptions C07_refines_extends_example.

(* lex_consistent: in the lexical scope of a located class (a class reachable from the root by a dotted path),
   a class found by pymoca's lookup — simple or dotted name, found in any enclosing scope — is itself
   located, comes with EXACTLY the lexical scope of its own lexical parent as .parent chain, and was not
   found in an instance dictionary.  (This is what makes find_base, which resolves from the root, and the
   specification, which resolves from the scope the class was found in, agree.) *)
Theorem C07_lex_consistent (root : list cdef) (d : cdef) (dl ref : path) (c : cdef) (clex : path) (S' : scope) (b : bool) :
  located root d dl -> lookup (lex_scope root dl) ref = Some (c, clex, S', b) ->
  located root c clex /\ S' = lex_scope root clex /\ b = false.
Proof. exact (lookup_located root d dl ref c clex S' b). Qed.
Print Assumptions C07_lex_consistent.

(* REFINEMENT, stage 2b: extends in libraries structured by PACKAGES.  Classes at any package depth; extends
   clauses and component types name classes of other packages by simple name (found in an enclosing scope)
   or dotted name; extends chains of any depth, multiple inheritance.  Side conditions (`pkg_lib`), which
   exclude exactly the recorded findings that can occur without modifications:
     - models have no nested class definitions (`eplain`): excludes nested-class-defined-after-user... and
       modified-alias-component-of-nested-class...;
     - NO SHADOWING: the type name of every component means the same class in the scope of every class that
       inherits it (`reach`): excludes inherited-type-resolved-in-deriving-scope;
     - extends clauses name models, component types name models or aliases (not packages), no clause
       modifiers, no modifications (so no attribute expression exists: flattened-reference-prefixed-twice
       cannot occur). *)
Theorem C07_refines_extends_packages (root : list cdef) (top : path) (r : list fsym * list eqn) :
  pkg_lib root ->
  (forall c lex Sp b, lookup (lex_scope root []) top = Some (c, lex, Sp, b) -> eplain c) ->
  flatten root false top = Ok r ->
  Forall clean (fst r) /\ PV.Lib.Inst.inst root top = Some (map var_of (fst r), snd r).
Proof. exact (refines_extends_pkg root top r). Qed.
Print Assumptions C07_refines_extends_packages.

(* the side conditions are satisfiable (every top-level library of stage 2 satisfies them, e.g. ext_ex below) *)
Theorem C07_toplevel_is_package_library (root : list cdef) : root_lib root -> pkg_lib root.
Proof. exact (root_lib_is_pkg_lib root). Qed.
Print Assumptions C07_toplevel_is_package_library.

(* and the conclusion is not vacuous in a genuine package library:
   package P  model A Real x; equation x = 1; end A;  model B extends A; Real y; equation y = x; end B;  end P;
   package Q  model C extends P.B; P.A a; end C;  end Q;   model M extends Q.C; Q.C c; end M; *)
Definition pkg_ex : list cdef :=
  [CDef 60 kPackage
     [CDef 40 kModel [] [] [mkSym 41 [iReal] [] [] []] [(ERef [41] [], ENum 1)];
      CDef 43 kModel [] [([40], [])] [mkSym 44 [iReal] [] [] []] [(ERef [44] [], ERef [41] [])]] [] [] [];
   CDef 61 kPackage
     [CDef 45 kModel [] [([60; 43], [])] [mkSym 46 [60; 40] [] [] []] []] [] [] [];
   CDef 47 kModel [] [([61; 45], [])] [mkSym 48 [61; 45] [] [] []] []]%positive.
Example C07_refines_packages_example :
  exists r, flatten pkg_ex false [47%positive] = Ok r /\
    map f_name (fst r) = [[41]; [44]; [46; 41]; [48; 41]; [48; 44]; [48; 46; 41]]%positive /\
    PV.Lib.Inst.inst pkg_ex [47%positive] = Some (map var_of (fst r), snd r) /\
    flatten pkg_ex true [47%positive] = Ok r.
Proof. eexists. split; [vm_compute; reflexivity | split; [reflexivity | split; vm_compute; reflexivity]]. Qed.
Print Assumptions C07_refines_packages_example.

(* flatten_extends_elems (step towards C07_refines_extends): one extends level — any number of extends
   clauses, each resolving (find_base, tree.py:277) to an extends-free class that is not the class itself,
   without clause modifiers.  flatten_extends returns the fold of merge_base over the bases in clause order
   (nested classes and symbols by OrderedDict.update, equations appended), then the class's own elements
   and the incoming environment: every inherited component is there exactly once (C07c), in this order. *)
Theorem C07_flatten_extends_elems (root : list cdef) (f : nat) (c : cdef) (lex : path) (menv : list marg)
        (bases : list (cdef * path)) :
  Forall2 (simple_base root c lex) (c_exts c) bases -> c_kind c <> kBuiltin ->
  flatten_extends root (S (S f)) c lex menv =
  let x := fold_left merge_base bases (mkExt (c_kind c) [] [] [] []) in
  Ok (mkExt (c_kind c)
        (od_update e_key Pos.eqb (x_classes x) (entries_of (lex ++ [c_name c]) (c_classes c)))
        (od_update s_name Pos.eqb (x_syms x) (c_syms c))
        (x_eqs x ++ c_eqs c) (x_menv x ++ menv)).
Proof. exact (flatten_extends_elems root f c lex menv bases). Qed.
Print Assumptions C07_flatten_extends_elems.

(* PARTIAL.  Proved here: the extends-free step of flatten_extends.  Proved above: C07_refines_flat (nested
   class definitions, no extends) and C07_refines_extends (extends, top-level libraries); NOT proved: extends
   clauses WITH modifiers and modifications in general (C08_refines).  Proved above: extends in
   package libraries (C07_refines_extends_packages, with C07_lex_consistent and the no-shadowing side
   condition).  Missing: extends in models that HAVE nested class definitions — there the instance
   dictionary holds the inherited classes (x_classes = the specification's all_classes, a classes
   analogue of fe_elems) and the definition-order rule applies;
   (iii) alias of alias and aliases with modifiers in the type definition (attribute lemmas of C08).  Missing for modifications
   (C08_refines): apply_args_leaf — the list build puts on a leaf, applied per scope by modify_symbol,
   equals leaf_attrs (outer ++ decl ++ type-definition entries) after resolution, under the hypotheses
   that exclude the recorded defect shapes.  Both comparisons are made on every run instead (check_case,
   check_spec). *)
Theorem C07_refines_partial (root : list cdef) (f : nat) (c : cdef) (lex : path) (menv : list marg) :
  c_exts c = [] -> c_kind c <> kBuiltin ->
  flatten_extends root (S f) c lex menv =
  Ok (mkExt (c_kind c)
        (od_update e_key Pos.eqb [] (entries_of (lex ++ [c_name c]) (c_classes c)))
        (od_update s_name Pos.eqb [] (c_syms c)) (c_eqs c) menv).
Proof. exact (flatten_extends_no_extends root f c lex menv). Qed.
Print Assumptions C07_refines_partial.

(* the recorded defect: package P { type T = Real(min=0); model B T t; end B; }  type T = Integer(max=7);
   model M extends P.B; end M;  — the class that declares `t` sees P.T (an alias of Real), but the flat
   model types t as Integer with max = 7 because the type is looked up from the deriving class M *)
Definition shadow_lib : list cdef := [(CDef 40%positive 18%positive [(CDef 41%positive 16%positive [] [([1%positive], [(MArg None [6%positive] [MExpr (ENum (0)%Z)])])] [] []); (CDef 42%positive 17%positive [] [] [(mkSym 43%positive [41%positive] [] [] [])] [])] [] [] []); (CDef 41%positive 16%positive [] [([2%positive], [(MArg None [7%positive] [MExpr (ENum (7)%Z)])])] [] []); (CDef 44%positive 17%positive [] [([40%positive; 42%positive], [])] [] [])].
Theorem C07_refuted_shadowing :
  exists (lib : list cdef) (top : path),
    (* the declared type T of t, looked up in the scope of the declaring class P.B, extends Real *)
    match lookup (lex_scope lib [40; 42]%positive) [41%positive] with
    | Some (c, lex, _, _) => map fst (c_exts c) = [[iReal]] /\ lex = [40%positive]
    | None => False
    end /\
    (* but the flat model says Integer, max = 7 *)
    model_outcome lib top = OFlat [([43%positive], [iInteger], [], [], [(aMax, ENum 7)], 0%nat)] [].
Proof.
  exists shadow_lib, [44%positive]. split; vm_compute; [split; reflexivity | reflexivity].
Qed.
Print Assumptions C07_refuted_shadowing.

(* non-trivial instance: model A input Real x; output Real y; parameter Real k = 2; equation y = k*x; end A;
   model M A a1; A a2; input Real u; output Real o; equation a1.x = u; a2.x = a1.y; o = a2.y; end M; *)
Definition io_lib : list cdef := [(CDef 43%positive 17%positive [] [] [(mkSym 42%positive [1%positive] [19%positive] [] []); (mkSym 40%positive [1%positive] [20%positive] [] []); (mkSym 41%positive [1%positive] [21%positive] [] [(MArg None [5%positive] [MExpr (ENum (2)%Z)])])] [((ERef [40%positive] []), (EOp 32%positive [(ERef [41%positive] []); (ERef [42%positive] [])]))]); (CDef 48%positive 17%positive [] [] [(mkSym 44%positive [43%positive] [] [] []); (mkSym 46%positive [43%positive] [] [] []); (mkSym 45%positive [1%positive] [19%positive] [] []); (mkSym 47%positive [1%positive] [20%positive] [] [])] [((ERef [44%positive; 42%positive] []), (ERef [45%positive] [])); ((ERef [46%positive; 42%positive] []), (ERef [44%positive; 40%positive] [])); ((ERef [47%positive] []), (ERef [46%positive; 40%positive] []))])].
Example C07_example :
  match model_outcome io_lib [48%positive] with
  | OFlat syms eqs =>
      map (fun s => match s with (n, _, pre, _, _, _) => (n, pre) end) syms =
        [([44; 42], []); ([44; 40], []); ([44; 41], [pParam]);
         ([46; 42], []); ([46; 40], []); ([46; 41], [pParam]);
         ([45], [pInput]); ([47], [pOutput])]%positive
      /\ length eqs = 5%nat
  | OErr _ => False
  end.
Proof. vm_compute. split; reflexivity. Qed.
Print Assumptions C07_example.
