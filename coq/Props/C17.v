(* C17 — alias relation is a signed equivalence under any operation history.
   Property theorems only; proofs live in Proofs/C17_*.v. *)
From stdpp Require Import gmap.
From PV Require Import Lib.Closure Model.C17_alias Proofs.C17_alias Proofs.C17_canon Proofs.C17_remove.
From PV Require Import Model.C17_heap Proofs.C17_heap.

(* aliases() returns exactly the signed equivalence class: for every legal history of adds
   (no add relating a variable to its own negation), of any length, over any names *)
Theorem C17_aliases_closure (P : list (svar * svar)) (k v : svar) :
  legalR P empty_rel →
  v ∈ q_aliases (runR P empty_rel) k ↔ eqv (dbl P) k v.
Proof. exact (aliases_closure_rel P k v). Qed.
Print Assumptions C17_aliases_closure.

(* canonical_signed(): same class => same canonical name and sign; mirrored class => same
   name, opposite sign; and the canonical name (with that sign) is itself a member *)
Theorem C17_canonical_consistent (P : list (svar * svar)) (k v : svar) :
  legalR P empty_rel →
  let r := runR P empty_rel in
  (v ∈ q_aliases r k → q_canon r v = q_canon r k) ∧
  (tog v ∈ q_aliases r k → q_canon r v = flipc (q_canon r k)) ∧
  ((q_canon r k).2, (q_canon r k).1) ∈ q_aliases r k.
Proof. exact (canonical_consistent P k v). Qed.
Print Assumptions C17_canonical_consistent.

(* the structural invariants hold in every reachable state *)
Theorem C17_invariants (P : list (svar * svar)) :
  legalR P empty_rel → al_ok (runR P empty_rel) ∧ canon_ok (runR P empty_rel).
Proof. exact (runR_ok P empty_rel al_ok_empty canon_ok_empty). Qed.
Print Assumptions C17_invariants.

(* non-vacuity: a concrete legal history with a negative alias *)
Example C17_legal_example :
  legalR [((false, 1%positive), (true, 2%positive)); ((false, 3%positive), (false, 2%positive))] empty_rel.
Proof. vm_compute. repeat split; intros H; discriminate H. Qed.
Print Assumptions C17_legal_example.

(* every relation reachable by ANY legal history of add / remove / copy operations over any
   number of relations (legal = no Add relates a variable to its own negation) satisfies all
   invariants: aliases() is a partition closed under negation with no variable aliased to its own
   negation, and canonical_signed() is class-consistent with consistent signs *)
Theorem C17_history_invariants (ops : list op) :
  legal_ops [empty_rel] ops → Forall (fun r => al_ok r ∧ canon_ok r) (run_ops ops).
Proof. exact (history_invariants ops). Qed.
Print Assumptions C17_history_invariants.

(* remove(a) of a canonical variable resets exactly its class and the mirror class to
   singletons (aliases and canonical names), leaves every other answer unchanged, and drops a
   from the canonical set *)
Theorem C17_remove (r : rel) (p : positive) (k : svar) : al_ok r ∧ canon_ok r → p ∈ cv r →
  let R := q_aliases r (false, p) ∪ q_aliases r (true, p) in
  (k ∈ R → q_aliases (remove r (false, p)) k = {[k]} ∧ q_canon (remove r (false, p)) k = (k.2, k.1)) ∧
  (k ∉ R → q_aliases (remove r (false, p)) k = q_aliases r k ∧ q_canon (remove r (false, p)) k = q_canon r k) ∧
  cv (remove r (false, p)) = cv r ∖ {[p]}.
Proof. exact (remove_spec r p k). Qed.
Print Assumptions C17_remove.

(* a copy evolves independently of its source: an operation addressed to relation i changes no
   other existing relation, and a fresh copy equals its source (value level; the sharing of the
   Python set objects is covered by the correspondence check) *)
Theorem C17_copy_independent (rs : list rel) (o : op) (j : nat) (r : rel) :
  rs !! j = Some r →
  match o with Add i _ _ | Remove i _ => i ≠ j | Copy _ => True end →
  step rs o !! j = Some r.
Proof. exact (step_frame rs o j r). Qed.
Print Assumptions C17_copy_independent.

Theorem C17_copy_equal (rs : list rel) (i : nat) (r : rel) :
  rs !! i = Some r → step rs (Copy i) !! length rs = Some r.
Proof. exact (copy_equal rs i r). Qed.
Print Assumptions C17_copy_equal.

(* ================= heap level: the sharing of Python's mutable set objects =================
   Model/C17_heap.v models `_aliases` as key -> location -> set, in-place `|=`, fresh `{a}`
   objects from aliases(), the re-pointing loop, and copy() giving every key its own fresh cell.
   `hrun ops` runs a history there; `run_ops ops` runs it on the value-level model above. *)

(* LOCK-STEP REFINEMENT: after ANY legal history of add / remove / copy over any number of
   relations, every relation of the heap-level world answers aliases(), canonical_signed() and
   canonical_variables exactly like the value-level relation with the same index — so all the
   value-level theorems above (closure, canonical consistency, invariants, remove, copy
   independence) transfer to the model with real object sharing *)
Theorem C17_heap_refines (ops : list op) : legal_ops [empty_rel] ops →
  ∀ (i : nat) (hr : hrel) (r : rel), rels (hrun ops) !! i = Some hr → run_ops ops !! i = Some r →
  (∀ k : svar, hcls (hrun ops) hr k = cls (al r) k) ∧ hcm hr = cm r ∧ hcv hr = cv r.
Proof. exact (heap_refines ops). Qed.
Print Assumptions C17_heap_refines.

(* ... and both runs have the same number of relations (the refinement is not vacuous) *)
Theorem C17_heap_same_length (ops : list op) : legal_ops [empty_rel] ops →
  length (rels (hrun ops)) = length (run_ops ops).
Proof. exact (heap_same_length ops). Qed.
Print Assumptions C17_heap_same_length.

(* the sharing discipline in every reachable state: a set object is never reachable from two
   different relations (OWNERSHIP), two keys of one relation that share an object are aliases of
   each other (SHARERS ARE MEMBERS), and every stored pointer is allocated and below `next` *)
Theorem C17_heap_sharing (ops : list op) : legal_ops [empty_rel] ops →
  let w := hrun ops in
  (∀ (i j : nat) (h1 h2 : hrel) (k1 k2 : svar) (l : loc),
     rels w !! i = Some h1 → rels w !! j = Some h2 →
     ptr h1 !! k1 = Some l → ptr h2 !! k2 = Some l → i = j ∧ k2 ∈ hcls w h1 k1) ∧
  (∀ (i : nat) (hr : hrel) (k : svar) (l : loc),
     rels w !! i = Some hr → ptr hr !! k = Some l → (l < next w)%positive ∧ is_Some (heap w !! l)).
Proof. exact (heap_sharing ops). Qed.
Print Assumptions C17_heap_sharing.

(* after Copy i the new relation has the source's keys, canonical data and aliases() values, and
   its pointers are pairwise distinct, freshly allocated cells, disjoint from every older relation's *)
Theorem C17_heap_copy_fresh (ops : list op) (i : nat) (hr : hrel) : legal_ops [empty_rel] ops →
  let w := hrun ops in
  let w' := hstep w (Copy i) in
  rels w !! i = Some hr →
  ∃ hr' : hrel, rels w' = rels w ++ [hr'] ∧
    hcm hr' = hcm hr ∧ hcv hr' = hcv hr ∧
    (∀ k : svar, ptr hr' !! k = None ↔ ptr hr !! k = None) ∧
    (∀ k : svar, hcls w' hr' k = hcls w hr k) ∧
    (∀ (k1 k2 : svar) (l : loc), ptr hr' !! k1 = Some l → ptr hr' !! k2 = Some l → k1 = k2) ∧
    (∀ (k : svar) (l : loc), ptr hr' !! k = Some l →
       (next w ≤ l)%positive ∧ (l < next w')%positive ∧ heap w !! l = None ∧ is_Some (heap w' !! l)) ∧
    (∀ (j : nat) (hrj : hrel) (k k' : svar) (l : loc),
       rels w !! j = Some hrj → ptr hrj !! k = Some l → ptr hr' !! k' ≠ Some l).
Proof. exact (heap_copy_fresh ops i hr). Qed.
Print Assumptions C17_heap_copy_fresh.

(* the mutant "shallow copy()" (Copy shares the source's pointers) does NOT refine the value
   level: witness [add(x1,x2); copy; add(x1,x3) on the source], observed on the copy *)
Theorem C17_shallow_copy_refuted :
  ∃ ops : list op, legal_ops [empty_rel] ops ∧
    ¬ (∀ (i : nat) (hr : hrel) (r : rel),
         rels (hrun_shallow ops) !! i = Some hr → run_ops ops !! i = Some r →
         (∀ k : svar, hcls (hrun_shallow ops) hr k = cls (al r) k) ∧ hcm hr = cm r ∧ hcv hr = cv r).
Proof. exact shallow_copy_refuted. Qed.
Print Assumptions C17_shallow_copy_refuted.

(* non-vacuity: that same history is legal, and with the faithful copy() relation 1 exists and agrees *)
Example C17_heap_example :
  let a : svar := (false, 1%positive) in let b : svar := (false, 2%positive) in let c : svar := (false, 3%positive) in
  let ops := [Add 0 a b; Copy 0; Add 0 a c] in
  refines_atb (hrun ops) (run_ops ops) 1 a = true ∧ legal_opsb [empty_rel] ops = true.
Proof. exact deep_copy_same_history_ok. Qed.
Print Assumptions C17_heap_example.
