(* C17 — alias relation is a signed equivalence under any operation history.
   Property theorems only; proofs live in Proofs/C17_*.v. *)
From stdpp Require Import gmap.
From PV Require Import Lib.Closure Model.C17_alias Proofs.C17_alias Proofs.C17_canon Proofs.C17_remove.

(* aliases() returns exactly the signed equivalence class: for every legal history of adds
   (no add relating a variable to its own negation), of any length, over any names *)
Theorem C17_aliases_closure (P : list (svar * svar)) (k v : svar) :
  legalR P empty_rel →
  v ∈ q_aliases (runR P empty_rel) k ↔ eqv (dbl P) k v.
Proof. exact (aliases_closure_rel P k v). Qed.
Print Assumptions C17_aliases_closure.

(* canonical_signed(): same class => same canonical name and sign; mirrored class => same
   name, opposite sign; and the canonical name (with that sign) is itself a member *)
Theorem C17_canonical_consistent (P : list (svar * svar)) (k v : svar) :
  legalR P empty_rel →
  let r := runR P empty_rel in
  (v ∈ q_aliases r k → q_canon r v = q_canon r k) ∧
  (tog v ∈ q_aliases r k → q_canon r v = flipc (q_canon r k)) ∧
  ((q_canon r k).2, (q_canon r k).1) ∈ q_aliases r k.
Proof. exact (canonical_consistent P k v). Qed.
Print Assumptions C17_canonical_consistent.

(* the structural invariants hold in every reachable state *)
Theorem C17_invariants (P : list (svar * svar)) :
  legalR P empty_rel → al_ok (runR P empty_rel) ∧ canon_ok (runR P empty_rel).
Proof. exact (runR_ok P empty_rel al_ok_empty canon_ok_empty). Qed.
Print Assumptions C17_invariants.

(* non-vacuity: a concrete legal history with a negative alias *)
Example C17_legal_example :
  legalR [((false, 1%positive), (true, 2%positive)); ((false, 3%positive), (false, 2%positive))] empty_rel.
Proof. vm_compute. repeat split; intros H; discriminate H. Qed.
Print Assumptions C17_legal_example.

(* every relation reachable by ANY legal history of add / remove / copy operations over any
   number of relations (legal = no Add relates a variable to its own negation) satisfies all
   invariants: aliases() is a partition closed under negation with no variable aliased to its own
   negation, and canonical_signed() is class-consistent with consistent signs *)
Theorem C17_history_invariants (ops : list op) :
  legal_ops [empty_rel] ops → Forall (fun r => al_ok r ∧ canon_ok r) (run_ops ops).
Proof. exact (history_invariants ops). Qed.
Print Assumptions C17_history_invariants.

(* remove(a) of a canonical variable resets exactly its class and the mirror class to
   singletons (aliases and canonical names), leaves every other answer unchanged, and drops a
   from the canonical set *)
Theorem C17_remove (r : rel) (p : positive) (k : svar) : al_ok r ∧ canon_ok r → p ∈ cv r →
  let R := q_aliases r (false, p) ∪ q_aliases r (true, p) in
  (k ∈ R → q_aliases (remove r (false, p)) k = {[k]} ∧ q_canon (remove r (false, p)) k = (k.2, k.1)) ∧
  (k ∉ R → q_aliases (remove r (false, p)) k = q_aliases r k ∧ q_canon (remove r (false, p)) k = q_canon r k) ∧
  cv (remove r (false, p)) = cv r ∖ {[p]}.
Proof. exact (remove_spec r p k). Qed.
Print Assumptions C17_remove.

(* a copy evolves independently of its source: an operation addressed to relation i changes no
   other existing relation, and a fresh copy equals its source (value level; the sharing of the
   Python set objects is covered by the correspondence check) *)
Theorem C17_copy_independent (rs : list rel) (o : op) (j : nat) (r : rel) :
  rs !! j = Some r →
  match o with Add i _ _ | Remove i _ => i ≠ j | Copy _ => True end →
  step rs o !! j = Some r.
Proof. exact (step_frame rs o j r). Qed.
Print Assumptions C17_copy_independent.

Theorem C17_copy_equal (rs : list rel) (i : nat) (r : rel) :
  rs !! i = Some r → step rs (Copy i) !! length rs = Some r.
Proof. exact (copy_equal rs i r). Qed.
Print Assumptions C17_copy_equal.
