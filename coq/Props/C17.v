(* C17 — alias relation is a signed equivalence under any operation history.
   Property theorems only; proofs live in Proofs/C17_*.v. *)
From stdpp Require Import gmap.
From PV Require Import Lib.Closure Model.C17_alias Proofs.C17_alias Proofs.C17_canon.

(* aliases() returns exactly the signed equivalence class: for every legal history of adds
   (no add relating a variable to its own negation), of any length, over any names *)
Theorem C17_aliases_closure (P : list (svar * svar)) (k v : svar) :
  legalR P empty_rel →
  v ∈ q_aliases (runR P empty_rel) k ↔ eqv (dbl P) k v.
Proof. exact (aliases_closure_rel P k v). Qed.
Print Assumptions C17_aliases_closure.

(* canonical_signed(): same class => same canonical name and sign; mirrored class => same
   name, opposite sign; and the canonical name (with that sign) is itself a member *)
Theorem C17_canonical_consistent (P : list (svar * svar)) (k v : svar) :
  legalR P empty_rel →
  let r := runR P empty_rel in
  (v ∈ q_aliases r k → q_canon r v = q_canon r k) ∧
  (tog v ∈ q_aliases r k → q_canon r v = flipc (q_canon r k)) ∧
  ((q_canon r k).2, (q_canon r k).1) ∈ q_aliases r k.
Proof. exact (canonical_consistent P k v). Qed.
Print Assumptions C17_canonical_consistent.

(* the structural invariants hold in every reachable state *)
Theorem C17_invariants (P : list (svar * svar)) :
  legalR P empty_rel → al_ok (runR P empty_rel) ∧ canon_ok (runR P empty_rel).
Proof. exact (runR_ok P empty_rel al_ok_empty canon_ok_empty). Qed.
Print Assumptions C17_invariants.

(* non-vacuity: a concrete legal history with a negative alias *)
Example C17_legal_example :
  legalR [((false, 1%positive), (true, 2%positive)); ((false, 3%positive), (false, 2%positive))] empty_rel.
Proof. vm_compute. repeat split; intros H; discriminate H. Qed.
Print Assumptions C17_legal_example.
