(* C01 — parse cache is transparent over any cache history.
   Property theorems only; proofs live in Proofs/C01_cache.v, the model in Model/C01_cache.v.

   Reading guide.  [sy t] = "text t has no syntax error" (what _parse decides); [caught e] = the except
   clause around pickle.loads catches exception class e; the boolean after it = parse() falls back to a
   fresh parse when the cache lookup raises sqlite3.DatabaseError in a process that has already checked
   the database.  Both are re-derived from /repo on every run (run/C01/Gen.v, Tie_C01_*.v).
   [transparent sy caught flag s h]: started in state s, every [Parse t] of history h returns
   [if sy t then OTree t else ONoTree] — never another tree, never an exception.
   [Inv sy s]: every row of the database of s sits under the key of a text that parses and holds that
   text's own tree or something that does not unpickle.  [legal h]: the history uses only the faults
   the property lists (no valid pickle of a different object planted in a row). *)
From Coq Require Import List Bool ZArith.
Import ListNotations.
Open Scope Z_scope.
From PV Require Import Model.C01_cache Proofs.C01_cache.

(* Full statement, for a source whose unpickle handler catches every exception class and which handles
   DatabaseError after initialisation: ANY start state with sound rows (any prior cache folder, any
   process state, any clock, any version), ANY legal history of any length. *)
Theorem C01_transparent (sy : nat -> bool) (caught : exn -> bool) (s : state) (h : list op) :
  (forall e, caught e = true) -> legal h = true -> Inv sy s -> transparent sy caught true s h.
Proof. intros Hc. exact (transparent_fixed sy caught true Hc eq_refl s h). Qed.
Print Assumptions C01_transparent.

(* A failed parse is never stored and what is stored is the text's own tree (or does not unpickle): in
   every state reached by a prefix of a legal history — whatever is caught, whatever the flag. *)
Theorem C01_rows_sound (sy : nat -> bool) (caught : exn -> bool) (flag : bool) (s : state) (h1 h2 : list op) :
  legal (h1 ++ h2) = true -> Inv sy s -> Inv sy (exec sy caught flag s h1).
Proof. exact (rows_sound sy caught flag s h1 h2). Qed.
Print Assumptions C01_rows_sound.

(* The source as it is while the DatabaseError repair is not committed (flag = false; holds for any
   flag): transparent from a freshly started process PROVIDED every fault that breaks the models table or
   the file and hits an already initialised process is followed by a Reload before the next caching
   parse, and no unrepairable fault occurs (path replaced by a directory, a VIEW named models: [benign],
   [persistent]).  Partial: the hypotheses carve out exactly the input class of the finding
   db-fault-after-init-same-process (fixed by a7369f2; the full theorem above covers these faults too). *)
Theorem C01_transparent_reload_partial (sy : nat -> bool) (caught : exn -> bool) (flag : bool)
        (s : state) (h : list op) :
  (forall e, caught e = true) -> legal h = true -> Inv sy s -> s_init s = false -> benign (s_db s) ->
  disciplined false false (is_clean (s_ver s)) h = true -> transparent sy caught flag s h.
Proof. intros Hc. exact (transparent_reload sy caught flag Hc s h). Qed.
Print Assumptions C01_transparent_reload_partial.

(* Without that handling the full statement is false: [parse t; replace the file by garbage; parse t]. *)
Theorem C01_transparent_refuted_dberr (sy : nat -> bool) (caught : exn -> bool) :
  exists h, legal h = true /\ ~ transparent sy caught false init_state h.
Proof. exact (refuted_dberr sy caught false eq_refl). Qed.
Print Assumptions C01_transparent_refuted_dberr.

(* With a handler that misses class e (the tree before 9726f34 caught UnpicklingError only) it is false:
   [parse t; damage the entry so that unpickling raises e; parse t]. *)
Theorem C01_transparent_refuted_uncaught (sy : nat -> bool) (caught : exn -> bool) (flag : bool) (e : exn) :
  caught e = false -> sy 0%nat = true ->
  legal (witness_uncaught e) = true /\ ~ transparent sy caught flag init_state (witness_uncaught e).
Proof. exact (refuted_uncaught sy caught flag e). Qed.
Print Assumptions C01_transparent_refuted_uncaught.

(* non-vacuity: a concrete history with an entry fault, a file fault, a layout fault, a version change and
   an expiry that satisfies every hypothesis above (including the reload discipline), from the empty folder *)
Example C01_example :
  let h := [Parse 0 (30 * DAY) false; Parse 1 (30 * DAY) true; CorruptEntry 0 (Raises EOFError); Parse 0 (30 * DAY) false;
            CorruptFile; Reload; Parse 0 DAY false; SetVersion (Clean 1); Parse 0 (30 * DAY) false;
            CorruptLayout LModelsWrong; Advance (31 * DAY); Reload; Parse 1 (10 ^ 30) false; Parse 0 (-5) true] in
  legal h = true /\ Inv (fun t => Nat.eqb t 0) init_state /\ s_init init_state = false /\ benign (s_db init_state) /\
  disciplined false false (is_clean (s_ver init_state)) h = true /\
  run (fun t => Nat.eqb t 0) (fun _ => true) false init_state h =
    [OTree 0; ONoTree; ONone; OTree 0; ONone; ONone; OTree 0; ONone; OTree 0; ONone; ONone; ONone; ONoTree; OTree 0].
Proof. vm_compute. repeat split; exact I. Qed.
Print Assumptions C01_example.

(* the unrepairable faults (directory in place of the file, a view named models) in a concrete history, for a source
   with the DatabaseError fall-back: outputs as specified although nothing can be cached while the fault lasts *)
Example C01_example_unrepairable :
  let h := [Parse 0 (30 * DAY) false; CorruptLayout LModelsView; Parse 0 (30 * DAY) false; Parse 1 (30 * DAY) true;
            Reload; Parse 0 (30 * DAY) false; MakeDir; Parse 0 0 false; Reload; Parse 1 0 false; DeleteFile;
            Parse 0 (30 * DAY) false; Parse 0 (30 * DAY) false] in
  legal h = true /\
  run (fun t => Nat.eqb t 0) (fun _ => true) true init_state h =
    [OTree 0; ONone; OTree 0; ONoTree; ONone; OTree 0; ONone; OTree 0; ONone; ONoTree; ONone; OTree 0; OTree 0].
Proof. vm_compute. split; reflexivity. Qed.
Print Assumptions C01_example_unrepairable.
