(* C03 — parsed expressions follow Modelica precedence and literal values.
   Property theorems only; proofs live in Proofs/C03_prec.v (round trip) and Proofs/C03_value.v.
   Reading: `pr 0 e` is the text of the source tree e printed by the grammar levels of the Modelica
   SPECIFICATION (minimal parentheses plus any redundant ones, `SPar`); `parse_antlr t` is the
   pymoca parser (ANTLR4 precedence climbing driven by the table t of alternatives of rule `expr`
   in Modelica.g4); `strip e` is the tree the specification gives that text. *)
From Coq Require Import List Arith ZArith QArith Bool.
From PV Require Import Model.C03_prec Lib.C03_spec Proofs.C03_prec Proofs.C03_value.
Import ListNotations.

(* For every table that agrees with Modelica.g4's on operator levels (checked for the regenerated
   table on every run, run/C03/Tie_C03.v), every source tree over atoms, unary + - not, every binary
   operator, ^ .^, if-then-else and redundant parentheses: the parser accepts the printed text and returns
   `resign e` = the intended tree except that a sign written in front of an unparenthesised
   product sits on the left-most factor.
   _partial: function calls and `elseif` branches are not covered by this theorem; they are in
   the executable model and are checked against the real parser and the value oracle on every run. *)
Theorem C03_roundtrip_partial (t : table) (e : sexpr) :
  tab_ok t = true -> wf e = true ->
  exists fuel, parse_antlr t fuel (pr 0%nat e) = Some (resign e).
Proof. exact (roundtrip t e). Qed.
Print Assumptions C03_roundtrip_partial.

(* the same with the fuel made explicit: every sufficiently large fuel gives that answer *)
Theorem C03_roundtrip_fuel_partial (t : table) (e : sexpr) :
  tab_ok t = true -> wf e = true ->
  exists fuel, forall F, (fuel <= F)%nat -> parse_antlr t F (pr 0%nat e) = Some (resign e).
Proof. exact (roundtrip_fuel t e). Qed.
Print Assumptions C03_roundtrip_fuel_partial.

(* ... and that tree has the value of the intended tree, for every valuation of the variables and
   every interpretation of the functions (exact rationals and Booleans, strict errors). Together:
   the parsed tree evaluates to the value Modelica's precedence and associativity give the text. *)
Theorem C03_value (rho : positive -> val) (fn : fname -> list val -> val) (e : sexpr) :
  eval rho fn (resign e) = eval rho fn (strip e).
Proof. exact (value_resign rho fn e). Qed.
Print Assumptions C03_value.

(* literals: an all-digit text is the integer it denotes in positional notation ... *)
Theorem C03_literals_int (ds : digits) : num_value (mkNum ds None None) = VInt (posval ds).
Proof. exact (literal_int ds). Qed.
Print Assumptions C03_literals_int.

(* ... a text with a fraction and/or exponent is the real (int + frac/10^|frac|) * 10^exp
   (binary64 rounding of float() is not modelled) *)
Theorem C03_literals_real (ip : digits) (fr : option digits) (ex : option (bool * digits)) :
  (fr <> None \/ ex <> None) ->
  exists q, num_value (mkNum ip fr ex) = VReal q /\ Qeq q (dec_value ip fr ex).
Proof. exact (literal_real ip fr ex). Qed.
Print Assumptions C03_literals_real.

(* strings: exact for texts without escape sequences; REFUTED in general (known finding
   string-escape-not-decoded: the source text a, backslash, double quote, b stays 4 characters) *)
Theorem C03_string_escape_free (raw : string) :
  escape_free raw = true -> str_value raw = VStr (decode raw).
Proof. exact (string_escape_free raw). Qed.
Print Assumptions C03_string_escape_free.

Theorem C03_string_escape_refuted : exists raw, str_value raw <> VStr (decode raw).
Proof. exact string_escape_refuted. Qed.
Print Assumptions C03_string_escape_refuted.

(* non-vacuity: the text  - a * b ^ 2 + c  (e = (-(a * b^2)) + c) on the real table *)
Example C03_example :
  let a := SAtom (AVar 1%positive) in let b := SAtom (AVar 2%positive) in let c := SAtom (AVar 3%positive) in
  let two := SAtom (ANum (mkNum [2%nat] None None)) in
  let e := SBin SPlus (SUn SMinus (SBin SMul a (SBin SPow b two))) c in
  tab_ok g4 = true /\ wf e = true /\
  parse_antlr g4 100%nat (pr 0%nat e) =
    Some (Bin SPlus (Bin SMul (Un SMinus (Var 1%positive)) (Bin SPow (Var 2%positive) (Lit (VInt 2%N)))) (Var 3%positive)).
Proof. vm_compute. repeat split. Qed.
Print Assumptions C03_example.
