(* C03 — parsed expressions follow Modelica precedence and literal values.
   Property theorems only; proofs live in Proofs/C03_prec.v (round trip) and Proofs/C03_value.v.
   Reading: `pr 0 e` is the text of the source tree e printed by the grammar levels of the Modelica
   SPECIFICATION (minimal parentheses plus any redundant ones, `SPar`); `parse_antlr t lt` is the
   pymoca parser: ANTLR4 precedence climbing driven by the table t of alternatives of rule `expr`
   in Modelica.g4, nodes built as the listener table lt (parser.py exit* handlers) says;
   `strip e` is the tree the specification gives that text.
   Both tables are regenerated from the sources on every run and the side conditions `tab_ok`,
   `listener_ok` are checked by vm_compute (Tie_C03.v). *)
From Coq Require Import List Arith ZArith QArith Bool.
From PV Require Import Model.C03_prec Lib.C03_spec Proofs.C03_prec Proofs.C03_value.
Import ListNotations.

(* The whole expression language of the property: variables, literals, unary + - not, the 16 binary
   operators, ^ .^, if-then-{elseif-then}-else, calls f(e1, ..., en) and der(..) whose arguments are
   full expressions, and arbitrarily placed redundant parentheses.  The parser accepts the printed
   text and returns `resign e` = the intended tree except that a sign written in front of an
   unparenthesised product sits on the left-most factor. *)
Theorem C03_roundtrip (t : table) (lt : ltable) (e : sexpr) :
  tab_ok t = true -> listener_ok lt = true -> wf e = true ->
  exists fuel, parse_antlr t lt fuel (pr 0%nat e) = Some (resign e).
Proof. exact (roundtrip t lt e). Qed.
Print Assumptions C03_roundtrip.

(* the same with the fuel made explicit: every sufficiently large fuel gives that answer *)
Theorem C03_roundtrip_fuel (t : table) (lt : ltable) (e : sexpr) :
  tab_ok t = true -> listener_ok lt = true -> wf e = true ->
  exists fuel, forall F, (fuel <= F)%nat -> parse_antlr t lt F (pr 0%nat e) = Some (resign e).
Proof. exact (roundtrip_fuel t lt e). Qed.
Print Assumptions C03_roundtrip_fuel.

(* ... and that tree has the value of the intended tree, for every valuation of the variables and
   every interpretation of the called functions (exact rationals and Booleans, strict errors).
   Together: the parsed tree evaluates to the value Modelica's precedence and associativity give. *)
Theorem C03_value (rho : positive -> val) (fn : fname -> list val -> val) (e : sexpr) :
  eval rho fn (resign e) = eval rho fn (strip e).
Proof. exact (value_resign rho fn e). Qed.
Print Assumptions C03_value.

(* literals: an all-digit text is the integer it denotes in positional notation ... *)
Theorem C03_literals_int (lt : ltable) (ds : digits) :
  listener_ok lt = true -> num_value_lt lt (mkNum ds None None) = VInt (posval ds).
Proof. exact (literal_int_lt lt ds). Qed.
Print Assumptions C03_literals_int.

(* ... a text with a fraction and/or exponent is the real (int + frac/10^|frac|) * 10^exp
   (binary64 rounding of float() is not modelled) *)
Theorem C03_literals_real (lt : ltable) (ip : digits) (fr : option digits) (ex : option (bool * digits)) :
  listener_ok lt = true -> (fr <> None \/ ex <> None) ->
  exists q, num_value_lt lt (mkNum ip fr ex) = VReal q /\ Qeq q (dec_value ip fr ex).
Proof. exact (literal_real_lt lt ip fr ex). Qed.
Print Assumptions C03_literals_real.

(* strings: what the code does is exactly the raw body between the outer quotes ... *)
Theorem C03_string_raw (lt : ltable) (raw : string) :
  listener_ok lt = true -> str_value_lt lt raw = VStr raw.
Proof. exact (string_raw lt raw). Qed.
Print Assumptions C03_string_raw.

(* ... which is the exact value when the body has no escape sequence ... *)
Theorem C03_string_escape_free (raw : string) :
  escape_free raw = true -> str_value raw = VStr (decode raw).
Proof. exact (string_escape_free raw). Qed.
Print Assumptions C03_string_escape_free.

(* ... and is NOT the exact value for EVERY body containing an escape sequence
   (known finding string-escape-not-decoded) *)
Theorem C03_string_escape_refuted (lt : ltable) (raw : string) :
  listener_ok lt = true -> has_escape raw = true -> str_value_lt lt raw <> VStr (decode raw).
Proof. exact (string_escape_always_wrong_lt lt raw). Qed.
Print Assumptions C03_string_escape_refuted.

Theorem C03_string_escape_refuted_witness : exists raw, str_value raw <> VStr (decode raw).
Proof. exact string_escape_refuted. Qed.
Print Assumptions C03_string_escape_refuted_witness.

(* non-vacuity: the text
     if p then - a * b ^ 2 + c elseif q then max ( a , ( if p then b else c ) ) else der ( a )
   on the real tables *)
Example C03_example :
  let a := SAtom (AVar 1%positive) in let b := SAtom (AVar 2%positive) in let c := SAtom (AVar 3%positive) in
  let p := SAtom (AVar 4%positive) in let q := SAtom (AVar 5%positive) in
  let two := SAtom (ANum (mkNum [2%nat] None None)) in
  let e := SIf p (SBin SPlus (SUn SMinus (SBin SMul a (SBin SPow b two))) c)
               [(q, SCall (FName 6%positive) [a; SIf p b [] c])]
               (SCall FDer [a]) in
  tab_ok g4 = true /\ listener_ok std_lt = true /\ wf e = true /\
  parse_antlr g4 std_lt 200%nat (pr 0%nat e) =
    Some (IfE [Var 4%positive; Var 5%positive]
              [Bin SPlus (Bin SMul (Un SMinus (Var 1%positive)) (Bin SPow (Var 2%positive) (Lit (VInt 2%N)))) (Var 3%positive);
               Call (FName 6%positive) [Var 1%positive; IfE [Var 4%positive] [Var 2%positive; Var 3%positive]];
               Call FDer [Var 1%positive]]).
Proof. vm_compute. repeat split. Qed.
Print Assumptions C03_example.
