(* C18 — vector expansion is a faithful renaming to scalars.
   Property theorems only; proofs live in Proofs/C18_expand.v; the model (Model/C18_expand.v) mirrors
   Model._expand_vectors and is compared with the real code on every run (check_case). *)
From Coq Require Import String List Arith ZArith.
From PV Require Import Model.C18_expand Proofs.C18_expand.
Import ListNotations.
Open Scope nat_scope.

(* element |-> scalar name is a bijection between the in-range index tuples of the array (for every
   shape: any number of nested components, any rank, der(...) wrapped or a delay state) and the
   generated names: np.ndindex lists exactly the tuples below the dimensions, once each; there are
   prod(dims) names; no two elements share a name *)
Theorem C18_bijection (name : string) (s : vshape) (names : list string) :
  opt_all (map (scalar_name name s) (ndindex (iter_dims s))) = Some names ->
  let dims := iter_dims s in
  (forall idx, In idx (ndindex dims) <-> Forall2 lt idx dims)
  /\ NoDup (ndindex dims)
  /\ map Some names = map (scalar_name name s) (ndindex dims)
  /\ length names = product dims
  /\ NoDup names
  /\ (forall i1 i2 n, Forall2 lt i1 dims -> Forall2 lt i2 dims ->
        scalar_name name s i1 = Some n -> scalar_name name s i2 = Some n -> i1 = i2).
Proof. exact (bijection name s names). Qed.
Print Assumptions C18_bijection.

(* ... and these are the names of the expanded variables, with prod(dims) of them *)
Theorem C18_expand_var_names (v : uvar) ex :
  expand_var v = Some ex ->
  let idxs := ndindex (iter_dims (ushape v)) in
  opt_all (map (scalar_name (uname v) (ushape v)) idxs) = Some (map fst ex)
  /\ map snd ex = map (fun idx => map (fun a => sel_attr a idx) (uattrs v)) idxs
  /\ length ex = product (iter_dims (ushape v)).
Proof. exact (expand_var_spec v ex). Qed.
Print Assumptions C18_expand_var_names.

(* indices in names are 1-based Modelica indices *)
Theorem C18_one_based (n : string) (i j d1 d2 : nat) :
  render [n] [[d1; d2]] [i; j]
  = (n ++ "[" ++ show_nat (i + 1) ++ "," ++ show_nat (j + 1) ++ "]")%string.
Proof. exact (one_based n i j d1 d2). Qed.
Print Assumptions C18_one_based.

(* the matrix substituted for an n x m symbol, reshape(vertcat(scalars), (m, n)).T with CasADi's
   column-major reshape, has at (i, j) the scalar enumerated at position i*m+j, which is the one
   np.ndindex produces for the index [i; j] (named [i+1, j+1]); for all n, m *)
Theorem C18_layout (names : list string) (n m i j : nat) :
  length names = n * m -> i < n -> j < m ->
  mget (subst_matrix names n m) i j = nth (j + i * m) names EmptyString
  /\ nth (j + i * m) (ndindex [n; m]) [] = [i; j]
  /\ m_rows (subst_matrix names n m) = n /\ m_cols (subst_matrix names n m) = m.
Proof. exact (layout names n m i j). Qed.
Print Assumptions C18_layout.

(* each scalar carries the matching element of an array attribute, or the scalar:
   - a list attribute of the full rank: the scalars, in enumeration order, carry the row-major
     flattening of the list;   - a scalar attribute: every scalar carries it;
   - a CasADi matrix attribute (DM / MX) of an n1 x n2 array: element (i, j); of a length-n array
     given as a column: element k *)
Theorem C18_attributes :
  (forall dims v, shaped dims v -> map (sel_list v) (ndindex dims) = map SVal (flat dims v))
  /\ (forall a idx, sel_attr (AtScalar a) idx = SVal a)
  /\ (forall ismx n1 n2 rows i j, 1 < n1 * n2 -> i < n1 -> j < n2 ->
        sel_attr (AtMat ismx n1 n2 rows) [i; j] = mat_get rows i j)
  /\ (forall ismx n rows k, 1 < n -> k < n -> sel_attr (AtMat ismx n 1 rows) [k] = mat_get rows k 0).
Proof.
  exact (conj attributes_list (conj attributes_scalar (conj attributes_matrix attributes_column))).
Qed.
Print Assumptions C18_attributes.

(* the expansion is defined whenever the names are (component count matches the shape) and every
   attribute is a scalar or a list of the FULL rank of the index tuple.  This hypothesis carves
   out exactly the recorded defect class (C18_attributes_refuted). *)
Theorem C18_expand_total (v : uvar) (names : list string) :
  opt_all (map (scalar_name (uname v) (ushape v)) (ndindex (iter_dims (ushape v)))) = Some names ->
  Forall (attr_full (iter_dims (ushape v))) (uattrs v) ->
  exists ex, expand_var v = Some ex.
Proof. exact (expand_total v names). Qed.
Print Assumptions C18_expand_total.

(* KNOWN DEFECT (mirrored by the model): `Sub s[2]` whose class declares `parameter Real k[2] =
   {3, 4}`: the flattened s.k has shape ((2,),(2,)), its value is the rank-1 list [3, 4]; indexing
   it with the rank-2 index raises, so the property "every array inside a component array becomes
   scalars carrying the matching element" fails on this input. *)
Theorem C18_attributes_refuted :
  exists v, ushape v = Nested [[2]; [2]]
            /\ uattrs v = [AtList (NNode [NLeaf (ANum 3); NLeaf (ANum 4)])]
            /\ shaped [2] (NNode [NLeaf (ANum 3); NLeaf (ANum 4)])
            /\ expand_var v = None.
Proof.
  exists (mk_uvar "s.k" (Nested [[2]; [2]]) (2, 2) [AtList (NNode [NLeaf (ANum 3%Z); NLeaf (ANum 4%Z)])]).
  repeat split.
  - cbn. eexists. split; [reflexivity|]. split; [reflexivity|]. repeat constructor; eexists; reflexivity.
Qed.
Print Assumptions C18_attributes_refuted.

(* outputs: the array's entry is replaced, in place and in order, by its scalars *)
Theorem C18_outputs_in_place (pre post : list string) (x : string) (new : list string) :
  ~ In x pre -> rename_outputs (pre ++ x :: post) x new = pre ++ new ++ post.
Proof. exact (outputs_in_place pre post x new). Qed.
Print Assumptions C18_outputs_in_place.

(* delay states: visiting them in list order (each visit pops the state and appends its scalars)
   leaves the scalars in the order of their states *)
Theorem C18_delay_order (f : string -> list string) (ds : list string) :
  fold_left (fun acc x => rename_delay acc x (f x)) ds ds = flat_map f ds.
Proof. exact (delay_order f ds). Qed.
Print Assumptions C18_delay_order.

(* PARTIAL: expanded residual = unexpanded residual under the renaming, for an element-wise
   expression language (element references, scalars, constants, + * -).  Missing: CasADi's matrix
   operations (mtimes, transpose, map), `substitute` itself and the vec/vertsplit splitting of
   matrix equations; those are covered by the residual oracle of the check, not by this theorem. *)
Theorem C18_residual_partial
  (dims : string -> nat * nat) (names : string -> list string)
  (envU : string -> nat -> nat -> Z) (envS : string -> Z) :
  (forall v, length (names v) = fst (dims v) * snd (dims v)) ->
  (forall v i j, i < fst (dims v) -> j < snd (dims v) ->
      envU v i j = envS (nth (j + i * snd (dims v)) (names v) EmptyString)) ->
  forall e, in_range dims e -> evalE envS (subst dims names e) = evalU envU envS e.
Proof. exact (residual_elementwise dims names envU envS). Qed.
Print Assumptions C18_residual_partial.

(* non-vacuity: a der() array inside a component array, an output renamed in place, a delay state *)
Example C18_example :
  option_map (fun r => (map (map fst) (fst r), st_outs (snd r), st_delay (snd r)))
    (expand_model
       [[mk_uvar "der(s.x)" (Nested [[2]; [2]]) (2, 2) [AtScalar ANaN]];
        [mk_uvar "_pymoca_delay_0" (Flat [2; 1]) (2, 1) [AtScalar ANaN];
         mk_uvar "o" (Nested [[2; 2]]) (2, 2) [AtList (NNode [NNode [NLeaf (ANum 1); NLeaf (ANum 2)];
                                                               NNode [NLeaf (ANum 3); NLeaf (ANum 4)]])]]]
       ["a"; "o"; "b"]%string ["_pymoca_delay_0"]%string)
  = Some ([["der(s[1].x[1])"; "der(s[1].x[2])"; "der(s[2].x[1])"; "der(s[2].x[2])"];
           ["_pymoca_delay_0[1,1]"; "_pymoca_delay_0[2,1]"; "o[1,1]"; "o[1,2]"; "o[2,1]"; "o[2,2]"]]%string,
          ["a"; "o[1,1]"; "o[1,2]"; "o[2,1]"; "o[2,2]"; "b"]%string,
          ["_pymoca_delay_0[1,1]"; "_pymoca_delay_0[2,1]"]%string).
Proof. vm_compute. reflexivity. Qed.
Print Assumptions C18_example.
